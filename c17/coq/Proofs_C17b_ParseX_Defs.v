(** C17b, extended printing/re-parsing round trip, stage 2: the text [parameters={"k": v, ...}] that
    [string_parameters] prints is parsed back ([params_parse]); facts on the parameter maps of a type
    ([shown]: what string_parameters shows, i.e. everything but the key __categorical__). *)
From Coq Require Import ZArith List Bool Lia ZifyBool String.
From AwkV Require Import Base Layout.
From AwkTypes Require Import Json Forms TypeStr Proofs_Json Proofs_Parse Proofs_C17b_ParseX_Json.
Import ListNotations.
Open Scope Z_scope.
Ltac Zify.zify_post_hook ::= Z.to_euclidean_division_equations.

(* ---------------------------------------------------------------- the printer, named pieces *)
Definition not_cat (kv : bytes * json) : bool := negb (bytes_eqb (fst kv) k_categorical).
Definition shown (p : params) : params := filter not_cat p.
Definition param_text (kv : bytes * json) : bytes := quote (fst kv) ++ p_colon ++ json_print (snd kv).
Definition sp_text (q : params) : bytes := p_parameters_eq ++ sep_concat p_comma (map param_text q) ++ [125].

Lemma string_parameters_shown p : string_parameters p = sp_text (shown p).
Proof. reflexivity. Qed.

(* ---------------------------------------------------------------- the parser *)
(* "k": v (", " "k": v)* "}" *)
Fixpoint pp_members (fuel : nat) (s : bytes) : res (params * bytes) :=
  match fuel with
  | O => Err EFuel
  | S fuel' =>
      do kr <- unquote s;
      match strip_prefix p_colon (snd kr) with
      | None => Err EValue
      | Some s1 =>
          do vr <- json_value s1;
          match snd vr with
          | c :: r =>
              if c =? 125 then Ok ([(fst kr, fst vr)], r)
              else match strip_prefix p_comma (snd vr) with
                   | Some rest => do lr <- pp_members fuel' rest; Ok ((fst kr, fst vr) :: fst lr, snd lr)
                   | None => Err EValue
                   end
          | [] => Err EValue
          end
      end
  end.

(* a std::map listing: strictly increasing keys; the key __categorical__ is never shown inside parameters={} *)
Definition params_wf (q : params) : bool := psorted q && forallb not_cat q.

(* parameters={ members } with at least one member: [parameters={}] is REJECTED -- it is only printed for a
   parameter map whose single entry is __categorical__ with a value other than true, whatever that value is *)
Definition params_parse (s : bytes) : res (params * bytes) :=
  match strip_prefix p_parameters_eq s with
  | None => Err EValue
  | Some s1 => do pr <- pp_members (length s1) s1; if params_wf (fst pr) then Ok pr else Err EValue
  end.

Definition pval_ok (kv : bytes * json) : bool := key_ok (fst kv) && json_ok (snd kv).
Definition params_ok (q : params) : bool :=
  match q with [] => false | _ => true end && psorted q && forallb not_cat q && forallb pval_ok q.

(* ---------------------------------------------------------------- correctness *)
Definition members_text (q : params) (rest : bytes) : bytes := sep_concat p_comma (map param_text q) ++ 125 :: rest.
Lemma pp_members_ok : forall q fuel rest, q <> [] -> forallb pval_ok q = true ->
  (length (members_text q rest) <= fuel)%nat ->
  pp_members fuel (members_text q rest) = Ok (q, rest).
Proof.
  unfold members_text. induction q as [|[k v] q IH]; intros fuel rest Hne Hok Hf; [congruence|].
  simpl in Hok. apply andb_true_iff in Hok as [Hkv Hok]. unfold pval_ok in Hkv. cbn [fst snd] in Hkv.
  apply andb_true_iff in Hkv as [Hk Hv].
  destruct fuel as [|fuel]; [rewrite app_length in Hf; simpl in Hf; lia|].
  destruct q as [|kv2 q].
  - cbn [map sep_concat]. unfold param_text. cbn [fst snd]. rewrite <- !app_assoc. cbn [pp_members].
    rewrite (unquote_quote k _ Hk). cbn [bind snd fst]. rewrite strip_prefix_app.
    rewrite (json_value_print v (125 :: rest) Hv) by (simpl; auto).
    cbn [bind snd fst]. change (125 =? 125) with true. reflexivity.
  - assert (Hlen : (length (members_text (kv2 :: q) rest) <= fuel)%nat). unfold members_text.
    { cbn [map] in Hf. rewrite sep_concat_cons2 in Hf. rewrite !app_length in Hf. rewrite app_length.
      change (length p_comma) with 2%nat in Hf. cbn [map]. lia. }
    cbn [map]. rewrite sep_concat_cons2. unfold param_text at 1. cbn [fst snd]. rewrite <- !app_assoc. cbn [pp_members].
    rewrite (unquote_quote k _ Hk). cbn [bind snd fst]. rewrite strip_prefix_app.
    rewrite (json_value_print v _ Hv) by (simpl; auto).
    cbn [bind snd fst]. change (p_comma ++ ?x) with (44 :: 32 :: x). cbv iota beta.
    change (44 =? 125) with false. cbv iota.
    change (44 :: 32 :: ?x) with (p_comma ++ x). rewrite strip_prefix_app.
    change (param_text kv2 :: map param_text q) with (map param_text (kv2 :: q)).
    rewrite (IH fuel rest); [reflexivity|discriminate|exact Hok|exact Hlen].
Qed.

Lemma shown_id q : forallb not_cat q = true -> shown q = q.
Proof.
  induction q as [|kv q IH]; [reflexivity|]. simpl. intros H. apply andb_true_iff in H as [H1 H2].
  rewrite H1, (IH H2). reflexivity.
Qed.

Theorem sp_text_parse q rest : params_ok q = true -> params_parse (sp_text q ++ rest) = Ok (q, rest).
Proof.
  unfold params_ok. intros H. apply andb_true_iff in H as [H Hv]. apply andb_true_iff in H as [H Hc].
  apply andb_true_iff in H as [Hne Hs].
  unfold params_parse, sp_text. rewrite <- !app_assoc. rewrite strip_prefix_app. cbn [app].
  rewrite (pp_members_ok q _ rest); [|destruct q; [discriminate Hne|discriminate]|exact Hv|apply le_n].
  cbn [bind fst]. unfold params_wf. rewrite Hs, Hc. reflexivity.
Qed.

Theorem string_parameters_parse p rest : params_ok p = true ->
  params_parse (string_parameters p ++ rest) = Ok (p, rest).
Proof.
  intros H. rewrite string_parameters_shown.
  assert (Hc : forallb not_cat p = true).
  { unfold params_ok in H. apply andb_true_iff in H as [H _]. apply andb_true_iff in H as [_ H]. exact H. }
  rewrite (shown_id p Hc). apply sp_text_parse, H.
Qed.

(* ---------------------------------------------------------------- parameter maps of types *)
Definition catval (kv : bytes * json) : bool :=
  if bytes_eqb (fst kv) k_categorical then match snd kv with JBool true => true | _ => false end else true.
(* sorted, values in the JSON fragment, and __categorical__ (if present) is true *)
Definition pvals_ok (p : params) : bool := psorted p && forallb (fun kv => pval_ok kv && catval kv) p.

Lemma psorted_cons_intro {V} k (v : V) r : psorted r = true ->
  (forall k' v', In (k', v') r -> bytes_ltb k k' = true) -> psorted ((k, v) :: r) = true.
Proof.
  intros Hs Hlt. destruct r as [|[k1 v1] r]; [reflexivity|].
  change (bytes_ltb k k1 && psorted ((k1, v1) :: r) = true). rewrite Hs, (Hlt k1 v1) by (left; reflexivity). reflexivity.
Qed.

Lemma psorted_filter {V} (f : bytes * V -> bool) p : psorted p = true -> psorted (filter f p) = true.
Proof.
  induction p as [|[k v] p IH]; intros Hs; [reflexivity|].
  destruct (psorted_cons k v p Hs) as [Hs' Hlt]. simpl. destruct (f (k, v)); [|apply IH, Hs'].
  apply psorted_cons_intro; [apply IH, Hs'|]. intros k' v' Hin. apply filter_In in Hin as [Hin _]. eapply Hlt, Hin.
Qed.

Lemma forallb_filter {A} (f g : A -> bool) l : forallb g l = true -> forallb g (filter f l) = true.
Proof.
  induction l as [|x l IH]; [reflexivity|]. simpl. intros H. apply andb_true_iff in H as [H1 H2].
  destruct (f x); simpl; [rewrite H1|]; auto.
Qed.

Lemma shown_not_cat p : forallb not_cat (shown p) = true.
Proof. apply forallb_forall. intros x Hx. apply filter_In in Hx as [_ Hx]. exact Hx. Qed.

Lemma pvals_shown p : pvals_ok p = true -> shown p <> [] -> params_ok (shown p) = true.
Proof.
  unfold pvals_ok, params_ok. intros H Hne. apply andb_true_iff in H as [Hs Hv].
  assert (H1 : psorted (shown p) = true) by (apply psorted_filter, Hs).
  assert (H3 : forallb pval_ok (shown p) = true).
  { apply forallb_filter. apply forallb_forall. intros x' Hx'. rewrite forallb_forall in Hv. specialize (Hv x' Hx').
    apply andb_true_iff in Hv as [Hv _]. exact Hv. }
  rewrite H1, H3, shown_not_cat. destruct (shown p); [congruence|reflexivity].
Qed.

Lemma shown_gt k (p : list (bytes * json)) :
  (forall k' v', In (k', v') p -> bytes_ltb k k' = true) -> k = k_categorical -> shown p = p.
Proof.
  intros Hlt ->. apply shown_id. apply forallb_forall. intros [k' v'] Hin. unfold not_cat. cbn [fst].
  destruct (bytes_eqb k' k_categorical) eqn:E; [|reflexivity]. apply bytes_eqb_eq in E. subst k'.
  specialize (Hlt _ _ Hin). rewrite (bytes_ltb_irrefl k_categorical) in Hlt. discriminate.
Qed.

(* putting __categorical__ back where the sorted map had it *)
Lemma pset_shown p v : psorted p = true -> pfind k_categorical p = Some v ->
  pset k_categorical v (shown p) = p.
Proof.
  induction p as [|[k v0] p IH]; intros Hs Hf; [discriminate|].
  destruct (psorted_cons k v0 p Hs) as [Hs' Hlt]. cbn [pfind] in Hf. unfold shown. cbn [filter]. unfold not_cat at 1. cbn [fst].
  destruct (bytes_eqb k k_categorical) eqn:E.
  - apply bytes_eqb_eq in E. subst k. injection Hf as ->. cbn [negb]. fold (shown p).
    rewrite (shown_gt k_categorical p Hlt eq_refl).
    destruct p as [|[k1 v1] p]; [reflexivity|]. cbn [pset]. rewrite (Hlt k1 v1) by (left; reflexivity). reflexivity.
  - cbn [negb]. fold (shown p). cbn [pset].
    assert (Hk : bytes_ltb k k_categorical = true).
    { clear IH Hs Hs' E. induction p as [|[k1 v1] p IHp]; [discriminate|]. cbn [pfind] in Hf.
      destruct (bytes_eqb k1 k_categorical) eqn:E1.
      - apply bytes_eqb_eq in E1. subst k1. apply (Hlt _ v1). left. reflexivity.
      - apply IHp; [exact Hf|]. intros k' v' Hin. apply (Hlt k' v'). right. exact Hin. }
    rewrite (bytes_ltb_asym _ _ Hk), Hk. f_equal. apply IH; assumption.
Qed.

Lemma is_categorical_pfind p : is_categorical p = true -> pfind k_categorical p = Some (JBool true).
Proof.
  unfold is_categorical. destruct (pfind k_categorical p) as [[| [|] | | | | |]|]; try discriminate. reflexivity.
Qed.

Lemma shown_nocat p : forallb catval p = true -> is_categorical p = false -> shown p = p.
Proof.
  induction p as [|[k v] p IH]; intros Hc Hn; [reflexivity|].
  simpl in Hc. apply andb_true_iff in Hc as [Hc1 Hc2]. unfold catval in Hc1. cbn [fst snd] in Hc1.
  unfold is_categorical in Hn. cbn [pfind] in Hn. unfold shown. cbn [filter]. unfold not_cat at 1. cbn [fst].
  destruct (bytes_eqb k k_categorical) eqn:E.
  - destruct v as [| [|] | | | | |]; discriminate.
  - cbn [negb]. f_equal. apply IH; [exact Hc2|exact Hn].
Qed.

Lemma pvals_catval p : pvals_ok p = true -> psorted p = true /\ forallb catval p = true.
Proof.
  unfold pvals_ok. intros H. apply andb_true_iff in H as [Hs Hv]. split; [exact Hs|].
  apply forallb_forall. intros x Hx. rewrite forallb_forall in Hv. specialize (Hv x Hx).
  apply andb_true_iff in Hv as [_ Hv]. exact Hv.
Qed.

(* the parameters a parser rebuilds from the shown ones and the categorical wrapper *)
Definition rebuild (cat : bool) (q : params) : params := if cat then pset k_categorical (JBool true) q else q.
Lemma rebuild_shown p : pvals_ok p = true -> rebuild (is_categorical p) (shown p) = p.
Proof.
  intros H. destruct (pvals_catval p H) as [Hs Hc]. unfold rebuild. destruct (is_categorical p) eqn:E.
  - apply pset_shown; [exact Hs|apply is_categorical_pfind, E].
  - apply shown_nocat; assumption.
Qed.

(* Type::parameters_empty says "nothing to show" *)
Lemma parameters_empty_shown p : pvals_ok p = true ->
  parameters_empty p = match shown p with [] => true | _ => false end.
Proof.
  intros H. destruct (pvals_catval p H) as [Hs Hc].
  destruct p as [|[k v] [|[k2 v2] p]]; [reflexivity| |].
  - simpl in Hc. rewrite andb_true_r in Hc. unfold catval in Hc. cbn [fst snd] in Hc.
    unfold parameters_empty, is_categorical, shown. cbn [pfind filter]. unfold not_cat. cbn [fst].
    destruct (bytes_eqb k k_categorical); [|reflexivity]. destruct v as [| [|] | | | | |]; try discriminate. reflexivity.
  - cbn [parameters_empty]. change (psorted ((k, v) :: (k2, v2) :: p)) with (bytes_ltb k k2 && psorted ((k2, v2) :: p)) in Hs.
    apply andb_true_iff in Hs as [Hlt _]. unfold shown. cbn [filter]. unfold not_cat. cbn [fst].
    destruct (bytes_eqb k k_categorical) eqn:E1; [|reflexivity]. cbn [negb].
    destruct (bytes_eqb k2 k_categorical) eqn:E2; [|reflexivity].
    apply bytes_eqb_eq in E1, E2. subst. rewrite bytes_ltb_irrefl in Hlt. discriminate.
Qed.

(* ---------------------------------------------------------------- examples *)
Definition params_example : params :=
  [(k_array, JStr s_string); ([122], JArr [JInt 1; JNull; JObj [([97], JBool true)]])].
Example params_example_ok :
  params_ok params_example = true /\
  string_parameters params_example = bs "parameters={""__array__"": ""string"", ""z"": [1,null,{""a"":true}]}"%string /\
  params_parse (string_parameters params_example ++ [93]) = Ok (params_example, [93]).
Proof. repeat split; vm_compute; reflexivity. Qed.
