(** C17b, Form::fromjson on ARBITRARY JSON, part 1: the image of fromjson.  Whatever JSON is given, a form that
    comes back has std::map parameters (sorted, NUL-free keys), NUL-free form / record keys, as many record keys as
    contents, int32 sizes, and a NumpyForm dtype that is format_to_dtype of its format and itemsize ([form_img]).
    It need NOT have printable index widths, a canonical format, or even a primitive dtype ([shape_ok]):
      form_fromjson j = Ok f -> (form_wf f = true <-> shape_ok f = true). *)
From Coq Require Import ZArith List Bool Lia.
From AwkV Require Import Base Layout.
From AwkTypes Require Import Json Forms Proofs_Json Proofs_C17b_Json.
Import ListNotations.
Open Scope Z_scope.

Section JsonInd.
  Variable P : json -> Prop.
  Hypothesis HNull : P JNull.
  Hypothesis HBool : forall b, P (JBool b).
  Hypothesis HInt : forall z, P (JInt z).
  Hypothesis HDbl : forall t, P (JDbl t).
  Hypothesis HStr : forall s, P (JStr s).
  Hypothesis HArr : forall l, Forall P l -> P (JArr l).
  Hypothesis HObj : forall m, Forall (fun kv : bytes * json => P (snd kv)) m -> P (JObj m).
  Fixpoint json_ind' (j : json) : P j :=
    match j with
    | JNull => HNull | JBool b => HBool b | JInt z => HInt z | JDbl t => HDbl t | JStr s => HStr s
    | JArr l => HArr l ((fix G (l : list json) : Forall P l :=
                           match l with [] => Forall_nil P | x :: xs => Forall_cons x (json_ind' x) (G xs) end) l)
    | JObj m => HObj m ((fix G (m : list (bytes * json)) : Forall (fun kv : bytes * json => P (snd kv)) m :=
                           match m with
                           | [] => Forall_nil _
                           | (k, v) :: r => Forall_cons (k, v) (json_ind' v) (G r)
                           end) m)
    end.
End JsonInd.

(* ---------------------------------------------------------------- the image *)
Fixpoint form_img (f : form) : bool :=
  match f with
  | FNumpy m inner itemsize format dt =>
      meta_wf m && forallb is_int32 inner && is_int32 itemsize && fdtype_eqb dt (format_to_dtype format itemsize)
  | FEmpty m => meta_wf m
  | FListOffset m _ c | FList m _ _ c | FIndexed m _ c | FIndexedOption m _ c | FByteMasked m _ c _
  | FBitMasked m _ c _ _ | FUnmasked m c => meta_wf m && form_img c
  | FRegular m c size => meta_wf m && is_int32 size && form_img c
  | FUnion m _ _ cs => meta_wf m && forallb form_img cs
  | FRecord m ks cs =>
      meta_wf m && forallb form_img cs &&
      match ks with Some ks => Nat.eqb (length ks) (length cs) && forallb nonul ks | None => true end
  | FVirtual m g _ => meta_wf m && match g with Some g' => form_img g' | None => true end
  end.

Lemma fdtype_eqb_refl d : fdtype_eqb d d = true.
Proof. destruct d as [[]| | | | | | | |]; reflexivity. Qed.

Lemma jfind_In k m v : jfind k m = Some v -> exists k', In (k', v) m.
Proof.
  induction m as [|[k1 v1] m IH]; simpl; [discriminate|]. destruct (bytes_eqb k1 k).
  - intros H. inversion H; subst. exists k1. left. reflexivity.
  - intros H. destruct (IH H) as [k' Hin]. exists k'. right. exact Hin.
Qed.

Lemma fold_pset_wf (l : list (bytes * json)) : forall acc : params,
  psorted acc = true -> forallb (fun kv => nonul (fst kv)) acc = true ->
  psorted (fold_left (fun acc kv => pset (cstr (fst kv)) (snd kv) acc) l acc) = true /\
  forallb (fun kv => nonul (fst kv)) (fold_left (fun acc kv => pset (cstr (fst kv)) (snd kv) acc) l acc) = true.
Proof.
  induction l as [|[k v] l IH]; intros acc H1 H2; simpl; [split; assumption|].
  apply IH; [apply psorted_pset; exact H1|apply nonul_keys_pset; [apply nonul_cstr|exact H2]].
Qed.

Lemma get_meta_wf m mt : get_meta m = Ok mt -> meta_wf mt = true.
Proof.
  unfold get_meta. destruct (get_hid m) as [h|]; [|discriminate]. cbn [bind].
  destruct (get_params m) as [p|] eqn:Ep; [|discriminate]. cbn [bind].
  destruct (get_form_key m) as [k|] eqn:Ek; [|discriminate]. cbn [bind]. intros H. inversion H; subst. clear H.
  unfold meta_wf. cbn [m_params m_key].
  assert (Hp : psorted p = true /\ forallb (fun kv => nonul (fst kv)) p = true).
  { unfold get_params in Ep. destruct (jfind k_parameters m) as [[]|]; try discriminate Ep; inversion Ep; subst;
      [apply fold_pset_wf; reflexivity|split; reflexivity]. }
  destruct Hp as [H1 H2]. rewrite H1, H2. cbn [andb].
  unfold get_form_key in Ek. destruct (jfind k_form_key m) as [[]|]; try discriminate Ek; inversion Ek; subst;
    try reflexivity. apply nonul_cstr.
Qed.

Lemma from_primitive_inv s f : from_primitive_name s = Ok f ->
  exists dt, fdtype_eqb dt FNotPrimitive = false /\ f = FNumpy meta0 [] (dtype_to_itemsize dt) (dtype_to_format dt) dt.
Proof.
  unfold from_primitive_name. intros H. exists (name_to_dtype (cstr s)).
  destruct (name_to_dtype (cstr s)) as [[]| | | | | | | |]; try discriminate H; inversion H; split; reflexivity.
Qed.

Lemma itemsize_int32 dt : is_int32 (dtype_to_itemsize dt) = true.
Proof. destruct dt as [[]| | | | | | | |]; reflexivity. Qed.

Lemma mapM_ints_inv l : forall s,
  mapM (fun x : json => match x with JInt n => if is_int32 n then Ok n else Err EValue | _ => Err EValue end) l = Ok s ->
  forallb is_int32 s = true.
Proof.
  induction l as [|x l IH]; intros s H; simpl in H; [inversion H; reflexivity|].
  destruct x; try discriminate H. destruct (is_int32 z) eqn:Ez; [|discriminate H]. cbn [bind] in H.
  destruct (mapM _ l) as [s'|] eqn:E; [|discriminate H]. cbn [bind] in H. inversion H; subst. simpl. rewrite Ez. exact (IH _ eq_refl).
Qed.

Section Img.
  Variable rec : json -> res form.
  Definition Qr (j : json) : Prop := forall f, rec j = Ok f -> form_img f = true.

  Lemma mapM_id_img l : Forall Qr l -> forall cs, mapM_id (map rec l) = Ok cs -> forallb form_img cs = true.
  Proof.
    induction 1 as [|x l Hx Hl IH]; intros cs H; simpl in H; [inversion H; reflexivity|].
    destruct (rec x) as [c|] eqn:Ex; [|discriminate H]. cbn [bind] in H.
    destruct (mapM_id (map rec l)) as [cs'|]; [|discriminate H]. cbn [bind] in H. inversion H; subst.
    simpl. rewrite (Hx c Ex), (IH cs' eq_refl). reflexivity.
  Qed.

  Lemma mapM_id_fields_img (fs : list (bytes * json)) : Forall (fun kv => Qr (snd kv)) fs ->
    forall cs, mapM_id (map (fun kv : bytes * json => rec (snd kv)) fs) = Ok cs ->
    forallb form_img cs = true /\ length cs = length fs.
  Proof.
    induction 1 as [|x l Hx Hl IH]; intros cs H; simpl in H; [inversion H; split; reflexivity|].
    destruct (rec (snd x)) as [c|] eqn:Ex; [|discriminate H]. cbn [bind] in H.
    destruct (mapM_id _) as [cs'|]; [|discriminate H]. cbn [bind] in H. inversion H; subst.
    destruct (IH cs' eq_refl) as [I1 I2]. simpl. rewrite (Hx c Ex), I1, I2. split; reflexivity.
  Qed.

  Lemma content_inv k m c : req (jfind_map rec k m) = Ok c -> exists v, jfind k m = Some v /\ rec v = Ok c.
  Proof. rewrite jfind_map_spec. destruct (jfind k m) as [v|]; [|discriminate]. intros H. exists v. split; [reflexivity|exact H]. Qed.

  Variable m : list (bytes * json).
  Hypothesis Hval : forall k v, In (k, v) m -> Qr v.
  Hypothesis Harr : forall k l, In (k, JArr l) m -> Forall Qr l.
  Hypothesis Hobj : forall k fs, In (k, JObj fs) m -> Forall (fun kv : bytes * json => Qr (snd kv)) fs.

  Lemma content_img k c : req (jfind_map rec k m) = Ok c -> form_img c = true.
  Proof. intros H. destruct (content_inv _ _ _ H) as (v & Hj & Hr). destruct (jfind_In _ _ _ Hj) as [k' Hin]. exact (Hval _ _ Hin c Hr). Qed.

  Ltac bnd H :=
    repeat match type of H with
    | bind ?r _ = Ok _ => let E := fresh "E" in destruct r eqn:E; [cbn [bind] in H | discriminate H]
    end.

  Ltac done Em :=
    match goal with H : Ok _ = Ok _ |- _ => inversion H; subst; clear H end;
    cbn [form_img]; rewrite (get_meta_wf _ _ Em);
    repeat match goal with E : req (jfind_map rec _ m) = Ok _ |- _ => rewrite (content_img _ _ E); clear E end;
    reflexivity.

  Lemma fromjson_obj_img : forall f, fromjson_obj rec m = Ok f -> form_img f = true.
  Proof.
    intros f H. unfold fromjson_obj in H. cbv zeta in H.
    destruct (jfind k_class m) as [[| | | |cls| |]|]; try discriminate H.
    destruct (get_meta m) as [mt|] eqn:Em; [|discriminate H]. cbn [bind] in H.
    destruct (bytes_eqb (cstr cls) c_NumpyArray).
    { match type of H with bind ?r _ = _ => destruct r as [[fmt isz]|] eqn:Efi; [cbn [bind] in H|discriminate H] end.
      assert (Hisz : is_int32 isz = true).
      { destruct (jfind k_primitive m) as [[| | | |p| |]|].
        5: { destruct (from_primitive_name p) as [tmp|] eqn:Ep; [|discriminate Efi]. cbn [bind] in Efi.
             destruct (from_primitive_inv _ _ Ep) as (dt & _ & ->). inversion Efi; subst. apply itemsize_int32. }
        all: destruct (jfind k_format m) as [[| | | |fm| |]|]; try discriminate Efi;
             destruct (jfind k_itemsize m) as [[| |n| | | |]|]; try discriminate Efi;
             destruct (is_int32 n) eqn:En; [|discriminate Efi]; inversion Efi; subst; exact En. }
      bnd H. inversion H; subst; clear H. cbn [form_img]. rewrite (get_meta_wf _ _ Em), Hisz, fdtype_eqb_refl.
      destruct (jfind k_inner_shape m) as [[| | | | |l0|]|]; try (inversion E; subst; reflexivity).
      rewrite (mapM_ints_inv _ _ E). reflexivity. }
    destruct (bytes_eqb (cstr cls) c_RecordArray).
    { rewrite jfind_map_spec in H. destruct (jfind k_contents m) as [v|] eqn:Ev; [|discriminate H].
      destruct (jfind_In _ _ _ Ev) as [k' Hin]. cbn [option_map req] in H.
      destruct v as [| | | | |l0|fs]; try discriminate H; bnd H; inversion H; subst; clear H; cbn [form_img];
        rewrite (get_meta_wf _ _ Em); cbn [andb].
      - rewrite (mapM_id_img l0 (Harr _ _ Hin) _ E). reflexivity.
      - destruct (mapM_id_fields_img fs (Hobj _ _ Hin) _ E) as [I1 I2]. rewrite I1, map_length, I2, Nat.eqb_refl. cbn [andb].
        clear. induction fs as [|kv fs IH]; simpl; [reflexivity|]. rewrite nonul_cstr. exact IH. }
    destruct (width_preset (cstr cls) c_ListOffsetArray c_ListOffsetArray64 c_ListOffsetArrayU32 c_ListOffsetArray32).
    { bnd H. done Em. }
    destruct (width_preset (cstr cls) c_ListArray c_ListArray64 c_ListArrayU32 c_ListArray32).
    { bnd H. done Em. }
    destruct (bytes_eqb (cstr cls) c_RegularArray).
    { bnd H. destruct (jfind k_size m) as [[| |n| | | |]|]; try discriminate H.
      destruct (is_int32 n) eqn:En; [|discriminate H]. inversion H; subst; clear H. cbn [form_img].
      rewrite (get_meta_wf _ _ Em), En, (content_img _ _ E). reflexivity. }
    destruct (width_preset2 (cstr cls) c_IndexedOptionArray c_IndexedOptionArray64 c_IndexedOptionArray32).
    { bnd H. done Em. }
    destruct (width_preset (cstr cls) c_IndexedArray c_IndexedArray64 c_IndexedArrayU32 c_IndexedArray32).
    { bnd H. done Em. }
    destruct (bytes_eqb (cstr cls) c_ByteMaskedArray).
    { bnd H. done Em. }
    destruct (bytes_eqb (cstr cls) c_BitMaskedArray).
    { bnd H. done Em. }
    destruct (bytes_eqb (cstr cls) c_UnmaskedArray).
    { bnd H. done Em. }
    destruct (width_preset (cstr cls) c_UnionArray c_UnionArray8_64 c_UnionArray8_U32 c_UnionArray8_32).
    { bnd H. rewrite jfind_map_spec in H. destruct (jfind k_contents m) as [v|] eqn:Ev; [|discriminate H].
      destruct (jfind_In _ _ _ Ev) as [k' Hin]. cbn [option_map req] in H.
      destruct v as [| | | | |l0|fs]; try discriminate H. bnd H. inversion H; subst; clear H. cbn [form_img].
      rewrite (get_meta_wf _ _ Em), (mapM_id_img l0 (Harr _ _ Hin) _ E1). reflexivity. }
    destruct (bytes_eqb (cstr cls) c_EmptyArray).
    { inversion H; subst. cbn [form_img]. exact (get_meta_wf _ _ Em). }
    destruct (bytes_eqb (cstr cls) c_VirtualArray); [|discriminate H].
    rewrite jfind_map_spec in H. destruct (jfind k_form m) as [v|] eqn:Ev; [|discriminate H].
    destruct (jfind_In _ _ _ Ev) as [k' Hin]. cbn [option_map req] in H.
    assert (Hg : forall g, match v with JNull => Ok None | _ => do g0 <- rec v; Ok (Some g0) end = Ok g ->
                 match g with Some g' => form_img g' = true | None => True end).
    { intros g Hg. destruct v; try (inversion Hg; subst; exact I);
        (destruct (rec _) as [g0|] eqn:Eg; [|discriminate Hg]; cbn [bind] in Hg; inversion Hg; subst;
         exact (Hval _ _ Hin g0 Eg)). }
    bnd H. inversion H; subst; clear H. cbn [form_img]. rewrite (get_meta_wf _ _ Em). cbn [andb].
    specialize (Hg _ eq_refl). destruct a; [exact Hg|reflexivity].
  Qed.
End Img.

(** (A) the image of Form::fromjson, for arbitrary JSON *)
Theorem form_fromjson_image_thm : forall j f, form_fromjson j = Ok f -> form_img f = true.
Proof.
  intros j.
  assert (G : Qr form_fromjson j /\
              match j with
              | JArr l => Forall (Qr form_fromjson) l
              | JObj fs => Forall (fun kv : bytes * json => Qr form_fromjson (snd kv)) fs
              | _ => True
              end).
  { induction j as [|b|z|t|s|l IH|m IH] using json_ind'; try (split; [intros f H; discriminate H|exact I]).
    - split; [|exact I]. intros f H. cbn [form_fromjson] in H.
      destruct (from_primitive_inv _ _ H) as (dt & Hd & ->). cbn [form_img]. rewrite itemsize_int32.
      rewrite (format_to_dtype_canonical dt Hd), fdtype_eqb_refl. reflexivity.
    - split; [intros f H; discriminate H|]. eapply Forall_impl; [|exact IH]. intros a Ha. exact (proj1 Ha).
    - assert (Hch : Forall (fun kv : bytes * json => Qr form_fromjson (snd kv)) m).
      { eapply Forall_impl; [|exact IH]. intros a Ha. exact (proj1 Ha). }
      split; [|exact Hch]. intros f H. cbn [form_fromjson] in H.
      rewrite Forall_forall in IH.
      apply (fromjson_obj_img form_fromjson m); [| | |exact H].
      + intros k v Hin. exact (proj1 (IH _ Hin)).
      + intros k l Hin. exact (proj2 (IH _ Hin)).
      + intros k fs Hin. exact (proj2 (IH _ Hin)). }
  exact (proj1 G).
Qed.

(* ---------------------------------------------------------------- the part fromjson does not normalise *)
Fixpoint shape_ok (f : form) : bool :=
  match f with
  | FNumpy _ _ itemsize format dt =>
      negb (fdtype_eqb dt FNotPrimitive) && (itemsize =? dtype_to_itemsize dt) && bytes_eqb format (dtype_to_format dt)
  | FEmpty _ => true
  | FListOffset _ o c => width3 o && shape_ok c
  | FList _ s e c => width3 s && iform_eqb s e && shape_ok c
  | FIndexed _ i c => width3 i && shape_ok c
  | FIndexedOption _ i c => (match i with Fi32 | Fi64 => true | _ => false end) && shape_ok c
  | FRegular _ c _ | FByteMasked _ _ c _ | FBitMasked _ _ c _ _ | FUnmasked _ c => shape_ok c
  | FUnion _ t i cs => iform_eqb t Fi8 && width3 i && forallb shape_ok cs
  | FRecord _ _ cs => forallb shape_ok cs
  | FVirtual _ g _ => match g with Some g' => shape_ok g' | None => true end
  end.

Lemma forallb_Forall2 (A B C : form -> bool) cs :
  Forall (fun c => A c = true -> B c = true -> C c = true) cs ->
  forallb A cs = true -> forallb B cs = true -> forallb C cs = true.
Proof.
  induction 1 as [|c cs Hc Hcs IH]; intros HA HB; [reflexivity|]. simpl in *.
  apply andb_true_iff in HA as [A1 A2]. apply andb_true_iff in HB as [B1 B2]. rewrite (Hc A1 B1), (IH A2 B2). reflexivity.
Qed.
Lemma forallb_Forall1 (A C : form -> bool) cs :
  Forall (fun c => A c = true -> C c = true) cs -> forallb A cs = true -> forallb C cs = true.
Proof.
  induction 1 as [|c cs Hc Hcs IH]; intros HA; [reflexivity|]. simpl in *.
  apply andb_true_iff in HA as [A1 A2]. rewrite (Hc A1), (IH A2). reflexivity.
Qed.

Ltac splitall :=
  repeat match goal with H : _ && _ = true |- _ => apply andb_true_iff in H; destruct H end.
Ltac conj := repeat first [assumption | reflexivity | (apply andb_true_iff; split)].

Lemma img_shape_wf f : form_img f = true -> shape_ok f = true -> form_wf f = true.
Proof.
  induction f as [m inner itemsize format dt|m|m o c IH|m s e c IH|m c size IH|m i c IH|m i c IH|m k c vw IH
                 |m k c vw lsb IH|m c IH|m t i cs IH|m ks cs IH|m hl|m g hl IH] using form_ind';
    cbn [form_img shape_ok form_wf]; intros H1 H2; splitall; conj; try (apply IH; assumption).
  - eapply forallb_Forall2; eassumption.
  - eapply forallb_Forall2; eassumption.
Qed.

Lemma wf_shape f : form_wf f = true -> shape_ok f = true.
Proof.
  induction f as [m inner itemsize format dt|m|m o c IH|m s e c IH|m c size IH|m i c IH|m i c IH|m k c vw IH
                 |m k c vw lsb IH|m c IH|m t i cs IH|m ks cs IH|m hl|m g hl IH] using form_ind';
    cbn [shape_ok form_wf]; intros H1; splitall; conj; try (apply IH; assumption).
  - eapply forallb_Forall1; eassumption.
  - eapply forallb_Forall1; eassumption.
Qed.

(** what fromjson returns is well-formed (= survives its own round trip) exactly when its index widths are those of
    an existing class and its NumpyForm format / itemsize are the canonical ones of a primitive dtype *)
Theorem form_fromjson_wf_iff_thm : forall j f, form_fromjson j = Ok f -> (form_wf f = true <-> shape_ok f = true).
Proof.
  intros j f H. split; [apply wf_shape|]. apply img_shape_wf. exact (form_fromjson_image_thm j f H).
Qed.

(* fromjson . tojson . fromjson = fromjson exactly on those *)
Theorem form_fromjson_reprint_iff_thm : forall j f v, form_fromjson j = Ok f ->
  (form_fromjson (form_tojson v f) = Ok f <-> shape_ok f = true).
Proof.
  intros j f v H. rewrite form_roundtrip_iff_thm. exact (form_fromjson_wf_iff_thm j f H).
Qed.
