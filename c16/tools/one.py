"""python3 c16/tools/one.py '<case line>' : run one case through py_c16.py and print the decoded items one per line"""
import sys, re, subprocess, os
line = sys.argv[1]
env = dict(os.environ, PYTHONHASHSEED='0', PYTHONWARNINGS='ignore')
p = subprocess.run(['/venv/bin/python', '/verif/harness/py_c16.py'], input=line + '\n', capture_output=True, text=True, env=env)
def f(m):
    try:
        s = bytes.fromhex(m.group(1)).decode('utf-8', 'replace')
    except Exception:
        return m.group(0)
    s = s.replace('"has_identities":false,', '').replace('"parameters":{},', '').replace('\n', ' | ')
    return '«' + s[:int(sys.argv[2]) if len(sys.argv) > 2 else 400] + '»'
sys.path.insert(0, '/verif/harness')
import props.c16 as M
for ol in p.stdout.splitlines():
    t = M.parse(ol)
    print(t[0], t[1])
    for it in t[2:]:
        print('  ', re.sub(r'\bx((?:[0-9a-f][0-9a-f])+)\b', f, M.unparse(it)))
print(p.stderr[-2000:])
