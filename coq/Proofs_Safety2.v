(** C12 (memory safety half), part 2: flatten.  On EVERY valid layout that has a value (unions, strings, n-d leaves,
    EmptyArray included) and every axis, [flatten_model] -- carry-based gathering of the kept ranges, inner offsets
    handed upwards and re-read by the enclosing list / option node -- never reads outside a buffer; it has no fuel.
    Built on the invariant of Proofs_Closure3 ([flat_ok]: the inner offsets handed upwards are sorted and bounded by the
    length of the flattened content) plus the length of those offsets ([flat_len]). *)
From Coq Require Import ZArith List Bool Lia ZifyBool.
From AwkV Require Import Base Layout LayoutInd Valid Types AtAxis Carry Ops_Struct Ops_Flatten
                         Typing Proofs_Typing Proofs_C11 Proofs_Lists Proofs_ToList Proofs_Carry Proofs_CarryValid
                         Proofs_AtAxis Proofs_AtAxisOps Proofs_C12 Proofs_Closure Proofs_Closure2 Proofs_Closure3
                         Proofs_Safety.
Import ListNotations.
Open Scope Z_scope.

(* ---------------------------------------------------------------- number of (start, stop) pairs of a list node *)
Lemma list_bounds_len p c b cc :
  Valid p c -> list_bounds c = Ok (b, cc) -> 0 <= clen cc -> zlen b = clen c.
Proof.
  intros HV Hb Hcc. inversion HV; subst; cbn [list_bounds] in Hb; try discriminate.
  - destruct o as [|a o']; [discriminate|]. remember (pairs (a :: o')) as P eqn:EP. inversion Hb; subst.
    cbn [clen]. rewrite zlen_pairs by discriminate. reflexivity.
  - destruct (zlen e <? zlen s) eqn:E; [discriminate|]. inversion Hb; subst. cbn [clen]. rewrite zlen_zip. lia.
  - destruct (size <? 0) eqn:E; [discriminate|]. inversion Hb; subst. cbn [clen]. rewrite zlen_map, zlen_iota_max.
    destruct (size =? 0) eqn:Ez; [lia|]. assert (0 <= clen cc / size) by (apply Z.div_pos; lia). lia.
Qed.

(* ---------------------------------------------------------------- length of the offsets handed upwards *)
Definition flat_len (c : content) (r : list Z * content) : Prop := fst r = [] \/ zlen (fst r) = clen c + 1.

Lemma at_list_len rec p d ax b c c' rewrap r :
  zlen b = clen c -> fl_at_list rec p d ax b c' rewrap = Ok r -> flat_len c r.
Proof.
  intros Hn H. unfold fl_at_list in H. destruct (ax =? d + 1).
  - destruct (is_strk p); [discriminate|]. apply bind_Ok in H as (fc & _ & H). inversion H; subst r.
    right. cbn [fst]. unfold lens_of. rewrite zlen_offsets_from, zlen_map. lia.
  - apply bind_Ok in H as ([inner fc] & _ & H). destruct inner as [|i0 inner'].
    + inversion H. left. reflexivity.
    + apply bind_Ok in H as (s & _ & H). apply bind_Ok in H as (e & _ & H). inversion H. left. reflexivity.
Qed.

Lemma at_option_len rec ix c rewrap r :
  zlen ix = clen c -> fl_at_option rec ix rewrap = Ok r -> flat_len c r.
Proof.
  intros Hn H. unfold fl_at_option in H. apply bind_Ok in H as ([inner fc] & _ & H). destruct inner as [|i0 inner'].
  - inversion H. left. reflexivity.
  - apply bind_Ok in H as (rs & Hrs & H). apply bind_Ok in H as (fc' & _ & H). inversion H; subst r.
    right. cbn [fst]. unfold lens_of. rewrite zlen_offsets_from, zlen_map, (mapM_zlen _ _ _ Hrs). lia.
Qed.

Lemma option_index_len p c ix c0 : Valid p c -> option_index c = Ok (ix, c0) -> 0 <= clen c -> zlen ix = clen c.
Proof.
  intros HV H Hc. inversion HV; subst; cbn [option_index] in H; try discriminate.
  - inversion H; subst. cbn [clen]. apply zlen_map.
  - inversion H; subst. cbn [clen]. rewrite zlen_map, zlen_zip, zlen_iota by apply zlen_nonneg. lia.
  - apply bind_Ok in H as (ix0 & Hix0 & H). inversion H; subst. cbn [clen].
    rewrite (mapM_zlen _ _ _ Hix0), zlen_iota by assumption. reflexivity.
  - inversion H; subst. cbn [clen] in *. rewrite zlen_iota_max. lia.
Qed.

Lemma flat_len_all c : forall p d axis r vs,
  Valid p c -> to_list c = Ok vs -> flat_p p c d axis = Ok r -> flat_len c r.
Proof.
  induction c as [dt shape data| |w o c IHc|w s e c IHc|c size zl IHc|w ix c IHc|w ix c IHc|m vw c IHc
                 |m vw lsb n c IHc|c IHc|w t ix cs IHcs|cs ks n IHcs|arr rn c IHc] using content_ind';
    intros p d axis r vs HV Hl H; pose proof HV as HV0; pose proof (to_list_len _ _ Hl) as Hlen; pose proof (zlen_nonneg vs) as Hnn;
    inversion HV; subst;
    rewrite flat_p_eq in H; apply bind_Ok in H as (ax & _ & H); unfold flat_body in H;
    (destruct (ax =? d) eqn:Ed; [discriminate|]); try discriminate.
  - (* Empty *) inversion H. right. reflexivity.
  - (* ListOffset *)
    destruct o as [|a o']; [discriminate|].
    eapply (at_list_len _ p d ax (pairs (a :: o')) (ListOffset w (a :: o') c)); [|exact H].
    cbn [clen]. rewrite zlen_pairs by discriminate. reflexivity.
  - (* ListA *)
    destruct (zlen e <? zlen s) eqn:Ez; [discriminate|].
    eapply (at_list_len _ p d ax (zip s e) (ListA w s e c)); [|exact H]. cbn [clen]. rewrite zlen_zip. lia.
  - (* Regular *)
    apply bind_Ok in H as ([b cc] & Hb & H). cbn [fst] in H.
    rewrite to_list_Regular in Hl. apply bind_Ok in Hl as (vs0 & Hl0 & _).
    pose proof (to_list_len _ _ Hl0) as Hlen0. pose proof (zlen_nonneg vs0).
    destruct (list_bounds_valid _ _ _ _ HV0 Hb) as (Hcc & _). cbn [list_content] in Hcc. inversion Hcc; subst cc.
    eapply (at_list_len _ p d ax b (Regular c size zl)); [|exact H].
    eapply list_bounds_len; [exact HV0|exact Hb|lia].
  - (* Indexed *) eapply (at_option_len _ ix (Indexed w ix c)); [reflexivity|exact H].
  - (* IndexedOption *) eapply (at_option_len _ ix (IndexedOption w ix c)); [reflexivity|exact H].
  - (* ByteMasked *)
    apply bind_Ok in H as ([ix0 c0] & Hoi & H). cbn [fst] in H.
    eapply (at_option_len _ ix0 (ByteMasked m vw c)); [|exact H]. eapply option_index_len; [exact HV0|exact Hoi|lia].
  - (* BitMasked *)
    apply bind_Ok in H as ([ix0 c0] & Hoi & H). cbn [fst] in H.
    eapply (at_option_len _ ix0 (BitMasked m vw lsb n c)); [|exact H]. eapply option_index_len; [exact HV0|exact Hoi|lia].
  - (* Unmasked *)
    apply bind_Ok in H as ([inner fc] & Hr & H). rewrite to_list_Unmasked in Hl.
    match goal with HVc : Valid None c |- _ => pose proof (IHc None _ _ _ _ HVc Hl Hr) as Y end. unfold flat_len in *. cbn [fst clen] in *.
    destruct inner as [|i0 inner']; inversion H; subst r; cbn [fst]; [left; reflexivity|exact Y].
  - (* Record *)
    destruct (ax =? d + 1); [discriminate|]. apply bind_Ok in H as (cs' & _ & H). inversion H. left. reflexivity.
  - (* Par *)
    rewrite to_list_Par in Hl. apply bind_Ok in Hl as (vs0 & Hl0 & _).
    match goal with HVc : Valid arr c |- _ => exact (IHc arr _ _ _ _ HVc Hl0 H) end.
Qed.

(* ---------------------------------------------------------------- no out-of-bounds access *)
Lemma ranges_content_total c vs bs :
  Valid None c -> to_list c = Ok vs -> Forall (rng_ok (clen c)) bs -> exists fc, ranges_content c bs = Ok fc.
Proof.
  intros HV Hl Hb. unfold ranges_content.
  assert (Hix : Forall (fun i => 0 <= i < clen c) (concat (map (fun ab : Z * Z => range (fst ab) (snd ab)) bs))).
  { apply Forall_forall. intros i Hi. apply in_concat in Hi as (l & Hl' & Hi). apply in_map_iff in Hl' as (ab & <- & Hab).
    apply range_In in Hi. rewrite Forall_forall in Hb. specialize (Hb ab Hab). unfold rng_ok in Hb. lia. }
  destruct (carry_spec c vs _ HV Hl Hix) as (c3 & Hc3 & _). exists c3. exact Hc3.
Qed.

Definition flat_inv (c : content) (r : list Z * content) : Prop := flat_ok c r /\ flat_len c r.

Lemma at_list_clean rec p d ax b c c' vs0 rewrap :
  Valid p c -> list_content c = Some c' -> Forall (pair_ok (clen c')) b ->
  (is_strk p = false -> Valid None c') -> ParamOk p c -> to_list c' = Ok vs0 ->
  rec = flat_p None c' (d + 1) ax -> clean rec ->
  (forall r0, rec = Ok r0 -> Valid None c' -> flat_inv c' r0) ->
  clean (fl_at_list rec p d ax b c' rewrap).
Proof.
  intros HV Hc Hb Hvc Hp Hl0 Hrec Hcl IH. unfold fl_at_list.
  pose proof (to_list_len _ _ Hl0) as Hlen. pose proof (zlen_nonneg vs0) as Hnn.
  destruct (squash_rng (clen c') b ltac:(lia) Hb) as [Hsq Hsl]. fold (squash b).
  destruct (ax =? d + 1) eqn:E.
  - destruct (is_strk p) eqn:Es; [exact I|]. specialize (Hvc eq_refl).
    destruct (ranges_content_total c' vs0 (squash b) Hvc Hl0 Hsq) as [fc Hfc]. rewrite Hfc. exact I.
  - apply clean_bind; [exact Hcl|]. intros [inner fc] Hr.
    destruct inner as [|i0 inner']; [exact I|].
    assert (HVc : Valid None c').
    { destruct (is_strk p) eqn:Es; [|auto]. exfalso.
      destruct (ParamOk_str _ _ Hp Es) as (c0 & k & rn & n & dd & Hc0 & -> & _). rewrite Hc in Hc0. inversion Hc0; subst.
      eapply flat_p_chars. exact Hr. }
    destruct (IH _ Hr HVc) as (_ & [Hnil|Hzl]); [discriminate|]. cbn [fst] in Hzl.
    assert (Hget : forall x, 0 <= x <= clen c' -> exists y, get (i0 :: inner') x = Ok y).
    { intros x Hx. apply get_ok. lia. }
    assert (Hrm : forall l, Forall (fun x => 0 <= x <= clen c') l -> exists ys, remap (i0 :: inner') l = Ok ys).
    { intros l Hf. unfold remap. apply mapM_total. intros x Hx. rewrite Forall_forall in Hf. apply Hget, Hf, Hx. }
    destruct (Hrm (map fst (squash b))) as [s Hs].
    { apply Forall_map. eapply Forall_impl; [|exact Hsq]. unfold rng_ok. intros ab. lia. }
    destruct (Hrm (map snd (squash b))) as [e He].
    { apply Forall_map. eapply Forall_impl; [|exact Hsq]. unfold rng_ok. intros ab. lia. }
    cbv zeta. fold (squash b). rewrite Hs, He. exact I.
Qed.

Lemma at_option_clean rec ix c' rewrap :
  clean rec -> (forall r0, rec = Ok r0 -> flat_inv c' r0) -> Forall (fun i => i < clen c') ix ->
  clean (fl_at_option rec ix rewrap).
Proof.
  intros Hcl IH Hix. unfold fl_at_option. apply clean_bind; [exact Hcl|]. intros [inner fc] Hr.
  destruct (IH _ Hr) as ((Y1 & Y2) & Hlen). cbn [fst snd] in Y1, Y2.
  destruct inner as [|i0 inner']; [exact I|]. destruct Hlen as [Hnil|Hzl]; [discriminate|]. cbn [fst] in Hzl.
  destruct Y2 as (Y2 & ws & Hws).
  destruct (mapM_total (fun i => if i <? 0 then Ok (0, 0)
                                 else do a <- get (i0 :: inner') i; do b <- get (i0 :: inner') (i + 1); Ok (a, b)) ix)
    as [rs Hrs].
  { intros i Hi. rewrite Forall_forall in Hix. specialize (Hix i Hi). cbv beta in Hix.
    destruct (i <? 0) eqn:E; [eexists; reflexivity|].
    destruct (get_ok (i0 :: inner') i) as [a Ha]; [lia|]. destruct (get_ok (i0 :: inner') (i + 1)) as [b Hb]; [lia|].
    rewrite Ha, Hb. eexists; reflexivity. }
  rewrite Hrs. cbn [bind].
  assert (Hrng : Forall (rng_ok (clen fc)) rs).
  { apply Forall_forall. intros ab Hab. destruct (mapM_In_inv _ _ _ _ Hrs Hab) as (i & _ & Hi).
    pose proof (to_list_len _ _ Hws) as Hlen. pose proof (zlen_nonneg ws).
    destruct (i <? 0); [inversion Hi; subst; unfold rng_ok; cbn [fst snd]; lia|].
    apply bind_Ok in Hi as (a & Ha & Hi). apply bind_Ok in Hi as (b & Hb & Hi). inversion Hi; subst.
    destruct (Y2 i (i + 1) a b ltac:(lia) Ha Hb) as (P1 & P2 & P3). unfold rng_ok. cbn [fst snd]. lia. }
  destruct (ranges_content_total fc ws rs Y1 Hws Hrng) as [fc' Hfc']. rewrite Hfc'. exact I.
Qed.

Lemma fl_fields_clean d ax cs :
  Forall (fun x => clean (flat_p None x d ax)) cs -> clean (fl_fields d ax cs).
Proof.
  induction 1 as [|x xs Hx _ IH]; [exact I|]. cbn [fl_fields]. apply clean_bind; [exact Hx|]. intros r _.
  destruct (fst r); [|exact I]. apply clean_bind; [exact IH|]. intros; exact I.
Qed.

Lemma flat_inv_all c p d axis r vs :
  Valid p c -> to_list c = Ok vs -> flat_p p c d axis = Ok r -> flat_inv c r.
Proof. intros HV Hl H. split; [eapply flat_valid_all|eapply flat_len_all]; eassumption. Qed.

Lemma flat_clean_all c : forall p d axis vs,
  Valid p c -> to_list c = Ok vs -> clean (flat_p p c d axis).
Proof.
  induction c as [dt shape data| |w o c IHc|w s e c IHc|c size zl IHc|w ix c IHc|w ix c IHc|m vw c IHc
                 |m vw lsb n c IHc|c IHc|w t ix cs IHcs|cs ks n IHcs|arr rn c IHc] using content_ind';
    intros p d axis vs HV Hl; pose proof HV as HV0; inversion HV; subst;
    rewrite flat_p_eq; (apply clean_bind; [apply clean_resolve|]); intros ax _; unfold flat_body;
    (destruct (ax =? d) eqn:Ed; [exact I|]); try exact I.
  - (* ListOffset *)
    destruct o as [|a o']; [exact I|]. rewrite to_list_ListOffset in Hl. apply bind_Ok in Hl as (vs0 & Hl0 & _).
    eapply (at_list_clean _ p d ax (pairs (a :: o')) (ListOffset w (a :: o') c) c vs0); try eassumption; try reflexivity.
    + destruct (is_strk p) eqn:Es.
      * match goal with Hp : ParamOk p _ |- _ => destruct (ParamOk_str _ _ Hp Es) as (c0 & k & rn & n0 & dd & Hc0 & -> & _) end.
        cbn [list_content] in Hc0. inversion Hc0; subst. rewrite flat_p_eq. apply clean_bind; [apply clean_resolve|]. intros ax' _.
        unfold flat_body. destruct (ax' =? d + 1); [exact I|]. rewrite flat_p_eq. apply clean_bind; [apply clean_resolve|]. intros ax'' _.
        unfold flat_body. destruct (ax'' =? d + 1); exact I.
      * eapply IHc; eauto.
    + intros r0 Hr0 HVc. eapply flat_inv_all; eassumption.
  - (* ListA *)
    destruct (zlen e <? zlen s) eqn:Ez; [exact I|]. rewrite to_list_ListA in Hl. apply bind_Ok in Hl as (vs0 & Hl0 & _).
    eapply (at_list_clean _ p d ax (zip s e) (ListA w s e c) c vs0); try eassumption; try reflexivity.
    + destruct (is_strk p) eqn:Es.
      * match goal with Hp : ParamOk p _ |- _ => destruct (ParamOk_str _ _ Hp Es) as (c0 & k & rn & n0 & dd & Hc0 & -> & _) end.
        cbn [list_content] in Hc0. inversion Hc0; subst. rewrite flat_p_eq. apply clean_bind; [apply clean_resolve|]. intros ax' _.
        unfold flat_body. destruct (ax' =? d + 1); [exact I|]. rewrite flat_p_eq. apply clean_bind; [apply clean_resolve|]. intros ax'' _.
        unfold flat_body. destruct (ax'' =? d + 1); exact I.
      * eapply IHc; eauto.
    + intros r0 Hr0 HVc. eapply flat_inv_all; eassumption.
  - (* Regular *)
    apply clean_bind; [apply list_bounds_clean|]. intros [b cc] Hb. cbn [fst].
    destruct (list_bounds_valid _ _ _ _ HV0 Hb) as (Hcc & Hn & Hp & Hvc). cbn [list_content] in Hcc. inversion Hcc; subst cc.
    rewrite to_list_Regular in Hl. apply bind_Ok in Hl as (vs0 & Hl0 & _).
    eapply (at_list_clean _ p d ax b (Regular c size zl) c vs0); try eassumption; try reflexivity.
    + destruct (is_strk p) eqn:Es.
      * match goal with Hp' : ParamOk p _ |- _ => destruct (ParamOk_str _ _ Hp' Es) as (c0 & k & rn & n0 & dd & Hc0 & -> & _) end.
        cbn [list_content] in Hc0. inversion Hc0; subst. rewrite flat_p_eq. apply clean_bind; [apply clean_resolve|]. intros ax' _.
        unfold flat_body. destruct (ax' =? d + 1); [exact I|]. rewrite flat_p_eq. apply clean_bind; [apply clean_resolve|]. intros ax'' _.
        unfold flat_body. destruct (ax'' =? d + 1); exact I.
      * eapply IHc; eauto.
    + intros r0 Hr0 HVc. eapply flat_inv_all; eassumption.
  - (* Indexed *)
    rewrite to_list_Indexed in Hl. apply bind_Ok in Hl as (vs0 & Hl0 & _).
    apply (at_option_clean _ ix c); [eapply (IHc None); eassumption|intros r0 Hr0; eapply flat_inv_all; eassumption|].
    match goal with Hq : Forall _ ix |- _ => eapply Forall_impl; [|exact Hq] end. cbv beta. intros i Hi. lia.
  - (* IndexedOption *)
    rewrite to_list_IndexedOption in Hl. apply bind_Ok in Hl as (vs0 & Hl0 & _).
    apply (at_option_clean _ ix c); [eapply (IHc None); eassumption|intros r0 Hr0; eapply flat_inv_all; eassumption|assumption].
  - (* ByteMasked *)
    apply clean_bind; [apply (option_index_clean _ _ HV0)|]. intros [ix0 c0] Hoi. cbn [fst].
    assert (HV1 : Valid None (ByteMasked m vw c)) by (constructor; [exact I|assumption..]).
    destruct (option_index_valid _ _ _ HV1 Hoi) as (_ & _ & _ & Hix). cbn [option_index] in Hoi. inversion Hoi; subst.
    rewrite to_list_ByteMasked in Hl. apply bind_Ok in Hl as (vs0 & Hl0 & _).
    match type of Hl0 with to_list ?cc = _ => apply (at_option_clean _ _ cc) end; [eapply (IHc None); eassumption|intros r0 Hr0; eapply flat_inv_all; eassumption|].
    pose proof (to_list_len _ _ Hl0). pose proof (zlen_nonneg vs0).
    eapply Forall_impl; [|exact Hix]. cbv beta. intros i Hi. lia.
  - (* BitMasked *)
    apply clean_bind; [apply (option_index_clean _ _ HV0)|]. intros [ix0 c0] Hoi. cbn [fst].
    assert (HV1 : Valid None (BitMasked m vw lsb n c)) by (constructor; [exact I|assumption..]).
    destruct (option_index_valid _ _ _ HV1 Hoi) as (_ & _ & _ & Hix). cbn [option_index] in Hoi.
    apply bind_Ok in Hoi as (ix1 & _ & Hoi). inversion Hoi; subst.
    rewrite to_list_BitMasked in Hl. apply bind_Ok in Hl as (vs0 & Hl0 & _).
    match type of Hl0 with to_list ?cc = _ => apply (at_option_clean _ _ cc) end; [eapply (IHc None); eassumption|intros r0 Hr0; eapply flat_inv_all; eassumption|].
    pose proof (to_list_len _ _ Hl0). pose proof (zlen_nonneg vs0).
    eapply Forall_impl; [|exact Hix]. cbv beta. intros i Hi. lia.
  - (* Unmasked *)
    rewrite to_list_Unmasked in Hl. apply clean_bind; [eapply (IHc None); eassumption|]. intros [inner fc] _.
    destruct inner; exact I.
  - (* Record *)
    destruct (ax =? d + 1); [exact I|]. apply clean_bind; [|intros; exact I]. apply fl_fields_clean.
    rewrite to_list_Record in Hl. apply bind_Ok in Hl as (vss & Hvss & _). rewrite all_lists_mapM in Hvss.
    apply Forall_forall. intros x Hx. rewrite Forall_forall in IHcs.
    match goal with HVs : Forall (Valid None) cs |- _ => rewrite Forall_forall in HVs; pose proof (HVs x Hx) as HVx end.
    destruct (mapM_Ok_In _ _ _ _ Hvss Hx) as (col & Hcol & _). eapply (IHcs x Hx None); eassumption.
  - (* Par *)
    rewrite to_list_Par in Hl. apply bind_Ok in Hl as (vs0 & Hl0 & _). eapply IHc; eassumption.
Qed.

(* flatten, every axis, every valid layout that has a value: no fragment *)
Theorem flatten_never_out_of_bounds : forall axis c vs,
  Valid None c -> to_list c = Ok vs -> flatten_model axis c <> Err EOob /\ flatten_model axis c <> Err EFuel.
Proof.
  intros axis c vs HV Hl. apply clean_iff. unfold flatten_model. apply clean_bind; [|intros; exact I].
  apply (flat_clean_all (expand c) None 0 axis vs (expand_valid_p c None HV)).
  rewrite (expand_to_list_p c None HV). exact Hl.
Qed.
Corollary flatten_never_out_of_bounds_chars : forall axis c,
  Valid None c -> chars_ok c = true -> flatten_model axis c <> Err EOob /\ flatten_model axis c <> Err EFuel.
Proof.
  intros axis c HV Hc. destruct (valid_to_list_total_partial c None HV Hc) as [vs Hl].
  eapply flatten_never_out_of_bounds; eassumption.
Qed.

(* option over lists over option over lists with a gap, over a record with an n-d leaf and a union; a string field *)
Example flatten_clean_ex :
  let c := IndexedOption I64 [1; -1; 0]
             (ListOffset I64 [0; 2; 3]
                (ByteMasked [1; 0; 1] true
                   (ListA I64 [0; 4; 1] [1; 4; 3]
                      (Record [Numpy DInt64 [3; 1] [DZ 1; DZ 2; DZ 3];
                               Union I64 [0; 1; 0] [0; 0; 1] [Numpy DFloat64 [2] [DZ 7; DNaN]; Numpy DBool [1] [DZ 1]]] (Some [[120]; [121]]) 3)))) in
  valid_b c = true /\ frag c = false /\
  obs (flatten_model 1 c)
  = Ok [VList [VRec [([120], VList [VNum (DZ 2)]); ([121], VBool true)]; VRec [([120], VList [VNum (DZ 3)]); ([121], VNum DNaN)]];
        VList [VRec [([120], VList [VNum (DZ 1)]); ([121], VNum (DZ 7))]]; VNone] /\
  obs (flatten_model 2 c)
  = Ok [VList [VRec [([120], VList [VNum (DZ 2)]); ([121], VBool true)]; VRec [([120], VList [VNum (DZ 3)]); ([121], VNum DNaN)]];
        VNone; VList [VRec [([120], VList [VNum (DZ 1)]); ([121], VNum (DZ 7))]]] /\
  flatten_model 3 c = Err EValue.
Proof. vm_compute. repeat split. Qed.
