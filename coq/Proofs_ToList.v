(** T1 / T2: the value of a layout has the length [clen] promises; valid layouts have a value. *)
From Coq Require Import ZArith List Bool Lia ZifyBool.
From AwkV Require Import Base Layout LayoutInd Valid Types Typing Proofs_Typing Proofs_C11 Proofs_Lists.
Import ListNotations.
Open Scope Z_scope.

(* ---------------------------------------------------------------- characterising equations of [to_list] *)
Definition all_lists (cs : list content) : res (list (list value)) :=
  (fix all (l : list content) : res (list (list value)) :=
     match l with
     | [] => Ok []
     | x :: xs => do v <- to_list x; do vs <- all xs; Ok (v :: vs)
     end) cs.
Lemma all_lists_mapM cs : all_lists cs = mapM to_list cs.
Proof. induction cs as [|c cs IH]; [reflexivity|]. cbn [mapM]. rewrite <- IH. reflexivity. Qed.

Lemma to_list_Numpy dt shape data :
  to_list (Numpy dt shape data) =
  match shape with
  | [] => Err EValue
  | n :: dims =>
      if existsb (fun d => d <? 0) shape then Err EValue else
      if zlen data <? prodZ shape then Err EValue else
      nest dims n (map (leaf dt) (take (prodZ shape) data))
  end.
Proof.
  cbn [to_list]. destruct shape as [|n dims]; [reflexivity|].
  destruct (existsb _ _); [reflexivity|]. destruct (_ <? _); [reflexivity|].
  destruct (nest _ _ _); reflexivity.
Qed.
Lemma to_list_ListOffset w o c : to_list (ListOffset w o c) = do vs <- to_list c; rmap (map VList) (cut vs o).
Proof. reflexivity. Qed.
Lemma to_list_ListA w s e c : to_list (ListA w s e c) = do vs <- to_list c; rmap (map VList) (cut2 vs s e).
Proof. reflexivity. Qed.
Lemma to_list_Regular c size zl : to_list (Regular c size zl) = do vs <- to_list c; rmap (map VList) (chunks vs size zl).
Proof. reflexivity. Qed.
Lemma to_list_Indexed w ix c : to_list (Indexed w ix c) = do vs <- to_list c; mapM (get vs) ix.
Proof. reflexivity. Qed.
Lemma to_list_IndexedOption w ix c :
  to_list (IndexedOption w ix c) = do vs <- to_list c; mapM (fun i => pick_opt vs (0 <=? i) i) ix.
Proof. reflexivity. Qed.
Lemma to_list_ByteMasked m vw c :
  to_list (ByteMasked m vw c) =
  do vs <- to_list c;
  mapM (fun im : Z * Z => let (i, b) := im in pick_opt vs (Bool.eqb (negb (b =? 0)) vw) i) (zip (iota (zlen m)) m).
Proof. reflexivity. Qed.
Lemma to_list_BitMasked m vw lsb n c :
  to_list (BitMasked m vw lsb n c) =
  do vs <- to_list c;
  if n <? 0 then Err EValue else
  mapM (fun i => do b <- bit_at m lsb i; pick_opt vs (Bool.eqb b vw) i) (iota n).
Proof. reflexivity. Qed.
Lemma to_list_Unmasked c : to_list (Unmasked c) = to_list c.
Proof. reflexivity. Qed.
Lemma to_list_Union w t ix cs :
  to_list (Union w t ix cs) =
  do vss <- all_lists cs;
  if zlen ix <? zlen t then Err EValue else
  mapM (fun ti : Z * Z => let (tg, i) := ti in do vs <- get vss tg; get vs i) (zip t ix).
Proof. reflexivity. Qed.
Lemma to_list_Record cs ks n :
  to_list (Record cs ks n) =
  do vss <- all_lists cs; if n <? 0 then Err EValue else mapM (row ks vss) (iota n).
Proof. reflexivity. Qed.
Lemma to_list_Par arr rn c :
  to_list (Par arr rn c) =
  do vs <- to_list c;
  match arr with
  | Some AString => mapM (fun v => rmap (VStr true) (bytes_of v)) vs
  | Some ABytestring => mapM (fun v => rmap (VStr false) (bytes_of v)) vs
  | _ => Ok vs
  end.
Proof. reflexivity. Qed.

(* ---------------------------------------------------------------- chunks / nest lengths *)
Lemma chunks_nat_length {A} (vs : list A) n k : length (chunks_nat vs n k) = k.
Proof. revert vs. induction k as [|k IH]; intros vs; cbn; [reflexivity|]. rewrite IH. reflexivity. Qed.

Lemma chunks_zlen {A} (vs : list A) size zl ch :
  chunks vs size zl = Ok ch -> 0 <= size /\ zlen ch = (if size =? 0 then zl else zlen vs / size).
Proof.
  unfold chunks. destruct (size <? 0) eqn:E0; [discriminate|].
  destruct (size =? 0) eqn:E1.
  - destruct (zl <? 0) eqn:E2; [discriminate|]. intros H. inversion H; subst.
    rewrite zlen_map, zlen_iota by lia. lia.
  - intros H. inversion H; subst. unfold zlen at 1. rewrite chunks_nat_length.
    pose proof (zlen_nonneg vs). rewrite Z2Nat.id by (apply Z.div_pos; lia). lia.
Qed.

Lemma prodZ_nonneg l : Forall (fun d => 0 <= d) l -> 0 <= prodZ l.
Proof. induction 1; cbn; [lia|]. apply Z.mul_nonneg_nonneg; assumption. Qed.
Lemma prodZ_cons d l : prodZ (d :: l) = d * prodZ l.
Proof. reflexivity. Qed.

Lemma nest_zlen : forall dims count vs out,
  nest dims count vs = Ok out -> Forall (fun d => 0 <= d) dims -> 0 <= count ->
  zlen vs = count * prodZ dims -> zlen out = count.
Proof.
  induction dims as [|d ds IH]; intros count vs out H Hd Hc Hlen; cbn [nest] in H.
  - inversion H; subst. cbn in Hlen. lia.
  - inversion Hd as [|? ? Hd0 Hds]; subst.
    apply bind_Ok in H as (inner & Hi & H). apply bind_Ok in H as (ch & Hch & H). inversion H; subst.
    assert (Hin : zlen inner = count * d).
    { eapply IH; [exact Hi|exact Hds|nia|]. rewrite Hlen, prodZ_cons. ring. }
    apply chunks_zlen in Hch as [_ Hch]. rewrite zlen_map, Hch.
    destruct (d =? 0) eqn:E; [reflexivity|]. rewrite Hin. apply Z.div_mul. lia.
Qed.

Lemma existsb_neg_false l : existsb (fun d => d <? 0) l = false -> Forall (fun d => 0 <= d) l.
Proof.
  induction l as [|x l IH]; cbn; [constructor|]. intros H. apply orb_false_iff in H as [H1 H2].
  constructor; [lia|auto].
Qed.
Lemma Forall_nonneg_existsb l : Forall (fun d => 0 <= d) l -> existsb (fun d => d <? 0) l = false.
Proof. induction 1; cbn; [reflexivity|]. apply orb_false_iff. split; [lia|assumption]. Qed.

Lemma to_list_Numpy_inv dt shape data vs :
  to_list (Numpy dt shape data) = Ok vs ->
  exists n dims, shape = n :: dims /\ Forall (fun d => 0 <= d) shape /\ prodZ shape <= zlen data /\
                 nest dims n (map (leaf dt) (take (prodZ shape) data)) = Ok vs.
Proof.
  rewrite to_list_Numpy. destruct shape as [|n dims]; [discriminate|].
  destruct (existsb _ _) eqn:E1; [discriminate|]. destruct (_ <? _) eqn:E2; [discriminate|].
  intros H. exists n, dims. repeat split; [apply existsb_neg_false, E1|lia|exact H].
Qed.

(* ---------------------------------------------------------------- T1 *)
(* the length law needs no validity: whenever a layout has a value, the value has [clen] elements *)
Lemma to_list_len c : forall vs, to_list c = Ok vs -> zlen vs = clen c.
Proof.
  induction c as [dt shape data| |w o c IHc|w s e c IHc|c size zl IHc|w ix c IHc|w ix c IHc|m vw c IHc
                 |m vw lsb n c IHc|c IHc|w t ix cs IHcs|cs ks n IHcs|arr rn c IHc] using content_ind';
    intros vs Hl.
  - (* Numpy *)
    apply to_list_Numpy_inv in Hl as (n & dims & -> & Hs & Hd & Hn).
    inversion Hs as [|? ? Hn0 Hds]; subst. cbn [clen].
    eapply nest_zlen; [exact Hn|exact Hds|exact Hn0|].
    rewrite zlen_map, zlen_take; [reflexivity|]. split; [apply prodZ_nonneg, Hs|exact Hd].
  - inversion Hl. reflexivity.
  - (* ListOffset *)
    rewrite to_list_ListOffset in Hl. apply bind_Ok in Hl as (vs0 & _ & Hl).
    apply rmap_Ok in Hl as (ls & Hc & ->). rewrite zlen_map. cbn [clen].
    unfold cut in Hc. destruct o as [|a o]; [discriminate|].
    rewrite (mapM_zlen _ _ _ Hc), zlen_pairs by discriminate. reflexivity.
  - (* ListA *)
    rewrite to_list_ListA in Hl. apply bind_Ok in Hl as (vs0 & _ & Hl).
    apply rmap_Ok in Hl as (ls & Hc & ->). rewrite zlen_map. cbn [clen].
    unfold cut2 in Hc. destruct (zlen e <? zlen s) eqn:E; [discriminate|].
    rewrite (mapM_zlen _ _ _ Hc), zlen_zip. lia.
  - (* Regular *)
    rewrite to_list_Regular in Hl. apply bind_Ok in Hl as (vs0 & Hc0l & Hl).
    apply rmap_Ok in Hl as (ls & Hc & ->). rewrite zlen_map. cbn [clen].
    apply chunks_zlen in Hc as [_ Hc]. rewrite Hc, (IHc _ Hc0l). reflexivity.
  - rewrite to_list_Indexed in Hl. apply bind_Ok in Hl as (vs0 & _ & Hl).
    rewrite (mapM_zlen _ _ _ Hl). reflexivity.
  - rewrite to_list_IndexedOption in Hl. apply bind_Ok in Hl as (vs0 & _ & Hl).
    rewrite (mapM_zlen _ _ _ Hl). reflexivity.
  - rewrite to_list_ByteMasked in Hl. apply bind_Ok in Hl as (vs0 & _ & Hl).
    rewrite (mapM_zlen _ _ _ Hl), zlen_zip, zlen_iota by apply zlen_nonneg. cbn [clen]. lia.
  - rewrite to_list_BitMasked in Hl. apply bind_Ok in Hl as (vs0 & _ & Hl).
    destruct (n <? 0) eqn:E; [discriminate|].
    rewrite (mapM_zlen _ _ _ Hl), zlen_iota by lia. reflexivity.
  - rewrite to_list_Unmasked in Hl. cbn [clen]. auto.
  - rewrite to_list_Union in Hl. apply bind_Ok in Hl as (vss & _ & Hl).
    destruct (zlen ix <? zlen t) eqn:E; [discriminate|].
    rewrite (mapM_zlen _ _ _ Hl), zlen_zip. cbn [clen]. lia.
  - rewrite to_list_Record in Hl. apply bind_Ok in Hl as (vss & _ & Hl).
    destruct (n <? 0) eqn:E; [discriminate|].
    rewrite (mapM_zlen _ _ _ Hl), zlen_iota by lia. reflexivity.
  - rewrite to_list_Par in Hl. apply bind_Ok in Hl as (vs0 & Hc0l & Hl). cbn [clen]. rewrite <- (IHc _ Hc0l).
    destruct arr as [[]|]; try (inversion Hl; subst; reflexivity); apply (mapM_zlen _ _ _ Hl).
Qed.

Theorem to_list_length : forall c p vs, Valid p c -> to_list c = Ok vs -> zlen vs = clen c.
Proof. intros c p vs _ H. apply to_list_len, H. Qed.

Example to_list_length_ex :
  let c := Par (Some AString) None (ListOffset I64 [0; 2; 2; 3] (Par (Some AChar) None (Numpy DUInt8 [3] [DZ 104; DZ 105; DZ 33]))) in
  validb None c = true /\ to_list c = Ok [VStr true [104; 105]; VStr true []; VStr true [33]] /\ clen c = 3.
Proof. vm_compute. repeat split. Qed.

(* ---------------------------------------------------------------- T2 *)
(* T2 as first stated,
     valid_to_list_total : forall c p, Valid p c -> exists vs, to_list c = Ok vs,
   is FALSE of the model: like the C++ validityerror, [Valid]/[validb] do not look below a string /
   bytestring node, so the character buffer may be too short or (in the model, where a datum is
   untyped) hold NaN/inf; both layouts below are valid and have no value. *)
Example valid_to_list_total_counterexample_short_buffer :
  let c := Par (Some AString) None (ListOffset I64 [0] (Par (Some AChar) None (Numpy DUInt8 [5] []))) in
  validb None c = true /\ to_list c = Err EValue.
Proof. vm_compute. split; reflexivity. Qed.
Example valid_to_list_total_counterexample_nan_char :
  let c := Par (Some AString) None (ListOffset I64 [0; 1] (Par (Some AChar) None (Numpy DUInt8 [1] [DNaN]))) in
  validb None c = true /\ to_list c = Err EValue.
Proof. vm_compute. split; reflexivity. Qed.

(* the missing side condition: character buffers (the leaves tagged char/byte) are sound *)
Definition is_dz (d : datum) : bool := match d with DZ _ => true | _ => false end.
Definition numpy_ok (c : content) : bool :=
  match c with
  | Numpy _ shape data =>
      forallb (fun d => 0 <=? d) shape && (prodZ shape <=? zlen data) && forallb is_dz (take (prodZ shape) data)
  | _ => false
  end.
Fixpoint chars_ok (c : content) : bool :=
  match c with
  | Numpy _ _ _ | Empty => true
  | ListOffset _ _ c' | ListA _ _ _ c' | Regular c' _ _ | Indexed _ _ c' | IndexedOption _ _ c'
  | ByteMasked _ _ c' | BitMasked _ _ _ _ c' | Unmasked c' => chars_ok c'
  | Union _ _ _ cs | Record cs _ _ =>
      (fix all (l : list content) : bool := match l with [] => true | x :: xs => chars_ok x && all xs end) cs
  | Par a _ c' =>
      match a with Some AChar | Some AByte => numpy_ok c' | _ => true end && chars_ok c'
  end.
Lemma chars_ok_all cs :
  (fix all (l : list content) : bool := match l with [] => true | x :: xs => chars_ok x && all xs end) cs = true ->
  Forall (fun x => chars_ok x = true) cs.
Proof.
  induction cs as [|x xs IH]; [constructor|]. intros H. apply andb_true_iff in H as [H1 H2]. constructor; auto.
Qed.

Lemma chunks_total {A} (vs : list A) size zl : 0 <= size -> 0 <= zl -> exists ch, chunks vs size zl = Ok ch.
Proof.
  intros H1 H2. unfold chunks. destruct (size <? 0) eqn:E; [lia|]. destruct (size =? 0); [|eauto].
  destruct (zl <? 0) eqn:E2; [lia|eauto].
Qed.
Lemma nest_total : forall dims count vs,
  Forall (fun d => 0 <= d) dims -> 0 <= count -> exists out, nest dims count vs = Ok out.
Proof.
  induction dims as [|d ds IH]; intros count vs Hd Hc; cbn [nest]; [eauto|].
  inversion Hd; subst. destruct (IH (count * d) vs) as [inner ->]; [assumption|nia|]. cbn.
  destruct (chunks_total inner d count) as [ch ->]; [assumption..|]. cbn. eauto.
Qed.

Lemma cut1_total {A} (vs : list A) ab : pair_ok (zlen vs) ab -> exists l, cut1 vs ab = Ok l.
Proof.
  destruct ab as [a b]. unfold pair_ok, cut1. cbn [fst snd]. intros H.
  destruct (a =? b) eqn:E; [eauto|]. rewrite slice_ok by lia. eauto.
Qed.
Lemma cut_total {A} (vs : list A) o :
  1 <= zlen o -> Forall (pair_ok (zlen vs)) (pairs o) -> exists ls, cut vs o = Ok ls.
Proof.
  intros H1 H2. unfold cut. destruct o; [cbn in H1; lia|]. apply mapM_total.
  intros ab Hab. rewrite Forall_forall in H2. apply cut1_total, H2, Hab.
Qed.
Lemma cut2_total {A} (vs : list A) s e :
  zlen s <= zlen e -> Forall (pair_ok (zlen vs)) (zip s e) -> exists ls, cut2 vs s e = Ok ls.
Proof.
  intros H1 H2. unfold cut2. destruct (zlen e <? zlen s) eqn:E; [lia|]. apply mapM_total.
  intros ab Hab. rewrite Forall_forall in H2. apply cut1_total, H2, Hab.
Qed.

Lemma ParamOk_nonlist p c : ParamOk p c -> list_content c = None -> p = None.
Proof.
  destruct p as [[]|]; cbn; try contradiction; try reflexivity;
    intros (c' & ? & ? & ? & H & _) Hn; congruence.
Qed.
Lemma ParamOk_str p c : ParamOk p c -> is_strk p = true ->
  exists c' k rn n d, list_content c = Some c' /\ c' = Par (Some k) rn (Numpy DUInt8 [n] d) /\ (k = AChar \/ k = AByte).
Proof.
  destruct p as [[]|]; cbn; try discriminate; intros (c' & rn & n & d & H1 & H2) _;
    exists c'; eexists; exists rn, n, d; split; [exact H1|split; [exact H2|auto]| exact H1 |split; [exact H2|auto]].
Qed.
Lemma ParamOk_nostr p c : ParamOk p c -> is_strk p = false -> p = None.
Proof. destruct p as [[]|]; cbn; try contradiction; try discriminate; reflexivity. Qed.

Definition has_bytes (v : value) : Prop := exists s, bytes_of v = Ok s.

(* the value of a sound character buffer *)
Lemma chars_to_list k rn n d :
  (k = AChar \/ k = AByte) -> numpy_ok (Numpy DUInt8 [n] d) = true ->
  exists zs, to_list (Par (Some k) rn (Numpy DUInt8 [n] d)) = Ok (map (fun z => VNum (DZ z)) zs) /\ zlen zs = n.
Proof.
  intros Hk Hok. cbn [numpy_ok] in Hok. apply andb_true_iff in Hok as [Hok Hdz]. apply andb_true_iff in Hok as [Hs Hd].
  cbn [forallb] in Hs. rewrite andb_true_r in Hs. cbn [prodZ fold_right] in Hd, Hdz. rewrite Z.mul_1_r in Hd, Hdz.
  rewrite to_list_Par, to_list_Numpy. cbn [existsb prodZ fold_right]. rewrite Z.mul_1_r.
  destruct (n <? 0) eqn:E1; [lia|]. cbn [orb]. destruct (zlen d <? n) eqn:E2; [lia|]. cbn [nest bind].
  assert (G : exists zs, map (leaf DUInt8) (take n d) = map (fun z => VNum (DZ z)) zs /\ zlen zs = zlen (take n d)).
  { revert Hdz. generalize (take n d) as l. induction l as [|x l IH]; cbn [forallb]; intros H.
    - exists []. split; reflexivity.
    - apply andb_true_iff in H as [Hx Hl]. destruct (IH Hl) as (zs & E & Ez). destruct x as [z| |]; try discriminate.
      exists (z :: zs). cbn [map leaf]. rewrite E, !zlen_cons, Ez. split; reflexivity. }
  destruct G as (zs & E & Ez). exists zs. rewrite E. split.
  - destruct Hk as [-> | ->]; reflexivity.
  - rewrite Ez. apply zlen_take. lia.
Qed.

Lemma bytes_sub zs l : (forall x, In x l -> In x (map (fun z => VNum (DZ z)) zs)) -> has_bytes (VList l).
Proof.
  intros H. unfold has_bytes. cbn [bytes_of]. apply mapM_total. intros x Hx.
  apply H, in_map_iff in Hx as (z & <- & _). eauto.
Qed.

Lemma get_clen_map cs tg lc : get (map clen cs) tg = Ok lc -> exists c, get cs tg = Ok c /\ lc = clen c.
Proof. rewrite get_map. intros H. apply rmap_Ok in H as (c & ? & ?). eauto. Qed.

Definition total_at (c : content) : Prop :=
  forall p, Valid p c -> chars_ok c = true ->
  exists vs, to_list c = Ok vs /\ (is_strk p = true -> Forall has_bytes vs).

(* the three list nodes share the treatment of their content *)
Lemma list_content_total p c cc :
  total_at cc -> ParamOk p c -> list_content c = Some cc -> (is_strk p = false -> Valid None cc) -> chars_ok cc = true ->
  exists vs0, to_list cc = Ok vs0 /\ (is_strk p = true -> exists zs, vs0 = map (fun z => VNum (DZ z)) zs).
Proof.
  intros IH Hp Hc Hv Hok. destruct (is_strk p) eqn:Es.
  - destruct (ParamOk_str _ _ Hp Es) as (c' & k & rn & n & d & Hc' & -> & Hk). rewrite Hc in Hc'. inversion Hc'; subst.
    cbn [chars_ok] in Hok. apply andb_true_iff in Hok as [Hok _].
    assert (Hn : numpy_ok (Numpy DUInt8 [n] d) = true) by (destruct Hk as [-> | ->]; exact Hok).
    destruct (chars_to_list k rn n d Hk Hn) as (zs & Hz & _). eauto.
  - destruct (IH None (Hv eq_refl) Hok) as (vs0 & Hc0l & _). exists vs0. split; [exact Hc0l|discriminate].
Qed.

Lemma to_list_total_all c : total_at c.
Proof.
  induction c as [dt shape data| |w o c IHc|w s e c IHc|c size zl IHc|w ix c IHc|w ix c IHc|m vw c IHc
                 |m vw lsb n c IHc|c IHc|w t ix cs IHcs|cs ks n IHcs|arr rn c IHc] using content_ind';
    intros p HV Hok; inversion HV; subst;
    try (match goal with Hp : ParamOk p _ |- _ => pose proof (ParamOk_nonlist _ _ Hp eq_refl); subst p end).
  - (* Numpy *)
    rewrite to_list_Numpy. destruct shape as [|n dims]; [congruence|].
    match goal with H : Forall _ (n :: dims) |- _ => rename H into Hs end.
    rewrite (Forall_nonneg_existsb _ Hs). destruct (zlen data <? prodZ (n :: dims)) eqn:E; [lia|].
    inversion Hs; subst. destruct (nest_total dims n (map (leaf dt) (take (prodZ (n :: dims)) data))) as [out Ho]; [assumption..|].
    exists out. split; [exact Ho|discriminate].
  - exists []. split; [reflexivity|discriminate].
  - (* ListOffset *)
    match goal with Hp : ParamOk p _, Hs : _ -> Valid None c |- _ =>
      destruct (list_content_total p _ c IHc Hp eq_refl Hs Hok) as (vs0 & Hc0l & Hz) end.
    rewrite to_list_ListOffset, Hc0l. cbn [bind].
    destruct (cut_total vs0 o) as [ls Hls]; [assumption|rewrite (to_list_len _ _ Hc0l); assumption|].
    rewrite Hls. cbn [rmap]. eexists. split; [reflexivity|]. intros Es. destruct (Hz Es) as (zs & ->).
    apply cut_sub in Hls. apply Forall_forall. intros v Hv. apply in_map_iff in Hv as (l & <- & Hl).
    rewrite Forall_forall in Hls. eapply bytes_sub, Hls, Hl.
  - (* ListA *)
    match goal with Hp : ParamOk p _, Hs : _ -> Valid None c |- _ =>
      destruct (list_content_total p _ c IHc Hp eq_refl Hs Hok) as (vs0 & Hc0l & Hz) end.
    rewrite to_list_ListA, Hc0l. cbn [bind].
    destruct (cut2_total vs0 s e) as [ls Hls]; [assumption|rewrite (to_list_len _ _ Hc0l); assumption|].
    rewrite Hls. cbn [rmap]. eexists. split; [reflexivity|]. intros Es. destruct (Hz Es) as (zs & ->).
    apply cut2_sub in Hls. apply Forall_forall. intros v Hv. apply in_map_iff in Hv as (l & <- & Hl).
    rewrite Forall_forall in Hls. eapply bytes_sub, Hls, Hl.
  - (* Regular *)
    match goal with Hp : ParamOk p _, Hs : _ -> Valid None c |- _ =>
      destruct (list_content_total p _ c IHc Hp eq_refl Hs Hok) as (vs0 & Hc0l & Hz) end.
    rewrite to_list_Regular, Hc0l. cbn [bind].
    destruct (chunks_total vs0 size zl) as [ls Hls]; [assumption..|].
    rewrite Hls. cbn [rmap]. eexists. split; [reflexivity|]. intros Es. destruct (Hz Es) as (zs & ->).
    apply chunks_spec in Hls. apply Forall_forall. intros v Hv. apply in_map_iff in Hv as (l & <- & Hl).
    rewrite Forall_forall in Hls. eapply bytes_sub, Hls, Hl.
  - (* Indexed *)
    destruct (IHc None) as (vs0 & Hc0l & _); [assumption..|]. rewrite to_list_Indexed, Hc0l. cbn [bind].
    destruct (gather_ok vs0 ix) as [xs Hx]; [rewrite (to_list_len _ _ Hc0l); assumption|].
    exists xs. split; [exact Hx|discriminate].
  - (* IndexedOption *)
    destruct (IHc None) as (vs0 & Hc0l & _); [assumption..|]. rewrite to_list_IndexedOption, Hc0l. cbn [bind].
    pose proof (to_list_len _ _ Hc0l) as Hlen.
    match goal with H : Forall _ ix |- _ => rename H into Hix end. rewrite Forall_forall in Hix.
    destruct (mapM_total (fun i => pick_opt vs0 (0 <=? i) i) ix) as [xs Hx].
    { intros i Hi. unfold pick_opt. destruct (0 <=? i) eqn:E; [|eauto]. apply get_ok. specialize (Hix i Hi). lia. }
    exists xs. split; [exact Hx|discriminate].
  - (* ByteMasked *)
    destruct (IHc None) as (vs0 & Hc0l & _); [assumption..|]. rewrite to_list_ByteMasked, Hc0l. cbn [bind].
    pose proof (to_list_len _ _ Hc0l) as Hlen.
    match goal with |- exists _, mapM ?f ?l = _ /\ _ => destruct (mapM_total f l) as [xs Hx] end.
    { intros [i b] Hi. apply zip_In in Hi as [Hi _]. apply iota_In' in Hi.
      unfold pick_opt. destruct (Bool.eqb _ _); [|eauto]. apply get_ok. lia. }
    exists xs. split; [exact Hx|discriminate].
  - (* BitMasked *)
    destruct (IHc None) as (vs0 & Hc0l & _); [assumption..|]. rewrite to_list_BitMasked, Hc0l. cbn [bind].
    pose proof (to_list_len _ _ Hc0l) as Hlen. destruct (n <? 0) eqn:E; [lia|].
    match goal with |- exists _, mapM ?f ?l = _ /\ _ => destruct (mapM_total f l) as [xs Hx] end.
    { intros i Hi. apply iota_In' in Hi. unfold bit_at.
      destruct (get_ok m (i / 8)) as [byte ->].
      { split; [apply Z.div_pos; lia|]. apply Z.div_lt_upper_bound; lia. }
      cbn [bind]. unfold pick_opt. destruct (Bool.eqb _ _); [|eauto]. apply get_ok. lia. }
    exists xs. split; [exact Hx|discriminate].
  - (* Unmasked *)
    destruct (IHc None) as (vs0 & Hc0l & _); [assumption..|]. rewrite to_list_Unmasked. exists vs0. split; [exact Hc0l|discriminate].
  - (* Union *)
    cbn [chars_ok] in Hok. apply chars_ok_all in Hok.
    match goal with H : Forall (Valid None) cs |- _ => rename H into HVs end.
    assert (Hall : exists vss, mapM to_list cs = Ok vss).
    { apply mapM_total. intros x Hx. rewrite Forall_forall in IHcs, HVs, Hok.
      destruct (IHcs x Hx None (HVs x Hx) (Hok x Hx)) as (v & ? & _). eauto. }
    destruct Hall as [vss Hvss]. rewrite to_list_Union, all_lists_mapM, Hvss. cbn [bind].
    destruct (zlen ix <? zlen t) eqn:E; [lia|].
    match goal with |- exists _, mapM ?f ?l = _ /\ _ => destruct (mapM_total f l) as [xs Hx] end.
    { intros [tg i] Hi.
      match goal with H : Forall _ (zip t ix) |- _ => rewrite Forall_forall in H; destruct (H _ Hi) as (Ht & Hi0 & lc & Hlc & Hlt) end.
      cbn [fst snd] in *. apply get_clen_map in Hlc as (c0 & Hc0 & ->).
      rewrite (mapM_get _ _ _ tg Hvss), Hc0. cbn [bind]. destruct (to_list c0) as [v0|] eqn:E0.
      - cbn [bind]. apply get_ok. rewrite (to_list_len _ _ E0). lia.
      - exfalso. apply get_In in Hc0. destruct (mapM_Ok_In _ _ _ _ Hvss Hc0) as (? & ? & _). congruence. }
    exists xs. split; [exact Hx|discriminate].
  - (* Record *)
    cbn [chars_ok] in Hok. apply chars_ok_all in Hok.
    match goal with H : Forall (Valid None) cs |- _ => rename H into HVs end.
    assert (Hall : exists vss, mapM to_list cs = Ok vss).
    { apply mapM_total. intros x Hx. rewrite Forall_forall in IHcs, HVs, Hok.
      destruct (IHcs x Hx None (HVs x Hx) (Hok x Hx)) as (v & ? & _). eauto. }
    destruct Hall as [vss Hvss]. rewrite to_list_Record, all_lists_mapM, Hvss. cbn [bind].
    destruct (n <? 0) eqn:E; [lia|].
    match goal with |- exists _, mapM ?f ?l = _ /\ _ => destruct (mapM_total f l) as [xs Hx] end.
    { intros i Hi. apply iota_In' in Hi. unfold row.
      destruct (mapM_total (fun col : list value => get col i) vss) as [fs Hfs].
      { intros col Hcol. destruct (mapM_In_inv _ _ _ _ Hvss Hcol) as (x & Hx & Hlx).
        apply get_ok. rewrite (to_list_len _ _ Hlx).
        match goal with H : Forall (fun x => n <= clen x) cs |- _ => rewrite Forall_forall in H; specialize (H x Hx) end. lia. }
      rewrite Hfs. cbn [bind]. destruct ks as [k|]; [|eauto].
      match goal with H : forall k0, Some k = Some k0 -> _ |- _ => specialize (H k eq_refl); rename H into Hk end.
      apply mapM_length in Hfs. apply mapM_length in Hvss. rewrite Hfs, Hvss, Hk, Nat.eqb_refl. eauto. }
    exists xs. split; [exact Hx|discriminate].
  - (* Par *)
    cbn [chars_ok] in Hok. apply andb_true_iff in Hok as [_ Hok].
    destruct (IHc arr) as (vs0 & Hc0l & Hb); [assumption..|]. rewrite to_list_Par, Hc0l. cbn [bind].
    assert (G : forall b, Forall has_bytes vs0 -> exists vs, mapM (fun v => rmap (VStr b) (bytes_of v)) vs0 = Ok vs).
    { intros b HF. apply mapM_total. intros v Hv. rewrite Forall_forall in HF. destruct (HF v Hv) as [s ->]. cbn. eauto. }
    destruct arr as [[]|].
    + destruct (G true (Hb eq_refl)) as [vs Hvs]. exists vs. split; [exact Hvs|discriminate].
    + destruct (G false (Hb eq_refl)) as [vs Hvs]. exists vs. split; [exact Hvs|discriminate].
    + exists vs0. split; [reflexivity|discriminate].
    + exists vs0. split; [reflexivity|discriminate].
    + exists vs0. split; [reflexivity|discriminate].
    + exists vs0. split; [reflexivity|discriminate].
Qed.

(* strongest true variant of T2: validity + sound character buffers *)
Theorem valid_to_list_total_partial : forall c p, Valid p c -> chars_ok c = true -> exists vs, to_list c = Ok vs.
Proof. intros c p HV Hok. destruct (to_list_total_all c p HV Hok) as (vs & H & _). eauto. Qed.

Example valid_to_list_total_ex :
  let c := Record [Par (Some AString) None (ListOffset I64 [0; 2; 3] (Par (Some AChar) None (Numpy DUInt8 [3] [DZ 104; DZ 105; DZ 33])));
                   IndexedOption I64 [1; -1] (Numpy DFloat64 [2; 2] [DZ 1; DNaN; DZ 3; DInf true])] (Some [[120]; [121]]) 2 in
  validb None c = true /\ chars_ok c = true /\
  to_list c = Ok [VRec [([120], VStr true [104; 105]); ([121], VList [VNum (DZ 3); VNum (DInf true)])];
                  VRec [([120], VStr true [33]); ([121], VNone)]].
Proof. vm_compute. repeat split. Qed.

(* without strings the side condition is vacuous *)
Fixpoint no_par (c : content) : bool :=
  match c with
  | Numpy _ _ _ | Empty => true
  | ListOffset _ _ c' | ListA _ _ _ c' | Regular c' _ _ | Indexed _ _ c' | IndexedOption _ _ c'
  | ByteMasked _ _ c' | BitMasked _ _ _ _ c' | Unmasked c' => no_par c'
  | Union _ _ _ cs | Record cs _ _ =>
      (fix all (l : list content) : bool := match l with [] => true | x :: xs => no_par x && all xs end) cs
  | Par _ _ _ => false
  end.
Lemma no_par_chars_ok c : no_par c = true -> chars_ok c = true.
Proof.
  induction c using content_ind'; cbn [no_par chars_ok]; auto; try discriminate.
  - induction H as [|x xs Hx Hxs IH]; [reflexivity|]. intros E. apply andb_true_iff in E as [E1 E2].
    rewrite (Hx E1). cbn. auto.
  - induction H as [|x xs Hx Hxs IH]; [reflexivity|]. intros E. apply andb_true_iff in E as [E1 E2].
    rewrite (Hx E1). cbn. auto.
Qed.
Corollary valid_to_list_total_nopar : forall c p, Valid p c -> no_par c = true -> exists vs, to_list c = Ok vs.
Proof. intros c p HV Hn. eapply valid_to_list_total_partial; [exact HV|apply no_par_chars_ok, Hn]. Qed.
