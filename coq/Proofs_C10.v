(** C10: field projection commutes with positional selection (value level); records are
    rendered with their fields in declaration order. *)
From AwkV Require Import Layout Ops_Getitem.
From Coq Require Import ZifyBool.

Lemma mapM_get {A B} (f : A -> res B) l l' i x :
  mapM f l = Ok l' -> get l i = Ok x -> exists y, f x = Ok y /\ get l' i = Ok y.
Proof.
  unfold get. destruct (i <? 0); [discriminate|].
  generalize (Z.to_nat i) as n. clear i.
  revert l'. induction l as [|a l IH]; intros l' n H Hg; cbn in H.
  - destruct n; discriminate.
  - destruct (f a) as [b|] eqn:Ea; [|discriminate]. cbn in H.
    destruct (mapM f l) as [bs|] eqn:Eb; [|discriminate]. cbn in H. inversion H; subst.
    destruct n as [|n]; cbn in *.
    + inversion Hg; subst. exists b. auto.
    + apply (IH bs n eq_refl Hg).
Qed.

(* a[i].k = a.k[i] *)
Theorem field_commutes_with_integer_index k t l l' i x :
  mapM (proj_v k t) l = Ok l' -> get l i = Ok x ->
  exists y, proj_v k t x = Ok y /\ get l' i = Ok y.
Proof. apply mapM_get. Qed.

Lemma mapM_mapM_get {A B} (f : A -> res B) l l' ix xs :
  mapM f l = Ok l' -> mapM (get l) ix = Ok xs -> exists ys, mapM f xs = Ok ys /\ mapM (get l') ix = Ok ys.
Proof.
  intros Hf. revert xs. induction ix as [|i ix IH]; intros xs H; cbn in H.
  - inversion H; subst. exists []. auto.
  - destruct (get l i) as [x|] eqn:Ex; [|discriminate]. cbn in H.
    destruct (mapM (get l) ix) as [xs'|] eqn:Exs; [|discriminate]. cbn in H. inversion H; subst.
    destruct (mapM_get f l l' i x Hf Ex) as (y & Hy & Hgy).
    destruct (IH xs' eq_refl) as (ys & Hys & Hgys).
    exists (y :: ys). cbn. rewrite Hy, Hys, Hgy, Hgys. auto.
Qed.

(* a[range or integer array].k = a.k[range or integer array]: any selection by positions *)
Theorem field_commutes_with_positional_selection k t l l' ix xs :
  mapM (proj_v k t) l = Ok l' -> mapM (get l) ix = Ok xs ->
  exists ys, mapM (proj_v k t) xs = Ok ys /\ mapM (get l') ix = Ok ys.
Proof. apply mapM_mapM_get. Qed.

(* projection goes through lists and options elementwise, leaving None and the list structure alone *)
Theorem field_through_lists k sz t l :
  proj_v k (TList sz None t) (VList l) = rmap VList (mapM (proj_v k t) l).
Proof. reflexivity. Qed.
Theorem field_through_option k t : proj_v k (TOpt t) VNone = Ok VNone.
Proof. reflexivity. Qed.

(* records convert to dicts with fields in declaration order (tuples for unnamed fields) *)
Lemma zip_map_fst {A B} (l : list A) (m : list B) : length l = length m -> map fst (zip l m) = l.
Proof. revert m. induction l as [|a l IH]; intros [|b m] H; cbn in *; try discriminate; auto. f_equal. apply IH. lia. Qed.

Theorem record_fields_in_declaration_order ks cols i v :
  row (Some ks) cols i = Ok v -> exists vs, v = VRec (zip ks vs) /\ map fst (zip ks vs) = ks.
Proof.
  unfold row. destruct (mapM (fun col => get col i) cols) as [vs|]; [|discriminate]. cbn [bind].
  destruct (Nat.eqb (length ks) (length vs)) eqn:E; [|discriminate].
  intros H. inversion H; subst. exists vs. split; auto. apply zip_map_fst. apply Nat.eqb_eq. exact E.
Qed.
Theorem unnamed_records_are_tuples cols i v : row None cols i = Ok v -> exists vs, v = VTup vs.
Proof.
  unfold row. destruct (mapM (fun col => get col i) cols) as [vs|]; [|discriminate]. cbn [bind].
  intros H. inversion H. eauto.
Qed.
