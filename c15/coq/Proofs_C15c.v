(** C15 — truncation (exact statement: which strict prefixes parse), truncated last document of a concatenation,
    single-byte corruption of a structural byte.  New file; uses Proofs_C15.v and Proofs_C15b.v. *)
From Coq Require Import ZArith List Bool Lia ZifyBool.
From AwkV Require Import Base Layout LayoutInd Valid.
From AwkJson Require Import Json Proofs_C15 Proofs_C15b.
Import ListNotations.
Open Scope Z_scope.

(* ================================================================== extension stability for non-number values *)
(** the first byte of a text that is not a number token *)
Definition nonnum_head (q : list Z) : Prop :=
  match q with c :: _ => c = 110 \/ c = 116 \/ c = 102 \/ c = 34 \/ c = 91 \/ c = 123 | [] => False end.

Lemma parse_value_ext_nonnum f q e r : parse_value f q = POk e r -> nonnum_head q ->
  forall f' s, (f <= f')%nat -> parse_value f' (q ++ s) = POk e (r ++ s).
Proof.
  intros H Hh f' s Lf. destruct q as [|c q1]; [contradiction|]. cbn [nonnum_head] in Hh.
  destruct (Z.eq_dec c 91) as [->|N1]; [apply (proj1 (parse_ext f) _ _ _ H); [right; left; reflexivity | exact Lf]|].
  destruct (Z.eq_dec c 123) as [->|N2]; [apply (proj1 (parse_ext f) _ _ _ H); [right; right; reflexivity | exact Lf]|].
  destruct f as [|f]; [discriminate|]. destruct f' as [|f']; [lia|].
  cbn [parse_value app] in H |- *.
  destruct (c =? 110) eqn:E1; [apply lit_ext; exact H|].
  destruct (c =? 116) eqn:E2; [apply lit_ext; exact H|].
  destruct (c =? 102) eqn:E3; [apply lit_ext; exact H|].
  destruct (c =? 34) eqn:E.
  { destruct (lex_str q1) as [s0 r'|] eqn:El; [|discriminate]. injection H as <- <-.
    rewrite (lex_str_ext (length q1) q1 s0 r' s (le_n _) El). reflexivity. }
  lia.
Qed.

(** the rendering of a well-formed document that is not a bare number starts with such a byte *)
Definition bare_number (evs : list ev) : Prop := exists x, evs = [x] /\ is_numev x.

Lemma classic_bare evs : bare_number evs \/ ~ bare_number evs.
Proof.
  destruct evs as [|x [|y t]].
  - right. intros (x & E & _). discriminate.
  - destruct x; try (left; eexists; split; [reflexivity | exact I]);
      right; intros (x & E & N); injection E as <-; exact N.
  - right. intros (z & E & _). discriminate.
Qed.

Lemma render_nonnum_head evs : wfv evs -> ~ bare_number evs -> nonnum_head (render evs).
Proof.
  intros W N. destruct W; cbn [render render_from sep tok app nonnum_head]; auto 7.
  - destruct b; cbn; auto 7.
  - exfalso. apply N. eexists. split; [reflexivity | exact I].
  - exfalso. apply N. eexists. split; [reflexivity | exact I].
  - rewrite render_string_eq. cbn. auto 7.
Qed.

(** no strict, non-empty prefix of the rendering of a non-number document is accepted, with whatever fuel *)
Lemma trunc_fuel evs p s : wfv evs -> printable evs = true -> ~ bare_number evs ->
  render evs = p ++ s -> s <> [] -> forall F e r, parse_value F p <> POk e r.
Proof.
  intros W P N Hr Hs F e r Ep.
  pose proof (render_nonnum_head evs W N) as Hh.
  destruct p as [|c p']; [destruct F; discriminate Ep|].
  assert (Hp : nonnum_head (c :: p')) by (rewrite Hr in Hh; exact Hh).
  pose proof (parse1_render [] evs [] W P (Forall_nil _) I) as Full.
  cbn [app] in Full. rewrite app_nil_r in Full. unfold parse1 in Full.
  assert (Hws : is_ws c = false) by (cbn in Hp; unfold is_ws; lia).
  rewrite Hr in Full at 2. cbn [app] in Full. rewrite skip_ws_start in Full by exact Hws.
  change (c :: p' ++ s) with ((c :: p') ++ s) in Full.
  set (F' := Nat.max F (fuel_for (render evs))).
  pose proof (parse_value_ext_nonnum _ _ _ _ Ep Hp F' s ltac:(lia)) as X.
  assert (Hfull : nonnum_head ((c :: p') ++ s)) by exact Hp.
  pose proof (parse_value_ext_nonnum _ _ _ _ Full Hfull F' [] ltac:(lia)) as Y.
  rewrite !app_nil_r in Y. rewrite X in Y. injection Y as _ Hnil.
  destruct r; destruct s; try discriminate; congruence.
Qed.

(** (e) exact statement: a strict prefix of the text of a well-formed document parses ONLY IF the document is a
    bare number (e.g. "12" of "123"); arrays, objects, strings, true / false / null are all covered *)
Theorem truncation_exact_lemma evs p s : wf evs = true -> printable evs = true ->
  render evs = p ++ s -> s <> [] -> forall res, parse p = Ok res -> bare_number evs.
Proof.
  intros W P Hr Hs res Hp. apply wf_iff in W.
  destruct (classic_bare evs) as [B|N]; [exact B|]. exfalso.
  unfold parse in Hp. destruct (parse1 p) as [e r| |] eqn:Ep; try discriminate. unfold parse1 in Ep.
  pose proof (render_nonnum_head evs W N) as Hh.
  destruct p as [|c p']; [cbn in Ep; discriminate|].
  assert (Hws : is_ws c = false) by (rewrite Hr in Hh; cbn in Hh; unfold is_ws; lia).
  rewrite skip_ws_start in Ep by exact Hws.
  exact (trunc_fuel evs (c :: p') s W P N Hr Hs _ _ _ Ep).
Qed.

(* ================================================================== bare numbers: which prefixes parse *)
Lemma fold_dstep_mono l : Forall (fun d => is_digit d = true) l -> forall a, 0 <= a -> a <= fold_left dstep l a.
Proof.
  induction 1 as [|x l Hx _ IH]; intros a Ha; cbn [fold_left]; [lia|]. apply is_digit_iff in Hx.
  specialize (IH (dstep a x) ltac:(unfold dstep; lia)). unfold dstep in *. lia.
Qed.

Lemma fold_dstep_grow l : Forall (fun d => is_digit d = true) l -> l <> [] ->
  forall a, 1 <= a -> 10 * a <= fold_left dstep l a.
Proof.
  destruct 1 as [|x l Hx Hl]; [congruence|]. intros _ a Ha. cbn [fold_left]. apply is_digit_iff in Hx.
  pose proof (fold_dstep_mono l Hl (dstep a x) ltac:(unfold dstep; lia)). unfold dstep in *. lia.
Qed.

Lemma read_digits_all p : Forall (fun d => is_digit d = true) p ->
  read_digits p 0 0 = (fold_left dstep p 0, zlen p, []).
Proof.
  intros H. rewrite <- (app_nil_r p) at 1. rewrite read_digits_app by exact H. reflexivity.
Qed.

Lemma lex_number_digits d p' (neg : bool) : 49 <= d <= 57 -> Forall (fun d => is_digit d = true) (d :: p') ->
  fold_left dstep (d :: p') 0 < 9223372036854775808 ->
  lex_number ((if neg then [45] else []) ++ d :: p') =
  POk [EInt (if neg then - fold_left dstep (d :: p') 0 else fold_left dstep (d :: p') 0)] [].
Proof.
  intros Hd Hp Hv. set (v := fold_left dstep (d :: p') 0) in *.
  assert (Hv0 : 0 <= v) by (apply (fold_dstep_mono (d :: p') Hp 0); lia).
  assert (SM : strip_minus ((if neg then [45] else []) ++ d :: p') = (neg, d :: p')).
  { destruct neg; cbn [app strip_minus]; [reflexivity|]. replace (d =? 45) with false by lia. reflexivity. }
  unfold lex_number. rewrite SM. cbn [lex_ipart].
  replace (d =? 48) with false by lia. replace ((49 <=? d) && (d <=? 57)) with true by lia.
  rewrite (read_digits_all _ Hp). fold v. cbn [lex_frac lex_exp]. unfold classify. cbn [orb].
  destruct neg.
  - replace (v <=? 9223372036854775808) with true by lia. reflexivity.
  - replace (v <? 18446744073709551616) with true by lia. rewrite wrap64_small by lia. reflexivity.
Qed.

Lemma parse_digits c q : c = 45 \/ 48 <= c <= 57 -> parse1 (c :: q) = lex_number (c :: q).
Proof.
  intros H. unfold parse1, fuel_for. rewrite skip_ws_start by (unfold is_ws; lia).
  replace (2 * length (c :: q) + 2)%nat with (S (2 * length (c :: q) + 1)) by lia.
  apply parse_value_number. exact H.
Qed.

Lemma dec_nat_value n : 0 <= n -> fold_left dstep (dec_nat n) 0 = n.
Proof.
  intros Hn. pose proof (dec_nat_read n [] Hn I) as R. rewrite app_nil_r in R.
  rewrite (read_digits_all _ (dec_nat_digits n Hn)) in R. injection R; intros; assumption.
Qed.

(* prefixes of the digits of a non-negative number *)
Lemma nat_prefix n p s (neg : bool) : 0 <= n <= 9223372036854775808 -> dec_nat n = p ++ s -> s <> [] -> p <> [] ->
  exists z', lex_number ((if neg then [45] else []) ++ p) = POk [EInt (if neg then - z' else z')] [] /\
             0 < z' < n /\ exists d p', p = d :: p' /\ 49 <= d <= 57.
Proof.
  intros Hn E Hs Hp. pose proof (dec_nat_digits n ltac:(lia)) as D. rewrite E in D.
  apply Forall_app in D. destruct D as [Dp Ds].
  pose proof (dec_nat_value n ltac:(lia)) as V. rewrite E, fold_left_app in V.
  destruct (Z.eq_dec n 0) as [->|Hz].
  { rewrite dec_nat_zero in E. destruct p as [|x [|y t]]; [congruence| |discriminate].
    destruct s; [congruence | discriminate]. }
  destruct (dec_nat_head n ltac:(lia)) as (d & ds & Ed & Hd). rewrite Ed in E.
  destruct p as [|d' p']; [congruence|]. cbn [app] in E. injection E as <- E.
  set (v := fold_left dstep (d :: p') 0) in *.
  assert (Hv1 : 1 <= v).
  { unfold v. cbn [fold_left]. inversion Dp; subst.
    pose proof (fold_dstep_mono p' H2 (dstep 0 d) ltac:(unfold dstep; lia)). unfold dstep in *. lia. }
  pose proof (fold_dstep_grow s Ds Hs v Hv1) as G. rewrite V in G.
  exists v. split; [apply lex_number_digits; [lia | exact Dp | fold v; lia]|]. split; [lia | eauto].
Qed.

(** the exact exception to truncation: every strict prefix of the decimal text of an int64 parses, to a
    DIFFERENT integer, except the empty prefix and a lone minus sign, which are errors *)
Theorem truncation_int_exact_lemma z p s : -9223372036854775808 <= z < 9223372036854775808 ->
  dec z = p ++ s -> s <> [] ->
  ((p = [] \/ p = [45]) -> parse p = Err EValue) /\
  (p <> [] -> p <> [45] -> exists z', parse p = Ok ([EInt z'], []) /\ z' <> z).
Proof.
  intros Hz E Hs. split.
  - intros [-> | ->]; reflexivity.
  - intros N1 N2. unfold dec in E. destruct (z <? 0) eqn:Ez.
    + destruct p as [|c p1]; [congruence|]. cbn [app] in E. injection E as <- E.
      assert (Hp1 : p1 <> []) by (intros ->; congruence).
      destruct (nat_prefix (- z) p1 s true ltac:(lia) E Hs Hp1) as (z' & L & Hz' & _).
      exists (- z'). split; [|lia]. unfold parse. rewrite parse_digits by lia. cbn [app] in L. rewrite L. reflexivity.
    + destruct (nat_prefix z p s false ltac:(lia) E Hs N1) as (z' & L & Hz' & d & p' & -> & Hd).
      exists z'. split; [|lia]. unfold parse. rewrite parse_digits by lia. cbn [app] in L. rewrite L. reflexivity.
Qed.

(** "digits.0" (an integer-valued double): the prefix "digits" parses as an INTEGER event, "digits." is an error *)
Theorem truncation_real_exact_lemma z : -9007199254740992 <= z <= 9007199254740992 ->
  render [EReal (RZ z)] = dec z ++ [46; 48] /\
  parse (dec z) = Ok ([EInt z], []) /\ parse (dec z ++ [46]) = Err EValue.
Proof.
  intros Hz. split; [unfold render; cbn [render_from sep tok render_real app]; rewrite app_nil_r; reflexivity|].
  split.
  - pose proof (parse_render_lemma [EInt z]) as X. unfold render in X. cbn [render_from sep tok app] in X.
    rewrite app_nil_r in X. apply X; [reflexivity | cbn; lia].
  - destruct (dec_head z) as (c & t & E & Hc). unfold parse. rewrite E. cbn [app]. rewrite parse_digits by exact Hc.
    change (c :: t ++ [46]) with ((c :: t) ++ [46]). rewrite <- E.
    unfold lex_number, dec.
    assert (F : forall n, lex_frac n [46] = inr []) by reflexivity.
    destruct (z <? 0) eqn:Ez.
    + cbn [app strip_minus]. change (45 =? 45) with true. cbn iota.
      rewrite lex_ipart_dec by (cbn; (reflexivity || lia)). rewrite F. reflexivity.
    + rewrite strip_minus_dec_nat by lia. rewrite lex_ipart_dec by (cbn; (reflexivity || lia)). rewrite F. reflexivity.
Qed.

Example truncation_number_ex :
  parse (dec 123) = Ok ([EInt 123], []) /\ parse (firstn 2 (dec 123)) = Ok ([EInt 12], []) /\
  parse (firstn 1 (dec (-7))) = Err EValue /\ parse (firstn 3 (render [EReal (RZ 12)])) = Err EValue /\
  parse (firstn 3 (render [EBool true])) = Err EValue /\ parse (firstn 3 (render [EStr [97; 98]])) = Err EValue.
Proof. vm_compute. auto 7. Qed.

(* ================================================================== concatenated documents, the last one truncated *)
Lemma do_parse_loop_step f o bs acc : skip_ws bs <> [] ->
  do_parse_loop (S f) o bs acc =
  match parse1 bs with
  | POk evs rest => do_parse_loop f o rest (map (handler o) evs :: acc)
  | PFail [] => JErr JIncomplete
  | PFail _ => JErr JInvalid
  | PFuel => JErr JFuel
  end.
Proof.
  intros H. cbn [do_parse_loop]. destruct bs as [|b bs']; [cbn in H; congruence|].
  destruct (skip_ws (b :: bs')); [congruence | reflexivity].
Qed.

Lemma nonnum_head_safe tail : nonnum_head tail -> num_safe tail /\ skip_ws tail = tail /\ tail <> [].
Proof.
  destruct tail as [|c t]; [contradiction|]. cbn [nonnum_head]. intros H.
  split; [apply num_safe_cons; unfold is_digit; lia|]. split; [apply skip_ws_start; unfold is_ws; lia | discriminate].
Qed.

Lemma do_parse_loop_docs_tail o tail : nonnum_head tail -> (forall F e r, parse_value F tail <> POk e r) ->
  forall dws, Forall doc_ok dws -> seps_ok dws ->
  forall fuel acc w0, all_ws w0 -> (length (w0 ++ docs_text dws ++ tail) < fuel)%nat ->
  exists e, do_parse_loop fuel o (w0 ++ docs_text dws ++ tail) acc = JErr e.
Proof.
  intros Hh Hbad. destruct (nonnum_head_safe tail Hh) as (Hsafe & Hsk & Hne).
  induction dws as [|[d w] dws IH]; intros Hok Hsep [|fuel] acc w0 Hw0 L; try (cbn in L; lia).
  - unfold docs_text. cbn [map concat app].
    assert (S : skip_ws (w0 ++ tail) = tail) by (rewrite skip_ws_app by exact Hw0; exact Hsk).
    rewrite do_parse_loop_step by (rewrite S; exact Hne).
    unfold parse1. rewrite S.
    destruct (parse_value (fuel_for (w0 ++ tail)) tail) as [e r|r|] eqn:E.
    + exfalso. eapply Hbad; exact E.
    + destruct r; eauto.
    + eauto.
  - inversion Hok as [|? ? (Wd & Pd & Hw) Hok']; subst. cbn [fst snd] in *.
    destruct Hsep as [Hs1 Hsep'].
    unfold docs_text in *. cbn [map concat] in *. unfold doc_text at 1. unfold doc_text at 1 in L. cbn [fst snd] in *.
    fold (docs_text dws) in *. apply wf_iff in Wd.
    assert (Hsafe' : num_safe (w ++ docs_text dws ++ tail)).
    { destruct dws as [|dw' dws'].
      - unfold docs_text. cbn [map concat app].
        destruct Hw as [|c w' Hc Hw']; [exact Hsafe|]. apply (ws_num_safe (c :: w')); [constructor; assumption | discriminate].
      - apply ws_num_safe; assumption. }
    pose proof (parse1_render w0 d (w ++ docs_text dws ++ tail) Wd Pd Hw0 Hsafe') as E.
    rewrite <- !app_assoc in *.
    destruct (render_head d Wd Pd) as (b & t & Eb & (Hb & _)). unfold render in *.
    rewrite do_parse_loop_step.
    2:{ rewrite skip_ws_app by exact Hw0. rewrite Eb. cbn [app]. rewrite skip_ws_start by exact Hb. discriminate. }
    rewrite E. apply IH; try assumption.
    rewrite !app_length in *. pose proof (render_length d PStart Pd). pose proof (wfv_length d Wd). lia.
Qed.

Lemma Forall_app_l {A} (P : A -> Prop) l1 l2 : Forall P (l1 ++ l2) -> Forall P l1.
Proof. intros H. apply Forall_app in H. tauto. Qed.

(** (d'/e) k complete documents followed by a truncated one (a non-empty strict prefix of the text of an array,
    object, string or literal): from_json raises; the k complete documents are NOT returned.  The error is one
    of the two errors of json.cpp, never the model's out-of-fuel. *)
Theorem truncated_last_document_lemma o w0 dws evs p s :
  all_ws w0 -> Forall doc_ok dws -> seps_ok dws ->
  wf evs = true -> printable evs = true -> ~ bare_number evs ->
  render evs = p ++ s -> p <> [] -> s <> [] ->
  exists e, do_parse o (w0 ++ docs_text dws ++ p) = JErr e /\ e <> JFuel.
Proof.
  intros Hw Hok Hsep W P N Hr Hp Hs. apply wf_iff in W.
  assert (Hh : nonnum_head p).
  { pose proof (render_nonnum_head evs W N) as H. rewrite Hr in H. destruct p; [congruence | exact H]. }
  assert (Hnz : Forall nz (w0 ++ docs_text dws ++ p)).
  { apply Forall_app. split; [apply ws_nz; exact Hw|]. apply Forall_app. split; [apply docs_text_nz; exact Hok|].
    pose proof (render_nz evs PStart P) as X. fold (render evs) in X. rewrite Hr in X. eapply Forall_app_l; exact X. }
  pose proof (do_parse_total_lemma o (w0 ++ docs_text dws ++ p)) as NF.
  unfold do_parse in *. rewrite cstr_id in * by exact Hnz. unfold do_parse_text in *.
  destruct (do_parse_loop_docs_tail o p Hh (trunc_fuel evs p s W P N Hr Hs) dws Hok Hsep
              (S (length (w0 ++ docs_text dws ++ p))) [] w0 Hw ltac:(lia)) as (e & He).
  exists e. split; [exact He|]. rewrite He in NF. congruence.
Qed.

Example truncated_last_document_ex :
  let dws := [([ESA; EInt 1; EEA], [32]); ([EInt 2], [])] in
  do_parse ex_opts (docs_text dws) = JDocs [[ESA; EInt 1; EEA]; [EInt 2]] /\
  do_parse ex_opts (docs_text dws ++ firstn 8 (render ex_events)) = JErr JIncomplete /\
  do_parse ex_opts (docs_text dws ++ [32] ++ firstn 3 (render [EBool true])) = JErr JIncomplete.
Proof. vm_compute. auto. Qed.

(* ================================================================== corruption of one structural byte *)
Lemma go_struct_here A b B : run Out A = Out -> is_struct b = true ->
  go Out (A ++ b :: B) = go Out A ++ b :: go Out B.
Proof.
  intros R Hb. rewrite go_app, R. cbn [go]. replace (b =? 34) with false by (unfold is_struct in Hb; lia).
  rewrite Hb. reflexivity.
Qed.

(** the text of a well-formed document with ONE structural byte ([ ] { } , : outside strings) replaced by a
    structural byte of another kind: the reader either raises the JSON error, or returns a well-formed event
    sequence DIFFERENT from the original one (with whatever is left of the input); it never returns the
    original value and never exhausts the model's fuel (no third outcome) *)
Theorem single_byte_corruption_lemma evs A b B b' :
  wf evs = true -> printable evs = true ->
  render evs = A ++ b :: B -> run Out A = Out -> is_struct b = true -> is_struct b' = true -> b <> b' ->
  parse (A ++ b' :: B) = Err EValue \/
  exists evs' rest, parse (A ++ b' :: B) = Ok (evs', rest) /\ wf evs' = true /\ evs' <> evs.
Proof.
  intros W P Hr R Hb Hb' Hne.
  destruct (parse (A ++ b' :: B)) as [[evs' rest]|e] eqn:Ep.
  - right. exists evs', rest. split; [reflexivity|].
    destruct (parse_sound_lemma _ _ _ Ep) as (W' & u & Hu & _ & Sk & Ru). split; [exact W'|].
    intros ->. pose proof (skeleton_render evs P) as S0. unfold skeleton in *.
    rewrite Hr, go_struct_here in S0 by assumption.
    assert (S1 : go Out (A ++ b' :: B) = esk PStart evs ++ go Out rest) by (rewrite Hu, go_app, Sk, Ru; reflexivity).
    rewrite go_struct_here in S1 by assumption. rewrite <- S0 in S1.
    assert (Hl : length (go Out rest) = 0%nat).
    { apply (f_equal (@length Z)) in S1. rewrite !app_length in S1. cbn [length] in S1. lia. }
    destruct (go Out rest); [|discriminate]. rewrite app_nil_r in S1.
    apply app_inv_head in S1. injection S1 as S1. congruence.
  - left. pose proof (parse_total_lemma (A ++ b' :: B)) as T. rewrite Ep in T.
    unfold parse in Ep. destruct (parse1 (A ++ b' :: B)); try discriminate; injection Ep as <-; [reflexivity | congruence].
Qed.

(* every structural byte of the text of ex_events replaced by each of the five other structural bytes:
   error, or a different well-formed value (instance of the theorem, by computation) *)
Definition corrupt_at (t : list Z) (k : nat) (b' : Z) : list Z := firstn k t ++ b' :: skipn (S k) t.
Definition struct_positions (t : list Z) : list nat :=
  filter (fun k => match run Out (firstn k t), nth_error t k with
                   | Out, Some b => is_struct b | _, _ => false end) (seq 0 (length t)).
Example single_byte_corruption_ex :
  let t := render ex_events in
  length (struct_positions t) = 10%nat /\
  forallb (fun k => forallb (fun b' =>
     match nth_error t k with
     | Some b => if b =? b' then true else
                 match parse (corrupt_at t k b') with
                 | Err EValue => true
                 | Ok (evs', _) => wf evs' && negb (list_eqb (fun x y => list_eqb Z.eqb (tok x) (tok y)) evs' ex_events)
                 | _ => false end
     | None => false end) [91; 93; 123; 125; 44; 58]) (struct_positions t) = true.
Proof. vm_compute. auto. Qed.
