(** Props_C13.v -- the property theorems of C13: statements only, each proved by [exact] of a lemma of
    the Proofs_C13*.v files, each followed by Print Assumptions.  Tags (* @kernel kind *) are read by the harness. *)
From Coq Require Import ZArith List Bool.
From AwkV Require Import Base.
From AwkKernels Require Import Kernels KLemmas Proofs_C13 Proofs_C13b Proofs_C13c Proofs_C13e Proofs_C13f Proofs_C13g.
Import ListNotations.
Open Scope Z_scope.

(* @awkward_ListArray_num k_safe *)
Theorem C13_ListArray_num_safe :
  forall tT tC tonum starts stops n,
  n <= zlen starts -> n <= zlen stops -> n <= zlen tonum ->
  ListArray_num tT tC tonum starts stops n <> KOob.
Proof. exact ListArray_num_safe. Qed.
Print Assumptions C13_ListArray_num_safe.

(* @awkward_ListArray_num k_spec *)
Theorem C13_ListArray_num_spec :
  forall tonum starts stops n,
  zlen starts = n -> zlen stops = n -> n <= zlen tonum ->
  ListArray_num TIdeal TIdeal tonum starts stops n
  = KOk (map (fun p => snd p - fst p) (zip starts stops) ++ skipn (Z.to_nat n) tonum).
Proof. exact ListArray_num_spec. Qed.
Print Assumptions C13_ListArray_num_spec.

(* @awkward_ListArray_num k_width *)
Theorem C13_ListArray_num_width :
  forall tT tC tonum starts stops n,
  n <= zlen starts -> n <= zlen stops ->
  (forall i, 0 <= i < n -> fits tC (at_ stops i - at_ starts i) /\ fits tT (at_ stops i - at_ starts i)) ->
  ListArray_num tT tC tonum starts stops n = ListArray_num TIdeal TIdeal tonum starts stops n.
Proof. exact ListArray_num_width. Qed.
Print Assumptions C13_ListArray_num_width.

(* @awkward_RegularArray_num k_safe *)
Theorem C13_RegularArray_num_safe :
  forall tT tonum size n,
  n <= zlen tonum -> RegularArray_num tT tonum size n <> KOob.
Proof. exact RegularArray_num_safe. Qed.
Print Assumptions C13_RegularArray_num_safe.

(* @awkward_RegularArray_num k_spec *)
Theorem C13_RegularArray_num_spec :
  forall tonum size n,
  0 <= n -> n <= zlen tonum ->
  RegularArray_num TIdeal tonum size n = KOk (repeat size (Z.to_nat n) ++ skipn (Z.to_nat n) tonum).
Proof. exact RegularArray_num_spec. Qed.
Print Assumptions C13_RegularArray_num_spec.

(* @awkward_RegularArray_num k_width *)
Theorem C13_RegularArray_num_width :
  forall tT tonum size n,
  fits tT size -> RegularArray_num tT tonum size n = RegularArray_num TIdeal tonum size n.
Proof. exact RegularArray_num_width. Qed.
Print Assumptions C13_RegularArray_num_width.

(* @awkward_ListOffsetArray_flatten_offsets k_safe *)
Theorem C13_flatten_offsets_safe :
  forall tT tooffsets outer outerlen inner,
  outerlen <= zlen outer -> outerlen <= zlen tooffsets ->
  (forall i, 0 <= i < outerlen -> 0 <= at_ outer i < zlen inner) ->
  ListOffsetArray_flatten_offsets tT tooffsets outer outerlen inner <> KOob.
Proof. exact flatten_offsets_safe. Qed.
Print Assumptions C13_flatten_offsets_safe.

(* @awkward_ListOffsetArray_flatten_offsets k_spec *)
Theorem C13_flatten_offsets_spec :
  forall tooffsets outer inner,
  zlen outer <= zlen tooffsets ->
  (forall i, 0 <= i < zlen outer -> 0 <= at_ outer i < zlen inner) ->
  ListOffsetArray_flatten_offsets TIdeal tooffsets outer (zlen outer) inner
  = KOk (map (at_ inner) outer ++ skipn (length outer) tooffsets).
Proof. exact flatten_offsets_spec. Qed.
Print Assumptions C13_flatten_offsets_spec.

(* @awkward_localindex k_safe *)
Theorem C13_localindex_safe :
  forall tT toindex n,
  n <= zlen toindex -> localindex tT toindex n <> KOob.
Proof. exact localindex_safe. Qed.
Print Assumptions C13_localindex_safe.

(* @awkward_localindex k_spec *)
Theorem C13_localindex_spec :
  forall toindex n,
  0 <= n -> n <= zlen toindex -> localindex TIdeal toindex n = KOk (iota n ++ skipn (Z.to_nat n) toindex).
Proof. exact localindex_spec. Qed.
Print Assumptions C13_localindex_spec.

(* @awkward_localindex k_width *)
Theorem C13_localindex_width :
  forall tT toindex n,
  (forall i, 0 <= i < n -> fits tT i) -> localindex tT toindex n = localindex TIdeal toindex n.
Proof. exact localindex_width. Qed.
Print Assumptions C13_localindex_width.

(* @awkward_ByteMaskedArray_toIndexedOptionArray k_safe *)
Theorem C13_ByteMasked_toIndexedOption_safe :
  forall toindex mask n vw,
  n <= zlen mask -> n <= zlen toindex -> ByteMaskedArray_toIndexedOptionArray toindex mask n vw <> KOob.
Proof. exact ByteMasked_toIndexedOption_safe. Qed.
Print Assumptions C13_ByteMasked_toIndexedOption_safe.

(* @awkward_ByteMaskedArray_toIndexedOptionArray k_spec *)
Theorem C13_ByteMasked_toIndexedOption_spec :
  forall toindex mask vw,
  zlen toindex = zlen mask ->
  ByteMaskedArray_toIndexedOptionArray toindex mask (zlen mask) vw
  = KOk (map (fun i => if Bool.eqb (negb (at_ mask i =? 0)) vw then i else -1) (iota (zlen mask))).
Proof. exact ByteMasked_toIndexedOption_spec. Qed.
Print Assumptions C13_ByteMasked_toIndexedOption_spec.

(* @awkward_UnionArray_fillna k_safe *)
Theorem C13_UnionArray_fillna_safe :
  forall tT toindex fromindex n,
  n <= zlen fromindex -> n <= zlen toindex -> UnionArray_fillna tT toindex fromindex n <> KOob.
Proof. exact UnionArray_fillna_safe. Qed.
Print Assumptions C13_UnionArray_fillna_safe.

(* @awkward_UnionArray_fillna k_spec *)
Theorem C13_UnionArray_fillna_spec :
  forall toindex fromindex,
  zlen fromindex <= zlen toindex ->
  UnionArray_fillna TIdeal toindex fromindex (zlen fromindex)
  = KOk (map (fun x => if 0 <=? x then x else 0) fromindex ++ skipn (length fromindex) toindex).
Proof. exact UnionArray_fillna_spec. Qed.
Print Assumptions C13_UnionArray_fillna_spec.

(* @awkward_NumpyArray_fill k_safe *)
Theorem C13_NumpyArray_fill_safe :
  forall tTO toptr off fromptr n,
  0 <= off -> n <= zlen fromptr -> off + n <= zlen toptr -> NumpyArray_fill tTO toptr off fromptr n <> KOob.
Proof. exact NumpyArray_fill_safe. Qed.
Print Assumptions C13_NumpyArray_fill_safe.

(* @awkward_NumpyArray_fill k_spec *)
Theorem C13_NumpyArray_fill_spec :
  forall toptr off fromptr,
  0 <= off -> off + zlen fromptr <= zlen toptr ->
  NumpyArray_fill TIdeal toptr off fromptr (zlen fromptr)
  = KOk (firstn (Z.to_nat off) toptr ++ fromptr ++ skipn (Z.to_nat (off + zlen fromptr)) toptr).
Proof. exact NumpyArray_fill_spec. Qed.
Print Assumptions C13_NumpyArray_fill_spec.

(* @awkward_NumpyArray_fill k_width *)
Theorem C13_NumpyArray_fill_width :
  forall tTO toptr off fromptr n,
  n <= zlen fromptr -> (forall i, 0 <= i < n -> fits tTO (at_ fromptr i)) ->
  NumpyArray_fill tTO toptr off fromptr n = NumpyArray_fill TIdeal toptr off fromptr n.
Proof. exact NumpyArray_fill_width. Qed.
Print Assumptions C13_NumpyArray_fill_width.

(* @awkward_IndexedArray_fill k_safe *)
Theorem C13_IndexedArray_fill_safe :
  forall tTO toindex off fromindex n base,
  0 <= off -> n <= zlen fromindex -> off + n <= zlen toindex -> IndexedArray_fill tTO toindex off fromindex n base <> KOob.
Proof. exact IndexedArray_fill_safe. Qed.
Print Assumptions C13_IndexedArray_fill_safe.

(* @awkward_IndexedArray_fill k_spec *)
Theorem C13_IndexedArray_fill_spec :
  forall toindex off fromindex base,
  0 <= off -> off + zlen fromindex <= zlen toindex ->
  IndexedArray_fill TIdeal toindex off fromindex (zlen fromindex) base
  = KOk (firstn (Z.to_nat off) toindex ++ map (fun x => if x <? 0 then -1 else x + base) fromindex
         ++ skipn (Z.to_nat (off + zlen fromindex)) toindex).
Proof. exact IndexedArray_fill_spec. Qed.
Print Assumptions C13_IndexedArray_fill_spec.

(* @awkward_UnionArray_filltags k_safe *)
Theorem C13_UnionArray_filltags_safe :
  forall tTO totags off fromtags n base,
  0 <= off -> n <= zlen fromtags -> off + n <= zlen totags -> UnionArray_filltags tTO totags off fromtags n base <> KOob.
Proof. exact UnionArray_filltags_safe. Qed.
Print Assumptions C13_UnionArray_filltags_safe.

(* @awkward_UnionArray_filltags k_spec *)
Theorem C13_UnionArray_filltags_spec :
  forall totags off fromtags base,
  0 <= off -> off + zlen fromtags <= zlen totags ->
  UnionArray_filltags TIdeal totags off fromtags (zlen fromtags) base
  = KOk (firstn (Z.to_nat off) totags ++ map (fun x => x + base) fromtags ++ skipn (Z.to_nat (off + zlen fromtags)) totags).
Proof. exact UnionArray_filltags_spec. Qed.
Print Assumptions C13_UnionArray_filltags_spec.

(* @awkward_UnionArray_fillindex k_safe *)
Theorem C13_UnionArray_fillindex_safe :
  forall tTO toindex off fromindex n,
  0 <= off -> n <= zlen fromindex -> off + n <= zlen toindex -> UnionArray_fillindex tTO toindex off fromindex n <> KOob.
Proof. exact UnionArray_fillindex_safe. Qed.
Print Assumptions C13_UnionArray_fillindex_safe.

(* @awkward_UnionArray_fillindex k_spec *)
Theorem C13_UnionArray_fillindex_spec :
  forall toindex off fromindex,
  0 <= off -> off + zlen fromindex <= zlen toindex ->
  UnionArray_fillindex TIdeal toindex off fromindex (zlen fromindex)
  = KOk (firstn (Z.to_nat off) toindex ++ fromindex ++ skipn (Z.to_nat (off + zlen fromindex)) toindex).
Proof. exact UnionArray_fillindex_spec. Qed.
Print Assumptions C13_UnionArray_fillindex_spec.

(* @awkward_ListArray_validity k_safe *)
Theorem C13_ListArray_validity_safe :
  forall starts stops n lc,
  n <= zlen starts -> n <= zlen stops -> ListArray_validity starts stops n lc <> KOob.
Proof. exact ListArray_validity_safe. Qed.
Print Assumptions C13_ListArray_validity_safe.

(* @awkward_ListArray_validity k_spec *)
Theorem C13_ListArray_validity_spec :
  forall starts stops n lc,
  n <= zlen starts -> n <= zlen stops ->
  (ListArray_validity starts stops n lc = KOk tt <->
   forall i, 0 <= i < n ->
     at_ starts i = at_ stops i \/ (at_ starts i < at_ stops i /\ 0 <= at_ starts i /\ at_ stops i <= lc)).
Proof. exact ListArray_validity_spec. Qed.
Print Assumptions C13_ListArray_validity_spec.

(* @awkward_IndexedArray_validity k_safe *)
Theorem C13_IndexedArray_validity_safe :
  forall index n lc isoption,
  n <= zlen index -> IndexedArray_validity index n lc isoption <> KOob.
Proof. exact IndexedArray_validity_safe. Qed.
Print Assumptions C13_IndexedArray_validity_safe.

(* @awkward_IndexedArray_validity k_spec *)
Theorem C13_IndexedArray_validity_spec :
  forall index n lc isoption,
  n <= zlen index ->
  (IndexedArray_validity index n lc isoption = KOk tt <->
   forall i, 0 <= i < n -> at_ index i < lc /\ (isoption = false -> 0 <= at_ index i)).
Proof. exact IndexedArray_validity_spec. Qed.
Print Assumptions C13_IndexedArray_validity_spec.

(* @awkward_UnionArray_validity k_safe *)
Theorem C13_UnionArray_validity_safe :
  forall tags index n nc lens,
  n <= zlen tags -> n <= zlen index -> nc <= zlen lens -> UnionArray_validity tags index n nc lens <> KOob.
Proof. exact UnionArray_validity_safe. Qed.
Print Assumptions C13_UnionArray_validity_safe.

(* @awkward_UnionArray_validity k_spec *)
Theorem C13_UnionArray_validity_spec :
  forall tags index n nc lens,
  n <= zlen tags -> n <= zlen index -> nc <= zlen lens ->
  (UnionArray_validity tags index n nc lens = KOk tt <->
   forall i, 0 <= i < n -> 0 <= at_ tags i < nc /\ 0 <= at_ index i < at_ lens (at_ tags i)).
Proof. exact UnionArray_validity_spec. Qed.
Print Assumptions C13_UnionArray_validity_spec.

(* @awkward_RegularArray_broadcast_tooffsets k_safe *)
Theorem C13_RegularArray_broadcast_tooffsets_safe :
  forall tT fromoffsets ol size,
  ol <= zlen fromoffsets -> RegularArray_broadcast_tooffsets tT fromoffsets ol size <> KOob.
Proof. exact RegularArray_broadcast_tooffsets_safe. Qed.
Print Assumptions C13_RegularArray_broadcast_tooffsets_safe.

(* @awkward_RegularArray_broadcast_tooffsets k_spec *)
Theorem C13_RegularArray_broadcast_tooffsets_spec :
  forall fromoffsets ol size,
  ol <= zlen fromoffsets ->
  (RegularArray_broadcast_tooffsets TIdeal fromoffsets ol size = KOk tt <->
   forall i, 0 <= i < ol - 1 -> at_ fromoffsets (i + 1) - at_ fromoffsets i = size /\ 0 <= size).
Proof. exact RegularArray_broadcast_tooffsets_spec. Qed.
Print Assumptions C13_RegularArray_broadcast_tooffsets_spec.

(* @awkward_ListOffsetArray_compact_offsets k_safe *)
Theorem C13_ListOffsetArray_compact_offsets_safe :
  forall tT tooffsets fromoffsets n,
  0 <= n -> n + 1 <= zlen fromoffsets -> n + 1 <= zlen tooffsets ->
  ListOffsetArray_compact_offsets tT tooffsets fromoffsets n <> KOob.
Proof. exact ListOffsetArray_compact_offsets_safe. Qed.
Print Assumptions C13_ListOffsetArray_compact_offsets_safe.

(* @awkward_ListOffsetArray_compact_offsets k_spec *)
Theorem C13_ListOffsetArray_compact_offsets_spec :
  forall tooffsets fromoffsets,
  1 <= zlen fromoffsets -> zlen fromoffsets <= zlen tooffsets ->
  ListOffsetArray_compact_offsets TIdeal tooffsets fromoffsets (zlen fromoffsets - 1)
  = KOk (map (fun o => o - at_ fromoffsets 0) fromoffsets ++ skipn (length fromoffsets) tooffsets).
Proof. exact ListOffsetArray_compact_offsets_spec. Qed.
Print Assumptions C13_ListOffsetArray_compact_offsets_spec.

(* @awkward_RegularArray_compact_offsets k_safe *)
Theorem C13_RegularArray_compact_offsets_safe :
  forall tT tooffsets n size,
  0 <= n -> n + 1 <= zlen tooffsets -> RegularArray_compact_offsets tT tooffsets n size <> KOob.
Proof. exact RegularArray_compact_offsets_safe. Qed.
Print Assumptions C13_RegularArray_compact_offsets_safe.

(* @awkward_RegularArray_compact_offsets k_spec *)
Theorem C13_RegularArray_compact_offsets_spec :
  forall tooffsets n size,
  0 <= n -> n + 1 <= zlen tooffsets ->
  RegularArray_compact_offsets TIdeal tooffsets n size
  = KOk (map (fun i => i * size) (iota (n + 1)) ++ skipn (Z.to_nat (n + 1)) tooffsets).
Proof. exact RegularArray_compact_offsets_spec. Qed.
Print Assumptions C13_RegularArray_compact_offsets_spec.

(* @awkward_RegularArray_getitem_next_at k_safe *)
Theorem C13_RegularArray_getitem_next_at_safe :
  forall tocarry at0 n size,
  n <= zlen tocarry -> RegularArray_getitem_next_at tocarry at0 n size <> KOob.
Proof. exact RegularArray_getitem_next_at_safe. Qed.
Print Assumptions C13_RegularArray_getitem_next_at_safe.

(* @awkward_RegularArray_getitem_next_at k_spec *)
Theorem C13_RegularArray_getitem_next_at_spec :
  forall tocarry at0 n size,
  0 <= n -> n <= zlen tocarry ->
  RegularArray_getitem_next_at tocarry at0 n size =
  let ra := if at0 <? 0 then at0 + size else at0 in
  if (0 <=? ra) && (ra <? size)
  then KOk (map (fun i => i * size + ra) (iota n) ++ skipn (Z.to_nat n) tocarry)
  else KErr MIndexOutOfRange.
Proof. exact RegularArray_getitem_next_at_spec. Qed.
Print Assumptions C13_RegularArray_getitem_next_at_spec.

(* @awkward_ListArray_getitem_next_at k_safe *)
Theorem C13_ListArray_getitem_next_at_safe :
  forall tT tC tocarry starts stops n at0,
  n <= zlen starts -> n <= zlen stops -> n <= zlen tocarry ->
  ListArray_getitem_next_at tT tC tocarry starts stops n at0 <> KOob.
Proof. exact ListArray_getitem_next_at_safe. Qed.
Print Assumptions C13_ListArray_getitem_next_at_safe.

(* @awkward_ListArray_getitem_next_at k_spec *)
Theorem C13_ListArray_getitem_next_at_spec :
  forall tocarry starts stops at0,
  zlen stops = zlen starts -> zlen starts <= zlen tocarry ->
  (forall i, 0 <= i < zlen starts -> - (at_ stops i - at_ starts i) <= at0 < at_ stops i - at_ starts i) ->
  ListArray_getitem_next_at TIdeal TIdeal tocarry starts stops (zlen starts) at0
  = KOk (map (fun p => fst p + (if at0 <? 0 then at0 + (snd p - fst p) else at0)) (zip starts stops)
         ++ skipn (length starts) tocarry).
Proof. exact ListArray_getitem_next_at_spec. Qed.
Print Assumptions C13_ListArray_getitem_next_at_spec.

(* @awkward_ByteMaskedArray_getitem_nextcarry k_safe *)
Theorem C13_ByteMasked_nextcarry_safe :
  forall tocarry mask n vw,
  n <= zlen mask -> n <= zlen tocarry -> ByteMaskedArray_getitem_nextcarry tocarry mask n vw <> KOob.
Proof. exact ByteMasked_nextcarry_safe. Qed.
Print Assumptions C13_ByteMasked_nextcarry_safe.

(* @awkward_ByteMaskedArray_getitem_nextcarry k_spec *)
Theorem C13_ByteMasked_nextcarry_spec :
  forall tocarry mask vw,
  let valid := fun i => Bool.eqb (negb (at_ mask i =? 0)) vw in
  zlen (filter valid (iota (zlen mask))) <= zlen tocarry ->
  ByteMaskedArray_getitem_nextcarry tocarry mask (zlen mask) vw
  = KOk (filter valid (iota (zlen mask)) ++ skipn (length (filter valid (iota (zlen mask)))) tocarry).
Proof. exact ByteMasked_nextcarry_spec. Qed.
Print Assumptions C13_ByteMasked_nextcarry_spec.

(* @awkward_IndexedArray_flatten_nextcarry k_safe *)
Theorem C13_IndexedArray_flatten_nextcarry_safe :
  forall tocarry index n lc,
  n <= zlen index -> n <= zlen tocarry -> IndexedArray_flatten_nextcarry tocarry index n lc <> KOob.
Proof. exact IndexedArray_flatten_nextcarry_safe. Qed.
Print Assumptions C13_IndexedArray_flatten_nextcarry_safe.

(* @awkward_IndexedArray_flatten_nextcarry k_spec *)
Theorem C13_IndexedArray_flatten_nextcarry_spec :
  forall tocarry index lc,
  (forall i, 0 <= i < zlen index -> at_ index i < lc) ->
  zlen (filter (fun x => 0 <=? x) index) <= zlen tocarry ->
  IndexedArray_flatten_nextcarry tocarry index (zlen index) lc
  = KOk (filter (fun x => 0 <=? x) index ++ skipn (length (filter (fun x => 0 <=? x) index)) tocarry).
Proof. exact IndexedArray_flatten_nextcarry_spec. Qed.
Print Assumptions C13_IndexedArray_flatten_nextcarry_spec.

(* @awkward_ListArray_combinations_length k_spec *)
Theorem C13_combinations_count_binom :
  forall n size,
  1 <= n -> 0 <= size -> combinations_count n size = Z.of_nat (binom (Z.to_nat size) (Z.to_nat n)).
Proof. exact combinations_count_binom. Qed.
Print Assumptions C13_combinations_count_binom.

(* @awkward_reduce_sum aux *)
Theorem C13_reduce_generic_spec :
  forall tO init step toptr fromptr parents n ol,
  red_pre toptr fromptr parents n ol ->
  exists out, reduce_generic tO init step toptr fromptr parents n ol = KOk out /\ zlen out = zlen toptr /\
    forall q, 0 <= q ->
      at_ out q = if q <? ol then red_upto tO init step parents fromptr (Z.to_nat n) q else at_ toptr q.
Proof. exact reduce_generic_spec. Qed.
Print Assumptions C13_reduce_generic_spec.

(* @awkward_reduce_sum aux *)
Theorem C13_reduce_generic_safe :
  forall tO init step toptr fromptr parents n ol,
  red_pre toptr fromptr parents n ol -> reduce_generic tO init step toptr fromptr parents n ol <> KOob.
Proof. exact reduce_generic_safe. Qed.
Print Assumptions C13_reduce_generic_safe.

(* @awkward_reduce_sum k_safe *)
Theorem C13_reduce_sum_safe :
  forall tO toptr fromptr parents n ol,
  red_pre toptr fromptr parents n ol -> reduce_sum tO toptr fromptr parents n ol <> KOob.
Proof. exact reduce_sum_safe. Qed.
Print Assumptions C13_reduce_sum_safe.

(* @awkward_reduce_prod k_safe *)
Theorem C13_reduce_prod_safe :
  forall tO toptr fromptr parents n ol,
  red_pre toptr fromptr parents n ol -> reduce_prod tO toptr fromptr parents n ol <> KOob.
Proof. exact reduce_prod_safe. Qed.
Print Assumptions C13_reduce_prod_safe.

(* @awkward_reduce_max k_safe *)
Theorem C13_reduce_max_safe :
  forall tO idn toptr fromptr parents n ol,
  red_pre toptr fromptr parents n ol -> reduce_max tO idn toptr fromptr parents n ol <> KOob.
Proof. exact reduce_max_safe. Qed.
Print Assumptions C13_reduce_max_safe.

(* @awkward_reduce_min k_safe *)
Theorem C13_reduce_min_safe :
  forall tO idn toptr fromptr parents n ol,
  red_pre toptr fromptr parents n ol -> reduce_min tO idn toptr fromptr parents n ol <> KOob.
Proof. exact reduce_min_safe. Qed.
Print Assumptions C13_reduce_min_safe.

(* @awkward_reduce_countnonzero k_safe *)
Theorem C13_reduce_countnonzero_safe :
  forall toptr fromptr parents n ol,
  red_pre toptr fromptr parents n ol -> reduce_countnonzero toptr fromptr parents n ol <> KOob.
Proof. exact reduce_countnonzero_safe. Qed.
Print Assumptions C13_reduce_countnonzero_safe.

(* @awkward_reduce_sum k_spec *)
Theorem C13_reduce_sum_spec :
  forall toptr fromptr parents ol,
  zlen fromptr = zlen parents -> 0 <= ol <= zlen toptr ->
  (forall i, 0 <= i < zlen parents -> 0 <= at_ parents i < ol) ->
  exists out, reduce_sum TIdeal toptr fromptr parents (zlen parents) ol = KOk out /\ zlen out = zlen toptr /\
    forall q, 0 <= q -> at_ out q = if q <? ol then group_sum parents fromptr q else at_ toptr q.
Proof. exact reduce_sum_spec. Qed.
Print Assumptions C13_reduce_sum_spec.

(* @awkward_reduce_sum k_width *)
Theorem C13_reduce_sum_width :
  forall tO toptr fromptr parents n ol,
  red_pre toptr fromptr parents n ol ->
  (forall j q, (j <= Z.to_nat n)%nat -> fits tO (red_upto TIdeal 0 (fun _ cur x => cur + x) parents fromptr j q)) ->
  (forall i, 0 <= i < n -> fits tO (at_ fromptr i)) ->
  reduce_sum tO toptr fromptr parents n ol = reduce_sum TIdeal toptr fromptr parents n ol.
Proof. exact reduce_sum_width. Qed.
Print Assumptions C13_reduce_sum_width.

(* @awkward_reduce_count_64 k_spec *)
Theorem C13_reduce_count_spec :
  forall toptr parents ol,
  0 <= ol <= zlen toptr ->
  (forall i, 0 <= i < zlen parents -> 0 <= at_ parents i < ol) ->
  exists out, reduce_count toptr parents (zlen parents) ol = KOk out /\ zlen out = zlen toptr /\
    forall q, 0 <= q -> at_ out q = if q <? ol then Z.of_nat (count_occ Z.eq_dec parents q) else at_ toptr q.
Proof. exact reduce_count_spec. Qed.
Print Assumptions C13_reduce_count_spec.

(* @awkward_reduce_count_64 k_safe *)
Theorem C13_reduce_count_safe :
  forall toptr parents ol,
  0 <= ol <= zlen toptr -> (forall i, 0 <= i < zlen parents -> 0 <= at_ parents i < ol) ->
  reduce_count toptr parents (zlen parents) ol <> KOob.
Proof. exact reduce_count_safe. Qed.
Print Assumptions C13_reduce_count_safe.

(* @awkward_ListArray_compact_offsets k_spec *)
Theorem C13_ListArray_compact_offsets_spec :
  forall tooffsets starts stops,
  zlen stops = zlen starts -> zlen starts + 1 <= zlen tooffsets ->
  (forall i, 0 <= i < zlen starts -> at_ starts i <= at_ stops i) ->
  exists out, ListArray_compact_offsets TIdeal TIdeal tooffsets starts stops (zlen starts) = KOk out /\
    zlen out = zlen tooffsets /\
    forall q, 0 <= q -> at_ out q = if q <=? zlen starts then count_sum starts stops (Z.to_nat q) else at_ tooffsets q.
Proof. exact ListArray_compact_offsets_spec. Qed.
Print Assumptions C13_ListArray_compact_offsets_spec.

(* @awkward_ListArray_compact_offsets k_safe *)
Theorem C13_ListArray_compact_offsets_safe :
  forall tT tC tooffsets starts stops n,
  0 <= n -> n <= zlen starts -> n <= zlen stops -> n + 1 <= zlen tooffsets ->
  ListArray_compact_offsets tT tC tooffsets starts stops n <> KOob.
Proof. exact ListArray_compact_offsets_safe. Qed.
Print Assumptions C13_ListArray_compact_offsets_safe.

(* @awkward_IndexedArray_getitem_nextcarry k_safe *)
Theorem C13_IndexedArray_getitem_nextcarry_safe :
  forall tocarry index n lc,
  n <= zlen index -> n <= zlen tocarry -> IndexedArray_getitem_nextcarry tocarry index n lc <> KOob.
Proof. exact IndexedArray_getitem_nextcarry_safe. Qed.
Print Assumptions C13_IndexedArray_getitem_nextcarry_safe.

(* @awkward_IndexedArray_getitem_nextcarry k_spec *)
Theorem C13_IndexedArray_getitem_nextcarry_spec :
  forall tocarry index lc,
  zlen index <= zlen tocarry ->
  (forall i, 0 <= i < zlen index -> 0 <= at_ index i < lc) ->
  IndexedArray_getitem_nextcarry tocarry index (zlen index) lc = KOk (index ++ skipn (length index) tocarry).
Proof. exact IndexedArray_getitem_nextcarry_spec. Qed.
Print Assumptions C13_IndexedArray_getitem_nextcarry_spec.

(* @awkward_ListArray_getitem_next_range aux *)
Theorem C13_regularize_rangeslice_spec :
  forall start stop posstep hasstart hasstop length,
  0 <= length ->
  let '(s, e) := regularize_rangeslice start stop posstep hasstart hasstop length in
  if posstep then 0 <= s <= e /\ e <= length else -1 <= e <= s /\ s <= length - 1.
Proof. exact regularize_rangeslice_spec. Qed.
Print Assumptions C13_regularize_rangeslice_spec.

(* @awkward_ListArray_getitem_next_range aux *)
Theorem C13_regularize_rangeslice_width :
  forall start stop length,
  0 <= start <= stop -> stop <= length ->
  regularize_rangeslice start stop true true true length = (start, stop).
Proof. exact regularize_rangeslice_width. Qed.
Print Assumptions C13_regularize_rangeslice_width.

(* @awkward_reduce_prod k_spec *)
Theorem C13_reduce_prod_spec :
  forall tO toptr fromptr parents n ol,
  red_pre toptr fromptr parents n ol ->
  exists out, reduce_prod tO toptr fromptr parents n ol = KOk out /\ zlen out = zlen toptr /\
    forall q, 0 <= q ->
      at_ out q = if q <? ol then red_upto tO 1 (fun _ cur x => cur * wrap tO x) parents fromptr (Z.to_nat n) q
                  else at_ toptr q.
Proof. exact reduce_prod_spec. Qed.
Print Assumptions C13_reduce_prod_spec.

(* @awkward_reduce_max k_spec *)
Theorem C13_reduce_max_spec :
  forall tO idn toptr fromptr parents n ol,
  red_pre toptr fromptr parents n ol ->
  exists out, reduce_max tO idn toptr fromptr parents n ol = KOk out /\ zlen out = zlen toptr /\
    forall q, 0 <= q ->
      at_ out q = if q <? ol then red_upto tO idn (fun _ cur x => if cur <? x then x else cur) parents fromptr (Z.to_nat n) q
                  else at_ toptr q.
Proof. exact reduce_max_spec. Qed.
Print Assumptions C13_reduce_max_spec.

(* @awkward_reduce_min k_spec *)
Theorem C13_reduce_min_spec :
  forall tO idn toptr fromptr parents n ol,
  red_pre toptr fromptr parents n ol ->
  exists out, reduce_min tO idn toptr fromptr parents n ol = KOk out /\ zlen out = zlen toptr /\
    forall q, 0 <= q ->
      at_ out q = if q <? ol then red_upto tO idn (fun _ cur x => if x <? cur then x else cur) parents fromptr (Z.to_nat n) q
                  else at_ toptr q.
Proof. exact reduce_min_spec. Qed.
Print Assumptions C13_reduce_min_spec.

(* @awkward_reduce_countnonzero k_spec *)
Theorem C13_reduce_countnonzero_spec :
  forall toptr fromptr parents n ol,
  red_pre toptr fromptr parents n ol ->
  exists out, reduce_countnonzero toptr fromptr parents n ol = KOk out /\ zlen out = zlen toptr /\
    forall q, 0 <= q ->
      at_ out q = if q <? ol then red_upto i64 0 (fun _ cur x => cur + (if x =? 0 then 0 else 1)) parents fromptr (Z.to_nat n) q
                  else at_ toptr q.
Proof. exact reduce_countnonzero_spec. Qed.
Print Assumptions C13_reduce_countnonzero_spec.

(* @awkward_RegularArray_localindex k_safe *)
Theorem C13_RegularArray_localindex_safe :
  forall toindex size n,
  0 <= size -> 0 <= n -> n * size <= zlen toindex -> RegularArray_localindex toindex size n <> KOob.
Proof. exact RegularArray_localindex_safe. Qed.
Print Assumptions C13_RegularArray_localindex_safe.

(* @awkward_RegularArray_getitem_next_range k_safe *)
Theorem C13_RegularArray_getitem_next_range_safe :
  forall tocarry rs step n size nextsize,
  0 <= nextsize -> 0 <= n -> n * nextsize <= zlen tocarry ->
  RegularArray_getitem_next_range tocarry rs step n size nextsize <> KOob.
Proof. exact RegularArray_getitem_next_range_safe. Qed.
Print Assumptions C13_RegularArray_getitem_next_range_safe.

(* @awkward_RegularArray_getitem_carry k_safe *)
Theorem C13_RegularArray_getitem_carry_safe :
  forall tocarry fromcarry n size,
  0 <= size -> 0 <= n -> n <= zlen fromcarry -> n * size <= zlen tocarry ->
  RegularArray_getitem_carry tocarry fromcarry n size <> KOob.
Proof. exact RegularArray_getitem_carry_safe. Qed.
Print Assumptions C13_RegularArray_getitem_carry_safe.

(* @awkward_RegularArray_rpad_and_clip_axis1 k_safe *)
Theorem C13_RegularArray_rpad_and_clip_axis1_safe :
  forall toindex target size n,
  0 <= target -> 0 <= size -> 0 <= n -> n * target <= zlen toindex ->
  RegularArray_rpad_and_clip_axis1 toindex target size n <> KOob.
Proof. exact RegularArray_rpad_and_clip_axis1_safe. Qed.
Print Assumptions C13_RegularArray_rpad_and_clip_axis1_safe.

(* @awkward_index_rpad_and_clip_axis0 k_safe *)
Theorem C13_index_rpad_and_clip_axis0_safe :
  forall toindex target n,
  0 <= n -> target <= zlen toindex -> index_rpad_and_clip_axis0 toindex target n <> KOob.
Proof. exact index_rpad_and_clip_axis0_safe. Qed.
Print Assumptions C13_index_rpad_and_clip_axis0_safe.

(* @awkward_index_rpad_and_clip_axis0 k_spec *)
Theorem C13_index_rpad_and_clip_axis0_spec :
  forall toindex target n,
  0 <= n -> 0 <= target -> zlen toindex = target ->
  index_rpad_and_clip_axis0 toindex target n
  = KOk (iota (Z.min target n) ++ repeat (-1) (Z.to_nat (target - Z.min target n))).
Proof. exact index_rpad_and_clip_axis0_spec. Qed.
Print Assumptions C13_index_rpad_and_clip_axis0_spec.

(* @awkward_index_rpad_and_clip_axis1 k_safe *)
Theorem C13_index_rpad_and_clip_axis1_safe :
  forall tostarts tostops target n,
  n <= zlen tostarts -> n <= zlen tostops -> index_rpad_and_clip_axis1 tostarts tostops target n <> KOob.
Proof. exact index_rpad_and_clip_axis1_safe. Qed.
Print Assumptions C13_index_rpad_and_clip_axis1_safe.

(* @awkward_ListArray_localindex k_safe *)
Theorem C13_ListArray_localindex_safe :
  forall toindex offsets n,
  n + 1 <= zlen offsets ->
  (forall i, 0 <= i < n -> 0 <= at_ offsets i /\ at_ offsets (i + 1) <= zlen toindex) ->
  ListArray_localindex toindex offsets n <> KOob.
Proof. exact ListArray_localindex_safe. Qed.
Print Assumptions C13_ListArray_localindex_safe.

(* @awkward_ListArray_getitem_carry k_safe *)
Theorem C13_ListArray_getitem_carry_safe :
  forall tC tostarts tostops starts stops carry lenstarts n,
  n <= zlen carry -> n <= zlen tostarts -> n <= zlen tostops ->
  lenstarts <= zlen starts -> lenstarts <= zlen stops ->
  (forall i, 0 <= i < n -> 0 <= at_ carry i) ->
  ListArray_getitem_carry tC tostarts tostops starts stops carry lenstarts n <> KOob.
Proof. exact ListArray_getitem_carry_safe. Qed.
Print Assumptions C13_ListArray_getitem_carry_safe.

(* @awkward_IndexedArray_numnull k_safe *)
Theorem C13_IndexedArray_numnull_safe :
  forall numnull index n,
  n <= zlen index -> 1 <= zlen numnull -> IndexedArray_numnull numnull index n <> KOob.
Proof. exact IndexedArray_numnull_safe. Qed.
Print Assumptions C13_IndexedArray_numnull_safe.

(* @awkward_IndexedArray_numnull k_spec *)
Theorem C13_IndexedArray_numnull_spec :
  forall numnull index,
  1 <= zlen numnull ->
  exists out, IndexedArray_numnull numnull index (zlen index) = KOk out /\ zlen out = zlen numnull /\
    at_ out 0 = zlen (filter (fun x => x <? 0) index) /\ forall q, 1 <= q -> at_ out q = at_ numnull q.
Proof. exact IndexedArray_numnull_spec. Qed.
Print Assumptions C13_IndexedArray_numnull_spec.

(* @awkward_ListArray_min_range k_safe *)
Theorem C13_ListArray_min_range_safe :
  forall tC tomin starts stops n,
  1 <= zlen starts -> 1 <= zlen stops -> n <= zlen starts -> n <= zlen stops -> 1 <= zlen tomin ->
  ListArray_min_range tC tomin starts stops n <> KOob.
Proof. exact ListArray_min_range_safe. Qed.
Print Assumptions C13_ListArray_min_range_safe.

(* @awkward_ListArray_rpad_and_clip_length_axis1 k_safe *)
Theorem C13_ListArray_rpad_and_clip_length_axis1_safe :
  forall tC tomin starts stops target n,
  n <= zlen starts -> n <= zlen stops -> 1 <= zlen tomin ->
  ListArray_rpad_and_clip_length_axis1 tC tomin starts stops target n <> KOob.
Proof. exact ListArray_rpad_and_clip_length_axis1_safe. Qed.
Print Assumptions C13_ListArray_rpad_and_clip_length_axis1_safe.

(* @awkward_sorting_ranges_length k_safe *)
Theorem C13_sorting_ranges_length_safe :
  forall tolength parents n,
  n <= zlen parents -> 1 <= zlen tolength -> sorting_ranges_length tolength parents n <> KOob.
Proof. exact sorting_ranges_length_safe. Qed.
Print Assumptions C13_sorting_ranges_length_safe.

(* @awkward_ListOffsetArray_reduce_local_nextparents_64 k_safe *)
Theorem C13_reduce_local_nextparents_safe :
  forall nextparents offsets n,
  1 <= zlen offsets -> n + 1 <= zlen offsets ->
  (forall i, 0 <= i < n -> at_ offsets 0 <= at_ offsets i /\ at_ offsets (i + 1) - at_ offsets 0 <= zlen nextparents) ->
  reduce_local_nextparents nextparents offsets n <> KOob.
Proof. exact reduce_local_nextparents_safe. Qed.
Print Assumptions C13_reduce_local_nextparents_safe.

(* @awkward_NumpyArray_copy k_safe *)
Theorem C13_NumpyArray_copy_safe :
  forall toptr fromptr n,
  n <= zlen fromptr -> n <= zlen toptr -> NumpyArray_copy toptr fromptr n <> KOob.
Proof. exact NumpyArray_copy_safe. Qed.
Print Assumptions C13_NumpyArray_copy_safe.

(* @awkward_NumpyArray_copy k_spec *)
Theorem C13_NumpyArray_copy_spec :
  forall toptr fromptr,
  zlen fromptr <= zlen toptr ->
  NumpyArray_copy toptr fromptr (zlen fromptr) = KOk (fromptr ++ skipn (length fromptr) toptr).
Proof. exact NumpyArray_copy_spec. Qed.
Print Assumptions C13_NumpyArray_copy_spec.

(* @awkward_ListArray_combinations_length k_spec *)
Theorem C13_ListArray_combinations_length_spec :
  forall totallen tooffsets n replacement starts stops,
  zlen stops = zlen starts -> 1 <= zlen totallen -> zlen starts + 1 <= zlen tooffsets ->
  exists tl to, ListArray_combinations_length TIdeal totallen tooffsets n replacement starts stops (zlen starts) = KOk (tl, to) /\
    at_ tl 0 = comb_sum n replacement starts stops (length starts) /\
    zlen to = zlen tooffsets /\
    forall q, 0 <= q -> at_ to q = if q <=? zlen starts then comb_sum n replacement starts stops (Z.to_nat q)
                                   else at_ tooffsets q.
Proof. exact ListArray_combinations_length_spec. Qed.
Print Assumptions C13_ListArray_combinations_length_spec.

(* @awkward_ByteMaskedArray_getitem_carry k_safe *)
Theorem C13_ByteMaskedArray_getitem_carry_safe :
  forall tomask frommask lenmask fromcarry lencarry,
  lencarry <= zlen fromcarry -> lencarry <= zlen tomask -> lenmask <= zlen frommask ->
  (forall i, 0 <= i < lencarry -> 0 <= at_ fromcarry i) ->
  ByteMaskedArray_getitem_carry tomask frommask lenmask fromcarry lencarry <> KOob.
Proof. exact ByteMaskedArray_getitem_carry_safe. Qed.
Print Assumptions C13_ByteMaskedArray_getitem_carry_safe.

(* @awkward_ByteMaskedArray_getitem_carry k_spec *)
Theorem C13_ByteMaskedArray_getitem_carry_spec :
  forall tomask frommask fromcarry,
  zlen fromcarry <= zlen tomask ->
  (forall i, 0 <= i < zlen fromcarry -> 0 <= at_ fromcarry i < zlen frommask) ->
  ByteMaskedArray_getitem_carry tomask frommask (zlen frommask) fromcarry (zlen fromcarry)
  = KOk (map (at_ frommask) fromcarry ++ skipn (length fromcarry) tomask).
Proof. exact ByteMaskedArray_getitem_carry_spec. Qed.
Print Assumptions C13_ByteMaskedArray_getitem_carry_spec.

(* @awkward_ByteMaskedArray_mask k_safe *)
Theorem C13_ByteMaskedArray_mask_safe :
  forall tomask frommask n vw,
  n <= zlen frommask -> n <= zlen tomask -> ByteMaskedArray_mask tomask frommask n vw <> KOob.
Proof. exact ByteMaskedArray_mask_safe. Qed.
Print Assumptions C13_ByteMaskedArray_mask_safe.

(* @awkward_ByteMaskedArray_mask k_spec *)
Theorem C13_ByteMaskedArray_mask_spec :
  forall tomask frommask vw,
  zlen frommask <= zlen tomask ->
  ByteMaskedArray_mask tomask frommask (zlen frommask) vw
  = KOk (map (fun m => b2z (negb (mvalid m vw))) frommask ++ skipn (length frommask) tomask).
Proof. exact ByteMaskedArray_mask_spec. Qed.
Print Assumptions C13_ByteMaskedArray_mask_spec.

(* @awkward_ByteMaskedArray_overlay_mask k_safe *)
Theorem C13_ByteMaskedArray_overlay_mask_safe :
  forall tomask theirmask mymask n vw,
  n <= zlen theirmask -> n <= zlen mymask -> n <= zlen tomask ->
  ByteMaskedArray_overlay_mask tomask theirmask mymask n vw <> KOob.
Proof. exact ByteMaskedArray_overlay_mask_safe. Qed.
Print Assumptions C13_ByteMaskedArray_overlay_mask_safe.

(* @awkward_ByteMaskedArray_overlay_mask k_spec *)
Theorem C13_ByteMaskedArray_overlay_mask_spec :
  forall tomask theirmask mymask vw,
  zlen theirmask = zlen mymask -> zlen theirmask <= zlen tomask ->
  ByteMaskedArray_overlay_mask tomask theirmask mymask (zlen theirmask) vw
  = KOk (map (fun p => b2z (negb (fst p =? 0) || negb (mvalid (snd p) vw))) (zip theirmask mymask)
         ++ skipn (length theirmask) tomask).
Proof. exact ByteMaskedArray_overlay_mask_spec. Qed.
Print Assumptions C13_ByteMaskedArray_overlay_mask_spec.

(* @awkward_Index_to_Index64 k_safe *)
Theorem C13_Index_to_Index64_safe :
  forall toptr fromptr n,
  n <= zlen fromptr -> n <= zlen toptr -> Index_to_Index64 toptr fromptr n <> KOob.
Proof. exact Index_to_Index64_safe. Qed.
Print Assumptions C13_Index_to_Index64_safe.

(* @awkward_Index_to_Index64 k_spec *)
Theorem C13_Index_to_Index64_spec :
  forall toptr fromptr,
  zlen fromptr <= zlen toptr ->
  Index_to_Index64 toptr fromptr (zlen fromptr) = KOk (fromptr ++ skipn (length fromptr) toptr).
Proof. exact Index_to_Index64_spec. Qed.
Print Assumptions C13_Index_to_Index64_spec.

(* @awkward_IndexedArray_fill_count k_safe *)
Theorem C13_IndexedArray_fill_count_safe :
  forall tTO toindex off n base,
  0 <= off -> off + n <= zlen toindex -> IndexedArray_fill_count tTO toindex off n base <> KOob.
Proof. exact IndexedArray_fill_count_safe. Qed.
Print Assumptions C13_IndexedArray_fill_count_safe.

(* @awkward_IndexedArray_fill_count k_spec *)
Theorem C13_IndexedArray_fill_count_spec :
  forall toindex off n base,
  0 <= off -> 0 <= n -> off + n <= zlen toindex ->
  IndexedArray_fill_count TIdeal toindex off n base
  = KOk (firstn (Z.to_nat off) toindex ++ map (fun i => i + base) (iota n) ++ skipn (Z.to_nat (off + n)) toindex).
Proof. exact IndexedArray_fill_count_spec. Qed.
Print Assumptions C13_IndexedArray_fill_count_spec.

(* @awkward_IndexedArray_fill_count k_width *)
Theorem C13_IndexedArray_fill_count_width :
  forall tTO toindex off n base,
  (forall i, 0 <= i < n -> fits tTO (i + base)) ->
  IndexedArray_fill_count tTO toindex off n base = IndexedArray_fill_count TIdeal toindex off n base.
Proof. exact IndexedArray_fill_count_width. Qed.
Print Assumptions C13_IndexedArray_fill_count_width.

(* @awkward_UnionArray_fillindex_count k_safe *)
Theorem C13_UnionArray_fillindex_count_safe :
  forall tTO toindex off n,
  0 <= off -> off + n <= zlen toindex -> UnionArray_fillindex_count tTO toindex off n <> KOob.
Proof. exact UnionArray_fillindex_count_safe. Qed.
Print Assumptions C13_UnionArray_fillindex_count_safe.

(* @awkward_UnionArray_fillindex_count k_spec *)
Theorem C13_UnionArray_fillindex_count_spec :
  forall toindex off n,
  0 <= off -> 0 <= n -> off + n <= zlen toindex ->
  UnionArray_fillindex_count TIdeal toindex off n
  = KOk (firstn (Z.to_nat off) toindex ++ iota n ++ skipn (Z.to_nat (off + n)) toindex).
Proof. exact UnionArray_fillindex_count_spec. Qed.
Print Assumptions C13_UnionArray_fillindex_count_spec.

(* @awkward_UnionArray_fillindex_count k_width *)
Theorem C13_UnionArray_fillindex_count_width :
  forall tTO toindex off n,
  (forall i, 0 <= i < n -> fits tTO i) ->
  UnionArray_fillindex_count tTO toindex off n = UnionArray_fillindex_count TIdeal toindex off n.
Proof. exact UnionArray_fillindex_count_width. Qed.
Print Assumptions C13_UnionArray_fillindex_count_width.

(* @awkward_UnionArray_filltags_const k_safe *)
Theorem C13_UnionArray_filltags_const_safe :
  forall tTO totags off n base,
  0 <= off -> off + n <= zlen totags -> UnionArray_filltags_const tTO totags off n base <> KOob.
Proof. exact UnionArray_filltags_const_safe. Qed.
Print Assumptions C13_UnionArray_filltags_const_safe.

(* @awkward_UnionArray_filltags_const k_spec *)
Theorem C13_UnionArray_filltags_const_spec :
  forall totags off n base,
  0 <= off -> 0 <= n -> off + n <= zlen totags ->
  UnionArray_filltags_const TIdeal totags off n base
  = KOk (firstn (Z.to_nat off) totags ++ map (fun _ => base) (iota n) ++ skipn (Z.to_nat (off + n)) totags).
Proof. exact UnionArray_filltags_const_spec. Qed.
Print Assumptions C13_UnionArray_filltags_const_spec.

(* @awkward_UnionArray_filltags_const k_width *)
Theorem C13_UnionArray_filltags_const_width :
  forall tTO totags off n base,
  fits tTO base ->
  UnionArray_filltags_const tTO totags off n base = UnionArray_filltags_const TIdeal totags off n base.
Proof. exact UnionArray_filltags_const_width. Qed.
Print Assumptions C13_UnionArray_filltags_const_width.

(* @awkward_IndexedArray_getitem_carry k_safe *)
Theorem C13_IndexedArray_getitem_carry_safe :
  forall tC toindex fromindex fromcarry lenindex lencarry,
  lencarry <= zlen fromcarry -> lencarry <= zlen toindex -> lenindex <= zlen fromindex ->
  (forall i, 0 <= i < lencarry -> 0 <= at_ fromcarry i) ->
  IndexedArray_getitem_carry tC toindex fromindex fromcarry lenindex lencarry <> KOob.
Proof. exact IndexedArray_getitem_carry_safe. Qed.
Print Assumptions C13_IndexedArray_getitem_carry_safe.

(* @awkward_IndexedArray_getitem_carry k_spec *)
Theorem C13_IndexedArray_getitem_carry_spec :
  forall toindex fromindex fromcarry,
  zlen fromcarry <= zlen toindex ->
  (forall i, 0 <= i < zlen fromcarry -> 0 <= at_ fromcarry i < zlen fromindex) ->
  IndexedArray_getitem_carry TIdeal toindex fromindex fromcarry (zlen fromindex) (zlen fromcarry)
  = KOk (map (at_ fromindex) fromcarry ++ skipn (length fromcarry) toindex).
Proof. exact IndexedArray_getitem_carry_spec. Qed.
Print Assumptions C13_IndexedArray_getitem_carry_spec.

(* @awkward_IndexedArray_getitem_carry k_width *)
Theorem C13_IndexedArray_getitem_carry_width :
  forall tC toindex fromindex fromcarry lenindex lencarry,
  (forall x, In x fromindex -> fits tC x) ->
  IndexedArray_getitem_carry tC toindex fromindex fromcarry lenindex lencarry
  = IndexedArray_getitem_carry TIdeal toindex fromindex fromcarry lenindex lencarry.
Proof. exact IndexedArray_getitem_carry_width. Qed.
Print Assumptions C13_IndexedArray_getitem_carry_width.

(* @awkward_IndexedArray_mask k_safe *)
Theorem C13_IndexedArray_mask_safe :
  forall tomask fromindex n,
  n <= zlen fromindex -> n <= zlen tomask -> IndexedArray_mask tomask fromindex n <> KOob.
Proof. exact IndexedArray_mask_safe. Qed.
Print Assumptions C13_IndexedArray_mask_safe.

(* @awkward_IndexedArray_mask k_spec *)
Theorem C13_IndexedArray_mask_spec :
  forall tomask fromindex,
  zlen fromindex <= zlen tomask ->
  IndexedArray_mask tomask fromindex (zlen fromindex)
  = KOk (map (fun x => b2z (x <? 0)) fromindex ++ skipn (length fromindex) tomask).
Proof. exact IndexedArray_mask_spec. Qed.
Print Assumptions C13_IndexedArray_mask_spec.

(* @awkward_IndexedArray_overlay_mask k_safe *)
Theorem C13_IndexedArray_overlay_mask_safe :
  forall tTO toindex mask fromindex n,
  n <= zlen mask -> n <= zlen fromindex -> n <= zlen toindex ->
  IndexedArray_overlay_mask tTO toindex mask fromindex n <> KOob.
Proof. exact IndexedArray_overlay_mask_safe. Qed.
Print Assumptions C13_IndexedArray_overlay_mask_safe.

(* @awkward_IndexedArray_overlay_mask k_spec *)
Theorem C13_IndexedArray_overlay_mask_spec :
  forall toindex mask fromindex,
  zlen mask = zlen fromindex -> zlen mask <= zlen toindex ->
  IndexedArray_overlay_mask TIdeal toindex mask fromindex (zlen mask)
  = KOk (map (fun p => if negb (fst p =? 0) then -1 else snd p) (zip mask fromindex) ++ skipn (length mask) toindex).
Proof. exact IndexedArray_overlay_mask_spec. Qed.
Print Assumptions C13_IndexedArray_overlay_mask_spec.

(* @awkward_IndexedArray_overlay_mask k_width *)
Theorem C13_IndexedArray_overlay_mask_width :
  forall tTO toindex mask fromindex n,
  fits tTO (-1) -> (forall x, In x fromindex -> fits tTO x) ->
  IndexedArray_overlay_mask tTO toindex mask fromindex n = IndexedArray_overlay_mask TIdeal toindex mask fromindex n.
Proof. exact IndexedArray_overlay_mask_width. Qed.
Print Assumptions C13_IndexedArray_overlay_mask_width.

(* @awkward_IndexedArray_simplify k_safe *)
Theorem C13_IndexedArray_simplify_safe :
  forall toindex outerindex outerlength innerindex innerlength,
  outerlength <= zlen outerindex -> outerlength <= zlen toindex -> innerlength <= zlen innerindex ->
  IndexedArray_simplify toindex outerindex outerlength innerindex innerlength <> KOob.
Proof. exact IndexedArray_simplify_safe. Qed.
Print Assumptions C13_IndexedArray_simplify_safe.

(* @awkward_IndexedArray_simplify k_spec *)
Theorem C13_IndexedArray_simplify_spec :
  forall toindex outerindex innerindex,
  zlen outerindex <= zlen toindex ->
  (forall i, 0 <= i < zlen outerindex -> at_ outerindex i < zlen innerindex) ->
  IndexedArray_simplify toindex outerindex (zlen outerindex) innerindex (zlen innerindex)
  = KOk (map (fun j => if j <? 0 then -1 else at_ innerindex j) outerindex ++ skipn (length outerindex) toindex).
Proof. exact IndexedArray_simplify_spec. Qed.
Print Assumptions C13_IndexedArray_simplify_spec.

(* @awkward_index_carry k_safe *)
Theorem C13_index_carry_safe :
  forall toindex fromindex carry lenfromindex n,
  n <= zlen carry -> n <= zlen toindex -> lenfromindex <= zlen fromindex ->
  index_carry toindex fromindex carry lenfromindex n <> KOob.
Proof. exact index_carry_safe. Qed.
Print Assumptions C13_index_carry_safe.

(* @awkward_index_carry k_spec *)
Theorem C13_index_carry_spec :
  forall toindex fromindex carry,
  zlen carry <= zlen toindex ->
  (forall i, 0 <= i < zlen carry -> 0 <= at_ carry i < zlen fromindex) ->
  index_carry toindex fromindex carry (zlen fromindex) (zlen carry)
  = KOk (map (at_ fromindex) carry ++ skipn (length carry) toindex).
Proof. exact index_carry_spec. Qed.
Print Assumptions C13_index_carry_spec.

(* @awkward_index_carry_nocheck k_safe *)
Theorem C13_index_carry_nocheck_safe :
  forall toindex fromindex carry n,
  n <= zlen carry -> n <= zlen toindex ->
  (forall i, 0 <= i < n -> 0 <= at_ carry i < zlen fromindex) ->
  index_carry_nocheck toindex fromindex carry n <> KOob.
Proof. exact index_carry_nocheck_safe. Qed.
Print Assumptions C13_index_carry_nocheck_safe.

(* @awkward_index_carry_nocheck k_spec *)
Theorem C13_index_carry_nocheck_spec :
  forall toindex fromindex carry,
  zlen carry <= zlen toindex ->
  (forall i, 0 <= i < zlen carry -> 0 <= at_ carry i < zlen fromindex) ->
  index_carry_nocheck toindex fromindex carry (zlen carry)
  = KOk (map (at_ fromindex) carry ++ skipn (length carry) toindex).
Proof. exact index_carry_nocheck_spec. Qed.
Print Assumptions C13_index_carry_nocheck_spec.

(* @awkward_one_mask k_safe *)
Theorem C13_const_mask_safe :
  forall v tomask n,
  n <= zlen tomask -> const_mask v tomask n <> KOob.
Proof. exact const_mask_safe. Qed.
Print Assumptions C13_const_mask_safe.

(* @awkward_one_mask k_spec *)
Theorem C13_const_mask_spec :
  forall v tomask n,
  0 <= n <= zlen tomask ->
  const_mask v tomask n = KOk (map (fun _ => v) (iota n) ++ skipn (Z.to_nat n) tomask).
Proof. exact const_mask_spec. Qed.
Print Assumptions C13_const_mask_spec.

(* @awkward_NumpyArray_contiguous_init k_safe *)
Theorem C13_NumpyArray_contiguous_init_safe :
  forall toptr skip stride,
  skip <= zlen toptr -> NumpyArray_contiguous_init toptr skip stride <> KOob.
Proof. exact NumpyArray_contiguous_init_safe. Qed.
Print Assumptions C13_NumpyArray_contiguous_init_safe.

(* @awkward_NumpyArray_contiguous_init k_spec *)
Theorem C13_NumpyArray_contiguous_init_spec :
  forall toptr skip stride,
  0 <= skip <= zlen toptr ->
  NumpyArray_contiguous_init toptr skip stride
  = KOk (map (fun i => i * stride) (iota skip) ++ skipn (Z.to_nat skip) toptr).
Proof. exact NumpyArray_contiguous_init_spec. Qed.
Print Assumptions C13_NumpyArray_contiguous_init_spec.

(* @awkward_NumpyArray_fill_frombool k_safe *)
Theorem C13_NumpyArray_fill_frombool_safe :
  forall tTO toptr off fromptr n,
  0 <= off -> n <= zlen fromptr -> off + n <= zlen toptr -> NumpyArray_fill_frombool tTO toptr off fromptr n <> KOob.
Proof. exact NumpyArray_fill_frombool_safe. Qed.
Print Assumptions C13_NumpyArray_fill_frombool_safe.

(* @awkward_NumpyArray_fill_frombool k_spec *)
Theorem C13_NumpyArray_fill_frombool_spec :
  forall toptr off fromptr,
  0 <= off -> off + zlen fromptr <= zlen toptr ->
  NumpyArray_fill_frombool TIdeal toptr off fromptr (zlen fromptr)
  = KOk (firstn (Z.to_nat off) toptr ++ map (fun x => b2z (negb (x =? 0))) fromptr
         ++ skipn (Z.to_nat (off + zlen fromptr)) toptr).
Proof. exact NumpyArray_fill_frombool_spec. Qed.
Print Assumptions C13_NumpyArray_fill_frombool_spec.

(* @awkward_NumpyArray_fill_frombool k_width *)
Theorem C13_NumpyArray_fill_frombool_width :
  forall tTO toptr off fromptr n,
  (forall b, tTO = TI b -> 1 < b) -> (forall b, tTO = TU b -> 0 < b) ->
  NumpyArray_fill_frombool tTO toptr off fromptr n = NumpyArray_fill_frombool TIdeal toptr off fromptr n.
Proof. exact NumpyArray_fill_frombool_width. Qed.
Print Assumptions C13_NumpyArray_fill_frombool_width.

(* @awkward_NumpyArray_fill_tobool k_safe *)
Theorem C13_NumpyArray_fill_tobool_safe :
  forall toptr off fromptr n,
  0 <= off -> n <= zlen fromptr -> off + n <= zlen toptr -> NumpyArray_fill_tobool toptr off fromptr n <> KOob.
Proof. exact NumpyArray_fill_tobool_safe. Qed.
Print Assumptions C13_NumpyArray_fill_tobool_safe.

(* @awkward_NumpyArray_fill_tobool k_spec *)
Theorem C13_NumpyArray_fill_tobool_spec :
  forall toptr off fromptr,
  0 <= off -> off + zlen fromptr <= zlen toptr ->
  NumpyArray_fill_tobool toptr off fromptr (zlen fromptr)
  = KOk (firstn (Z.to_nat off) toptr ++ map (fun x => b2z (negb (x =? 0))) fromptr
         ++ skipn (Z.to_nat (off + zlen fromptr)) toptr).
Proof. exact NumpyArray_fill_tobool_spec. Qed.
Print Assumptions C13_NumpyArray_fill_tobool_spec.

(* @awkward_NumpyArray_getitem_next_at k_safe *)
Theorem C13_NumpyArray_getitem_next_at_safe :
  forall nextcarryptr carryptr lencarry skip at0,
  lencarry <= zlen carryptr -> lencarry <= zlen nextcarryptr ->
  NumpyArray_getitem_next_at nextcarryptr carryptr lencarry skip at0 <> KOob.
Proof. exact NumpyArray_getitem_next_at_safe. Qed.
Print Assumptions C13_NumpyArray_getitem_next_at_safe.

(* @awkward_NumpyArray_getitem_next_at k_spec *)
Theorem C13_NumpyArray_getitem_next_at_spec :
  forall nextcarryptr carryptr skip at0,
  zlen carryptr <= zlen nextcarryptr ->
  NumpyArray_getitem_next_at nextcarryptr carryptr (zlen carryptr) skip at0
  = KOk (map (fun c => skip * c + at0) carryptr ++ skipn (length carryptr) nextcarryptr).
Proof. exact NumpyArray_getitem_next_at_spec. Qed.
Print Assumptions C13_NumpyArray_getitem_next_at_spec.

(* @awkward_NumpyArray_getitem_next_array_advanced k_safe *)
Theorem C13_NumpyArray_getitem_next_array_advanced_safe :
  forall nextcarryptr carryptr advancedptr flatheadptr lencarry skip,
  lencarry <= zlen carryptr -> lencarry <= zlen advancedptr -> lencarry <= zlen nextcarryptr ->
  (forall i, 0 <= i < lencarry -> 0 <= at_ advancedptr i < zlen flatheadptr) ->
  NumpyArray_getitem_next_array_advanced nextcarryptr carryptr advancedptr flatheadptr lencarry skip <> KOob.
Proof. exact NumpyArray_getitem_next_array_advanced_safe. Qed.
Print Assumptions C13_NumpyArray_getitem_next_array_advanced_safe.

(* @awkward_NumpyArray_getitem_next_array_advanced k_spec *)
Theorem C13_NumpyArray_getitem_next_array_advanced_spec :
  forall nextcarryptr carryptr advancedptr flatheadptr skip,
  zlen carryptr = zlen advancedptr -> zlen carryptr <= zlen nextcarryptr ->
  (forall i, 0 <= i < zlen carryptr -> 0 <= at_ advancedptr i < zlen flatheadptr) ->
  NumpyArray_getitem_next_array_advanced nextcarryptr carryptr advancedptr flatheadptr (zlen carryptr) skip
  = KOk (map (fun p => skip * fst p + at_ flatheadptr (snd p)) (zip carryptr advancedptr)
         ++ skipn (length carryptr) nextcarryptr).
Proof. exact NumpyArray_getitem_next_array_advanced_spec. Qed.
Print Assumptions C13_NumpyArray_getitem_next_array_advanced_spec.

(* @awkward_Identities32_to_Identities64 k_safe *)
Theorem C13_Identities32_to_Identities64_safe :
  forall toptr fromptr length width,
  length * width <= zlen fromptr -> length * width <= zlen toptr ->
  Identities32_to_Identities64 toptr fromptr length width <> KOob.
Proof. exact Identities32_to_Identities64_safe. Qed.
Print Assumptions C13_Identities32_to_Identities64_safe.

(* @awkward_Identities32_to_Identities64 k_spec *)
Theorem C13_Identities32_to_Identities64_spec :
  forall toptr fromptr length width,
  length * width = zlen fromptr -> zlen fromptr <= zlen toptr ->
  Identities32_to_Identities64 toptr fromptr length width = KOk (fromptr ++ skipn (List.length fromptr) toptr).
Proof. exact Identities32_to_Identities64_spec. Qed.
Print Assumptions C13_Identities32_to_Identities64_spec.

(* @awkward_IndexedArray_reduce_next_fix_offsets_64 k_safe *)
Theorem C13_IndexedArray_reduce_next_fix_offsets_safe :
  forall outoffsets starts startslength outindexlength,
  0 <= startslength <= zlen starts -> startslength < zlen outoffsets ->
  IndexedArray_reduce_next_fix_offsets outoffsets starts startslength outindexlength <> KOob.
Proof. exact IndexedArray_reduce_next_fix_offsets_safe. Qed.
Print Assumptions C13_IndexedArray_reduce_next_fix_offsets_safe.

(* @awkward_IndexedArray_reduce_next_fix_offsets_64 k_spec *)
Theorem C13_IndexedArray_reduce_next_fix_offsets_spec :
  forall outoffsets starts outindexlength,
  zlen outoffsets = zlen starts + 1 ->
  IndexedArray_reduce_next_fix_offsets outoffsets starts (zlen starts) outindexlength
  = KOk (starts ++ [outindexlength]).
Proof. exact IndexedArray_reduce_next_fix_offsets_spec. Qed.
Print Assumptions C13_IndexedArray_reduce_next_fix_offsets_spec.

(* @awkward_ListOffsetArray_reduce_global_startstop_64 k_safe *)
Theorem C13_ListOffsetArray_reduce_global_startstop_safe :
  forall globalstart globalstop offsets length,
  0 <= length < zlen offsets -> 0 < zlen globalstart -> 0 < zlen globalstop ->
  ListOffsetArray_reduce_global_startstop globalstart globalstop offsets length <> KOob.
Proof. exact ListOffsetArray_reduce_global_startstop_safe. Qed.
Print Assumptions C13_ListOffsetArray_reduce_global_startstop_safe.

(* @awkward_ListOffsetArray_reduce_global_startstop_64 k_spec *)
Theorem C13_ListOffsetArray_reduce_global_startstop_spec :
  forall a b offsets,
  0 < zlen offsets ->
  ListOffsetArray_reduce_global_startstop [a] [b] offsets (zlen offsets - 1)
  = KOk ([hd 0 offsets], [last offsets 0]).
Proof. exact ListOffsetArray_reduce_global_startstop_spec. Qed.
Print Assumptions C13_ListOffsetArray_reduce_global_startstop_spec.

(* @awkward_reduce_prod_int64_bool_64 k_safe *)
Theorem C13_reduce_prod_int_bool_safe :
  forall tO toptr fromptr parents n ol,
  red_pre toptr fromptr parents n ol -> reduce_prod_int_bool tO toptr fromptr parents n ol <> KOob.
Proof. exact reduce_prod_int_bool_safe. Qed.
Print Assumptions C13_reduce_prod_int_bool_safe.

(* @awkward_reduce_prod_int64_bool_64 k_spec *)
Theorem C13_reduce_prod_int_bool_spec :
  forall tO toptr fromptr parents n ol,
  red_pre toptr fromptr parents n ol ->
  exists out, reduce_prod_int_bool tO toptr fromptr parents n ol = KOk out /\ zlen out = zlen toptr /\
    forall q, 0 <= q -> at_ out q = if q <? ol
      then red_upto tO 1 (fun _ cur x => cur * b2z (negb (x =? 0))) parents fromptr (Z.to_nat n) q
      else at_ toptr q.
Proof. exact reduce_prod_int_bool_spec. Qed.
Print Assumptions C13_reduce_prod_int_bool_spec.

(* @awkward_combinations k_safe *)
Theorem C13_combinations_safe :
  forall toindex n replacement singlelen,
  combinations toindex n replacement singlelen <> XOob.
Proof. exact combinations_safe. Qed.
Print Assumptions C13_combinations_safe.

(* @awkward_combinations k_spec *)
Theorem C13_combinations_spec :
  forall toindex n replacement singlelen,
  combinations toindex n replacement singlelen = XErr MFixmeCombinations.
Proof. exact combinations_spec. Qed.
Print Assumptions C13_combinations_spec.

(* @awkward_ByteMaskedArray_numnull k_safe *)
Theorem C13_ByteMaskedArray_numnull_safe :
  forall numnull mask n vw,
  n <= zlen mask -> 1 <= zlen numnull -> ByteMaskedArray_numnull numnull mask n vw <> KOob.
Proof. exact ByteMaskedArray_numnull_safe. Qed.
Print Assumptions C13_ByteMaskedArray_numnull_safe.

(* @awkward_ByteMaskedArray_numnull k_spec *)
Theorem C13_ByteMaskedArray_numnull_spec :
  forall numnull mask vw,
  1 <= zlen numnull ->
  exists out, ByteMaskedArray_numnull numnull mask (zlen mask) vw = KOk out /\ zlen out = zlen numnull /\
    at_ out 0 = zlen (filter (fun m => negb (mvalid m vw)) mask) /\ forall q, 1 <= q -> at_ out q = at_ numnull q.
Proof. exact ByteMaskedArray_numnull_spec. Qed.
Print Assumptions C13_ByteMaskedArray_numnull_spec.

(* @awkward_NumpyArray_contiguous_next k_safe *)
Theorem C13_NumpyArray_contiguous_next_safe :
  forall topos frompos length skip stride,
  0 <= skip -> 0 <= length -> length <= zlen frompos -> length * skip <= zlen topos ->
  NumpyArray_contiguous_next topos frompos length skip stride <> KOob.
Proof. exact NumpyArray_contiguous_next_safe. Qed.
Print Assumptions C13_NumpyArray_contiguous_next_safe.

(* @awkward_NumpyArray_getitem_next_range k_safe *)
Theorem C13_NumpyArray_getitem_next_range_safe :
  forall nextcarryptr carryptr lencarry lenhead skip start step,
  0 <= lenhead -> 0 <= lencarry -> lencarry <= zlen carryptr -> lencarry * lenhead <= zlen nextcarryptr ->
  NumpyArray_getitem_next_range nextcarryptr carryptr lencarry lenhead skip start step <> KOob.
Proof. exact NumpyArray_getitem_next_range_safe. Qed.
Print Assumptions C13_NumpyArray_getitem_next_range_safe.

(* @awkward_missing_repeat k_safe *)
Theorem C13_missing_repeat_safe :
  forall outindex index indexlength repetitions regularsize,
  0 <= indexlength -> 0 <= repetitions -> indexlength <= zlen index -> repetitions * indexlength <= zlen outindex ->
  missing_repeat outindex index indexlength repetitions regularsize <> KOob.
Proof. exact missing_repeat_safe. Qed.
Print Assumptions C13_missing_repeat_safe.

(* @awkward_IndexedArray_index_of_nulls k_safe *)
Theorem C13_IndexedArray_index_of_nulls_safe :
  forall toindex fromindex n parents starts,
  n <= zlen fromindex -> n <= zlen parents -> n <= zlen toindex ->
  (forall i, 0 <= i < n -> at_ fromindex i < 0 -> 0 <= at_ parents i < zlen starts) ->
  IndexedArray_index_of_nulls toindex fromindex n parents starts <> KOob.
Proof. exact IndexedArray_index_of_nulls_safe. Qed.
Print Assumptions C13_IndexedArray_index_of_nulls_safe.

(* @awkward_IndexedArray_index_of_nulls k_spec *)
Theorem C13_IndexedArray_index_of_nulls_spec :
  forall toindex fromindex parents starts,
  let sel := fun i => if at_ fromindex i <? 0 then Some (i - at_ starts (at_ parents i)) else None in
  zlen fromindex <= zlen parents ->
  (forall i, 0 <= i < zlen fromindex -> at_ fromindex i < 0 -> 0 <= at_ parents i < zlen starts) ->
  zlen (pushed sel (zlen fromindex)) <= zlen toindex ->
  IndexedArray_index_of_nulls toindex fromindex (zlen fromindex) parents starts
  = KOk (pushed sel (zlen fromindex) ++ skipn (length (pushed sel (zlen fromindex))) toindex).
Proof. exact IndexedArray_index_of_nulls_spec. Qed.
Print Assumptions C13_IndexedArray_index_of_nulls_spec.

(* @awkward_ByteMaskedArray_reduce_next_64 k_safe *)
Theorem C13_ByteMaskedArray_reduce_next_safe :
  forall nextcarry nextparents outindex mask parents n vw,
  n <= zlen mask -> n <= zlen parents -> n <= zlen nextcarry -> n <= zlen nextparents -> n <= zlen outindex ->
  ByteMaskedArray_reduce_next nextcarry nextparents outindex mask parents n vw <> KOob.
Proof. exact ByteMaskedArray_reduce_next_safe. Qed.
Print Assumptions C13_ByteMaskedArray_reduce_next_safe.

(* @awkward_IndexedArray_reduce_next_64 k_safe *)
Theorem C13_IndexedArray_reduce_next_safe :
  forall nextcarry nextparents outindex index parents n,
  n <= zlen index -> n <= zlen parents -> n <= zlen nextcarry -> n <= zlen nextparents -> n <= zlen outindex ->
  IndexedArray_reduce_next nextcarry nextparents outindex index parents n <> KOob.
Proof. exact IndexedArray_reduce_next_safe. Qed.
Print Assumptions C13_IndexedArray_reduce_next_safe.

(* @awkward_ByteMaskedArray_reduce_next_nonlocal_nextshifts_64 k_safe *)
Theorem C13_ByteMaskedArray_reduce_next_nonlocal_nextshifts_safe :
  forall nextshifts mask n vw,
  n <= zlen mask -> n <= zlen nextshifts ->
  ByteMaskedArray_reduce_next_nonlocal_nextshifts nextshifts mask n vw <> KOob.
Proof. exact ByteMaskedArray_reduce_next_nonlocal_nextshifts_safe. Qed.
Print Assumptions C13_ByteMaskedArray_reduce_next_nonlocal_nextshifts_safe.

(* @awkward_ByteMaskedArray_reduce_next_nonlocal_nextshifts_fromshifts_64 k_safe *)
Theorem C13_ByteMaskedArray_reduce_next_nonlocal_nextshifts_fromshifts_safe :
  forall nextshifts mask n vw shifts,
  n <= zlen mask -> n <= zlen nextshifts -> n <= zlen shifts ->
  ByteMaskedArray_reduce_next_nonlocal_nextshifts_fromshifts nextshifts mask n vw shifts <> KOob.
Proof. exact ByteMaskedArray_reduce_next_nonlocal_nextshifts_fromshifts_safe. Qed.
Print Assumptions C13_ByteMaskedArray_reduce_next_nonlocal_nextshifts_fromshifts_safe.

(* @awkward_IndexedArray_reduce_next_nonlocal_nextshifts_64 k_safe *)
Theorem C13_IndexedArray_reduce_next_nonlocal_nextshifts_safe :
  forall nextshifts index n,
  n <= zlen index -> n <= zlen nextshifts ->
  IndexedArray_reduce_next_nonlocal_nextshifts nextshifts index n <> KOob.
Proof. exact IndexedArray_reduce_next_nonlocal_nextshifts_safe. Qed.
Print Assumptions C13_IndexedArray_reduce_next_nonlocal_nextshifts_safe.

(* @awkward_IndexedArray_reduce_next_nonlocal_nextshifts_fromshifts_64 k_safe *)
Theorem C13_IndexedArray_reduce_next_nonlocal_nextshifts_fromshifts_safe :
  forall nextshifts index n shifts,
  n <= zlen index -> n <= zlen nextshifts -> n <= zlen shifts ->
  IndexedArray_reduce_next_nonlocal_nextshifts_fromshifts nextshifts index n shifts <> KOob.
Proof. exact IndexedArray_reduce_next_nonlocal_nextshifts_fromshifts_safe. Qed.
Print Assumptions C13_IndexedArray_reduce_next_nonlocal_nextshifts_fromshifts_safe.

(* @awkward_carry_SliceMissing64_outindex k_safe *)
Theorem C13_carry_SliceMissing64_outindex_safe :
  forall toindex fromindex n,
  n <= zlen fromindex -> n <= zlen toindex -> carry_SliceMissing64_outindex toindex fromindex n <> KOob.
Proof. exact carry_SliceMissing64_outindex_safe. Qed.
Print Assumptions C13_carry_SliceMissing64_outindex_safe.

(* @awkward_IndexedOptionArray_rpad_and_clip_mask_axis1 k_safe *)
Theorem C13_IndexedOptionArray_rpad_and_clip_mask_axis1_safe :
  forall toindex frommask n,
  n <= zlen frommask -> n <= zlen toindex -> IndexedOptionArray_rpad_and_clip_mask_axis1 toindex frommask n <> KOob.
Proof. exact IndexedOptionArray_rpad_and_clip_mask_axis1_safe. Qed.
Print Assumptions C13_IndexedOptionArray_rpad_and_clip_mask_axis1_safe.

(* @awkward_slicemissing_check_same k_safe *)
Theorem C13_slicemissing_check_same_safe :
  forall same bytemask missingindex n,
  n <= zlen bytemask -> n <= zlen missingindex -> 1 <= zlen same ->
  slicemissing_check_same same bytemask missingindex n <> KOob.
Proof. exact slicemissing_check_same_safe. Qed.
Print Assumptions C13_slicemissing_check_same_safe.

(* @awkward_Index_iscontiguous k_safe *)
Theorem C13_Index_iscontiguous_safe :
  forall tT result fromindex n,
  n <= zlen fromindex -> 1 <= zlen result -> Index_iscontiguous tT result fromindex n <> KOob.
Proof. exact Index_iscontiguous_safe. Qed.
Print Assumptions C13_Index_iscontiguous_safe.

(* @awkward_Index_nones_as_index k_safe *)
Theorem C13_Index_nones_as_index_safe :
  forall toindex n,
  n <= zlen toindex -> Index_nones_as_index toindex n <> KOob.
Proof. exact Index_nones_as_index_safe. Qed.
Print Assumptions C13_Index_nones_as_index_safe.

(* @awkward_UnionArray_simplify_one k_safe *)
Theorem C13_UnionArray_simplify_one_safe :
  forall tTT totags toindex fromtags fromindex towhich fromwhich n base,
  n <= zlen fromtags -> n <= zlen fromindex -> n <= zlen totags -> n <= zlen toindex ->
  UnionArray_simplify_one tTT totags toindex fromtags fromindex towhich fromwhich n base <> KOob.
Proof. exact UnionArray_simplify_one_safe. Qed.
Print Assumptions C13_UnionArray_simplify_one_safe.

(* @awkward_UnionArray_simplify k_safe *)
Theorem C13_UnionArray_simplify_safe :
  forall tTT totags toindex outertags outerindex innertags innerindex tw iw ow n base,
  n <= zlen outertags -> n <= zlen outerindex -> n <= zlen totags -> n <= zlen toindex ->
  (forall i, 0 <= i < n -> at_ outertags i = ow ->
     0 <= at_ outerindex i < zlen innertags /\ at_ outerindex i < zlen innerindex) ->
  UnionArray_simplify tTT totags toindex outertags outerindex innertags innerindex tw iw ow n base <> KOob.
Proof. exact UnionArray_simplify_safe. Qed.
Print Assumptions C13_UnionArray_simplify_safe.

(* @awkward_ListArray_getitem_jagged_carrylen k_safe *)
Theorem C13_ListArray_getitem_jagged_carrylen_safe :
  forall carrylen slicestarts slicestops n,
  n <= zlen slicestarts -> n <= zlen slicestops -> 1 <= zlen carrylen ->
  ListArray_getitem_jagged_carrylen carrylen slicestarts slicestops n <> KOob.
Proof. exact ListArray_getitem_jagged_carrylen_safe. Qed.
Print Assumptions C13_ListArray_getitem_jagged_carrylen_safe.

(* @awkward_NumpyArray_reduce_mask_ByteMaskedArray_64 k_safe *)
Theorem C13_NumpyArray_reduce_mask_ByteMaskedArray_safe :
  forall toptr parents lenparents outlength,
  0 <= outlength <= zlen toptr -> lenparents <= zlen parents ->
  (forall i, 0 <= i < lenparents -> 0 <= at_ parents i < zlen toptr) ->
  NumpyArray_reduce_mask_ByteMaskedArray toptr parents lenparents outlength <> KOob.
Proof. exact NumpyArray_reduce_mask_ByteMaskedArray_safe. Qed.
Print Assumptions C13_NumpyArray_reduce_mask_ByteMaskedArray_safe.

(* @awkward_MaskedArray_getitem_next_jagged_project k_safe *)
Theorem C13_MaskedArray_getitem_next_jagged_project_safe :
  forall index starts_in stops_in starts_out stops_out n,
  n <= zlen index -> n <= zlen starts_in -> n <= zlen stops_in -> n <= zlen starts_out -> n <= zlen stops_out ->
  MaskedArray_getitem_next_jagged_project index starts_in stops_in starts_out stops_out n <> KOob.
Proof. exact MaskedArray_getitem_next_jagged_project_safe. Qed.
Print Assumptions C13_MaskedArray_getitem_next_jagged_project_safe.

(* @awkward_Content_getitem_next_missing_jagged_getmaskstartstop k_safe *)
Theorem C13_Content_getitem_next_missing_jagged_getmaskstartstop_safe :
  forall index_in offsets_in mask_out starts_out stops_out n,
  n <= zlen index_in -> n < zlen offsets_in -> n <= zlen mask_out -> n <= zlen starts_out -> n <= zlen stops_out ->
  Content_getitem_next_missing_jagged_getmaskstartstop index_in offsets_in mask_out starts_out stops_out n <> KOob.
Proof. exact Content_getitem_next_missing_jagged_getmaskstartstop_safe. Qed.
Print Assumptions C13_Content_getitem_next_missing_jagged_getmaskstartstop_safe.

(* @awkward_ListOffsetArray_toRegularArray k_safe *)
Theorem C13_ListOffsetArray_toRegularArray_safe :
  forall size fromoffsets offsetslength,
  offsetslength <= zlen fromoffsets -> 1 <= zlen size ->
  ListOffsetArray_toRegularArray size fromoffsets offsetslength <> XOob.
Proof. exact ListOffsetArray_toRegularArray_safe. Qed.
Print Assumptions C13_ListOffsetArray_toRegularArray_safe.

(* @awkward_ListOffsetArray_toRegularArray k_spec *)
Theorem C13_ListOffsetArray_toRegularArray_spec :
  forall x fromoffsets c,
  2 <= zlen fromoffsets -> 0 <= c ->
  (forall i, 0 <= i < zlen fromoffsets - 1 -> at_ fromoffsets (i + 1) - at_ fromoffsets i = c) ->
  ListOffsetArray_toRegularArray [x] fromoffsets (zlen fromoffsets) = XOk [c].
Proof. exact ListOffsetArray_toRegularArray_spec. Qed.
Print Assumptions C13_ListOffsetArray_toRegularArray_spec.

(* @awkward_NumpyArray_getitem_next_array k_safe *)
Theorem C13_NumpyArray_getitem_next_array_safe :
  forall nextcarryptr nextadvancedptr carryptr flatheadptr lencarry lenflathead skip,
  0 <= lencarry <= zlen carryptr -> 0 <= lenflathead <= zlen flatheadptr ->
  lencarry * lenflathead <= zlen nextcarryptr -> lencarry * lenflathead <= zlen nextadvancedptr ->
  NumpyArray_getitem_next_array nextcarryptr nextadvancedptr carryptr flatheadptr lencarry lenflathead skip <> KOob.
Proof. exact NumpyArray_getitem_next_array_safe. Qed.
Print Assumptions C13_NumpyArray_getitem_next_array_safe.

(* @awkward_NumpyArray_getitem_next_range_advanced k_safe *)
Theorem C13_NumpyArray_getitem_next_range_advanced_safe :
  forall nextcarryptr nextadvancedptr carryptr advancedptr lencarry lenhead skip start step,
  0 <= lencarry <= zlen carryptr -> lencarry <= zlen advancedptr -> 0 <= lenhead ->
  lencarry * lenhead <= zlen nextcarryptr -> lencarry * lenhead <= zlen nextadvancedptr ->
  NumpyArray_getitem_next_range_advanced nextcarryptr nextadvancedptr carryptr advancedptr lencarry lenhead skip start step
  <> KOob.
Proof. exact NumpyArray_getitem_next_range_advanced_safe. Qed.
Print Assumptions C13_NumpyArray_getitem_next_range_advanced_safe.

(* @awkward_RegularArray_getitem_jagged_expand k_safe *)
Theorem C13_RegularArray_getitem_jagged_expand_safe :
  forall multistarts multistops singleoffsets regularsize regularlength,
  0 <= regularsize < zlen singleoffsets -> 0 <= regularlength ->
  regularlength * regularsize <= zlen multistarts -> regularlength * regularsize <= zlen multistops ->
  RegularArray_getitem_jagged_expand multistarts multistops singleoffsets regularsize regularlength <> KOob.
Proof. exact RegularArray_getitem_jagged_expand_safe. Qed.
Print Assumptions C13_RegularArray_getitem_jagged_expand_safe.

(* @awkward_UnionArray_regular_index_getsize k_safe *)
Theorem C13_UnionArray_regular_index_getsize_safe :
  forall size fromtags n,
  n <= zlen fromtags -> 1 <= zlen size -> UnionArray_regular_index_getsize size fromtags n <> KOob.
Proof. exact UnionArray_regular_index_getsize_safe. Qed.
Print Assumptions C13_UnionArray_regular_index_getsize_safe.

(* @awkward_UnionArray_regular_index k_safe *)
Theorem C13_UnionArray_regular_index_safe :
  forall tI toindex current size fromtags n,
  0 <= size <= zlen current -> n <= zlen fromtags -> n <= zlen toindex ->
  (forall i, 0 <= i < n -> 0 <= at_ fromtags i < zlen current) ->
  UnionArray_regular_index tI toindex current size fromtags n <> KOob.
Proof. exact UnionArray_regular_index_safe. Qed.
Print Assumptions C13_UnionArray_regular_index_safe.

(* @awkward_UnionArray_project k_safe *)
Theorem C13_UnionArray_project_safe :
  forall lenout tocarry fromtags fromindex n which,
  n <= zlen fromtags -> n <= zlen fromindex -> n <= zlen tocarry -> 1 <= zlen lenout ->
  UnionArray_project lenout tocarry fromtags fromindex n which <> KOob.
Proof. exact UnionArray_project_safe. Qed.
Print Assumptions C13_UnionArray_project_safe.

(* @awkward_NumpyArray_reduce_adjust_starts_64 k_safe *)
Theorem C13_NumpyArray_reduce_adjust_starts_safe :
  forall toptr outlength parents starts,
  outlength <= zlen toptr ->
  (forall k, 0 <= k < outlength -> 0 <= at_ toptr k ->
     at_ toptr k < zlen parents /\ 0 <= at_ parents (at_ toptr k) < zlen starts) ->
  NumpyArray_reduce_adjust_starts toptr outlength parents starts <> KOob.
Proof. exact NumpyArray_reduce_adjust_starts_safe. Qed.
Print Assumptions C13_NumpyArray_reduce_adjust_starts_safe.

(* @awkward_NumpyArray_reduce_adjust_starts_shifts_64 k_safe *)
Theorem C13_NumpyArray_reduce_adjust_starts_shifts_safe :
  forall toptr outlength parents starts shifts,
  outlength <= zlen toptr ->
  (forall k, 0 <= k < outlength -> 0 <= at_ toptr k ->
     at_ toptr k < zlen parents /\ 0 <= at_ parents (at_ toptr k) < zlen starts /\ at_ toptr k < zlen shifts) ->
  NumpyArray_reduce_adjust_starts_shifts toptr outlength parents starts shifts <> KOob.
Proof. exact NumpyArray_reduce_adjust_starts_shifts_safe. Qed.
Print Assumptions C13_NumpyArray_reduce_adjust_starts_shifts_safe.

(* @awkward_Identities_extend k_safe *)
Theorem C13_Identities_extend_safe :
  forall tID toptr fromptr fromlength tolength,
  fromlength <= zlen fromptr -> fromlength <= zlen toptr -> tolength <= zlen toptr ->
  Identities_extend tID toptr fromptr fromlength tolength <> KOob.
Proof. exact Identities_extend_safe. Qed.
Print Assumptions C13_Identities_extend_safe.

(* @awkward_Identities_getitem_carry k_safe *)
Theorem C13_Identities_getitem_carry_safe :
  forall newidentitiesptr identitiesptr carryptr lencarry width length,
  0 <= width -> 0 <= lencarry <= zlen carryptr -> lencarry * width <= zlen newidentitiesptr ->
  length * width <= zlen identitiesptr ->
  (forall i, 0 <= i < lencarry -> 0 <= at_ carryptr i) ->
  Identities_getitem_carry newidentitiesptr identitiesptr carryptr lencarry width length <> KOob.
Proof. exact Identities_getitem_carry_safe. Qed.
Print Assumptions C13_Identities_getitem_carry_safe.

(* @awkward_sort k_spec *)
Theorem C13_sort_isort_perm_spec :
  forall (A : Type) (lt : A -> A -> bool) (l : list A), Permutation (isort lt l) l.
Proof. exact sort_isort_perm_spec. Qed.
Print Assumptions C13_sort_isort_perm_spec.

(* @awkward_sort k_spec *)
Theorem C13_sort_isort_sorted_spec :
  forall (A : Type) (lt : A -> A -> bool) (l : list A),
  (forall a b, lt a b = true -> lt b a = false) ->
  Sorted (fun a b => lt b a = false) (isort lt l).
Proof. exact sort_isort_sorted_spec. Qed.
Print Assumptions C13_sort_isort_sorted_spec.

(* @awkward_argsort k_spec *)
Theorem C13_sort_isort_stable_spec :
  forall (A : Type) (lt : A -> A -> bool) (p : A -> bool) (l : list A),
  (forall a b, p a = true -> p b = true -> lt a b = false) ->
  filter p (isort lt l) = filter p l.
Proof. exact sort_isort_stable_spec. Qed.
Print Assumptions C13_sort_isort_stable_spec.

(* @awkward_sort k_spec *)
Theorem C13_sort_spec :
  forall toptr fromptr asc stable,
  zlen fromptr <= zlen toptr ->
  sort toptr fromptr (zlen fromptr) [0; zlen fromptr] 2 (zlen fromptr) asc stable
  = KOk (isort (sort_lt asc) fromptr ++ skipn (length fromptr) toptr).
Proof. exact sort_spec. Qed.
Print Assumptions C13_sort_spec.

(* @awkward_sort k_safe *)
Theorem C13_sort_safe :
  forall toptr fromptr asc stable,
  zlen fromptr <= zlen toptr ->
  sort toptr fromptr (zlen fromptr) [0; zlen fromptr] 2 (zlen fromptr) asc stable <> KOob.
Proof. exact sort_safe. Qed.
Print Assumptions C13_sort_safe.

(* @awkward_argsort k_spec *)
Theorem C13_argsort_spec :
  forall toptr fromptr asc stable,
  zlen fromptr <= zlen toptr ->
  argsort toptr fromptr (zlen fromptr) [0; zlen fromptr] 2 asc stable
  = KOk (stable_argsort (sort_lt asc) fromptr ++ skipn (length fromptr) toptr).
Proof. exact argsort_spec. Qed.
Print Assumptions C13_argsort_spec.

(* @awkward_argsort k_safe *)
Theorem C13_argsort_safe :
  forall toptr fromptr asc stable,
  zlen fromptr <= zlen toptr ->
  argsort toptr fromptr (zlen fromptr) [0; zlen fromptr] 2 asc stable <> KOob.
Proof. exact argsort_safe. Qed.
Print Assumptions C13_argsort_safe.

(* @awkward_ListOffsetArray_local_preparenext_64 k_spec *)
Theorem C13_ListOffsetArray_local_preparenext_spec :
  forall tocarry fromindex,
  zlen fromindex <= zlen tocarry ->
  ListOffsetArray_local_preparenext tocarry fromindex (zlen fromindex)
  = KOk (stable_argsort Z.ltb fromindex ++ skipn (length fromindex) tocarry).
Proof. exact ListOffsetArray_local_preparenext_spec. Qed.
Print Assumptions C13_ListOffsetArray_local_preparenext_spec.

(* @awkward_ListOffsetArray_local_preparenext_64 k_safe *)
Theorem C13_ListOffsetArray_local_preparenext_safe :
  forall tocarry fromindex,
  zlen fromindex <= zlen tocarry ->
  ListOffsetArray_local_preparenext tocarry fromindex (zlen fromindex) <> KOob.
Proof. exact ListOffsetArray_local_preparenext_safe. Qed.
Print Assumptions C13_ListOffsetArray_local_preparenext_safe.

(* @awkward_ListArray_getitem_jagged_descend k_safe *)
Theorem C13_ListArray_getitem_jagged_descend_safe :
  forall tC tooffsets slicestarts slicestops n fromstarts fromstops,
  0 <= n -> n <= zlen slicestarts -> n <= zlen slicestops -> n <= zlen fromstarts -> n <= zlen fromstops ->
  n < zlen tooffsets ->
  ListArray_getitem_jagged_descend tC tooffsets slicestarts slicestops n fromstarts fromstops <> XOob.
Proof. exact ListArray_getitem_jagged_descend_safe. Qed.
Print Assumptions C13_ListArray_getitem_jagged_descend_safe.

(* @awkward_ListArray_getitem_jagged_numvalid k_safe *)
Theorem C13_ListArray_getitem_jagged_numvalid_safe :
  forall numvalid slicestarts slicestops n missing missinglength,
  n <= zlen slicestarts -> n <= zlen slicestops -> 1 <= zlen numvalid -> missinglength <= zlen missing ->
  (forall i, 0 <= i < n -> 0 <= at_ slicestarts i) ->
  ListArray_getitem_jagged_numvalid numvalid slicestarts slicestops n missing missinglength <> XOob.
Proof. exact ListArray_getitem_jagged_numvalid_safe. Qed.
Print Assumptions C13_ListArray_getitem_jagged_numvalid_safe.

(* @awkward_ListArray_getitem_jagged_carrylen k_spec *)
Theorem C13_ListArray_getitem_jagged_carrylen_spec :
  forall x slicestarts slicestops,
  zlen slicestarts = zlen slicestops ->
  ListArray_getitem_jagged_carrylen [x] slicestarts slicestops (zlen slicestarts)
  = KOk [sumZ (map (fun p => snd p - fst p) (zip slicestarts slicestops))].
Proof. exact ListArray_getitem_jagged_carrylen_spec. Qed.
Print Assumptions C13_ListArray_getitem_jagged_carrylen_spec.

(* @awkward_carry_SliceJagged64_offsets k_safe *)
Theorem C13_carry_SliceJagged64_offsets_safe :
  forall tooffsets fromoffsets fromcarry n,
  0 <= n <= zlen fromcarry -> n < zlen tooffsets ->
  (forall i, 0 <= i < n -> 0 <= at_ fromcarry i /\ at_ fromcarry i + 1 < zlen fromoffsets) ->
  carry_SliceJagged64_offsets tooffsets fromoffsets fromcarry n <> KOob.
Proof. exact carry_SliceJagged64_offsets_safe. Qed.
Print Assumptions C13_carry_SliceJagged64_offsets_safe.

(* @awkward_UnionArray_simplify_one k_spec *)
Theorem C13_UnionArray_simplify_one_spec :
  forall totags toindex fromtags fromindex towhich fromwhich n base,
  0 <= n -> n <= zlen fromtags -> n <= zlen fromindex -> n <= zlen totags -> n <= zlen toindex ->
  exists tg ix, UnionArray_simplify_one TIdeal totags toindex fromtags fromindex towhich fromwhich n base = KOk (tg, ix) /\
    zlen tg = zlen totags /\ zlen ix = zlen toindex /\
    forall q, 0 <= q ->
      at_ tg q = (if (q <? n) && (at_ fromtags q =? fromwhich) then towhich else at_ totags q) /\
      at_ ix q = (if (q <? n) && (at_ fromtags q =? fromwhich) then at_ fromindex q + base else at_ toindex q).
Proof. exact UnionArray_simplify_one_spec. Qed.
Print Assumptions C13_UnionArray_simplify_one_spec.
