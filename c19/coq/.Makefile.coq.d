Forth.vo Forth.glob Forth.v.beautified Forth.required_vo: Forth.v 
Forth.vio: Forth.v 
Forth.vos Forth.vok Forth.required_vos: Forth.v 
Proofs_C19.vo Proofs_C19.glob Proofs_C19.v.beautified Proofs_C19.required_vo: Proofs_C19.v Forth.vo
Proofs_C19.vio: Proofs_C19.v Forth.vio
Proofs_C19.vos Proofs_C19.vok Proofs_C19.required_vos: Proofs_C19.v Forth.vos
Props_C19.vo Props_C19.glob Props_C19.v.beautified Props_C19.required_vo: Props_C19.v Forth.vo Proofs_C19.vo
Props_C19.vio: Props_C19.v Forth.vio Proofs_C19.vio
Props_C19.vos Props_C19.vok Props_C19.required_vos: Props_C19.v Forth.vos Proofs_C19.vos
