(** Proofs_C13.v -- k_safe / k_spec / k_width for the kernel models of Kernels.v *)
From Coq Require Import ZArith List Bool Lia ZifyBool.
From AwkV Require Import Base.
From AwkKernels Require Import Kernels KLemmas.
Import ListNotations.
Open Scope Z_scope.

Ltac Zify.zify_post_hook ::= Z.to_euclidean_division_equations.

(** element i of a buffer (0 outside): used to state pointwise hypotheses *)
Definition at_ (l : list Z) (i : Z) : Z := nth (Z.to_nat i) l 0.

Lemma kget_at l i : 0 <= i < zlen l -> kget l i = KOk (at_ l i).
Proof. apply kget_nth. Qed.

(** * map over iota = map over the list *)
Lemma map_iota_nat_shift {B} (f : Z -> B) s n :
  map f (iota_nat (s + 1) n) = map (fun i => f (i + 1)) (iota_nat s n).
Proof. revert s; induction n; intros s; cbn [iota_nat map]; auto. f_equal. apply IHn. Qed.

Lemma map_iota_list {B} (h : Z -> B) (a : list Z) :
  map (fun i => h (at_ a i)) (iota (zlen a)) = map h a.
Proof.
  unfold iota, zlen. rewrite Nat2Z.id.
  induction a as [|x a IH]; cbn [length iota_nat map]; auto.
  f_equal. change (0 + 1) with (0 + 1). rewrite map_iota_nat_shift. rewrite <- IH.
  apply map_ext_in. intros i Hi. apply in_iota_nat in Hi. unfold at_.
  replace (Z.to_nat (i + 1)) with (S (Z.to_nat i)) by lia. reflexivity.
Qed.

Lemma map_iota_zip {B} (h : Z -> Z -> B) (a b : list Z) :
  zlen a = zlen b ->
  map (fun i => h (at_ a i) (at_ b i)) (iota (zlen a)) = map (fun p => h (fst p) (snd p)) (zip a b).
Proof.
  unfold iota, zlen. rewrite Nat2Z.id. intros H. assert (L : length a = length b) by lia. clear H.
  revert b L; induction a as [|x a IH]; intros [|y b] L; cbn [length iota_nat map zip] in *; try discriminate; auto.
  f_equal. rewrite map_iota_nat_shift. rewrite <- IH by lia.
  apply map_ext_in. intros i Hi. apply in_iota_nat in Hi. unfold at_.
  replace (Z.to_nat (i + 1)) with (S (Z.to_nat i)) by lia. reflexivity.
Qed.

Lemma kfill_ext off n f f' out :
  (forall i, 0 <= i < n -> f i = f' i) -> kfill off n f out = kfill off n f' out.
Proof. intros H. unfold kfill. apply kfor_ext. intros j s Hj. now rewrite H. Qed.

Lemma filled_0_all n g out : zlen out = n -> filled 0 n g out = map g (iota n).
Proof.
  intros H. unfold filled. cbn [Z.to_nat firstn app]. rewrite skipn_all2, app_nil_r; auto.
  unfold zlen in H. lia.
Qed.
Lemma filled_0_prefix n g out : 0 <= n -> filled 0 n g out = map g (iota n) ++ skipn (Z.to_nat n) out.
Proof. intros H. unfold filled. cbn [Z.to_nat firstn app]. now rewrite Z.add_0_l. Qed.

(* ================================================================================================ *)
(** * awkward_ListArray_num *)

Theorem ListArray_num_safe tT tC tonum starts stops n :
  n <= zlen starts -> n <= zlen stops -> n <= zlen tonum ->
  ListArray_num tT tC tonum starts stops n <> KOob.
Proof.
  intros H1 H2 H3. unfold ListArray_num. apply kfill_safe; try lia.
  intros i Hi. rewrite (kget_at starts), (kget_at stops) by lia. cbn [kbind]. congruence.
Qed.

(** the kernel computes [map (stop - start)] over the zipped starts/stops, leaving the rest of the buffer alone *)
Theorem ListArray_num_spec tonum starts stops n :
  zlen starts = n -> zlen stops = n -> n <= zlen tonum ->
  ListArray_num TIdeal TIdeal tonum starts stops n
  = KOk (map (fun p => snd p - fst p) (zip starts stops) ++ skipn (Z.to_nat n) tonum).
Proof.
  intros H1 H2 H3. pose proof (zlen_nonneg starts). unfold ListArray_num.
  rewrite (kfill_spec 0 n _ (fun i => at_ stops i - at_ starts i)); try lia.
  - rewrite Z.max_r by lia. rewrite filled_0_prefix by lia. do 2 f_equal.
    subst n. rewrite (map_iota_zip (fun s e => e - s)) by lia. reflexivity.
  - intros i Hi. rewrite (kget_at starts), (kget_at stops) by lia. reflexivity.
Qed.

(** every width specialisation equals the ideal one when the differences are representable *)
Theorem ListArray_num_width tT tC tonum starts stops n :
  n <= zlen starts -> n <= zlen stops ->
  (forall i, 0 <= i < n -> fits tC (at_ stops i - at_ starts i) /\ fits tT (at_ stops i - at_ starts i)) ->
  ListArray_num tT tC tonum starts stops n = ListArray_num TIdeal TIdeal tonum starts stops n.
Proof.
  intros H1 H2 Hf. unfold ListArray_num. apply kfill_ext. intros i Hi.
  rewrite (kget_at starts), (kget_at stops) by lia. cbn [kbind wrap].
  destruct (Hf i Hi) as (F1 & F2). unfold fits in *. now rewrite F1, F2.
Qed.

Example ListArray_num_example :
  ListArray_num (TI 64) (TU 32) [7; 7; 7] [4294967291; 0; 3] [4294967294; 0; 7] 3 = KOk [3; 0; 4].
Proof. vm_compute. reflexivity. Qed.

(* ================================================================================================ *)
(** * awkward_RegularArray_num *)

Theorem RegularArray_num_safe tT tonum size n : n <= zlen tonum -> RegularArray_num tT tonum size n <> KOob.
Proof. intros H. unfold RegularArray_num. apply kfill_safe; try lia. congruence. Qed.

Theorem RegularArray_num_spec tonum size n :
  0 <= n -> n <= zlen tonum ->
  RegularArray_num TIdeal tonum size n = KOk (repeat size (Z.to_nat n) ++ skipn (Z.to_nat n) tonum).
Proof.
  intros H0 H. unfold RegularArray_num.
  rewrite (kfill_spec 0 n _ (fun _ => size)); try lia; auto.
  rewrite Z.max_r by lia. rewrite filled_0_prefix by lia. do 2 f_equal.
  unfold iota. generalize 0. induction (Z.to_nat n); intros z; cbn; auto. now rewrite IHn0.
Qed.

Theorem RegularArray_num_width tT tonum size n :
  fits tT size -> RegularArray_num tT tonum size n = RegularArray_num TIdeal tonum size n.
Proof. intros F. unfold RegularArray_num. apply kfill_ext. intros. cbn [wrap]. now rewrite F. Qed.

(* ================================================================================================ *)
(** * awkward_ListOffsetArray_flatten_offsets *)

Theorem flatten_offsets_safe tT tooffsets outer outerlen inner :
  outerlen <= zlen outer -> outerlen <= zlen tooffsets ->
  (forall i, 0 <= i < outerlen -> 0 <= at_ outer i < zlen inner) ->
  ListOffsetArray_flatten_offsets tT tooffsets outer outerlen inner <> KOob.
Proof.
  intros H1 H2 H3. unfold ListOffsetArray_flatten_offsets. apply kfill_safe; try lia.
  intros i Hi. rewrite (kget_at outer) by lia. cbn [kbind].
  rewrite (kget_at inner) by (apply H3; lia). cbn [kbind]. congruence.
Qed.

Theorem flatten_offsets_spec tooffsets outer inner :
  zlen outer <= zlen tooffsets ->
  (forall i, 0 <= i < zlen outer -> 0 <= at_ outer i < zlen inner) ->
  ListOffsetArray_flatten_offsets TIdeal tooffsets outer (zlen outer) inner
  = KOk (map (at_ inner) outer ++ skipn (length outer) tooffsets).
Proof.
  intros H2 H3. pose proof (zlen_nonneg outer). unfold ListOffsetArray_flatten_offsets.
  rewrite (kfill_spec 0 (zlen outer) _ (fun i => at_ inner (at_ outer i))); try lia.
  - rewrite Z.max_r by lia. rewrite filled_0_prefix by lia. f_equal. f_equal.
    + apply (map_iota_list (at_ inner)).
    + f_equal. unfold zlen. lia.
  - intros i Hi. rewrite (kget_at outer) by lia. cbn [kbind].
    rewrite (kget_at inner) by (apply H3; lia). reflexivity.
Qed.

(* ================================================================================================ *)
(** * awkward_localindex / awkward_carry_arange / awkward_new_Identities *)

Theorem localindex_safe tT toindex n : n <= zlen toindex -> localindex tT toindex n <> KOob.
Proof. intros H. unfold localindex. apply kfill_safe; try lia. congruence. Qed.

Theorem localindex_spec toindex n :
  0 <= n -> n <= zlen toindex -> localindex TIdeal toindex n = KOk (iota n ++ skipn (Z.to_nat n) toindex).
Proof.
  intros H0 H. unfold localindex. rewrite (kfill_spec 0 n _ (fun i => i)); try lia; auto.
  rewrite Z.max_r by lia. rewrite filled_0_prefix by lia. now rewrite map_id.
Qed.

Theorem localindex_width tT toindex n :
  (forall i, 0 <= i < n -> fits tT i) -> localindex tT toindex n = localindex TIdeal toindex n.
Proof. intros F. unfold localindex. apply kfill_ext. intros i Hi. cbn [wrap]. now rewrite F. Qed.

(* ================================================================================================ *)
(** * awkward_ByteMaskedArray_toIndexedOptionArray *)

Theorem ByteMasked_toIndexedOption_safe toindex mask n vw :
  n <= zlen mask -> n <= zlen toindex -> ByteMaskedArray_toIndexedOptionArray toindex mask n vw <> KOob.
Proof.
  intros H1 H2. unfold ByteMaskedArray_toIndexedOptionArray. apply kfill_safe; try lia.
  intros i Hi. rewrite (kget_at mask) by lia. cbn [kbind]. congruence.
Qed.

Theorem ByteMasked_toIndexedOption_spec toindex mask vw :
  zlen toindex = zlen mask ->
  ByteMaskedArray_toIndexedOptionArray toindex mask (zlen mask) vw
  = KOk (map (fun i => if Bool.eqb (negb (at_ mask i =? 0)) vw then i else -1) (iota (zlen mask))).
Proof.
  intros H. pose proof (zlen_nonneg mask). unfold ByteMaskedArray_toIndexedOptionArray.
  rewrite (kfill_spec 0 (zlen mask) _ (fun i => if Bool.eqb (negb (at_ mask i =? 0)) vw then i else -1)); try lia.
  - rewrite Z.max_r by lia. now rewrite filled_0_all.
  - intros i Hi. rewrite (kget_at mask) by lia. reflexivity.
Qed.

(* ================================================================================================ *)
(** * awkward_UnionArray_fillna *)

Theorem UnionArray_fillna_safe tT toindex fromindex n :
  n <= zlen fromindex -> n <= zlen toindex -> UnionArray_fillna tT toindex fromindex n <> KOob.
Proof.
  intros H1 H2. unfold UnionArray_fillna. apply kfill_safe; try lia.
  intros i Hi. rewrite (kget_at fromindex) by lia. cbn [kbind]. congruence.
Qed.

Theorem UnionArray_fillna_spec toindex fromindex :
  zlen fromindex <= zlen toindex ->
  UnionArray_fillna TIdeal toindex fromindex (zlen fromindex)
  = KOk (map (fun x => if 0 <=? x then x else 0) fromindex ++ skipn (length fromindex) toindex).
Proof.
  intros H. pose proof (zlen_nonneg fromindex). unfold UnionArray_fillna.
  rewrite (kfill_spec 0 (zlen fromindex) _ (fun i => if 0 <=? at_ fromindex i then at_ fromindex i else 0)); try lia.
  - rewrite Z.max_r by lia. rewrite filled_0_prefix by lia. f_equal. f_equal.
    + apply (map_iota_list (fun x => if 0 <=? x then x else 0)).
    + f_equal. unfold zlen; lia.
  - intros i Hi. rewrite (kget_at fromindex) by lia. reflexivity.
Qed.

(* ================================================================================================ *)
(** * fill kernels: NumpyArray_fill, IndexedArray_fill, UnionArray_filltags, UnionArray_fillindex *)

Theorem NumpyArray_fill_safe tTO toptr off fromptr n :
  0 <= off -> n <= zlen fromptr -> off + n <= zlen toptr -> NumpyArray_fill tTO toptr off fromptr n <> KOob.
Proof.
  intros H0 H1 H2. unfold NumpyArray_fill. apply kfill_safe; try lia.
  intros i Hi. rewrite (kget_at fromptr) by lia. cbn [kbind]. congruence.
Qed.

(** copies [fromptr] into cells [off, off + n) and leaves every other cell alone *)
Theorem NumpyArray_fill_spec toptr off fromptr :
  0 <= off -> off + zlen fromptr <= zlen toptr ->
  NumpyArray_fill TIdeal toptr off fromptr (zlen fromptr)
  = KOk (firstn (Z.to_nat off) toptr ++ fromptr ++ skipn (Z.to_nat (off + zlen fromptr)) toptr).
Proof.
  intros H0 H. pose proof (zlen_nonneg fromptr). unfold NumpyArray_fill.
  rewrite (kfill_spec off (zlen fromptr) _ (at_ fromptr)); try lia.
  - rewrite Z.max_r by lia. unfold filled. do 2 f_equal. f_equal.
    rewrite (map_iota_list (fun x => x)). apply map_id.
  - intros i Hi. rewrite (kget_at fromptr) by lia. reflexivity.
Qed.

Theorem NumpyArray_fill_width tTO toptr off fromptr n :
  n <= zlen fromptr -> (forall i, 0 <= i < n -> fits tTO (at_ fromptr i)) ->
  NumpyArray_fill tTO toptr off fromptr n = NumpyArray_fill TIdeal toptr off fromptr n.
Proof.
  intros H F. unfold NumpyArray_fill. apply kfill_ext. intros i Hi.
  rewrite (kget_at fromptr) by lia. cbn [kbind wrap]. now rewrite F.
Qed.

Theorem IndexedArray_fill_safe tTO toindex off fromindex n base :
  0 <= off -> n <= zlen fromindex -> off + n <= zlen toindex -> IndexedArray_fill tTO toindex off fromindex n base <> KOob.
Proof.
  intros H0 H1 H2. unfold IndexedArray_fill. apply kfill_safe; try lia.
  intros i Hi. rewrite (kget_at fromindex) by lia. cbn [kbind]. congruence.
Qed.

Theorem IndexedArray_fill_spec toindex off fromindex base :
  0 <= off -> off + zlen fromindex <= zlen toindex ->
  IndexedArray_fill TIdeal toindex off fromindex (zlen fromindex) base
  = KOk (firstn (Z.to_nat off) toindex ++ map (fun x => if x <? 0 then -1 else x + base) fromindex
         ++ skipn (Z.to_nat (off + zlen fromindex)) toindex).
Proof.
  intros H0 H. pose proof (zlen_nonneg fromindex). unfold IndexedArray_fill.
  rewrite (kfill_spec off (zlen fromindex) _ (fun i => if at_ fromindex i <? 0 then -1 else at_ fromindex i + base)); try lia.
  - rewrite Z.max_r by lia. unfold filled. do 2 f_equal. f_equal.
    apply (map_iota_list (fun x => if x <? 0 then -1 else x + base)).
  - intros i Hi. rewrite (kget_at fromindex) by lia. cbn [kbind wrap]. now destruct (at_ fromindex i <? 0).
Qed.

Theorem UnionArray_filltags_safe tTO totags off fromtags n base :
  0 <= off -> n <= zlen fromtags -> off + n <= zlen totags -> UnionArray_filltags tTO totags off fromtags n base <> KOob.
Proof.
  intros H0 H1 H2. unfold UnionArray_filltags. apply kfill_safe; try lia.
  intros i Hi. rewrite (kget_at fromtags) by lia. cbn [kbind]. congruence.
Qed.

Theorem UnionArray_filltags_spec totags off fromtags base :
  0 <= off -> off + zlen fromtags <= zlen totags ->
  UnionArray_filltags TIdeal totags off fromtags (zlen fromtags) base
  = KOk (firstn (Z.to_nat off) totags ++ map (fun x => x + base) fromtags ++ skipn (Z.to_nat (off + zlen fromtags)) totags).
Proof.
  intros H0 H. pose proof (zlen_nonneg fromtags). unfold UnionArray_filltags.
  rewrite (kfill_spec off (zlen fromtags) _ (fun i => at_ fromtags i + base)); try lia.
  - rewrite Z.max_r by lia. unfold filled. do 2 f_equal. f_equal. apply (map_iota_list (fun x => x + base)).
  - intros i Hi. rewrite (kget_at fromtags) by lia. reflexivity.
Qed.

Theorem UnionArray_fillindex_safe tTO toindex off fromindex n :
  0 <= off -> n <= zlen fromindex -> off + n <= zlen toindex -> UnionArray_fillindex tTO toindex off fromindex n <> KOob.
Proof.
  intros H0 H1 H2. unfold UnionArray_fillindex. apply kfill_safe; try lia.
  intros i Hi. rewrite (kget_at fromindex) by lia. cbn [kbind]. congruence.
Qed.

Theorem UnionArray_fillindex_spec toindex off fromindex :
  0 <= off -> off + zlen fromindex <= zlen toindex ->
  UnionArray_fillindex TIdeal toindex off fromindex (zlen fromindex)
  = KOk (firstn (Z.to_nat off) toindex ++ fromindex ++ skipn (Z.to_nat (off + zlen fromindex)) toindex).
Proof.
  intros H0 H. pose proof (zlen_nonneg fromindex). unfold UnionArray_fillindex.
  rewrite (kfill_spec off (zlen fromindex) _ (at_ fromindex)); try lia.
  - rewrite Z.max_r by lia. unfold filled. do 2 f_equal. f_equal.
    rewrite (map_iota_list (fun x => x)). apply map_id.
  - intros i Hi. rewrite (kget_at fromindex) by lia. reflexivity.
Qed.

(* ================================================================================================ *)
(** * validity kernels: success exactly on the documented conditions, never out of bounds *)

Ltac kcheck_cases :=
  repeat match goal with
         | |- context [kcheck ?b ?m] => let E := fresh "E" in destruct b eqn:E; cbn [kcheck kbind]
         | |- context [if ?b then _ else _] => let E := fresh "E" in destruct b eqn:E; cbn [kcheck kbind]
         end.

Theorem ListArray_validity_safe starts stops n lc :
  n <= zlen starts -> n <= zlen stops -> ListArray_validity starts stops n lc <> KOob.
Proof.
  intros H1 H2. unfold ListArray_validity. apply kchecks_safe. intros i Hi.
  rewrite (kget_at starts), (kget_at stops) by lia. cbn [kbind]. kcheck_cases; congruence.
Qed.

Theorem ListArray_validity_spec starts stops n lc :
  n <= zlen starts -> n <= zlen stops ->
  (ListArray_validity starts stops n lc = KOk tt <->
   forall i, 0 <= i < n ->
     at_ starts i = at_ stops i \/ (at_ starts i < at_ stops i /\ 0 <= at_ starts i /\ at_ stops i <= lc)).
Proof.
  intros H1 H2. unfold ListArray_validity. split.
  - intros E i Hi. apply kchecks_ok_inv with (i := i) in E; auto.
    rewrite (kget_at starts), (kget_at stops) in E by lia. cbn [kbind] in E.
    destruct (at_ starts i =? at_ stops i) eqn:E0; [left; lia|right].
    unfold kcheck in E.
    destruct (at_ stops i <? at_ starts i) eqn:E1; cbn [kbind] in E; [discriminate|].
    destruct (at_ starts i <? 0) eqn:E2; cbn [kbind] in E; [discriminate|].
    destruct (lc <? at_ stops i) eqn:E3; [discriminate|]. lia.
  - intros H. apply kchecks_ok. intros i Hi. specialize (H i Hi).
    rewrite (kget_at starts), (kget_at stops) by lia. cbn [kbind]. kcheck_cases; auto; lia.
Qed.

Theorem IndexedArray_validity_safe index n lc isoption :
  n <= zlen index -> IndexedArray_validity index n lc isoption <> KOob.
Proof.
  intros H. unfold IndexedArray_validity. apply kchecks_safe. intros i Hi.
  rewrite (kget_at index) by lia. cbn [kbind]. kcheck_cases; congruence.
Qed.

Theorem IndexedArray_validity_spec index n lc isoption :
  n <= zlen index ->
  (IndexedArray_validity index n lc isoption = KOk tt <->
   forall i, 0 <= i < n -> at_ index i < lc /\ (isoption = false -> 0 <= at_ index i)).
Proof.
  intros H1. unfold IndexedArray_validity. split.
  - intros E i Hi. apply kchecks_ok_inv with (i := i) in E; auto.
    rewrite (kget_at index) in E by lia. cbn [kbind] in E. unfold kcheck in E.
    destruct (negb isoption && (at_ index i <? 0)) eqn:E1; cbn [kbind] in E; [discriminate|].
    destruct (lc <=? at_ index i) eqn:E2; [discriminate|]. split; [lia|]. intros ->. cbn in E1. lia.
  - intros H. apply kchecks_ok. intros i Hi. destruct (H i Hi) as (A & B).
    rewrite (kget_at index) by lia. cbn [kbind]. unfold kcheck.
    destruct (negb isoption && (at_ index i <? 0)) eqn:E1; cbn [kbind].
    + destruct isoption; cbn in E1; [discriminate|]. specialize (B eq_refl). lia.
    + destruct (lc <=? at_ index i) eqn:E2; auto. lia.
Qed.

Theorem UnionArray_validity_safe tags index n nc lens :
  n <= zlen tags -> n <= zlen index -> nc <= zlen lens -> UnionArray_validity tags index n nc lens <> KOob.
Proof.
  intros H1 H2 H3. unfold UnionArray_validity. apply kchecks_safe. intros i Hi.
  rewrite (kget_at tags), (kget_at index) by lia. cbn [kbind]. unfold kcheck.
  destruct (at_ tags i <? 0) eqn:E1; cbn [kbind]; [congruence|].
  destruct (at_ index i <? 0) eqn:E2; cbn [kbind]; [congruence|].
  destruct (nc <=? at_ tags i) eqn:E3; cbn [kbind]; [congruence|].
  rewrite (kget_at lens) by lia. cbn [kbind]. destruct (at_ lens (at_ tags i) <=? at_ index i); congruence.
Qed.

Theorem UnionArray_validity_spec tags index n nc lens :
  n <= zlen tags -> n <= zlen index -> nc <= zlen lens ->
  (UnionArray_validity tags index n nc lens = KOk tt <->
   forall i, 0 <= i < n -> 0 <= at_ tags i < nc /\ 0 <= at_ index i < at_ lens (at_ tags i)).
Proof.
  intros H1 H2 H3. unfold UnionArray_validity. split.
  - intros E i Hi. apply kchecks_ok_inv with (i := i) in E; auto.
    rewrite (kget_at tags), (kget_at index) in E by lia. cbn [kbind] in E. unfold kcheck in E.
    destruct (at_ tags i <? 0) eqn:E1; cbn [kbind] in E; [discriminate|].
    destruct (at_ index i <? 0) eqn:E2; cbn [kbind] in E; [discriminate|].
    destruct (nc <=? at_ tags i) eqn:E3; cbn [kbind] in E; [discriminate|].
    rewrite (kget_at lens) in E by lia. cbn [kbind] in E.
    destruct (at_ lens (at_ tags i) <=? at_ index i) eqn:E4; [discriminate|]. lia.
  - intros H. apply kchecks_ok. intros i Hi. specialize (H i Hi).
    rewrite (kget_at tags), (kget_at index) by lia. cbn [kbind]. unfold kcheck.
    destruct (at_ tags i <? 0) eqn:E1; cbn [kbind]; [lia|].
    destruct (at_ index i <? 0) eqn:E2; cbn [kbind]; [lia|].
    destruct (nc <=? at_ tags i) eqn:E3; cbn [kbind]; [lia|].
    rewrite (kget_at lens) by lia. cbn [kbind].
    destruct (at_ lens (at_ tags i) <=? at_ index i) eqn:E4; auto. lia.
Qed.

Theorem RegularArray_broadcast_tooffsets_safe tT fromoffsets ol size :
  ol <= zlen fromoffsets -> RegularArray_broadcast_tooffsets tT fromoffsets ol size <> KOob.
Proof.
  intros H. unfold RegularArray_broadcast_tooffsets. apply kchecks_safe. intros i Hi.
  rewrite (kget_at fromoffsets (i + 1)), (kget_at fromoffsets i) by lia. cbn [kbind]. unfold kcheck.
  destruct (wrap tT (at_ fromoffsets (i + 1) - at_ fromoffsets i) <? 0); cbn [kbind]; [congruence|].
  destruct (negb (size =? wrap tT (at_ fromoffsets (i + 1) - at_ fromoffsets i))); congruence.
Qed.

(** succeeds exactly when every list has [size] elements *)
Theorem RegularArray_broadcast_tooffsets_spec fromoffsets ol size :
  ol <= zlen fromoffsets ->
  (RegularArray_broadcast_tooffsets TIdeal fromoffsets ol size = KOk tt <->
   forall i, 0 <= i < ol - 1 -> at_ fromoffsets (i + 1) - at_ fromoffsets i = size /\ 0 <= size).
Proof.
  intros H1. unfold RegularArray_broadcast_tooffsets. split.
  - intros E i Hi. apply kchecks_ok_inv with (i := i) in E; auto.
    rewrite (kget_at fromoffsets (i + 1)), (kget_at fromoffsets i) in E by lia. cbn [kbind wrap] in E.
    unfold kcheck in E.
    destruct (at_ fromoffsets (i + 1) - at_ fromoffsets i <? 0) eqn:E1; cbn [kbind] in E; [discriminate|].
    destruct (negb (size =? at_ fromoffsets (i + 1) - at_ fromoffsets i)) eqn:E2; [discriminate|]. lia.
  - intros H. apply kchecks_ok. intros i Hi. specialize (H i Hi).
    rewrite (kget_at fromoffsets (i + 1)), (kget_at fromoffsets i) by lia. cbn [kbind wrap]. unfold kcheck.
    destruct (at_ fromoffsets (i + 1) - at_ fromoffsets i <? 0) eqn:E1; cbn [kbind]; [lia|].
    destruct (negb (size =? at_ fromoffsets (i + 1) - at_ fromoffsets i)) eqn:E2; auto. lia.
Qed.

(* ================================================================================================ *)
(** * compact offsets *)

Lemma kupd0 x out v : kupd (x :: out) 0 v = KOk (v :: out).
Proof. unfold kupd. rewrite zlen_cons. pose proof (zlen_nonneg out). destruct ((0 <=? 0) && (0 <? zlen out + 1)) eqn:E; [reflexivity|lia]. Qed.

Lemma filled_1_cons x out n g :
  0 <= n -> filled 1 n g (x :: out) = x :: map g (iota n) ++ skipn (Z.to_nat n) out.
Proof.
  intros H. unfold filled. change (Z.to_nat 1) with 1%nat. cbn [firstn app].
  replace (Z.to_nat (1 + n)) with (S (Z.to_nat n)) by lia. reflexivity.
Qed.

Theorem ListOffsetArray_compact_offsets_safe tT tooffsets fromoffsets n :
  0 <= n -> n + 1 <= zlen fromoffsets -> n + 1 <= zlen tooffsets ->
  ListOffsetArray_compact_offsets tT tooffsets fromoffsets n <> KOob.
Proof.
  intros H0 H1 H2. unfold ListOffsetArray_compact_offsets.
  rewrite (kget_at fromoffsets 0) by lia. cbn [kbind].
  rewrite kupd_ok by lia. cbn [kbind]. apply kfill_safe; try lia.
  - rewrite zlen_set_nth. lia.
  - intros i Hi. rewrite (kget_at fromoffsets) by lia. cbn [kbind]. congruence.
Qed.

(** zero-based offsets: every entry minus the first one *)
Theorem ListOffsetArray_compact_offsets_spec tooffsets fromoffsets :
  1 <= zlen fromoffsets -> zlen fromoffsets <= zlen tooffsets ->
  ListOffsetArray_compact_offsets TIdeal tooffsets fromoffsets (zlen fromoffsets - 1)
  = KOk (map (fun o => o - at_ fromoffsets 0) fromoffsets ++ skipn (length fromoffsets) tooffsets).
Proof.
  intros H1 H2. unfold ListOffsetArray_compact_offsets.
  rewrite (kget_at fromoffsets 0) by lia. cbn [kbind].
  destruct tooffsets as [|t0 rest]; [rewrite zlen_nil in H2; lia|].
  rewrite kupd0. cbn [kbind]. rewrite zlen_cons in H2.
  destruct fromoffsets as [|f0 frest]; [rewrite zlen_nil in H1; lia|].
  rewrite zlen_cons in *. pose proof (zlen_nonneg frest).
  replace (zlen frest + 1 - 1) with (zlen frest) by lia.
  rewrite (kfill_spec 1 (zlen frest) _ (fun i => at_ frest i - f0)).
  - rewrite Z.max_r by lia. rewrite filled_1_cons by lia. cbn [map length skipn at_ nth Z.to_nat].
    rewrite <- app_comm_cons. f_equal. f_equal; [lia|]. f_equal.
    + apply (map_iota_list (fun o => o - f0)).
    + f_equal. unfold zlen; lia.
  - lia.
  - rewrite zlen_cons. lia.
  - intros i Hi. rewrite (kget_at (f0 :: frest)) by (rewrite zlen_cons; lia). cbn [kbind wrap].
    unfold at_. replace (Z.to_nat (i + 1)) with (S (Z.to_nat i)) by lia. reflexivity.
Qed.

Theorem RegularArray_compact_offsets_safe tT tooffsets n size :
  0 <= n -> n + 1 <= zlen tooffsets -> RegularArray_compact_offsets tT tooffsets n size <> KOob.
Proof.
  intros H0 H2. unfold RegularArray_compact_offsets.
  rewrite kupd_ok by lia. cbn [kbind]. apply kfill_safe; try lia.
  - rewrite zlen_set_nth. lia.
  - congruence.
Qed.

Theorem RegularArray_compact_offsets_spec tooffsets n size :
  0 <= n -> n + 1 <= zlen tooffsets ->
  RegularArray_compact_offsets TIdeal tooffsets n size
  = KOk (map (fun i => i * size) (iota (n + 1)) ++ skipn (Z.to_nat (n + 1)) tooffsets).
Proof.
  intros H0 H2. unfold RegularArray_compact_offsets.
  destruct tooffsets as [|t0 rest]; [rewrite zlen_nil in H2; lia|].
  rewrite kupd0. cbn [kbind]. rewrite zlen_cons in H2.
  rewrite (kfill_spec 1 n _ (fun i => (i + 1) * size)); auto; try lia.
  - rewrite Z.max_r by lia. rewrite filled_1_cons by lia.
    replace (Z.to_nat (n + 1)) with (S (Z.to_nat n)) by lia. cbn [skipn].
    unfold iota. replace (Z.to_nat (n + 1)) with (S (Z.to_nat n)) by lia. cbn [iota_nat map app].
    f_equal. f_equal. change 1 with (0 + 1) at 2. now rewrite map_iota_nat_shift.
  - rewrite zlen_cons. lia.
Qed.

(* ================================================================================================ *)
(** * getitem_next_at *)

Theorem RegularArray_getitem_next_at_safe tocarry at0 n size :
  n <= zlen tocarry -> RegularArray_getitem_next_at tocarry at0 n size <> KOob.
Proof.
  intros H. unfold RegularArray_getitem_next_at. unfold kcheck.
  destruct (negb _); cbn [kbind]; [congruence|]. apply kfill_safe; try lia. congruence.
Qed.

(** in range: element [at] (counted from the end if negative) of every row; out of range: the error *)
Theorem RegularArray_getitem_next_at_spec tocarry at0 n size :
  0 <= n -> n <= zlen tocarry ->
  RegularArray_getitem_next_at tocarry at0 n size =
  let ra := if at0 <? 0 then at0 + size else at0 in
  if (0 <=? ra) && (ra <? size)
  then KOk (map (fun i => i * size + ra) (iota n) ++ skipn (Z.to_nat n) tocarry)
  else KErr MIndexOutOfRange.
Proof.
  intros H0 H. unfold RegularArray_getitem_next_at. cbv zeta.
  destruct ((0 <=? (if at0 <? 0 then at0 + size else at0)) && ((if at0 <? 0 then at0 + size else at0) <? size)) eqn:E;
    cbn [negb kcheck kbind]; auto.
  rewrite (kfill_spec 0 n _ (fun i => i * size + (if at0 <? 0 then at0 + size else at0))); auto; try lia.
  rewrite Z.max_r by lia. now rewrite filled_0_prefix by lia.
Qed.

Theorem ListArray_getitem_next_at_safe tT tC tocarry starts stops n at0 :
  n <= zlen starts -> n <= zlen stops -> n <= zlen tocarry ->
  ListArray_getitem_next_at tT tC tocarry starts stops n at0 <> KOob.
Proof.
  intros H1 H2 H3. unfold ListArray_getitem_next_at. apply kfill_safe; try lia.
  intros i Hi. rewrite (kget_at starts), (kget_at stops) by lia. cbn [kbind]. unfold kcheck.
  destruct (negb _); cbn [kbind]; congruence.
Qed.

Theorem ListArray_getitem_next_at_spec tocarry starts stops at0 :
  zlen stops = zlen starts -> zlen starts <= zlen tocarry ->
  (forall i, 0 <= i < zlen starts -> - (at_ stops i - at_ starts i) <= at0 < at_ stops i - at_ starts i) ->
  ListArray_getitem_next_at TIdeal TIdeal tocarry starts stops (zlen starts) at0
  = KOk (map (fun p => fst p + (if at0 <? 0 then at0 + (snd p - fst p) else at0)) (zip starts stops)
         ++ skipn (length starts) tocarry).
Proof.
  intros H1 H2 H3. pose proof (zlen_nonneg starts). unfold ListArray_getitem_next_at.
  rewrite (kfill_spec 0 (zlen starts) _
             (fun i => at_ starts i + (if at0 <? 0 then at0 + (at_ stops i - at_ starts i) else at0))); try lia.
  - rewrite Z.max_r by lia. rewrite filled_0_prefix by lia. f_equal. f_equal.
    + rewrite (map_iota_zip (fun s e => s + (if at0 <? 0 then at0 + (e - s) else at0))) by lia. reflexivity.
    + f_equal. unfold zlen; lia.
  - intros i Hi. rewrite (kget_at starts), (kget_at stops) by lia. cbn [kbind wrap]. specialize (H3 i Hi).
    unfold kcheck. destruct (at0 <? 0) eqn:E.
    + destruct (negb _) eqn:E2; cbn [kbind]; auto. lia.
    + destruct (negb _) eqn:E2; cbn [kbind]; auto. lia.
Qed.

(* ================================================================================================ *)
(** * filter-and-push loops:  k = 0; for i: if (sel i = Some v) out[k++] = v *)

Definition opt_list (o : option Z) : list Z := match o with Some v => [v] | None => [] end.
Definition pushed (g : Z -> option Z) (j : Z) : list Z := flat_map (fun i => opt_list (g i)) (iota j).

Lemma pushed_snoc g j : 0 <= j -> pushed g (j + 1) = pushed g j ++ opt_list (g j).
Proof. intros H. unfold pushed. rewrite iota_snoc by lia. rewrite flat_map_app. cbn. now rewrite app_nil_r. Qed.

Lemma pushed_le g j : 0 <= j -> zlen (pushed g j) <= j.
Proof.
  intros H. rewrite <- (Z2Nat.id j) by lia. induction (Z.to_nat j) as [|k IH].
  - cbn. lia.
  - rewrite Nat2Z.inj_succ. unfold Z.succ. rewrite pushed_snoc by lia. rewrite zlen_app.
    destruct (g (Z.of_nat k)); cbn [opt_list]; unfold zlen in *; cbn [length]; lia.
Qed.

Definition push_body (sel : Z -> kres (option Z)) (i : Z) (st : list Z * Z) : kres (list Z * Z) :=
  let* o := sel i in match o with Some v => kpush st v | None => KOk st end.

Lemma kpush_app pre out v :
  zlen pre < zlen out ->
  kpush (pre ++ skipn (length pre) out, zlen pre) v = KOk ((pre ++ [v]) ++ skipn (length (pre ++ [v])) out, zlen (pre ++ [v])).
Proof.
  intros H. unfold kpush. pose proof (zlen_nonneg pre).
  assert (L : zlen (pre ++ skipn (length pre) out) = zlen out).
  { rewrite zlen_app. unfold zlen in *. rewrite skipn_length. lia. }
  rewrite kupd_ok by lia. cbn [kbind]. f_equal. f_equal.
  - unfold zlen at 1. rewrite Nat2Z.id. rewrite set_nth_app_r by lia. rewrite Nat.sub_diag.
    rewrite set_nth_skipn_0 by (unfold zlen in H; lia).
    rewrite <- app_assoc. cbn [app]. rewrite app_length. cbn [length]. rewrite Nat.add_1_r. reflexivity.
  - rewrite zlen_app. reflexivity.
Qed.

Lemma kpushloop_spec sel g n out :
  0 <= n ->
  (forall i, 0 <= i < n -> sel i = KOk (g i)) ->
  zlen (pushed g n) <= zlen out ->
  kfor 0 n (push_body sel) (out, 0)
  = KOk (pushed g n ++ skipn (length (pushed g n)) out, zlen (pushed g n)).
Proof.
  intros H0 Hsel Hcap.
  assert (Mono : forall j, 0 <= j <= n -> zlen (pushed g j) <= zlen (pushed g n)).
  { intros j Hj. replace n with (j + Z.of_nat (Z.to_nat (n - j))) by lia.
    induction (Z.to_nat (n - j)) as [|k IH]; [rewrite Z.add_0_r; lia|].
    rewrite Nat2Z.inj_succ. unfold Z.succ. rewrite Z.add_assoc. rewrite pushed_snoc by lia.
    rewrite zlen_app. pose proof (zlen_nonneg (opt_list (g (j + Z.of_nat k)))). lia. }
  destruct (kfor_inv (push_body sel)
              (fun j st => st = (pushed g j ++ skipn (length (pushed g j)) out, zlen (pushed g j))) 0 n (out, 0))
    as (s' & E & P); auto.
  - intros j st Hj ->. unfold push_body. rewrite (Hsel j Hj). cbn [kbind].
    rewrite pushed_snoc by lia.
    destruct (g j) as [v|] eqn:G; cbn [opt_list].
    + eexists; split; [|reflexivity]. apply kpush_app.
      assert (Q : zlen (pushed g (j + 1)) <= zlen (pushed g n)) by (apply Mono; lia).
      rewrite pushed_snoc in Q by lia. rewrite G in Q. cbn [opt_list] in Q. rewrite zlen_app in Q.
      unfold zlen in *. cbn [length] in Q. lia.
    + rewrite app_nil_r. eauto.
  - now rewrite E, P.
Qed.

Lemma kpushloop_safe sel n out :
  n <= zlen out ->
  (forall i, 0 <= i < n -> sel i <> KOob) ->
  kfor 0 n (push_body sel) (out, 0) <> KOob.
Proof.
  intros Hcap Hsel.
  apply (kfor_noob _ (fun j st => zlen (fst st) = zlen out /\ 0 <= snd st <= j) 0 n (out, 0)).
  - cbn. lia.
  - intros j [o k] Hj (L & K). cbn [fst snd] in *. unfold push_body. specialize (Hsel j Hj).
    destruct (sel j) as [[v|]| |]; cbn [kbind]; try congruence.
    + unfold kpush. rewrite kupd_ok by lia. cbn [kbind]. split; [congruence|].
      intros s' E; inversion E; subst. cbn [fst snd]. rewrite zlen_set_nth. lia.
    + split; [congruence|]. intros s' E; inversion E; subst. cbn [fst snd]. lia.
    + split; congruence.
Qed.

Lemma pushed_filter (p : Z -> bool) n : pushed (fun i => if p i then Some i else None) n = filter p (iota n).
Proof.
  unfold pushed. induction (iota n) as [|x l IH]; cbn [flat_map filter]; auto.
  rewrite IH. destruct (p x); reflexivity.
Qed.

Lemma flat_map_iota_list (h : Z -> list Z) (a : list Z) :
  flat_map (fun i => h (at_ a i)) (iota (zlen a)) = flat_map h a.
Proof.
  rewrite !flat_map_concat_map. f_equal. apply (map_iota_list h).
Qed.

(* ---- awkward_ByteMaskedArray_getitem_nextcarry *)
Lemma ByteMasked_nextcarry_body mask n vw :
  n <= zlen mask ->
  forall j st, 0 <= j < n ->
    (let* m := kget mask j in if Bool.eqb (negb (m =? 0)) vw then kpush st j else KOk st)
    = push_body (fun i => KOk (if Bool.eqb (negb (at_ mask i =? 0)) vw then Some i else None)) j st.
Proof.
  intros H j st Hj. unfold push_body. rewrite (kget_at mask) by lia. cbn [kbind].
  destruct (Bool.eqb _ vw); reflexivity.
Qed.

Theorem ByteMasked_nextcarry_safe tocarry mask n vw :
  n <= zlen mask -> n <= zlen tocarry -> ByteMaskedArray_getitem_nextcarry tocarry mask n vw <> KOob.
Proof.
  intros H1 H2. unfold ByteMaskedArray_getitem_nextcarry.
  rewrite (kfor_ext _ _ 0 n _ (ByteMasked_nextcarry_body mask n vw H1)).
  pose proof (kpushloop_safe (fun i => KOk (if Bool.eqb (negb (at_ mask i =? 0)) vw then Some i else None)) n tocarry H2) as S.
  destruct (kfor 0 n _ (tocarry, 0)); cbn [kbind]; try congruence.
  exfalso. apply S; [intros; congruence|reflexivity].
Qed.

(** the carry is the list of valid positions, in order; the rest of the buffer is untouched *)
Theorem ByteMasked_nextcarry_spec tocarry mask vw :
  let valid := fun i => Bool.eqb (negb (at_ mask i =? 0)) vw in
  zlen (filter valid (iota (zlen mask))) <= zlen tocarry ->
  ByteMaskedArray_getitem_nextcarry tocarry mask (zlen mask) vw
  = KOk (filter valid (iota (zlen mask)) ++ skipn (length (filter valid (iota (zlen mask)))) tocarry).
Proof.
  intros valid Hcap. pose proof (zlen_nonneg mask). unfold ByteMaskedArray_getitem_nextcarry.
  rewrite (kfor_ext _ _ 0 (zlen mask) _ (ByteMasked_nextcarry_body mask (zlen mask) vw (Z.le_refl _))).
  rewrite (kpushloop_spec _ (fun i => if valid i then Some i else None)); auto.
  - cbn [kbind fst]. now rewrite pushed_filter.
  - now rewrite pushed_filter.
Qed.

(* ---- awkward_IndexedArray_flatten_nextcarry *)
Lemma flatten_nextcarry_body index n lc :
  n <= zlen index ->
  forall j st, 0 <= j < n ->
    (let* x := kget index j in
     let* _ := kcheck (lc <=? x) MIndexOutOfRange in
     if 0 <=? x then kpush st x else KOk st)
    = push_body (fun i => if lc <=? at_ index i then KErr MIndexOutOfRange
                          else KOk (if 0 <=? at_ index i then Some (at_ index i) else None)) j st.
Proof.
  intros H j st Hj. unfold push_body. rewrite (kget_at index) by lia. cbn [kbind]. unfold kcheck.
  destruct (lc <=? at_ index j); cbn [kbind]; auto. destruct (0 <=? at_ index j); reflexivity.
Qed.

Theorem IndexedArray_flatten_nextcarry_safe tocarry index n lc :
  n <= zlen index -> n <= zlen tocarry -> IndexedArray_flatten_nextcarry tocarry index n lc <> KOob.
Proof.
  intros H1 H2. unfold IndexedArray_flatten_nextcarry.
  rewrite (kfor_ext _ _ 0 n _ (flatten_nextcarry_body index n lc H1)).
  match goal with |- context [kfor 0 n (push_body ?sel) _] => pose proof (kpushloop_safe sel n tocarry H2) as S end.
  destruct (kfor 0 n _ (tocarry, 0)); cbn [kbind]; try congruence.
  exfalso. apply S; [|reflexivity].
  intros i Hi. destruct (lc <=? at_ index i); congruence.
Qed.

(** for an index within range: the non-negative entries, in order *)
Theorem IndexedArray_flatten_nextcarry_spec tocarry index lc :
  (forall i, 0 <= i < zlen index -> at_ index i < lc) ->
  zlen (filter (fun x => 0 <=? x) index) <= zlen tocarry ->
  IndexedArray_flatten_nextcarry tocarry index (zlen index) lc
  = KOk (filter (fun x => 0 <=? x) index ++ skipn (length (filter (fun x => 0 <=? x) index)) tocarry).
Proof.
  intros Hr Hcap. pose proof (zlen_nonneg index). unfold IndexedArray_flatten_nextcarry.
  rewrite (kfor_ext _ _ 0 (zlen index) _ (flatten_nextcarry_body index (zlen index) lc (Z.le_refl _))).
  assert (PF : pushed (fun i => if 0 <=? at_ index i then Some (at_ index i) else None) (zlen index)
               = filter (fun x => 0 <=? x) index).
  { unfold pushed. rewrite (flat_map_iota_list (fun x => opt_list (if 0 <=? x then Some x else None))).
    clear. induction index as [|x l IH]; cbn [flat_map filter]; auto.
    rewrite IH. destruct (0 <=? x); reflexivity. }
  rewrite (kpushloop_spec _ (fun i => if 0 <=? at_ index i then Some (at_ index i) else None)); auto.
  - cbn [kbind fst]. now rewrite PF.
  - intros i Hi. specialize (Hr i Hi). destruct (lc <=? at_ index i) eqn:E; auto. lia.
  - now rewrite PF.
Qed.

(* ================================================================================================ *)
(** * combinations: the counting loop computes the binomial coefficient *)

Fixpoint binom (n k : nat) : nat :=
  match k, n with
  | O, _ => 1
  | S _, O => 0
  | S k', S n' => binom n' k' + binom n' (S k')
  end.

Lemma binom_0_r n : binom n 0 = 1%nat. Proof. destruct n; reflexivity. Qed.
Lemma binom_S n k : binom (S n) (S k) = (binom n k + binom n (S k))%nat. Proof. reflexivity. Qed.
Lemma binom_gt n : forall k, (n < k)%nat -> binom n k = 0%nat.
Proof.
  induction n; intros [|k] H; try lia; auto.
  rewrite binom_S. rewrite !IHn by lia. reflexivity.
Qed.
Lemma binom_diag n : binom n n = 1%nat.
Proof. induction n; auto. rewrite binom_S, IHn. rewrite binom_gt by lia. reflexivity. Qed.
Lemma binom_1_r n : binom n 1 = n.
Proof. induction n; auto. rewrite binom_S, IHn, binom_0_r. lia. Qed.

(** (k+1) C(n,k+1) + k C(n,k) = n C(n,k) *)
Lemma binom_step n : forall k, (S k * binom n (S k) + k * binom n k = n * binom n k)%nat.
Proof.
  induction n; intros k.
  - destruct k; cbn; lia.
  - destruct k as [|k].
    + rewrite binom_1_r, !binom_0_r. lia.
    + rewrite !binom_S. pose proof (IHn (S k)) as A. pose proof (IHn k) as B. nia.
Qed.

Lemma binom_sym n : forall k, (k <= n)%nat -> binom n k = binom n (n - k).
Proof.
  induction n; intros k H.
  - replace k with O by lia. reflexivity.
  - destruct k as [|k].
    + rewrite Nat.sub_0_r, binom_0_r, binom_diag. reflexivity.
    + destruct (Nat.eq_dec k n) as [->|N].
      * rewrite binom_diag, Nat.sub_diag. reflexivity.
      * replace (S n - S k)%nat with (S (n - S k)) by lia.
        rewrite !binom_S. rewrite (IHn k) by lia. rewrite (IHn (S k)) by lia.
        replace (n - k)%nat with (S (n - S k)) by lia. lia.
Qed.

(** one pass of the C loop:  combinationslen *= (size - j + 1); combinationslen /= j; *)
Lemma comb_fold size m :
  (m < size)%nat ->
  fold_left (fun (acc : Z * Z) (_ : Z) => let '(c, j) := acc in (c * (Z.of_nat size - j + 1) / j, j + 1))
            (iota (Z.of_nat m)) (Z.of_nat size, 2)
  = (Z.of_nat (binom size (S m)), Z.of_nat m + 2).
Proof.
  induction m; intros H.
  - cbn. rewrite binom_1_r. reflexivity.
  - rewrite Nat2Z.inj_succ. unfold Z.succ. rewrite iota_snoc by lia. rewrite fold_left_app. rewrite IHm by lia.
    cbn [fold_left]. f_equal; [|lia].
    pose proof (binom_step size (S m)) as A.
    assert (E : Z.of_nat (binom size (S m)) * (Z.of_nat size - (Z.of_nat m + 2) + 1)
                = Z.of_nat (binom size (S (S m))) * (Z.of_nat m + 2)) by nia.
    rewrite E. apply Z.div_mul. lia.
Qed.

(** k_spec of the counting loop: for n >= 1 it is the binomial coefficient C(size, n) *)
Theorem combinations_count_binom n size :
  1 <= n -> 0 <= size -> combinations_count n size = Z.of_nat (binom (Z.to_nat size) (Z.to_nat n)).
Proof.
  intros Hn Hs. unfold combinations_count.
  destruct (size <? n) eqn:E1.
  - rewrite binom_gt by lia. reflexivity.
  - destruct (n =? size) eqn:E2.
    + replace (Z.to_nat size) with (Z.to_nat n) by lia. now rewrite binom_diag.
    + set (thisn := if size <? n * 2 then size - n else n).
      assert (T : 1 <= thisn < size) by (unfold thisn; destruct (size <? n * 2) eqn:E3; lia).
      assert (B : binom (Z.to_nat size) (Z.to_nat thisn) = binom (Z.to_nat size) (Z.to_nat n)).
      { unfold thisn. destruct (size <? n * 2); auto.
        rewrite (binom_sym (Z.to_nat size) (Z.to_nat n)) by lia. f_equal. lia. }
      rewrite <- B.
      pose proof (comb_fold (Z.to_nat size) (Z.to_nat (thisn - 1))) as F.
      rewrite !Z2Nat.id in F by lia.
      rewrite F by lia. cbn [fst]. do 2 f_equal. lia.
Qed.

Example combinations_count_5_2 : combinations_count 2 5 = 10. Proof. reflexivity. Qed.
