(** The repository's REAL type-string parser: [ak.types.from_datashape] = the Lark grammar
    src/awkward/_typeparser/type-grammar.lark (stand-alone LALR(1) parser with Lark's contextual lexer,
    generated_parser.py) + the tree walker [toast] of src/awkward/_typeparser/parser.py.
    A hand-written fuelled recursive-descent parser accepting what grammar + lexer accept and building what
    [TreeToJson] + [toast] build.  MODEL ONLY: no proofs in this file.

    Conventions
    - every exception of the Python code (UnexpectedToken, UnexpectedCharacters, AssertionError of the
      high-level-only productions, ValueError of int("1e30") / of RecordType(keys of another length), the
      invalid_argument of PrimitiveType("int128"), the TypeError of RegularType(T, 3.5)) is [Err EValue];
      [Err EFuel] is the model's own out-of-fuel outcome (never reached: the fuel is the length of the text).
    - high_level=True turns every regular_inparm node (N * T) into an ArrayType, which is not an [rty]:
      [lark_parse_full] returns the tree in which each ArrayType node is written as a parameterless RReg (it prints
      the same) together with a flag "an ArrayType occurs"; [lark_parse] turns the flag into the distinct
      outcome [Err EOob].
    - WS (/[ \t\f\r\n]+/) is ignored between tokens: every token reader skips it first.
    - lexing: Lark tries the terminals acceptable in the current parser state in priority order with a FIRST-match
      regular expression, so a keyword is recognised as a PREFIX ("variable" = "var" "iable", "int64x" = "int64" "x",
      "bytestring" = "bytes" "tring"); UNQUOTED_STRING.-1 = /[a-zA-Z]+/ is tried last.  No keyword acceptable at the
      start of a type is a prefix of another one except byte/bytes (the longer is tried first).
    - a JSON string is the raw text between the quotes (s[1:-1]): escapes are validated, not decoded.
    - a JSON number containing "." is a float (carried as its TEXT: Python would print repr(float(text)), so a
      non-canonical spelling such as 1.50 or 1.5e3 re-prints differently there); otherwise int(text), which raises
      on an exponent.
    - the string terminal has a second alternative (a token starting with backslash-apostrophe, e.g. the two
      characters backslash-apostrophe alone, whose value [1:-1] is the empty string): modelled, see [lk_sq_scan]. *)
From Coq Require Import ZArith List Bool String.
From AwkV Require Import Base Layout.
From AwkTypes Require Import Json Forms TypeStr.
Import ListNotations.
Open Scope Z_scope.

(* ------------------------------------------------------------------ lexing *)
Definition is_ws (c : Z) : bool := (c =? 32) || (c =? 9) || (c =? 10) || (c =? 13) || (c =? 12).
Fixpoint skip_ws (s : bytes) : bytes :=
  match s with
  | c :: r => if is_ws c then skip_ws r else s
  | [] => []
  end.
Definition is_letter (c : Z) : bool := ((97 <=? c) && (c <=? 122)) || ((65 <=? c) && (c <=? 90)).
Definition is_hex (c : Z) : bool :=
  is_digit c || ((97 <=? c) && (c <=? 102)) || ((65 <=? c) && (c <=? 70)).

(* an anonymous / keyword token: WS skipped, then the literal text *)
Definition expect (p : bytes) (s : bytes) : res bytes :=
  match strip_prefix p (skip_ws s) with Some r => Ok r | None => Err EValue end.

Definition w_parameters := Eval vm_compute in bs "parameters".
Definition w_type := Eval vm_compute in bs "type".
Definition w_tuple := Eval vm_compute in bs "tuple".
Definition w_struct := Eval vm_compute in bs "struct".
Definition w_categorical := Eval vm_compute in bs "categorical".
Definition w_true := Eval vm_compute in bs "true".
Definition w_false := Eval vm_compute in bs "false".
Definition w_null := Eval vm_compute in bs "null".
Definition w_int128 := Eval vm_compute in bs "int128".
Definition w_uint128 := Eval vm_compute in bs "uint128".

(* string: /"(?:[^"\n\r\\]|\\u[0-9a-fA-F]{4}|\\["bfnrt])*"/ ; the value is the raw text between the quotes *)
Fixpoint lk_string_body (fuel : nat) (s : bytes) : res (bytes * bytes) :=
  match fuel with
  | O => Err EFuel
  | S fuel' =>
      match s with
      | [] => Err EValue
      | c :: r =>
          if c =? 34 then Ok ([], r)
          else if c =? 92 then
            match r with
            | [] => Err EValue
            | e :: r1 =>
                if (e =? 34) || (e =? 98) || (e =? 102) || (e =? 110) || (e =? 114) || (e =? 116) then
                  do xr <- lk_string_body fuel' r1; Ok (92 :: e :: fst xr, snd xr)
                else if e =? 117 then
                  match r1 with
                  | h1 :: h2 :: h3 :: h4 :: r2 =>
                      if is_hex h1 && is_hex h2 && is_hex h3 && is_hex h4 then
                        do xr <- lk_string_body fuel' r2; Ok (92 :: 117 :: h1 :: h2 :: h3 :: h4 :: fst xr, snd xr)
                      else Err EValue
                  | _ => Err EValue
                  end
                else Err EValue
            end
          else if (c =? 10) || (c =? 13) then Err EValue
          else do xr <- lk_string_body fuel' r; Ok (c :: fst xr, snd xr)
      end
  end.
(* the second alternative of the string terminal (see type-grammar.lark):
   backslash-apostrophe, then groups (backslash-apostrophe items* double-quote), then backslash-apostrophe.  An item is
   a character other than backslash, apostrophe, CR, LF (a double quote is one), \uXXXX or backslash + one of 'bfnrt
   (backslash-apostrophe is one).  With Python's backtracking the token found is: the opening backslash-apostrophe,
   then the maximal run of items cut after the LAST place where the item double-quote is followed by the item
   backslash-apostrophe (nothing more when there is no such place).  [lk_sq_scan] walks the run; [acc] is the run so
   far (reversed), [best] the cut found so far. *)
Fixpoint lk_sq_scan (fuel : nat) (s acc : bytes) (prevdq : bool) (best : bytes * bytes) : res (bytes * bytes) :=
  match fuel with
  | O => Err EFuel
  | S fuel' =>
      match s with
      | [] => Ok best
      | c :: r =>
          if c =? 92 then
            match r with
            | [] => Ok best
            | e :: r1 =>
                if e =? 39 then
                  lk_sq_scan fuel' r1 (39 :: 92 :: acc) false (if prevdq then (39 :: 92 :: acc, r1) else best)
                else if (e =? 98) || (e =? 102) || (e =? 110) || (e =? 114) || (e =? 116) then
                  lk_sq_scan fuel' r1 (e :: 92 :: acc) false best
                else if e =? 117 then
                  match r1 with
                  | h1 :: h2 :: h3 :: h4 :: r2 =>
                      if is_hex h1 && is_hex h2 && is_hex h3 && is_hex h4
                      then lk_sq_scan fuel' r2 (h4 :: h3 :: h2 :: h1 :: 117 :: 92 :: acc) false best
                      else Ok best
                  | _ => Ok best
                  end
                else Ok best
            end
          else if (c =? 39) || (c =? 10) || (c =? 13) then Ok best
          else lk_sq_scan fuel' r (c :: acc) (c =? 34) best
      end
  end.
(* the value is token[1:-1]: the token is backslash, apostrophe, body *)
Definition lk_sq_string (r : bytes) : res (bytes * bytes) :=
  do br <- lk_sq_scan (S (length r)) r [] false ([], r);
  match rev (fst br) with
  | [] => Ok ([], snd br)
  | body => Ok (39 :: removelast body, snd br)
  end.

Definition lk_string (s0 : bytes) : res (bytes * bytes) :=
  match skip_ws s0 with
  | c :: r =>
      if c =? 34 then lk_string_body (S (length r)) r
      else if c =? 92 then
        match r with
        | e :: r1 => if e =? 39 then lk_sq_string r1 else Err EValue
        | [] => Err EValue
        end
      else Err EValue
  | [] => Err EValue
  end.

(* number: SIGNED_NUMBER = ["+"|"-"] (INT EXP | (INT "." INT? | "." INT) EXP? | INT); TreeToJson.number:
   "." in the text -> float(text), else int(text) *)
Definition lk_exp (s : bytes) : bytes * bytes :=
  match s with
  | c :: r =>
      if (c =? 101) || (c =? 69) then
        let (sg, r1) := match r with
                        | x :: r' => if (x =? 43) || (x =? 45) then ([x], r') else ([], r)
                        | [] => ([], r)
                        end in
        let (ds, r2) := span is_digit r1 in
        match ds with [] => ([], s) | _ => (c :: sg ++ ds, r2) end
      else ([], s)
  | [] => ([], s)
  end.
Definition is_numstart (c : Z) : bool := is_digit c || (c =? 43) || (c =? 45) || (c =? 46).
Definition lk_number (s0 : bytes) : res (json * bytes) :=
  let s := skip_ws s0 in
  let '(neg, sg, s1) := match s with
                        | c :: r => if c =? 43 then (false, [c], r) else if c =? 45 then (true, [c], r)
                                    else (false, [], s)
                        | [] => (false, [], s)
                        end in
  let (d1, s2) := span is_digit s1 in
  let dotted := match s2 with c :: _ => c =? 46 | [] => false end in
  if dotted then
    let (d2, s4) := span is_digit (tl s2) in
    match d1, d2 with
    | [], [] => Err EValue
    | _, _ => let (ex, s5) := lk_exp s4 in Ok (JDbl (sg ++ d1 ++ 46 :: d2 ++ ex), s5)
    end
  else
    match d1 with
    | [] => Err EValue
    | _ => let (ex, s5) := lk_exp s2 in
           match ex with
           | [] => Ok (JInt (if neg then - Z_of_digits d1 else Z_of_digits d1), s5)
           | _ => Err EValue                      (* int("1e30"): ValueError *)
           end
    end.

(* ------------------------------------------------------------------ JSON (TreeToJson) *)
(* dict(pairs): a repeated key keeps its first position and takes the last value *)
Fixpoint jobj_set (k : bytes) (v : json) (m : list (bytes * json)) : list (bytes * json) :=
  match m with
  | [] => [(k, v)]
  | (k', v') :: r => if bytes_eqb k' k then (k, v) :: r else (k', v') :: jobj_set k v r
  end.
Definition jobj_of_pairs (l : list (bytes * json)) : list (bytes * json) :=
  fold_left (fun acc kv => jobj_set (fst kv) (snd kv) acc) l [].
(* the parameters of a Type: std::map, sorted by key, the last value of a repeated key *)
Definition params_of_pairs (l : list (bytes * json)) : params :=
  fold_left (fun acc kv => pset (fst kv) (snd kv) acc) l [].

Section JsonParse.
  Variable subj : bytes -> res (json * bytes).
  (* json ("," json)* "]" *)
  Fixpoint lk_jlist (fuel : nat) (s : bytes) : res (list json * bytes) :=
    match fuel with
    | O => Err EFuel
    | S fuel' =>
        do vr <- subj s;
        match skip_ws (snd vr) with
        | c :: r =>
            if c =? 93 then Ok ([fst vr], r)
            else if c =? 44 then do lr <- lk_jlist fuel' r; Ok (fst vr :: fst lr, snd lr)
            else Err EValue
        | [] => Err EValue
        end
    end.
  (* pair ("," pair)* "}" ; pair: string ":" json *)
  Fixpoint lk_jpairs (fuel : nat) (s : bytes) : res (list (bytes * json) * bytes) :=
    match fuel with
    | O => Err EFuel
    | S fuel' =>
        do kr <- lk_string s;
        do r1 <- expect [58] (snd kr);
        do vr <- subj r1;
        match skip_ws (snd vr) with
        | c :: r =>
            if c =? 125 then Ok ([(fst kr, fst vr)], r)
            else if c =? 44 then do lr <- lk_jpairs fuel' r; Ok ((fst kr, fst vr) :: fst lr, snd lr)
            else Err EValue
        | [] => Err EValue
        end
    end.
  (* dict_obj: "{" [pair ("," pair)*] "}" -> the pairs, in text order *)
  Definition lk_dict (fuel : nat) (s : bytes) : res (list (bytes * json) * bytes) :=
    do r0 <- expect [123] s;
    match skip_ws r0 with
    | c :: r => if c =? 125 then Ok ([], r) else lk_jpairs fuel r0
    | [] => Err EValue
    end.
End JsonParse.

(* ?json: dict_obj | list_obj | string | number | "true" | "false" | "null" *)
Fixpoint lk_json (fuel : nat) (s0 : bytes) {struct fuel} : res (json * bytes) :=
  match fuel with
  | O => Err EFuel
  | S fuel' =>
      let s := skip_ws s0 in
      match s with
      | [] => Err EValue
      | c :: r =>
          if c =? 123 then do mr <- lk_dict (lk_json fuel') fuel' s; Ok (JObj (jobj_of_pairs (fst mr)), snd mr)
          else if c =? 91 then
            match skip_ws r with
            | c' :: r' => if c' =? 93 then Ok (JArr [], r')
                          else do lr <- lk_jlist (lk_json fuel') fuel' r; Ok (JArr (fst lr), snd lr)
            | [] => Err EValue
            end
          else if (c =? 34) || (c =? 92) then do xr <- lk_string s; Ok (JStr (fst xr), snd xr)
          else if is_numstart c then lk_number s
          else match strip_prefix w_true s with
               | Some r1 => Ok (JBool true, r1)
               | None =>
                   match strip_prefix w_false s with
                   | Some r1 => Ok (JBool false, r1)
                   | None => match strip_prefix w_null s with Some r1 => Ok (JNull, r1) | None => Err EValue end
                   end
               end
      end
  end.

(* def_option: "parameters" "=" dict_obj   (the Python dict, as the sorted parameter map) *)
Definition lk_def_option (s : bytes) : res (params * bytes) :=
  do r1 <- expect w_parameters s;
  do r2 <- expect [61] r1;
  do mr <- lk_dict (lk_json (length r2)) (length r2) r2;
  Ok (params_of_pairs (fst mr), snd mr).
(* options: "[" def_option "]" *)
Definition lk_options (s : bytes) : res (params * bytes) :=
  do r1 <- expect [91] s;
  do pr <- lk_def_option r1;
  do r2 <- expect [93] (snd pr);
  Ok (fst pr, r2).
(* [options] : present iff the next token is "[" (nothing else can follow a type with "[") *)
Definition lk_opt_options (s : bytes) : res (params * bytes) :=
  match skip_ws s with
  | c :: _ => if c =? 91 then lk_options s else Ok ([], s)
  | [] => Ok ([], s)
  end.
(* "," def_option "]" *)
Definition lk_tail_option (s : bytes) : res (params * bytes) :=
  do r1 <- expect [44] s;
  do pr <- lk_def_option r1;
  do r2 <- expect [93] (snd pr);
  Ok (fst pr, r2).

(* toast: if categorical: parms.update({"__categorical__": True}) *)
Definition with_cat (cat : bool) (p : params) : params :=
  if cat then pset k_categorical (JBool true) p else p.

(* ------------------------------------------------------------------ keywords acceptable where a type starts *)
Inductive kw :=
| KVar | KOption | KUnion | KTuple | KStruct | KUnknown | KCategorical
| KPrim (dt : option fdtype)      (* TYPE; None: int128 / uint128, names PrimitiveType rejects *)
| KHard (t : rty).                (* HARDCODED *)

Definition kw_table : list (bytes * kw) :=
  [(w_var, KVar); (w_option, KOption); (w_union, KUnion); (w_tuple, KTuple); (w_struct, KStruct);
   (n_unknown, KUnknown); (w_categorical, KCategorical);
   (n_int8, KPrim (Some (FD DInt8))); (n_int16, KPrim (Some (FD DInt16))); (n_int32, KPrim (Some (FD DInt32)));
   (n_int64, KPrim (Some (FD DInt64))); (w_int128, KPrim None);
   (n_uint8, KPrim (Some (FD DUInt8))); (n_uint16, KPrim (Some (FD DUInt16))); (n_uint32, KPrim (Some (FD DUInt32)));
   (n_uint64, KPrim (Some (FD DUInt64))); (w_uint128, KPrim None);
   (n_float32, KPrim (Some (FD DFloat32))); (n_float64, KPrim (Some (FD DFloat64))); (n_bool, KPrim (Some (FD DBool)));
   (p_string, KHard t_string); (p_char, KHard t_char); (p_bytes, KHard t_bytes); (p_byte, KHard t_byte)].

Fixpoint lex_kw (tbl : list (bytes * kw)) (s : bytes) : option (kw * bytes) :=
  match tbl with
  | [] => None
  | (k, v) :: tbl' => match strip_prefix k s with Some r => Some (v, r) | None => lex_kw tbl' s end
  end.

(* the categorical flag goes onto the top node of a HARDCODED type (its child keeps its plain parameters) *)
Definition hard_with_cat (cat : bool) (t : rty) : rty := rty_set_params (with_cat cat (rty_params t)) t.

(* ------------------------------------------------------------------ the grammar *)
(* a parsed type, "an ArrayType occurs in it", the remaining text *)
Definition pres := (rty * bool * bytes)%type.

Section Parse.
  Variable hl : bool.
  Variable sub : bool -> bytes -> res pres.           (* input, with toast's [categorical] argument *)

  (* input ("," input)* close *)
  Fixpoint lk_list (fuel : nat) (close : Z) (s : bytes) : res (list rty * bool * bytes) :=
    match fuel with
    | O => Err EFuel
    | S fuel' =>
        do tr <- sub false s;
        match skip_ws (snd tr) with
        | c :: r =>
            if c =? close then Ok ([fst (fst tr)], snd (fst tr), r)
            else if c =? 44 then
              do lr <- lk_list fuel' close r; Ok (fst (fst tr) :: fst (fst lr), snd (fst tr) || snd (fst lr), snd lr)
            else Err EValue
        | [] => Err EValue
        end
    end.

  (* input ("," input)* ["," def_option] "]"   (union_single / union_parm; after "," the keyword "parameters" is
     acceptable too and wins over UNQUOTED_STRING) *)
  Fixpoint lk_ulist (fuel : nat) (s : bytes) : res (list rty * option params * bool * bytes) :=
    match fuel with
    | O => Err EFuel
    | S fuel' =>
        do tr <- sub false s;
        match skip_ws (snd tr) with
        | c :: r =>
            if c =? 93 then Ok ([fst (fst tr)], None, snd (fst tr), r)
            else if c =? 44 then
              match strip_prefix w_parameters (skip_ws r) with
              | Some _ =>
                  do pr <- lk_def_option r;
                  do r2 <- expect [93] (snd pr);
                  Ok ([fst (fst tr)], Some (fst pr), snd (fst tr), r2)
              | None =>
                  do lr <- lk_ulist fuel' r;
                  let '(l, po, a, r2) := lr in
                  Ok (fst (fst tr) :: l, po, snd (fst tr) || a, r2)
              end
            else Err EValue
        | [] => Err EValue
        end
    end.

  (* string ":" input ("," string ":" input)* close *)
  Fixpoint lk_fields (fuel : nat) (close : Z) (s : bytes) : res (list (bytes * rty) * bool * bytes) :=
    match fuel with
    | O => Err EFuel
    | S fuel' =>
        do kr <- lk_string s;
        do r1 <- expect [58] (snd kr);
        do tr <- sub false r1;
        match skip_ws (snd tr) with
        | c :: r =>
            if c =? close then Ok ([(fst kr, fst (fst tr))], snd (fst tr), r)
            else if c =? 44 then
              do lr <- lk_fields fuel' close r;
              Ok ((fst kr, fst (fst tr)) :: fst (fst lr), snd (fst tr) || snd (fst lr), snd lr)
            else Err EValue
        | [] => Err EValue
        end
    end.

  (* string ("," string)* "]" *)
  Fixpoint lk_strings (fuel : nat) (s : bytes) : res (list bytes * bytes) :=
    match fuel with
    | O => Err EFuel
    | S fuel' =>
        do kr <- lk_string s;
        match skip_ws (snd kr) with
        | c :: r =>
            if c =? 93 then Ok ([fst kr], r)
            else if c =? 44 then do lr <- lk_strings fuel' r; Ok (fst kr :: fst lr, snd lr)
            else Err EValue
        | [] => Err EValue
        end
    end.

  (* option_single: "?" input [options]   -- toast ignores the options (parms = {}) *)
  Definition lk_question (cat : bool) (r : bytes) : res pres :=
    do tr <- sub false r;
    do pr <- lk_opt_options (snd tr);
    Ok (ROpt (with_cat cat []) [] (fst (fst tr)), snd (fst tr), snd pr).

  (* record_tuple: "(" input ["," input]* ")"   -- the children are walked after [categorical] has been reset *)
  Definition lk_paren (fuel : nat) (cat : bool) (r : bytes) : res pres :=
    do lr <- lk_list fuel 41 r;
    Ok (RRec (with_cat cat []) [] None (fst (fst lr)), snd (fst lr), snd lr).

  (* record_dict: "{" string ":" input ["," string ":" input]* "}" *)
  Definition lk_brace (fuel : nat) (cat : bool) (r : bytes) : res pres :=
    do fr <- lk_fields fuel 125 r;
    Ok (RRec (with_cat cat []) [] (Some (map fst (fst (fst fr)))) (map snd (fst (fst fr))), snd (fst fr), snd fr).

  (* list_parm: "[" "var" "*" input "," def_option "]"
     regular_outparm: "[" number "*" input "," def_option "]" *)
  Definition lk_bracket (cat : bool) (r : bytes) : res pres :=
    match strip_prefix w_var (skip_ws r) with
    | Some r1 =>
        do r2 <- expect [42] r1;
        do tr <- sub false r2;
        do pr <- lk_tail_option (snd tr);
        Ok (RList (with_cat cat (fst pr)) [] (fst (fst tr)), snd (fst tr), snd pr)
    | None =>
        do nr <- lk_number r;
        do r2 <- expect [42] (snd nr);
        do tr <- sub false r2;
        do pr <- lk_tail_option (snd tr);
        match fst nr with
        | JInt n => Ok (RReg (with_cat cat (fst pr)) [] n (fst (fst tr)), snd (fst tr), snd pr)
        | _ => Err EValue                       (* RegularType(T, 3.5): the size is an int64_t *)
        end
    end.

  (* regular_inparm: number "*" input   -- [categorical] goes down unchanged; ArrayType when high_level *)
  Definition lk_regular (cat : bool) (s : bytes) : res pres :=
    do nr <- lk_number s;
    do r2 <- expect [42] (snd nr);
    do tr <- sub cat r2;
    match fst nr with
    | JInt n => Ok (RReg [] [] n (fst (fst tr)), hl || snd (fst tr), snd tr)
    | _ => Err EValue
    end.

  (* record_highlevel: UNQUOTED_STRING "[" string ":" input ["," string ":" input]* "]" *)
  Definition lk_named (fuel : nat) (cat : bool) (s : bytes) : res pres :=
    let (w, r) := span is_letter s in
    do r1 <- expect [91] r;
    do fr <- lk_fields fuel 93 r1;
    if hl then
      Ok (RRec (with_cat cat [(k_record, JStr w)]) [] (Some (map fst (fst (fst fr)))) (map snd (fst (fst fr))),
          snd (fst fr), snd fr)
    else Err EValue.                            (* assert high_level *)

  Definition lk_keyword (fuel : nat) (cat : bool) (k : kw) (r : bytes) : res pres :=
    match k with
    | KVar =>                                   (* list_single: "var" "*" input *)
        do r1 <- expect [42] r;
        do tr <- sub false r1;
        Ok (RList (with_cat cat []) [] (fst (fst tr)), snd (fst tr), snd tr)
    | KOption =>                                (* option_parm: "option" "[" input "," def_option "]"
                                                   option_highlevel: "option" "[" input "]" *)
        do r1 <- expect [91] r;
        do tr <- sub false r1;
        match skip_ws (snd tr) with
        | c :: r2 =>
            if c =? 93 then
              (if hl then Ok (ROpt (with_cat cat []) [] (fst (fst tr)), snd (fst tr), r2) else Err EValue)
            else
              do pr <- lk_tail_option (snd tr);
              Ok (ROpt (with_cat cat (fst pr)) [] (fst (fst tr)), snd (fst tr), snd pr)
        | [] => Err EValue
        end
    | KUnion =>                                 (* union_single / union_parm *)
        do r1 <- expect [91] r;
        do lr <- lk_ulist fuel r1;
        let '(l, po, a, r2) := lr in
        Ok (RUnion (with_cat cat (match po with Some p => p | None => [] end)) [] l, a, r2)
    | KTuple =>                                 (* record_tuple_param: "tuple" "[" "[" input ["," input]* "]" "," def_option "]" *)
        do r1 <- expect [91] r;
        do r2 <- expect [91] r1;
        do lr <- lk_list fuel 93 r2;
        do pr <- lk_tail_option (snd lr);
        Ok (RRec (with_cat cat (fst pr)) [] None (fst (fst lr)), snd (fst lr), snd pr)
    | KStruct =>                                (* record_struct: "struct" "[" "[" string ["," string]* "]" ","
                                                   "[" input ["," input]* "]" "," def_option "]" *)
        do r1 <- expect [91] r;
        do r2 <- expect [91] r1;
        do kr <- lk_strings fuel r2;
        do r3 <- expect [44] (snd kr);
        do r4 <- expect [91] r3;
        do lr <- lk_list fuel 93 r4;
        do pr <- lk_tail_option (snd lr);
        if Nat.eqb (length (fst kr)) (length (fst (fst lr))) then
          Ok (RRec (with_cat cat (fst pr)) [] (Some (fst kr)) (fst (fst lr)), snd (fst lr), snd pr)
        else Err EValue                         (* RecordType: keys and types of different lengths *)
    | KUnknown =>                               (* unknown: "unknown" [options] *)
        do pr <- lk_opt_options r;
        Ok (RUnk (with_cat cat (fst pr)) [], false, snd pr)
    | KCategorical =>                           (* categories: "categorical" "[" "type" "=" input "]" *)
        do r1 <- expect [91] r;
        do r2 <- expect w_type r1;
        do r3 <- expect [61] r2;
        do tr <- sub true r3;
        do r4 <- expect [93] (snd tr);
        if hl then Ok (fst tr, r4) else Err EValue
    | KPrim dt =>                               (* primitive: TYPE [options] *)
        do pr <- lk_opt_options r;
        match dt with
        | Some d => Ok (RNum (with_cat cat (fst pr)) [] d, false, snd pr)
        | None => Err EValue                    (* PrimitiveType("int128"): unrecognized primitive type *)
        end
    | KHard t =>                                (* predefined_typestr: HARDCODED *)
        Ok (hard_with_cat cat t, false, r)
    end.

  (* input *)
  Definition lk_input (fuel : nat) (cat : bool) (s0 : bytes) : res pres :=
    let s := skip_ws s0 in
    match s with
    | [] => Err EValue
    | c :: r =>
        if c =? 63 then lk_question cat r
        else if c =? 40 then lk_paren fuel cat r
        else if c =? 123 then lk_brace fuel cat r
        else if c =? 91 then lk_bracket cat r
        else if is_numstart c then lk_regular cat s
        else if is_letter c then
          match lex_kw kw_table s with
          | Some (k, r1) => lk_keyword fuel cat k r1
          | None => lk_named fuel cat s
          end
        else Err EValue
    end.
End Parse.

Fixpoint lk_ty (hl : bool) (fuel : nat) (cat : bool) (s : bytes) {struct fuel} : res pres :=
  match fuel with
  | O => Err EFuel
  | S fuel' => lk_input hl (lk_ty hl fuel') fuel' cat s
  end.

(* from_datashape(s, high_level): the type (ArrayType nodes written as parameterless RReg) and whether an
   ArrayType occurs *)
Definition lark_parse_full (high_level : bool) (s : bytes) : res (rty * bool) :=
  do tr <- lk_ty high_level (S (length s)) false s;
  match skip_ws (snd tr) with [] => Ok (fst tr) | _ => Err EValue end.

(* Ok t: a Type without ArrayType; Err EOob: parsed, but the result contains an ArrayType;
   Err EValue: an exception; Err EFuel: never *)
Definition lark_parse (high_level : bool) (s : bytes) : res rty :=
  do ta <- lark_parse_full high_level s;
  if snd ta then Err EOob else Ok (fst ta).

(* ------------------------------------------------------------------ the fragment [lark_parse hl] inverts (proved in
   Proofs_C17b_Lark.v): no parameters and no typestrs except the four hardcoded types and, in high-level mode, a
   record name; the primitives of the TYPE terminal; non-empty unions / tuples / records; keys without characters
   that rj::Writer escapes (and without raw control characters); N * T only in low-level mode (ArrayType otherwise),
   option[var * T] and Name["k": T] only in high-level mode (toast asserts high_level) *)
Definition lkey_ok (k : bytes) : bool :=
  forallb (fun c => (32 <=? c) && (c <=? 255) && negb (c =? 34) && negb (c =? 92)) k.

(* a record name Lark reads as UNQUOTED_STRING: letters only, and no keyword of the lexer is a prefix of it (nor it a
   prefix of a keyword: a simplification, "in" would in fact be accepted); "parameters" counts as a keyword because it
   is one where a union member starts *)
Definition lname_ok (w : bytes) : bool :=
  match w with [] => false | _ => true end && forallb is_letter w &&
  negb (existsb (bytes_eqb w) reserved_words) &&
  forallb (fun k => negb (is_prefix k w) && negb (is_prefix w k)) (w_parameters :: map fst kw_table).

Definition nonempty {A} (l : list A) : bool := match l with [] => false | _ => true end.

Fixpoint lark_ok (hl : bool) (t : rty) {struct t} : bool :=
  hardcoded t ||
  match t with
  | RNum [] [] (FD _) => true
  | RUnk [] [] => true
  | RList [] [] t' => lark_ok hl t'
  | RReg [] [] n t' => negb hl && (0 <=? n) && lark_ok hl t'
  | ROpt [] [] t' => (hl || negb (is_listlike t')) && lark_ok hl t'
  | RUnion [] [] l => nonempty l && forallb (lark_ok hl) l
  | RRec [] [] None l => nonempty l && forallb (lark_ok hl) l
  | RRec [] [] (Some ks) l =>
      nonempty l && Nat.eqb (length ks) (length l) && forallb lkey_ok ks && forallb (lark_ok hl) l
  | RRec [(k, JStr w)] [] (Some ks) l =>
      hl && bytes_eqb k k_record && lname_ok w &&
      nonempty l && Nat.eqb (length ks) (length l) && forallb lkey_ok ks && forallb (lark_ok hl) l
  | _ => false
  end.
