"""C01: slicing selects exactly the elements Python/NumPy indexing would select."""
import re
import common as C
import gen as G

THEOREMS = ['range_loop_is_python_slice', 'range_is_progression', 'range_never_out_of_bounds',
            'range_bounds_are_clamped', 'full_range_selects_everything', 'integer_index_wraps',
            'out_of_range_is_error', 'carry_selects_indexed_elements', 'range_slice_is_list_slice',
            'getitem_refines_spec_partial', 'getitem_never_out_of_fuel', 'getitem_fuel_independent',
            'getitem_fuel_enough_without_ellipsis', 'getitem_fuel_enough_shallow', 'getitem_refines_spec_norecords',
            'field_projection_refines', 'fields_projection_refines', 'field_commutes_with_positional',
            'getitem_array_alone',
            # n-d integer arrays, index arrays with missing values, jagged indexes (Ops_GetitemAdv.v)
            'missing_index_none_exactly', 'missing_index_is_integer_selection', 'missing_index_out_of_range_errors', 'jagged_level_by_level', 'jagged_lengths', 'jagged_members', 'jagged_out_of_range_errors', 'jagged_length_mismatch_errors', 'nd_array_is_flat_then_reshape', 'nd_array_alone', 'nd_array_shape', 'nd_array_out_of_range_errors', 'boolean_array_is_nonzero', 'mask_is_true_positions']
RULE = ('value-first random layouts x slice tuples of length 0-4 over {integer, range (bounds in [-len-2, len+2] or None, '
        'steps +-1..3), ellipsis, newaxis, 1-d integer arrays (boolean arrays as nonzero), field, fields}, incl. '
        'out-of-range indexes; non-trivial = slice has >= 1 dimension-consuming item and the input has >= 1 non-empty '
        'list; distinct by case text; ~15% of the cases: 0-2 leading ranges + one array-like item (n-d integer array, rectilinear '
        'boolean array, 1-d index with missing values, jagged integer/boolean index of depth 2-4 with None at any level, built to '
        'match the value of the array, ~6% out-of-range entries, ~5% length mismatches, empty lists, random encodings of the index) '
        '+ 0-2 trailing items')
ASSUMPTIONS = ['array-like index items (Ops_GetitemAdv.v, value-level specification only, no layout-level model): an n-d integer array, a '
               'rectilinear boolean array, a 1-d integer/boolean index with missing values, a jagged integer/boolean index (None at any level) - '
               'one such item per slice, preceded by ranges only, followed by any of the items the basic specification covers except a further '
               'integer array; unspecified (skipped): the item reaching a string or a record, a boolean mask whose length differs from the '
               'list it filters (the library only sees the true positions), integers after a non-integer item behind an n-d/boolean array '
               '(documented refusal), and the undocumented refusals listed in the header of Ops_GetitemAdv.v (missing-value index followed by an '
               'integer or applied below ranges to option-type lists, option-type jagged index below ranges, jagged index of depth >= 3 below '
               'ranges selecting several lists or with an outermost None facing a non-empty list, index lists facing a missing list, no list '
               'selected below the ranges)',
               'an awkward array used as an index is converted by the library\'s own Content::asslice() (driver item (lay LAYOUT)); a '
               'rectilinear boolean array is converted to numpy.nonzero positions by the driver (item barr) as toslice_part() does; the rest of '
               'toslice() (src/python/content.cpp: Python objects -> Slice) cannot be built here',
               'on record-containing types integers are not combined with index arrays (both are advanced indexes that merge into one '
               'dimension; whether the records end up inside or outside the merged dimension is not specified)',
               'types containing unions are skipped; positional slicing below a record followed by further items is compared '
               'without a specification (verdict nomodel)']


def rand_items(rng, t, vals):
    """a slice tuple; dimension-consuming items never exceed the minimum depth (so 'too many indices' on an empty
    selection, where the library is lenient, is not generated), and integer arrays are adjacent (NumPy moves
    separated advanced dimensions to the front; the library documents that it refuses/does not support this)"""
    mn, mx = G.list_depth(t)
    hasrec = G.has_kind(t, 'rec')   # ellipsis/newaxis are pushed into the fields of records: not specified
    n = rng.choice([0, 1, 1, 2, 2, 3, 4])
    items = []
    used_ell = False
    has_arrays = rng.random() < 0.4   # with arrays present, integers are advanced too: all of them must be adjacent
    arr_state = 0          # 0 none yet, 1 in a run of advanced items, 2 run finished
    arr_len = None
    ndim = 0
    toplen = len(vals)
    for _ in range(n):
        r = rng.random()
        L = rng.choice([toplen, 0, 1, 2, 3, 4])
        dim_ok = ndim < mn
        if r < 0.28 and dim_ok and not (has_arrays and arr_state == 2) and not (has_arrays and hasrec):
            items.append('(at %d)' % rng.randint(-L - 1, L))
            ndim += 1
            if has_arrays:
                arr_state = 1
        elif r < 0.62 and dim_ok:
            def b():
                return 'none' if rng.random() < 0.3 else str(rng.randint(-L - 2, L + 2))
            step = rng.choice(['none', '1', '1', '2', '3', '-1', '-1', '-2', '-3'])
            items.append('(rng %s %s %s)' % (b(), b(), step))
            ndim += 1
            arr_state = 2 if arr_state == 1 else arr_state
        elif r < 0.70 and not used_ell and not hasrec:
            items.append('ell')
            used_ell = True
            arr_state = 2 if arr_state == 1 else arr_state
        elif r < 0.76 and not hasrec:
            items.append('newaxis')
            arr_state = 2 if arr_state == 1 else arr_state
        elif r < 0.93 and dim_ok and has_arrays and arr_state != 2:
            if arr_len is None:
                arr_len = rng.choice([0, 1, 2, 3])
            ix = [rng.randint(-L, L - 1) if L > 0 else rng.choice([0, -1]) for _ in range(arr_len)]
            if rng.random() < 0.08 and ix:
                ix[rng.randrange(len(ix))] = L + 1
            items.append('(arr (%d) (%s))' % (len(ix), ' '.join(map(str, ix))))
            ndim += 1
            arr_state = 1
        elif r >= 0.93 and not any(it.startswith('(flds') for it in items):
            # (after a list of fields a further field item selects INSIDE each projected field -- nested records --;
            # whether it exists there is decided by the type, also when no record is selected: not generated)
            names = ['a', 'b', 'c', 'x', 'y', 'pt', '0', '1']
            arr_state = 2 if arr_state == 1 else arr_state
            if rng.random() < 0.7:
                items.append('(fld %s)' % rng.choice(names))
            else:
                items.append('(flds %s)' % ' '.join(rng.sample(names[:6], rng.choice([1, 2]))))
    return items


# ---------------------------------------------------------------- array-like items (Ops_GetitemAdv.v)
def _rand_range(rng, L, single=False):
    """(text, python slice)"""
    if single and L > 0:
        i = rng.randrange(L)
        return '(rng %d %d none)' % (i, i + 1), slice(i, i + 1, None)
    if rng.random() < 0.45:
        return '(rng none none none)', slice(None, None, None)

    def b():
        return None if rng.random() < 0.3 else rng.randint(-L - 2, L + 2)
    a, e = b(), b()
    st = rng.choice([None, 1, 1, 2, -1, -1, -2])
    tx = lambda v: 'none' if v is None else str(v)
    return '(rng %s %s %s)' % (tx(a), tx(e), tx(st)), slice(a, e, st)


def _lists_below(t, lists, slices):
    """the lists (python) found below the leading ranges: (elem type, [list...]) or None when a range meets a non-list"""
    for sl in slices:
        t = t[1] if t[0] == 'opt' else t
        if t[0] != 'list':
            return None
        nxt = []
        for l in lists:
            for e in l[sl]:
                if e is not None:
                    nxt.append(e)
        t, lists = t[1], nxt
    return t, lists


def _gen_jag(rng, t, l, depth, boolean, opts, into_str):
    """an index (nested python lists / None) of `depth` levels for the list l whose elements have type t;
    opts[d] = the index has option type at level d (None entries)"""
    te = t[1] if t[0] == 'opt' else t
    n = len(l)
    none_here = opts[0]
    if depth == 1:
        if boolean:
            m = [rng.random() < 0.5 for _ in range(n)]
            if rng.random() < 0.05:
                m = m[:-1] if (m and rng.random() < 0.5) else m + [rng.random() < 0.5]
            out = list(m)
        else:
            k = rng.choice([0, 1, 1, 2, 3])
            out = [rng.randint(-n, n - 1) if n > 0 else rng.choice([0, -1]) for _ in range(k)]
            if out and n > 0 and rng.random() < 0.06:
                out[rng.randrange(len(out))] = rng.choice([n, -n - 1, n + 3])
            if n == 0 and rng.random() < 0.8:
                out = []
        if none_here:
            out = [None if rng.random() < 0.3 else v for v in out]
            if rng.random() < 0.4:
                out.insert(rng.randint(0, len(out)), None)
        return out
    subs = []
    for e in l:
        if none_here and rng.random() < 0.25:
            subs.append(None)
        elif isinstance(e, list):
            subs.append(_gen_jag(rng, te[1] if te[0] == 'list' else te, e, depth - 1, boolean, opts[1:], into_str))
        elif isinstance(e, tuple) and e[0] == '$str' and into_str:
            subs.append(_gen_jag(rng, ('leaf', 'uint8'), list(e[2]), depth - 1, boolean, opts[1:], False))
        else:
            # a missing list, or the index is deeper than the array here
            subs.append(_gen_jag(rng, ('leaf', 'int64'), [0] * rng.choice([0, 0, 1, 2]), depth - 1, boolean, opts[1:], False))
    if rng.random() < 0.05:
        if subs and rng.random() < 0.5:
            subs.pop()
        else:
            subs.append(_gen_jag(rng, ('leaf', 'int64'), [], depth - 1, boolean, opts[1:], False))
    return subs


def _index_layout(rng, depth, boolean, opts, idx):
    leaf = ('leaf', 'bool' if boolean else rng.choice(['int64'] * 6 + ['int32', 'uint8', 'int8', 'uint32']))
    t = ('opt', leaf) if opts[depth - 1] else leaf
    for d in range(depth - 2, -1, -1):
        t = ('list', t)
        if opts[d]:
            t = ('opt', t)
    if not boolean and leaf[1].startswith('uint'):
        # unsigned index arrays cannot hold the negative positions
        def fix(v):
            if isinstance(v, list):
                return [fix(x) for x in v]
            return v if v is None else abs(v)
        idx = fix(idx)
    enc = G.Enc(rng, list_kinds=('lo', 'la'), special=False, widths=['i64', 'i64', 'i32', 'u32'])
    return G.encode(enc, t, idx), idx


def adv_cases(rng, n, prefix='x'):
    """slices pre ++ [array-like item] ++ post: pre = 0-2 ranges, the item = n-d integer array | rectilinear boolean
    array | 1-d index with missing values | jagged integer/boolean index (None at any level) made to match the
    array's value (mostly), post = 0-2 of {range, integer, field(s), ellipsis, newaxis}"""
    out = []
    for i in range(n):
        a = G.gen_array(rng, depth=rng.choice([1, 2, 3, 3, 4]), canonical_too=False,
                        type_kw=dict(allow_union=rng.random() < 0.03, allow_rec=rng.random() < 0.4),
                        enc_kw=dict(weird_empty=0.05, strided=0.05))
        t, vals = a['type'], a['vals']
        mn, mx = G.list_depth(t)
        hasrec = G.has_kind(t, 'rec')
        emptyidx = False
        kind = rng.choice(['nd', 'nd', 'miss', 'miss', 'miss', 'jag', 'jag', 'jag', 'jag', 'bool'])
        npre = rng.choice([0, 0, 0, 1, 1, 2])
        npre = min(npre, mn - 1)
        if kind == 'bool':
            npre = 0
        pre, slices = [], []
        tl, lists = ('list', t), [vals]
        for k in range(npre):
            L = len(lists[0]) if lists else rng.choice([0, 1, 2, 3])
            tx, sl = _rand_range(rng, L, single=(kind == 'jag' and rng.random() < 0.6))
            below = _lists_below(tl, lists, [sl])
            if below is None or below[0][0] not in ('list', 'opt'):
                break
            pre.append(tx)
            slices.append(sl)
            tl, lists = below
            tl = tl[1] if tl[0] == 'opt' else tl
            if tl[0] != 'list':
                pre.pop()
                break
        # the lists the item applies to, and their element type
        te = tl[1]
        l0 = lists[0] if lists else []
        ndim = len(pre)
        if kind == 'nd':
            rank = rng.choice([2, 2, 2, 3])
            shape = [rng.choice([0, 1, 1, 2, 2, 2, 3, 3]) for _ in range(rank)]
            cnt = 1
            for d in shape:
                cnt *= d
            L = min([len(l) for l in lists]) if lists else rng.choice([0, 1, 2])
            data = [rng.randint(-L, L - 1) if L > 0 else rng.choice([0, -1]) for _ in range(cnt)]
            if data and rng.random() < 0.06:
                data[rng.randrange(cnt)] = rng.choice([L, -L - 1, L + 2])
            item = '(arr (%s) (%s))' % (' '.join(map(str, shape)), ' '.join(map(str, data)))
            ndim += 1
            idepth = 1
        elif kind == 'bool':
            n0 = len(vals)
            shape = [n0 if rng.random() < 0.92 else max(0, n0 + rng.choice([-1, 1]))]
            inner = [len(v) for v in vals if isinstance(v, list)]
            if inner and len(inner) == len(vals) and len(set(inner)) == 1 and rng.random() < 0.5:
                shape.append(inner[0])
            cnt = 1
            for d in shape:
                cnt *= d
            bits = [1 if rng.random() < 0.5 else 0 for _ in range(cnt)]
            item = '(barr (%s) (%s))' % (' '.join(map(str, shape)), ' '.join(map(str, bits)))
            emptyidx = not any(bits)
            ndim += len(shape)
            idepth = len(shape)
        else:
            boolean = rng.random() < 0.3
            if kind == 'miss':
                idepth = 1
                opts = [rng.random() < 0.9]
            else:
                avail = 1
                tt = te
                while True:
                    tt = tt[1] if tt[0] == 'opt' else tt
                    if tt[0] != 'list':
                        break
                    avail += 1
                    tt = tt[1]
                idepth = min(avail, rng.choice([2, 2, 2, 3, 3, 4]))
                if rng.random() < 0.04:
                    idepth += 1            # deeper than the array (an error) or into the characters of strings
                if idepth < 2:
                    kind, idepth = 'miss', 1
                opts = [rng.random() < 0.3 for _ in range(idepth)]
            idx = _gen_jag(rng, te, l0, idepth, boolean, opts, rng.random() < 0.03)
            lay, idx = _index_layout(rng, idepth, boolean, opts, idx)
            item = '(lay %s)' % G.sx(lay)
            emptyidx = len(idx) == 0 or (idepth == 1 and not any(v is None or v is True or (v is not False and not boolean) for v in idx))
            ndim += idepth
        # the rest of the slice
        post = []
        for _ in range(rng.choice([0, 0, 0, 1, 1, 2])):
            r = rng.random()
            L = rng.choice([0, 1, 2, 3, 4])
            if r < 0.25 and ndim < mn and not hasrec and not (kind in ('miss',) and rng.random() < 0.9):
                post.append('(at %d)' % rng.randint(-L - 1, L))
                ndim += 1
            elif r < 0.6 and ndim < mn:
                post.append(_rand_range(rng, L)[0])
                ndim += 1
            elif r < 0.66 and not hasrec and 'ell' not in post:
                post.append('ell')
            elif r < 0.70 and not hasrec:
                post.append('newaxis')
            elif r >= 0.8:
                names = ['a', 'b', 'c', 'x', 'y', 'pt', '0', '1']
                if rng.random() < 0.7:
                    post.append('(fld %s)' % rng.choice(names))
                else:
                    post.append('(flds %s)' % ' '.join(rng.sample(names[:6], rng.choice([1, 2]))))
        items = pre + [item] + post
        nontriv = any(isinstance(v, list) and v for v in vals) or (len(vals) > 0 and not pre)
        tags = dict(nitems=len(items), kinds=' '.join(sorted(set(it.split(' ')[0].strip('(') for it in items))),
                    adv='%s depth=%d pre=%d post=%d' % (kind, idepth, len(pre), len(post)))
        out.append(C.Case('%s%d' % (prefix, i), 'getitem', ['(' + ' '.join(items) + ')'], [G.sx(a['layout'])],
                          dict(nontrivial=nontriv, tags=tags, type=t, emptyidx=emptyidx and (len(pre) > 0 or kind == 'bool'))))
    return out


def ndrec_cases(rng, n):
    """records whose fields are n-d NumpyArrays of DIFFERENT inner sizes (ak.Array of a structured / several np.ndarray),
    sliced by a range followed by one integer array with negative entries: every field has to wrap the same index array
    against its own size (an index array regularised in place by the first field would be wrong for the next one)"""
    out = []
    for i in range(n):
        nf = rng.choice([2, 2, 3])
        names = rng.sample(['a', 'b', 'c', 'x', 'y'], nf)
        sizes = [rng.choice([1, 2, 3, 4, 5]) for _ in range(nf)]
        t = ('rec', [(nm, ('list', ('leaf', rng.choice(['int64', 'float64', 'int32', 'uint8'])))) for nm in names], rng.random() < 0.2)
        L = rng.choice([1, 2, 3, 4])
        vals = [('$rec', [[G.leaf_value(rng, t[1][k][1][1][1], False) for _ in range(sizes[k])] for k in range(nf)]) for _ in range(L)]
        enc = G.Enc(rng, nd=1.0, strided=0.3, list_kinds=('reg',), indexed=False)
        lay = G.encode_plain(enc, t, vals, False)
        m = rng.choice([1, 2, 3])
        smin = min(sizes)
        ix = [rng.randint(-smin, smin - 1) for _ in range(m)]
        if rng.random() < 0.1:
            ix[rng.randrange(m)] = smin + rng.choice([0, 1])       # out of range for the narrowest field
        rtx, _ = _rand_range(rng, L)
        items = [rtx, '(arr (%d) (%s))' % (m, ' '.join(map(str, ix)))]
        out.append(C.Case('r%d' % i, 'getitem', ['(' + ' '.join(items) + ')'], [G.sx(lay)],
                          dict(nontrivial=True, tags=dict(nitems=2, kinds='arr rng', stream='ndrec'), type=t)))
    return out


def cases(rng, tier):
    n = 15000 if tier == 'quick' else 400000
    out = adv_cases(rng, n * 15 // 85) + ndrec_cases(rng, n // 50)
    for i in range(n):
        a = G.gen_array(rng, depth=rng.choice([1, 2, 3, 3, 4]), canonical_too=False,
                        type_kw=dict(allow_union=rng.random() < 0.05, allow_rec=rng.random() < 0.5),
                        enc_kw=dict(weird_empty=0.08, strided=0.08))
        t = a['type']
        items = rand_items(rng, t, a['vals'])
        if G.has_empty_rec(t):
            items = [it for it in items if not it.startswith(('(at', '(rng', '(arr'))][:1] or items[:1]
        nontriv = any(it.startswith(('(at', '(rng', '(arr')) for it in items) and \
            any(isinstance(v, list) and v for v in a['vals'])
        tags = dict(nitems=len(items), kinds=' '.join(sorted(set(it.split(' ')[0].strip('(') for it in items))))
        out.append(C.Case('c%d' % i, 'getitem', ['(' + ' '.join(items) + ')'], [G.sx(a['layout'])],
                          dict(nontrivial=nontriv, tags=tags, type=t)))
    return out


def _prod(l):
    p = 1
    for x in l:
        p *= x
    return p


def signature(c, impl, v):
    body = c.body()
    differs = 'bad oob' in v or 'viol closure' in v or 'viol value' in v
    shapes = [[int(x) for x in m.split()] for m in re.findall(r'\(arr \(([0-9 ]*)\) \(', body)]
    # getitem_next_array_wrap / getitem_next_regular_missing: a zero-length dimension made by an index array loses the
    # lengths of the dimensions around it (RegularArray size 0 with zeros_length 0 / 1)
    if ('(arr (0) ())' in body or any(0 in sh for sh in shapes) or c.meta.get('emptyidx') or
            re.search(r'\(rng [^()]*\) \(lay \((ixo \w+ \(\)|bym \(\)|bim \(\) \w+ \w+ 0|unm \(np \w+ \(0\)|np \w+ \(0\))', body)) \
            and differs:
        return 'empty-index-array-zero-length-regular'
    # a jagged index reaching into the characters of strings: the 'string' list is dropped, the characters stay
    # tagged 'char'/'byte' (a layout the library's own validity check rejects)
    if '(lay ' in body and ('(par string' in body or '(par bytestring' in body) and 'viol closure' in v and \
            ('(par char' in impl or '(par byte ' in impl):
        return 'jagged-index-into-string-characters'
    if ('(par string' in body or '(par bytestring' in body) and '(np uint8 (0) ())' in impl:
        return 'string-empty-selection'
    # ListArray::getitem_next_jagged(SliceMissing64) / awkward_ListArray_getitem_jagged_shrink: an index with missing
    # values below its outermost level is aligned with the array by position in the slice, ignoring the array's own
    # starts and the lists an option-type array has dropped: wrong elements, misplaced None, or a spurious error
    # getitem_next_regular_missing ("if (length == 0) length = 1 ... will be trimmed later"): a missing-value index below
    # ranges that select no list leaves an IndexedOptionArray pointing into zero-length content (unreachable, but the
    # library's validity check rejects the layout); the value is right
    if '(lay ' in body and '(rng ' in body and 'viol closure' in v and 'spec unspecified' in v:
        return 'missing-index-zero-lists-invalid-layout'
    # RegularArray::getitem_next_jagged compares the index with the whole content, also the part beyond size*length
    # that a (valid) RegularArray does not reach: "cannot fit jagged slice with length n into ... of size m"
    if '(lay ' in body and 'viol value (impl err)' in v and _reg_untrimmed(c.layouts[-1] if c.layouts else _last_sexp(body)):
        return 'jagged-index-regular-untrimmed-content'
    lay = _lay_text(body)
    if lay and differs and re.search(r'\((?:lo \w+ \([^()]*\)|la \w+ \([^()]*\) \([^()]*\)) (?:\(ix \w+ \([^()]*\) )?\((?:ixo|bym|bim|unm) ', lay):
        return 'jagged-missing-index-misaligned'
    return None


def _last_sexp(body):
    body = body.rstrip()
    d = 0
    for j in range(len(body) - 1, -1, -1):
        if body[j] == ')':
            d += 1
        elif body[j] == '(':
            d -= 1
            if d == 0:
                return body[j:]
    return body


def _lay_text(body):
    i = body.find('(lay ')
    if i < 0:
        return None
    d = 0
    for j in range(i, len(body)):
        if body[j] == '(':
            d += 1
        elif body[j] == ')':
            d -= 1
            if d == 0:
                return body[i:j + 1]
    return None


def _parse(s):
    toks = s.replace('(', ' ( ').replace(')', ' ) ').split()
    pos = [0]

    def rd():
        t = toks[pos[0]]
        pos[0] += 1
        if t == '(':
            out = []
            while toks[pos[0]] != ')':
                out.append(rd())
            pos[0] += 1
            return out
        return t
    return rd()


def _len(n):
    h = n[0]
    if h in ('np', 'nps'):
        return int(n[2][0]) if n[2] else 0
    if h == 'empty':
        return 0
    if h == 'lo':
        return len(n[2]) - 1
    if h == 'la':
        return len(n[2])
    if h == 'reg':
        return int(n[2]) if int(n[1]) == 0 else _len(n[3]) // int(n[1])
    if h in ('ix', 'ixo'):
        return len(n[2])
    if h == 'bym':
        return len(n[1])
    if h == 'bim':
        return int(n[4])
    if h == 'unm':
        return _len(n[1])
    if h == 'un':
        return len(n[2])
    if h == 'rec':
        return int(n[1])
    if h == 'par':
        return _len(n[3])
    return 0


def _reg_untrimmed(text):
    """some RegularArray in the layout has content beyond size*length"""
    try:
        tree = _parse(text)
    except Exception:
        return False

    def walk(n):
        if not isinstance(n, list) or not n or not isinstance(n[0], str):
            return False
        if n[0] == 'reg' and int(n[1]) > 0 and _len(n[3]) > int(n[1]) * (_len(n[3]) // int(n[1])):
            return True
        return any(walk(ch) for ch in n[1:] if isinstance(ch, list))
    return walk(tree)
