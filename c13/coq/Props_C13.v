(** Props_C13.v -- the property theorems of C13: statements only, each proved by [exact] of a lemma of
    the Proofs_C13*.v files, each followed by Print Assumptions.  Tags (* @kernel kind *) are read by the harness. *)
From Coq Require Import ZArith List Bool.
From AwkV Require Import Base.
From AwkKernels Require Import Kernels KLemmas Proofs_C13 Proofs_C13b Proofs_C13c.
Import ListNotations.
Open Scope Z_scope.

(* @awkward_ListArray_num k_safe *)
Theorem C13_ListArray_num_safe :
  forall tT tC tonum starts stops n,
  n <= zlen starts -> n <= zlen stops -> n <= zlen tonum ->
  ListArray_num tT tC tonum starts stops n <> KOob.
Proof. exact ListArray_num_safe. Qed.
Print Assumptions C13_ListArray_num_safe.

(* @awkward_ListArray_num k_spec *)
Theorem C13_ListArray_num_spec :
  forall tonum starts stops n,
  zlen starts = n -> zlen stops = n -> n <= zlen tonum ->
  ListArray_num TIdeal TIdeal tonum starts stops n
  = KOk (map (fun p => snd p - fst p) (zip starts stops) ++ skipn (Z.to_nat n) tonum).
Proof. exact ListArray_num_spec. Qed.
Print Assumptions C13_ListArray_num_spec.

(* @awkward_ListArray_num k_width *)
Theorem C13_ListArray_num_width :
  forall tT tC tonum starts stops n,
  n <= zlen starts -> n <= zlen stops ->
  (forall i, 0 <= i < n -> fits tC (at_ stops i - at_ starts i) /\ fits tT (at_ stops i - at_ starts i)) ->
  ListArray_num tT tC tonum starts stops n = ListArray_num TIdeal TIdeal tonum starts stops n.
Proof. exact ListArray_num_width. Qed.
Print Assumptions C13_ListArray_num_width.

(* @awkward_RegularArray_num k_safe *)
Theorem C13_RegularArray_num_safe :
  forall tT tonum size n,
  n <= zlen tonum -> RegularArray_num tT tonum size n <> KOob.
Proof. exact RegularArray_num_safe. Qed.
Print Assumptions C13_RegularArray_num_safe.

(* @awkward_RegularArray_num k_spec *)
Theorem C13_RegularArray_num_spec :
  forall tonum size n,
  0 <= n -> n <= zlen tonum ->
  RegularArray_num TIdeal tonum size n = KOk (repeat size (Z.to_nat n) ++ skipn (Z.to_nat n) tonum).
Proof. exact RegularArray_num_spec. Qed.
Print Assumptions C13_RegularArray_num_spec.

(* @awkward_RegularArray_num k_width *)
Theorem C13_RegularArray_num_width :
  forall tT tonum size n,
  fits tT size -> RegularArray_num tT tonum size n = RegularArray_num TIdeal tonum size n.
Proof. exact RegularArray_num_width. Qed.
Print Assumptions C13_RegularArray_num_width.

(* @awkward_ListOffsetArray_flatten_offsets k_safe *)
Theorem C13_flatten_offsets_safe :
  forall tT tooffsets outer outerlen inner,
  outerlen <= zlen outer -> outerlen <= zlen tooffsets ->
  (forall i, 0 <= i < outerlen -> 0 <= at_ outer i < zlen inner) ->
  ListOffsetArray_flatten_offsets tT tooffsets outer outerlen inner <> KOob.
Proof. exact flatten_offsets_safe. Qed.
Print Assumptions C13_flatten_offsets_safe.

(* @awkward_ListOffsetArray_flatten_offsets k_spec *)
Theorem C13_flatten_offsets_spec :
  forall tooffsets outer inner,
  zlen outer <= zlen tooffsets ->
  (forall i, 0 <= i < zlen outer -> 0 <= at_ outer i < zlen inner) ->
  ListOffsetArray_flatten_offsets TIdeal tooffsets outer (zlen outer) inner
  = KOk (map (at_ inner) outer ++ skipn (length outer) tooffsets).
Proof. exact flatten_offsets_spec. Qed.
Print Assumptions C13_flatten_offsets_spec.

(* @awkward_localindex k_safe *)
Theorem C13_localindex_safe :
  forall tT toindex n,
  n <= zlen toindex -> localindex tT toindex n <> KOob.
Proof. exact localindex_safe. Qed.
Print Assumptions C13_localindex_safe.

(* @awkward_localindex k_spec *)
Theorem C13_localindex_spec :
  forall toindex n,
  0 <= n -> n <= zlen toindex -> localindex TIdeal toindex n = KOk (iota n ++ skipn (Z.to_nat n) toindex).
Proof. exact localindex_spec. Qed.
Print Assumptions C13_localindex_spec.

(* @awkward_localindex k_width *)
Theorem C13_localindex_width :
  forall tT toindex n,
  (forall i, 0 <= i < n -> fits tT i) -> localindex tT toindex n = localindex TIdeal toindex n.
Proof. exact localindex_width. Qed.
Print Assumptions C13_localindex_width.

(* @awkward_ByteMaskedArray_toIndexedOptionArray k_safe *)
Theorem C13_ByteMasked_toIndexedOption_safe :
  forall toindex mask n vw,
  n <= zlen mask -> n <= zlen toindex -> ByteMaskedArray_toIndexedOptionArray toindex mask n vw <> KOob.
Proof. exact ByteMasked_toIndexedOption_safe. Qed.
Print Assumptions C13_ByteMasked_toIndexedOption_safe.

(* @awkward_ByteMaskedArray_toIndexedOptionArray k_spec *)
Theorem C13_ByteMasked_toIndexedOption_spec :
  forall toindex mask vw,
  zlen toindex = zlen mask ->
  ByteMaskedArray_toIndexedOptionArray toindex mask (zlen mask) vw
  = KOk (map (fun i => if Bool.eqb (negb (at_ mask i =? 0)) vw then i else -1) (iota (zlen mask))).
Proof. exact ByteMasked_toIndexedOption_spec. Qed.
Print Assumptions C13_ByteMasked_toIndexedOption_spec.

(* @awkward_UnionArray_fillna k_safe *)
Theorem C13_UnionArray_fillna_safe :
  forall tT toindex fromindex n,
  n <= zlen fromindex -> n <= zlen toindex -> UnionArray_fillna tT toindex fromindex n <> KOob.
Proof. exact UnionArray_fillna_safe. Qed.
Print Assumptions C13_UnionArray_fillna_safe.

(* @awkward_UnionArray_fillna k_spec *)
Theorem C13_UnionArray_fillna_spec :
  forall toindex fromindex,
  zlen fromindex <= zlen toindex ->
  UnionArray_fillna TIdeal toindex fromindex (zlen fromindex)
  = KOk (map (fun x => if 0 <=? x then x else 0) fromindex ++ skipn (length fromindex) toindex).
Proof. exact UnionArray_fillna_spec. Qed.
Print Assumptions C13_UnionArray_fillna_spec.

(* @awkward_NumpyArray_fill k_safe *)
Theorem C13_NumpyArray_fill_safe :
  forall tTO toptr off fromptr n,
  0 <= off -> n <= zlen fromptr -> off + n <= zlen toptr -> NumpyArray_fill tTO toptr off fromptr n <> KOob.
Proof. exact NumpyArray_fill_safe. Qed.
Print Assumptions C13_NumpyArray_fill_safe.

(* @awkward_NumpyArray_fill k_spec *)
Theorem C13_NumpyArray_fill_spec :
  forall toptr off fromptr,
  0 <= off -> off + zlen fromptr <= zlen toptr ->
  NumpyArray_fill TIdeal toptr off fromptr (zlen fromptr)
  = KOk (firstn (Z.to_nat off) toptr ++ fromptr ++ skipn (Z.to_nat (off + zlen fromptr)) toptr).
Proof. exact NumpyArray_fill_spec. Qed.
Print Assumptions C13_NumpyArray_fill_spec.

(* @awkward_NumpyArray_fill k_width *)
Theorem C13_NumpyArray_fill_width :
  forall tTO toptr off fromptr n,
  n <= zlen fromptr -> (forall i, 0 <= i < n -> fits tTO (at_ fromptr i)) ->
  NumpyArray_fill tTO toptr off fromptr n = NumpyArray_fill TIdeal toptr off fromptr n.
Proof. exact NumpyArray_fill_width. Qed.
Print Assumptions C13_NumpyArray_fill_width.

(* @awkward_IndexedArray_fill k_safe *)
Theorem C13_IndexedArray_fill_safe :
  forall tTO toindex off fromindex n base,
  0 <= off -> n <= zlen fromindex -> off + n <= zlen toindex -> IndexedArray_fill tTO toindex off fromindex n base <> KOob.
Proof. exact IndexedArray_fill_safe. Qed.
Print Assumptions C13_IndexedArray_fill_safe.

(* @awkward_IndexedArray_fill k_spec *)
Theorem C13_IndexedArray_fill_spec :
  forall toindex off fromindex base,
  0 <= off -> off + zlen fromindex <= zlen toindex ->
  IndexedArray_fill TIdeal toindex off fromindex (zlen fromindex) base
  = KOk (firstn (Z.to_nat off) toindex ++ map (fun x => if x <? 0 then -1 else x + base) fromindex
         ++ skipn (Z.to_nat (off + zlen fromindex)) toindex).
Proof. exact IndexedArray_fill_spec. Qed.
Print Assumptions C13_IndexedArray_fill_spec.

(* @awkward_UnionArray_filltags k_safe *)
Theorem C13_UnionArray_filltags_safe :
  forall tTO totags off fromtags n base,
  0 <= off -> n <= zlen fromtags -> off + n <= zlen totags -> UnionArray_filltags tTO totags off fromtags n base <> KOob.
Proof. exact UnionArray_filltags_safe. Qed.
Print Assumptions C13_UnionArray_filltags_safe.

(* @awkward_UnionArray_filltags k_spec *)
Theorem C13_UnionArray_filltags_spec :
  forall totags off fromtags base,
  0 <= off -> off + zlen fromtags <= zlen totags ->
  UnionArray_filltags TIdeal totags off fromtags (zlen fromtags) base
  = KOk (firstn (Z.to_nat off) totags ++ map (fun x => x + base) fromtags ++ skipn (Z.to_nat (off + zlen fromtags)) totags).
Proof. exact UnionArray_filltags_spec. Qed.
Print Assumptions C13_UnionArray_filltags_spec.

(* @awkward_UnionArray_fillindex k_safe *)
Theorem C13_UnionArray_fillindex_safe :
  forall tTO toindex off fromindex n,
  0 <= off -> n <= zlen fromindex -> off + n <= zlen toindex -> UnionArray_fillindex tTO toindex off fromindex n <> KOob.
Proof. exact UnionArray_fillindex_safe. Qed.
Print Assumptions C13_UnionArray_fillindex_safe.

(* @awkward_UnionArray_fillindex k_spec *)
Theorem C13_UnionArray_fillindex_spec :
  forall toindex off fromindex,
  0 <= off -> off + zlen fromindex <= zlen toindex ->
  UnionArray_fillindex TIdeal toindex off fromindex (zlen fromindex)
  = KOk (firstn (Z.to_nat off) toindex ++ fromindex ++ skipn (Z.to_nat (off + zlen fromindex)) toindex).
Proof. exact UnionArray_fillindex_spec. Qed.
Print Assumptions C13_UnionArray_fillindex_spec.

(* @awkward_ListArray_validity k_safe *)
Theorem C13_ListArray_validity_safe :
  forall starts stops n lc,
  n <= zlen starts -> n <= zlen stops -> ListArray_validity starts stops n lc <> KOob.
Proof. exact ListArray_validity_safe. Qed.
Print Assumptions C13_ListArray_validity_safe.

(* @awkward_ListArray_validity k_spec *)
Theorem C13_ListArray_validity_spec :
  forall starts stops n lc,
  n <= zlen starts -> n <= zlen stops ->
  (ListArray_validity starts stops n lc = KOk tt <->
   forall i, 0 <= i < n ->
     at_ starts i = at_ stops i \/ (at_ starts i < at_ stops i /\ 0 <= at_ starts i /\ at_ stops i <= lc)).
Proof. exact ListArray_validity_spec. Qed.
Print Assumptions C13_ListArray_validity_spec.

(* @awkward_IndexedArray_validity k_safe *)
Theorem C13_IndexedArray_validity_safe :
  forall index n lc isoption,
  n <= zlen index -> IndexedArray_validity index n lc isoption <> KOob.
Proof. exact IndexedArray_validity_safe. Qed.
Print Assumptions C13_IndexedArray_validity_safe.

(* @awkward_IndexedArray_validity k_spec *)
Theorem C13_IndexedArray_validity_spec :
  forall index n lc isoption,
  n <= zlen index ->
  (IndexedArray_validity index n lc isoption = KOk tt <->
   forall i, 0 <= i < n -> at_ index i < lc /\ (isoption = false -> 0 <= at_ index i)).
Proof. exact IndexedArray_validity_spec. Qed.
Print Assumptions C13_IndexedArray_validity_spec.

(* @awkward_UnionArray_validity k_safe *)
Theorem C13_UnionArray_validity_safe :
  forall tags index n nc lens,
  n <= zlen tags -> n <= zlen index -> nc <= zlen lens -> UnionArray_validity tags index n nc lens <> KOob.
Proof. exact UnionArray_validity_safe. Qed.
Print Assumptions C13_UnionArray_validity_safe.

(* @awkward_UnionArray_validity k_spec *)
Theorem C13_UnionArray_validity_spec :
  forall tags index n nc lens,
  n <= zlen tags -> n <= zlen index -> nc <= zlen lens ->
  (UnionArray_validity tags index n nc lens = KOk tt <->
   forall i, 0 <= i < n -> 0 <= at_ tags i < nc /\ 0 <= at_ index i < at_ lens (at_ tags i)).
Proof. exact UnionArray_validity_spec. Qed.
Print Assumptions C13_UnionArray_validity_spec.

(* @awkward_RegularArray_broadcast_tooffsets k_safe *)
Theorem C13_RegularArray_broadcast_tooffsets_safe :
  forall tT fromoffsets ol size,
  ol <= zlen fromoffsets -> RegularArray_broadcast_tooffsets tT fromoffsets ol size <> KOob.
Proof. exact RegularArray_broadcast_tooffsets_safe. Qed.
Print Assumptions C13_RegularArray_broadcast_tooffsets_safe.

(* @awkward_RegularArray_broadcast_tooffsets k_spec *)
Theorem C13_RegularArray_broadcast_tooffsets_spec :
  forall fromoffsets ol size,
  ol <= zlen fromoffsets ->
  (RegularArray_broadcast_tooffsets TIdeal fromoffsets ol size = KOk tt <->
   forall i, 0 <= i < ol - 1 -> at_ fromoffsets (i + 1) - at_ fromoffsets i = size /\ 0 <= size).
Proof. exact RegularArray_broadcast_tooffsets_spec. Qed.
Print Assumptions C13_RegularArray_broadcast_tooffsets_spec.

(* @awkward_ListOffsetArray_compact_offsets k_safe *)
Theorem C13_ListOffsetArray_compact_offsets_safe :
  forall tT tooffsets fromoffsets n,
  0 <= n -> n + 1 <= zlen fromoffsets -> n + 1 <= zlen tooffsets ->
  ListOffsetArray_compact_offsets tT tooffsets fromoffsets n <> KOob.
Proof. exact ListOffsetArray_compact_offsets_safe. Qed.
Print Assumptions C13_ListOffsetArray_compact_offsets_safe.

(* @awkward_ListOffsetArray_compact_offsets k_spec *)
Theorem C13_ListOffsetArray_compact_offsets_spec :
  forall tooffsets fromoffsets,
  1 <= zlen fromoffsets -> zlen fromoffsets <= zlen tooffsets ->
  ListOffsetArray_compact_offsets TIdeal tooffsets fromoffsets (zlen fromoffsets - 1)
  = KOk (map (fun o => o - at_ fromoffsets 0) fromoffsets ++ skipn (length fromoffsets) tooffsets).
Proof. exact ListOffsetArray_compact_offsets_spec. Qed.
Print Assumptions C13_ListOffsetArray_compact_offsets_spec.

(* @awkward_RegularArray_compact_offsets k_safe *)
Theorem C13_RegularArray_compact_offsets_safe :
  forall tT tooffsets n size,
  0 <= n -> n + 1 <= zlen tooffsets -> RegularArray_compact_offsets tT tooffsets n size <> KOob.
Proof. exact RegularArray_compact_offsets_safe. Qed.
Print Assumptions C13_RegularArray_compact_offsets_safe.

(* @awkward_RegularArray_compact_offsets k_spec *)
Theorem C13_RegularArray_compact_offsets_spec :
  forall tooffsets n size,
  0 <= n -> n + 1 <= zlen tooffsets ->
  RegularArray_compact_offsets TIdeal tooffsets n size
  = KOk (map (fun i => i * size) (iota (n + 1)) ++ skipn (Z.to_nat (n + 1)) tooffsets).
Proof. exact RegularArray_compact_offsets_spec. Qed.
Print Assumptions C13_RegularArray_compact_offsets_spec.

(* @awkward_RegularArray_getitem_next_at k_safe *)
Theorem C13_RegularArray_getitem_next_at_safe :
  forall tocarry at0 n size,
  n <= zlen tocarry -> RegularArray_getitem_next_at tocarry at0 n size <> KOob.
Proof. exact RegularArray_getitem_next_at_safe. Qed.
Print Assumptions C13_RegularArray_getitem_next_at_safe.

(* @awkward_RegularArray_getitem_next_at k_spec *)
Theorem C13_RegularArray_getitem_next_at_spec :
  forall tocarry at0 n size,
  0 <= n -> n <= zlen tocarry ->
  RegularArray_getitem_next_at tocarry at0 n size =
  let ra := if at0 <? 0 then at0 + size else at0 in
  if (0 <=? ra) && (ra <? size)
  then KOk (map (fun i => i * size + ra) (iota n) ++ skipn (Z.to_nat n) tocarry)
  else KErr MIndexOutOfRange.
Proof. exact RegularArray_getitem_next_at_spec. Qed.
Print Assumptions C13_RegularArray_getitem_next_at_spec.

(* @awkward_ListArray_getitem_next_at k_safe *)
Theorem C13_ListArray_getitem_next_at_safe :
  forall tT tC tocarry starts stops n at0,
  n <= zlen starts -> n <= zlen stops -> n <= zlen tocarry ->
  ListArray_getitem_next_at tT tC tocarry starts stops n at0 <> KOob.
Proof. exact ListArray_getitem_next_at_safe. Qed.
Print Assumptions C13_ListArray_getitem_next_at_safe.

(* @awkward_ListArray_getitem_next_at k_spec *)
Theorem C13_ListArray_getitem_next_at_spec :
  forall tocarry starts stops at0,
  zlen stops = zlen starts -> zlen starts <= zlen tocarry ->
  (forall i, 0 <= i < zlen starts -> - (at_ stops i - at_ starts i) <= at0 < at_ stops i - at_ starts i) ->
  ListArray_getitem_next_at TIdeal TIdeal tocarry starts stops (zlen starts) at0
  = KOk (map (fun p => fst p + (if at0 <? 0 then at0 + (snd p - fst p) else at0)) (zip starts stops)
         ++ skipn (length starts) tocarry).
Proof. exact ListArray_getitem_next_at_spec. Qed.
Print Assumptions C13_ListArray_getitem_next_at_spec.

(* @awkward_ByteMaskedArray_getitem_nextcarry k_safe *)
Theorem C13_ByteMasked_nextcarry_safe :
  forall tocarry mask n vw,
  n <= zlen mask -> n <= zlen tocarry -> ByteMaskedArray_getitem_nextcarry tocarry mask n vw <> KOob.
Proof. exact ByteMasked_nextcarry_safe. Qed.
Print Assumptions C13_ByteMasked_nextcarry_safe.

(* @awkward_ByteMaskedArray_getitem_nextcarry k_spec *)
Theorem C13_ByteMasked_nextcarry_spec :
  forall tocarry mask vw,
  let valid := fun i => Bool.eqb (negb (at_ mask i =? 0)) vw in
  zlen (filter valid (iota (zlen mask))) <= zlen tocarry ->
  ByteMaskedArray_getitem_nextcarry tocarry mask (zlen mask) vw
  = KOk (filter valid (iota (zlen mask)) ++ skipn (length (filter valid (iota (zlen mask)))) tocarry).
Proof. exact ByteMasked_nextcarry_spec. Qed.
Print Assumptions C13_ByteMasked_nextcarry_spec.

(* @awkward_IndexedArray_flatten_nextcarry k_safe *)
Theorem C13_IndexedArray_flatten_nextcarry_safe :
  forall tocarry index n lc,
  n <= zlen index -> n <= zlen tocarry -> IndexedArray_flatten_nextcarry tocarry index n lc <> KOob.
Proof. exact IndexedArray_flatten_nextcarry_safe. Qed.
Print Assumptions C13_IndexedArray_flatten_nextcarry_safe.

(* @awkward_IndexedArray_flatten_nextcarry k_spec *)
Theorem C13_IndexedArray_flatten_nextcarry_spec :
  forall tocarry index lc,
  (forall i, 0 <= i < zlen index -> at_ index i < lc) ->
  zlen (filter (fun x => 0 <=? x) index) <= zlen tocarry ->
  IndexedArray_flatten_nextcarry tocarry index (zlen index) lc
  = KOk (filter (fun x => 0 <=? x) index ++ skipn (length (filter (fun x => 0 <=? x) index)) tocarry).
Proof. exact IndexedArray_flatten_nextcarry_spec. Qed.
Print Assumptions C13_IndexedArray_flatten_nextcarry_spec.

(* @awkward_ListArray_combinations_length k_spec *)
Theorem C13_combinations_count_binom :
  forall n size,
  1 <= n -> 0 <= size -> combinations_count n size = Z.of_nat (binom (Z.to_nat size) (Z.to_nat n)).
Proof. exact combinations_count_binom. Qed.
Print Assumptions C13_combinations_count_binom.

(* @awkward_reduce_sum aux *)
Theorem C13_reduce_generic_spec :
  forall tO init step toptr fromptr parents n ol,
  red_pre toptr fromptr parents n ol ->
  exists out, reduce_generic tO init step toptr fromptr parents n ol = KOk out /\ zlen out = zlen toptr /\
    forall q, 0 <= q ->
      at_ out q = if q <? ol then red_upto tO init step parents fromptr (Z.to_nat n) q else at_ toptr q.
Proof. exact reduce_generic_spec. Qed.
Print Assumptions C13_reduce_generic_spec.

(* @awkward_reduce_sum aux *)
Theorem C13_reduce_generic_safe :
  forall tO init step toptr fromptr parents n ol,
  red_pre toptr fromptr parents n ol -> reduce_generic tO init step toptr fromptr parents n ol <> KOob.
Proof. exact reduce_generic_safe. Qed.
Print Assumptions C13_reduce_generic_safe.

(* @awkward_reduce_sum k_safe *)
Theorem C13_reduce_sum_safe :
  forall tO toptr fromptr parents n ol,
  red_pre toptr fromptr parents n ol -> reduce_sum tO toptr fromptr parents n ol <> KOob.
Proof. exact reduce_sum_safe. Qed.
Print Assumptions C13_reduce_sum_safe.

(* @awkward_reduce_prod k_safe *)
Theorem C13_reduce_prod_safe :
  forall tO toptr fromptr parents n ol,
  red_pre toptr fromptr parents n ol -> reduce_prod tO toptr fromptr parents n ol <> KOob.
Proof. exact reduce_prod_safe. Qed.
Print Assumptions C13_reduce_prod_safe.

(* @awkward_reduce_max k_safe *)
Theorem C13_reduce_max_safe :
  forall tO idn toptr fromptr parents n ol,
  red_pre toptr fromptr parents n ol -> reduce_max tO idn toptr fromptr parents n ol <> KOob.
Proof. exact reduce_max_safe. Qed.
Print Assumptions C13_reduce_max_safe.

(* @awkward_reduce_min k_safe *)
Theorem C13_reduce_min_safe :
  forall tO idn toptr fromptr parents n ol,
  red_pre toptr fromptr parents n ol -> reduce_min tO idn toptr fromptr parents n ol <> KOob.
Proof. exact reduce_min_safe. Qed.
Print Assumptions C13_reduce_min_safe.

(* @awkward_reduce_countnonzero k_safe *)
Theorem C13_reduce_countnonzero_safe :
  forall toptr fromptr parents n ol,
  red_pre toptr fromptr parents n ol -> reduce_countnonzero toptr fromptr parents n ol <> KOob.
Proof. exact reduce_countnonzero_safe. Qed.
Print Assumptions C13_reduce_countnonzero_safe.

(* @awkward_reduce_sum k_spec *)
Theorem C13_reduce_sum_spec :
  forall toptr fromptr parents ol,
  zlen fromptr = zlen parents -> 0 <= ol <= zlen toptr ->
  (forall i, 0 <= i < zlen parents -> 0 <= at_ parents i < ol) ->
  exists out, reduce_sum TIdeal toptr fromptr parents (zlen parents) ol = KOk out /\ zlen out = zlen toptr /\
    forall q, 0 <= q -> at_ out q = if q <? ol then group_sum parents fromptr q else at_ toptr q.
Proof. exact reduce_sum_spec. Qed.
Print Assumptions C13_reduce_sum_spec.

(* @awkward_reduce_sum k_width *)
Theorem C13_reduce_sum_width :
  forall tO toptr fromptr parents n ol,
  red_pre toptr fromptr parents n ol ->
  (forall j q, (j <= Z.to_nat n)%nat -> fits tO (red_upto TIdeal 0 (fun _ cur x => cur + x) parents fromptr j q)) ->
  (forall i, 0 <= i < n -> fits tO (at_ fromptr i)) ->
  reduce_sum tO toptr fromptr parents n ol = reduce_sum TIdeal toptr fromptr parents n ol.
Proof. exact reduce_sum_width. Qed.
Print Assumptions C13_reduce_sum_width.

(* @awkward_reduce_count_64 k_spec *)
Theorem C13_reduce_count_spec :
  forall toptr parents ol,
  0 <= ol <= zlen toptr ->
  (forall i, 0 <= i < zlen parents -> 0 <= at_ parents i < ol) ->
  exists out, reduce_count toptr parents (zlen parents) ol = KOk out /\ zlen out = zlen toptr /\
    forall q, 0 <= q -> at_ out q = if q <? ol then Z.of_nat (count_occ Z.eq_dec parents q) else at_ toptr q.
Proof. exact reduce_count_spec. Qed.
Print Assumptions C13_reduce_count_spec.

(* @awkward_reduce_count_64 k_safe *)
Theorem C13_reduce_count_safe :
  forall toptr parents ol,
  0 <= ol <= zlen toptr -> (forall i, 0 <= i < zlen parents -> 0 <= at_ parents i < ol) ->
  reduce_count toptr parents (zlen parents) ol <> KOob.
Proof. exact reduce_count_safe. Qed.
Print Assumptions C13_reduce_count_safe.

(* @awkward_ListArray_compact_offsets k_spec *)
Theorem C13_ListArray_compact_offsets_spec :
  forall tooffsets starts stops,
  zlen stops = zlen starts -> zlen starts + 1 <= zlen tooffsets ->
  (forall i, 0 <= i < zlen starts -> at_ starts i <= at_ stops i) ->
  exists out, ListArray_compact_offsets TIdeal TIdeal tooffsets starts stops (zlen starts) = KOk out /\
    zlen out = zlen tooffsets /\
    forall q, 0 <= q -> at_ out q = if q <=? zlen starts then count_sum starts stops (Z.to_nat q) else at_ tooffsets q.
Proof. exact ListArray_compact_offsets_spec. Qed.
Print Assumptions C13_ListArray_compact_offsets_spec.

(* @awkward_ListArray_compact_offsets k_safe *)
Theorem C13_ListArray_compact_offsets_safe :
  forall tT tC tooffsets starts stops n,
  0 <= n -> n <= zlen starts -> n <= zlen stops -> n + 1 <= zlen tooffsets ->
  ListArray_compact_offsets tT tC tooffsets starts stops n <> KOob.
Proof. exact ListArray_compact_offsets_safe. Qed.
Print Assumptions C13_ListArray_compact_offsets_safe.

(* @awkward_IndexedArray_getitem_nextcarry k_safe *)
Theorem C13_IndexedArray_getitem_nextcarry_safe :
  forall tocarry index n lc,
  n <= zlen index -> n <= zlen tocarry -> IndexedArray_getitem_nextcarry tocarry index n lc <> KOob.
Proof. exact IndexedArray_getitem_nextcarry_safe. Qed.
Print Assumptions C13_IndexedArray_getitem_nextcarry_safe.

(* @awkward_IndexedArray_getitem_nextcarry k_spec *)
Theorem C13_IndexedArray_getitem_nextcarry_spec :
  forall tocarry index lc,
  zlen index <= zlen tocarry ->
  (forall i, 0 <= i < zlen index -> 0 <= at_ index i < lc) ->
  IndexedArray_getitem_nextcarry tocarry index (zlen index) lc = KOk (index ++ skipn (length index) tocarry).
Proof. exact IndexedArray_getitem_nextcarry_spec. Qed.
Print Assumptions C13_IndexedArray_getitem_nextcarry_spec.

(* @awkward_ListArray_getitem_next_range aux *)
Theorem C13_regularize_rangeslice_spec :
  forall start stop posstep hasstart hasstop length,
  0 <= length ->
  let '(s, e) := regularize_rangeslice start stop posstep hasstart hasstop length in
  if posstep then 0 <= s <= e /\ e <= length else -1 <= e <= s /\ s <= length - 1.
Proof. exact regularize_rangeslice_spec. Qed.
Print Assumptions C13_regularize_rangeslice_spec.

(* @awkward_ListArray_getitem_next_range aux *)
Theorem C13_regularize_rangeslice_width :
  forall start stop length,
  0 <= start <= stop -> stop <= length ->
  regularize_rangeslice start stop true true true length = (start, stop).
Proof. exact regularize_rangeslice_width. Qed.
Print Assumptions C13_regularize_rangeslice_width.

(* @awkward_reduce_prod k_spec *)
Theorem C13_reduce_prod_spec :
  forall tO toptr fromptr parents n ol,
  red_pre toptr fromptr parents n ol ->
  exists out, reduce_prod tO toptr fromptr parents n ol = KOk out /\ zlen out = zlen toptr /\
    forall q, 0 <= q ->
      at_ out q = if q <? ol then red_upto tO 1 (fun _ cur x => cur * wrap tO x) parents fromptr (Z.to_nat n) q
                  else at_ toptr q.
Proof. exact reduce_prod_spec. Qed.
Print Assumptions C13_reduce_prod_spec.

(* @awkward_reduce_max k_spec *)
Theorem C13_reduce_max_spec :
  forall tO idn toptr fromptr parents n ol,
  red_pre toptr fromptr parents n ol ->
  exists out, reduce_max tO idn toptr fromptr parents n ol = KOk out /\ zlen out = zlen toptr /\
    forall q, 0 <= q ->
      at_ out q = if q <? ol then red_upto tO idn (fun _ cur x => if cur <? x then x else cur) parents fromptr (Z.to_nat n) q
                  else at_ toptr q.
Proof. exact reduce_max_spec. Qed.
Print Assumptions C13_reduce_max_spec.

(* @awkward_reduce_min k_spec *)
Theorem C13_reduce_min_spec :
  forall tO idn toptr fromptr parents n ol,
  red_pre toptr fromptr parents n ol ->
  exists out, reduce_min tO idn toptr fromptr parents n ol = KOk out /\ zlen out = zlen toptr /\
    forall q, 0 <= q ->
      at_ out q = if q <? ol then red_upto tO idn (fun _ cur x => if x <? cur then x else cur) parents fromptr (Z.to_nat n) q
                  else at_ toptr q.
Proof. exact reduce_min_spec. Qed.
Print Assumptions C13_reduce_min_spec.

(* @awkward_reduce_countnonzero k_spec *)
Theorem C13_reduce_countnonzero_spec :
  forall toptr fromptr parents n ol,
  red_pre toptr fromptr parents n ol ->
  exists out, reduce_countnonzero toptr fromptr parents n ol = KOk out /\ zlen out = zlen toptr /\
    forall q, 0 <= q ->
      at_ out q = if q <? ol then red_upto i64 0 (fun _ cur x => cur + (if x =? 0 then 0 else 1)) parents fromptr (Z.to_nat n) q
                  else at_ toptr q.
Proof. exact reduce_countnonzero_spec. Qed.
Print Assumptions C13_reduce_countnonzero_spec.

(* @awkward_RegularArray_localindex k_safe *)
Theorem C13_RegularArray_localindex_safe :
  forall toindex size n,
  0 <= size -> 0 <= n -> n * size <= zlen toindex -> RegularArray_localindex toindex size n <> KOob.
Proof. exact RegularArray_localindex_safe. Qed.
Print Assumptions C13_RegularArray_localindex_safe.

(* @awkward_RegularArray_getitem_next_range k_safe *)
Theorem C13_RegularArray_getitem_next_range_safe :
  forall tocarry rs step n size nextsize,
  0 <= nextsize -> 0 <= n -> n * nextsize <= zlen tocarry ->
  RegularArray_getitem_next_range tocarry rs step n size nextsize <> KOob.
Proof. exact RegularArray_getitem_next_range_safe. Qed.
Print Assumptions C13_RegularArray_getitem_next_range_safe.

(* @awkward_RegularArray_getitem_carry k_safe *)
Theorem C13_RegularArray_getitem_carry_safe :
  forall tocarry fromcarry n size,
  0 <= size -> 0 <= n -> n <= zlen fromcarry -> n * size <= zlen tocarry ->
  RegularArray_getitem_carry tocarry fromcarry n size <> KOob.
Proof. exact RegularArray_getitem_carry_safe. Qed.
Print Assumptions C13_RegularArray_getitem_carry_safe.

(* @awkward_RegularArray_rpad_and_clip_axis1 k_safe *)
Theorem C13_RegularArray_rpad_and_clip_axis1_safe :
  forall toindex target size n,
  0 <= target -> 0 <= size -> 0 <= n -> n * target <= zlen toindex ->
  RegularArray_rpad_and_clip_axis1 toindex target size n <> KOob.
Proof. exact RegularArray_rpad_and_clip_axis1_safe. Qed.
Print Assumptions C13_RegularArray_rpad_and_clip_axis1_safe.

(* @awkward_index_rpad_and_clip_axis0 k_safe *)
Theorem C13_index_rpad_and_clip_axis0_safe :
  forall toindex target n,
  0 <= n -> target <= zlen toindex -> index_rpad_and_clip_axis0 toindex target n <> KOob.
Proof. exact index_rpad_and_clip_axis0_safe. Qed.
Print Assumptions C13_index_rpad_and_clip_axis0_safe.

(* @awkward_index_rpad_and_clip_axis0 k_spec *)
Theorem C13_index_rpad_and_clip_axis0_spec :
  forall toindex target n,
  0 <= n -> 0 <= target -> zlen toindex = target ->
  index_rpad_and_clip_axis0 toindex target n
  = KOk (iota (Z.min target n) ++ repeat (-1) (Z.to_nat (target - Z.min target n))).
Proof. exact index_rpad_and_clip_axis0_spec. Qed.
Print Assumptions C13_index_rpad_and_clip_axis0_spec.

(* @awkward_index_rpad_and_clip_axis1 k_safe *)
Theorem C13_index_rpad_and_clip_axis1_safe :
  forall tostarts tostops target n,
  n <= zlen tostarts -> n <= zlen tostops -> index_rpad_and_clip_axis1 tostarts tostops target n <> KOob.
Proof. exact index_rpad_and_clip_axis1_safe. Qed.
Print Assumptions C13_index_rpad_and_clip_axis1_safe.

(* @awkward_ListArray_localindex k_safe *)
Theorem C13_ListArray_localindex_safe :
  forall toindex offsets n,
  n + 1 <= zlen offsets ->
  (forall i, 0 <= i < n -> 0 <= at_ offsets i /\ at_ offsets (i + 1) <= zlen toindex) ->
  ListArray_localindex toindex offsets n <> KOob.
Proof. exact ListArray_localindex_safe. Qed.
Print Assumptions C13_ListArray_localindex_safe.

(* @awkward_ListArray_getitem_carry k_safe *)
Theorem C13_ListArray_getitem_carry_safe :
  forall tC tostarts tostops starts stops carry lenstarts n,
  n <= zlen carry -> n <= zlen tostarts -> n <= zlen tostops ->
  lenstarts <= zlen starts -> lenstarts <= zlen stops ->
  (forall i, 0 <= i < n -> 0 <= at_ carry i) ->
  ListArray_getitem_carry tC tostarts tostops starts stops carry lenstarts n <> KOob.
Proof. exact ListArray_getitem_carry_safe. Qed.
Print Assumptions C13_ListArray_getitem_carry_safe.

(* @awkward_IndexedArray_numnull k_safe *)
Theorem C13_IndexedArray_numnull_safe :
  forall numnull index n,
  n <= zlen index -> 1 <= zlen numnull -> IndexedArray_numnull numnull index n <> KOob.
Proof. exact IndexedArray_numnull_safe. Qed.
Print Assumptions C13_IndexedArray_numnull_safe.

(* @awkward_IndexedArray_numnull k_spec *)
Theorem C13_IndexedArray_numnull_spec :
  forall numnull index,
  1 <= zlen numnull ->
  exists out, IndexedArray_numnull numnull index (zlen index) = KOk out /\ zlen out = zlen numnull /\
    at_ out 0 = zlen (filter (fun x => x <? 0) index) /\ forall q, 1 <= q -> at_ out q = at_ numnull q.
Proof. exact IndexedArray_numnull_spec. Qed.
Print Assumptions C13_IndexedArray_numnull_spec.

(* @awkward_ListArray_min_range k_safe *)
Theorem C13_ListArray_min_range_safe :
  forall tC tomin starts stops n,
  1 <= zlen starts -> 1 <= zlen stops -> n <= zlen starts -> n <= zlen stops -> 1 <= zlen tomin ->
  ListArray_min_range tC tomin starts stops n <> KOob.
Proof. exact ListArray_min_range_safe. Qed.
Print Assumptions C13_ListArray_min_range_safe.

(* @awkward_ListArray_rpad_and_clip_length_axis1 k_safe *)
Theorem C13_ListArray_rpad_and_clip_length_axis1_safe :
  forall tC tomin starts stops target n,
  n <= zlen starts -> n <= zlen stops -> 1 <= zlen tomin ->
  ListArray_rpad_and_clip_length_axis1 tC tomin starts stops target n <> KOob.
Proof. exact ListArray_rpad_and_clip_length_axis1_safe. Qed.
Print Assumptions C13_ListArray_rpad_and_clip_length_axis1_safe.

(* @awkward_sorting_ranges_length k_safe *)
Theorem C13_sorting_ranges_length_safe :
  forall tolength parents n,
  n <= zlen parents -> 1 <= zlen tolength -> sorting_ranges_length tolength parents n <> KOob.
Proof. exact sorting_ranges_length_safe. Qed.
Print Assumptions C13_sorting_ranges_length_safe.

(* @awkward_ListOffsetArray_reduce_local_nextparents_64 k_safe *)
Theorem C13_reduce_local_nextparents_safe :
  forall nextparents offsets n,
  1 <= zlen offsets -> n + 1 <= zlen offsets ->
  (forall i, 0 <= i < n -> at_ offsets 0 <= at_ offsets i /\ at_ offsets (i + 1) - at_ offsets 0 <= zlen nextparents) ->
  reduce_local_nextparents nextparents offsets n <> KOob.
Proof. exact reduce_local_nextparents_safe. Qed.
Print Assumptions C13_reduce_local_nextparents_safe.

(* @awkward_NumpyArray_copy k_safe *)
Theorem C13_NumpyArray_copy_safe :
  forall toptr fromptr n,
  n <= zlen fromptr -> n <= zlen toptr -> NumpyArray_copy toptr fromptr n <> KOob.
Proof. exact NumpyArray_copy_safe. Qed.
Print Assumptions C13_NumpyArray_copy_safe.

(* @awkward_NumpyArray_copy k_spec *)
Theorem C13_NumpyArray_copy_spec :
  forall toptr fromptr,
  zlen fromptr <= zlen toptr ->
  NumpyArray_copy toptr fromptr (zlen fromptr) = KOk (fromptr ++ skipn (length fromptr) toptr).
Proof. exact NumpyArray_copy_spec. Qed.
Print Assumptions C13_NumpyArray_copy_spec.

(* @awkward_ListArray_combinations_length k_spec *)
Theorem C13_ListArray_combinations_length_spec :
  forall totallen tooffsets n replacement starts stops,
  zlen stops = zlen starts -> 1 <= zlen totallen -> zlen starts + 1 <= zlen tooffsets ->
  exists tl to, ListArray_combinations_length TIdeal totallen tooffsets n replacement starts stops (zlen starts) = KOk (tl, to) /\
    at_ tl 0 = comb_sum n replacement starts stops (length starts) /\
    zlen to = zlen tooffsets /\
    forall q, 0 <= q -> at_ to q = if q <=? zlen starts then comb_sum n replacement starts stops (Z.to_nat q)
                                   else at_ tooffsets q.
Proof. exact ListArray_combinations_length_spec. Qed.
Print Assumptions C13_ListArray_combinations_length_spec.
