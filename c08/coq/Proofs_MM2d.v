(** C08: mergemany on record / tuple operands — statements for Props, examples, the duplicate-key counter-example. *)
From Coq Require Import ZArith List Bool Lia ZifyBool.
From AwkV Require Import Base Layout LayoutInd Valid Types Carry Proofs_C11 Proofs_ToList Proofs_Carry.
From AwkMerge Require Import Merge Lemmas_C08 Proofs_C08 Proofs_MM Proofs_Simplify Proofs_MML Proofs_Concat
  Proofs_MM2 Proofs_MM2t Proofs_MM2b Proofs_MM2c.
Import ListNotations.
Open Scope Z_scope.

Lemma need2_le_csize s : forall c, hasS s c = true -> (need2 s <= csize c)%nat.
Proof.
  induction s as [s'|ks ss IH] using sk2_ind'; intros c H.
  - cbn in *. apply need_le_csize. exact H.
  - destruct c; cbn [hasS] in H; try discriminate. apply andb_true_iff in H. destruct H as [_ Ha].
    cbn [need2 csize]. apply le_n_S. revert cs Ha. induction IH as [|s1 sr H1 _ IHr]; intros [|c1 cr] Ha; cbn in Ha; try discriminate.
    + cbn. lia.
    + apply andb_true_iff in Ha. destruct Ha as [Ha1 Ha2]. cbn [fold_right]. specialize (H1 _ Ha1). specialize (IHr _ Ha2). lia.
Qed.

(* mergemany of record / tuple operands.  Fragment: the first operand has skeleton [s] strictly ([hasS]: a tuple or a
   record with its keys in the skeleton's order, no duplicate key, fields recursively; non-record fields in the has_sk
   fragment of Proofs_MM), every operand has it loosely ([hasL]: same keys in ANY order, what [trim] visits below a record
   field is [trimmable]), all operands valid and without parameters.  The result exists, is valid, has the skeleton
   strictly, and its values are the operands' values in order, each cast by [dcast] at the result's dtype tree
   (booleans -> 0/1 where the merged leaf type is a number, fields listed in the result's key order).
   _partial: records below a list / option node, n-d NumpyArray, strings / parameters (also record names), EmptyArray
   operands, RegularArray / BitMaskedArray directly as a record field, option-vs-non-option mixtures, records with a
   duplicate key (see mergemany_record_dupkeys_refuted) are still excluded. *)
Theorem mergemany_records_partial_pf : forall s a others,
  others <> [] -> ok2 s = true -> hasS s a = true -> Forall (fun c => hasL s c = true) (a :: others) ->
  Forall (fun c => valid_b c = true) (a :: others) -> Forall (fun c => no_par c = true) (a :: others) ->
  exists c, mergemany (a :: others) = Ok c /\ hasS s c = true /\ valid_b c = true /\
            Forall (fun x => to_list x = Ok (vals x)) (a :: others) /\
            to_list c = Ok (concat (map (fun x => map (dcast (dtree c)) (vals x)) (a :: others))).
Proof.
  intros s a others Hne Hok HaS HL Hv Hnp.
  assert (Ht : Forall tl_ok (a :: others)).
  { apply Forall_forall. intros x Hx. rewrite Forall_forall in Hv, Hnp.
    eapply valid_to_list_total_nopar; [|apply Hnp; exact Hx]. apply validity_exact_gen. apply Hv. exact Hx. }
  destruct (mm_k s (mm_fuel (a :: others)) a others) as (c & H1 & H2 & H3 & H4); auto.
  { pose proof (need2_le_csize _ _ HaS). unfold mm_fuel. cbn [fold_right length]. lia. }
  exists c. repeat split; auto. eapply Forall_impl; [|exact Ht]. intros x. apply tl_ok_vals.
Qed.

(* non-vacuity: {x: ?[bool], y: (int8, float64), z: uint8} (fields longer than the record) ++ the same keys in the order
   z, x, y with other leaf dtypes ++ a third operand *)
Example mergemany_records_example :
  let kx : name := [120] in let ky : name := [121] in let kz : name := [122] in
  let s := KRec (Some [kx; ky; kz]) [KOld (SIx (SList SNum)); KRec None [KOld SNum; KOld SNum]; KOld SNum] in
  let a := Record [IndexedOption I32 [0; -1; 1] (ListOffset I64 [0; 2; 3] (Numpy DBool [3] [DZ 1; DZ 0; DZ 1]));
                   Record [Numpy DInt8 [2] [DZ 1; DZ 2]; Numpy DFloat64 [3] [DZ 5; DNaN; DZ 7]] None 2;
                   Numpy DUInt8 [4] [DZ 9; DZ 8; DZ 7; DZ 6]] (Some [kx; ky; kz]) 2 in
  let b := Record [Numpy DInt16 [1] [DZ 300];
                   ByteMasked [1; 0] false (ListA I64 [0; 0] [0; 1] (Numpy DInt64 [1] [DZ 4]));
                   Record [Numpy DBool [1] [DZ 1]; Numpy DFloat32 [1] [DZ 2]] None 1] (Some [kz; kx; ky]) 1 in
  hasS s a = true /\ hasL s a = true /\ hasL s b = true /\ hasS s b = false /\ ok2 s = true /\
  valid_b a = true /\ valid_b b = true /\ no_par a = true /\ no_par b = true /\
  rmap (fun c => (to_list c, dtree c)) (mergemany [a; b; a])
  = Ok (Ok [VRec [(kx, VList [VNum (DZ 1); VNum (DZ 0)]); (ky, VTup [VNum (DZ 1); VNum (DZ 5)]); (kz, VNum (DZ 9))];
            VRec [(kx, VNone); (ky, VTup [VNum (DZ 2); VNum DNaN]); (kz, VNum (DZ 8))];
            VRec [(kx, VNone); (ky, VTup [VNum (DZ 1); VNum (DZ 2)]); (kz, VNum (DZ 300))];
            VRec [(kx, VList [VNum (DZ 1); VNum (DZ 0)]); (ky, VTup [VNum (DZ 1); VNum (DZ 5)]); (kz, VNum (DZ 9))];
            VRec [(kx, VNone); (ky, VTup [VNum (DZ 2); VNum DNaN]); (kz, VNum (DZ 8))]],
        DR (Some [kx; ky; kz]) [DL DInt64; DR None [DL DInt8; DL DFloat64]; DL DInt16]).
Proof. vm_compute. repeat split. Qed.

(* RecordArray with a DUPLICATE key: RecordArray::mergemany takes, for every key of the first operand, the FIRST field
   of that name of each later operand (field(key)), so the second "x" column of the second operand is replaced by its
   first "x" column: {x:3, x:4} is concatenated as {x:3, x:3}.  Both operands are valid (validityerror does not reject
   duplicate keys).  Excluded from the fragment by [nodupb]. *)
Example mergemany_record_dupkeys_refuted :
  let kx : name := [120] in
  let d1 := Record [Numpy DInt8 [1] [DZ 1]; Numpy DInt8 [1] [DZ 2]] (Some [kx; kx]) 1 in
  let d2 := Record [Numpy DInt8 [1] [DZ 3]; Numpy DInt8 [1] [DZ 4]] (Some [kx; kx]) 1 in
  valid_b d1 = true /\ valid_b d2 = true /\ mergeable true d1 d2 = true /\
  to_list d2 = Ok [VRec [(kx, VNum (DZ 3)); (kx, VNum (DZ 4))]] /\
  rmap to_list (mergemany [d1; d2])
  = Ok (Ok [VRec [(kx, VNum (DZ 1)); (kx, VNum (DZ 2))]; VRec [(kx, VNum (DZ 3)); (kx, VNum (DZ 3))]]).
Proof. vm_compute. repeat split. Qed.

Print Assumptions mergemany_records_partial_pf.
