(** Slicing, part 5: field items.  Projecting a field on the layout ([field_content]) is projecting
    it on the type ([proj_ty]) and on every value ([proj_v]); the projected layout is again valid and in
    the fragment. *)
From Coq Require Import ZArith List Bool Lia ZifyBool.
From AwkV Require Import Base Layout LayoutInd Valid Types AtAxis Carry Ops_Getitem Typing Proofs_Typing
                         Proofs_Lists Proofs_ToList Proofs_Carry Proofs_CarryValid Proofs_AtAxis Proofs_AtAxisOps
                         Proofs_C01 Proofs_Getitem Proofs_Getitem2 Proofs_Getitem3 Proofs_Getitem4.
Import ListNotations.
Open Scope Z_scope.
Ltac Zify.zify_post_hook ::= Z.to_euclidean_division_equations.

(* ---------------------------------------------------------------- field positions *)
Lemma index_of_range k ks : forall i0 i, index_of k ks i0 = Ok i -> i0 <= i < i0 + zlen ks.
Proof.
  induction ks as [|x r IH]; intros i0 i H; cbn [index_of] in H; [discriminate|].
  rewrite zlen_cons. pose proof (zlen_nonneg r). destruct (Ops_Getitem.name_eqb k x).
  - inversion H. lia.
  - apply IH in H. lia.
Qed.
Lemma tuple_index_nonneg k i : tuple_index k = Ok i -> 0 <= i.
Proof.
  unfold tuple_index. destruct k as [|c [|? ?]]; try discriminate. destruct (_ && _) eqn:E; [|discriminate].
  intros H. inversion H. lia.
Qed.
Lemma field_pos_range keys n k i :
  (forall ks, keys = Some ks -> zlen ks = n) -> field_pos keys n k = Ok i -> 0 <= i < n.
Proof.
  intros Hk. unfold field_pos.
  assert (Hpos : (do i0 <- tuple_index k; if i0 <? n then Ok i0 else Err EValue) = Ok i -> 0 <= i < n).
  { destruct (tuple_index k) as [i0|] eqn:E; cbn [bind]; [|discriminate]. apply tuple_index_nonneg in E.
    destruct (i0 <? n) eqn:E2; [|discriminate]. intros H. inversion H. lia. }
  destruct keys as [ks|]; [|exact Hpos].
  destruct (index_of k ks 0) as [i0|] eqn:E; [|exact Hpos].
  intros H. inversion H; subst. apply index_of_range in E. rewrite (Hk ks eq_refl) in E. lia.
Qed.
Lemma field_pos_err keys n k e : field_pos keys n k = Err e -> e = EValue.
Proof.
  unfold field_pos.
  assert (Hpos : (do i0 <- tuple_index k; if i0 <? n then Ok i0 else Err EValue) = Err e -> e = EValue).
  { unfold tuple_index. destruct k as [|c [|? ?]]; cbn [bind]; try (intros H; inversion H; reflexivity).
    destruct (_ && _); cbn [bind]; [|intros H; inversion H; reflexivity].
    destruct (_ <? n); [discriminate|]. intros H; inversion H; reflexivity. }
  destruct keys as [ks|]; [|exact Hpos]. destruct (index_of k ks 0); [discriminate|exact Hpos].
Qed.

(* ---------------------------------------------------------------- one row of a record, one field *)
Definition field_of (i : Z) (v : value) : res value :=
  match v with
  | VRec fs => do kv <- get fs i; Ok (snd kv)
  | VTup vs => get vs i
  | _ => Err EValue
  end.
Lemma row_proj ks vss j v i col :
  row ks vss j = Ok v -> get vss i = Ok col -> field_of i v = get col j.
Proof.
  unfold row. intros H Hc. apply bind_Ok in H as (vs & Hvs & H).
  assert (Hg : get vs i = get col j) by (rewrite (mapM_get _ _ _ i Hvs), Hc; reflexivity).
  pose proof (get_range _ _ _ Hc) as Hr. pose proof (mapM_zlen _ _ _ Hvs) as Hz.
  destruct ks as [k|].
  - destruct (Nat.eqb (length k) (length vs)) eqn:E; [|discriminate]. inversion H; subst. apply Nat.eqb_eq in E.
    cbn [field_of]. rewrite get_zip, Hg.
    destruct (get_ok k i) as [x Hx]; [unfold zlen in *; lia|]. rewrite Hx. cbn [bind].
    destruct (get col j); reflexivity.
  - inversion H; subst. exact Hg.
Qed.

Lemma proj_v_rec k keys ts v :
  proj_v k (TRec keys ts) v = do i <- field_pos keys (zlen ts) k; field_of i v.
Proof. cbn [proj_v]. destruct (field_pos keys (zlen ts) k); cbn [bind]; [|reflexivity]. destruct v; reflexivity. Qed.
Lemma proj_v_list k sz t l : proj_v k (TList sz None t) (VList l) = rmap VList (mapM (proj_v k t) l).
Proof. reflexivity. Qed.
Lemma proj_v_opt k t v : proj_v k (TOpt t) v = optF (proj_v k t) v.
Proof. cbn [proj_v optF]. destruct v; reflexivity. Qed.

(* ---------------------------------------------------------------- the projection of a layout *)
Definition FCres (k : name) (c : content) (xs : list value) : Prop :=
  match field_content k c with
  | Ok f => proj_ty k (type_of c) = Ok (type_of f) /\
            (exists ys, mapM (proj_v k (type_of c)) xs = Ok ys /\ to_list f = Ok ys) /\
            Valid None f /\ gfrag f = true
  | Err e => e = EValue /\ proj_ty k (type_of c) = Err EValue
  end.

Lemma chunks_same_shape {A B} (vs : list A) (ys : list B) size zl ch :
  chunks vs size zl = Ok ch -> zlen ys = zlen vs -> exists ch', chunks ys size zl = Ok ch' /\ zlen ch' = zlen ch.
Proof.
  intros H Hz. pose proof (chunks_zlen _ _ _ _ H) as [Hs Hl]. unfold chunks in *.
  destruct (size <? 0); [discriminate|]. destruct (size =? 0) eqn:E0.
  - destruct (zl <? 0) eqn:E1; [discriminate|]. eexists. split; [reflexivity|]. rewrite zlen_map, zlen_iota by lia. lia.
  - eexists. split; [reflexivity|]. unfold zlen at 1. rewrite chunks_nat_length. rewrite Hz, Hl.
    pose proof (zlen_nonneg vs). rewrite Z2Nat.id by (apply Z.div_pos; lia). reflexivity.
Qed.

(* an option node over the projected content *)
Lemma optF_picks (G : value -> res value) vs0 ys0 {A} (P : A -> bool * Z) (L : list A) xs :
  mapM G vs0 = Ok ys0 -> (forall x, In x vs0 -> x <> VNone) ->
  mapM (fun a => pick_opt vs0 (fst (P a)) (snd (P a))) L = Ok xs ->
  exists xs', mapM (fun a => pick_opt ys0 (fst (P a)) (snd (P a))) L = Ok xs' /\ mapM (optF G) xs = Ok xs'.
Proof.
  intros HG Hnn H. eapply mapM_square; [|exact H]. intros a v _ Hv. eapply pick_square; eassumption.
Qed.

Lemma fc_class k c : forall f,
  rec_fields_ok c = true -> field_content k c = Ok f ->
  rec_fields_ok f = true /\ (optionlike c = false -> optionlike f = false).
Proof.
  induction c using content_ind'; intros f Hr Hf; cbn [field_content] in Hf; try discriminate;
    try (apply rmap_Ok in Hf as (? & _ & ->); split; [reflexivity|auto]).
  - cbn [rec_fields_ok] in Hr. apply rec_fields_ok_all in Hr.
    apply bind_Ok in Hf as (i & _ & Hf). apply bind_Ok in Hf as (fi & Hfi & Hf).
    unfold crange in Hf. destruct (carry_class _ _ _ Hf) as [-> _]. rewrite (carry_rec_fields_ok _ _ _ Hf).
    apply get_In in Hfi. rewrite Forall_forall in Hr. destruct (Hr fi Hfi) as [H1 H2]. auto.
  - destruct arr; [discriminate|]. cbn [rec_fields_ok] in Hr. rewrite optionlike_Par. eapply IHc; eassumption.
Qed.

Lemma field_content_spec k c : forall xs, Valid None c -> gfrag c = true -> to_list c = Ok xs -> FCres k c xs.
Proof.
  unfold FCres.
  induction c as [dt shape data| |w o c IHc|w s e c IHc|c size zl IHc|w ix c IHc|w ix c IHc|m vw c IHc
                 |m vw lsb n c IHc|c IHc|w t ix cs IHcs|cs ks n IHcs|arr rn c IHc] using content_ind';
    intros xs HV Hfr Hl; cbn [field_content].
  - (* Numpy *) cbn [gfrag] in Hfr. destruct shape as [|? [|? ?]]; try discriminate. split; reflexivity.
  - (* Empty *) split; reflexivity.
  - (* ListOffset *)
    inversion HV; subst. rewrite to_list_ListOffset in Hl. apply bind_Ok in Hl as (vs0 & Hl0 & Hl).
    apply rmap_Ok in Hl as (ls & Hcut & ->).
    match goal with H : is_strk None = false -> Valid None c |- _ => pose proof (H eq_refl) as HVc end.
    specialize (IHc vs0 HVc Hfr Hl0). cbn [type_of type_of_p strflag proj_ty]. fold (type_of c).
    destruct (field_content k c) as [f'|e]; cbn [rmap].
    + destruct IHc as (Ht & (ys0 & Hys0 & Hlf) & HVf & Hff). rewrite Ht. cbn [rmap]. split; [reflexivity|].
      unfold cut in Hcut. destruct o as [|o0 o']; [discriminate|].
      destruct (cuts_mapM _ vs0 ys0 _ ls Hys0 Hcut) as (ls' & Hcut' & Hm).
      split; [|split].
      * exists (map VList ls'). split; [rewrite mapM_map; exact Hm|]. rewrite to_list_ListOffset, Hlf. cbn [bind cut]. rewrite Hcut'. reflexivity.
      * apply V_ListOffset; [exact I|assumption| |intros _; exact HVf].
        rewrite <- (to_list_len _ _ Hlf), (mapM_zlen _ _ _ Hys0), (to_list_len _ _ Hl0). assumption.
      * exact Hff.
    + destruct IHc as [-> ->]. split; reflexivity.
  - (* ListA *)
    inversion HV; subst. rewrite to_list_ListA in Hl. apply bind_Ok in Hl as (vs0 & Hl0 & Hl).
    apply rmap_Ok in Hl as (ls & Hcut & ->).
    match goal with H : is_strk None = false -> Valid None c |- _ => pose proof (H eq_refl) as HVc end.
    specialize (IHc vs0 HVc Hfr Hl0). cbn [type_of type_of_p strflag proj_ty]. fold (type_of c).
    destruct (field_content k c) as [f'|e0]; cbn [rmap].
    + destruct IHc as (Ht & (ys0 & Hys0 & Hlf) & HVf & Hff). rewrite Ht. cbn [rmap]. split; [reflexivity|].
      unfold cut2 in Hcut. destruct (zlen e <? zlen s) eqn:Ez; [discriminate|].
      destruct (cuts_mapM _ vs0 ys0 _ ls Hys0 Hcut) as (ls' & Hcut' & Hm).
      split; [|split].
      * exists (map VList ls'). split; [rewrite mapM_map; exact Hm|]. rewrite to_list_ListA, Hlf. cbn [bind]. unfold cut2. rewrite Ez, Hcut'. reflexivity.
      * apply V_ListA; [exact I|assumption| |intros _; exact HVf].
        rewrite <- (to_list_len _ _ Hlf), (mapM_zlen _ _ _ Hys0), (to_list_len _ _ Hl0). assumption.
      * exact Hff.
    + destruct IHc as [-> ->]. split; reflexivity.
  - (* Regular *)
    inversion HV; subst. rewrite to_list_Regular in Hl. apply bind_Ok in Hl as (vs0 & Hl0 & Hl).
    apply rmap_Ok in Hl as (ch & Hch & ->).
    match goal with H : is_strk None = false -> Valid None c |- _ => pose proof (H eq_refl) as HVc end.
    specialize (IHc vs0 HVc Hfr Hl0). cbn [type_of type_of_p strflag proj_ty]. fold (type_of c).
    destruct (field_content k c) as [f'|e0]; cbn [rmap].
    + destruct IHc as (Ht & (ys0 & Hys0 & Hlf) & HVf & Hff). rewrite Ht. cbn [rmap]. split; [reflexivity|].
      pose proof (chunks_as_cuts _ _ _ _ Hch) as Hcut.
      destruct (cuts_mapM _ vs0 ys0 _ ch Hys0 Hcut) as (ls' & Hcut' & Hm).
      destruct (chunks_same_shape vs0 ys0 size zl ch Hch (mapM_zlen _ _ _ Hys0)) as (ch' & Hch' & Hz').
      pose proof (chunks_as_cuts _ _ _ _ Hch') as Hcut''. rewrite Hz', Hcut' in Hcut''. inversion Hcut''; subst ch'.
      split; [|split].
      * exists (map VList ls'). split; [rewrite mapM_map; exact Hm|]. rewrite to_list_Regular, Hlf. cbn [bind]. rewrite Hch'. reflexivity.
      * apply V_Regular; [exact I|assumption|assumption|intros _; exact HVf].
      * exact Hff.
    + destruct IHc as [-> ->]. split; reflexivity.
  - (* Indexed *)
    inversion HV; subst. rewrite to_list_Indexed in Hl. apply bind_Ok in Hl as (vs0 & Hl0 & Hl).
    cbn [gfrag] in Hfr. apply andb_true_iff in Hfr as [Hrf Hfr].
    specialize (IHc vs0 ltac:(assumption) Hfr Hl0). cbn [type_of type_of_p]. fold (type_of c).
    destruct (field_content k c) as [f'|e0] eqn:Ef; cbn [rmap].
    + destruct IHc as (Ht & (ys0 & Hys0 & Hlf) & HVf & Hff). split; [exact Ht|].
      pose proof (mapM_gather_ok _ _ _ ix xs Hys0 Hl) as Hg.
      destruct (gather_ok ys0 ix) as [xs' Hxs'].
      { rewrite (mapM_zlen _ _ _ Hys0), (to_list_len _ _ Hl0). assumption. }
      split; [|split].
      * exists xs'. rewrite Hg. split; [exact Hxs'|]. rewrite to_list_Indexed, Hlf. exact Hxs'.
      * apply V_Indexed; [exact I| |eapply (fc_class k c f' Hrf Ef); assumption|exact HVf].
        rewrite <- (to_list_len _ _ Hlf), (mapM_zlen _ _ _ Hys0), (to_list_len _ _ Hl0). assumption.
      * cbn [gfrag]. rewrite Hff, andb_true_r. apply (fc_class k c f' Hrf Ef).
    + destruct IHc as [-> ->]. split; reflexivity.
  - (* IndexedOption *)
    inversion HV; subst. rewrite to_list_IndexedOption in Hl. apply bind_Ok in Hl as (vs0 & Hl0 & Hl).
    cbn [gfrag] in Hfr. apply andb_true_iff in Hfr as [Hrf Hfr].
    match goal with H : Valid None c |- _ => rename H into HVc end.
    match goal with H : optionlike c = false |- _ => rename H into Hno end.
    specialize (IHc vs0 HVc Hfr Hl0). cbn [type_of type_of_p proj_ty]. fold (type_of c).
    destruct (field_content k c) as [f'|e0] eqn:Ef; cbn [rmap].
    + destruct IHc as (Ht & (ys0 & Hys0 & Hlf) & HVf & Hff). rewrite Ht. cbn [rmap]. split; [reflexivity|].
      pose proof (nonone_values c vs0 HVc (gfrag_frag1 _ Hfr) Hno Hl0) as Hnn.
      destruct (mapM_square (fun i => pick_opt vs0 (0 <=? i) i) (fun i => pick_opt ys0 (0 <=? i) i) (optF (proj_v k (type_of c))) ix xs) as (xs' & Hp1 & Hp2); [|exact Hl|].
      { intros i v _ Hv. eapply pick_square; eassumption. }
      split; [|split].
      * exists xs'. split; [|rewrite to_list_IndexedOption, Hlf; exact Hp1].
        rewrite <- Hp2. apply mapM_ext_in. intros v _. apply proj_v_opt.
      * apply V_IndexedOption; [exact I| |eapply (fc_class k c f' Hrf Ef); assumption|exact HVf].
        rewrite <- (to_list_len _ _ Hlf), (mapM_zlen _ _ _ Hys0), (to_list_len _ _ Hl0). assumption.
      * cbn [gfrag]. rewrite Hff, andb_true_r. apply (fc_class k c f' Hrf Ef).
    + destruct IHc as [-> ->]. split; reflexivity.
  - (* ByteMasked *)
    inversion HV; subst. rewrite to_list_ByteMasked in Hl. apply bind_Ok in Hl as (vs0 & Hl0 & Hl).
    cbn [gfrag] in Hfr. apply andb_true_iff in Hfr as [Hrf Hfr].
    match goal with H : Valid None c |- _ => rename H into HVc end.
    match goal with H : optionlike c = false |- _ => rename H into Hno end.
    specialize (IHc vs0 HVc Hfr Hl0). cbn [type_of type_of_p proj_ty]. fold (type_of c).
    destruct (field_content k c) as [f'|e0] eqn:Ef; cbn [rmap].
    + destruct IHc as (Ht & (ys0 & Hys0 & Hlf) & HVf & Hff). rewrite Ht. cbn [rmap]. split; [reflexivity|].
      pose proof (nonone_values c vs0 HVc (gfrag_frag1 _ Hfr) Hno Hl0) as Hnn.
      destruct (mapM_square (fun im : Z * Z => let (i, b) := im in pick_opt vs0 (Bool.eqb (negb (b =? 0)) vw) i)
                  (fun im : Z * Z => let (i, b) := im in pick_opt ys0 (Bool.eqb (negb (b =? 0)) vw) i)
                  (optF (proj_v k (type_of c))) (zip (iota (zlen m)) m) xs) as (xs' & Hp1 & Hp2); [|exact Hl|].
      { intros [i b] v _ Hv. eapply pick_square; eassumption. }
      split; [|split].
      * exists xs'. split; [|rewrite to_list_ByteMasked, Hlf; exact Hp1].
        rewrite <- Hp2. apply mapM_ext_in. intros v _. apply proj_v_opt.
      * apply V_ByteMasked; [exact I| |eapply (fc_class k c f' Hrf Ef); assumption|exact HVf].
        rewrite <- (to_list_len _ _ Hlf), (mapM_zlen _ _ _ Hys0), (to_list_len _ _ Hl0). assumption.
      * cbn [gfrag]. rewrite Hff, andb_true_r. apply (fc_class k c f' Hrf Ef).
    + destruct IHc as [-> ->]. split; reflexivity.
  - (* BitMasked *)
    inversion HV; subst. rewrite to_list_BitMasked in Hl. apply bind_Ok in Hl as (vs0 & Hl0 & Hl).
    destruct (n <? 0) eqn:En; [discriminate|].
    cbn [gfrag] in Hfr. apply andb_true_iff in Hfr as [Hrf Hfr].
    match goal with H : Valid None c |- _ => rename H into HVc end.
    match goal with H : optionlike c = false |- _ => rename H into Hno end.
    specialize (IHc vs0 HVc Hfr Hl0). cbn [type_of type_of_p proj_ty]. fold (type_of c).
    destruct (field_content k c) as [f'|e0] eqn:Ef; cbn [rmap].
    + destruct IHc as (Ht & (ys0 & Hys0 & Hlf) & HVf & Hff). rewrite Ht. cbn [rmap]. split; [reflexivity|].
      pose proof (nonone_values c vs0 HVc (gfrag_frag1 _ Hfr) Hno Hl0) as Hnn.
      destruct (mapM_square (fun i => do b <- bit_at m lsb i; pick_opt vs0 (Bool.eqb b vw) i)
                  (fun i => do b <- bit_at m lsb i; pick_opt ys0 (Bool.eqb b vw) i)
                  (optF (proj_v k (type_of c))) (iota n) xs) as (xs' & Hp1 & Hp2); [|exact Hl|].
      { intros i v _ Hv. destruct (bit_at m lsb i) as [b|]; cbn [bind] in Hv |- *; [|discriminate]. eapply pick_square; eassumption. }
      split; [|split].
      * exists xs'. split; [|rewrite to_list_BitMasked, Hlf; cbn [bind]; rewrite En; exact Hp1].
        rewrite <- Hp2. apply mapM_ext_in. intros v _. apply proj_v_opt.
      * apply V_BitMasked; [exact I|assumption|assumption| |eapply (fc_class k c f' Hrf Ef); assumption|exact HVf].
        rewrite <- (to_list_len _ _ Hlf), (mapM_zlen _ _ _ Hys0), (to_list_len _ _ Hl0). assumption.
      * cbn [gfrag]. rewrite Hff, andb_true_r. apply (fc_class k c f' Hrf Ef).
    + destruct IHc as [-> ->]. split; reflexivity.
  - (* Unmasked *)
    inversion HV; subst. rewrite to_list_Unmasked in Hl.
    cbn [gfrag] in Hfr. apply andb_true_iff in Hfr as [Hrf Hfr].
    match goal with H : Valid None c |- _ => rename H into HVc end.
    match goal with H : optionlike c = false |- _ => rename H into Hno end.
    specialize (IHc xs HVc Hfr Hl). cbn [type_of type_of_p proj_ty]. fold (type_of c).
    destruct (field_content k c) as [f'|e0] eqn:Ef; cbn [rmap].
    + destruct IHc as (Ht & (ys0 & Hys0 & Hlf) & HVf & Hff). rewrite Ht. cbn [rmap]. split; [reflexivity|].
      pose proof (nonone_values c xs HVc (gfrag_frag1 _ Hfr) Hno Hl) as Hnn.
      split; [|split].
      * exists ys0. split; [|rewrite to_list_Unmasked; exact Hlf].
        rewrite <- (optF_nonone _ _ _ Hys0 Hnn). apply mapM_ext_in. intros v _. apply proj_v_opt.
      * apply V_Unmasked; [exact I|eapply (fc_class k c f' Hrf Ef); assumption|exact HVf].
      * cbn [gfrag]. rewrite Hff, andb_true_r. apply (fc_class k c f' Hrf Ef).
    + destruct IHc as [-> ->]. split; reflexivity.
  - (* Union *) discriminate.
  - (* Record *)
    inversion HV; subst. rewrite to_list_Record, all_lists_mapM in Hl. apply bind_Ok in Hl as (vss & Hvss & Hl).
    destruct (n <? 0) eqn:En; [discriminate|].
    match goal with H : Forall (Valid None) cs |- _ => rename H into HVs end.
    match goal with H : Forall (fun x => n <= clen x) cs |- _ => rename H into Hns end.
    match goal with H : forall k0, ks = Some k0 -> length k0 = length cs |- _ => rename H into Hks end.
    apply gfrag_Record in Hfr.
    cbn [type_of type_of_p proj_ty]. rewrite zlen_map.
    destruct (field_pos ks (zlen cs) k) as [i|e0] eqn:Ei; cbn [bind].
    2:{ apply field_pos_err in Ei. subst. split; reflexivity. }
    assert (Hi : 0 <= i < zlen cs).
    { eapply field_pos_range; [|exact Ei]. intros k0 ->. unfold zlen. rewrite (Hks k0 eq_refl). reflexivity. }
    destruct (get_ok cs i Hi) as [fi Hfi]. rewrite Hfi. cbn [bind]. pose proof (get_In _ _ _ Hfi) as Hin.
    rewrite Forall_forall in HVs, Hns, Hfr. specialize (HVs fi Hin). specialize (Hns fi Hin). specialize (Hfr fi Hin).
    assert (Hcol : exists col, get vss i = Ok col /\ to_list fi = Ok col).
    { pose proof (mapM_get _ _ _ i Hvss) as Hg. rewrite Hfi in Hg. cbn [bind] in Hg.
      destruct (get_ok vss i) as [col Hc]; [rewrite (mapM_zlen _ _ _ Hvss); exact Hi|]. exists col. split; [exact Hc|congruence]. }
    destruct Hcol as (col & Hgc & Hlc).
    destruct (crange_spec fi col 0 n HVs Hlc) as (f & Hf & Hlf & Hcf); try lia.
    rewrite Hf. rewrite get_map, Hfi. cbn [rmap]. unfold crange in Hf. rewrite (carry_type_of _ _ _ Hf). split; [reflexivity|].
    split; [|split].
    + exists (take (n - 0) (drop 0 col)).
      assert (Hsl : slice col 0 n = Ok (take (n - 0) (drop 0 col))).
      { apply slice_ok; try lia. rewrite (to_list_len _ _ Hlc). lia. }
      split; [|rewrite Hlf; exact Hsl].
      rewrite <- Hsl, <- gather_range by (rewrite ?(to_list_len _ _ Hlc); lia).
      replace (range 0 n) with (iota n) by (unfold range, iota; rewrite Z.sub_0_r; reflexivity).
      rewrite (mapM_mapM _ _ _ _ Hl). apply mapM_ext_in. intros j Hj.
      destruct (mapM_Ok_In _ _ _ _ Hl Hj) as (v & Hv & _). rewrite Hv. cbn [bind].
      rewrite proj_v_rec, zlen_map, Ei. cbn [bind]. eapply row_proj; eassumption.
    + eapply (crange_valid fi col 0 n); try eassumption; try lia.
    + rewrite (carry_gfrag _ _ _ Hf). exact Hfr.
  - (* Par *)
    cbn [gfrag] in Hfr. destruct arr; [discriminate|]. inversion HV; subst.
    rewrite to_list_Par in Hl. apply bind_Ok in Hl as (vs0 & Hl0 & Hl). inversion Hl; subst.
    cbn [type_of type_of_p]. apply IHc; assumption.
Qed.

(* ---------------------------------------------------------------- field item: equations *)
Lemma gn_IField f c k tl adv :
  match c with Numpy _ (_ :: _ :: _) _ => False | _ => True end ->
  gn (S f) c (IField k :: tl) adv = do fc <- field_content k c; gn f fc tl adv.
Proof. destruct c as [dt [|n [|m sh]] data| | | | | | | | | | | |]; try contradiction; intros _; reflexivity. Qed.
Lemma se_IField f T xs k tl adv :
  se_ f T xs (IField k :: tl) adv =
  do t' <- proj_ty k T; do ys <- mapM (proj_v k T) xs;
  sg f None None t' (map (fun x => Some [x]) ys) (IAt 0 :: tl) adv.
Proof. unfold se_. destruct (so_ty T); reflexivity. Qed.

(* ---------------------------------------------------------------- projections and the type relation *)
Lemma proj_ty_ow k T U : optwrap T U ->
  match proj_ty k U with
  | Ok U' => exists T', proj_ty k T = Ok T' /\ optwrap T' U'
  | Err e => proj_ty k T = Err e
  end.
Proof.
  induction 1 as [T|T U H IH].
  - destruct (proj_ty k T); [eexists; split; [reflexivity|apply ow_refl]|reflexivity].
  - cbn [proj_ty]. destruct (proj_ty k U) as [U'|e].
    + destruct IH as (T' & -> & Ho). cbn [rmap]. eexists. split; [reflexivity|apply ow_opt, Ho].
    + rewrite IH. reflexivity.
Qed.

Lemma has_type_none_opt U : has_typeb U VNone = true -> (forall ts, U <> TUnion ts) -> exists U0, U = TOpt U0.
Proof.
  destruct U as [d| |sz [b|] t|t|[ks|] ts|ts]; cbn [has_typeb]; try discriminate; eauto.
  intros _ H. exfalso. eapply H. reflexivity.
Qed.
Lemma proj_v_ow k T U x : optwrap T U -> has_typeb U x = true -> (forall ts, U <> TUnion ts) -> proj_v k T x = proj_v k U x.
Proof.
  intros H Hx Hu. induction H as [T|T U H IH]; [reflexivity|]. rewrite proj_v_opt. specialize (IH Hx Hu).
  destruct x; cbn [optF]; try exact IH.
  destruct (has_type_none_opt U Hx Hu) as [U0 ->]. reflexivity.
Qed.

Lemma gfrag_type_not_union c : gfrag c = true -> forall ts, type_of c <> TUnion ts.
Proof.
  intros Hf ts E. destruct (gfrag_ty_cases c Hf) as [[d H]|[H|[(sz & u & H)|(ks & us & H)]]]; rewrite E in H; discriminate.
Qed.

(* a projected field is not deeper than the record *)
Lemma zmax_list_In d l x : In x l -> x <= zmax_list d l.
Proof. unfold zmax_list. induction l as [|y l IH]; cbn [fold_right In]; [contradiction|]. intros [->|H]; [lia|]. specialize (IH H). lia. Qed.
Lemma proj_ty_depth k T : forall T', proj_ty k T = Ok T' -> tdepth T' <= tdepth T.
Proof.
  unfold tdepth. induction T as [d| |sz str t IH|t IH|ks ts IH|ts IH] using ty_ind'; intros T' H; cbn [proj_ty] in H; try discriminate.
  - destruct str; [discriminate|]. apply rmap_Ok in H as (t' & Ht & ->). specialize (IH _ Ht). cbn [minmax].
    destruct (minmax t), (minmax t'). cbn [snd] in *. lia.
  - apply rmap_Ok in H as (t' & Ht & ->). cbn [minmax]. auto.
  - apply bind_Ok in H as (i & _ & H). apply get_In in H. cbn [minmax]. destruct ts as [|t0 rest]; [contradiction|].
    cbn [snd]. apply zmax_list_In. rewrite map_map. apply in_map_iff. exists T'. auto.
Qed.

(* ---------------------------------------------------------------- field item at the element level *)
Lemma PSE_field k tl Nm Ns K : PSE Nm Ns K tl -> PSE (1 + Nm) (1 + Ns) K (IField k :: tl).
Proof.
  intros IH fm fs c T xs Hfm Hfs HK Hsc HV Hfr Hl HT.
  destruct fm as [|fm]; [lia|]. destruct fs as [|fs]; [lia|].
  rewrite gn_IField by (apply gfrag_not_nd, Hfr). rewrite se_IField.
  pose proof (field_content_spec k c xs HV Hfr Hl) as Hfc. unfold FCres in Hfc.
  pose proof (proj_ty_ow k T _ HT) as Hpt.
  destruct (field_content k c) as [f|e]; cbn [bind].
  - destruct Hfc as (Hty & (ys & Hys & Hlf) & HVf & Hff). rewrite Hty in Hpt. destruct Hpt as (T' & HT' & Ho).
    cbn [sc] in Hsc. rewrite HT' in Hsc |- *. cbn [bind].
    assert (Hys' : mapM (proj_v k T) xs = Ok ys).
    { rewrite <- Hys. apply mapM_ext_in. intros x Hx. apply proj_v_ow; [exact HT| |apply gfrag_type_not_union, Hfr].
      pose proof (to_list_typed_thm c xs HV Hl) as Hty'. rewrite Forall_forall in Hty'. apply Hty', Hx. }
    rewrite Hys'. cbn [bind]. rewrite sg_singletons.
    rewrite <- (mapM_zlen _ _ _ Hys). apply R_reinsert_id; [|reflexivity].
    apply IH; try assumption; try lia. pose proof (proj_ty_depth k T T' HT'). lia.
  - destruct Hfc as [-> He]. rewrite He in Hpt. rewrite Hpt. cbn [bind]. split; reflexivity.
Qed.

(* ---------------------------------------------------------------- field item at the list level *)
Definition proj_l (k : name) (t : ty) (o : option (list value)) : res (option (list value)) :=
  match o with
  | None => Ok None
  | Some l => rmap Some (mapM (proj_v k t) l)
  end.
Lemma sg_IField' f str sz t lists k tail adv :
  sg (S f) str sz t lists (IField k :: tail) adv =
  do t' <- proj_ty k t; do ls <- mapM (proj_l k t) lists; sg f None sz t' ls tail adv.
Proof. reflexivity. Qed.

Lemma proj_ty_list k U : forall sz t, so_ty U = TList sz None t ->
  match proj_ty k t with
  | Ok t' => exists U', proj_ty k U = Ok U' /\ so_ty U' = TList sz None t'
  | Err e => proj_ty k U = Err e
  end.
Proof.
  induction U; intros sz t Hs; cbn [so_ty] in Hs; try discriminate.
  - inversion Hs; subst. cbn [proj_ty]. destruct (proj_ty k t); cbn [rmap]; [eexists; split; reflexivity|reflexivity].
  - specialize (IHU sz t Hs). cbn [proj_ty]. destruct (proj_ty k t).
    + destruct IHU as (U' & -> & Hs'). cbn [rmap]. eexists. split; [reflexivity|exact Hs'].
    + rewrite IHU. reflexivity.
Qed.
Lemma proj_v_list_view k U : forall sz t x, so_ty U = TList sz None t -> has_typeb U x = true ->
  (do y <- proj_v k U x; as_list y) = (do o <- as_list x; proj_l k t o).
Proof.
  induction U; intros sz t x Hs Hx; cbn [so_ty] in Hs; try discriminate.
  - inversion Hs; subst. cbn [has_typeb] in Hx. destruct x; try discriminate. rewrite proj_v_list. cbn [as_list bind proj_l].
    destruct (mapM (proj_v k t) l); reflexivity.
  - rewrite proj_v_opt. destruct x; cbn [optF has_typeb] in *; try (eapply IHU; eassumption). reflexivity.
Qed.

Lemma PSG_field k tl Nm Ns K : PSG Nm Ns K tl -> PSG (1 + Nm) (1 + Ns) K (IField k :: tl).
Proof.
  intros IH fm fs c T xs sz t ls Hfm Hfs HK Hsc HV Hfr Hl HT Hs Hls.
  destruct fm as [|fm]; [lia|]. destruct fs as [|fs]; [lia|].
  rewrite gn_IField by (apply gfrag_not_nd, Hfr). rewrite sg_IField'.
  pose proof (field_content_spec k c xs HV Hfr Hl) as Hfc. unfold FCres in Hfc.
  pose proof (list_type_of_c c T sz t HT Hs) as HsU.
  pose proof (proj_ty_list k (type_of c) sz t HsU) as Hpl.
  pose proof (proj_ty_ow k T _ HT) as Hpt.
  pose proof (to_list_typed_thm c xs HV Hl) as Htyped.
  destruct (field_content k c) as [f|e]; cbn [bind].
  - destruct Hfc as (Hty & (ys & Hys & Hlf) & HVf & Hff). rewrite Hty in Hpt. destruct Hpt as (T' & HT' & Ho).
    destruct (proj_ty k t) as [t'|e] eqn:Et; [|rewrite Hpl in Hty; discriminate].
    destruct Hpl as (U' & HU' & HsU'). rewrite Hty in HU'. inversion HU'; subst U'. cbn [bind].
    assert (Hm : mapM (proj_l k t) ls = mapM as_list ys).
    { rewrite (mapM_mapM _ _ _ _ Hys), (mapM_mapM _ _ _ _ Hls). apply mapM_ext_in. intros x Hx.
      symmetry. eapply proj_v_list_view; [exact HsU|]. rewrite Forall_forall in Htyped. apply Htyped, Hx. }
    destruct (as_list_total ys (list_values f ys sz t' HVf Hlf HsU')) as [ls' Hls']. rewrite Hm, Hls'. cbn [bind].
    rewrite <- (mapM_zlen _ _ _ Hys).
    apply (IH fm fs f (type_of f) ys sz t' ls'); try assumption; try lia.
    + pose proof (proj_ty_depth k _ _ Hty) as Hd. unfold tdepth in *. rewrite <- (ow_minmax _ _ HT) in Hd. lia.
    + cbn [sc] in Hsc. rewrite HT' in Hsc. rewrite <- (sc_ow _ _ _ Ho). exact Hsc.
    + apply ow_refl.
  - destruct Hfc as [-> He]. rewrite He in Hpl. destruct (proj_ty k t) as [t'|e'] eqn:Et.
    + destruct Hpl as (? & Hx & _). discriminate.
    + inversion Hpl; subst. split; reflexivity.
Qed.
