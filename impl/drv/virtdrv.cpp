// virtdrv: C18 sessions on /repo's libawkward -- VirtualArray with scripted ArrayGenerator / ArrayCache
// subclasses, and IrregularlyPartitionedArray.  One session per stdin line.
//
//  (id virt (layout L) (wrap PATH...) (gen SCRIPT...) (cache MODE) (declare D...) (ops STEP...))
//     PATH    = (i j ...) child path in the S-expression of L (as harness/gen.py `nodes`); () = the root.
//               `(wrap 3 3)` (atoms only) is one path; `(wrap (3) (4 3))` several (pairwise not nested).
//     SCRIPT  = per wrapped node, outcome of the generator per invocation (last one repeats):
//               o = the node itself, s = the node cut short by one (same form), f = an array of another form,
//               t = throws.   Aliases: ok, throws, throws-first-then-ok, wrong-length, wrong-form.
//               `(gen o t o)` (atoms only) is the script of the first wrap; `(gen (t o) (o))` one per wrap.
//     MODE    = none | keep | evict-always | broken | (flaky n1 n2 ...)   (evict everything just before the
//               n-th access (get/set) of the cache, counted from 1); events (evict) (break) in the steps.
//     D       = (LEN FORM): LEN = none | true | integer ; FORM = none | ok | wrong
//               `(declare LEN FORM)` (atoms) declares for every wrap.
//     STEP    = (OP args)            on the whole array
//             | (on I OP args)       on the (array) result of step I
//             | (quiet OP args) / (quiet on I OP args)   result kept but not dumped (stays lazy)
//             | (evict) | (break)
//     OP      = len | valid | tojson | type | depth | num AX | flatten AX | localindex AX | getitem SLICE
//             | at I | range A B | carry (i..) | field K | fields (K..) | reduce NAME AX MASK KEEP
//             | sort AX ASC STABLE | argsort AX ASC STABLE | combinations N REPL AX | rpad T AX | rpadclip T AX
//             | simplify | materialize
//             | keys                 numfields / keys / key(i) / fieldindex(k) / haskey(k) (and of a name that is no key)
//             | form                 does the Form of the object conform to the Form of the eager object
//                                    (Form::equal in compatibility mode, the test of generate_and_check) -- 1 | 0
//             | obs                  everything the object answers about itself without being asked for elements:
//                                    (len ..) (depth ..) (type ..) (form ..) (keys ..)
//     An array result of a step stays alive (the very C++ object: a lazy VirtualArray keeps what it cached when it
//     was made) and is the target of later `(on I ...)` steps, whatever happens to the cache in between.
//   answer: (id ok (step (v build) (e build) (n ..) (t ..))          <- construction of the two layouts
//                  (step (v ok R|= | err C | lazy) [(veq 1 | 0 V E)] (e ok R | err C | lazy) (n c0 c1..) (t TOKEN...)) ...)
//     "=" : same dump as the eager result; otherwise (veq ..) compares the two results by value (element walk)
//     TOKEN = e (flaky eviction) | b+ b- (is_broken) | g<k>+ g<k>- (get hit/miss) | G<k><outcome> | s<k> (set)
//             | E (explicit evict) | B (explicit break)
//
//  (id part (layout L) (stops s1 s2 ...) (ops STEP...))
//     STEP = (at I) | (range A B STEP) | (narrow A B STEP) | (repartition t1 ...) | (pidx I) | (tojson) | (len)
//          | (numpartitions) | (start I) | (stop I)
//   every step is run on L split at the stops, on the eager L, and on the positions array [0..n-1] split the
//   same way:  (step (p ok R) (e ok R) (q ok R) [(es EAGER-SLICE...) (peq 1|(0 V E) ...) (ty same|differ ..)] [(aeq ..)])
#include "drv_common.h"
#include "awkward/type/Type.h"
#include "awkward/virtual/ArrayGenerator.h"
#include "awkward/virtual/ArrayCache.h"
#include "awkward/partition/PartitionedArray.h"
#include "awkward/partition/IrregularlyPartitionedArray.h"
#include <map>
#include <set>
#include <algorithm>

using namespace drv;

// ---------------------------------------------------------------- trace
static std::vector<std::string> g_trace;
static void tr(const std::string& s) { g_trace.push_back(s); }
static std::string keyidx(const std::string& key) {  // "k3" -> "3"
  if (key.size() >= 2 && key[0] == 'k') return key.substr(1);
  return "?" + key;
}

// ---------------------------------------------------------------- scripted cache
class ScriptedCache : public ArrayCache {
 public:
  enum Mode { keep, evict_always, broken, flaky };
  ScriptedCache(Mode m, const std::set<int64_t>& at) : mode_(m), evict_at_(at), broken_(m == broken) {}
  ContentPtr get(const std::string& key) const override {
    access();
    if (broken_) { tr("g" + keyidx(key) + "-"); return ContentPtr(nullptr); }
    auto it = map_.find(key);
    if (it == map_.end()) { tr("g" + keyidx(key) + "-"); return ContentPtr(nullptr); }
    tr("g" + keyidx(key) + "+");
    return it->second;
  }
  void set(const std::string& key, const ContentPtr& value) override {
    access();
    tr("s" + keyidx(key));
    if (broken_) return;
    map_[key] = value;
    if (mode_ == evict_always) { map_.clear(); tr("e"); }
  }
  bool is_broken() const override { tr(broken_ ? "b+" : "b-"); return broken_; }
  const std::string tostring_part(const std::string& indent, const std::string& pre,
                                  const std::string& post) const override {
    return indent + pre + "<ScriptedCache/>" + post;
  }
  void evict_all() { map_.clear(); tr("E"); }
  void do_break() { broken_ = true; map_.clear(); tr("B"); }
 private:
  void access() const {
    naccess_++;
    if (mode_ == flaky && evict_at_.count(naccess_)) { map_.clear(); tr("e"); }
  }
  Mode mode_;
  std::set<int64_t> evict_at_;
  mutable std::map<std::string, ContentPtr> map_;
  mutable int64_t naccess_ = 0;
  bool broken_;
};

// ---------------------------------------------------------------- scripted generator
class ScriptedGenerator : public ArrayGenerator {
 public:
  ScriptedGenerator(const FormPtr& form, int64_t length, const ContentPtr& payload, const std::string& script,
                    int idx, const std::shared_ptr<int64_t>& counter)
      : ArrayGenerator(form, length), payload_(payload), script_(script), idx_(idx), counter_(counter) {}
  const ContentPtr generate() const override {
    int64_t n = (*counter_)++;
    char o = script_.empty() ? 'o' : script_[(size_t)std::min<int64_t>(n, (int64_t)script_.size() - 1)];
    tr("G" + std::to_string(idx_) + std::string(1, o));
    if (o == 't') throw std::runtime_error("scripted generator failure");
    if (o == 's') {
      int64_t len = payload_->length();
      if (len == 0) throw std::logic_error("script 's' on an empty node");
      return payload_->getitem_range_nowrap(0, len - 1);
    }
    if (o == 'f') return other_form(payload_);
    return payload_;
  }
  static ContentPtr other_form(const ContentPtr& p) {
    util::RecordLookupPtr lookup = std::make_shared<util::RecordLookup>();
    lookup->push_back("__wf__");
    return std::make_shared<RecordArray>(Identities::none(), util::Parameters(), ContentPtrVec({p}), lookup,
                                         p->length());
  }
  void caches(std::vector<ArrayCachePtr>& out) const override {}
  const std::string tostring_part(const std::string& indent, const std::string& pre,
                                  const std::string& post) const override {
    return indent + pre + "<ScriptedGenerator/>" + post;
  }
  const std::shared_ptr<ArrayGenerator> shallow_copy() const override {
    return std::make_shared<ScriptedGenerator>(form_, length_, payload_, script_, idx_, counter_);
  }
  const std::shared_ptr<ArrayGenerator> with_form(const FormPtr& form) const override {
    return std::make_shared<ScriptedGenerator>(form, length_, payload_, script_, idx_, counter_);
  }
  const std::shared_ptr<ArrayGenerator> with_length(int64_t length) const override {
    return std::make_shared<ScriptedGenerator>(form_, length, payload_, script_, idx_, counter_);
  }
  bool referentially_equal(const ArrayGeneratorPtr& other) const override { return other.get() == this; }
 private:
  ContentPtr payload_;
  std::string script_;
  int idx_;
  std::shared_ptr<int64_t> counter_;
};

// ---------------------------------------------------------------- building with wrapped nodes
struct WrapSpec {
  std::vector<int64_t> path;
  std::string script = "o";
  bool has_len = false; bool len_true = false; int64_t len = -1;
  std::string form = "none";
  std::shared_ptr<int64_t> counter = std::make_shared<int64_t>(0);
};
struct VSession {
  std::vector<WrapSpec> wraps;
  ArrayCachePtr cache;
};

static bool is_prefix(const std::vector<int64_t>& a, const std::vector<int64_t>& b) {
  if (a.size() > b.size()) return false;
  for (size_t i = 0; i < a.size(); i++) if (a[i] != b[i]) return false;
  return true;
}

static ContentPtr vbuild(const Sx& x, std::vector<int64_t>& cur, const VSession& vs, bool under_par);

static ContentPtr vchild(const Sx& x, size_t i, std::vector<int64_t>& cur, const VSession& vs, bool par = false) {
  cur.push_back((int64_t)i);
  ContentPtr c = vbuild(x[i], cur, vs, par);
  cur.pop_back();
  return c;
}

static ContentPtr vbuild_node(const Sx& x, std::vector<int64_t>& cur, const VSession& vs) {
  const std::string h = x.head();
  const util::Parameters np;
  IdentitiesPtr noid = Identities::none();
  // is some wrap strictly below this node?
  bool below = false;
  for (auto& w : vs.wraps) if (is_prefix(cur, w.path) && w.path.size() > cur.size()) below = true;
  if (!below) return build(x);
  if (h == "lo") {
    const std::string w = x[1].a; auto o = to_i64s(x[2]); ContentPtr c = vchild(x, 3, cur, vs);
    if (w == "i32") return std::make_shared<ListOffsetArray32>(noid, np, mkindex<int32_t>(o), c);
    if (w == "u32") return std::make_shared<ListOffsetArrayU32>(noid, np, mkindex<uint32_t>(o), c);
    return std::make_shared<ListOffsetArray64>(noid, np, mkindex<int64_t>(o), c);
  }
  if (h == "la") {
    const std::string w = x[1].a; auto s = to_i64s(x[2]); auto e = to_i64s(x[3]); ContentPtr c = vchild(x, 4, cur, vs);
    if (w == "i32") return std::make_shared<ListArray32>(noid, np, mkindex<int32_t>(s), mkindex<int32_t>(e), c);
    if (w == "u32") return std::make_shared<ListArrayU32>(noid, np, mkindex<uint32_t>(s), mkindex<uint32_t>(e), c);
    return std::make_shared<ListArray64>(noid, np, mkindex<int64_t>(s), mkindex<int64_t>(e), c);
  }
  if (h == "reg") return std::make_shared<RegularArray>(noid, np, vchild(x, 3, cur, vs), to_i64(x[1]), to_i64(x[2]));
  if (h == "ix") {
    const std::string w = x[1].a; auto ix = to_i64s(x[2]); ContentPtr c = vchild(x, 3, cur, vs);
    if (w == "i32") return std::make_shared<IndexedArray32>(noid, np, mkindex<int32_t>(ix), c);
    if (w == "u32") return std::make_shared<IndexedArrayU32>(noid, np, mkindex<uint32_t>(ix), c);
    return std::make_shared<IndexedArray64>(noid, np, mkindex<int64_t>(ix), c);
  }
  if (h == "ixo") {
    const std::string w = x[1].a; auto ix = to_i64s(x[2]); ContentPtr c = vchild(x, 3, cur, vs);
    if (w == "i32") return std::make_shared<IndexedOptionArray32>(noid, np, mkindex<int32_t>(ix), c);
    return std::make_shared<IndexedOptionArray64>(noid, np, mkindex<int64_t>(ix), c);
  }
  if (h == "bym")
    return std::make_shared<ByteMaskedArray>(noid, np, mkindex<int8_t>(to_i64s(x[1])), vchild(x, 3, cur, vs),
                                             to_i64(x[2]) != 0);
  if (h == "bim")
    return std::make_shared<BitMaskedArray>(noid, np, mkindex<uint8_t>(to_i64s(x[1])), vchild(x, 5, cur, vs),
                                            to_i64(x[2]) != 0, to_i64(x[4]), to_i64(x[3]) != 0);
  if (h == "unm") return std::make_shared<UnmaskedArray>(noid, np, vchild(x, 1, cur, vs));
  if (h == "un") {
    const std::string w = x[1].a;
    auto tags = mkindex<int8_t>(to_i64s(x[2]));
    auto ix = to_i64s(x[3]);
    ContentPtrVec cs;
    for (size_t i = 4; i < x.size(); i++) cs.push_back(vchild(x, i, cur, vs));
    if (w == "i32") return std::make_shared<UnionArray8_32>(noid, np, tags, mkindex<int32_t>(ix), cs);
    if (w == "u32") return std::make_shared<UnionArray8_U32>(noid, np, tags, mkindex<uint32_t>(ix), cs);
    return std::make_shared<UnionArray8_64>(noid, np, tags, mkindex<int64_t>(ix), cs);
  }
  if (h == "rec") {
    int64_t len = to_i64(x[1]);
    util::RecordLookupPtr lookup(nullptr);
    if (!x[2].is("tuple")) {
      lookup = std::make_shared<util::RecordLookup>();
      for (auto& k : x[2].l) lookup->push_back(k.a);
    }
    ContentPtrVec cs;
    for (size_t i = 3; i < x.size(); i++) cs.push_back(vchild(x, i, cur, vs));
    return std::make_shared<RecordArray>(noid, np, cs, lookup, len);
  }
  if (h == "par") {
    ContentPtr c = vchild(x, 3, cur, vs, true);
    util::Parameters ps = c->parameters();
    if (!x[1].is("none")) ps["__array__"] = quoted(x[1].a);
    if (!x[2].is("none")) ps["__record__"] = quoted(x[2].a);
    c->setparameters(ps);
    return c;
  }
  throw std::logic_error("vbuild: unknown node " + x.str());
}

static ContentPtr vbuild(const Sx& x, std::vector<int64_t>& cur, const VSession& vs, bool under_par) {
  int which = -1;
  for (size_t i = 0; i < vs.wraps.size(); i++) if (vs.wraps[i].path == cur) which = (int)i;
  if (which < 0) return vbuild_node(x, cur, vs);
  if (under_par) throw std::logic_error("wrap directly below a par node (the parameters belong to the node)");
  const WrapSpec& w = vs.wraps[(size_t)which];
  ContentPtr inner = build(x);      // wraps are not nested
  FormPtr form(nullptr);
  if (w.form == "ok") form = inner->form(true);
  else if (w.form == "wrong") form = ScriptedGenerator::other_form(inner)->form(true);
  int64_t length = -1;
  if (w.has_len) length = w.len_true ? inner->length() : w.len;
  ArrayGeneratorPtr gen = std::make_shared<ScriptedGenerator>(form, length, inner, w.script, which, w.counter);
  // the node carries the parameters of the array it stands for (ak.virtual(..., parameters=...))
  return std::make_shared<VirtualArray>(Identities::none(), inner->parameters(), gen, vs.cache,
                                        "k" + std::to_string(which));
}

// ---------------------------------------------------------------- operations
static const Reducer* reducer_of(const std::string& n) {
  static ReducerCount count; static ReducerCountNonzero countnonzero; static ReducerSum sum;
  static ReducerProd prod; static ReducerAny any; static ReducerAll all;
  static ReducerMin mn; static ReducerMax mx; static ReducerArgmin argmin; static ReducerArgmax argmax;
  if (n == "count") return &count;
  if (n == "count_nonzero") return &countnonzero;
  if (n == "sum") return &sum;
  if (n == "prod") return &prod;
  if (n == "any") return &any;
  if (n == "all") return &all;
  if (n == "min") return &mn;
  if (n == "max") return &mx;
  if (n == "argmin") return &argmin;
  if (n == "argmax") return &argmax;
  throw std::logic_error("unknown reducer " + n);
}

static std::string codes(const std::string& t) {
  std::string o = "(";
  for (unsigned char ch : t) { if (o.size() > 1) o += " "; o += std::to_string((int)ch); }
  return o + ")";
}

// canonical dump of a result (Record: the one-element range of its array)
static std::string dump_result(const ContentPtr& c) {
  if (const Record* r = dynamic_cast<const Record*>(c.get())) {
    ContentPtr arr = r->array()->shallow_copy();
    return "(record 0 " + dump(arr->getitem_range_nowrap(r->at(), r->at() + 1)) + ")";
  }
  return dump(c);
}

// ---- value of an array, by walking it through the public element access (getitem_at_nowrap); record fields in
// name order, strings as units, numbers without their dtype.  Used to compare two arrays that are dumped differently.
static std::string value_elem(const ContentPtr& e);

static bool is_stringlike(const ContentPtr& c) {
  return c->parameter_equals("__array__", "\"string\"") || c->parameter_equals("__array__", "\"bytestring\"");
}

static std::string value_array(const ContentPtr& c0) {
  ContentPtr c = c0;
  while (const VirtualArray* v = dynamic_cast<const VirtualArray*>(c.get())) c = v->array();
  std::string o = "(l";
  int64_t n = c->length();
  for (int64_t i = 0; i < n; i++) o += " " + value_elem(c->getitem_at_nowrap(i));
  return o + ")";
}

static std::string value_elem(const ContentPtr& e0) {
  ContentPtr e = e0;
  while (const VirtualArray* v = dynamic_cast<const VirtualArray*>(e.get())) e = v->array();
  if (dynamic_cast<const None*>(e.get())) return "none";
  if (const Record* r = dynamic_cast<const Record*>(e.get())) {
    std::vector<std::string> ks = r->keys();
    std::vector<std::pair<std::string, std::string>> kv;
    for (auto& k : ks) kv.push_back(std::make_pair(k, value_elem(r->field(k))));
    std::sort(kv.begin(), kv.end());
    std::string o = r->istuple() ? "(t" : "(r";
    for (auto& p : kv) o += " (" + p.first + " " + p.second + ")";
    return o + ")";
  }
  if (const NumpyArray* a = dynamic_cast<const NumpyArray*>(e.get())) {
    if (a->ndim() == 0) {
      util::dtype d = a->dtype();
      std::string x = load(d, (const char*)a->ptr().get() + a->byteoffset(), 0);
      if (d == util::dtype::boolean) return x == "1" ? "true" : "false";
      return x;
    }
  }
  if (is_stringlike(e)) {
    std::string o = e->parameter_equals("__array__", "\"string\"") ? "(s" : "(b";
    int64_t n = e->length();
    for (int64_t i = 0; i < n; i++) o += " " + value_elem(e->getitem_at_nowrap(i));
    return o + ")";
  }
  return value_array(e);
}

static std::string value_result(const ContentPtr& c) {
  return value_elem(c);
}

// the value of an already dumped result: the dump is rebuilt as an eager layout first, so that the walk never
// touches a generator or a cache (a lazy result would be generated again by every access)
static std::string value_of_dump(const std::string& text) {
  Sx x = parse_line(text);
  const std::string h = x.head();
  if (h == "scalar" || h == "none" || h == "unknown" || h.empty()) return text;
  if (h == "record") return value_elem(build(x[2])->getitem_at_nowrap(to_i64(x[1])));
  // (an array whose top node is a string list is an array of strings, not one string: walk it as an array, so that
  //  the same strings behind an IndexedArray compare equal)
  ContentPtr c = build(x);
  return is_stringlike(c) ? value_array(c) : value_elem(c);
}

// ---- observations: what an array says about itself (answered by a VirtualArray from its Form / cached depths)
// the eager counterpart of the object being observed (set while the virtual side of a step runs; null otherwise)
static ContentPtr g_peer(nullptr);

template <typename F>
static std::string part(const char* name, F f) {
  std::string v;
  try { v = f(); }
  catch (std::invalid_argument& e) { v = "!value"; }
  catch (std::logic_error& e) { throw; }
  catch (std::runtime_error& e) { v = "!runtime"; }
  catch (std::exception& e) { v = "!other"; }
  return std::string("(") + name + " " + v + ")";
}

static std::string obs_depth(const ContentPtr& c) {
  auto mm = c->minmax_depth();
  auto bd = c->branch_depth();
  return "(" + std::to_string(c->purelist_depth()) + " " + std::to_string(mm.first) + " " + std::to_string(mm.second)
         + " " + (bd.first ? "1" : "0") + " " + std::to_string(bd.second) + " " + (c->purelist_isregular() ? "1" : "0") + ")";
}

static std::string obs_keys(const ContentPtr& c) {
  std::string o = "((nf " + std::to_string(c->numfields()) + ")";
  std::vector<std::string> ks = c->keys();
  o += " (keys";
  for (size_t i = 0; i < ks.size(); i++) o += " " + ks[i];
  o += ")";
  for (size_t i = 0; i < ks.size(); i++) {
    o += " (fidx " + ks[i] + " " + std::to_string(c->fieldindex(ks[i])) + ")";
    o += " (key " + std::to_string(i) + " " + c->key((int64_t)i) + ")";
    o += std::string(" (has ") + ks[i] + " " + (c->haskey(ks[i]) ? "1" : "0") + ")";
  }
  o += std::string(" (has zz ") + (c->haskey("zz") ? "1" : "0") + ")";
  // the two refusals every array must make (asked last: by now the Form is known, so a refusal is not a failed generation)
  o += " " + part("fidx-zz", [&]() { return std::to_string(c->fieldindex("zz")); });
  o += " " + part("key-99", [&]() { return c->key(99); });
  return o + ")";
}

// Form of the (virtual) object against the Form of its eager counterpart: the library's own conformance test
// (ArrayGenerator::generate_and_check: expected->equal(generated, identities, parameters, no form keys, compatibility))
static std::string obs_form(const ContentPtr& c) {
  if (g_peer.get() == nullptr) return "1";
  FormPtr vf = c->form(true);
  FormPtr ef = g_peer->form(true);
  return (vf->equal(ef, false, true, false, true) && ef->equal(vf, false, true, false, true)) ? "1" : "0";
}

// op = list (NAME args...) starting at index `b` of `s`.  Array results go to `out`, others to `text`.
static void apply_op(const Sx& s, size_t b, const ContentPtr& c, ContentPtr& out, std::string& text) {
  const std::string op = s[b].a;
  auto A = [&](size_t i) -> const Sx& { return s[b + i]; };
  out = ContentPtr(nullptr);
  if (op == "len") { text = std::to_string(c->length()); return; }
  if (op == "valid") { text = c->validityerror("").empty() ? "1" : "0"; return; }
  if (op == "tojson") { text = codes(c->tojson(false, -1)); return; }
  if (op == "type") { text = codes(c->type(util::TypeStrs())->tostring()); return; }
  if (op == "depth") { text = obs_depth(c); return; }
  if (op == "keys") { text = obs_keys(c); return; }
  if (op == "form") { text = obs_form(c); return; }
  if (op == "obs") {
    // no element is asked for.  (A part that raises ends the step, like any other operation: with a failing
    // generator the eager array answers and the virtual one cannot.)
    text = "((len " + std::to_string(c->length()) + ") (depth " + obs_depth(c) + ") (type "
           + codes(c->type(util::TypeStrs())->tostring()) + ") (form " + obs_form(c) + ") (keys " + obs_keys(c) + "))";
    return;
  }
  if (op == "purelist_parameter") { text = codes(c->purelist_parameter(A(1).a)); return; }
  if (op == "num") { out = c->num(to_i64(A(1)), 0); return; }
  if (op == "flatten") { out = c->offsets_and_flattened(to_i64(A(1)), 0).second; return; }
  if (op == "localindex") { out = c->localindex(to_i64(A(1)), 0); return; }
  if (op == "getitem") { out = c->getitem(build_slice(A(1))); return; }
  if (op == "at") { out = c->getitem_at(to_i64(A(1))); return; }
  if (op == "range") { out = c->getitem_range(bound(A(1)), bound(A(2))); return; }
  if (op == "carry") { out = c->carry(mkindex<int64_t>(to_i64s(A(1))), false); return; }
  if (op == "lazycarry") { out = c->carry(mkindex<int64_t>(to_i64s(A(1))), true); return; }
  if (op == "field") { out = c->getitem_field(A(1).a); return; }
  if (op == "fields") {
    std::vector<std::string> ks;
    for (auto& k : A(1).l) ks.push_back(k.a);
    out = c->getitem_fields(ks);
    return;
  }
  if (op == "reduce") {
    out = c->reduce(*reducer_of(A(1).a), to_i64(A(2)), to_i64(A(3)) != 0, to_i64(A(4)) != 0);
    return;
  }
  if (op == "sort") { out = c->sort(to_i64(A(1)), to_i64(A(2)) != 0, to_i64(A(3)) != 0); return; }
  if (op == "argsort") { out = c->argsort(to_i64(A(1)), to_i64(A(2)) != 0, to_i64(A(3)) != 0); return; }
  if (op == "combinations") {
    out = c->combinations(to_i64(A(1)), to_i64(A(2)) != 0, nullptr, util::Parameters(), to_i64(A(3)), 0);
    return;
  }
  if (op == "rpad") { out = c->rpad(to_i64(A(1)), to_i64(A(2)), 0); return; }
  if (op == "rpadclip") { out = c->rpad_and_clip(to_i64(A(1)), to_i64(A(2)), 0); return; }
  if (op == "simplify") { out = c->shallow_simplify(); return; }
  if (op == "materialize") { out = c; return; }
  throw std::logic_error("unknown op " + op);
}

struct Outcome {
  bool ok = false;
  std::string err;       // class when !ok
  ContentPtr arr;        // array result (may be lazy)
  std::string text;      // dumped result
};

// run one operation; `do_dump` false keeps an array result undumped
static Outcome run_op(const Sx& s, size_t b, const ContentPtr& c, bool do_dump) {
  Outcome o;
  try {
    apply_op(s, b, c, o.arr, o.text);
    if (o.arr.get() != nullptr) {
      if (do_dump) o.text = dump_result(o.arr); else o.text = "lazy";
    }
    o.ok = true;
  } catch (std::invalid_argument& e) { o.err = "value"; }
  catch (std::logic_error& e) { throw; }
  catch (std::runtime_error& e) { o.err = "runtime"; }
  catch (std::exception& e) { o.err = "other"; }
  if (!o.ok) o.arr = ContentPtr(nullptr);
  return o;
}

static const Sx& field_of(const Sx& cs, const char* name) {
  for (size_t i = 2; i < cs.size(); i++) if (cs[i].head() == name) return cs[i];
  throw std::logic_error(std::string("missing field ") + name);
}
static bool has_field(const Sx& cs, const char* name) {
  for (size_t i = 2; i < cs.size(); i++) if (cs[i].head() == name) return true;
  return false;
}
static bool all_atoms(const Sx& x, size_t from) {
  for (size_t i = from; i < x.size(); i++) if (!x[i].atom) return false;
  return true;
}
static std::string script_of(const Sx& x, size_t from) {   // atoms from index `from`
  std::string s;
  for (size_t i = from; i < x.size(); i++) {
    const std::string& a = x[i].a;
    if (a == "ok") s += "o";
    else if (a == "throws") s += "t";
    else if (a == "throws-first-then-ok") s += "to";
    else if (a == "wrong-length") s += "s";
    else if (a == "wrong-form") s += "f";
    else if (a.size() == 1 && std::string("osft").find(a) != std::string::npos) s += a;
    else throw std::logic_error("gen script item " + a);
  }
  return s.empty() ? "o" : s;
}
static void declare_of(const Sx& len, const Sx& form, WrapSpec& w) {
  if (len.is("none")) w.has_len = false;
  else if (len.is("true")) { w.has_len = true; w.len_true = true; }
  else { w.has_len = true; w.len = to_i64(len); }
  if (!(form.is("none") || form.is("ok") || form.is("wrong"))) throw std::logic_error("declare form " + form.str());
  w.form = form.a;
}

static std::string handle_virt(const Sx& cs) {
  const Sx& L = field_of(cs, "layout")[1];
  VSession vs;
  // wraps
  const Sx& wr = field_of(cs, "wrap");
  if (all_atoms(wr, 1)) { WrapSpec w; for (size_t i = 1; i < wr.size(); i++) w.path.push_back(to_i64(wr[i])); vs.wraps.push_back(w); }
  else for (size_t i = 1; i < wr.size(); i++) { WrapSpec w; w.path = to_i64s(wr[i]); vs.wraps.push_back(w); }
  for (size_t i = 0; i < vs.wraps.size(); i++)
    for (size_t j = 0; j < vs.wraps.size(); j++)
      if (i != j && is_prefix(vs.wraps[i].path, vs.wraps[j].path)) throw std::logic_error("nested wraps");
  if (has_field(cs, "gen")) {
    const Sx& g = field_of(cs, "gen");
    if (all_atoms(g, 1)) vs.wraps[0].script = script_of(g, 1);
    else for (size_t i = 1; i < g.size() && i - 1 < vs.wraps.size(); i++) vs.wraps[i - 1].script = script_of(g[i], 0);
  }
  if (has_field(cs, "declare")) {
    const Sx& d = field_of(cs, "declare");
    if (all_atoms(d, 1)) { if (d.size() >= 3) for (auto& w : vs.wraps) declare_of(d[1], d[2], w); }
    else for (size_t i = 1; i < d.size() && i - 1 < vs.wraps.size(); i++) declare_of(d[i][0], d[i][1], vs.wraps[i - 1]);
  }
  // cache
  std::shared_ptr<ScriptedCache> cache(nullptr);
  if (has_field(cs, "cache")) {
    const Sx& c = field_of(cs, "cache")[1];
    std::set<int64_t> at;
    if (c.is("none")) {}
    else if (c.is("keep")) cache = std::make_shared<ScriptedCache>(ScriptedCache::keep, at);
    else if (c.is("evict-always")) cache = std::make_shared<ScriptedCache>(ScriptedCache::evict_always, at);
    else if (c.is("broken")) cache = std::make_shared<ScriptedCache>(ScriptedCache::broken, at);
    else if (c.head() == "flaky") {
      for (size_t i = 1; i < c.size(); i++) at.insert(to_i64(c[i]));
      cache = std::make_shared<ScriptedCache>(ScriptedCache::flaky, at);
    }
    else throw std::logic_error("cache mode " + c.str());
  }
  vs.cache = cache;

  auto counts = [&]() {
    std::string n = "(n";
    for (auto& w : vs.wraps) n += " " + std::to_string(*w.counter);
    return n + ")";
  };
  auto trace = [&]() {
    std::string t = "(t";
    for (auto& x : g_trace) t += " " + x;
    return t + ")";
  };
  ContentPtr eager(nullptr), virt(nullptr);
  std::cerr << "@E -1" << std::endl;
  try { eager = build(L); }
  catch (std::invalid_argument& e) { return "(step (v build) (e err value) (n) (t))"; }
  std::vector<int64_t> cur;
  g_trace.clear();
  std::cerr << "@V -1" << std::endl;
  // construction is step 0 of the answer (a parent's constructor may already ask the child for its length)
  std::string out;
  try { virt = vbuild(L, cur, vs, false); }
  catch (std::invalid_argument& e) { return "(step (v err value) (e build) " + counts() + " " + trace() + ")"; }
  catch (std::logic_error& e) { throw; }
  catch (std::runtime_error& e) { return "(step (v err runtime) (e build) " + counts() + " " + trace() + ")"; }
  out = "(step (v build) (e build) " + counts() + " " + trace() + ")";

  const Sx& ops = field_of(cs, "ops");
  std::vector<ContentPtr> vres, eres;
  for (size_t k = 1; k < ops.size(); k++) {
    const Sx& st = ops[k];
    g_trace.clear();
    std::string vtxt, etxt;
    ContentPtr vr(nullptr), er(nullptr);
    if (st.head() == "evict" || st.head() == "break") {
      if (cache.get() != nullptr) { if (st.head() == "evict") cache->evict_all(); else cache->do_break(); }
      vtxt = "(v event)"; etxt = "(e event)";
    }
    else {
      size_t b = 0;
      bool quiet = false;
      if (st[b].is("quiet")) { quiet = true; b++; }
      ContentPtr vtarget = virt, etarget = eager;
      bool have = true;
      if (st[b].is("on")) {
        int64_t i = to_i64(st[b + 1]);
        if (i < 0 || (size_t)i >= vres.size()) throw std::logic_error("on: bad step index");
        vtarget = vres[(size_t)i]; etarget = eres[(size_t)i];
        b += 2;
        if (vtarget.get() == nullptr || etarget.get() == nullptr) have = false;
      }
      if (!have) { vtxt = "(v skip)"; etxt = "(e skip)"; }
      else {
        std::cerr << "@E " << (k - 1) << std::endl;
        Outcome eo = run_op(st, b, etarget, !quiet);
        std::cerr << "@V " << (k - 1) << std::endl;
        g_peer = etarget;
        Outcome vo = run_op(st, b, vtarget, !quiet);
        g_peer = ContentPtr(nullptr);
        if (vo.ok) {
          vr = vo.arr;
          bool same = eo.ok && eo.text == vo.text && !quiet;
          vtxt = "(v ok " + (same ? std::string("=") : vo.text) + ")";
          if (!same && !quiet && eo.ok && vo.arr.get() != nullptr && eo.arr.get() != nullptr) {
            // differently dumped arrays: compare the values element by element
            std::string vv, ev;
            try { vv = value_of_dump(vo.text); ev = value_of_dump(eo.text); }
            catch (std::exception& e) { vv = "(walk-failed)"; ev = "(walk-failed-too)"; }
            if (vv == ev) vtxt += " (veq 1)";
            else vtxt += " (veq 0 " + vv + " " + ev + ")";
          }
        }
        else vtxt = "(v err " + vo.err + ")";
        if (eo.ok) { er = eo.arr; etxt = "(e ok " + eo.text + ")"; }
        else etxt = "(e err " + eo.err + ")";
        // keep array results only when both sides have one (Record/None results are not operated on further)
        if (vr.get() == nullptr || er.get() == nullptr ||
            dynamic_cast<Record*>(vr.get()) || dynamic_cast<Record*>(er.get()) ||
            dynamic_cast<None*>(vr.get()) || dynamic_cast<None*>(er.get()) ||
            (dynamic_cast<NumpyArray*>(er.get()) && dynamic_cast<NumpyArray*>(er.get())->ndim() == 0)) {
          vr = ContentPtr(nullptr); er = ContentPtr(nullptr);
        }
      }
    }
    vres.push_back(vr); eres.push_back(er);
    out += " (step " + vtxt + " " + etxt + " " + counts() + " " + trace() + ")";
  }
  return out;
}

// ---------------------------------------------------------------- partitioned sessions
static std::string dump_parts(const PartitionedArrayPtr& p) {
  std::string o = "(parts (";
  const IrregularlyPartitionedArray* ir = dynamic_cast<const IrregularlyPartitionedArray*>(p.get());
  if (ir == nullptr) throw std::logic_error("not irregularly partitioned");
  std::vector<int64_t> st = ir->stops();
  for (size_t i = 0; i < st.size(); i++) { if (i) o += " "; o += std::to_string(st[i]); }
  o += ")";
  for (int64_t i = 0; i < p->numpartitions(); i++) o += " " + dump(p->partition(i));
  return o + ")";
}

static PartitionedArrayPtr split(const ContentPtr& c, const std::vector<int64_t>& stops) {
  ContentPtrVec parts;
  int64_t start = 0;
  for (auto s : stops) {
    if (s < start || s > c->length()) throw std::logic_error("stops not monotone within the array");
    parts.push_back(c->getitem_range_nowrap(start, s));
    start = s;
  }
  return std::make_shared<IrregularlyPartitionedArray>(parts, stops);
}

struct POut {
  bool ok = false; std::string err, text, value;
  PartitionedArrayPtr next; ContentPtr nexteager;
  PartitionedArrayPtr pres;   // partitioned result of range / narrow / repartition
  ContentPtr cres;            // eager result of the same
};

template <typename F>
static void guarded(POut& o, F f) {
  try { f(); o.ok = true; }
  catch (std::invalid_argument& e) { o.err = "value"; }
  catch (std::logic_error& e) { throw; }
  catch (std::runtime_error& e) { o.err = "runtime"; }
  catch (std::exception& e) { o.err = "other"; }
}

static POut part_op(const Sx& st, const PartitionedArrayPtr& p) {
  POut o;
  const std::string op = st.head();
  guarded(o, [&]() {
    if (op == "at") { ContentPtr x = p->getitem_at(to_i64(st[1])); o.text = dump_result(x); o.value = value_result(x); }
    else if (op == "range" || op == "narrow") {
      PartitionedArrayPtr r = p->getitem_range(bound(st[1]), bound(st[2]), bound(st[3]));
      o.text = dump_parts(r);
      o.pres = r;
      if (op == "narrow") o.next = r;
    }
    else if (op == "repartition") {
      std::vector<int64_t> target;
      if (st.size() == 2 && !st[1].atom) target = to_i64s(st[1]);
      else for (size_t i = 1; i < st.size(); i++) target.push_back(to_i64(st[i]));
      PartitionedArrayPtr r = p->repartition(target);
      o.text = dump_parts(r);
      o.next = r;
      o.pres = r;
    }
    else if (op == "pidx") {
      int64_t pid = -7, ix = -7;
      p->partitionid_index_at(to_i64(st[1]), pid, ix);
      o.text = "(" + std::to_string(pid) + " " + std::to_string(ix) + ")";
    }
    else if (op == "tojson") o.text = codes(p->tojson(false, -1));
    else if (op == "len") o.text = std::to_string(p->length());
    else if (op == "numpartitions") o.text = std::to_string(p->numpartitions());
    else if (op == "start") {
      int64_t i = to_i64(st[1]);
      if (i < 0 || i >= p->numpartitions()) throw std::logic_error("start: partition id");
      o.text = std::to_string(p->start(i));
    }
    else if (op == "stop") {
      int64_t i = to_i64(st[1]);
      if (i < 0 || i >= p->numpartitions()) throw std::logic_error("stop: partition id");
      o.text = std::to_string(p->stop(i));
    }
    else throw std::logic_error("unknown partition op " + op);
  });
  return o;
}

static POut eager_op(const Sx& st, const ContentPtr& c) {
  POut o;
  const std::string op = st.head();
  guarded(o, [&]() {
    if (op == "at") { ContentPtr x = c->getitem_at(to_i64(st[1])); o.text = dump_result(x); o.value = value_result(x); }
    else if (op == "range" || op == "narrow") {
      Slice s;
      s.append(std::make_shared<SliceRange>(bound(st[1]), bound(st[2]), bound(st[3])));
      s.become_sealed();
      ContentPtr r = c->getitem(s);
      o.text = dump(r);
      o.cres = r;
      if (op == "narrow") o.nexteager = r;
    }
    else if (op == "repartition") { o.text = dump(c); o.cres = c; }
    else if (op == "tojson") o.text = codes(c->tojson(false, -1));
    else if (op == "len") o.text = std::to_string(c->length());
    else o.text = "na";
  });
  return o;
}

static std::string show(const char* tag, const POut& o) {
  return std::string("(") + tag + (o.ok ? " ok " + o.text : " err " + o.err) + ")";
}

static std::string handle_part(const Sx& cs) {
  ContentPtr eager = build(field_of(cs, "layout")[1]);
  std::vector<int64_t> stops;
  const Sx& sx = field_of(cs, "stops");
  for (size_t i = 1; i < sx.size(); i++) stops.push_back(to_i64(sx[i]));
  if (stops.empty() || stops.back() != eager->length()) throw std::logic_error("stops must end at the array length");
  int64_t n = eager->length();
  std::vector<int64_t> posv;
  for (int64_t i = 0; i < n; i++) posv.push_back(i);
  ContentPtr pos = std::make_shared<NumpyArray>(mkindex<int64_t>(posv));
  PartitionedArrayPtr p = split(eager, stops);
  PartitionedArrayPtr q = split(pos, stops);
  const Sx& ops = field_of(cs, "ops");
  std::string out;
  for (size_t k = 1; k < ops.size(); k++) {
    const Sx& st = ops[k];
    std::cerr << "@E " << (k - 1) << std::endl;
    POut eo = eager_op(st, eager);
    std::cerr << "@P " << (k - 1) << std::endl;
    POut po = part_op(st, p);
    std::cerr << "@Q " << (k - 1) << std::endl;
    POut qo = part_op(st, q);
    // the eager result cut at the stops of the partitioned result (for a partition-by-partition comparison)
    std::string es;
    if (po.ok && eo.ok && po.pres.get() != nullptr && eo.cres.get() != nullptr) {
      std::vector<int64_t> rs = dynamic_cast<const IrregularlyPartitionedArray*>(po.pres.get())->stops();
      bool fits = !rs.empty() && rs.back() == eo.cres->length();
      int64_t start = 0;
      for (auto s : rs) { if (s < start) fits = false; start = s; }
      if (!fits) es = " (es lengths-differ " + std::to_string(eo.cres->length()) + ")";
      else {
        es = " (es";
        start = 0;
        std::string peq = " (peq";
        int64_t pi = 0;
        for (auto s : rs) {
          ContentPtr slice = eo.cres->getitem_range_nowrap(start, s);
          es += " " + dump(slice);
          std::string a, b;
          try { a = value_array(po.pres->partition(pi)); b = value_array(slice); }
          catch (std::exception& e) { a = "(walk-failed)"; b = "(walk-failed-too)"; }
          peq += (a == b) ? " 1" : " (0 " + a + " " + b + ")";
          start = s;
          pi++;
        }
        es += ")" + peq + ")";
      }
      // element types (a slice keeps the type; repartition merges and may legitimately change the node class)
      if (st.head() == "range" || st.head() == "narrow") {
        std::string et = eo.cres->type(util::TypeStrs())->tostring();
        bool same = true;
        std::string pt;
        for (int64_t i = 0; i < po.pres->numpartitions(); i++) {
          pt = po.pres->partition(i)->type(util::TypeStrs())->tostring();
          if (pt != et) { same = false; break; }
        }
        es += same ? " (ty same)" : " (ty differ " + codes(pt) + " " + codes(et) + ")";
      }
    }
    if (po.ok && po.next.get() != nullptr && qo.ok && qo.next.get() != nullptr) {
      p = po.next; q = qo.next;
      if (eo.ok && eo.nexteager.get() != nullptr) eager = eo.nexteager;
    }
    if (k > 1) out += " ";
    if (st.head() == "at" && po.ok && eo.ok)
      es = (po.value == eo.value) ? " (aeq 1)" : " (aeq 0 " + po.value + " " + eo.value + ")";
    out += "(step " + show("p", po) + " " + show("e", eo) + " " + show("q", qo) + es + ")";
  }
  return out;
}

static std::string handle(const Sx& cs) {
  const std::string kind = cs[1].a;
  if (kind == "virt") return handle_virt(cs);
  if (kind == "part") return handle_part(cs);
  throw std::logic_error("unknown session kind " + kind);
}

int main() { return run_cases(handle); }
