(** C04 — proofs about the MODEL (Broadcast.v).
    Fragment [jag]: 1-d integer NumpyArray leaves under ListOffsetArray / ListArray (any index width, any
    offset origin, gaps, unreachable data) and IndexedOptionArray (not directly inside another one). *)
From AwkV Require Import LayoutInd Proofs_Lists Proofs_ToList Proofs_Typing Proofs_Carry Proofs_AtAxisOps Proofs_C05.
From AwkBroadcast Require Import Broadcast Proofs_C04.
From Coq Require Import Lia ZifyBool.

Definition is_dz (d : datum) : bool := match d with DZ _ => true | _ => false end.
Fixpoint jag (c : content) : bool :=
  match c with
  | Numpy _ [_] data => forallb is_dz data
  | ListOffset _ _ c' | ListA _ _ _ c' => jag c'
  | IndexedOption _ _ c' => jag c' && negb (is_option_node c')
  | _ => false
  end.
(* number of nodes of the chain *)
Fixpoint csize (c : content) : nat :=
  match c with
  | ListOffset _ _ c' | ListA _ _ _ c' | IndexedOption _ _ c' => S (csize c')
  | _ => 1%nat
  end.

(* ------------------------------------------------------------------ generic list facts *)
Lemma firstn_In' {A} (x : A) n : forall l, In x (firstn n l) -> In x l.
Proof. induction n as [|n IH]; intros [|a l]; cbn; try tauto. intros [->|H]; [now left|right; now apply IH]. Qed.
Lemma mapM_slice {A B} (f : A -> res B) l ys a b sl :
  mapM f l = Ok ys -> slice l a b = Ok sl -> mapM f sl = slice ys a b.
Proof.
  intros H Hs. pose proof (slice_inv _ _ _ _ Hs) as Hb.
  rewrite <- (gather_range l a b) in Hs by lia.
  rewrite (mapM_gather_ok f l ys (range a b) sl H Hs).
  apply gather_range; try lia. rewrite (mapM_zlen _ _ _ H). lia.
Qed.

Lemma pairs_skipn k : forall o, pairs (skipn k o) = skipn k (pairs o).
Proof.
  induction k as [|k IH]; [reflexivity|]. intros [|a [|b o]].
  - reflexivity.
  - destruct k; reflexivity.
  - change (skipn (S k) (a :: b :: o)) with (skipn k (b :: o)). rewrite IH. reflexivity.
Qed.
Lemma pairs_firstn k : forall o, pairs (firstn (S k) o) = firstn k (pairs o).
Proof.
  induction k as [|k IH]; intros o.
  - destruct o as [|a [|b o]]; reflexivity.
  - destruct o as [|a [|b o]]; try reflexivity.
    change (firstn (S (S k)) (a :: b :: o)) with (a :: b :: firstn k o).
    change (pairs (a :: b :: firstn k o)) with ((a, b) :: pairs (firstn (S k) (b :: o))).
    rewrite IH. reflexivity.
Qed.
Lemma pairs_slice o a b sl :
  slice o a (b + 1) = Ok sl -> a <= b -> slice (pairs o) a b = Ok (pairs sl).
Proof.
  intros Hs Hab. pose proof (slice_inv _ _ _ _ Hs) as Hb. rewrite slice_ok in Hs by lia. inversion Hs; subst.
  assert (Hne : o <> []) by (intros ->; cbn in Hb; lia).
  rewrite slice_ok; try lia.
  - f_equal. unfold take, drop.
    replace (Z.to_nat (b + 1 - a)) with (S (Z.to_nat (b - a))) by lia. rewrite pairs_firstn, pairs_skipn. reflexivity.
  - rewrite zlen_pairs by exact Hne. lia.
Qed.

Lemma firstn_zip {A B} n : forall (s : list A) (e : list B), firstn n (zip s e) = zip (firstn n s) (firstn n e).
Proof.
  induction n as [|n IH]; [reflexivity|]. intros [|a s] [|b e]; cbn; try reflexivity; now rewrite IH.
Qed.
Lemma take_as_slice {A} (l : list A) k : 0 <= k <= zlen l -> slice l 0 k = Ok (take k l).
Proof. intros H. rewrite slice_ok by lia. unfold drop. cbn [Z.to_nat skipn]. now rewrite Z.sub_0_r. Qed.

(* ------------------------------------------------------------------ ranges and gathers inside the fragment *)
Lemma jag_type_list c : jag c = true -> is_list_node c = true -> type_of c = TList None None (type_of (match list_content c with Some x => x | None => c end)).
Proof. destruct c; try discriminate; reflexivity. Qed.

Lemma grange0_jag c : forall vs k,
  jag c = true -> to_list c = Ok vs -> 0 <= k <= clen c ->
  exists c', grange c 0 k = Ok c' /\ jag c' = true /\ to_list c' = Ok (take k vs) /\
             type_of c' = type_of c /\ csize c' = csize c /\ clen c' = k /\
             is_option_node c' = is_option_node c /\ is_list_node c' = is_list_node c /\ is_numpy_node c' = is_numpy_node c.
Proof.
  intros vs k Hj Hl Hk. pose proof (to_list_len _ _ Hl) as Hlen.
  assert (Hguard : negb ((0 <=? 0) && (0 <=? k) && (k <=? clen c)) = false) by lia.
  destruct c as [dt shape data| |w o c'|w s e c'|c' size zl|w ix c'|w ix c'|m vw c'|m vw lsb n c'|c'|w t ix cs|cs ks n|arr rn c'];
    try discriminate.
  - (* Numpy, 1-d *)
    destruct shape as [|n [|d ds]]; try discriminate. cbn [jag] in Hj. cbn [clen] in Hk.
    cbn [grange]. rewrite Hguard. cbn [prodZ fold_right].
    rewrite to_list_Numpy in Hl. cbn [existsb prodZ fold_right] in Hl.
    destruct (n <? 0) eqn:En; [discriminate|]. cbn [orb] in Hl.
    replace (n * 1) with n in Hl by lia. destruct (zlen data <? n) eqn:Ed; [discriminate|]. cbn [nest] in Hl. inversion Hl; subst vs.
    eexists. split; [reflexivity|]. repeat split.
    + cbn [jag]. apply forallb_forall. intros x Hx. rewrite forallb_forall in Hj. apply Hj.
      unfold take, drop in Hx. cbn [Z.to_nat skipn] in Hx. now apply firstn_In' in Hx.
    + rewrite to_list_Numpy. cbn [existsb prodZ fold_right].
      replace ((k - 0) * 1) with k by lia. replace (k - 0) with k by lia.
      destruct (k <? 0) eqn:Ek; [lia|]. cbn [orb]. unfold drop. replace (0 * 1) with 0 by lia. cbn [Z.to_nat skipn].
      rewrite zlen_take by lia. destruct (k <? k) eqn:E2; [lia|]. cbn [nest]. f_equal.
      rewrite <- map_take. f_equal.
      unfold take. rewrite !firstn_firstn. f_equal. lia.
    + cbn [clen]. lia.
  - (* ListOffset *)
    cbn [jag] in Hj. cbn [clen] in Hk. cbn [grange]. rewrite Hguard.
    rewrite to_list_ListOffset in Hl. apply bind_Ok in Hl as (vs0 & Hl0 & Hl). apply rmap_Ok in Hl as (ls & Hc & ->).
    unfold cut in Hc. destruct o as [|o0 o]; [discriminate|]. set (oo := o0 :: o) in *.
    assert (Hzo : zlen oo = clen (ListOffset w oo c') + 1) by (cbn [clen]; lia). cbn [clen] in Hzo.
    destruct (slice oo 0 (k + 1)) as [o'|] eqn:Es; [|rewrite slice_ok in Es by lia; discriminate].
    cbn [bind]. eexists. split; [reflexivity|]. repeat split.
    + exact Hj.
    + rewrite to_list_ListOffset, Hl0. cbn [bind]. unfold cut.
      pose proof (slice_zlen _ _ _ _ Es) as Hzo'.
      destruct o' as [|x o']; [cbn in Hzo'; lia|].
      pose proof (pairs_slice oo 0 k _ Es ltac:(lia)) as Hp.
      rewrite (mapM_slice _ _ _ 0 k _ Hc Hp). rewrite take_as_slice.
      * cbn [rmap]. now rewrite map_take.
      * rewrite (mapM_zlen _ _ _ Hc), zlen_pairs by discriminate. lia.
    + cbn [clen]. rewrite (slice_zlen _ _ _ _ Es). lia.
  - (* ListA *)
    cbn [jag] in Hj. cbn [clen] in Hk. cbn [grange]. rewrite Hguard.
    rewrite to_list_ListA in Hl. apply bind_Ok in Hl as (vs0 & Hl0 & Hl). apply rmap_Ok in Hl as (ls & Hc & ->).
    unfold cut2 in Hc. destruct (zlen e <? zlen s) eqn:E0; [discriminate|].
    rewrite !take_as_slice by lia. cbn [bind]. eexists. split; [reflexivity|]. repeat split.
    + exact Hj.
    + rewrite to_list_ListA, Hl0. cbn [bind]. unfold cut2. rewrite !zlen_take by lia.
      destruct (k <? k) eqn:E1; [lia|].
      assert (Hz : slice (zip s e) 0 k = Ok (zip (take k s) (take k e))).
      { rewrite take_as_slice by (rewrite zlen_zip; lia). f_equal. unfold take. apply firstn_zip. }
      rewrite (mapM_slice _ _ _ 0 k _ Hc Hz). rewrite take_as_slice.
      * cbn [rmap]. now rewrite map_take.
      * rewrite (mapM_zlen _ _ _ Hc), zlen_zip. lia.
    + cbn [clen]. rewrite zlen_take by lia. reflexivity.
  - (* IndexedOption *)
    cbn [jag] in Hj. cbn [clen] in Hk. cbn [grange]. rewrite Hguard.
    rewrite to_list_IndexedOption in Hl. apply bind_Ok in Hl as (vs0 & Hl0 & Hl).
    rewrite take_as_slice by lia. cbn [bind]. eexists. split; [reflexivity|]. repeat split.
    + exact Hj.
    + rewrite to_list_IndexedOption, Hl0. cbn [bind].
      rewrite (mapM_slice _ _ _ 0 k _ Hl (take_as_slice ix k ltac:(lia))). apply take_as_slice.
      rewrite (mapM_zlen _ _ _ Hl). lia.
    + cbn [clen]. rewrite zlen_take by lia. reflexivity.
Qed.

Lemma skipn_In' {A} (x : A) n : forall l, In x (skipn n l) -> In x l.
Proof. induction n as [|n IH]; intros [|a l]; cbn; try tauto. intros H. right. now apply IH. Qed.
Lemma slice_In {A} (l r : list A) a b x : slice l a b = Ok r -> In x r -> In x l.
Proof.
  intros Hs Hx. pose proof (slice_inv _ _ _ _ Hs). rewrite slice_ok in Hs by lia. inversion Hs; subst.
  unfold take, drop in Hx. apply firstn_In' in Hx. now apply skipn_In' in Hx.
Qed.

Lemma carry_jag c : forall vs ix,
  jag c = true -> to_list c = Ok vs -> Forall (fun i => 0 <= i < clen c) ix ->
  exists c', carry c ix = Ok c' /\ jag c' = true /\ to_list c' = mapM (get vs) ix /\
             type_of c' = type_of c /\ csize c' = csize c /\ clen c' = zlen ix /\
             is_option_node c' = is_option_node c /\ is_list_node c' = is_list_node c /\ is_numpy_node c' = is_numpy_node c.
Proof.
  intros vs ix Hj Hl Hix.
  destruct c as [dt shape data| |w o c'|w s e c'|c' size zl|w ix0 c'|w ix0 c'|m vw c'|m vw lsb n c'|c'|w t ix0 cs|cs ks n|arr rn c'];
    try discriminate.
  - (* Numpy *)
    destruct shape as [|n [|d ds]]; try discriminate. cbn [jag] in Hj.
    destruct (carry_numpy dt [n] data vs ix Hl Hix) as (c' & Hc & Hl' & Hn).
    exists c'. split; [exact Hc|]. cbn [carry] in Hc. apply bind_Ok in Hc as (rows & Hrows & Hc). inversion Hc; subst c'.
    repeat split; try assumption.
    cbn [jag]. apply forallb_forall. intros x Hx. apply in_concat in Hx as (r & Hr & Hx).
    destruct (mapM_In_inv _ _ _ _ Hrows Hr) as (i & _ & Hi).
    destruct ((0 <=? i) && (i <? n)); [|discriminate]. rewrite forallb_forall in Hj. apply Hj. eapply slice_In; eassumption.
  - (* ListOffset *)
    cbn [jag] in Hj.
    rewrite to_list_ListOffset in Hl. apply bind_Ok in Hl as (vs0 & Hl0 & Hl). apply rmap_Ok in Hl as (ls & Hc & ->).
    unfold cut in Hc. destruct o as [|a o]; [discriminate|]. set (oo := a :: o) in *.
    assert (Hne : oo <> []) by discriminate. cbn [clen] in Hix.
    destruct (gather_ok (removelast oo) ix) as [s Hs]; [rewrite zlen_removelast by exact Hne; exact Hix|].
    destruct (gather_ok (tl oo) ix) as [e He]; [rewrite zlen_tl by exact Hne; exact Hix|].
    cbn [carry]. unfold gather. rewrite Hs, He. cbn [bind]. eexists. split; [reflexivity|].
    pose proof (mapM_zlen _ _ _ Hs) as Hls. pose proof (mapM_zlen _ _ _ He) as Hle.
    repeat split; try exact Hj; try (cbn [clen]; exact Hls).
    rewrite to_list_ListA, Hl0. cbn [bind]. unfold cut2. destruct (zlen e <? zlen s) eqn:E; [lia|].
    rewrite gather_map. f_equal. rewrite pairs_zip in Hc.
    apply (mapM_gather_ok _ _ _ ix (zip s e) Hc). rewrite gather_zip, Hs, He. reflexivity.
  - (* ListA *)
    cbn [jag] in Hj.
    rewrite to_list_ListA in Hl. apply bind_Ok in Hl as (vs0 & Hl0 & Hl). apply rmap_Ok in Hl as (ls & Hc & ->).
    unfold cut2 in Hc. destruct (zlen e <? zlen s) eqn:E0; [discriminate|]. cbn [clen] in Hix.
    destruct (gather_ok s ix) as [s' Hs]; [exact Hix|].
    destruct (gather_ok e ix) as [e' He]; [eapply Forall_impl; [|exact Hix]; cbv beta; intros; lia|].
    cbn [carry]. unfold gather. rewrite Hs, He. cbn [bind]. eexists. split; [reflexivity|].
    pose proof (mapM_zlen _ _ _ Hs) as Hls. pose proof (mapM_zlen _ _ _ He) as Hle.
    repeat split; try exact Hj; try (cbn [clen]; exact Hls).
    rewrite to_list_ListA, Hl0. cbn [bind]. unfold cut2. destruct (zlen e' <? zlen s') eqn:E; [lia|].
    rewrite gather_map. f_equal.
    apply (mapM_gather_ok _ _ _ ix (zip s' e') Hc). rewrite gather_zip, Hs, He. reflexivity.
  - (* IndexedOption *)
    cbn [jag] in Hj.
    rewrite to_list_IndexedOption in Hl. apply bind_Ok in Hl as (vs0 & Hl0 & Hl). cbn [clen] in Hix.
    destruct (gather_ok ix0 ix Hix) as [j Hjx]. cbn [carry]. unfold gather. rewrite Hjx. cbn [bind].
    eexists. split; [reflexivity|]. repeat split; try exact Hj; try (cbn [clen]; apply (mapM_zlen _ _ _ Hjx)).
    rewrite to_list_IndexedOption, Hl0. cbn [bind]. apply (mapM_gather_ok _ _ _ ix j Hl Hjx).
Qed.

Lemma list_eqb_eq l m : list_eqb Z.eqb l m = true -> l = m.
Proof.
  revert m. induction l as [|x l IH]; intros [|y m]; cbn; try discriminate; [reflexivity|].
  intros H. apply andb_prop in H as [H1 H2]. apply Z.eqb_eq in H1. subst. f_equal. now apply IH.
Qed.
Lemma range0_iota k : range 0 k = iota k.
Proof. unfold range, iota. now rewrite Z.sub_0_r. Qed.
Lemma gather_prefix {A} (l : list A) k : 0 <= k <= zlen l -> mapM (get l) (iota k) = Ok (take k l).
Proof. intros H. rewrite <- range0_iota, gather_range by lia. now apply take_as_slice. Qed.

(* Content::carry with its identity short-cut *)
Lemma ccarry_jag c : forall vs ix,
  jag c = true -> to_list c = Ok vs -> Forall (fun i => 0 <= i < clen c) ix ->
  exists c', ccarry c ix = Ok c' /\ jag c' = true /\ to_list c' = mapM (get vs) ix /\
             type_of c' = type_of c /\ csize c' = csize c /\ clen c' = zlen ix /\
             is_option_node c' = is_option_node c /\ is_list_node c' = is_list_node c /\ is_numpy_node c' = is_numpy_node c.
Proof.
  intros vs ix Hj Hl Hix. unfold ccarry.
  destruct (list_eqb Z.eqb ix (iota (zlen ix))) eqn:E; [|now apply carry_jag].
  apply list_eqb_eq in E. pose proof (to_list_len _ _ Hl) as Hlen.
  assert (Hk : 0 <= zlen ix <= clen c).
  { split; [apply zlen_nonneg|]. destruct (Z.eq_dec (zlen ix) 0) as [->|Hne]; [rewrite <- Hlen; apply zlen_nonneg|].
    pose proof (zlen_nonneg ix).
    assert (Hin : In (zlen ix - 1) ix).
    { remember (zlen ix) as k eqn:Hkk. rewrite E. apply iota_In'. lia. }
    rewrite Forall_forall in Hix. specialize (Hix _ Hin). lia. }
  destruct (zlen ix =? clen c) eqn:Ec.
  - exists c. split; [reflexivity|]. repeat split; try assumption; try lia.
    rewrite E, gather_prefix by lia. rewrite take_all by lia. exact Hl.
  - destruct (grange0_jag c vs (zlen ix) Hj Hl Hk) as (c' & Hc & Hj' & Hl' & Ht & Hs & Hn & H1 & H2 & H3).
    exists c'. split; [exact Hc|]. repeat split; try assumption.
    rewrite Hl'. rewrite E at 2. rewrite gather_prefix by lia. reflexivity.
Qed.

(* ------------------------------------------------------------------ which branch of apply a pair of fragment inputs takes *)
Lemma jag_nodes c : jag c = true ->
  is_empty_node c = false /\ is_numpy_nd c = false /\ is_indexed_node c = false /\ is_union_node c = false /\
  is_record_node c = false /\ is_regular_node c = false /\
  (is_list_node c = true -> pl_isreg c = false) /\
  (is_numpy_node c = true \/ is_option_node c = true \/ is_list_node c = true).
Proof.
  destruct c as [dt shape data| |w o c'|w s e c'|c' size zl|w ix0 c'|w ix0 c'|m vw c'|m vw lsb n c'|c'|w t ix0 cs|cs ks n|arr rn c'];
    try discriminate; cbn [jag]; intros H; repeat split; try reflexivity; try discriminate; auto.
  - destruct shape as [|n [|d ds]]; try discriminate; reflexivity.
Qed.

Lemma jag_rcond c1 c2 : jag c1 = true -> jag c2 = true ->
  (let cs := [c1; c2] in
   let md := fold_right Z.max (-1) (map pl_depth cs) in
   existsb is_list_node cs && (0 <? md) && forallb pl_isreg cs && existsb (fun c => pl_depth c <? md) cs) = false.
Proof.
  intros H1 H2. cbv zeta. cbn [existsb forallb].
  destruct (jag_nodes c1 H1) as (_ & _ & _ & _ & _ & _ & R1 & _).
  destruct (jag_nodes c2 H2) as (_ & _ & _ & _ & _ & _ & R2 & _).
  destruct (is_list_node c1) eqn:L1; [rewrite (R1 eq_refl); cbn; now rewrite !andb_false_r|].
  destruct (is_list_node c2) eqn:L2; [rewrite (R2 eq_refl); cbn; now rewrite !andb_false_r|].
  reflexivity.
Qed.

Lemma reg_chain_jag c : jag c = true -> reg_chain c = None.
Proof. destruct c; try discriminate; reflexivity. Qed.
Lemma to_nparr_jag_other c : jag c = true -> is_numpy_node c = false -> to_nparr (MC c) = Ok None.
Proof.
  intros Hj Hn. unfold to_nparr, deregulate. rewrite (reg_chain_jag c Hj). cbn [bind].
  destruct c; try discriminate; reflexivity.
Qed.

Definition undz (d : datum) : Z := match d with DZ z => z | _ => 0 end.
Lemma datum_z_all l : forallb is_dz l = true -> mapM datum_z l = Ok (map undz l).
Proof.
  induction l as [|d l IH]; [reflexivity|]. cbn [forallb]. intros H. apply andb_prop in H as [Hd Hl].
  cbn [mapM map]. destruct d; try discriminate. cbn. now rewrite (IH Hl).
Qed.
Lemma forallb_firstn {A} (p : A -> bool) n l : forallb p l = true -> forallb p (firstn n l) = true.
Proof. intros H. apply forallb_forall. intros x Hx. rewrite forallb_forall in H. apply H. eapply firstn_In'; eassumption. Qed.

(* integer view of a 1-d leaf *)
Definition leaf_z (dt : dtype) (d : datum) : Z := if dt_isbool dt then b2z (negb (undz d =? 0)) else undz d.
Lemma to_nparr_jag_numpy dt n data :
  forallb is_dz data = true -> n <= zlen data ->
  to_nparr (MC (Numpy dt [n] data)) = Ok (Some (dt_isbool dt, ([n], map (leaf_z dt) (take n data)))).
Proof.
  intros Hd Hn. unfold to_nparr, deregulate. cbn [reg_chain bind prodZ fold_right].
  replace (n * 1) with n by lia. destruct (zlen data <? n) eqn:E; [lia|].
  rewrite datum_z_all by (unfold take; now apply forallb_firstn). cbn [bind]. rewrite map_map. reflexivity.
Qed.

(* ------------------------------------------------------------------ the leaves: NumPy on two 1-d buffers of equal length *)
Definition rows2 (t1 t2 : ty) (vs1 vs2 : list value) : list (list sarg) :=
  map (fun xy : value * value => [(t1, fst xy); (t2, snd xy)]) (zip vs1 vs2).

Lemma mapM_iota_zip {A B C} (g : Z -> res C) (h : A * B -> C) (l : list A) (m : list B) n :
  zlen l = n -> zlen m = n ->
  (forall i x y, get l i = Ok x -> get m i = Ok y -> g i = Ok (h (x, y))) ->
  mapM g (iota n) = Ok (map h (zip l m)).
Proof.
  intros Hl Hm Hg. pose proof (zlen_nonneg l) as Hn.
  destruct (mapM_total g (iota n)) as [ys Hys].
  { intros i Hi. apply iota_In' in Hi.
    destruct (get_ok l i ltac:(lia)) as [x Hx]. destruct (get_ok m i ltac:(lia)) as [y Hy]. eauto. }
  rewrite Hys. f_equal. apply get_ext.
  - rewrite (mapM_zlen _ _ _ Hys), zlen_iota, zlen_map, zlen_zip by lia. lia.
  - intros i Hi. rewrite (mapM_zlen _ _ _ Hys), zlen_iota in Hi by lia.
    rewrite (mapM_get _ _ _ i Hys), get_iota by lia. cbn [bind]. rewrite get_map, get_zip.
    destruct (get_ok l i ltac:(lia)) as [x Hx]. destruct (get_ok m i ltac:(lia)) as [y Hy].
    rewrite Hx, Hy. cbn. now apply Hg.
Qed.

Lemma nd_apply_1d op b1 b2 zs1 zs2 n :
  zlen zs1 = n -> zlen zs2 = n ->
  nd_apply op [(b1, ([n], zs1)); (b2, ([n], zs2))] =
  Ok (Numpy (if lk op [b1; b2] then DBool else DInt64) [n]
        (map (fun xy : Z * Z => DZ (lf op [b1; b2] [fst xy; snd xy])) (zip zs1 zs2))).
Proof.
  intros H1 H2. pose proof (zlen_nonneg zs1) as Hn. unfold nd_apply.
  cbn [map fst snd length fold_right Nat.max pad_shape Nat.sub repeat app].
  change (transpose 1 [[n]; [n]]) with [[n; n]]. cbn [mapM].
  assert (Hd : dim_target [n; n] = Ok n).
  { unfold dim_target. cbn [filter]. destruct (n =? 1) eqn:E; cbn [negb]; [f_equal; lia|].
    cbn [forallb]. now rewrite Z.eqb_refl. }
  rewrite Hd. cbn [bind multi]. 
  assert (Hm : flat_map (fun i : Z => map (cons i) [[]]) (iota n) = map (fun i => [i]) (iota n)).
  { induction (iota n) as [|i l IH]; [reflexivity|]. cbn [flat_map map app]. f_equal; try exact IH. }
  rewrite Hm, mapM_map.
  rewrite (mapM_iota_zip _ (fun xy : Z * Z => DZ (lf op [b1; b2] [fst xy; snd xy])) zs1 zs2 n H1 H2); [reflexivity|].
  intros i x y Hx Hy. cbn [zip mapM fst snd flat_ix].
  pose proof (get_range _ _ _ Hx) as Hi.
  assert (Hix : 0 * n + (if n =? 1 then 0 else i) = i) by (destruct (n =? 1) eqn:E; lia).
  rewrite Hix, Hx, Hy. reflexivity.
Qed.

Lemma leaf_value_zb dt d : is_dz d = true -> leaf_zb (TNum dt, leaf dt d) = Ok (dt_isbool dt, leaf_z dt d).
Proof. destruct d; try discriminate. intros _. unfold leaf_zb, leaf, leaf_z. cbn [snd undz]. destruct dt; cbn; try reflexivity; now destruct (z =? 0). Qed.

Lemma spec_leaf_row op ar fuel dt1 dt2 d1 d2 :
  is_dz d1 = true -> is_dz d2 = true ->
  spec_v op ar (S fuel) [(TNum dt1, leaf dt1 d1); (TNum dt2, leaf dt2 d2)] =
  Ok (mk_leaf (lk op [dt_isbool dt1; dt_isbool dt2]) (lf op [dt_isbool dt1; dt_isbool dt2] [leaf_z dt1 d1; leaf_z dt2 d2])).
Proof.
  intros H1 H2. rewrite spec_v_S. cbv zeta. unfold rpad. cbn [map fst]. unfold rpad_cond. cbn [existsb is_listT orb andb].
  cbn [map fst existsb badT is_optT is_listT is_recT orb mapM].
  rewrite (leaf_value_zb dt1 d1 H1), (leaf_value_zb dt2 d2 H2). reflexivity.
Qed.

Lemma to_list_numpy1 dt n data vs :
  to_list (Numpy dt [n] data) = Ok vs -> 0 <= n /\ n <= zlen data /\ vs = map (leaf dt) (take n data).
Proof.
  intros H. apply to_list_Numpy_inv in H as (n' & dims & E & Hs & Hd & Hn). inversion E; subst n' dims.
  cbn [prodZ fold_right] in *. replace (n * 1) with n in * by lia. cbn [nest] in Hn. inversion Hn.
  inversion Hs; subst. repeat split; auto.
Qed.
Lemma to_list_numpy1_ok dt n data : 0 <= n -> n <= zlen data -> to_list (Numpy dt [n] data) = Ok (map (leaf dt) (take n data)).
Proof.
  intros H0 Hn. rewrite to_list_Numpy. cbn [existsb prodZ fold_right]. destruct (n <? 0) eqn:E; [lia|]. cbn [orb].
  replace (n * 1) with n by lia. destruct (zlen data <? n) eqn:E2; [lia|]. reflexivity.
Qed.

(* the whole leaf step: model result, its value, and the specification's value *)
Lemma leaf_case op rec fuel dt1 dt2 n1 n2 d1 d2 vs1 vs2 :
  jag (Numpy dt1 [n1] d1) = true -> jag (Numpy dt2 [n2] d2) = true ->
  to_list (Numpy dt1 [n1] d1) = Ok vs1 -> to_list (Numpy dt2 [n2] d2) = Ok vs2 -> zlen vs1 = zlen vs2 ->
  exists out, dispatch op None rec [MC (Numpy dt1 [n1] d1); MC (Numpy dt2 [n2] d2)] = Ok out /\
              jag out = true /\ is_option_node out = false /\
              to_list out = mapM (spec_v op false (S fuel))
                              (rows2 (type_of (Numpy dt1 [n1] d1)) (type_of (Numpy dt2 [n2] d2)) vs1 vs2).
Proof.
  intros Hj1 Hj2 Hl1 Hl2 Hz.
  pose proof (to_list_len _ _ Hl1) as Hc1. pose proof (to_list_len _ _ Hl2) as Hc2. cbn [clen] in Hc1, Hc2.
  assert (E : n2 = n1) by lia. rewrite E in *. clear E Hc1 Hc2 Hz. rename n1 into n.
  set (c1 := Numpy dt1 [n] d1) in *. set (c2 := Numpy dt2 [n] d2) in *.
  destruct (to_list_numpy1 _ _ _ _ Hl1) as (Hn0 & Hd1 & ->). destruct (to_list_numpy1 _ _ _ _ Hl2) as (_ & Hd2 & ->).
  cbn [jag c1 c2] in Hj1, Hj2.
  set (t1 := take n d1) in *. set (t2 := take n d2) in *.
  assert (Ht1 : zlen t1 = n) by (unfold t1; apply zlen_take; lia).
  assert (Ht2 : zlen t2 = n) by (unfold t2; apply zlen_take; lia).
  set (ks := [dt_isbool dt1; dt_isbool dt2]).
  set (outd := map (fun xy : datum * datum => DZ (lf op ks [leaf_z dt1 (fst xy); leaf_z dt2 (snd xy)])) (zip t1 t2)).
  set (rdt := if lk op ks then DBool else DInt64).
  exists (Numpy rdt [n] outd).
  assert (Hzo : zlen outd = n) by (unfold outd; rewrite zlen_map, zlen_zip; lia).
  split; [|split; [|split; [reflexivity|]]].
  - unfold dispatch. cbn [contents_of flat_map app]. pose proof (jag_rcond c1 c2 Hj1 Hj2) as Hr. cbv zeta in Hr. cbv zeta. rewrite Hr.
    unfold checklength, all_eq. cbn [map clen c1 c2 forallb]. rewrite Z.eqb_refl. cbn [andb negb].
    unfold getfunction. cbn [mapM]. unfold c1, c2.
    rewrite (to_nparr_jag_numpy dt1 n d1 Hj1 Hd1), (to_nparr_jag_numpy dt2 n d2 Hj2 Hd2). cbn [bind all_somes].
    fold t1 t2. rewrite nd_apply_1d by (rewrite zlen_map; assumption). cbn [rmap bind].
    do 3 f_equal. unfold outd. rewrite zip_map, map_map. reflexivity.
  - cbn [jag]. unfold outd. apply forallb_forall. intros x Hx. apply in_map_iff in Hx as (xy & <- & _). reflexivity.
  - rewrite to_list_numpy1_ok by lia. rewrite take_all by lia.
    unfold rows2. cbn [type_of type_of_p c1 c2 tl numpy_ty]. rewrite zip_map, map_map, mapM_map.
    unfold outd. rewrite map_map. symmetry.
    rewrite (mapM_ext_in _ (fun xy : datum * datum =>
                              Ok (leaf rdt (DZ (lf op ks [leaf_z dt1 (fst xy); leaf_z dt2 (snd xy)]))))).
    + apply mapM_pure.
    + intros [x y] Hin. cbn [fst snd].
      apply zip_In in Hin as [Hx Hy].
      assert (Hdx : is_dz x = true) by (rewrite forallb_forall in Hj1; apply Hj1; unfold t1, take in Hx; eapply firstn_In'; eassumption).
      assert (Hdy : is_dz y = true) by (rewrite forallb_forall in Hj2; apply Hj2; unfold t2, take in Hy; eapply firstn_In'; eassumption).
      rewrite (spec_leaf_row op false fuel dt1 dt2 x y Hdx Hdy). f_equal. fold ks.
      unfold mk_leaf, leaf, rdt. destruct (lk op ks); reflexivity.
Qed.

(* ------------------------------------------------------------------ types and values of the fragment *)
Fixpoint jagT (t : ty) : bool :=
  match t with
  | TNum _ => true
  | TList None None t' => jagT t'
  | TOpt t' => jagT t' && negb (is_optT t')
  | _ => false
  end.
Lemma type_of_jag c : jag c = true -> jagT (type_of c) = true /\ is_optT (type_of c) = is_option_node c /\
                                       is_listT (type_of c) = is_list_node c.
Proof.
  unfold type_of.
  induction c as [dt shape data| |w o c IHc|w s e c IHc|c size zl IHc|w ix c IHc|w ix c IHc|m vw c IHc
                 |m vw lsb n c IHc|c IHc|w t ix cs IHcs|cs ks n IHcs|arr rn c IHc] using content_ind';
    try discriminate; cbn [jag type_of_p strflag].
  - destruct shape as [|n [|d ds]]; try discriminate. intros _. cbn. auto.
  - intros H. destruct (IHc H) as (H1 & _ & _). cbn [jagT is_optT is_listT is_option_node is_list_node]. auto.
  - intros H. destruct (IHc H) as (H1 & _ & _). cbn [jagT is_optT is_listT is_option_node is_list_node]. auto.
  - intros H. apply andb_prop in H as [Hj Hn]. destruct (IHc Hj) as (H1 & H2 & _).
    cbn [jagT is_optT is_listT is_option_node is_list_node]. rewrite H1, H2, Hn. auto.
Qed.

Lemma jagT_rpad t1 t2 : jagT t1 = true -> jagT t2 = true -> rpad_cond [t1; t2] = false.
Proof.
  intros H1 H2. unfold rpad_cond. cbn [existsb forallb].
  assert (P : forall t, jagT t = true -> is_listT t = true -> pure_reg t = false).
  { intros t Ht Hl. destruct t as [| |[z|] [b|] t0| | |]; try discriminate; reflexivity. }
  destruct (is_listT t1) eqn:L1; [rewrite (P t1 H1 L1); cbn; reflexivity|].
  destruct (is_listT t2) eqn:L2; [rewrite (P t2 H2 L2); cbn; now rewrite andb_false_r|]. reflexivity.
Qed.
Lemma jagT_notbad t : jagT t = true -> badT t = false.
Proof. destruct t as [| |[z|] [b|] t0| | |]; try discriminate; reflexivity. Qed.

(* values of a non-option node are never None *)
Lemma jag_nonopt_values c vs :
  jag c = true -> is_option_node c = false -> to_list c = Ok vs -> Forall (fun v => is_none v = false) vs.
Proof.
  intros Hj Ho Hl.
  destruct c as [dt shape data| |w o c'|w s e c'|c' size zl|w ix0 c'|w ix0 c'|m vw c'|m vw lsb n c'|c'|w t ix0 cs|cs ks n|arr rn c'];
    try discriminate.
  - destruct shape as [|n [|d ds]]; try discriminate. destruct (to_list_numpy1 _ _ _ _ Hl) as (_ & _ & ->).
    apply Forall_forall. intros v Hv. apply in_map_iff in Hv as (d & <- & _). unfold leaf. destruct dt; try reflexivity. now destruct d.
  - rewrite to_list_ListOffset in Hl. apply bind_Ok in Hl as (vs0 & _ & Hl). apply rmap_Ok in Hl as (ls & _ & ->).
    apply Forall_forall. intros v Hv. apply in_map_iff in Hv as (l & <- & _). reflexivity.
  - rewrite to_list_ListA in Hl. apply bind_Ok in Hl as (vs0 & _ & Hl). apply rmap_Ok in Hl as (ls & _ & ->).
    apply Forall_forall. intros v Hv. apply in_map_iff in Hv as (l & <- & _). reflexivity.
Qed.

(* ------------------------------------------------------------------ masks *)
Fixpoint scatter (mask : list bool) (xs : list value) : list value :=
  match mask with
  | [] => []
  | true :: m => VNone :: scatter m xs
  | false :: m => match xs with x :: r => x :: scatter m r | [] => [] end
  end.
Definition nfalse (mask : list bool) : Z := zlen (filter negb mask).

Lemma kept_cons {A} (x : A) l b m : kept (x :: l) (b :: m) = (if b then [] else [x]) ++ kept l m.
Proof. reflexivity. Qed.
Lemma kept_nil_l {A} m : @kept A [] m = [].
Proof. reflexivity. Qed.
Lemma zlen_kept {A} (l : list A) : forall m, length m = length l -> zlen (kept l m) = nfalse m.
Proof.
  unfold nfalse. induction l as [|x l IH]; intros [|b m] H; try discriminate; [reflexivity|].
  rewrite kept_cons. cbn [filter]. destruct b; cbn [negb app]; [apply IH; cbn in H; lia|].
  rewrite !zlen_cons. rewrite IH by (cbn in H; lia). reflexivity.
Qed.
Lemma kept_map {A B} (f : A -> B) l : forall m, kept (map f l) m = map f (kept l m).
Proof.
  induction l as [|x l IH]; intros [|b m]; try reflexivity. cbn [map]. rewrite !kept_cons, IH, map_app.
  now destruct b.
Qed.
Lemma kept_zip {A B} (l : list A) : forall (l' : list B) m, kept (zip l l') m = zip (kept l m) (kept l' m).
Proof.
  induction l as [|x l IH]; intros [|y l'] [|b m]; try reflexivity.
  - cbn [zip]. rewrite kept_nil_l. now destruct (kept (x :: l) (b :: m)).
  - cbn [zip]. rewrite !kept_cons, IH. now destruct b.
Qed.

Lemma or_masks_length a : forall b, length a = length b -> length (or_masks a b) = length a.
Proof. induction a as [|x a IH]; intros [|y b] H; try discriminate; [reflexivity|]. cbn. f_equal. apply IH. cbn in H. lia. Qed.
Lemma or_masks_false_r a : forall b, length a = length b -> forallb negb b = true -> or_masks a b = a.
Proof.
  induction a as [|x a IH]; intros [|y b] H Hb; try discriminate; [reflexivity|]. cbn in *.
  apply andb_prop in Hb as [Hy Hb]. destruct y; [discriminate|]. rewrite orb_false_r. f_equal. apply IH; [lia|exact Hb].
Qed.
Lemma or_masks_false_l a : forall b, length a = length b -> forallb negb a = true -> or_masks a b = b.
Proof.
  induction a as [|x a IH]; intros [|y b] H Ha; try discriminate; [reflexivity|]. cbn in *.
  apply andb_prop in Ha as [Hx Ha]. destruct x; [discriminate|]. cbn. f_equal. apply IH; [lia|exact Ha].
Qed.

(* the index that puts the results back under the mask *)
Lemma count_index_scatter outvs : forall mask pre,
  nfalse mask = zlen outvs ->
  mapM (fun i => pick_opt (pre ++ outvs) (0 <=? i) i) (count_index (zlen pre) mask) = Ok (scatter mask outvs).
Proof.
  unfold nfalse. induction outvs as [|x outvs IH].
  - induction mask as [|b mask IHm]; intros pre H; [reflexivity|]. destruct b.
    + cbn [count_index mapM scatter]. cbn [filter negb] in H. unfold pick_opt at 1. cbn. rewrite (IHm pre H). reflexivity.
    + cbn [filter negb] in H. rewrite zlen_cons, zlen_nil in H. pose proof (zlen_nonneg (filter negb mask)). lia.
  - induction mask as [|b mask IHm]; intros pre H.
    + cbn [filter] in H. rewrite zlen_cons, zlen_nil in H. pose proof (zlen_nonneg outvs). lia.
    + destruct b.
      * cbn [count_index mapM scatter]. cbn [filter negb] in H. unfold pick_opt at 1. cbn. rewrite (IHm pre H). reflexivity.
      * cbn [count_index mapM scatter]. cbn [filter negb] in H. rewrite !zlen_cons in H.
        pose proof (zlen_nonneg pre). unfold pick_opt at 1. destruct (0 <=? zlen pre) eqn:E; [|lia].
        rewrite get_app2 by lia. replace (zlen pre - zlen pre) with 0 by lia. cbn [get bind]. rewrite get_cons_0. cbn [bind].
        specialize (IH mask (pre ++ [x])).
        assert (Hz : zlen (pre ++ [x]) = zlen pre + 1) by (rewrite zlen_app, zlen_cons, zlen_nil; lia).
        assert (Ha : (pre ++ [x]) ++ outvs = pre ++ x :: outvs) by (rewrite <- app_assoc; reflexivity).
        rewrite Hz, Ha in IH. rewrite IH by lia. reflexivity.
Qed.

(* rows with a missing value give None, the others are looked at without their options *)
Lemma mapM_scatter {A} (g h : A -> res value) (isn : A -> bool) rows :
  (forall r, In r rows -> g r = if isn r then Ok VNone else h r) ->
  match mapM h (kept rows (map isn rows)) with
  | Ok ys => mapM g rows = Ok (scatter (map isn rows) ys)
  | Err e => mapM g rows = Err e
  end.
Proof.
  induction rows as [|r rows IH]; intros Hg; [reflexivity|].
  cbn [map]. rewrite kept_cons. pose proof (Hg r (or_introl eq_refl)) as Hr.
  assert (Hg' : forall r0, In r0 rows -> g r0 = if isn r0 then Ok VNone else h r0) by (intros; apply Hg; now right).
  specialize (IH Hg'). destruct (isn r) eqn:E.
  - cbn [app]. destruct (mapM h (kept rows (map isn rows))) as [ys|e].
    + rewrite mapM_cons, Hr. cbn [bind]. rewrite IH. reflexivity.
    + rewrite mapM_cons, Hr. cbn [bind]. rewrite IH. reflexivity.
  - cbn [app]. rewrite (mapM_cons h). destruct (h r) as [y|e] eqn:Ehr; cbn [bind].
    + destruct (mapM h (kept rows (map isn rows))) as [ys|e]; cbn [bind].
      * rewrite mapM_cons, Hr. cbn [bind]. rewrite IH. reflexivity.
      * rewrite mapM_cons, Hr. cbn [bind]. rewrite IH. reflexivity.
    + rewrite mapM_cons, Hr. reflexivity.
Qed.

(* ------------------------------------------------------------------ the option step, one input at a time *)
Definition opt_proj (mask : list bool) (c : content) : res content :=
  if is_option_node c then do oi <- option_index c; ccarry (snd oi) (kept (fst oi) mask)
  else ccarry c (kept (iota (zlen mask)) mask).
Definition normix (i : Z) : Z := if i <? 0 then -1 else i.

Lemma pick_kept vs' : forall idx vs mask,
  mapM (fun i => pick_opt vs' (0 <=? i) i) idx = Ok vs ->
  Forall2 (fun (v : value) (b : bool) => is_none v = true -> b = true) vs mask ->
  Forall (fun v => is_none v = false) vs' ->
  mapM (get vs') (kept (map normix idx) mask) = Ok (kept vs mask) /\
  Forall (fun i => 0 <= i < zlen vs') (kept (map normix idx) mask).
Proof.
  induction idx as [|i idx IH]; intros vs mask Hm Hsub Hnn.
  - cbn in Hm. inversion Hm; subst. inversion Hsub; subst. split; [reflexivity|constructor].
  - rewrite mapM_cons in Hm. apply bind_Ok in Hm as (v & Hv & Hm). apply bind_Ok in Hm as (vs0 & Hvs & Hm). inversion Hm; subst.
    inversion Hsub as [|? b ? mask' Hb Hsub']; subst. destruct (IH _ _ Hvs Hsub' Hnn) as [IH1 IH2].
    cbn [map]. rewrite !kept_cons. destruct b; cbn [app]; [split; assumption|].
    unfold pick_opt in Hv. destruct (0 <=? i) eqn:E.
    + assert (Hni : normix i = i) by (unfold normix; destruct (i <? 0) eqn:E2; lia). rewrite Hni.
      rewrite mapM_cons, Hv. cbn [bind]. rewrite IH1. split; [reflexivity|].
      constructor; [|exact IH2]. apply get_range in Hv. exact Hv.
    + inversion Hv; subst v. specialize (Hb eq_refl). discriminate.
Qed.

Lemma own_mask vs' : forall idx vs,
  mapM (fun i => pick_opt vs' (0 <=? i) i) idx = Ok vs -> Forall (fun v => is_none v = false) vs' ->
  map (fun i => normix i <? 0) idx = map is_none vs.
Proof.
  induction idx as [|i idx IH]; intros vs Hm Hnn.
  - cbn in Hm. now inversion Hm.
  - rewrite mapM_cons in Hm. apply bind_Ok in Hm as (v & Hv & Hm). apply bind_Ok in Hm as (vs0 & Hvs & Hm). inversion Hm; subst.
    cbn [map]. rewrite (IH _ Hvs Hnn). f_equal. unfold pick_opt in Hv. unfold normix. destruct (0 <=? i) eqn:E.
    + destruct (i <? 0) eqn:E2; [lia|]. rewrite Forall_forall in Hnn.
      assert (In v vs') by (unfold get in Hv; destruct (i <? 0); [discriminate|]; destruct (nth_error vs' (Z.to_nat i)) eqn:En; [|discriminate]; inversion Hv; subst; eapply nth_error_In; eassumption).
      rewrite (Hnn v H). lia.
    + inversion Hv; subst. destruct (i <? 0) eqn:E2; [reflexivity|lia].
Qed.

Lemma bytemask_jag w idx c' vs :
  jag (IndexedOption w idx c') = true -> to_list (IndexedOption w idx c') = Ok vs ->
  bytemask_of (IndexedOption w idx c') = Ok (map is_none vs).
Proof.
  intros Hj Hl. cbn [jag] in Hj. apply andb_prop in Hj as [Hj Ho]. apply negb_true_iff in Ho.
  rewrite to_list_IndexedOption in Hl. apply bind_Ok in Hl as (vs' & Hl' & Hl).
  pose proof (jag_nonopt_values _ _ Hj Ho Hl') as Hnn.
  unfold bytemask_of, option_index. cbn [bind fst]. rewrite map_map. f_equal. apply (own_mask vs' idx vs Hl Hnn).
Qed.

Lemma gather_kept_iota {A} (l : list A) : forall (mask : list bool) (pre : list A),
  length mask = length l ->
  mapM (get (pre ++ l)) (kept (iota_nat (zlen pre) (length l)) mask) = Ok (kept l mask).
Proof.
  induction l as [|x l IH]; intros [|b mask] pre H; try discriminate; [reflexivity|].
  cbn [length iota_nat]. rewrite !kept_cons.
  assert (Hz : zlen (pre ++ [x]) = zlen pre + 1) by (rewrite zlen_app, zlen_cons, zlen_nil; lia).
  assert (Ha : (pre ++ [x]) ++ l = pre ++ x :: l) by (rewrite <- app_assoc; reflexivity).
  specialize (IH mask (pre ++ [x]) ltac:(cbn in H; lia)). rewrite Hz, Ha in IH.
  destruct b; cbn [app]; [exact IH|].
  rewrite mapM_cons. pose proof (zlen_nonneg pre). rewrite get_app2 by lia. replace (zlen pre - zlen pre) with 0 by lia.
  rewrite get_cons_0. cbn [bind]. rewrite IH. reflexivity.
Qed.

Lemma kept_in {A} (x : A) l : forall m, In x (kept l m) -> In x l.
Proof.
  induction l as [|y l IH]; intros [|b m] H; try contradiction. rewrite kept_cons in H.
  apply in_app_or in H as [H|H]; [destruct b; [contradiction|]; destruct H; [now left|contradiction]|right; eapply IH; eassumption].
Qed.

(* what the option step hands down for ONE input: the elements at the positions that are present in all inputs *)
Lemma opt_next c vs mask :
  jag c = true -> to_list c = Ok vs ->
  Forall2 (fun (v : value) (b : bool) => is_none v = true -> b = true) vs mask ->
  exists next, opt_proj mask c = Ok next /\ jag next = true /\ is_option_node next = false /\
               to_list next = Ok (kept vs mask) /\ type_of next = strip_opt_t (type_of c) /\
               (csize next <= csize c)%nat /\ (is_option_node c = true -> (csize next < csize c)%nat).
Proof.
  intros Hj Hl Hsub. unfold opt_proj. pose proof (to_list_len _ _ Hl) as Hlen.
  assert (Hml : length mask = length vs) by (clear -Hsub; induction Hsub; cbn; congruence).
  destruct (is_option_node c) eqn:Ho.
  - destruct c as [dt shape data| |w o c'|w s e c'|c' size zl|w ix0 c'|w ix0 c'|m vw c'|m vw lsb n c'|c'|w t ix0 cs|cs ks n|arr rn c'];
      try discriminate.
    cbn [option_index bind fst snd]. pose proof Hj as Hj0. cbn [jag] in Hj. apply andb_prop in Hj as [Hj Hno]. apply negb_true_iff in Hno.
    rewrite to_list_IndexedOption in Hl. apply bind_Ok in Hl as (vs' & Hl' & Hl).
    pose proof (jag_nonopt_values _ _ Hj Hno Hl') as Hnn.
    destruct (pick_kept vs' ix0 vs mask Hl Hsub Hnn) as [Hg Hr].
    change (map (fun i : Z => if i <? 0 then -1 else i) ix0) with (map normix ix0).
    destruct (ccarry_jag c' vs' (kept (map normix ix0) mask) Hj Hl') as (next & Hc & Hjn & Hln & Htn & Hsn & _ & Hon & _ & _).
    { rewrite <- (to_list_len _ _ Hl'). exact Hr. }
    exists next. rewrite Hc. split; [reflexivity|]. split; [exact Hjn|]. split; [congruence|]. split; [now rewrite Hln|].
    split; [unfold type_of in *; cbn [type_of_p strip_opt_t]; exact Htn|]. split; [cbn [csize]; lia|intros _; cbn [csize]; lia].
  - destruct (ccarry_jag c vs (kept (iota (zlen mask)) mask) Hj Hl) as (next & Hc & Hjn & Hln & Htn & Hsn & _ & Hon & _ & _).
    { apply Forall_forall. intros i Hi. apply kept_in in Hi. apply iota_In' in Hi. unfold zlen in *. lia. }
    exists next. rewrite Hc. split; [reflexivity|]. split; [exact Hjn|]. split; [congruence|]. split; [|split; [|split; [lia|discriminate]]].
    + rewrite Hln. unfold iota. replace (Z.to_nat (zlen mask)) with (length vs) by (unfold zlen; lia).
      exact (gather_kept_iota vs mask [] Hml).
    + rewrite Htn. destruct (type_of_jag c Hj) as (_ & Ht & _). rewrite Ho in Ht.
      destruct (type_of c); try reflexivity. discriminate.
Qed.

(* ------------------------------------------------------------------ dispatch on two fragment inputs *)
Definition agrees (m s : res (list value)) : Prop :=
  match s with Ok out => m = Ok out | Err e => e = EValue /\ m = Err EValue end.
Definition obs (r : res content) : res (list value) := do c <- r; to_list c.

Lemma to_nparr_jag c vs : jag c = true -> to_list c = Ok vs ->
  exists r, to_nparr (MC c) = Ok r /\ (is_numpy_node c = false -> r = None).
Proof.
  intros Hj Hl. destruct (is_numpy_node c) eqn:Hn.
  - destruct c; try discriminate. destruct shape as [|n [|d ds]]; try discriminate.
    destruct (to_list_numpy1 _ _ _ _ Hl) as (_ & Hd & _). cbn [jag] in Hj.
    rewrite (to_nparr_jag_numpy dt n data Hj Hd). eexists. split; [reflexivity|discriminate].
  - rewrite (to_nparr_jag_other c Hj Hn). exists None. auto.
Qed.

Lemma getfunction_none op c1 c2 vs1 vs2 :
  jag c1 = true -> jag c2 = true -> to_list c1 = Ok vs1 -> to_list c2 = Ok vs2 ->
  is_numpy_node c1 && is_numpy_node c2 = false ->
  getfunction op None [MC c1; MC c2] = Ok None.
Proof.
  intros H1 H2 L1 L2 Hn. unfold getfunction. cbn [mapM].
  destruct (to_nparr_jag c1 vs1 H1 L1) as (r1 & E1 & N1). destruct (to_nparr_jag c2 vs2 H2 L2) as (r2 & E2 & N2).
  rewrite E1, E2. cbn [bind].
  destruct (is_numpy_node c1) eqn:A1.
  - cbn [andb] in Hn. rewrite (N2 Hn). cbn [all_somes]. now destruct r1.
  - rewrite (N1 eq_refl). reflexivity.
Qed.

Lemma dispatch_nonleaf op rec c1 c2 vs1 vs2 :
  jag c1 = true -> jag c2 = true -> to_list c1 = Ok vs1 -> to_list c2 = Ok vs2 -> zlen vs1 = zlen vs2 ->
  is_numpy_node c1 && is_numpy_node c2 = false ->
  dispatch op None rec [MC c1; MC c2] =
  if is_option_node c1 || is_option_node c2 then opt_branch rec [MC c1; MC c2] else list_branch rec [MC c1; MC c2].
Proof.
  intros H1 H2 L1 L2 Hz Hn. unfold dispatch. cbn [contents_of flat_map app].
  pose proof (jag_rcond c1 c2 H1 H2) as Hr. cbv zeta in Hr. cbv zeta. rewrite Hr.
  unfold checklength, all_eq. cbn [map forallb].
  rewrite <- (to_list_len _ _ L1), <- (to_list_len _ _ L2), Hz, Z.eqb_refl. cbn [andb negb].
  rewrite (getfunction_none op c1 c2 vs1 vs2 H1 H2 L1 L2 Hn). cbn [bind].
  destruct (jag_nodes c1 H1) as (A1 & A2 & A3 & A4 & A5 & A6 & _ & T1).
  destruct (jag_nodes c2 H2) as (B1 & B2 & B3 & B4 & B5 & B6 & _ & T2).
  cbn [existsb]. rewrite A1, A2, A3, A4, B1, B2, B3, B4. cbn [orb].
  rewrite orb_false_r. destruct (is_option_node c1 || is_option_node c2) eqn:Eo; [reflexivity|].
  apply orb_false_elim in Eo as [O1 O2].
  assert (Hl : is_list_node c1 || (is_list_node c2 || false) = true).
  { rewrite orb_false_r. destruct T1 as [T|[T|T]]; destruct T2 as [T'|[T'|T']]; try congruence.
    - rewrite T, T' in Hn. discriminate.
    - rewrite T'. now rewrite orb_true_r.
    - now rewrite T.
    - now rewrite T. }
  now rewrite Hl.
Qed.

(* ------------------------------------------------------------------ the option step *)
Definition step_ok op (rec : list minput -> res content) (fuel : nat) (bound : nat) : Prop :=
  forall n1 n2 ws1 ws2,
    jag n1 = true -> jag n2 = true -> to_list n1 = Ok ws1 -> to_list n2 = Ok ws2 -> zlen ws1 = zlen ws2 ->
    (csize n1 + csize n2 < bound)%nat ->
    agrees (obs (rec [MC n1; MC n2])) (mapM (spec_v op false fuel) (rows2 (type_of n1) (type_of n2) ws1 ws2)) /\
    (forall out, rec [MC n1; MC n2] = Ok out -> jag out = true /\ is_option_node out = is_option_node n1 || is_option_node n2).

Lemma sub_or_l a : forall b, length a = length b ->
  Forall2 (fun (x : bool) (m : bool) => x = true -> m = true) a (or_masks a b).
Proof. induction a as [|x a IH]; intros [|y b] H; try discriminate; constructor; [now intros ->|apply IH; cbn in H; lia]. Qed.
Lemma sub_or_r a : forall b, length a = length b ->
  Forall2 (fun (x : bool) (m : bool) => x = true -> m = true) b (or_masks a b).
Proof. induction a as [|x a IH]; intros [|y b] H; try discriminate; constructor; [intros ->; apply orb_true_r|apply IH; cbn in H; lia]. Qed.
Lemma Forall2_map_l {A B C} (f : A -> B) (R : B -> C -> Prop) l m : Forall2 R (map f l) m -> Forall2 (fun x y => R (f x) y) l m.
Proof. revert m. induction l as [|x l IH]; intros m H; inversion H; subst; constructor; auto. Qed.

Lemma rows2_none t1 t2 vs1 : forall vs2,
  length vs1 = length vs2 ->
  (is_optT t1 = false -> Forall (fun v => is_none v = false) vs1) ->
  (is_optT t2 = false -> Forall (fun v => is_none v = false) vs2) ->
  map none_in (rows2 t1 t2 vs1 vs2) = or_masks (map is_none vs1) (map is_none vs2).
Proof.
  unfold rows2. induction vs1 as [|x vs1 IH]; intros [|y vs2] H N1 N2; try discriminate; [reflexivity|].
  cbn [zip map or_masks]. f_equal.
  - unfold none_in. cbn [existsb fst snd]. rewrite orb_false_r.
    assert (is_optT t1 && is_none x = is_none x).
    { destruct (is_optT t1); [reflexivity|]. specialize (N1 eq_refl). inversion N1; subst. now rewrite H2. }
    assert (is_optT t2 && is_none y = is_none y).
    { destruct (is_optT t2); [reflexivity|]. specialize (N2 eq_refl). inversion N2; subst. now rewrite H3. }
    congruence.
  - apply IH; [cbn in H; lia| |]; intros E; [specialize (N1 E)|specialize (N2 E)]; now inversion N1 || now inversion N2.
Qed.

Lemma rows2_kept_strip t1 t2 vs1 vs2 mask :
  map (map strip_opt) (kept (rows2 t1 t2 vs1 vs2) mask) =
  rows2 (strip_opt_t t1) (strip_opt_t t2) (kept vs1 mask) (kept vs2 mask).
Proof.
  unfold rows2. rewrite kept_map, kept_zip, map_map. apply map_ext. intros [x y]. cbn [fst snd map].
  unfold strip_opt. cbn [fst snd]. destruct t1, t2; reflexivity.
Qed.

Lemma spec_opt_row op fuel t1 t2 x y :
  jagT t1 = true -> jagT t2 = true -> is_optT t1 || is_optT t2 = true ->
  spec_v op false (S fuel) [(t1, x); (t2, y)] =
  if none_in [(t1, x); (t2, y)] then Ok VNone else spec_v op false fuel (map strip_opt [(t1, x); (t2, y)]).
Proof.
  intros H1 H2 Ho. rewrite spec_v_S. cbv zeta. rewrite rpad_nocond by (cbn [map fst]; now apply jagT_rpad).
  cbn [map fst existsb]. rewrite (jagT_notbad t1 H1), (jagT_notbad t2 H2). cbn [orb]. rewrite orb_false_r, Ho. reflexivity.
Qed.

Lemma opt_case op rec fuel c1 c2 vs1 vs2 :
  jag c1 = true -> jag c2 = true -> to_list c1 = Ok vs1 -> to_list c2 = Ok vs2 -> zlen vs1 = zlen vs2 ->
  is_option_node c1 || is_option_node c2 = true ->
  step_ok op rec fuel (csize c1 + csize c2) ->
  agrees (obs (dispatch op None rec [MC c1; MC c2]))
         (mapM (spec_v op false (S fuel)) (rows2 (type_of c1) (type_of c2) vs1 vs2)) /\
  (forall out, dispatch op None rec [MC c1; MC c2] = Ok out -> jag out = true /\ is_option_node out = true).
Proof.
  intros H1 H2 L1 L2 Hz Ho IH.
  assert (Hn : is_numpy_node c1 && is_numpy_node c2 = false).
  { destruct c1; try reflexivity. destruct c2; try reflexivity. discriminate. }
  rewrite (dispatch_nonleaf op rec c1 c2 vs1 vs2 H1 H2 L1 L2 Hz Hn), Ho.
  set (m1 := map is_none vs1). set (m2 := map is_none vs2). set (mask := or_masks m1 m2).
  assert (Hlm : length m1 = length m2) by (unfold m1, m2; rewrite !map_length; unfold zlen in Hz; lia).
  (* the mask the model computes *)
  assert (Hmask : exists m0 ms, mapM bytemask_of (filter is_option_node [c1; c2]) = Ok (m0 :: ms) /\ fold_left or_masks ms m0 = mask).
  { destruct (is_option_node c1) eqn:O1; destruct (is_option_node c2) eqn:O2; try discriminate; cbn [filter]; rewrite ?O1, ?O2.
    - destruct c1; try discriminate. destruct c2; try discriminate. cbn [mapM].
      rewrite (bytemask_jag _ _ _ _ H1 L1), (bytemask_jag _ _ _ _ H2 L2). cbn [bind]. eexists _, _. split; reflexivity.
    - destruct c1; try discriminate. cbn [mapM]. rewrite (bytemask_jag _ _ _ _ H1 L1). cbn [bind]. eexists _, _. split; [reflexivity|].
      cbn [fold_left]. unfold mask. symmetry. apply or_masks_false_r; [exact Hlm|].
      pose proof (jag_nonopt_values c2 vs2 H2 O2 L2) as Hv. unfold m2. clear -Hv. induction Hv; cbn; [reflexivity|]. now rewrite H, IHHv.
    - destruct c2; try discriminate. cbn [mapM]. rewrite (bytemask_jag _ _ _ _ H2 L2). cbn [bind]. eexists _, _. split; [reflexivity|].
      cbn [fold_left]. unfold mask. symmetry. apply or_masks_false_l; [exact Hlm|].
      pose proof (jag_nonopt_values c1 vs1 H1 O1 L1) as Hv. unfold m1. clear -Hv. induction Hv; cbn; [reflexivity|]. now rewrite H, IHHv. }
  destruct Hmask as (m0 & ms & Hmasks & Hfold).
  (* the two projected inputs *)
  destruct (opt_next c1 vs1 mask H1 L1) as (n1 & P1 & J1 & NO1 & T1 & Ty1 & S1 & S1').
  { apply (Forall2_map_l is_none (fun (x m : bool) => x = true -> m = true) vs1 mask). apply (sub_or_l m1 m2 Hlm). }
  destruct (opt_next c2 vs2 mask H2 L2) as (n2 & P2 & J2 & NO2 & T2 & Ty2 & S2 & S2').
  { apply (Forall2_map_l is_none (fun (x m : bool) => x = true -> m = true) vs2 mask). apply (sub_or_r m1 m2 Hlm). }
  assert (Hlmask1 : length mask = length vs1) by (unfold mask; rewrite or_masks_length by exact Hlm; unfold m1; now rewrite map_length).
  assert (Hlmask2 : length mask = length vs2) by (unfold zlen in Hz; lia).
  assert (Hzk : zlen (kept vs1 mask) = zlen (kept vs2 mask)) by (rewrite !zlen_kept by assumption; reflexivity).
  assert (Hsz : (csize n1 + csize n2 < csize c1 + csize c2)%nat).
  { destruct (is_option_node c1) eqn:O1; [specialize (S1' eq_refl); lia|]. cbn [orb] in Ho. specialize (S2' Ho). lia. }
  destruct (IH n1 n2 _ _ J1 J2 T1 T2 Hzk Hsz) as [IHa IHj].
  (* the model's expression *)
  assert (Hopt : opt_branch rec [MC c1; MC c2] =
                 do out <- rec [MC n1; MC n2]; Ok (IndexedOption I64 (count_index 0 mask) out)).
  { unfold opt_branch. cbn [contents_of flat_map app]. rewrite Hmasks. cbn [bind]. cbv zeta. rewrite Hfold.
    unfold map_c. cbn [mapM]. change (if is_option_node c1 then _ else _) with (opt_proj mask c1).
    change (if is_option_node c2 then _ else _) with (opt_proj mask c2). rewrite P1, P2. reflexivity. }
  rewrite Hopt.
  (* the specification's rows *)
  destruct (type_of_jag c1 H1) as (JT1 & OT1 & _). destruct (type_of_jag c2 H2) as (JT2 & OT2 & _).
  set (t1 := type_of c1) in *. set (t2 := type_of c2) in *. set (rows := rows2 t1 t2 vs1 vs2).
  assert (Hisn : map none_in rows = mask).
  { unfold rows, mask, m1, m2. apply (rows2_none t1 t2 vs1 vs2).
    - clear -Hz. unfold zlen in Hz. lia.
    - intros E. apply (jag_nonopt_values c1 vs1 H1); [congruence|exact L1].
    - intros E. apply (jag_nonopt_values c2 vs2 H2); [congruence|exact L2]. }
  pose proof (mapM_scatter (spec_v op false (S fuel)) (fun r => spec_v op false fuel (map strip_opt r)) none_in rows) as Hsc.
  rewrite Hisn in Hsc.
  assert (Hrows' : mapM (fun r => spec_v op false fuel (map strip_opt r)) (kept rows mask) =
                   mapM (spec_v op false fuel) (rows2 (type_of n1) (type_of n2) (kept vs1 mask) (kept vs2 mask))).
  { rewrite <- (mapM_map (spec_v op false fuel) (map strip_opt)). unfold rows. rewrite rows2_kept_strip. now rewrite Ty1, Ty2. }
  rewrite Hrows' in Hsc.
  assert (Hg : forall r, In r rows -> spec_v op false (S fuel) r = if none_in r then Ok VNone else spec_v op false fuel (map strip_opt r)).
  { intros r Hr. unfold rows, rows2 in Hr. apply in_map_iff in Hr as ([x y] & <- & _). cbn [fst snd].
    apply spec_opt_row; [exact JT1|exact JT2|]. rewrite OT1, OT2. exact Ho. }
  specialize (Hsc Hg).
  split.
  - destruct (mapM (spec_v op false fuel) (rows2 (type_of n1) (type_of n2) (kept vs1 mask) (kept vs2 mask))) as [ys|e] eqn:Einner.
    + rewrite Hsc. cbn [agrees] in IHa |- *. unfold obs in *. apply bind_Ok in IHa as (out & Hrec & Hout). rewrite Hrec. cbn [bind].
      rewrite to_list_IndexedOption, Hout. cbn [bind].
      assert (Hny : nfalse mask = zlen ys).
      { rewrite (mapM_zlen _ _ _ Einner). unfold rows2. rewrite zlen_map, zlen_zip, !zlen_kept by assumption. lia. }
      exact (count_index_scatter ys mask [] Hny).
    + rewrite Hsc. cbn [agrees] in IHa |- *. destruct IHa as [-> IHa]. split; [reflexivity|].
      unfold obs in *. destruct (rec [MC n1; MC n2]) as [out|e']; cbn [bind] in *.
      * rewrite to_list_IndexedOption, IHa. reflexivity.
      * exact IHa.
  - intros out Hd. apply bind_Ok in Hd as (o & Hrec & Hd). inversion Hd; subst out.
    destruct (IHj o Hrec) as [Jo Oo]. rewrite NO1, NO2 in Oo. cbn [jag is_option_node]. now rewrite Jo, Oo.
Qed.

(* ------------------------------------------------------------------ list nodes: starts, stops, inner content *)
Definition inner (c : content) : content :=
  match c with ListOffset _ _ c' | ListA _ _ _ c' => c' | _ => c end.
Definition lstarts (c : content) : list Z :=
  match c with ListOffset _ o _ => removelast o | ListA _ s _ _ => s | _ => [] end.
Definition lstops (c : content) : list Z :=
  match c with ListOffset _ o _ => tl o | ListA _ _ e _ => e | _ => [] end.

Lemma list_view c vs :
  jag c = true -> is_list_node c = true -> to_list c = Ok vs ->
  exists vs' ls, to_list (inner c) = Ok vs' /\ mapM (cut1 vs') (zip (lstarts c) (lstops c)) = Ok ls /\ vs = map VList ls /\
                 jag (inner c) = true /\ csize c = S (csize (inner c)) /\ type_of c = TList None None (type_of (inner c)) /\
                 zlen (lstarts c) = clen c /\ zlen (lstarts c) <= zlen (lstops c).
Proof.
  intros Hj Hl Ht.
  destruct c as [dt shape data| |w o c'|w s e c'|c' size zl|w ix0 c'|w ix0 c'|m vw c'|m vw lsb n c'|c'|w t ix0 cs|cs ks n|arr rn c'];
    try discriminate; cbn [jag] in Hj.
  - rewrite to_list_ListOffset in Ht. apply bind_Ok in Ht as (vs0 & Hl0 & Ht). apply rmap_Ok in Ht as (ls & Hc & ->).
    unfold cut in Hc. destruct o as [|a o]; [discriminate|]. rewrite pairs_zip in Hc.
    exists vs0, ls. cbn [inner lstarts lstops clen csize]. repeat split; try assumption.
    + rewrite zlen_removelast by discriminate. lia.
    + rewrite zlen_removelast, zlen_tl by discriminate. lia.
  - rewrite to_list_ListA in Ht. apply bind_Ok in Ht as (vs0 & Hl0 & Ht). apply rmap_Ok in Ht as (ls & Hc & ->).
    unfold cut2 in Hc. destruct (zlen e <? zlen s) eqn:E; [discriminate|].
    exists vs0, ls. cbn [inner lstarts lstops clen csize]. repeat split; try assumption. lia.
Qed.

Lemma cut1_inv {A} (vs : list A) a b l :
  cut1 vs (a, b) = Ok l ->
  zlen l = b - a /\ (a = b \/ (0 <= a /\ a <= b /\ b <= zlen vs)) /\ mapM (get vs) (range a b) = Ok l.
Proof.
  unfold cut1. destruct (a =? b) eqn:E.
  - intros H; inversion H; subst. assert (a = b) by lia. subst. repeat split; try (now left).
    + rewrite zlen_nil. lia.
    + now rewrite range_empty by lia.
  - intros H. pose proof (slice_inv _ _ _ _ H) as Hb. pose proof (slice_zlen _ _ _ _ H). repeat split; try assumption; [now right|].
    rewrite gather_range by lia. exact H.
Qed.

Lemma mapM_pointwise {A B} (f : A -> res B) l ys :
  zlen ys = zlen l -> (forall i, 0 <= i < zlen l -> (do x <- get l i; f x) = get ys i) -> mapM f l = Ok ys.
Proof.
  intros Hz Hp. destruct (mapM_total f l) as [zs Hzs].
  { intros x Hx. apply In_nth_error in Hx as [k Hk].
    assert (Hi : 0 <= Z.of_nat k < zlen l) by (pose proof (nth_error_Some l k); unfold zlen; rewrite Hk in *; split; [lia|]; apply inj_lt, H; discriminate).
    specialize (Hp _ Hi). unfold get at 1 in Hp. destruct (Z.of_nat k <? 0) eqn:E; [lia|]. rewrite Nat2Z.id, Hk in Hp. cbn [bind] in Hp.
    destruct (get_ok ys (Z.of_nat k) ltac:(lia)) as [y Hy]. rewrite Hy in Hp. eauto. }
  rewrite Hzs. f_equal. apply get_ext; [rewrite (mapM_zlen _ _ _ Hzs); lia|].
  intros i Hi. rewrite (mapM_zlen _ _ _ Hzs) in Hi. rewrite (mapM_get _ _ _ i Hzs). now apply Hp.
Qed.

Lemma lens_offsets s counts : lens_of (pairs (offsets_from s counts)) = counts.
Proof.
  revert s. induction counts as [|n ns IH]; intros s; [reflexivity|]. cbn [offsets_from]. rewrite pairs_offsets.
  unfold lens_of in *. cbn [map fst snd]. rewrite IH. f_equal. lia.
Qed.
Lemma zlen_offsets counts : forall s, zlen (offsets_from s counts) = zlen counts + 1.
Proof. induction counts as [|n ns IH]; intros s; cbn [offsets_from]; [reflexivity|]. rewrite !zlen_cons, IH. reflexivity. Qed.
Lemma hd_offsets s counts : exists r, offsets_from s counts = s :: r.
Proof. destruct counts; cbn; eauto. Qed.

(* the kernel awkward_ListArray_broadcast_tooffsets: succeeds exactly when every list has the target length *)
Lemma bto_kernel_ok counts starts stops lc :
  let n := zlen counts in
  n <= zlen starts -> n <= zlen stops ->
  Forall2 (fun (se : Z * Z) (k : Z) => 0 <= k /\ snd se - fst se = k /\ (fst se = snd se \/ snd se <= lc))
          (firstn (length counts) (zip starts stops)) counts ->
  bto_kernel (offsets_from 0 counts) starts stops lc =
  Ok (concat (map (fun se : Z * Z => range (fst se) (snd se)) (firstn (length counts) (zip starts stops)))).
Proof.
  intros n Hs He HF. unfold bto_kernel. rewrite zlen_offsets. replace (zlen counts + 1 - 1) with n by (unfold n; lia).
  set (P := pairs (offsets_from 0 counts)). set (B := firstn (length counts) (zip starts stops)) in *.
  assert (HzP : zlen P = n).
  { unfold P. rewrite zlen_pairs by (destruct counts; discriminate). rewrite zlen_offsets. unfold n. lia. }
  assert (HzB : zlen B = n) by (apply Forall2_length in HF; unfold zlen, n; lia).
  erewrite mapM_pointwise with (ys := map (fun se : Z * Z => range (fst se) (snd se)) B); [reflexivity| |].
  - rewrite zlen_map, zlen_zip, zlen_iota by (unfold n; apply zlen_nonneg). lia.
  - intros i Hi. rewrite zlen_zip, zlen_iota in Hi by (unfold n; apply zlen_nonneg).
    rewrite get_zip, get_iota by lia. cbn [bind].
    destruct (get_ok P i ltac:(lia)) as [[a b] Hab]. rewrite Hab. cbn [bind].
    destruct (get_ok B i ltac:(lia)) as [[s e] Hse].
    assert (Hzip : get (zip starts stops) i = Ok (s, e)).
    { unfold B in Hse. rewrite <- Hse. symmetry. unfold take. change (firstn (length counts) (zip starts stops)) with (take (Z.of_nat (length counts)) (zip starts stops)) || idtac.
      replace (firstn (length counts) (zip starts stops)) with (take n (zip starts stops)) by (unfold take, n, zlen; now rewrite Nat2Z.id).
      apply get_take. lia. }
    rewrite get_zip in Hzip. destruct (get starts i) as [s'|] eqn:Es; [|discriminate]. cbn [bind] in Hzip.
    destruct (get stops i) as [e'|] eqn:Ee; [|discriminate]. cbn [bind] in Hzip. inversion Hzip; subst s' e'. cbn [bind].
    (* the facts about entry i *)
    assert (Hk : exists k, get counts i = Ok k /\ 0 <= k /\ e - s = k /\ (s = e \/ e <= lc) /\ b - a = k).
    { destruct (get_ok counts i ltac:(unfold n in *; lia)) as [k Hk]. exists k. split; [exact Hk|].
      assert (Hl : get (lens_of P) i = Ok k) by (unfold P; now rewrite lens_offsets).
      unfold lens_of in Hl. rewrite get_map, Hab in Hl. cbn in Hl. inversion Hl.
      clear -HF Hse Hk. revert i Hse Hk. induction HF as [|se k' B counts H _ IH]; intros i Hse Hk; [rewrite get_nil in Hk; discriminate|].
      destruct (Z.compare_spec i 0) as [->|Hlt|Hgt].
      - cbn in Hse, Hk. inversion Hse; inversion Hk; subst. cbn [fst snd] in H. intuition.
      - rewrite get_oob in Hk by lia. discriminate.
      - rewrite get_cons_pos in Hse, Hk by lia. eapply IH; eassumption. }
    destruct Hk as (k & _ & Hk0 & Hke & Hlc & Hba).
    rewrite get_map, Hse. cbn [rmap fst snd].
    destruct (negb (s =? e) && (lc <? e)) eqn:E1; [lia|].
    destruct (b - a <? 0) eqn:E2; [lia|]. destruct (negb (e - s =? b - a)) eqn:E3; [lia|]. reflexivity.
Qed.

Lemma bto_kernel_err counts starts stops lc i se k :
  let n := zlen counts in
  n <= zlen starts -> n <= zlen stops ->
  get (zip starts stops) i = Ok se -> get counts i = Ok k -> snd se - fst se <> k ->
  bto_kernel (offsets_from 0 counts) starts stops lc = Err EValue.
Proof.
  intros n Hs He Hse Hk Hne. unfold bto_kernel. rewrite zlen_offsets. replace (zlen counts + 1 - 1) with n by (unfold n; lia).
  set (P := pairs (offsets_from 0 counts)).
  assert (HzP : zlen P = n).
  { unfold P. rewrite zlen_pairs by (destruct counts; discriminate). rewrite zlen_offsets. unfold n. lia. }
  pose proof (get_range _ _ _ Hk) as Hi. fold n in Hi.
  set (F := fun iab : Z * (Z * Z) => let (i0, ab) := iab in let (a, b) := ab in
              do start <- get starts i0; do stop <- get stops i0;
              if negb (start =? stop) && (lc <? stop) then Err EValue else
              let count := b - a in if count <? 0 then Err EValue else
              if negb (stop - start =? count) then Err EValue else Ok (range start stop)).
  change (rmap (@concat Z) (mapM F (zip (iota n) P)) = Err EValue).
  destruct (mapM F (zip (iota n) P)) as [ys|e] eqn:E; cbn [rmap].
  - exfalso. pose proof (mapM_get _ _ _ i E) as Hg. rewrite get_zip, get_iota in Hg by lia. cbn [bind] in Hg.
    destruct (get_ok P i ltac:(lia)) as [[a b] Hab]. rewrite Hab in Hg. cbn [bind F] in Hg.
    destruct se as [s e]. rewrite get_zip in Hse. destruct (get starts i) as [s'|]; [|discriminate]. cbn [bind] in Hse.
    destruct (get stops i) as [e'|]; [|discriminate]. cbn [bind] in Hse. inversion Hse; subst s' e'. cbn [bind fst snd] in *.
    assert (Hl : get (lens_of P) i = Ok k) by (unfold P; now rewrite lens_offsets).
    unfold lens_of in Hl. rewrite get_map, Hab in Hl. cbn in Hl. inversion Hl.
    destruct (get_ok ys i) as [y Hy]; [rewrite (mapM_zlen _ _ _ E), zlen_zip, zlen_iota by (unfold n; apply zlen_nonneg); lia|].
    rewrite Hy in Hg. destruct (negb (s =? e) && (lc <? e)); [discriminate|]. destruct (b - a <? 0); [discriminate|].
    destruct (negb (e - s =? b - a)) eqn:E3; [discriminate|]. lia.
  - f_equal. apply mapM_Err in E as ([j [a b]] & Hin & HF). apply zip_In in Hin as [Hj _]. apply iota_In' in Hj.
    cbn [F] in HF. destruct (get_ok starts j ltac:(lia)) as [s Hsj]. destruct (get_ok stops j ltac:(lia)) as [e' Hej].
    rewrite Hsj, Hej in HF. cbn [bind] in HF.
    destruct (negb (s =? e') && (lc <? e')); [now inversion HF|]. destruct (b - a <? 0); [now inversion HF|].
    destruct (negb (e' - s =? b - a)); [now inversion HF|discriminate].
Qed.

Lemma firstn_all' {A} (l : list A) n : (length l <= n)%nat -> firstn n l = l.
Proof. revert n. induction l as [|x l IH]; intros [|n] H; cbn in *; try reflexivity; try lia. f_equal. apply IH. lia. Qed.

(* compact_offsets64 of a list node: the running sums of the list lengths *)
Lemma map_sub_offsets base : forall o a,
  map (fun x => x - base) (a :: o) = offsets_from (a - base) (lens_of (pairs (a :: o))).
Proof.
  induction o as [|b o IH]; intros a; [reflexivity|].
  change (pairs (a :: b :: o)) with ((a, b) :: pairs (b :: o)). unfold lens_of in *. cbn [map fst snd offsets_from].
  f_equal. rewrite <- (IH b). cbn [map]. f_equal. lia.
Qed.

Lemma cut1_lens {A} (vs : list A) B ls : mapM (cut1 vs) B = Ok ls -> lens_of B = map zlen ls.
Proof.
  revert ls. induction B as [|[a b] B IH]; intros ls H; cbn in H.
  - inversion H. reflexivity.
  - apply bind_Ok in H as (l & Hl & H). apply bind_Ok in H as (ls' & Hls & H). inversion H; subst.
    unfold lens_of in *. cbn [map fst snd]. rewrite (IH _ Hls). f_equal. apply cut1_inv in Hl. lia.
Qed.

Lemma compact_offsets_jag c vs' ls :
  jag c = true -> is_list_node c = true ->
  mapM (cut1 vs') (zip (lstarts c) (lstops c)) = Ok ls -> zlen (lstarts c) <= zlen (lstops c) ->
  compact_offsets c = Ok (offsets_from 0 (map zlen ls)).
Proof.
  intros Hj Hl Hc Hle.
  destruct c as [dt shape data| |w o c'|w s e c'|c' size zl|w ix0 c'|w ix0 c'|m vw c'|m vw lsb n c'|c'|w t ix0 cs|cs ks n|arr rn c'];
    try discriminate; cbn [lstarts lstops] in *.
  - destruct o as [|o0 o]; [cbn in Hc; inversion Hc; subst; reflexivity|].
    cbn [compact_offsets]. rewrite <- pairs_zip in Hc. rewrite map_sub_offsets, (cut1_lens _ _ _ Hc). f_equal. f_equal. lia.
  - cbn [compact_offsets]. pose proof (cut1_lens _ _ _ Hc) as Hlens.
    assert (Hz : zlen ls = zlen s) by (rewrite (mapM_zlen _ _ _ Hc), zlen_zip; lia).
    erewrite mapM_pointwise with (ys := map zlen ls); [reflexivity| |].
    + rewrite zlen_map, zlen_iota by apply zlen_nonneg. exact Hz.
    + intros i Hi. rewrite zlen_iota in Hi by apply zlen_nonneg. rewrite get_iota by lia. cbn [bind].
      destruct (get_ok s i ltac:(lia)) as [a Ha]. destruct (get_ok e i ltac:(lia)) as [b Hb]. rewrite Ha, Hb. cbn [bind].
      pose proof (mapM_get _ _ _ i Hc) as Hg. rewrite get_zip, Ha, Hb in Hg. cbn [bind] in Hg.
      destruct (get_ok ls i ltac:(lia)) as [l Hli]. rewrite Hli in Hg. symmetry in Hg. apply cut1_inv in Hg as (Hzl & Hb' & _).
      rewrite get_map, Hli. cbn [rmap]. destruct (b <? a) eqn:E; [lia|]. f_equal. lia.
Qed.

(* broadcast_tooffsets64 of a list node whose lists all have the target lengths: the content, gathered *)
Lemma bto_list_ok c vs' ls :
  jag c = true -> is_list_node c = true -> to_list (inner c) = Ok vs' -> jag (inner c) = true ->
  mapM (cut1 vs') (zip (lstarts c) (lstops c)) = Ok ls ->
  zlen (lstarts c) = clen c -> zlen (lstarts c) <= zlen (lstops c) ->
  exists next, bto (offsets_from 0 (map zlen ls)) c = Ok next /\ jag next = true /\ to_list next = Ok (concat ls) /\
               type_of next = type_of (inner c) /\ csize next = csize (inner c) /\
               is_option_node next = is_option_node (inner c) /\ is_list_node next = is_list_node (inner c).
Proof.
  intros Hj Hl Hi Hji Hc Hzs Hle.
  set (counts := map zlen ls). set (B := zip (lstarts c) (lstops c)) in *.
  assert (HzB : zlen B = zlen (lstarts c)) by (unfold B; rewrite zlen_zip; lia).
  assert (Hzl : zlen ls = zlen B) by (apply (mapM_zlen _ _ _ Hc)).
  assert (Hzc : zlen counts = zlen B) by (unfold counts; now rewrite zlen_map).
  pose proof (to_list_len _ _ Hi) as Hlen'.
  assert (Hfirst : firstn (length counts) B = B) by (apply firstn_all'; unfold zlen in *; lia).
  assert (HF : Forall2 (fun (se : Z * Z) (k : Z) => 0 <= k /\ snd se - fst se = k /\ (fst se = snd se \/ snd se <= clen (inner c)))
                       (firstn (length counts) B) counts).
  { rewrite Hfirst. unfold counts. clear -Hc Hlen'. revert ls Hc. induction B as [|[a b] B IH]; intros ls Hc; cbn in Hc.
    - inversion Hc. constructor.
    - apply bind_Ok in Hc as (l & Hl & Hc). apply bind_Ok in Hc as (ls' & Hls & Hc). inversion Hc; subst. cbn [map].
      constructor; [|now apply IH]. apply cut1_inv in Hl as (H1 & H2 & _). cbn [fst snd]. pose proof (zlen_nonneg l). lia. }
  assert (Hk : bto_kernel (offsets_from 0 counts) (lstarts c) (lstops c) (clen (inner c)) =
               Ok (concat (map (fun se : Z * Z => range (fst se) (snd se)) B))).
  { rewrite <- Hfirst at 2. apply bto_kernel_ok; try lia. exact HF. }
  set (ix := concat (map (fun se : Z * Z => range (fst se) (snd se)) B)) in *.
  assert (Hg : mapM (get vs') ix = Ok (concat ls)).
  { unfold ix. rewrite mapM_concat, mapM_map.
    replace (mapM (fun x : Z * Z => mapM (get vs') (range (fst x) (snd x))) B) with (mapM (cut1 vs') B); [now rewrite Hc|].
    apply mapM_ext_in. intros [a b] Hin. destruct (mapM_Ok_In _ _ _ _ Hc Hin) as (l & Hl' & _).
    rewrite Hl'. apply cut1_inv in Hl' as (_ & _ & Hr). now rewrite Hr. }
  destruct (ccarry_jag (inner c) vs' ix Hji Hi) as (next & Hn & Hjn & Hln & Htn & Hsn & _ & Hon & Hlnn & _).
  { rewrite <- Hlen'. eapply gather_range_inv. exact Hg. }
  exists next. split; [|repeat split; try assumption; congruence].
  destruct (hd_offsets 0 counts) as [r Hr]. unfold bto. rewrite Hr. rewrite Z.eqb_refl. cbn [negb]. rewrite <- Hr.
  destruct c as [dt shape data| |w o c'|w s e c'|c' size zl|w ix0 c'|w ix0 c'|m vw c'|m vw lsb n c'|c'|w t ix0 cs|cs ks n|arr rn c'];
    try discriminate; cbn [lstarts lstops inner clen] in *.
  - rewrite zlen_offsets. destruct (zlen o - 1 <? zlen counts + 1 - 1) eqn:E; [lia|]. rewrite Hk. exact Hn.
  - rewrite zlen_offsets. destruct (zlen s <? zlen counts + 1 - 1) eqn:E; [lia|]. rewrite Hk. exact Hn.
Qed.

(* ... and an error as soon as one list has another length *)
Lemma bto_list_err c vs' ls counts i l k :
  jag c = true -> is_list_node c = true ->
  mapM (cut1 vs') (zip (lstarts c) (lstops c)) = Ok ls ->
  zlen (lstarts c) = clen c -> zlen (lstarts c) <= zlen (lstops c) ->
  zlen counts = clen c -> get ls i = Ok l -> get counts i = Ok k -> zlen l <> k ->
  bto (offsets_from 0 counts) c = Err EValue.
Proof.
  intros Hj Hl Hc Hzs Hle Hzc Hli Hki Hne.
  set (B := zip (lstarts c) (lstops c)) in *.
  assert (HzB : zlen B = zlen (lstarts c)) by (unfold B; rewrite zlen_zip; lia).
  pose proof (get_range _ _ _ Hli) as Hir. rewrite (mapM_zlen _ _ _ Hc) in Hir.
  destruct (get_ok B i Hir) as [[a b] Hab].
  pose proof (mapM_get _ _ _ i Hc) as Hg. rewrite Hab, Hli in Hg. cbn [bind] in Hg. symmetry in Hg. apply cut1_inv in Hg as (Hzl & _ & _).
  assert (Hk : bto_kernel (offsets_from 0 counts) (lstarts c) (lstops c) (clen (inner c)) = Err EValue).
  { eapply (bto_kernel_err counts (lstarts c) (lstops c) (clen (inner c)) i (a, b) k); try lia; try eassumption. cbn [fst snd]. lia. }
  destruct (hd_offsets 0 counts) as [r Hr]. unfold bto. rewrite Hr. rewrite Z.eqb_refl. cbn [negb]. rewrite <- Hr.
  destruct c as [dt shape data| |w o c'|w s e c'|c' size zl|w ix0 c'|w ix0 c'|m vw c'|m vw lsb n c'|c'|w t ix0 cs|cs ks n|arr rn c'];
    try discriminate; cbn [lstarts lstops inner clen] in *.
  - rewrite zlen_offsets. destruct (zlen o - 1 <? zlen counts + 1 - 1) eqn:E; [reflexivity|]. now rewrite Hk.
  - rewrite zlen_offsets. destruct (zlen s <? zlen counts + 1 - 1) eqn:E; [reflexivity|]. now rewrite Hk.
Qed.

(* tree-left: a non-list input is wrapped in a size-1 RegularArray and repeated for every inner list *)
Definition rep_each {A} (vs : list A) (counts : list Z) : list (list A) :=
  map (fun xk : A * Z => repeat (fst xk) (Z.to_nat (snd xk))) (zip vs counts).

Lemma bto_size1_ok counts :
  Forall (fun k => 0 <= k) counts ->
  bto_size1_kernel (offsets_from 0 counts) = Ok (concat (rep_each (iota (zlen counts)) counts)).
Proof.
  intros Hc. unfold bto_size1_kernel. rewrite zlen_offsets. replace (zlen counts + 1 - 1) with (zlen counts) by lia.
  set (n := zlen counts). set (P := pairs (offsets_from 0 counts)).
  assert (HzP : zlen P = n).
  { unfold P. rewrite zlen_pairs by (destruct counts; discriminate). rewrite zlen_offsets. unfold n. lia. }
  pose proof (zlen_nonneg counts) as Hn0. fold n in Hn0.
  erewrite mapM_pointwise with (ys := rep_each (iota n) counts); [reflexivity| |].
  - unfold rep_each. rewrite zlen_map, !zlen_zip, zlen_iota by lia. lia.
  - intros i Hi. rewrite zlen_zip, zlen_iota in Hi by lia. rewrite get_zip, get_iota by lia. cbn [bind].
    destruct (get_ok P i ltac:(lia)) as [[a b] Hab]. rewrite Hab. cbn [bind].
    destruct (get_ok counts i ltac:(unfold n in *; lia)) as [k Hk].
    assert (Hl : get (lens_of P) i = Ok k) by (unfold P; now rewrite lens_offsets).
    unfold lens_of in Hl. rewrite get_map, Hab in Hl. cbn in Hl. inversion Hl.
    assert (0 <= k). { rewrite Forall_forall in Hc. apply Hc. unfold get in Hk. destruct (i <? 0); [discriminate|].
      destruct (nth_error counts (Z.to_nat i)) eqn:E; [|discriminate]. inversion Hk; subst. eapply nth_error_In; eassumption. }
    destruct (b - a <? 0) eqn:E; [lia|]. unfold rep_each. rewrite get_map, get_zip, get_iota, Hk by lia. cbn. now rewrite H0.
Qed.

Lemma gather_rep_each {A} (vs : list A) : forall counts (pre : list A),
  length counts = length vs ->
  mapM (get (pre ++ vs)) (concat (rep_each (iota_nat (zlen pre) (length vs)) counts)) = Ok (concat (rep_each vs counts)).
Proof.
  induction vs as [|x vs IH]; intros [|k counts] pre H; try discriminate; [reflexivity|].
  cbn [length iota_nat]. unfold rep_each in *. cbn [zip map concat fst snd].
  assert (Hz : zlen (pre ++ [x]) = zlen pre + 1) by (rewrite zlen_app, zlen_cons, zlen_nil; lia).
  assert (Ha : (pre ++ [x]) ++ vs = pre ++ x :: vs) by (rewrite <- app_assoc; reflexivity).
  specialize (IH counts (pre ++ [x]) ltac:(cbn in H; lia)). rewrite Hz, Ha in IH.
  rewrite mapM_app, IH.
  assert (Hr : mapM (get (pre ++ x :: vs)) (repeat (zlen pre) (Z.to_nat k)) = Ok (repeat x (Z.to_nat k))).
  { induction (Z.to_nat k) as [|m IHm]; [reflexivity|]. cbn [repeat]. rewrite mapM_cons, IHm.
    pose proof (zlen_nonneg pre). rewrite get_app2 by lia. replace (zlen pre - zlen pre) with 0 by lia. now rewrite get_cons_0. }
  rewrite Hr. reflexivity.
Qed.

Lemma bto_leaf_ok c vs counts :
  jag c = true -> is_list_node c = false -> to_list c = Ok vs ->
  zlen counts = zlen vs -> Forall (fun k => 0 <= k) counts ->
  exists next, bto (offsets_from 0 counts) (Regular c 1 (clen c)) = Ok next /\ jag next = true /\
               to_list next = Ok (concat (rep_each vs counts)) /\ type_of next = type_of c /\ csize next = csize c /\
               is_option_node next = is_option_node c /\ is_list_node next = false.
Proof.
  intros Hj Hnl Hl Hz Hc. pose proof (to_list_len _ _ Hl) as Hlen.
  set (ix := concat (rep_each (iota (zlen counts)) counts)).
  assert (Hg : mapM (get vs) ix = Ok (concat (rep_each vs counts))).
  { unfold ix, iota. replace (Z.to_nat (zlen counts)) with (length vs) by (unfold zlen in *; lia).
    apply (gather_rep_each vs counts []). unfold zlen in *. lia. }
  destruct (ccarry_jag c vs ix Hj Hl) as (next & Hn & Hjn & Hln & Htn & Hsn & _ & Hon & Hlnn & _).
  { rewrite <- Hlen. eapply gather_range_inv. exact Hg. }
  exists next. split; [|repeat split; try assumption; congruence].
  destruct (hd_offsets 0 counts) as [r Hr]. unfold bto. rewrite Hr. rewrite Z.eqb_refl. cbn [negb]. rewrite <- Hr.
  rewrite zlen_offsets. cbn [clen]. rewrite Z.div_1_r. cbn [Z.eqb]. 
  destruct (negb (zlen counts + 1 - 1 =? clen c)) eqn:E; [lia|]. rewrite (bto_size1_ok counts Hc). exact Hn.
Qed.

(* ------------------------------------------------------------------ the list step: specification side *)
Lemma transpose2 {A} (c1 c2 : list A) n :
  length c1 = n -> length c2 = n -> transpose n [c1; c2] = map (fun ab : A * A => [fst ab; snd ab]) (zip c1 c2).
Proof.
  intros H1 H2. unfold transpose. cbn [fold_right].
  assert (Hs : zipcons c2 (repeat [] n) = map (fun y => [y]) c2).
  { subst n. clear. induction c2 as [|y c2 IH]; [reflexivity|]. cbn. now rewrite IH. }
  rewrite Hs. clear Hs. revert c2 n H1 H2. induction c1 as [|x c1 IH]; intros [|y c2] n H1 H2; cbn in *; subst; try discriminate; [reflexivity|].
  f_equal. apply (IH c2 (length c1)); [reflexivity|]. lia.
Qed.

Lemma spec_list_row op fuel t1 t2 x y :
  jagT t1 = true -> jagT t2 = true -> is_optT t1 = false -> is_optT t2 = false -> is_listT t1 || is_listT t2 = true ->
  spec_v op false (S fuel) [(t1, x); (t2, y)] =
  do n <- first_var_len [(t1, x); (t2, y)];
  do c1 <- column n (t1, x); do c2 <- column n (t2, y);
  rmap VList (mapM (spec_v op false fuel) (rows2 (elemT t1) (elemT t2) (map snd c1) (map snd c2))).
Proof.
  intros H1 H2 O1 O2 Hl. rewrite spec_v_S. cbv zeta. rewrite rpad_nocond by (cbn [map fst]; now apply jagT_rpad).
  cbn [map fst existsb]. rewrite (jagT_notbad t1 H1), (jagT_notbad t2 H2), O1, O2. cbn [orb]. rewrite orb_false_r, Hl.
  assert (Ht : list_target [(t1, x); (t2, y)] = first_var_len [(t1, x); (t2, y)]).
  { unfold list_target. cbn [map fst filter].
    assert (P : forall t, jagT t = true -> is_listT t = true -> is_regT t = false).
    { intros t Ht Hlt. destruct t as [| |[z|] [b|] t0| | |]; try discriminate; reflexivity. }
    destruct (is_listT t1) eqn:L1.
    - cbn [forallb]. now rewrite (P t1 H1 L1).
    - cbn [orb] in Hl. rewrite Hl. cbn [forallb]. now rewrite (P t2 H2 Hl). }
  rewrite Ht. destruct (first_var_len [(t1, x); (t2, y)]) as [n|e]; [|reflexivity]. cbn [bind mapM].
  destruct (column n (t1, x)) as [c1|e] eqn:E1; [|reflexivity]. cbn [bind].
  destruct (column n (t2, y)) as [c2|e] eqn:E2; [|reflexivity]. cbn [bind].
  destruct (column_shape n (t1, x) c1 (jagT_notbad t1 H1) E1) as [Hn1 Hf1].
  destruct (column_shape n (t2, y) c2 (jagT_notbad t2 H2) E2) as [Hn2 Hf2]. cbn [fst] in Hf1, Hf2.
  rewrite (transpose2 c1 c2 (Z.to_nat n) Hn1 Hn2). do 2 f_equal. unfold rows2. rewrite zip_map, map_map.
  apply map_ext_in. intros [[ta a] [tb b]] Hin. apply zip_In in Hin as [Ha Hb]. cbn [fst snd].
  rewrite Forall_forall in Hf1, Hf2. specialize (Hf1 _ Ha). specialize (Hf2 _ Hb). cbn [fst] in Hf1, Hf2. now subst.
Qed.

Lemma rows2_app t1 t2 a1 b1 a2 b2 : length a1 = length a2 ->
  rows2 t1 t2 (a1 ++ b1) (a2 ++ b2) = rows2 t1 t2 a1 a2 ++ rows2 t1 t2 b1 b2.
Proof.
  unfold rows2. intros H. rewrite <- map_app. f_equal. revert a2 H. induction a1 as [|x a1 IH]; intros [|y a2] H; try discriminate; [reflexivity|].
  cbn [app zip]. f_equal. apply IH. cbn in H. lia.
Qed.
Lemma rows2_concat t1 t2 p1 : forall p2, map zlen p1 = map zlen p2 ->
  rows2 t1 t2 (concat p1) (concat p2) = concat (map (fun p : list value * list value => rows2 t1 t2 (fst p) (snd p)) (zip p1 p2)).
Proof.
  induction p1 as [|a p1 IH]; intros [|b p2] H; try discriminate; [reflexivity|]. cbn [map] in H. inversion H.
  cbn [concat zip map fst snd]. rewrite rows2_app by (unfold zlen in *; lia). f_equal. now apply IH.
Qed.

(* all errors of the specification on fragment types are value errors, given the fuel *)
Lemma tsize_jag c : jag c = true -> tsize (type_of c) = csize c.
Proof.
  unfold type_of.
  induction c as [dt shape data| |w o c IHc|w s e c IHc|c size zl IHc|w ix c IHc|w ix c IHc|m vw c IHc
                 |m vw lsb n c IHc|c IHc|w t ix cs IHcs|cs ks n IHcs|arr rn c IHc] using content_ind';
    try discriminate; cbn [jag type_of_p strflag tsize csize].
  - destruct shape as [|n [|d ds]]; try discriminate. reflexivity.
  - intros H. now rewrite (IHc H).
  - intros H. now rewrite (IHc H).
  - intros H. apply andb_prop in H as [H _]. now rewrite (IHc H).
Qed.

Lemma first_var_len_err args e : first_var_len args = Err e -> e = EValue.
Proof.
  induction args as [|[t v] args IH]; [intros H; now inversion H|]. cbn.
  destruct t as [dt| |[z|] [b|] t0|t0|ks fs|alts]; try exact IH. destruct v; try exact IH; try (intros H; now inversion H). discriminate.
Qed.

Lemma jagT_elem t : jagT t = true -> is_optT t = false -> jagT (elemT t) = true /\ (tsize (elemT t) <= tsize t)%nat /\
                                                           (is_listT t = true -> (tsize (elemT t) < tsize t)%nat).
Proof.
  destruct t as [dt| |[z|] [b|] t0|t0|ks fs|alts]; try discriminate; cbn [jagT elemT tsize is_listT]; intros H _; repeat split; try assumption; try lia; discriminate.
Qed.
Lemma jagT_strip t : jagT t = true -> jagT (strip_opt_t t) = true /\ (tsize (strip_opt_t t) <= tsize t)%nat /\
                                        (is_optT t = true -> (tsize (strip_opt_t t) < tsize t)%nat).
Proof.
  destruct t as [dt| |[z|] [b|] t0|t0|ks fs|alts]; try discriminate; cbn [jagT strip_opt_t tsize is_optT]; intros H; repeat split; try assumption; try lia; try discriminate.
  apply andb_prop in H. tauto.
Qed.

Lemma spec_err_value op : forall fuel t1 t2 x y e,
  jagT t1 = true -> jagT t2 = true -> (tsize t1 + tsize t2 < fuel)%nat ->
  spec_v op false fuel [(t1, x); (t2, y)] = Err e -> e = EValue.
Proof.
  induction fuel as [|fuel IH]; intros t1 t2 x y e H1 H2 Hf; [lia|].
  destruct (is_optT t1 || is_optT t2) eqn:Ho.
  - rewrite spec_opt_row by assumption. destruct (none_in _); [discriminate|]. cbn [map]. unfold strip_opt. cbn [fst snd].
    destruct (jagT_strip t1 H1) as (J1 & S1 & S1'). destruct (jagT_strip t2 H2) as (J2 & S2 & S2').
    assert (Hsz : (tsize (strip_opt_t t1) + tsize (strip_opt_t t2) < fuel)%nat).
    { destruct (is_optT t1) eqn:O1; [specialize (S1' eq_refl); lia|]. cbn [orb] in Ho. specialize (S2' Ho). lia. }
    intros H. refine (IH (strip_opt_t t1) (strip_opt_t t2) x y e J1 J2 Hsz _).
    destruct t1, t2; exact H.
  - apply orb_false_elim in Ho as [O1 O2]. destruct (is_listT t1 || is_listT t2) eqn:Hl.
    + rewrite spec_list_row by assumption.
      destruct (first_var_len _) as [n|e0] eqn:En; cbn [bind]; [|intros H; inversion H; subst; eapply first_var_len_err; eassumption].
      destruct (column n (t1, x)) as [c1|e1] eqn:E1; cbn [bind]; [|intros H; inversion H; subst; eapply column_err; eassumption].
      destruct (column n (t2, y)) as [c2|e2] eqn:E2; cbn [bind]; [|intros H; inversion H; subst; eapply column_err; eassumption].
      destruct (mapM _ _) as [ys|e'] eqn:Em; cbn [rmap]; [discriminate|]. intros H; inversion H; subst e'.
      apply mapM_Err in Em as (row & Hin & Hrow). unfold rows2 in Hin. apply in_map_iff in Hin as ([a b] & <- & _). cbn [fst snd] in Hrow.
      destruct (jagT_elem t1 H1 O1) as (J1 & S1 & S1'). destruct (jagT_elem t2 H2 O2) as (J2 & S2 & S2').
      assert (Hsz : (tsize (elemT t1) + tsize (elemT t2) < fuel)%nat).
      { destruct (is_listT t1) eqn:L1; [specialize (S1' eq_refl); lia|]. cbn [orb] in Hl. specialize (S2' Hl). lia. }
      exact (IH _ _ _ _ _ J1 J2 Hsz Hrow).
    + apply orb_false_elim in Hl as [L1 L2]. rewrite spec_v_S. cbv zeta. rewrite rpad_nocond by (cbn [map fst]; now apply jagT_rpad).
      cbn [map fst existsb]. rewrite (jagT_notbad t1 H1), (jagT_notbad t2 H2), O1, O2, L1, L2. cbn [orb].
      assert (R1 : is_recT t1 = false) by (destruct t1 as [| |[z|] [b|] t0| | |]; try discriminate; reflexivity).
      assert (R2 : is_recT t2 = false) by (destruct t2 as [| |[z|] [b|] t0| | |]; try discriminate; reflexivity).
      rewrite R1, R2. cbn [orb mapM].
      unfold leaf_zb. cbn [snd]. destruct x as [[z| |]| | | | | |]; cbn [bind]; try (intros H; now inversion H);
        destruct y as [[z'| |]| | | | | |]; cbn [bind]; try (intros H; now inversion H); discriminate.
Qed.

(* ------------------------------------------------------------------ the list step: putting model and specification together *)
Lemma mapM_mapM_zlen {A B} (F : A -> res B) xs ys : mapM (mapM F) xs = Ok ys -> map zlen ys = map zlen xs.
Proof. intros H. symmetry. eapply mapM_mapM_lens. exact H. Qed.

Lemma list_assemble op rec fuel n1 n2 pieces1 pieces2 (R : content -> content) rows bound :
  jag n1 = true -> jag n2 = true -> to_list n1 = Ok (concat pieces1) -> to_list n2 = Ok (concat pieces2) ->
  map zlen pieces1 = map zlen pieces2 ->
  (csize n1 + csize n2 < bound)%nat -> step_ok op rec fuel bound ->
  (forall out, to_list (R out) = do outvs <- to_list out; rmap (map VList) (cut outvs (offsets_from 0 (map zlen pieces1)))) ->
  (forall out, jag out = true -> jag (R out) = true /\ is_option_node (R out) = false) ->
  mapM (spec_v op false (S fuel)) rows =
    mapM (fun p : list value * list value =>
            rmap VList (mapM (spec_v op false fuel) (rows2 (type_of n1) (type_of n2) (fst p) (snd p)))) (zip pieces1 pieces2) ->
  agrees (obs (do out <- rec [MC n1; MC n2]; Ok (R out))) (mapM (spec_v op false (S fuel)) rows) /\
  (forall out, (do out <- rec [MC n1; MC n2]; Ok (R out)) = Ok out -> jag out = true /\ is_option_node out = false).
Proof.
  intros J1 J2 L1 L2 Hlens Hsz IH HR HRj Hspec.
  assert (Hzc : zlen (concat pieces1) = zlen (concat pieces2)).
  { clear -Hlens. revert pieces2 Hlens. induction pieces1 as [|a p1 IHp]; intros [|b p2] H; try discriminate; [reflexivity|].
    cbn [map] in H. inversion H. cbn [concat]. rewrite !zlen_app. rewrite (IHp p2) by assumption. lia. }
  destruct (IH n1 n2 _ _ J1 J2 L1 L2 Hzc Hsz) as [IHa IHj].
  rewrite (rows2_concat _ _ pieces1 pieces2 Hlens), mapM_concat, mapM_map in IHa.
  set (g := spec_v op false fuel) in *. set (r2 := fun p : list value * list value => rows2 (type_of n1) (type_of n2) (fst p) (snd p)) in *.
  rewrite Hspec. change (fun p => rmap VList (mapM g (rows2 (type_of n1) (type_of n2) (fst p) (snd p)))) with (fun p => rmap VList (mapM g (r2 p))).
  rewrite (mapM_rmap (fun p => mapM g (r2 p)) VList (zip pieces1 pieces2)).
  split.
  - destruct (mapM (fun x => mapM g (r2 x)) (zip pieces1 pieces2)) as [yss|e] eqn:Einner; cbn [rmap agrees] in *.
    + unfold obs in *. apply bind_Ok in IHa as (out & Hrec & Hout). rewrite Hrec. cbn [bind]. rewrite HR, Hout. cbn [bind].
      assert (Hl : map zlen pieces1 = map zlen yss).
      { rewrite <- (mapM_map (mapM g) r2) in Einner. rewrite (mapM_mapM_zlen _ _ _ Einner). rewrite map_map.
        clear -Hlens. revert pieces2 Hlens. induction pieces1 as [|a p1 IHp]; intros [|b p2] H; try discriminate; [reflexivity|].
        cbn [map] in H. inversion H. cbn [zip map]. f_equal; [|now apply IHp].
        unfold r2, rows2. cbn [fst snd]. rewrite zlen_map, zlen_zip. lia. }
      rewrite (cut_concat_lens yss _ Hl). reflexivity.
    + destruct IHa as [-> IHa]. split; [reflexivity|]. unfold obs in *.
      destruct (rec [MC n1; MC n2]) as [out|e']; cbn [bind] in *; [|exact IHa]. now rewrite HR, IHa.
  - intros out Hd. apply bind_Ok in Hd as (o & Hrec & Hd). inversion Hd; subst out.
    destruct (IHj o Hrec) as [Jo Oo]. now apply HRj.
Qed.

(* ------------------------------------------------------------------ rows of the three shapes of a list step *)
Lemma column_list n t' l : zlen l = n -> column n (TList None None t', VList l) = Ok (map (fun x => (t', x)) l).
Proof. intros H. unfold column. now rewrite H, Z.eqb_refl. Qed.
Lemma column_list_bad n t' l : zlen l <> n -> column n (TList None None t', VList l) = Err EValue.
Proof. intros H. unfold column. destruct (Z.eqb_spec (zlen l) n); [contradiction|reflexivity]. Qed.
Lemma column_leaf n t v : is_listT t = false -> badT t = false -> column n (t, v) = Ok (repeat (t, v) (Z.to_nat n)).
Proof. intros Hl Hb. unfold column. destruct t as [| |[z|] [b|] t0| | |]; try discriminate; reflexivity. Qed.
Lemma map_snd_pair {A B} (t : A) (l : list B) : map snd (map (fun x => (t, x)) l) = l.
Proof. rewrite map_map. cbn. apply map_id. Qed.
Lemma map_snd_repeat {A B} (t : A) (v : B) n : map snd (repeat (t, v) n) = repeat v n.
Proof. induction n; cbn; congruence. Qed.

Lemma jagT_list_form t : jagT t = true -> is_listT t = true -> t = TList None None (elemT t).
Proof. destruct t as [| |[z|] [b|] t0| | |]; try discriminate; reflexivity. Qed.

Lemma spec_row_LL op fuel t1 t2 l1 l2 :
  jagT t1 = true -> jagT t2 = true -> is_listT t1 = true -> is_listT t2 = true ->
  spec_v op false (S fuel) [(t1, VList l1); (t2, VList l2)] =
  if zlen l2 =? zlen l1 then rmap VList (mapM (spec_v op false fuel) (rows2 (elemT t1) (elemT t2) l1 l2)) else Err EValue.
Proof.
  intros H1 H2 L1 L2.
  assert (O1 : is_optT t1 = false) by (destruct t1 as [| |[z|] [b|] t0| | |]; try discriminate; reflexivity).
  assert (O2 : is_optT t2 = false) by (destruct t2 as [| |[z|] [b|] t0| | |]; try discriminate; reflexivity).
  rewrite spec_list_row by (try assumption; now rewrite L1).
  rewrite (jagT_list_form t1 H1 L1) at 1 2. rewrite (jagT_list_form t2 H2 L2) at 1 2. cbn [first_var_len bind].
  rewrite column_list by reflexivity. cbn [bind]. destruct (Z.eqb_spec (zlen l2) (zlen l1)) as [E|E].
  - rewrite column_list by exact E. cbn [bind]. now rewrite !map_snd_pair.
  - now rewrite column_list_bad by exact E.
Qed.
Lemma spec_row_LN op fuel t1 t2 l1 y :
  jagT t1 = true -> jagT t2 = true -> is_listT t1 = true -> is_listT t2 = false -> is_optT t2 = false ->
  spec_v op false (S fuel) [(t1, VList l1); (t2, y)] =
  rmap VList (mapM (spec_v op false fuel) (rows2 (elemT t1) t2 l1 (repeat y (length l1)))).
Proof.
  intros H1 H2 L1 L2 O2.
  assert (O1 : is_optT t1 = false) by (destruct t1 as [| |[z|] [b|] t0| | |]; try discriminate; reflexivity).
  rewrite spec_list_row by (try assumption; now rewrite L1).
  rewrite (jagT_list_form t1 H1 L1) at 1 2. cbn [first_var_len bind].
  rewrite column_list by reflexivity. cbn [bind]. rewrite column_leaf by (try assumption; now apply jagT_notbad). cbn [bind].
  rewrite map_snd_pair, map_snd_repeat. replace (Z.to_nat (zlen l1)) with (length l1) by (unfold zlen; lia).
  destruct t2 as [| |[z|] [b|] t0| | |]; try discriminate; reflexivity.
Qed.
Lemma spec_row_NL op fuel t1 t2 x l2 :
  jagT t1 = true -> jagT t2 = true -> is_listT t1 = false -> is_optT t1 = false -> is_listT t2 = true ->
  spec_v op false (S fuel) [(t1, x); (t2, VList l2)] =
  rmap VList (mapM (spec_v op false fuel) (rows2 t1 (elemT t2) (repeat x (length l2)) l2)).
Proof.
  intros H1 H2 L1 O1 L2.
  assert (O2 : is_optT t2 = false) by (destruct t2 as [| |[z|] [b|] t0| | |]; try discriminate; reflexivity).
  rewrite spec_list_row by (try assumption; now rewrite L2, orb_true_r).
  rewrite (jagT_list_form t2 H2 L2) at 1 2.
  assert (Hf : first_var_len [(t1, x); (TList None None (elemT t2), VList l2)] = Ok (zlen l2)).
  { destruct t1 as [| |[z|] [b|] t0| | |]; try discriminate; reflexivity. }
  rewrite Hf. cbn [bind]. rewrite column_leaf by (try assumption; now apply jagT_notbad). cbn [bind].
  rewrite column_list by reflexivity. cbn [bind].
  rewrite map_snd_pair, map_snd_repeat. replace (Z.to_nat (zlen l2)) with (length l2) by (unfold zlen; lia).
  destruct t1 as [| |[z|] [b|] t0| | |]; try discriminate; reflexivity.
Qed.

Lemma zip_rep_each {A B C} (G : list A * list B -> C) (ls : list (list A)) : forall (vs : list B),
  map G (zip ls (rep_each vs (map zlen ls))) = map (fun p => G (fst p, repeat (snd p) (length (fst p)))) (zip ls vs).
Proof.
  induction ls as [|l ls IH]; intros [|v vs]; try reflexivity. unfold rep_each in *. cbn [map zip fst snd].
  f_equal; [|apply IH]. now replace (Z.to_nat (zlen l)) with (length l) by (unfold zlen; lia).
Qed.
Lemma zip_rep_each_l {A B C} (G : list B * list A -> C) (ls : list (list A)) : forall (vs : list B),
  map G (zip (rep_each vs (map zlen ls)) ls) = map (fun p => G (repeat (fst p) (length (snd p)), snd p)) (zip vs ls).
Proof.
  induction ls as [|l ls IH]; intros [|v vs]; try reflexivity. unfold rep_each in *. cbn [map zip fst snd].
  f_equal; [|apply IH]. now replace (Z.to_nat (zlen l)) with (length l) by (unfold zlen; lia).
Qed.
Lemma zlen_rep_each {A} (vs : list A) : forall counts, Forall (fun k => 0 <= k) counts -> length counts = length vs ->
  map zlen (rep_each vs counts) = counts.
Proof.
  induction vs as [|v vs IH]; intros [|k counts] Hc H; try discriminate; [reflexivity|]. unfold rep_each in *. cbn [zip map fst snd].
  inversion Hc; subst. f_equal; [unfold zlen; rewrite repeat_length; lia|]. apply IH; [assumption|cbn in H; lia].
Qed.
Lemma zlen_all_nonneg {A} (ls : list (list A)) : Forall (fun k => 0 <= k) (map zlen ls).
Proof. apply Forall_forall. intros k Hk. apply in_map_iff in Hk as (l & <- & _). apply zlen_nonneg. Qed.
Lemma zip_lens_in {A B} (l1 : list (list A)) : forall (l2 : list (list B)) a b,
  map zlen l1 = map zlen l2 -> In (a, b) (zip l1 l2) -> zlen b = zlen a.
Proof.
  induction l1 as [|x l1 IH]; intros [|y l2] a b H Hin; try contradiction. cbn [map] in H. inversion H.
  destruct Hin as [E|Hin]; [inversion E; subst; lia|eapply IH; eassumption].
Qed.

(* ------------------------------------------------------------------ the general path (compact offsets of the first list) *)
Lemma lists_differ {A B} (l1 : list (list A)) : forall (l2 : list (list B)),
  length l1 = length l2 -> map zlen l1 <> map zlen l2 ->
  exists i a b, get l1 i = Ok a /\ get l2 i = Ok b /\ zlen b <> zlen a.
Proof.
  induction l1 as [|x l1 IH]; intros [|y l2] H Hne; try discriminate; [now contradiction Hne|].
  destruct (Z.eq_dec (zlen y) (zlen x)) as [E|E].
  - destruct (IH l2) as (i & a & b & Ha & Hb & Hab); [cbn in H; lia|intros E'; apply Hne; cbn [map]; congruence|].
    pose proof (get_range _ _ _ Ha). exists (i + 1), a, b. rewrite !get_cons_S by lia. auto.
  - exists 0, x, y. auto.
Qed.
Lemma mapM_has_err {A B} (f : A -> res B) l x e0 : In x l -> f x = Err e0 -> exists e, mapM f l = Err e.
Proof.
  induction l as [|y l IH]; [contradiction|]. intros [->|Hin] Hx; rewrite mapM_cons.
  - rewrite Hx. eauto.
  - destruct (f y); cbn [bind]; [|eauto]. destruct (IH Hin Hx) as [e ->]. eauto.
Qed.
Lemma get_In {A} (l : list A) i x : get l i = Ok x -> In x l.
Proof. unfold get. destruct (i <? 0); [discriminate|]. destruct (nth_error l (Z.to_nat i)) eqn:E; [|discriminate]. intros H; inversion H; subst. eapply nth_error_In; eassumption. Qed.

Lemma mapM_zip_rep_each {A B C} (F : list A * list B -> res C) (ls : list (list A)) : forall (vs : list B),
  mapM F (zip ls (rep_each vs (map zlen ls))) = mapM (fun p => F (fst p, repeat (snd p) (length (fst p)))) (zip ls vs).
Proof.
  induction ls as [|l ls IH]; intros [|v vs]; try reflexivity. unfold rep_each in *. cbn [map zip fst snd mapM].
  rewrite IH. now replace (Z.to_nat (zlen l)) with (length l) by (unfold zlen; lia).
Qed.
Lemma mapM_zip_rep_each_l {A B C} (F : list B * list A -> res C) (ls : list (list A)) : forall (vs : list B),
  mapM F (zip (rep_each vs (map zlen ls)) ls) = mapM (fun p => F (repeat (fst p) (length (snd p)), snd p)) (zip vs ls).
Proof.
  induction ls as [|l ls IH]; intros [|v vs]; try reflexivity. unfold rep_each in *. cbn [map zip fst snd mapM].
  rewrite IH. now replace (Z.to_nat (zlen l)) with (length l) by (unfold zlen; lia).
Qed.

Lemma jag_nonlist_leaf c : jag c = true -> is_option_node c = false -> is_list_node c = false ->
  is_listT (type_of c) = false /\ is_optT (type_of c) = false.
Proof. intros Hj Ho Hl. destruct (type_of_jag c Hj) as (_ & H1 & H2). rewrite H1, H2. auto. Qed.

Lemma inner_types c : jag c = true -> is_list_node c = true ->
  elemT (type_of c) = type_of (inner c) /\ is_listT (type_of c) = true /\ is_optT (type_of c) = false.
Proof. destruct c; try discriminate; intros _ _; cbn; auto. Qed.

Lemma gen_case op rec fuel c1 c2 vs1 vs2 :
  jag c1 = true -> jag c2 = true -> to_list c1 = Ok vs1 -> to_list c2 = Ok vs2 -> zlen vs1 = zlen vs2 ->
  is_option_node c1 = false -> is_option_node c2 = false -> is_list_node c1 || is_list_node c2 = true ->
  (csize c1 + csize c2 <= fuel)%nat ->
  step_ok op rec fuel (csize c1 + csize c2) ->
  agrees (obs (gen_branch rec [MC c1; MC c2]))
         (mapM (spec_v op false (S fuel)) (rows2 (type_of c1) (type_of c2) vs1 vs2)) /\
  (forall out, gen_branch rec [MC c1; MC c2] = Ok out -> jag out = true /\ is_option_node out = false).
Proof.
  intros H1 H2 L1 L2 Hz O1 O2 Hl Hfuel IH.
  destruct (jag_nodes c1 H1) as (_ & _ & _ & _ & _ & R1 & _ & _). destruct (jag_nodes c2 H2) as (_ & _ & _ & _ & _ & R2 & _ & _).
  destruct (type_of_jag c1 H1) as (JT1 & OT1 & LT1). destruct (type_of_jag c2 H2) as (JT2 & OT2 & LT2).
  assert (HR : forall offs out, to_list (ListOffset I64 offs out) = do outvs <- to_list out; rmap (map VList) (cut outvs offs)) by reflexivity.
  assert (HRj : forall offs out, jag out = true ->
                                 jag (ListOffset I64 offs out) = true /\ is_option_node (ListOffset I64 offs out) = false) by (intros; cbn; auto).
  unfold gen_branch. cbn [contents_of flat_map app filter]. rewrite R1, R2. cbn [negb]. rewrite !andb_true_r.
  destruct (is_list_node c1) eqn:N1.
  - (* the first input is the first list *)
    destruct (list_view c1 vs1 H1 N1 L1) as (vs1' & ls1 & Li1 & Hc1 & -> & Ji1 & S1 & T1 & Zs1 & Zl1).
    destruct (inner_types c1 H1 N1) as (E1 & LT1' & _).
    rewrite (compact_offsets_jag c1 vs1' ls1 H1 N1 Hc1 Zl1). cbn [bind]. unfold map_c. cbn [mapM]. rewrite N1.
    destruct (bto_list_ok c1 vs1' ls1 H1 N1 Li1 Ji1 Hc1 Zs1 Zl1) as (n1 & B1 & Jn1 & Ln1 & Tn1 & Sn1 & _ & _). rewrite B1. cbn [rmap bind].
    destruct (is_list_node c2) eqn:N2.
    + (* list with list *)
      destruct (list_view c2 vs2 H2 N2 L2) as (vs2' & ls2 & Li2 & Hc2 & -> & Ji2 & S2 & T2 & Zs2 & Zl2).
      destruct (inner_types c2 H2 N2) as (E2 & LT2' & _).
      rewrite !zlen_map in Hz.
      destruct (list_eq_dec Z.eq_dec (map zlen ls1) (map zlen ls2)) as [Elens|Nlens].
      * destruct (bto_list_ok c2 vs2' ls2 H2 N2 Li2 Ji2 Hc2 Zs2 Zl2) as (n2 & B2 & Jn2 & Ln2 & Tn2 & Sn2 & _ & _).
        rewrite Elens, B2. cbn [rmap bind]. rewrite <- Elens.
        apply (list_assemble op rec fuel n1 n2 ls1 ls2 (ListOffset I64 (offsets_from 0 (map zlen ls1)))); try assumption.
        -- lia.
        -- apply HR.
        -- apply HRj.
        -- unfold rows2 at 1. rewrite zip_map, map_map, mapM_map. apply mapM_ext_in. intros [a b] Hin. cbn [fst snd].
           rewrite spec_row_LL by assumption. rewrite (zip_lens_in ls1 ls2 a b Elens Hin), Z.eqb_refl.
           now rewrite Tn1, Tn2, E1, E2.
      * (* some list of the second input has another length: an error on both sides *)
        destruct (lists_differ ls1 ls2) as (i & a & b & Ga & Gb & Hab); [unfold zlen in Hz; lia|exact Nlens|].
        assert (Gk : get (map zlen ls1) i = Ok (zlen a)) by (rewrite get_map, Ga; reflexivity).
        rewrite (bto_list_err c2 vs2' ls2 (map zlen ls1) i b (zlen a) H2 N2 Hc2 Zs2 Zl2); try assumption.
        2:{ rewrite zlen_map. rewrite <- (to_list_len _ _ L2), zlen_map. lia. }
        cbn [bind rmap obs]. split; [|discriminate].
        set (rows := rows2 (type_of c1) (type_of c2) (map VList ls1) (map VList ls2)).
        assert (Hrow : In [(type_of c1, VList a); (type_of c2, VList b)] rows).
        { unfold rows, rows2. apply in_map_iff. exists (VList a, VList b). split; [reflexivity|].
          apply (get_In _ i). rewrite get_zip, !get_map, Ga, Gb. reflexivity. }
        assert (Hbad : spec_v op false (S fuel) [(type_of c1, VList a); (type_of c2, VList b)] = Err EValue).
        { rewrite spec_row_LL by assumption. destruct (Z.eqb_spec (zlen b) (zlen a)); [contradiction|reflexivity]. }
        destruct (mapM_has_err _ _ _ _ Hrow Hbad) as [e He]. rewrite He. cbn [agrees]. split; [|reflexivity].
        apply mapM_Err in He as (row & Hin & Hrow'). unfold rows, rows2 in Hin. apply in_map_iff in Hin as ([x y] & <- & _).
        eapply (spec_err_value op (S fuel)); [exact JT1|exact JT2| |exact Hrow'].
        rewrite (tsize_jag c1 H1), (tsize_jag c2 H2). lia.
    + (* list with a shallower input: tree-left *)
      destruct (jag_nonlist_leaf c2 H2 O2 N2) as [LT2' OT2'].
      assert (Hcz : zlen (map zlen ls1) = zlen vs2) by (rewrite zlen_map in *; lia).
      destruct (bto_leaf_ok c2 vs2 (map zlen ls1) H2 N2 L2 Hcz (zlen_all_nonneg ls1)) as (n2 & B2 & Jn2 & Ln2 & Tn2 & Sn2 & _ & _).
      rewrite B2. cbn [rmap bind].
      apply (list_assemble op rec fuel n1 n2 ls1 (rep_each vs2 (map zlen ls1)) (ListOffset I64 (offsets_from 0 (map zlen ls1)))); try assumption.
      * symmetry. apply zlen_rep_each; [apply zlen_all_nonneg|]. unfold zlen in Hcz. lia.
      * lia.
      * apply HR.
      * apply HRj.
      * rewrite mapM_zip_rep_each. unfold rows2 at 1.
        replace vs2 with (map (fun v : value => v) vs2) at 1 by apply map_id.
        rewrite zip_map, map_map, mapM_map. apply mapM_ext_in. intros [a y] Hin. cbn [fst snd].
        rewrite spec_row_LN by assumption. now rewrite Tn1, Tn2, E1.
  - (* the second input is the first list; the first one is shallower *)
    cbn [orb] in Hl. rename Hl into N2.
    destruct (list_view c2 vs2 H2 N2 L2) as (vs2' & ls2 & Li2 & Hc2 & -> & Ji2 & S2 & T2 & Zs2 & Zl2).
    destruct (inner_types c2 H2 N2) as (E2 & LT2' & _).
    destruct (jag_nonlist_leaf c1 H1 O1 N1) as [LT1' OT1'].
    rewrite N2. rewrite (compact_offsets_jag c2 vs2' ls2 H2 N2 Hc2 Zl2). cbn [bind]. unfold map_c. cbn [mapM]. rewrite N1, N2.
    assert (Hcz : zlen (map zlen ls2) = zlen vs1) by (rewrite zlen_map in *; lia).
    destruct (bto_leaf_ok c1 vs1 (map zlen ls2) H1 N1 L1 Hcz (zlen_all_nonneg ls2)) as (n1 & B1 & Jn1 & Ln1 & Tn1 & Sn1 & _ & _).
    destruct (bto_list_ok c2 vs2' ls2 H2 N2 Li2 Ji2 Hc2 Zs2 Zl2) as (n2 & B2 & Jn2 & Ln2 & Tn2 & Sn2 & _ & _).
    rewrite B1, B2. cbn [rmap bind].
    assert (Hlens : map zlen (rep_each vs1 (map zlen ls2)) = map zlen ls2).
    { apply zlen_rep_each; [apply zlen_all_nonneg|]. unfold zlen in Hcz. lia. }
    rewrite <- Hlens at 1.
    apply (list_assemble op rec fuel n1 n2 (rep_each vs1 (map zlen ls2)) ls2
             (ListOffset I64 (offsets_from 0 (map zlen (rep_each vs1 (map zlen ls2)))))); try assumption.
    + lia.
    + apply HR.
    + apply HRj.
    + rewrite mapM_zip_rep_each_l. unfold rows2 at 1.
      replace vs1 with (map (fun v : value => v) vs1) at 1 by apply map_id.
      rewrite zip_map, map_map, mapM_map. apply mapM_ext_in. intros [x b] Hin. cbn [fst snd].
      rewrite spec_row_NL by assumption. now rewrite Tn1, Tn2, E2.
Qed.
