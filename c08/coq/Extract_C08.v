(** Extraction of the C08 model + the core definitions it needs (ExtrOcamlBasic only; Z stays inductive). *)
From Coq Require Import Extraction ExtrOcamlBasic.
From AwkV Require Import Layout Valid Types Carry.
From AwkMerge Require Import Merge.
Extraction Language OCaml.
Extraction "c08model.ml" Z.add Z.mul Z.sub Z.div Z.modulo Z.eqb Z.ltb Z.leb Z.of_nat Z.to_nat Z.opp
  to_list value_eqb valid_b clen type_of has_union body
  promote numpy_promote mergeable mergemany merge_as_union simplify_option simplify_union concat_model astype_model
  concat_spec concat_spec_v simplify_union_spec simplify_option_spec astype_spec
  concat_ty ty_eqb erase_sz astype_ty ty_mergeable is_union is_ixopt.
