(** C14 — one atomic value (null / bool / int / real / string) received by a well-formed inactive builder. *)
From Coq Require Import ZArith List Bool Lia.
From AwkV Require Import Base Layout.
From AwkBuilder Require Import Builder GbLemmas Invariant StepLemmas.
Import ListNotations.
Open Scope Z_scope.

(* ------------------------------------------------------------------ list facts for unions *)
Lemma nth_app_other {A} (pre post : list A) a b n d :
  n <> length pre -> nth n (pre ++ a :: post) d = nth n (pre ++ b :: post) d.
Proof.
  revert n; induction pre as [|p t IH]; intros [|n] H; cbn in *; try congruence; auto.
Qed.

Lemma ulookup_upd pre xs post v (ti : Z * Z) :
  (Z.to_nat (fst ti) = length pre -> (Z.to_nat (snd ti) < length xs)%nat) ->
  ulookup (pre ++ (xs ++ [v]) :: post) ti = ulookup (pre ++ xs :: post) ti.
Proof.
  intro H. unfold ulookup. destruct (Nat.eq_dec (Z.to_nat (fst ti)) (length pre)) as [E|E].
  - rewrite E, !nth_middle. apply app_nth1. auto.
  - now rewrite (nth_app_other pre post (xs ++ [v]) xs).
Qed.

Lemma zlen_snoc {A} (l : list A) x : zlen (l ++ [x]) = zlen l + 1.
Proof. unfold zlen. rewrite app_length. cbn [length]. lia. Qed.

Lemma ulookup_snoc vss w (ti : Z * Z) :
  (Z.to_nat (fst ti) < length vss)%nat -> ulookup (vss ++ [w]) ti = ulookup vss ti.
Proof. intro H. unfold ulookup. now rewrite app_nth1. Qed.

Lemma Forall_zip_snoc {A B} (P : A * B -> Prop) (l : list A) (m : list B) a b :
  length l = length m -> Forall P (zip l m) -> P (a, b) -> Forall P (zip (l ++ [a]) (m ++ [b])).
Proof.
  intros E F H. rewrite zip_app by exact E. apply Forall_app. split; [exact F|]. cbn [zip]. constructor; [exact H|constructor].
Qed.

Lemma gb_lists_same_length g1 g2 : gbwf g1 -> gbwf g2 -> glen g1 = glen g2 -> length (gb_list g1) = length (gb_list g2).
Proof.
  intros W1 W2 E. apply Nat2Z.inj. change (zlen (gb_list g1) = zlen (gb_list g2)). now rewrite !gb_list_len.
Qed.

Lemma union_update tags idx pre x post x' v tags' idx' :
  wf (BUnion tags idx (pre ++ x :: post) (-1)) -> pushed x x' v ->
  gbwf tags' -> gbwf idx' ->
  gb_list tags' = gb_list tags ++ [zlen pre] -> gb_list idx' = gb_list idx ++ [blen x] ->
  glen tags' = glen tags + 1 -> glen idx' = glen idx + 1 ->
  pushed (BUnion tags idx (pre ++ x :: post) (-1)) (BUnion tags' idx' (pre ++ x' :: post) (-1)) v.
Proof.
  intros (Wt & Wi & E & Wcs & R & In & _) (Wx' & Ax' & Vx') Wt' Wi' Lt Li Nt Ni.
  apply wf_all in Wcs. apply Forall_app in Wcs. destruct Wcs as [Wpre Wxp]. inversion Wxp as [|? ? Wx Wpost]; subst.
  specialize (In eq_refl). apply Forall_app in In. destruct In as [Ipre Ixp]. inversion Ixp as [|? ? Ax Ipost]; subst.
  pose proof (gb_lists_same_length tags idx Wt Wi E) as EL.
  assert (blen x' = blen x + 1) as Bx'.
  { rewrite <- !bvals_len by auto. rewrite Vx', zlen_app, zlen_cons, zlen_nil. lia. }
  assert (zlen (pre ++ x' :: post) = zlen (pre ++ x :: post)) as ZL by (rewrite !zlen_app, !zlen_cons; lia).
  unfold pushed. cbn [wf active bvals]. rewrite Lt, Li. split; [|split; [reflexivity|]].
  - split; [exact Wt'|split; [exact Wi'|split; [lia|split; [|split; [|split]]]]].
    + apply wf_all. apply Forall_app. split; auto.
    + apply Forall_zip_snoc; [exact EL| |].
      * eapply Forall_impl; [|exact R]. intros [t k] [H1 H2]. cbn [fst snd] in *. rewrite ZL. split; [exact H1|].
        destruct (Nat.eq_dec (Z.to_nat t) (length pre)) as [Et|Et].
        -- rewrite Et, nth_middle in *. lia.
        -- now rewrite (nth_app_other pre post x' x).
      * cbn [fst snd]. replace (Z.to_nat (zlen pre)) with (length pre) by (unfold zlen; lia). rewrite nth_middle.
        pose proof (blen_nonneg x Wx). pose proof (zlen_nonneg pre).
        rewrite zlen_app, zlen_cons. pose proof (zlen_nonneg post). lia.
    + intros _. apply Forall_app. split; auto.
    + intros H; exfalso; apply H; reflexivity.
  - rewrite zip_app by exact EL. rewrite map_app. cbn [zip map]. f_equal.
    + rewrite !map_app. cbn [map]. rewrite Vx'. apply map_ext_in. intros [t k] Hin.
      apply ulookup_upd. cbn [fst snd]. intro Et. rewrite map_length in Et.
      rewrite Forall_forall in R. specialize (R _ Hin). cbn [fst snd] in R. rewrite Et, nth_middle in R.
      rewrite <- bvals_len in R by auto. unfold zlen in R. lia.
    + f_equal. rewrite !map_app. cbn [map]. unfold ulookup. cbn [fst snd].
      replace (Z.to_nat (zlen pre)) with (length pre) by (unfold zlen; lia).
      rewrite <- (map_length bvals pre), nth_middle, Vx'.
      rewrite <- (bvals_len x Wx). unfold zlen. rewrite Nat2Z.id, app_nth2 by lia. now rewrite Nat.sub_diag.
Qed.

Lemma union_push tags idx cs nb v tags' idx' :
  wf (BUnion tags idx cs (-1)) -> wf nb -> active nb = false -> bvals nb = [v] ->
  gbwf tags' -> gbwf idx' ->
  gb_list tags' = gb_list tags ++ [zlen cs] -> gb_list idx' = gb_list idx ++ [0] ->
  glen tags' = glen tags + 1 -> glen idx' = glen idx + 1 ->
  pushed (BUnion tags idx cs (-1)) (BUnion tags' idx' (cs ++ [nb]) (-1)) v.
Proof.
  intros (Wt & Wi & E & Wcs & R & In & _) Wn An Vn Wt' Wi' Lt Li Nt Ni.
  apply wf_all in Wcs. specialize (In eq_refl).
  pose proof (gb_lists_same_length tags idx Wt Wi E) as EL.
  assert (blen nb = 1) as Bn by (rewrite <- bvals_len, Vn by auto; reflexivity).
  unfold pushed. cbn [wf active bvals]. rewrite Lt, Li. split; [|split; [reflexivity|]].
  - split; [exact Wt'|split; [exact Wi'|split; [lia|split; [|split; [|split]]]]].
    + apply wf_all. apply Forall_app. split; auto.
    + apply Forall_zip_snoc; [exact EL| |].
      * eapply Forall_impl; [|exact R]. intros [t k] [H1 H2]. cbn [fst snd] in *.
        rewrite zlen_snoc. split; [lia|].
        rewrite app_nth1 by (unfold zlen in H1; lia). exact H2.
      * cbn [fst snd]. replace (Z.to_nat (zlen cs)) with (length cs) by (unfold zlen; lia). rewrite nth_middle, Bn.
        rewrite zlen_snoc. pose proof (zlen_nonneg cs). lia.
    + intros _. apply Forall_app. split; auto.
    + intros H; exfalso; apply H; reflexivity.
  - rewrite zip_app by exact EL. rewrite map_app. cbn [zip map]. f_equal.
    + rewrite map_app. apply map_ext_in. intros [t k] Hin. apply ulookup_snoc. cbn [fst].
      rewrite Forall_forall in R. specialize (R _ Hin). cbn [fst snd] in R. rewrite map_length. unfold zlen in R. lia.
    + f_equal. rewrite map_app. cbn [map]. unfold ulookup. cbn [fst snd].
      replace (Z.to_nat (zlen cs)) with (length cs) by (unfold zlen; lia).
      rewrite <- (map_length bvals cs), nth_middle, Vn. reflexivity.
Qed.

Section WithOpts.
Variable o : opts.
Hypothesis Ho : good_opts o.

Lemma map_lookup_fill vs n : map (lookup vs) (fill (-1) n) = repeat VNone (Z.to_nat n).
Proof. unfold fill. induction (Z.to_nat n); cbn; [reflexivity|]. now rewrite IHn0. Qed.

Lemma repeat_snoc {A} (x : A) n : 0 <= n -> repeat x (Z.to_nat (n + 1)) = repeat x (Z.to_nat n) ++ [x].
Proof.
  intro H. replace (Z.to_nat (n + 1)) with (S (Z.to_nat n)) by lia. cbn [repeat]. apply repeat_cons.
Qed.

Lemma kind_atom c v : atomval c = Some v -> c <> CNull -> kind_of c = KAtom.
Proof. destruct c; cbn; congruence. Qed.

Lemma unknown_start_atom n c v :
  0 <= n -> atomval c = Some v -> c <> CNull ->
  exists r, unknown_start o n c = SOk (BUnknown n) (Some r) /\ pushed (BUnknown n) r v.
Proof.
  intros Hn Hv Hc. unfold unknown_start.
  destruct (fresh_atom o Ho c v Hv Hc) as (nb & En & Wn & An & Vn & Bn). rewrite En. cbn [withb].
  destruct (n =? 0) eqn:E0.
  - apply Z.eqb_eq in E0. subst n. exists nb. split; [reflexivity|]. unfold pushed. cbn [bvals]. cbn. auto.
  - apply Z.eqb_neq in E0.
    destruct (gb_full_ok o (-1) n Ho Hn) as (g & E & W & L & N & _). rewrite E. cbn [withgb].
    rewrite (kind_atom c v Hv Hc).
    destruct (gb_append_ok o g 0 Ho W) as (g' & E' & W' & L' & N' & _). rewrite E'. cbn [withgb].
    eexists; split; [reflexivity|]. unfold pushed. cbn [wf active bvals]. rewrite L', L.
    split; [|split; [exact An|]].
    + split; [exact W'|split; [exact Wn|]]. rewrite Bn. apply Forall_app. split.
      * unfold fill. apply Forall_forall. intros i Hi. apply repeat_spec in Hi. lia.
      * constructor; [lia|constructor].
    + rewrite map_app, map_lookup_fill, Vn. reflexivity.
Qed.

(* the alternative of a union that takes an atom takes it in place *)
Lemma takes_atom x c v :
  wf x -> atomval c = Some v -> c <> CNull -> takes c x = true ->
  exists x', step o x c = SOk x' None /\ pushed x x' v.
Proof.
  intros W Hv Hc T.
  destruct c; try discriminate; try congruence; destruct x; try discriminate; cbn in Hv; inversion Hv; subst v; clear Hv;
    cbn [wf] in W.
  - cbn [step].
    destruct (gb_append_ok o buf (if b then 1 else 0) Ho W) as (g' & E' & W' & L' & N' & _). rewrite E'. cbn [withgb].
    eexists; split; [reflexivity|]. unfold pushed. cbn [wf active bvals]. rewrite L', map_app. cbn [map].
    refine (conj W' (conj eq_refl _)). now destruct b.
  - cbn [step].
    destruct (gb_append_ok o buf z Ho W) as (g' & E' & W' & L' & N' & _). rewrite E'. cbn [withgb].
    eexists; split; [reflexivity|]. unfold pushed. cbn [wf active bvals]. rewrite L', map_app.
    exact (conj W' (conj eq_refl eq_refl)).
  - cbn [step].
    destruct (gb_append_ok o buf z Ho W) as (g' & E' & W' & L' & N' & _). rewrite E'. cbn [withgb].
    eexists; split; [reflexivity|]. unfold pushed. cbn [wf active bvals]. rewrite L', map_app.
    exact (conj W' (conj eq_refl eq_refl)).
  - cbn [takes] in T. apply Bool.eqb_prop in T. subst isstr0. cbn [step]. rewrite Bool.eqb_reflx.
    destruct W as (Wo & Wc & OK & La). unfold string_after.
    destruct (gb_extend_ok o s content Ho Wc) as (gc & Ec & Wgc & Lc & Nc). rewrite Ec. cbn [bind].
    destruct (gb_append_ok o offsets (glen gc) Ho Wo) as (g1 & E1 & W1 & L1 & N1 & _). rewrite E1. cbn [bind withb].
    eexists; split; [reflexivity|]. unfold pushed. cbn [wf active bvals]. rewrite L1, Lc.
    pose proof (zlen_nonneg s) as Hs. pose proof (okoff_ne _ _ OK) as Hne.
    split; [|split; [reflexivity|]].
    + split; [exact W1|split; [exact Wgc|split]].
      * apply okoff_snoc with (n := glen content); auto; lia.
      * now rewrite last_snoc.
    + rewrite cuts_snoc by exact Hne. rewrite map_app. cbn [map]. f_equal.
      * f_equal. apply cuts_extend. destruct OK as (_ & F & _). rewrite gb_list_len by exact Wc. exact F.
      * rewrite La, Nc. rewrite <- (gb_list_len content Wc). rewrite drop_app_l.
        rewrite (gb_list_len content Wc). replace (glen content + zlen s - glen content) with (zlen s) by lia.
        rewrite take_all by lia. reflexivity.
Qed.

End WithOpts.
