(** C17b: the types of [printable_x] print to byte strings, so the exactness theorem needs no side condition:
    [printable_x] is characterised as "prints to a byte string that [type_parse_x] brings back, records spelled
    consistently". *)
From Coq Require Import ZArith List Bool Lia ZifyBool.
From AwkV Require Import Base Layout.
From AwkTypes Require Import Json Forms TypeStr Proofs_Json Proofs_Parse Proofs_C17b_Exact Proofs_C17b_Witness
  Proofs_C17b_ParseX_Json Proofs_C17b_ParseX_Defs Proofs_C17b_ParseX_Ty Proofs_C17b_ParseX Proofs_C17b_ParseX_Img
  Proofs_C17b_ParseX_Exact.
Import ListNotations.
Open Scope Z_scope.

Ltac kk := repeat (rewrite !key_ok_app || rewrite !key_ok_cons).

(* ---------------------------------------------------------------- JSON texts *)
Lemma sep_concat_key_ok_gen (sep : bytes) (parts : list bytes) : key_ok sep = true ->
  forallb key_ok parts = true -> key_ok (sep_concat sep parts) = true.
Proof.
  intros Hsep. induction parts as [|p parts IH]; [reflexivity|]. intros H. simpl in H. apply andb_true_iff in H as [Hp Hr].
  destruct parts as [|q parts]; [exact Hp|]. rewrite sep_concat_cons2, !key_ok_app, Hp, Hsep, (IH Hr). reflexivity.
Qed.

Lemma numchar_key_ok t : forallb numchar t = true -> key_ok t = true.
Proof.
  intros H. rewrite key_ok_unfold. apply forallb_forall. intros x Hx. rewrite forallb_forall in H. specialize (H x Hx).
  unfold numchar, isfrac, is_digit in H. unfold byte_ok. lia.
Qed.

Lemma dec_of_Z_key_ok z : key_ok (dec_of_Z z) = true.
Proof.
  destruct (dec_of_Z_cases z) as [(u & -> & _)|(u & -> & _)].
  - apply digits_key_ok, uint_digits_digits.
  - rewrite key_ok_cons, (digits_key_ok _ (uint_digits_digits u)). reflexivity.
Qed.

Theorem json_print_key_ok j : json_ok j = true -> key_ok (json_print j) = true.
Proof.
  induction j as [|b|z|t|s|l IH|m IH] using json_ind'; intros Hok.
  - reflexivity.
  - destruct b; reflexivity.
  - apply dec_of_Z_key_ok.
  - cbn [json_ok] in Hok. unfold dbl_text_ok in Hok. apply andb_true_iff in Hok as [Hok _]. apply andb_true_iff in Hok as [_ Hn].
    apply numchar_key_ok, Hn.
  - apply quote_key_ok, Hok.
  - cbn [json_ok] in Hok. rewrite json_print_arr. kk.
    rewrite (sep_concat_key_ok_gen [44] _ eq_refl); [reflexivity|].
    rewrite forallb_map. apply forallb_forall. intros x Hx. rewrite Forall_forall in IH. rewrite forallb_forall in Hok.
    exact (IH x Hx (Hok x Hx)).
  - rewrite json_ok_obj in Hok. rewrite json_print_obj. kk.
    rewrite (sep_concat_key_ok_gen [44] _ eq_refl); [reflexivity|].
    rewrite forallb_map. apply forallb_forall. intros x Hx. rewrite Forall_forall in IH. rewrite forallb_forall in Hok.
    specialize (Hok x Hx). apply andb_true_iff in Hok as [Hk Hv]. unfold jmember_text. kk.
    rewrite (quote_key_ok _ Hk), (IH x Hx Hv). reflexivity.
Qed.

(* ---------------------------------------------------------------- parameters={...} *)
Lemma sp_text_key_ok q : forallb pval_ok q = true -> key_ok (sp_text q) = true.
Proof.
  intros H. unfold sp_text. kk. rewrite sep_concat_key_ok; [reflexivity|].
  rewrite forallb_map. apply forallb_forall. intros x Hx. rewrite forallb_forall in H. specialize (H x Hx).
  unfold pval_ok in H. apply andb_true_iff in H as [Hk Hv]. unfold param_text. kk.
  rewrite (quote_key_ok _ Hk), (json_print_key_ok _ Hv). reflexivity.
Qed.

Lemma string_parameters_key_ok p : pvals_ok p = true -> key_ok (string_parameters p) = true.
Proof.
  intros H. rewrite string_parameters_shown. apply sp_text_key_ok. apply forallb_filter.
  unfold pvals_ok in H. apply andb_true_iff in H as [_ H]. apply forallb_forall. intros x Hx.
  rewrite forallb_forall in H. specialize (H x Hx). apply andb_true_iff in H as [H _]. exact H.
Qed.

(* ---------------------------------------------------------------- types *)
Lemma wrap_key_ok p body : key_ok body = true -> key_ok (wrap_categorical p body) = true.
Proof. intros H. unfold wrap_categorical. destruct (is_categorical p); [|exact H]. kk. rewrite H. reflexivity. Qed.

Lemma Forall_key_ok_mapx (l : list rty) :
  Forall (fun t => printable_x t = true -> key_ok (type_tostring t) = true) l -> forallb printable_x l = true ->
  forallb key_ok (map type_tostring l) = true.
Proof.
  induction 1 as [|t l Ht _ IH]; [reflexivity|]. intros H. simpl in H. apply andb_true_iff in H as [H1 H2].
  simpl. rewrite (Ht H1), (IH H2). reflexivity.
Qed.

Lemma quotes_key_ok ks : forallb key_ok ks = true -> forallb key_ok (map quote ks) = true.
Proof.
  intros H. rewrite forallb_map. apply forallb_forall. intros x Hx. rewrite forallb_forall in H. exact (quote_key_ok _ (H x Hx)).
Qed.

Theorem printable_x_key_ok t : printable_x t = true -> key_ok (type_tostring t) = true.
Proof.
  induction t as [p s dt|p s|p s t' IH|p s n t' IH|p s t' IH|p s ks l IH|p s l IH] using rty_ind';
    intros H; cbn [printable_x rty_params] in H; apply andb_true_iff in H as [Hpv H];
    rewrite type_tostring_body; apply wrap_key_ok; cbn [rty_params];
    pose proof (string_parameters_key_ok p Hpv) as Hsp;
    apply orb_true_iff in H as [H|H];
    try (destruct (hardcoded_tbody _ _ H) as [[_ E]|[[_ E]|[[_ E]|[_ E]]]]; rewrite E; reflexivity);
    (destruct s; [|discriminate H]); unfold tbody; cbn [rty_ts].
  - apply negb_true_iff in H. destruct (parameters_empty p); kk; rewrite ?Hsp;
      destruct dt as [[]| | | | | | | |]; try discriminate H; reflexivity.
  - destruct (parameters_empty p); kk; rewrite ?Hsp; reflexivity.
  - specialize (IH H). destruct (parameters_empty p); kk; rewrite ?Hsp, IH; reflexivity.
  - apply andb_true_iff in H as [Hn Ht]. specialize (IH Ht). apply Z.leb_le in Hn.
    destruct (Z_of_digits_dec n Hn) as (u & Hu & _ & _). rewrite Hu.
    pose proof (digits_key_ok _ (uint_digits_digits u)) as Hd.
    destruct (parameters_empty p); kk; rewrite ?Hsp, IH, Hd; reflexivity.
  - specialize (IH H). destruct (parameters_empty p); [destruct (is_listlike t')|]; kk; rewrite ?Hsp, IH; reflexivity.
  - apply andb_true_iff in H as [H Hname]. apply andb_true_iff in H as [Hl Hks].
    pose proof (Forall_key_ok_mapx l IH Hl) as Hm.
    pose proof (sep_concat_key_ok _ Hm) as Htypes.
    assert (Hkeyed : forall ks0, ks = Some ks0 -> forallb key_ok ks0 = true /\
                       key_ok (sep_concat p_comma (keyed ks0 (map type_tostring l))) = true).
    { intros ks0 ->. apply andb_true_iff in Hks as [_ Hk]. split; [exact Hk|].
      apply sep_concat_key_ok, keyed_key_ok; assumption. }
    destruct (record_name p) as [name|] eqn:En.
    + destruct (named_ok_inv p ks l Hname) as (w & -> & Hn & Hres & _).
      destruct (is_name_alnum w Hn) as (c & w' & Hw & Hc & Hall & Hnul).
      assert (name = w).
      { unfold record_name in En. rewrite (cstr_nonul w Hnul) in En.
        destruct (bytes_eqb k_record k_record && is_name w && negb (existsb (bytes_eqb w) datashape_keywords)); congruence. }
      subst name. pose proof (alnum_key_ok w Hall) as Hwk.
      destruct ks as [ks0|]; [destruct (Hkeyed ks0 eq_refl) as [_ Hkd]|]; kk; rewrite ?Hkd, ?Htypes, Hwk; reflexivity.
    + destruct (parameters_empty p); (destruct ks as [ks0|]; [destruct (Hkeyed ks0 eq_refl) as [Hk0 Hkd]|]); kk;
        rewrite ?Hkd, ?Htypes, ?Hsp, ?(sep_concat_key_ok _ (quotes_key_ok _ Hk0)); reflexivity.
  - apply andb_true_iff in H as [Hl _]. pose proof (sep_concat_key_ok _ (Forall_key_ok_mapx l IH Hl)) as Htypes.
    destruct (parameters_empty p); kk; rewrite ?Hsp, Htypes; reflexivity.
Qed.

(* the fragment, characterised *)
Theorem printable_x_characterised t :
  printable_x t = true <->
  key_ok (type_tostring t) = true /\ type_parse_x (type_tostring t) = Ok t /\ names_ok t = true.
Proof.
  split.
  - intros H. pose proof (printable_x_key_ok t H) as Hk. split; [exact Hk|]. exact (proj1 (printable_x_exact t Hk) H).
  - intros (Hk & Hp & Hn). exact (proj2 (printable_x_exact t Hk) (conj Hp Hn)).
Qed.
