(** C14 — records and tuples, the STATIC half of the round trip: the snapshot of a builder that represents the
    received values [vs] (RecInv.rep) is a layout whose [to_list] is the specification [Spec.unify vs].

      rep_observe       : rep b vs -> exists c, snapshot b = Ok c /\ to_list c = Ok (map (coerce (positions vs)) vs)
      rep_observe_unify : rep b vs -> observe b = Ok (unify vs)

    Plan: (1) [assoc]/[upd_assoc] algebra; (2) the local fixpoints of [join]/[coerce] named, the three COMPONENTS of a
    position ([cL] list content, [cT n] slots of the n-tuples, [cR nm] fields of the records named nm) and how [join]
    acts on them; (3) per node class, what the history relation says about positions and values; (4) the theorem by
    induction on the builder. *)
From Coq Require Import ZArith List Bool Lia.
From AwkV Require Import Base Layout.
From AwkBuilder Require Import Builder Spec GbLemmas Invariant StepLemmas AtomStep ToList RecInv.
Import ListNotations.
Open Scope Z_scope.

(* ------------------------------------------------------------------ assoc / upd_assoc *)
Section AssocUpd.
  Context {K V : Type}.
  Variable eqb : K -> K -> bool.
  Hypothesis eqb_eq : forall a b, eqb a b = true <-> a = b.
  Lemma assoc_upd (n m : K) (f : option V -> V) l :
    assoc eqb m (upd_assoc eqb n f l) = if eqb n m then Some (f (assoc eqb n l)) else assoc eqb m l.
  Proof.
    induction l as [|[k' v] t IH]; cbn [upd_assoc assoc]; [reflexivity|].
    destruct (eqb k' n) eqn:E1.
    - apply eqb_eq in E1. subst k'. cbn [assoc]. destruct (eqb n m); reflexivity.
    - cbn [assoc]. rewrite IH. destruct (eqb k' m) eqn:E2; [|reflexivity].
      destruct (eqb n m) eqn:E3; [|reflexivity].
      apply eqb_eq in E2, E3. subst. assert (eqb m m = true) as R by now apply eqb_eq. congruence.
  Qed.
End AssocUpd.

Lemma Zeqb_eq' a b : Z.eqb a b = true <-> a = b.
Proof. apply Z.eqb_eq. Qed.

(* ------------------------------------------------------------------ the local fixpoints of join / coerce, named *)
Definition jgo : list pyval -> list pos -> list pos :=
  fix go (l : list pyval) (ps : list pos) : list pos :=
    match l with
    | [] => []
    | x :: t => join (match ps with q :: _ => q | [] => P0 end) x :: go t (tl ps)
    end.
Definition rgo : list (name * pyval) -> list (name * pos) -> list (name * pos) :=
  fix go (fs : list (name * pyval)) (acc : list (name * pos)) : list (name * pos) :=
    match fs with
    | [] => acc
    | (k, x) :: t => go t (upd_assoc name_eqb k (fun q => join (opos q) x) acc)
    end.
Definition cgo : list pyval -> list pos -> list value :=
  fix go (l : list pyval) (ps : list pos) : list value :=
    match l with
    | [] => []
    | x :: t => coerce (match ps with q :: _ => q | [] => P0 end) x :: go t (tl ps)
    end.
Definition look (k : name) (q : pos) : list (name * pyval) -> value :=
  fix look (fs : list (name * pyval)) : value :=
    match fs with
    | [] => VNone
    | (k', x) :: t => if name_eqb k' k then coerce q x else look t
    end.

Definition plst (p : pos) := match p with Pos l _ _ => l end.
Definition ptups (p : pos) := match p with Pos _ t _ => t end.
Definition precs (p : pos) := match p with Pos _ _ r => r end.
Definition osome {A} (o : option (list A)) : list A := match o with Some l => l | None => [] end.

Lemma join_list p l : join p (PList l) = Pos (Some (fold_left join l (opos (plst p)))) (ptups p) (precs p).
Proof. destruct p; reflexivity. Qed.
Lemma join_tup p l :
  join p (PTup l) = Pos (plst p) (upd_assoc Z.eqb (zlen l) (fun old => jgo l (osome old)) (ptups p)) (precs p).
Proof. destruct p; reflexivity. Qed.
Lemma join_rec p nm fs :
  join p (PRec nm fs) = Pos (plst p) (ptups p) (upd_assoc oname_eqb nm (fun old => rgo fs (osome old)) (precs p)).
Proof. destruct p; reflexivity. Qed.
Lemma join_atomic p v : atomic v = true -> join p v = p.
Proof. destruct p, v; cbn [atomic]; intro H; try discriminate; reflexivity. Qed.

(* the three components of a position *)
Definition cL (p : pos) : pos := opos (plst p).
Definition cT (n : nat) (p : pos) : list pos := osome (assoc Z.eqb (Z.of_nat n) (ptups p)).
Definition cR (nm : option name) (p : pos) : list (name * pos) := osome (assoc oname_eqb nm (precs p)).

Lemma coerce_list p l : coerce p (PList l) = VList (map (coerce (cL p)) l).
Proof. destruct p; reflexivity. Qed.
Lemma coerce_tup p l : coerce p (PTup l) = VTup (cgo l (cT (length l) p)).
Proof. destruct p; reflexivity. Qed.
Lemma coerce_rec p nm fs :
  coerce p (PRec nm fs) = VRec (map (fun kq : name * pos => (fst kq, look (fst kq) (snd kq) fs)) (cR nm p)).
Proof. destruct p; reflexivity. Qed.
Lemma coerce_atomic p v : atomic v = true -> coerce p v = val_of v.
Proof. destruct p, v; cbn [atomic]; intro H; try discriminate; reflexivity. Qed.
Lemma coerce_none p : coerce p PNone = VNone.
Proof. destruct p; reflexivity. Qed.

Definition stepL (q : pos) (v : pyval) : pos := match v with PList l => fold_left join l q | _ => q end.
Definition stepT (n : nat) (ps : list pos) (v : pyval) : list pos :=
  match v with PTup l => if Nat.eqb (length l) n then jgo l ps else ps | _ => ps end.
Definition stepR (nm : option name) (flds : list (name * pos)) (v : pyval) : list (name * pos) :=
  match v with PRec nm' fs => if oname_eqb nm' nm then rgo fs flds else flds | _ => flds end.

Lemma cL_join p v : cL (join p v) = stepL (cL p) v.
Proof. destruct v; destruct p; reflexivity. Qed.

Lemma cT_join n p v : cT n (join p v) = stepT n (cT n p) v.
Proof.
  destruct v as [| | | | |l|l|nm0 fs]; [destruct p; reflexivity ..| |destruct p; reflexivity].
  - rewrite join_tup. unfold cT, stepT. cbn [ptups]. rewrite (assoc_upd Z.eqb Zeqb_eq').
    unfold zlen. destruct (Nat.eqb (length l) n) eqn:E.
    + apply Nat.eqb_eq in E. subst n. rewrite Z.eqb_refl. reflexivity.
    + apply Nat.eqb_neq in E. replace (Z.of_nat (length l) =? Z.of_nat n) with false; [reflexivity|].
      symmetry. apply Z.eqb_neq. lia.
Qed.

Lemma cR_join nm p v : cR nm (join p v) = stepR nm (cR nm p) v.
Proof.
  destruct v as [| | | | |l|l|nm0 fs]; [destruct p; reflexivity ..|].
  - rewrite join_rec. unfold cR, stepR. cbn [precs]. rewrite (assoc_upd oname_eqb oname_eqb_eq).
    destruct (oname_eqb nm0 nm) eqn:E; [|reflexivity]. apply oname_eqb_eq in E. subst nm0. reflexivity.
Qed.

Lemma cL_fold vs : forall p, cL (fold_left join vs p) = fold_left stepL vs (cL p).
Proof. induction vs as [|v t IH]; intro p; cbn [fold_left]; [reflexivity|]. now rewrite IH, cL_join. Qed.
Lemma cT_fold n vs : forall p, cT n (fold_left join vs p) = fold_left (stepT n) vs (cT n p).
Proof. induction vs as [|v t IH]; intro p; cbn [fold_left]; [reflexivity|]. now rewrite IH, cT_join. Qed.
Lemma cR_fold nm vs : forall p, cR nm (fold_left join vs p) = fold_left (stepR nm) vs (cR nm p).
Proof. induction vs as [|v t IH]; intro p; cbn [fold_left]; [reflexivity|]. now rewrite IH, cR_join. Qed.

(* ------------------------------------------------------------------ generic list facts *)
Lemma fold_left_filter {A B} (step : A -> B -> A) (pr : B -> bool) l :
  (forall a x, pr x = false -> step a x = a) ->
  forall a, fold_left step l a = fold_left step (filter pr l) a.
Proof.
  intro H. induction l as [|x t IH]; intro a; cbn [fold_left filter]; [reflexivity|].
  destruct (pr x) eqn:E; cbn [fold_left]; [apply IH|]. rewrite H by exact E. apply IH.
Qed.

Lemma mapM_iota_nat {A B} (F : Z -> res B) (G : A -> B) (vs : list A) : forall s,
  (forall i v, nth_error vs i = Some v -> F (s + Z.of_nat i) = Ok (G v)) ->
  mapM F (iota_nat s (length vs)) = Ok (map G vs).
Proof.
  induction vs as [|v t IH]; intros s H; [reflexivity|]. cbn [length iota_nat mapM map].
  pose proof (H O v eq_refl) as H0. cbn [Z.of_nat] in H0. rewrite Z.add_0_r in H0. rewrite H0. cbn [bind].
  rewrite IH; [reflexivity|]. intros i w Hi. replace (s + 1 + Z.of_nat i) with (s + Z.of_nat (S i)) by lia.
  apply H. exact Hi.
Qed.
Lemma mapM_iota {A B} (F : Z -> res B) (G : A -> B) (vs : list A) :
  (forall i v, nth_error vs i = Some v -> F (Z.of_nat i) = Ok (G v)) ->
  mapM F (iota (zlen vs)) = Ok (map G vs).
Proof. intro H. unfold iota, zlen. rewrite Nat2Z.id. apply mapM_iota_nat. intros i v Hi. now apply H. Qed.

Lemma get_map_nth {A B} (f : A -> B) (vs : list A) i v :
  nth_error vs i = Some v -> get (map f vs) (Z.of_nat i) = Ok (f v).
Proof.
  intro H. unfold get. destruct (Z.of_nat i <? 0) eqn:E; [apply Z.ltb_lt in E; lia|]. rewrite Nat2Z.id.
  now rewrite nth_error_map, H.
Qed.

Lemma to_list_record cs ks n :
  to_list (Record cs ks n) = do vss <- all_to_list cs; if n <? 0 then Err EValue else mapM (row ks vss) (iota n).
Proof. reflexivity. Qed.
Lemma to_list_union w t ix cs :
  to_list (Union w t ix cs) =
  do vss <- all_to_list cs;
  if zlen ix <? zlen t then Err EValue else
  mapM (fun ti : Z * Z => let (tg, i) := ti in do vs <- get vss tg; get vs i) (zip t ix).
Proof. reflexivity. Qed.

Lemma to_list_par rn c : to_list (Par None rn c) = do vs <- to_list c; Ok vs.
Proof. reflexivity. Qed.

Lemma zip_map_self {A B} (g : A -> B) l : zip l (map g l) = map (fun k => (k, g k)) l.
Proof. induction l as [|a t IH]; [reflexivity|]. cbn [map zip]. now rewrite IH. Qed.

(* rows of a struct whose columns are [map f vs] *)
Lemma rows_tup (fs : list (pyval -> value)) vs :
  mapM (row None (map (fun f => map f vs) fs)) (iota (zlen vs)) = Ok (map (fun v => VTup (map (fun f => f v) fs)) vs).
Proof.
  apply mapM_iota. intros i v Hi. unfold row.
  rewrite (mapM_map_ok _ _ (fun f : pyval -> value => f v)); [reflexivity|].
  intro f. now apply get_map_nth.
Qed.
Lemma rows_rec ks (fs : list (pyval -> value)) vs :
  length ks = length fs ->
  mapM (row (Some ks) (map (fun f => map f vs) fs)) (iota (zlen vs)) =
  Ok (map (fun v => VRec (zip ks (map (fun f => f v) fs))) vs).
Proof.
  intro E. apply mapM_iota. intros i v Hi. unfold row.
  rewrite (mapM_map_ok _ _ (fun f : pyval -> value => f v)) by (intro f; now apply get_map_nth).
  cbn [bind]. rewrite map_length, E, Nat.eqb_refl. reflexivity.
Qed.

(* the IH of the main theorem, and the snapshots of a list of children with their histories *)
Definition obs_ok (b : builder) : Prop :=
  forall vs, rep b vs -> exists c, snapshot b = Ok c /\ to_list c = Ok (map (coerce (positions vs)) vs).

Lemma snaps_gen cs : forall hs,
  Forall obs_ok cs -> Forall2 rep cs hs ->
  exists snaps, mapMs snapshot cs = Ok snaps /\
                all_to_list snaps = Ok (map (fun h => map (coerce (positions h)) h) hs).
Proof.
  induction cs as [|b t IH]; intros hs F R; inversion R as [|? h ? hs' Rb Rt]; subst.
  - exists []. split; reflexivity.
  - inversion F as [|? ? Fb Ft]; subst. destruct (Fb _ Rb) as (c & Es & Et). destruct (IH _ Ft Rt) as (snaps & E1 & E2).
    exists (c :: snaps). cbn [mapMs all_to_list map]. rewrite Es, E1, Et. cbn [bind]. rewrite E2. split; reflexivity.
Qed.

(* ------------------------------------------------------------------ leaves *)
Lemma leaf_observe b vs :
  leafrep b vs -> exists c, snapshot b = Ok c /\ to_list c = Ok (map (coerce (positions vs)) vs).
Proof.
  intros (W & A & E). destruct (bvals_correct b W) as (c & Es & Et). exists c. split; [exact Es|].
  rewrite Et, <- E. f_equal. apply map_ext_in. intros v Hv. symmetry. apply coerce_atomic.
  rewrite forallb_forall in A. now apply A.
Qed.

(* ------------------------------------------------------------------ option *)
Lemma OptH_fold ix ws vs : OptH ix ws vs -> forall p, fold_left join vs p = fold_left join ws p.
Proof.
  induction 1; intro p; [reflexivity| |]; rewrite !fold_left_app; cbn [fold_left].
  - rewrite join_atomic by reflexivity. apply IHOptH.
  - now rewrite IHOptH.
Qed.

Lemma OptH_vals (f : pyval -> value) ix ws vs :
  f PNone = VNone -> OptH ix ws vs ->
  Forall (fun i => i < zlen ws) ix /\ map (lookup (map f ws)) ix = map f vs.
Proof.
  intros Hf. induction 1 as [|ix ws vs H [F E]|ix ws vs v H [F E] Hv].
  - split; [constructor|reflexivity].
  - split.
    + apply Forall_app. split; [exact F|]. constructor; [|constructor]. pose proof (zlen_nonneg ws). lia.
    + rewrite !map_app, E. cbn [map]. rewrite Hf. reflexivity.
  - split.
    + apply Forall_app. split.
      * eapply Forall_impl; [|exact F]. cbn. intros a Ha. rewrite zlen_app, zlen_cons, zlen_nil. lia.
      * constructor; [|constructor]. rewrite zlen_app, zlen_cons, zlen_nil. lia.
    + rewrite !map_app. cbn [map]. f_equal.
      * rewrite <- E. apply map_ext_in. intros i Hi. rewrite Forall_forall in F. apply nth_lookup_app.
        rewrite zlen_map. now apply F.
      * f_equal. rewrite <- (zlen_map f ws). apply lookup_last.
Qed.

(* ------------------------------------------------------------------ list *)
Lemma ListH_fold os ws vs : ListH os ws vs -> forall q, fold_left stepL vs q = fold_left join ws q.
Proof.
  induction 1; intro q; [reflexivity|]. rewrite !fold_left_app. cbn [fold_left stepL]. now rewrite IHListH.
Qed.

Lemma ListH_islist os ws vs : ListH os ws vs -> Forall (fun v => exists l, v = PList l) vs.
Proof. induction 1; [constructor|]. apply Forall_app. split; [assumption|]. constructor; [eauto|constructor]. Qed.

Lemma ListH_vals (f : pyval -> value) os ws vs :
  ListH os ws vs ->
  okoff os (zlen ws) /\ last os 0 = zlen ws /\
  map VList (cuts os (map f ws)) = map (fun v => match v with PList l => VList (map f l) | _ => VNone end) vs.
Proof.
  induction 1 as [|os ws vs l H (OK & La & E)].
  - split; [apply okoff_single; cbn; lia|split; reflexivity].
  - pose proof (zlen_nonneg l) as Hl. pose proof (okoff_ne _ _ OK) as Hne. split; [|split].
    + rewrite zlen_app. apply okoff_snoc with (n := zlen ws); auto; lia.
    + rewrite last_snoc. now rewrite zlen_app.
    + rewrite cuts_snoc by exact Hne. rewrite !map_app. cbn [map]. f_equal.
      * rewrite <- E. f_equal. apply cuts_extend. destruct OK as (_ & F & _). now rewrite zlen_map.
      * f_equal. f_equal. rewrite La. rewrite <- (zlen_map f ws). rewrite drop_app_l.
        rewrite zlen_map. replace (zlen ws + zlen l - zlen ws) with (zlen l) by lia.
        apply take_all. rewrite zlen_map. lia.
Qed.

(* ------------------------------------------------------------------ tuple *)
Lemma jgo_nth l : forall ps j, (j < length l)%nat -> nth j (jgo l ps) P0 = join (nth j ps P0) (nth j l PNone).
Proof.
  induction l as [|x t IH]; intros ps j H; cbn [length] in H; [lia|].
  change (jgo (x :: t) ps) with (join (match ps with q :: _ => q | [] => P0 end) x :: jgo t (tl ps)).
  destruct j as [|j]; cbn [nth].
  - destruct ps; reflexivity.
  - rewrite IH by lia. destruct ps as [|q ps]; cbn [tl nth]; [destruct j; reflexivity|reflexivity].
Qed.

Lemma cgo_nth l : forall ps, cgo l ps = map (fun j => coerce (nth j ps P0) (nth j l PNone)) (seq 0 (length l)).
Proof.
  induction l as [|x t IH]; intro ps; [reflexivity|].
  change (cgo (x :: t) ps) with (coerce (match ps with q :: _ => q | [] => P0 end) x :: cgo t (tl ps)).
  cbn [length seq map]. f_equal; [destruct ps; reflexivity|].
  rewrite <- seq_shift, map_map, IH. apply map_ext. intro j. cbn [nth].
  destruct ps as [|q ps]; cbn [tl nth]; [destruct j; reflexivity|reflexivity].
Qed.

Lemma tup_slots n vs : forallb (istup n) vs = true -> forall ps j, (j < n)%nat ->
  nth j (fold_left (stepT n) vs ps) P0 = fold_left join (map (slot j) vs) (nth j ps P0).
Proof.
  induction vs as [|v t IH]; intros A ps j Hj; [reflexivity|].
  cbn [forallb] in A. apply andb_true_iff in A. destruct A as [A1 A2].
  cbn [fold_left map]. rewrite IH by assumption. f_equal.
  destruct v; try discriminate. cbn [istup] in A1. cbn [stepT slot]. rewrite A1. apply Nat.eqb_eq in A1.
  apply jgo_nth. lia.
Qed.

Lemma tup_coerce n vs v : forallb (istup n) vs = true -> In v vs ->
  coerce (positions vs) v = VTup (map (fun j => coerce (positions (map (slot j) vs)) (slot j v)) (seq 0 n)).
Proof.
  intros A Hv. pose proof A as A'. rewrite forallb_forall in A'. specialize (A' _ Hv).
  destruct v; try discriminate. cbn [istup] in A'. apply Nat.eqb_eq in A'.
  rewrite coerce_tup, cgo_nth, A'. f_equal. apply map_ext_in. intros j Hj. apply in_seq in Hj.
  unfold positions at 1. rewrite cT_fold. rewrite tup_slots by (assumption || lia). cbn [slot].
  replace (nth j (cT n P0) P0) with P0; [reflexivity|]. unfold cT. cbn. destruct j; reflexivity.
Qed.

Lemma tcols_F2 vs cs : forall j, tcols vs cs j -> Forall2 rep cs (map (fun j => map (slot j) vs) (seq j (length cs))).
Proof.
  induction cs as [|c t IH]; intros j H; cbn [length seq map]; [constructor|].
  destruct H as [H1 H2]. constructor; auto.
Qed.

(* ------------------------------------------------------------------ record *)
Definition fldl (k : name) (fs : list (name * pyval)) : pyval :=
  match assoc name_eqb k fs with Some x => x | None => PNone end.
Definition apos (k : name) (flds : list (name * pos)) : pos := opos (assoc name_eqb k flds).

Lemma look_fld k q fs : look k q fs = coerce q (fldl k fs).
Proof.
  induction fs as [|[k' x] t IH]; unfold fldl.
  - symmetry. apply coerce_none.
  - change (look k q ((k', x) :: t)) with (if name_eqb k' k then coerce q x else look k q t).
    cbn [assoc]. destruct (name_eqb k' k); [reflexivity|exact IH].
Qed.

Lemma apos_upd k k' x acc :
  apos k (upd_assoc name_eqb k' (fun q => join (opos q) x) acc) = if name_eqb k' k then join (apos k acc) x else apos k acc.
Proof.
  unfold apos. rewrite (assoc_upd name_eqb name_eqb_eq). destruct (name_eqb k' k) eqn:E; [|reflexivity].
  apply name_eqb_eq in E. subst. reflexivity.
Qed.

Lemma fldl_absent k fs : existsb (name_eqb k) (map fst fs) = false -> fldl k fs = PNone.
Proof.
  induction fs as [|[k' x] t IH]; [reflexivity|]. cbn [map fst existsb]. intro H.
  apply orb_false_iff in H. destruct H as [H1 H2]. unfold fldl. cbn [assoc]. rewrite name_eqb_sym, H1. now apply IH.
Qed.

Lemma apos_rgo k fs : keys_nodup (map fst fs) = true -> forall acc, apos k (rgo fs acc) = join (apos k acc) (fldl k fs).
Proof.
  induction fs as [|[k' x] t IH]; intros N acc.
  - symmetry. apply join_atomic. reflexivity.
  - cbn [map fst keys_nodup] in N. apply andb_true_iff in N. destruct N as [N1 N2]. apply negb_true_iff in N1.
    change (rgo ((k', x) :: t) acc) with (rgo t (upd_assoc name_eqb k' (fun q => join (opos q) x) acc)).
    rewrite IH by exact N2. rewrite apos_upd. unfold fldl at 2. cbn [assoc].
    destruct (name_eqb k' k) eqn:E; [|reflexivity].
    apply name_eqb_eq in E. subst k'. rewrite (fldl_absent k t N1). apply join_atomic. reflexivity.
Qed.

Lemma rec_apos nm k vs : forallb (isrec nm) vs = true ->
  forall acc, apos k (fold_left (stepR nm) vs acc) = fold_left join (map (fld k) vs) (apos k acc).
Proof.
  induction vs as [|v t IH]; intros A acc; [reflexivity|].
  cbn [forallb] in A. apply andb_true_iff in A. destruct A as [A1 A2].
  cbn [fold_left map]. rewrite IH by assumption. f_equal.
  destruct v; try discriminate. cbn [isrec] in A1. apply andb_true_iff in A1. destruct A1 as [O1 N].
  cbn [stepR fld]. rewrite O1. now apply apos_rgo.
Qed.

Lemma keys_upd k (f : option pos -> pos) acc : map fst (upd_assoc name_eqb k f acc) = add_key (map fst acc) k.
Proof.
  unfold add_key. induction acc as [|[k' v] t IH]; [reflexivity|]. cbn [upd_assoc map fst existsb].
  rewrite (name_eqb_sym k k'). destruct (name_eqb k' k); [reflexivity|]. cbn [map fst orb]. rewrite IH.
  destruct (existsb (name_eqb k) (map fst t)); reflexivity.
Qed.

Lemma keys_rgo fs : forall acc, map fst (rgo fs acc) = fold_left add_key (map fst fs) (map fst acc).
Proof.
  induction fs as [|[k x] t IH]; intro acc; [reflexivity|].
  change (rgo ((k, x) :: t) acc) with (rgo t (upd_assoc name_eqb k (fun q => join (opos q) x) acc)).
  rewrite IH, keys_upd. reflexivity.
Qed.

Lemma rec_keys nm vs : forallb (isrec nm) vs = true ->
  forall acc, map fst (fold_left (stepR nm) vs acc) = fold_left (fun a v => fold_left add_key (rkeys v) a) vs (map fst acc).
Proof.
  induction vs as [|v t IH]; intros A acc; [reflexivity|].
  cbn [forallb] in A. apply andb_true_iff in A. destruct A as [A1 A2].
  cbn [fold_left]. rewrite IH by assumption. f_equal.
  destruct v; try discriminate. cbn [isrec] in A1. apply andb_true_iff in A1. destruct A1 as [O1 N].
  cbn [stepR rkeys]. rewrite O1. apply keys_rgo.
Qed.

Lemma NoDup_snoc {A} (l : list A) k : NoDup l -> ~ In k l -> NoDup (l ++ [k]).
Proof.
  induction l as [|a t IH]; intros N H; cbn [app]; [constructor; [intros []|constructor]|].
  inversion N; subst. constructor.
  - rewrite in_app_iff. intros [H1|[H1|[]]]; [contradiction|]. subst. apply H. now left.
  - apply IH; auto. intro. apply H. now right.
Qed.
Lemma add_key_nodup l k : NoDup l -> NoDup (add_key l k).
Proof.
  intro N. unfold add_key. destruct (existsb (name_eqb k) l) eqn:E; [exact N|]. apply NoDup_snoc; [exact N|].
  intro H. assert (existsb (name_eqb k) l = true); [|congruence].
  apply existsb_exists. exists k. split; [exact H|apply name_eqb_refl].
Qed.
Lemma keys_of_nodup vs : NoDup (keys_of vs).
Proof.
  unfold keys_of. assert (forall ks l, NoDup l -> NoDup (fold_left add_key ks l)) as G.
  { induction ks as [|k t IH]; intros l N; cbn [fold_left]; [exact N|]. apply IH. now apply add_key_nodup. }
  assert (forall l, NoDup l -> NoDup (fold_left (fun acc v => fold_left add_key (rkeys v) acc) vs l)) as G2.
  { induction vs as [|v t IH]; intros l N; cbn [fold_left]; [exact N|]. apply IH. now apply G. }
  apply G2. constructor.
Qed.

Lemma apos_in (l : list (name * pos)) kq : NoDup (map fst l) -> In kq l -> apos (fst kq) l = snd kq.
Proof.
  unfold apos. induction l as [|[k' v] t IH]; intros N H; [destruct H|]. cbn [map fst] in N. inversion N; subst.
  cbn [assoc]. destruct H as [H|H].
  - subst kq. cbn [fst snd]. now rewrite name_eqb_refl.
  - destruct (name_eqb k' (fst kq)) eqn:E.
    + apply name_eqb_eq in E. subst k'. exfalso. apply H2. apply in_map_iff. exists kq. auto.
    + now apply IH.
Qed.

Lemma rec_coerce nm vs v : forallb (isrec nm) vs = true -> In v vs ->
  coerce (positions vs) v = VRec (map (fun k => (k, coerce (positions (map (fld k) vs)) (fld k v))) (keys_of vs)).
Proof.
  intros A Hv. pose proof A as A'. rewrite forallb_forall in A'. specialize (A' _ Hv).
  destruct v; try discriminate. cbn [isrec] in A'. apply andb_true_iff in A'. destruct A' as [O1 N].
  apply oname_eqb_eq in O1. subst nm0.
  rewrite coerce_rec. unfold positions at 1. rewrite cR_fold. change (cR nm P0) with (@nil (name * pos)).
  set (flds := fold_left (stepR nm) vs []).
  assert (map fst flds = keys_of vs) as EK by (unfold flds; now rewrite rec_keys).
  assert (NoDup (map fst flds)) as ND by (rewrite EK; apply keys_of_nodup).
  rewrite <- EK, map_map. f_equal. apply map_ext_in. intros kq Hkq. f_equal. rewrite look_fld.
  rewrite <- (apos_in flds kq ND Hkq). unfold flds. rewrite rec_apos by exact A. reflexivity.
Qed.

Lemma rcols_F2 vs cs : forall ks, rcols vs cs ks ->
  length cs = length ks /\ Forall2 rep cs (map (fun k => map (fld k) vs) ks).
Proof.
  induction cs as [|c t IH]; intros [|k kt] H; cbn [rcols] in H; try contradiction.
  - split; [reflexivity|constructor].
  - destruct H as [H1 H2]. destruct (IH _ H2) as [E F]. split; [cbn [length]; now rewrite E|]. cbn [map]. constructor; auto.
Qed.

(* ------------------------------------------------------------------ union: kinds and components *)
Definition haskind (k : skind) (v : pyval) : bool :=
  match k, v with
  | SL, PList _ => true
  | ST n, PTup l => Nat.eqb (length l) n
  | SR nm, PRec nm' _ => oname_eqb nm' nm
  | _, _ => false
  end.
Lemma haskind_iff k v : haskind k v = true <-> vkind v = Some k.
Proof.
  destruct k, v; cbn [haskind vkind]; split; intro H; try discriminate; try reflexivity; try (inversion H; fail).
  - apply Nat.eqb_eq in H. now subst.
  - inversion H. apply Nat.eqb_refl.
  - apply oname_eqb_eq in H. now subst.
  - inversion H. now apply oname_eqb_eq.
Qed.

(* two positions agree on the component a value of kind [k] reads and writes *)
Definition agree (k : skind) (p1 p2 : pos) : Prop :=
  match k with SL => cL p1 = cL p2 | ST n => cT n p1 = cT n p2 | SR nm => cR nm p1 = cR nm p2 end.
Lemma agree_refl k p : agree k p p.
Proof. destruct k; reflexivity. Qed.
Lemma agree_sym k p q : agree k p q -> agree k q p.
Proof. destruct k; cbn [agree]; congruence. Qed.
Lemma agree_trans k p q r : agree k p q -> agree k q r -> agree k p r.
Proof. destruct k; cbn [agree]; congruence. Qed.
Lemma agree_join k p1 p2 v : agree k p1 p2 -> agree k (join p1 v) (join p2 v).
Proof. destruct k; cbn [agree]; intro H; rewrite ?cL_join, ?cT_join, ?cR_join, H; reflexivity. Qed.
Lemma agree_skip k p v : haskind k v = false -> agree k (join p v) p.
Proof.
  destruct k; cbn [agree]; intro H; rewrite ?cL_join, ?cT_join, ?cR_join; destruct v; cbn [haskind] in H;
    try discriminate; cbn [stepL stepT stepR]; try rewrite H; reflexivity.
Qed.
Lemma agree_fold k vs : forall p1 p2,
  agree k p1 p2 -> agree k (fold_left join vs p1) (fold_left join (filter (haskind k) vs) p2).
Proof.
  induction vs as [|v t IH]; intros p1 p2 H; cbn [fold_left filter]; [exact H|].
  destruct (haskind k v) eqn:E; cbn [fold_left]; apply IH.
  - now apply agree_join.
  - eapply agree_trans; [apply agree_skip; exact E|exact H].
Qed.
Lemma agree_coerce k p1 p2 v : vkind v = Some k -> agree k p1 p2 -> coerce p1 v = coerce p2 v.
Proof.
  destruct v; cbn [vkind]; intro E; inversion E; subst; cbn [agree]; intro H;
    rewrite ?coerce_list, ?coerce_tup, ?coerce_rec, H; reflexivity.
Qed.

(* what an alternative of a union has received is atomic or of the alternative's own kind *)
Lemma rep_kinds c h : rep c h -> altok c = true -> forall v, In v h -> vkind v = None \/ vkind v = bkind c.
Proof.
  destruct c; intros R A v Hv; try discriminate.
  1-4: left; destruct R as (_ & At & _); rewrite forallb_forall in At; specialize (At _ Hv);
       destruct v; try discriminate; reflexivity.
  - right. destruct R as (_ & _ & ws & H & _). apply ListH_islist in H. rewrite Forall_forall in H.
    destruct (H _ Hv) as (l & ->). reflexivity.
  - right. apply rep_record in R. destruct R as (_ & _ & I & _). rewrite forallb_forall in I. specialize (I _ Hv).
    destruct v; try discriminate. cbn [isrec] in I. apply andb_true_iff in I. destruct I as [I _].
    apply oname_eqb_eq in I. subst. reflexivity.
  - right. apply rep_tuple in R. destruct R as (_ & _ & I & _). rewrite forallb_forall in I. specialize (I _ Hv).
    destruct v; try discriminate. cbn [istup] in I. apply Nat.eqb_eq in I. cbn [vkind bkind]. now rewrite I.
Qed.

Lemma skinds_in cs c k : In c cs -> bkind c = Some k -> In k (skinds cs).
Proof. intros H E. unfold skinds. apply in_flat_map. exists c. split; [exact H|]. rewrite E. now left. Qed.

Lemma skinds_inj cs : NoDup (skinds cs) -> forall i j ci cj k,
  nth_error cs i = Some ci -> nth_error cs j = Some cj -> bkind ci = Some k -> bkind cj = Some k -> i = j.
Proof.
  induction cs as [|a t IH]; intros N i j ci cj k Hi Hj Ki Kj; [destruct i; discriminate|].
  assert (NoDup (skinds t)) as Nt.
  { unfold skinds in N. cbn [flat_map] in N. destruct (bkind a); [now inversion N|exact N]. }
  assert (forall c m, bkind a = Some k -> nth_error t m = Some c -> bkind c = Some k -> False) as X.
  { intros c m Ka Hm Kc. unfold skinds in N. cbn [flat_map] in N. rewrite Ka in N. cbn [app] in N.
    inversion N; subst. apply H1. eapply skinds_in; [eapply nth_error_In; exact Hm|exact Kc]. }
  destruct i as [|i], j as [|j]; cbn [nth_error] in Hi, Hj.
  - reflexivity.
  - inversion Hi; subst. exfalso. eapply X; eauto.
  - inversion Hj; subst. exfalso. eapply X; eauto.
  - f_equal. eapply IH; eauto.
Qed.

Lemma filter_none {A} (pr : A -> bool) l : (forall w, In w l -> pr w = false) -> filter pr l = [].
Proof.
  induction l as [|a t IH]; intro H; [reflexivity|]. cbn [filter]. rewrite (H a (or_introl eq_refl)).
  apply IH. intros; apply H; now right.
Qed.

Lemma F2_nth {A B} (R : A -> B -> Prop) l1 l2 :
  Forall2 R l1 l2 -> forall j a d, nth_error l1 j = Some a -> R a (nth j l2 d).
Proof.
  induction 1 as [|x y l1 l2 Rxy _ IH]; intros [|j] a d Hj; cbn [nth_error nth] in *; try discriminate.
  - inversion Hj; subst. exact Rxy.
  - eauto.
Qed.

Lemma F2_length {A B} (R : A -> B -> Prop) l1 l2 : Forall2 R l1 l2 -> length l1 = length l2.
Proof. induction 1; cbn [length]; congruence. Qed.

(* the values of one kind all sit in one alternative *)
Lemma UniH_filter (pr : pyval -> bool) ts ix vss vs : UniH ts ix vss vs -> forall j,
  (forall i, i <> j -> filter pr (nth i vss []) = []) -> filter pr vs = filter pr (nth j vss []).
Proof.
  induction 1 as [|ts ix vss vs H IH|ts ix pre ws post vs v H IH]; intros j Hj.
  - destruct j; reflexivity.
  - rewrite (IH j).
    + destruct (Nat.lt_ge_cases j (length vss)) as [L|L].
      * now rewrite app_nth1.
      * rewrite app_nth2 by exact L. rewrite (nth_overflow vss) by exact L.
        destruct (j - length vss)%nat as [|[|m]]; reflexivity.
    + intros i Hi. specialize (Hj i Hi). destruct (Nat.lt_ge_cases i (length vss)) as [L|L].
      * now rewrite app_nth1 in Hj.
      * now rewrite nth_overflow.
  - rewrite filter_app. destruct (Nat.eq_dec j (length pre)) as [->|Ne].
    + rewrite nth_middle, filter_app. f_equal. rewrite (IH (length pre)); [now rewrite nth_middle|].
      intros i Hi. rewrite (nth_app_other pre post ws (ws ++ [v])) by exact Hi. now apply Hj.
    + assert (filter pr (ws ++ [v]) = []) as Z.
      { assert (length pre <> j) as Ne' by congruence. specialize (Hj (length pre) Ne'). now rewrite nth_middle in Hj. }
      rewrite filter_app in Z. apply app_eq_nil in Z. destruct Z as [Z1 Z2]. rewrite Z2, app_nil_r.
      rewrite (nth_app_other pre post (ws ++ [v]) ws) by exact Ne. apply IH. intros i Hi.
      destruct (Nat.eq_dec i (length pre)) as [->|Ni]; [now rewrite nth_middle|].
      rewrite (nth_app_other pre post ws (ws ++ [v])) by exact Ni. now apply Hj.
Qed.

Lemma uni_coerce ts ix vss vs cs :
  UniH ts ix vss vs -> Forall2 rep cs vss -> alts_ok cs ->
  forall j v, In v (nth j vss []) -> coerce (positions vs) v = coerce (positions (nth j vss [])) v.
Proof.
  intros U R [AO ND] j v Hv. rewrite forallb_forall in AO.
  destruct (vkind v) as [k|] eqn:Ek.
  2: { rewrite !coerce_atomic; [reflexivity| |]; destruct v; try discriminate; reflexivity. }
  apply (agree_coerce k); [exact Ek|].
  pose proof (F2_length _ _ _ R) as EL.
  assert (j < length vss)%nat as Hjl.
  { destruct (Nat.lt_ge_cases j (length vss)) as [L|L]; [exact L|]. rewrite nth_overflow in Hv by exact L. destruct Hv. }
  destruct (nth_error cs j) as [cj|] eqn:Ecj; [|apply nth_error_None in Ecj; lia].
  pose proof (F2_nth _ _ _ R j cj [] Ecj) as Rj.
  assert (bkind cj = Some k) as Kj.
  { destruct (rep_kinds cj _ Rj (AO _ (nth_error_In _ _ Ecj)) v Hv); congruence. }
  assert (filter (haskind k) vs = filter (haskind k) (nth j vss [])) as EF.
  { apply (UniH_filter _ _ _ _ _ U). intros i Hi.
    destruct (Nat.lt_ge_cases i (length vss)) as [L|L]; [|now rewrite nth_overflow].
    destruct (nth_error cs i) as [ci|] eqn:Eci; [|apply nth_error_None in Eci; lia].
    pose proof (F2_nth _ _ _ R i ci [] Eci) as Ri.
    apply filter_none. intros w Hw. destruct (haskind k w) eqn:Ew; [|reflexivity]. exfalso.
    apply haskind_iff in Ew.
    destruct (rep_kinds ci _ Ri (AO _ (nth_error_In _ _ Eci)) w Hw) as [X|X]; [congruence|].
    apply Hi. eapply (skinds_inj cs ND i j ci cj k); eauto. congruence. }
  unfold positions. eapply agree_trans; [apply agree_fold, agree_refl|]. rewrite EF.
  apply agree_sym. apply agree_fold, agree_refl.
Qed.

(* ------------------------------------------------------------------ union: tags and index *)
Lemma UniH_vals (G : pyval -> value) ts ix vss vs : UniH ts ix vss vs ->
  Forall (fun ti : Z * Z => 0 <= fst ti < zlen vss /\ 0 <= snd ti < zlen (nth (Z.to_nat (fst ti)) vss [])) (zip ts ix) /\
  map (ulookup (map (map G) vss)) (zip ts ix) = map G vs.
Proof.
  induction 1 as [|ts ix vss vs H (F & E)|ts ix pre ws post vs v H (F & E)].
  - split; [constructor|reflexivity].
  - split.
    + eapply Forall_impl; [|exact F]. intros [t k] [H1 H2]; cbn [fst snd] in *. rewrite zlen_snoc. split; [lia|].
      rewrite app_nth1 by (unfold zlen in H1; lia). exact H2.
    + rewrite <- E. rewrite map_app. cbn [map]. apply map_ext_in. intros [t k] Hin. apply ulookup_snoc. cbn [fst].
      rewrite Forall_forall in F. specialize (F _ Hin). rewrite map_length. unfold zlen in F; cbn [fst] in F. lia.
  - pose proof (UniH_len _ _ _ _ H) as [L1 L2].
    assert (zlen (pre ++ (ws ++ [v]) :: post) = zlen (pre ++ ws :: post)) as ZL by (rewrite !zlen_app, !zlen_cons; lia).
    split.
    + apply Forall_zip_snoc; [lia| |].
      * eapply Forall_impl; [|exact F]. intros [t k] [H1 H2]. cbn [fst snd] in *. rewrite ZL. split; [exact H1|].
        destruct (Nat.eq_dec (Z.to_nat t) (length pre)) as [Et|Et].
        -- rewrite Et, nth_middle in *. rewrite zlen_snoc. lia.
        -- now rewrite (nth_app_other pre post (ws ++ [v]) ws).
      * cbn [fst snd]. replace (Z.to_nat (zlen pre)) with (length pre) by (unfold zlen; lia). rewrite nth_middle.
        rewrite zlen_app, zlen_cons, zlen_snoc.
        pose proof (zlen_nonneg pre). pose proof (zlen_nonneg post). pose proof (zlen_nonneg ws). lia.
    + rewrite zip_app by lia. rewrite !map_app. cbn [zip map]. f_equal.
      * rewrite <- E. rewrite ?map_app. cbn [map]. rewrite ?map_app. cbn [map].
        apply map_ext_in. intros [t k] Hin. apply ulookup_upd. cbn [fst snd]. intro Et. rewrite map_length in Et.
        rewrite Forall_forall in F. specialize (F _ Hin). cbn [fst snd] in F. rewrite Et, nth_middle in F.
        rewrite map_length. unfold zlen in F. lia.
      * f_equal. unfold ulookup. cbn [fst snd]. rewrite ?map_app. cbn [map].
        replace (Z.to_nat (zlen pre)) with (length pre) by (unfold zlen; lia).
        rewrite <- (map_length (map G) pre), nth_middle. rewrite ?map_app. cbn [map].
        unfold zlen. rewrite Nat2Z.id. rewrite <- (map_length G ws). apply nth_middle.
Qed.

Lemma union_lookup_gen (vals : list (list value)) tags idx :
  Forall (fun ti : Z * Z => 0 <= fst ti < zlen vals /\ 0 <= snd ti < zlen (nth (Z.to_nat (fst ti)) vals []))
         (zip tags idx) ->
  mapM (fun ti : Z * Z => let (tg, i) := ti in do vs <- get vals tg; get vs i) (zip tags idx)
  = Ok (map (ulookup vals) (zip tags idx)).
Proof.
  intros R. apply mapM_ok. intros [t k] Hin. rewrite Forall_forall in R. specialize (R _ Hin). cbn [fst snd] in R.
  destruct R as [R1 R2]. rewrite (get_nth vals t []) by lia. cbn [bind]. unfold ulookup. cbn [fst snd].
  now apply get_nth.
Qed.

Lemma ualts_F2 cs : forall hs, ualts cs hs -> Forall2 rep cs hs.
Proof.
  induction cs as [|c t IH]; intros [|h ht] H; cbn [ualts] in H; try contradiction; [constructor|].
  destruct H as [H1 H2]. constructor; auto.
Qed.

(* ------------------------------------------------------------------ the theorem *)
Lemma zlen_not_m1 {A} (l : list A) : (zlen l =? -1) = false.
Proof. apply Z.eqb_neq. pose proof (zlen_nonneg l). lia. Qed.
Lemma zlen_not_neg {A} (l : list A) : (zlen l <? 0) = false.
Proof. apply Z.ltb_ge. apply zlen_nonneg. Qed.

Lemma rep_observe_all : forall b, obs_ok b.
Proof.
  induction b using builder_ind'; intros vs R.
  1-5: now apply leaf_observe.
  - (* option *)
    destruct R as (Wi & ws & H & Rc). destruct (IHb _ Rc) as (c & Es & Et).
    cbn [snapshot]. rewrite Es. cbn [bind]. eexists; split; [reflexivity|]. cbn [to_list]. rewrite Et. cbn [bind].
    destruct (OptH_vals (coerce (positions ws)) _ _ _ (coerce_none _) H) as [F E].
    rewrite pickopt_ok by (now rewrite zlen_map). f_equal. rewrite E. unfold positions. now rewrite (OptH_fold _ _ _ H).
  - (* list *)
    destruct R as (-> & Wo & ws & H & Rc). destruct (IHb _ Rc) as (c & Es & Et).
    cbn [snapshot]. rewrite Es. cbn [bind]. eexists; split; [reflexivity|]. cbn [to_list]. rewrite Et. cbn [bind].
    destruct (ListH_vals (coerce (positions ws)) _ _ _ H) as (OK & La & E).
    rewrite cut_ok by (now rewrite zlen_map). cbn [rmap]. f_equal. rewrite E. apply map_ext_in. intros v Hv.
    pose proof (ListH_islist _ _ _ H) as IL. rewrite Forall_forall in IL. destruct (IL _ Hv) as (l & ->).
    rewrite coerce_list. f_equal. f_equal. f_equal. unfold positions. rewrite cL_fold, (ListH_fold _ _ _ H). reflexivity.
  - (* record *)
    apply rep_record in R. destruct R as (-> & -> & A & -> & RC). destruct (rcols_F2 _ _ _ RC) as [EL F2].
    cbn [snapshot]. rewrite zlen_not_m1.
    destruct (snaps_gen cs _ H F2) as (snaps & E1 & E2). rewrite E1. cbn [bind].
    replace (length (keys_of vs) <? length cs)%nat with false by (symmetry; apply Nat.ltb_ge; lia).
    rewrite EL, firstn_all.
    set (fs := map (fun k v => coerce (positions (map (fld k) vs)) (fld k v)) (keys_of vs)).
    assert (to_list (Record snaps (Some (keys_of vs)) (zlen vs)) = Ok (map (coerce (positions vs)) vs)) as T.
    { rewrite to_list_record, E2. cbn [bind]. rewrite zlen_not_neg.
      assert (map (fun h => map (coerce (positions h)) h) (map (fun k => map (fld k) vs) (keys_of vs))
              = map (fun f => map f vs) fs) as EC.
      { unfold fs. rewrite !map_map. apply map_ext. intro k. now rewrite map_map. }
      rewrite EC, rows_rec by (unfold fs; now rewrite map_length). f_equal. apply map_ext_in. intros v Hv.
      rewrite (rec_coerce _ _ _ A Hv). f_equal. unfold fs. rewrite map_map. now rewrite zip_map_self. }
    destruct nullp; eexists; (split; [reflexivity|]); [exact T|]. rewrite to_list_par, T. reflexivity.
  - (* tuple *)
    apply rep_tuple in R. destruct R as (-> & -> & A & TC).
    cbn [snapshot]. rewrite zlen_not_m1.
    destruct (snaps_gen cs _ H (tcols_F2 vs cs 0 TC)) as (snaps & E1 & E2). rewrite E1. cbn [bind].
    eexists; split; [reflexivity|]. rewrite to_list_record, E2. cbn [bind]. rewrite zlen_not_neg.
    set (fs := map (fun j v => coerce (positions (map (slot j) vs)) (slot j v)) (seq 0 (length cs))).
    assert (map (fun h => map (coerce (positions h)) h) (map (fun j => map (slot j) vs) (seq 0 (length cs)))
            = map (fun f => map f vs) fs) as EC.
    { unfold fs. rewrite !map_map. apply map_ext. intro j. now rewrite map_map. }
    rewrite EC, rows_tup. f_equal. apply map_ext_in. intros v Hv.
    rewrite (tup_coerce _ _ _ A Hv). f_equal. unfold fs. now rewrite map_map.
  - (* union *)
    apply rep_union in R. destruct R as (-> & Wt & Wi & AO & vss & U & UA). apply ualts_F2 in UA.
    cbn [snapshot]. destruct (snaps_gen cs _ H UA) as (snaps & E1 & E2). rewrite E1. cbn [bind].
    eexists; split; [reflexivity|]. rewrite to_list_union, E2. cbn [bind].
    pose proof (UniH_len _ _ _ _ U) as [L1 L2].
    replace (zlen (gb_list idx) <? zlen (gb_list tags)) with false by (symmetry; apply Z.ltb_ge; unfold zlen; lia).
    assert (map (fun h => map (coerce (positions h)) h) vss = map (map (coerce (positions vs))) vss) as EC.
    { apply map_ext_in. intros h Hh. destruct (In_nth _ _ [] Hh) as (j & Hj & <-).
      apply map_ext_in. intros v Hv. symmetry. eapply uni_coerce; eauto. }
    rewrite EC. destruct (UniH_vals (coerce (positions vs)) _ _ _ _ U) as [F E].
    rewrite union_lookup_gen; [now rewrite E|].
    eapply Forall_impl; [|exact F]. intros [t k] [H1 H2]. cbn [fst snd] in *. rewrite zlen_map. split; [exact H1|].
    change (@nil value) with (map (coerce (positions vs)) []). rewrite map_nth, zlen_map. exact H2.
Qed.

Theorem rep_observe : forall b vs, rep b vs ->
  exists c, snapshot b = Ok c /\ to_list c = Ok (map (coerce (positions vs)) vs).
Proof. exact rep_observe_all. Qed.

Corollary rep_observe_unify b vs : rep b vs -> observe b = Ok (unify vs).
Proof. intro R. destruct (rep_observe b vs R) as (c & Es & Et). unfold observe, unify. rewrite Es. exact Et. Qed.
