(** C16 proofs, part 3: the round trip through buffers keeps type and value. *)
From Coq Require Import ZArith List Bool Lia ZifyBool.
From AwkV Require Import Base Layout LayoutInd Valid Types Proofs_Lists Proofs_C11 Proofs_Typing Proofs_ToList.
From AwkBuffers Require Import Buffers Proofs_C16.
Import ListNotations.
Open Scope Z_scope.

(* ---------------------------------------------------------------- list lemmas about prefixes *)
Lemma mapM_firstn {A B} (f : A -> res B) l ys : mapM f l = Ok ys -> forall n, mapM f (firstn n l) = Ok (firstn n ys).
Proof.
  revert ys. induction l as [|x xs IH]; intros ys H n.
  - cbn in H. injection H as <-. destruct n; reflexivity.
  - cbn [mapM] in H. apply bind_Ok in H as (y & Hy & H). apply bind_Ok in H as (ys' & Hys & H). injection H as <-.
    destruct n as [|n]; [reflexivity|]. cbn [firstn mapM]. rewrite Hy. cbn. rewrite (IH ys' Hys n). reflexivity.
Qed.
Lemma mapM_take {A B} (f : A -> res B) l ys k : mapM f l = Ok ys -> mapM f (take k l) = Ok (take k ys).
Proof. intros H. apply mapM_firstn. exact H. Qed.

Lemma take_take {A} (l : list A) a b : a <= b -> take a (take b l) = take a l.
Proof. intros H. unfold take. rewrite firstn_firstn. f_equal. lia. Qed.
Lemma drop_take {A} (l : list A) a m : 0 <= a -> drop a (take m l) = take (m - a) (drop a l).
Proof. intros Ha. unfold take, drop. rewrite skipn_firstn_comm. f_equal. lia. Qed.
Lemma zlen_take_min {A} (l : list A) n : 0 <= n -> zlen (take n l) = Z.min n (zlen l).
Proof. intros. unfold take, zlen. rewrite firstn_length. lia. Qed.

Lemma cut1_prefix {A} (vs : list A) a b l m :
  cut1 vs (a, b) = Ok l -> a = b \/ b <= m -> m <= zlen vs -> cut1 (take m vs) (a, b) = Ok l.
Proof.
  unfold cut1. destruct (a =? b) eqn:E; [auto|]. intros H [Hab|Hb] Hm; [lia|].
  apply slice_inv in H. destruct H as (H0 & H1 & H2 & H3).
  rewrite slice_ok; [|lia|lia|rewrite zlen_take_min; lia]. f_equal. rewrite H3.
  rewrite drop_take by lia. apply take_take. lia.
Qed.
Lemma mapM_cut1_prefix {A} (vs : list A) ps ls m :
  mapM (cut1 vs) ps = Ok ls -> Forall (fun ab : Z * Z => fst ab = snd ab \/ snd ab <= m) ps -> m <= zlen vs ->
  mapM (cut1 (take m vs)) ps = Ok ls.
Proof.
  revert ls. induction ps as [|[a b] ps IH]; intros ls H HF Hm; [exact H|].
  cbn [mapM] in *. apply bind_Ok in H as (y & Hy & H). apply bind_Ok in H as (ys & Hys & H). injection H as <-.
  inversion HF as [|? ? Hab HF']; subst. cbn in Hab.
  rewrite (cut1_prefix vs a b y m Hy Hab Hm). cbn. rewrite (IH ys Hys HF' Hm). reflexivity.
Qed.

Lemma pairs_firstn o n : pairs (firstn (S n) o) = firstn n (pairs o).
Proof.
  revert n. induction o as [|a o IH]; intros n; [destruct n; reflexivity|].
  destruct o as [|b o]; [destruct n; reflexivity|].
  destruct n as [|n]; [reflexivity|].
  change (firstn (S (S n)) (a :: b :: o)) with (a :: firstn (S n) (b :: o)).
  change (pairs (a :: b :: o)) with ((a, b) :: pairs (b :: o)). cbn [firstn].
  rewrite <- IH. cbn [firstn]. reflexivity.
Qed.
Lemma pairs_take o k : 0 <= k -> pairs (take (k + 1) o) = take k (pairs o).
Proof. intros Hk. unfold take. replace (Z.to_nat (k + 1)) with (S (Z.to_nat k)) by lia. apply pairs_firstn. Qed.

Lemma zip_firstn {A B} (l : list A) (m : list B) n : zip (firstn n l) (firstn n m) = firstn n (zip l m).
Proof.
  revert l m. induction n as [|n IH]; intros l m; [reflexivity|].
  destruct l as [|x l]; [reflexivity|]. destruct m as [|y m]; [reflexivity|]. cbn. rewrite IH. reflexivity.
Qed.
Lemma zip_take {A B} (l : list A) (m : list B) k : zip (take k l) (take k m) = take k (zip l m).
Proof. apply zip_firstn. Qed.

Lemma iota_nat_firstn s n k : (k <= n)%nat -> firstn k (iota_nat s n) = iota_nat s k.
Proof.
  revert s n. induction k as [|k IH]; intros s n Hk; [reflexivity|].
  destruct n as [|n]; [lia|]. cbn. rewrite IH by lia. reflexivity.
Qed.
Lemma iota_take n k : 0 <= k <= n -> take k (iota n) = iota k.
Proof. intros H. unfold take, iota. apply iota_nat_firstn. lia. Qed.

Lemma max_or0_ge l x : In x l -> x <= max_or0 l.
Proof.
  destruct l as [|y l]; [intros []|]. cbn [max_or0]. revert y. induction l as [|z l IH]; intros y [->|Hin]; cbn.
  - lia.
  - destruct Hin.
  - specialize (IH x (or_introl eq_refl)). cbn in IH. lia.
  - destruct Hin as [->|Hin]; [lia|]. specialize (IH y (or_intror Hin)). cbn in IH. lia.
Qed.
Lemma fold_max_bounds l y lo hi : lo <= y <= hi -> Forall (fun x => lo <= x <= hi) l -> lo <= fold_right Z.max y l <= hi.
Proof. intros Hy HF. induction HF as [|z l Hz _ IH]; cbn [fold_right]; lia. Qed.
Lemma max_or0_bounds l lo hi : lo <= 0 <= hi -> Forall (fun x => lo <= x <= hi) l -> lo <= max_or0 l <= hi.
Proof.
  intros H0 HF. destruct l as [|y l]; [cbn; lia|]. cbn [max_or0]. inversion HF as [|? ? Hy HF']; subst.
  apply fold_max_bounds; assumption.
Qed.
Lemma max_or0_nonempty_in l : l <> [] -> In (max_or0 l) l.
Proof.
  destruct l as [|y l]; [congruence|]. intros _. cbn [max_or0]. revert y. induction l as [|z l IH]; intros y; cbn; [auto|].
  destruct (IH y) as [E|Hin].
  - destruct (Z.max_spec z (fold_right Z.max y l)) as [[_ ->]|[_ ->]]; [left; exact E|right; left; reflexivity].
  - destruct (Z.max_spec z (fold_right Z.max y l)) as [[_ ->]|[_ ->]]; [right; right; exact Hin|right; left; reflexivity].
Qed.

Lemma min_list_ge d l n : n <= d -> Forall (fun x => n <= x) l -> n <= min_list d l.
Proof. intros Hd HF. unfold min_list. induction HF as [|x l Hx _ IH]; cbn [fold_right]; lia. Qed.

(* chunks of a prefix *)
Lemma chunks_nat_prefix {A} size : 0 < size -> forall q Q (vs : list A) m,
  (q <= Q)%nat -> Z.of_nat q * size <= m -> m <= zlen vs ->
  chunks_nat (take m vs) size q = firstn q (chunks_nat vs size Q).
Proof.
  intros Hs. induction q as [|q IH]; intros Q vs m HqQ Hm Hz; [reflexivity|].
  destruct Q as [|Q]; [lia|]. cbn [chunks_nat firstn]. f_equal.
  - apply take_take. lia.
  - rewrite drop_take by lia. apply IH; [lia|lia|].
    unfold drop, zlen. rewrite skipn_length. unfold zlen in Hz. lia.
Qed.

(* non-decreasing offsets: every entry is below the last *)
Lemma pairs_mono_last o : Forall (fun ab : Z * Z => fst ab <= snd ab) (pairs o) ->
  forall x, In x o -> x <= last o x.
Proof.
  induction o as [|a o IH]; intros HF x Hin; [destruct Hin|].
  destruct o as [|b o]; [destruct Hin as [->|[]]; cbn; lia|].
  change (pairs (a :: b :: o)) with ((a, b) :: pairs (b :: o)) in HF. inversion HF as [|? ? Hab HF']; subst. cbn in Hab.
  change (last (a :: b :: o) x) with (last (b :: o) x).
  destruct Hin as [->|Hin].
  - specialize (IH HF' b (or_introl eq_refl)).
    assert (E : forall d d', last (b :: o) d = last (b :: o) d') by (clear; revert b; induction o as [|c o IHo]; intros b d d'; [reflexivity|exact (IHo c d d')]).
    rewrite (E x b). lia.
  - exact (IH HF' x Hin).
Qed.
Lemma last_z_last o d : o <> [] -> last_z o = Ok (last o d).
Proof.
  intros Ho. unfold last_z, get. pose proof (zlen_nonneg o). destruct o as [|a o]; [congruence|].
  rewrite zlen_cons. destruct (zlen o + 1 - 1 <? 0) eqn:E; [pose proof (zlen_nonneg o); lia|].
  replace (Z.to_nat (zlen o + 1 - 1)) with (length o) by (unfold zlen; lia).
  clear. revert a. induction o as [|b o IH]; intros a; [reflexivity|]. cbn [length nth_error]. rewrite IH. reflexivity.
Qed.

(* ---------------------------------------------------------------- the type survives, for every node class *)
Definition ty_at (c : content) : Prop :=
  forall p t fixed len c', of_ftree fixed (to_ftree c t) len = Ok c' -> type_of_p p c' = type_of_p p c.

Lemma of_all_rec_ty fixed cs t len cs' : Forall ty_at cs ->
  of_all_rec fixed (to_ftree_all cs t) len = Ok cs' -> map (type_of_p None) cs' = map (type_of_p None) cs.
Proof.
  intros HF. revert cs'. induction HF as [|x xs Hx _ IH]; intros cs' H; cbn [to_ftree_all of_all_rec] in H.
  - injection H as <-. reflexivity.
  - apply bind_Ok in H as (c & Hc & H). apply bind_Ok in H as (cs0 & Hcs & H). injection H as <-.
    cbn [map]. rewrite (Hx None t fixed len c Hc), (IH cs0 Hcs). reflexivity.
Qed.
Lemma of_all_un_ty fixed tg ix cs cs' : Forall ty_at cs -> forall i,
  of_all_un fixed tg ix (to_ftree_all cs None) i = Ok cs' -> map (type_of_p None) cs' = map (type_of_p None) cs.
Proof.
  intros HF. revert cs'. induction HF as [|x xs Hx _ IH]; intros cs' i H; cbn [to_ftree_all of_all_un] in H.
  - injection H as <-. reflexivity.
  - apply bind_Ok in H as (c & Hc & H). apply bind_Ok in H as (cs0 & Hcs & H). injection H as <-.
    cbn [map]. rewrite (Hx None None fixed _ c Hc), (IH cs0 (i + 1) Hcs). reflexivity.
Qed.

Ltac ifs H := repeat match type of H with
                     | (if ?b then _ else _) = Ok _ => destruct b; [try discriminate H|try discriminate H]
                     end.

Lemma of_to_type c : ty_at c.
Proof.
  induction c using content_ind'; intros p tr fixed len c' Q.
  - cbn [to_ftree of_ftree] in Q. ifs Q; injection Q as <-; reflexivity.
  - cbn [to_ftree of_ftree] in Q. ifs Q. injection Q as <-. reflexivity.
  - cbn [to_ftree of_ftree] in Q. ifs Q. apply bind_Ok in Q as (l & _ & Q). apply bind_Ok in Q as (c0 & Hc & Q). injection Q as <-.
    cbn [type_of_p]. rewrite (IHc None None fixed l c0 Hc). reflexivity.
  - cbn [to_ftree of_ftree] in Q. ifs Q. apply bind_Ok in Q as (c0 & Hc & Q). ifs Q. injection Q as <-.
    cbn [type_of_p]. rewrite (IHc None None fixed _ c0 Hc). reflexivity.
  - cbn [to_ftree of_ftree] in Q. apply bind_Ok in Q as (c0 & Hc & Q). ifs Q. injection Q as <-.
    cbn [type_of_p]. rewrite (IHc None _ fixed _ c0 Hc). reflexivity.
  - cbn [to_ftree of_ftree] in Q. ifs Q. apply bind_Ok in Q as (c0 & Hc & Q). injection Q as <-.
    cbn [type_of_p]. exact (IHc None None fixed _ c0 Hc).
  - cbn [to_ftree of_ftree] in Q. ifs Q. apply bind_Ok in Q as (c0 & Hc & Q). injection Q as <-.
    cbn [type_of_p]. rewrite (IHc None None fixed _ c0 Hc). reflexivity.
  - cbn [to_ftree of_ftree] in Q. ifs Q. apply bind_Ok in Q as (c0 & Hc & Q). ifs Q. injection Q as <-.
    cbn [type_of_p]. rewrite (IHc None tr fixed _ c0 Hc). reflexivity.
  - destruct tr as [k|]; cbn [to_ftree of_ftree] in Q.
    + ifs Q. apply bind_Ok in Q as (c0 & Hc & Q). ifs Q. injection Q as <-.
      cbn [type_of_p]. rewrite (IHc None (Some k) fixed _ c0 Hc). reflexivity.
    + apply bind_Ok in Q as (c0 & Hc & Q). ifs Q. injection Q as <-.
      cbn [type_of_p]. rewrite (IHc None None fixed _ c0 Hc). reflexivity.
  - cbn [to_ftree of_ftree] in Q. apply bind_Ok in Q as (c0 & Hc & Q). injection Q as <-.
    cbn [type_of_p]. rewrite (IHc None tr fixed _ c0 Hc). reflexivity.
  - rewrite to_ftree_Union, of_ftree_Union in Q. ifs Q. cbv zeta in Q. apply bind_Ok in Q as (cs' & Hcs & Q). ifs Q. injection Q as <-.
    cbn [type_of_p]. f_equal. exact (of_all_un_ty fixed _ _ cs cs' H 0 Hcs).
  - rewrite to_ftree_Record, of_ftree_Record in Q. apply bind_Ok in Q as (cs' & Hcs & Q).
    pose proof (of_all_rec_ty fixed cs _ len cs' H Hcs) as E.
    destruct cs' as [|c0 rest]; ifs Q; injection Q as <-; cbn [type_of_p]; rewrite <- E; reflexivity.
  - cbn [to_ftree of_ftree] in Q. apply bind_Ok in Q as (c0 & Hc & Q). injection Q as <-.
    cbn [type_of_p]. exact (IHc arr tr fixed _ c0 Hc).
Qed.

(** from_buffers(to_buffers c) has the type of c: every node class, any layout (valid or not), both variants. *)
Theorem from_buffers_type_thm fixed c c' : from_buffers_gen fixed (to_buffers c) = Ok c' -> type_of c' = type_of c.
Proof. rewrite from_buffers_is_of_ftree. apply of_to_type. Qed.
