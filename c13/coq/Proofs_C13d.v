(** Proofs_C13d.v -- a small weakest-precondition calculus for "never out of bounds" ([noob_post]) and
    k_safe / k_spec / k_width theorems for the slicing kernels (array / range slices on lists and regular arrays). *)
From Coq Require Import ZArith List Bool Lia ZifyBool.
From AwkV Require Import Base.
From AwkKernels Require Import Kernels KLemmas Proofs_C13 Proofs_C13b Proofs_C13c.
Import ListNotations.
Open Scope Z_scope.

Ltac Zify.zify_post_hook ::= Z.to_euclidean_division_equations.

(* ================================================================================================ *)
(** * [noob_post r Q]: the computation [r] does not go out of bounds, and if it succeeds its result satisfies [Q]
      (an error message is allowed: it is the kernel's documented failure) *)
Definition noob_post {A} (r : kres A) (Q : A -> Prop) : Prop :=
  r <> KOob /\ forall a, r = KOk a -> Q a.

Lemma np_noob {A} (r : kres A) (Q : A -> Prop) : noob_post r Q -> r <> KOob.
Proof. intros (H & _); exact H. Qed.
Lemma np_ret {A} (a : A) (Q : A -> Prop) : Q a -> noob_post (KOk a) Q.
Proof. intros H. split; [congruence|]. intros b E; inversion E; subst; auto. Qed.
Lemma np_err {A} m (Q : A -> Prop) : noob_post (KErr m) Q.
Proof. split; congruence. Qed.
Lemma np_weaken {A} (r : kres A) (Q Q' : A -> Prop) : noob_post r Q -> (forall a, Q a -> Q' a) -> noob_post r Q'.
Proof. intros (H & K) W. split; auto. Qed.
Lemma np_bind {A B} (r : kres A) (f : A -> kres B) (R : A -> Prop) (Q : B -> Prop) :
  noob_post r R -> (forall a, R a -> noob_post (f a) Q) -> noob_post (kbind r f) Q.
Proof.
  intros (N & P) H. destruct r as [a| |]; cbn [kbind]; [apply H; auto|apply np_err|congruence].
Qed.
Lemma np_kmap {A B} (g : A -> B) (r : kres A) (Q : B -> Prop) : noob_post r (fun a => Q (g a)) -> noob_post (kmap g r) Q.
Proof.
  intros (N & P). destruct r as [a| |]; cbn [kmap]; [apply np_ret; auto|apply np_err|congruence].
Qed.

Lemma np_kget l i (Q : Z -> Prop) : 0 <= i < zlen l -> Q (at_ l i) -> noob_post (kget l i) Q.
Proof. intros H HQ. rewrite kget_at by auto. now apply np_ret. Qed.
Lemma np_bind_kget {B} l i (f : Z -> kres B) (Q : B -> Prop) :
  0 <= i < zlen l -> noob_post (f (at_ l i)) Q -> noob_post (kbind (kget l i) f) Q.
Proof. intros H HQ. rewrite kget_at by auto. exact HQ. Qed.
Lemma np_kupd l i v (Q : list Z -> Prop) :
  0 <= i < zlen l -> Q (set_nth l (Z.to_nat i) v) -> noob_post (kupd l i v) Q.
Proof. intros H HQ. rewrite kupd_ok by auto. now apply np_ret. Qed.
Lemma np_bind_kupd {B} l i v (f : list Z -> kres B) (Q : B -> Prop) :
  0 <= i < zlen l -> noob_post (f (set_nth l (Z.to_nat i) v)) Q -> noob_post (kbind (kupd l i v) f) Q.
Proof. intros H HQ. rewrite kupd_ok by auto. exact HQ. Qed.
Lemma np_kcheck b m (Q : unit -> Prop) : (b = false -> Q tt) -> noob_post (kcheck b m) Q.
Proof. intros H. destruct b; cbn [kcheck]; [apply np_err|apply np_ret; auto]. Qed.
Lemma np_bind_kcheck {B} b m (f : unit -> kres B) (Q : B -> Prop) :
  (b = false -> noob_post (f tt) Q) -> noob_post (kbind (kcheck b m) f) Q.
Proof. intros H. destruct b; cbn [kcheck kbind]; [apply np_err|auto]. Qed.

(** [for] loop with an invariant; after the loop the invariant holds at [max lo hi] *)
Lemma np_kfor {S} (body : Z -> S -> kres S) (P : Z -> S -> Prop) lo hi s :
  P lo s ->
  (forall j s, lo <= j < hi -> P j s -> noob_post (body j s) (P (j + 1))) ->
  noob_post (kfor lo hi body s) (P (Z.max lo hi)).
Proof.
  intros H0 Hstep. destruct (Z_le_gt_dec lo hi) as [Hle|Hgt].
  - rewrite Z.max_r by lia. destruct (kfor_noob body P lo hi s H0) as (N & K).
    + intros j s0 Hj Pj. exact (Hstep j s0 Hj Pj).
    + split; auto.
  - rewrite Z.max_l by lia. rewrite kfor_empty by lia. now apply np_ret.
Qed.
Lemma np_bind_kfor {S B} (body : Z -> S -> kres S) (P : Z -> S -> Prop) lo hi s (f : S -> kres B) (Q : B -> Prop) :
  P lo s ->
  (forall j s, lo <= j < hi -> P j s -> noob_post (body j s) (P (j + 1))) ->
  (forall s', P (Z.max lo hi) s' -> noob_post (f s') Q) ->
  noob_post (kbind (kfor lo hi body s) f) Q.
Proof. intros H0 Hstep Hf. eapply np_bind; [apply np_kfor; eauto|exact Hf]. Qed.

(** an invariant that does not depend on the loop counter *)
Lemma np_kfor_c {S} (body : Z -> S -> kres S) (P : S -> Prop) lo hi s :
  P s -> (forall j s, lo <= j < hi -> P s -> noob_post (body j s) P) -> noob_post (kfor lo hi body s) P.
Proof. intros H0 Hstep. exact (np_kfor body (fun _ => P) lo hi s H0 Hstep). Qed.

(** [while] loop with an invariant: running out of fuel is the error [MFuel], never an out-of-bounds access *)
Lemma np_kwhile {S} fuel (cond : S -> bool) (body : S -> kres S) (P : S -> Prop) s :
  P s -> (forall s, P s -> cond s = true -> noob_post (body s) P) ->
  noob_post (kwhile fuel cond body s) (fun s' => P s' /\ cond s' = false).
Proof.
  intros H0 Hstep. revert s H0. induction fuel as [|f IH]; intros s H0; cbn [kwhile].
  - destruct (cond s) eqn:C; [apply np_err|apply np_ret; auto].
  - destruct (cond s) eqn:C; [|apply np_ret; auto].
    eapply np_bind; [apply Hstep; auto|]. intros a Pa. now apply IH.
Qed.

(** the loop [kwhile (range_fuel ..)] never runs out of fuel when a measure decreases *)
Lemma kwhile_total {S} fuel (cond : S -> bool) (body : S -> kres S) (P : S -> Prop) (mu : S -> Z) s :
  P s -> mu s <= Z.of_nat fuel ->
  (forall s, P s -> cond s = true -> 0 < mu s /\ exists s', body s = KOk s' /\ P s' /\ mu s' < mu s) ->
  exists s', kwhile fuel cond body s = KOk s' /\ P s' /\ cond s' = false.
Proof.
  intros H0 Hmu Hstep. revert s H0 Hmu. induction fuel as [|f IH]; intros s H0 Hmu; cbn [kwhile].
  - destruct (cond s) eqn:C; [|eauto]. destruct (Hstep s H0 C) as (M & _). lia.
  - destruct (cond s) eqn:C; [|eauto]. destruct (Hstep s H0 C) as (M & s1 & E & P1 & D).
    rewrite E. cbn [kbind]. apply IH; auto. lia.
Qed.

Ltac np_side := try solve [cbn [fst snd] in *; rewrite ?zlen_set_nth in *; lia].
Ltac np_step :=
  lazymatch goal with
  | |- noob_post (kbind (kget _ _) _) _ => apply np_bind_kget; [np_side | cbv beta]
  | |- noob_post (kbind (kupd _ _ _) _) _ => apply np_bind_kupd; [np_side | cbv beta]
  | |- noob_post (kbind (kcheck _ _) _) _ => apply np_bind_kcheck; intros ?; cbv beta
  | |- noob_post (kbind (KOk _) _) _ => cbn [kbind]
  | |- noob_post (kbind (if ?b then _ else _) _) _ => destruct b eqn:?
  | |- noob_post (KOk _) _ => apply np_ret
  | |- noob_post (KErr _) _ => apply np_err
  | |- noob_post (kupd _ _ _) _ => apply np_kupd; [np_side|]
  | |- noob_post (kget _ _) _ => apply np_kget; [np_side|]
  | |- noob_post (kcheck _ _) _ => apply np_kcheck; intros ?
  | |- noob_post (if ?b then _ else _) _ => destruct b eqn:?
  end.
Ltac np_auto := repeat np_step.

(* ================================================================================================ *)
(** * awkward_regularize_arrayslice: in place, negative entries are counted from the end *)

Theorem regularize_arrayslice_safe tT flathead lenflathead length :
  lenflathead <= zlen flathead -> regularize_arrayslice tT flathead lenflathead length <> KOob.
Proof.
  intros H. unfold regularize_arrayslice. eapply np_noob.
  apply (np_kfor_c _ (fun b => zlen b = zlen flathead)); auto.
  intros j s Hj Ls. np_auto; auto. now rewrite zlen_set_nth.
Qed.

Example regularize_arrayslice_example :
  regularize_arrayslice (TI 64) [-1; 0; 2; -3] 4 3 = KOk [2; 0; 2; 0].
Proof. vm_compute. reflexivity. Qed.

(** every entry in range: the entries normalised; the tail of the buffer is untouched *)
Theorem regularize_arrayslice_spec flathead length :
  (forall i, 0 <= i < zlen flathead -> - length <= at_ flathead i < length) ->
  regularize_arrayslice TIdeal flathead (zlen flathead) length
  = KOk (map (fun x => if x <? 0 then x + length else x) flathead).
Proof.
  intros Hr. pose proof (zlen_nonneg flathead) as Hn. unfold regularize_arrayslice.
  set (g := fun x => if x <? 0 then x + length else x).
  destruct (kfor_inv
    (fun i buf => let* x := kget buf i in
                  let* buf := (if x <? 0 then kupd buf i (wrap TIdeal (x + length)) else KOk buf) in
                  let* y := kget buf i in
                  let* _ := kcheck ((y <? 0) || (length <=? y)) MIndexOutOfRange in KOk buf)
    (fun j b => zlen b = zlen flathead /\
                forall q, 0 <= q -> at_ b q = if q <? j then g (at_ flathead q) else at_ flathead q)
    0 (zlen flathead) flathead) as (s' & E & L & A); auto.
  - split; auto. intros q Hq. now replace (q <? 0) with false by lia.
  - intros j b Hj (L & A). specialize (Hr j Hj).
    rewrite (kget_at b) by lia. cbn [kbind]. rewrite (A j) by lia. replace (j <? j) with false by lia.
    cbn [wrap].
    assert (Step : forall b', zlen b' = zlen flathead ->
              (forall q, 0 <= q -> at_ b' q = if q =? j then g (at_ flathead j) else at_ b q) ->
              exists s', (let* y := kget b' j in
                          let* _ := kcheck ((y <? 0) || (length <=? y)) MIndexOutOfRange in KOk b') = KOk s' /\
                         zlen s' = zlen flathead /\
                         forall q, 0 <= q -> at_ s' q = if q <? j + 1 then g (at_ flathead q) else at_ flathead q).
    { intros b' L' A'. rewrite (kget_at b') by lia. cbn [kbind]. rewrite (A' j) by lia. rewrite Z.eqb_refl.
      replace ((g (at_ flathead j) <? 0) || (length <=? g (at_ flathead j))) with false
        by (unfold g; destruct (at_ flathead j <? 0) eqn:E0; lia).
      cbn [kcheck kbind]. exists b'. split; auto. split; auto.
      intros q Hq. rewrite A' by lia. destruct (q =? j) eqn:E1.
      - replace (q <? j + 1) with true by lia. now replace q with j by lia.
      - rewrite A by lia. destruct (q <? j) eqn:E2; [replace (q <? j + 1) with true by lia|replace (q <? j + 1) with false by lia]; auto. }
    destruct (at_ flathead j <? 0) eqn:E0.
    + destruct (kupd b j (at_ flathead j + length)) as [b'| |] eqn:U.
      2:{ exfalso; eapply kupd_not_err; eauto. } 2:{ apply kupd_oob in U; lia. }
      cbn [kbind]. destruct (kupd_at _ _ _ _ U) as (L' & A'). apply Step; [lia|].
      intros q Hq. rewrite A' by lia. unfold g. now rewrite E0.
    + cbn [kbind]. apply Step; auto. intros q Hq. destruct (q =? j) eqn:E1; auto.
      replace q with j by lia. rewrite A by lia. replace (j <? j) with false by lia. unfold g. now rewrite E0.
  - rewrite E. f_equal. apply at_ext; [rewrite zlen_map; lia|].
    intros q Hq. rewrite A by lia. destruct (q <? zlen flathead) eqn:E1.
    + unfold at_ at 2. rewrite nth_indep with (d' := g 0) by (rewrite map_length; unfold zlen in *; lia).
      now rewrite map_nth.
    + unfold at_. rewrite !nth_overflow; auto; rewrite ?map_length; unfold zlen in *; lia.
Qed.

(** a 32-bit (or any other) index buffer gives the same result as the ideal one when x + length is representable *)
Theorem regularize_arrayslice_width tT flathead lenflathead length :
  lenflathead <= zlen flathead ->
  (forall i, 0 <= i < lenflathead -> fits tT (at_ flathead i + length)) ->
  regularize_arrayslice tT flathead lenflathead length = regularize_arrayslice TIdeal flathead lenflathead length.
Proof.
  intros Hl Hf. unfold regularize_arrayslice.
  assert (G : forall m i0 b, (forall q, i0 <= q -> at_ b q = at_ flathead q) -> zlen b = zlen flathead ->
            i0 + Z.of_nat m <= lenflathead -> 0 <= i0 ->
            kfor_nat m i0 (fun i buf => let* x := kget buf i in
                  let* buf := (if x <? 0 then kupd buf i (wrap tT (x + length)) else KOk buf) in
                  let* y := kget buf i in
                  let* _ := kcheck ((y <? 0) || (length <=? y)) MIndexOutOfRange in KOk buf) b
            = kfor_nat m i0 (fun i buf => let* x := kget buf i in
                  let* buf := (if x <? 0 then kupd buf i (wrap TIdeal (x + length)) else KOk buf) in
                  let* y := kget buf i in
                  let* _ := kcheck ((y <? 0) || (length <=? y)) MIndexOutOfRange in KOk buf) b).
  { induction m; intros i0 b A L Hm H0; cbn [kfor_nat]; auto.
    rewrite (kget_at b) by lia. cbn [kbind]. rewrite (A i0) by lia. cbn [wrap].
    rewrite (Hf i0) by lia.
    match goal with |- kbind ?r _ = _ => destruct r as [b1| |] eqn:E1; cbn [kbind]; auto end.
    apply IHm; try lia.
    - intros q Hq.
      assert (Z1 : zlen b1 = zlen b /\ forall q, i0 < q -> at_ b1 q = at_ b q).
      { apply kbind_ok in E1. destruct E1 as (b2 & E2 & E3). apply kbind_ok in E3. destruct E3 as (y & _ & E4).
        apply kbind_ok in E4. destruct E4 as (u & _ & E5). inversion E5; subst b2.
        destruct (at_ flathead i0 <? 0).
        - destruct (kupd_at _ _ _ _ E2) as (L2 & A2). split; auto. intros q0 Hq0. rewrite A2 by lia.
          now replace (q0 =? i0) with false by lia.
        - inversion E2; subst. auto. }
      destruct Z1 as (_ & Z1). rewrite Z1 by lia. apply A. lia.
    - apply kbind_ok in E1. destruct E1 as (b2 & E2 & E3). apply kbind_ok in E3. destruct E3 as (y & _ & E4).
      apply kbind_ok in E4. destruct E4 as (u & _ & E5). inversion E5; subst b2.
      destruct (at_ flathead i0 <? 0); [apply kupd_zlen in E2; lia|inversion E2; subst; auto]. }
  unfold kfor. destruct (Z_le_gt_dec lenflathead 0).
  - replace (Z.to_nat (lenflathead - 0)) with O by lia. reflexivity.
  - apply G; auto; lia.
Qed.

(* ================================================================================================ *)
(** * array slices on lists: awkward_ListArray_getitem_next_array(_advanced) *)

Theorem ListArray_getitem_next_array_safe tocarry toadvanced starts stops fromarray lenstarts lenarray lencontent :
  lenstarts <= zlen starts -> lenstarts <= zlen stops -> lenarray <= zlen fromarray ->
  lenstarts * lenarray <= zlen tocarry -> lenstarts * lenarray <= zlen toadvanced ->
  ListArray_getitem_next_array tocarry toadvanced starts stops fromarray lenstarts lenarray lencontent <> KOob.
Proof.
  intros H1 H2 H3 H4 H5. unfold ListArray_getitem_next_array. eapply np_noob.
  apply (np_kfor_c _ (fun st : list Z * list Z => zlen (fst st) = zlen tocarry /\ zlen (snd st) = zlen toadvanced)); auto.
  intros i st Hi (L1 & L2). np_auto.
  apply (np_kfor_c _ (fun st : list Z * list Z => zlen (fst st) = zlen tocarry /\ zlen (snd st) = zlen toadvanced)); auto.
  intros j [tc ta] Hj (L3 & L4). cbn [fst snd] in *.
  assert (0 <= i * lenarray + j < lenstarts * lenarray) by nia.
  np_auto. cbn [fst snd]. now rewrite !zlen_set_nth.
Qed.

Example ListArray_getitem_next_array_example :
  ListArray_getitem_next_array [9;9;9;9] [9;9;9;9] [0; 3] [3; 5] [-1; 0] 2 2 5 = KOk ([2; 0; 4; 3], [0; 1; 0; 1]).
Proof. vm_compute. reflexivity. Qed.

Theorem ListArray_getitem_next_array_advanced_safe tocarry toadvanced starts stops fromarray fromadvanced lenstarts lenarray lencontent :
  lenstarts <= zlen starts -> lenstarts <= zlen stops -> lenstarts <= zlen fromadvanced ->
  lenstarts <= zlen tocarry -> lenstarts <= zlen toadvanced ->
  (forall i, 0 <= i < lenstarts -> 0 <= at_ fromadvanced i < zlen fromarray) ->
  ListArray_getitem_next_array_advanced tocarry toadvanced starts stops fromarray fromadvanced lenstarts lenarray lencontent <> KOob.
Proof.
  intros H1 H2 H3 H4 H5 Ha. unfold ListArray_getitem_next_array_advanced. eapply np_noob.
  apply (np_kfor_c _ (fun st : list Z * list Z => zlen (fst st) = zlen tocarry /\ zlen (snd st) = zlen toadvanced)); auto.
  intros i [tc ta] Hi (L1 & L2). cbn [fst snd] in *. specialize (Ha i Hi).
  np_auto. cbn [fst snd]. now rewrite !zlen_set_nth.
Qed.

Example ListArray_getitem_next_array_advanced_example :
  ListArray_getitem_next_array_advanced [9;9] [9;9] [0; 3] [3; 5] [-1; 0] [1; 0] 2 2 5 = KOk ([0; 4], [1; 0]).
Proof. vm_compute. reflexivity. Qed.

(* ================================================================================================ *)
(** * array slices on regular arrays *)

Theorem RegularArray_getitem_next_array_safe tocarry toadvanced fromarray length lenarray size :
  lenarray <= zlen fromarray -> length * lenarray <= zlen tocarry -> length * lenarray <= zlen toadvanced ->
  RegularArray_getitem_next_array tocarry toadvanced fromarray length lenarray size <> KOob.
Proof.
  intros H3 H4 H5. unfold RegularArray_getitem_next_array. eapply np_noob.
  apply (np_kfor_c _ (fun st : list Z * list Z => zlen (fst st) = zlen tocarry /\ zlen (snd st) = zlen toadvanced)); auto.
  intros i st Hi (L1 & L2).
  apply (np_kfor_c _ (fun st : list Z * list Z => zlen (fst st) = zlen tocarry /\ zlen (snd st) = zlen toadvanced)); auto.
  intros j [tc ta] Hj (L3 & L4). cbn [fst snd] in *.
  assert (0 <= i * lenarray + j < length * lenarray) by nia.
  np_auto. cbn [fst snd]. now rewrite !zlen_set_nth.
Qed.

Example RegularArray_getitem_next_array_example :
  RegularArray_getitem_next_array [9;9;9;9] [9;9;9;9] [2; 0] 2 2 3 = KOk ([2; 0; 5; 3], [0; 1; 0; 1]).
Proof. vm_compute. reflexivity. Qed.

Theorem RegularArray_getitem_next_array_advanced_safe tocarry toadvanced fromadvanced fromarray length lenarray size :
  length <= zlen fromadvanced -> length <= zlen tocarry -> length <= zlen toadvanced ->
  (forall i, 0 <= i < length -> 0 <= at_ fromadvanced i < zlen fromarray) ->
  RegularArray_getitem_next_array_advanced tocarry toadvanced fromadvanced fromarray length lenarray size <> KOob.
Proof.
  intros H3 H4 H5 Ha. unfold RegularArray_getitem_next_array_advanced. eapply np_noob.
  apply (np_kfor_c _ (fun st : list Z * list Z => zlen (fst st) = zlen tocarry /\ zlen (snd st) = zlen toadvanced)); auto.
  intros i [tc ta] Hi (L1 & L2). cbn [fst snd] in *. specialize (Ha i Hi).
  np_auto. cbn [fst snd]. now rewrite !zlen_set_nth.
Qed.

Example RegularArray_getitem_next_array_advanced_example :
  RegularArray_getitem_next_array_advanced [9;9] [9;9] [1; 0] [2; 0] 2 2 3 = KOk ([0; 5], [1; 0]).
Proof. vm_compute. reflexivity. Qed.

Theorem RegularArray_getitem_next_array_regularize_safe toarray fromarray lenarray size :
  lenarray <= zlen fromarray -> lenarray <= zlen toarray ->
  RegularArray_getitem_next_array_regularize toarray fromarray lenarray size <> KOob.
Proof.
  intros H1 H2. unfold RegularArray_getitem_next_array_regularize. eapply np_noob.
  apply (np_kfor_c _ (fun b => zlen b = zlen toarray)); auto.
  intros j s Hj Ls. np_auto; rewrite ?zlen_set_nth; auto.
Qed.

Example RegularArray_getitem_next_array_regularize_example :
  RegularArray_getitem_next_array_regularize [9;9;9] [-1; 0; 2] 3 3 = KOk [2; 0; 2].
Proof. vm_compute. reflexivity. Qed.

Theorem RegularArray_getitem_next_range_spreadadvanced_safe toadvanced fromadvanced length nextsize :
  length <= zlen fromadvanced -> length * nextsize <= zlen toadvanced ->
  RegularArray_getitem_next_range_spreadadvanced toadvanced fromadvanced length nextsize <> KOob.
Proof.
  intros H1 H2. unfold RegularArray_getitem_next_range_spreadadvanced. eapply np_noob.
  apply (np_kfor_c _ (fun b => zlen b = zlen toadvanced)); auto.
  intros i s Hi Ls. np_auto.
  apply (np_kfor_c _ (fun b => zlen b = zlen toadvanced)); auto.
  intros j s' Hj Ls'. assert (0 <= i * nextsize + j < length * nextsize) by nia.
  np_auto. now rewrite zlen_set_nth.
Qed.

Example RegularArray_getitem_next_range_spreadadvanced_example :
  RegularArray_getitem_next_range_spreadadvanced [9;9;9;9] [5; 7] 2 2 = KOk [5; 5; 7; 7].
Proof. vm_compute. reflexivity. Qed.

(* ================================================================================================ *)
(** * range slices on lists.  The C loop  for (j = rs; j < re (or j > re); j += step)  is a fuelled [kwhile];
      [range_iter] counts its iterations by the same recursion, so that the counting kernel
      (_carrylength) and the filling kernel (_range) can be related without a closed form. *)

Definition range_cond (step re j : Z) : bool := if 0 <? step then j <? re else re <? j.
Fixpoint range_iter (fuel : nat) (step j re : Z) : Z :=
  match fuel with
  | O => 0
  | S f => if range_cond step re j then 1 + range_iter f step (j + step) re else 0
  end.
Lemma range_iter_nonneg fuel step j re : 0 <= range_iter fuel step j re.
Proof. revert j; induction fuel; intros j; cbn [range_iter]; [lia|]. destruct (range_cond step re j); [specialize (IHfuel (j + step))|]; lia. Qed.

Lemma kwhile_ext {S} fuel (cond : S -> bool) (b1 b2 : S -> kres S) s :
  (forall s, b1 s = b2 s) -> kwhile fuel cond b1 s = kwhile fuel cond b2 s.
Proof.
  intros H. revert s; induction fuel; intros s; cbn [kwhile]; auto.
  destruct (cond s); auto. rewrite H. destruct (b2 s); cbn [kbind]; auto.
Qed.

(** no out-of-bounds access in the range loop if none in the first [range_iter] calls of [f] *)
Lemma range_while_np {X} (f : X -> Z -> kres X) (P : Z -> X -> Prop) step re :
  forall fuel j k x,
  P k x ->
  (forall k' x j', k <= k' < k + range_iter fuel step j re -> P k' x -> noob_post (f x j') (P (k' + 1))) ->
  noob_post (kwhile fuel (fun s : X * Z => if 0 <? step then snd s <? re else re <? snd s)
                    (fun s => let '(x, j) := s in let* x' := f x j in KOk (x', j + step)) (x, j))
            (fun s => P (k + range_iter fuel step j re) (fst s)).
Proof.
  induction fuel as [|fuel IH]; intros j k x Pk Hf; cbn [kwhile range_iter snd].
  - fold (range_cond step re j). destruct (range_cond step re j); [apply np_err|apply np_ret]. cbn [fst]. now rewrite Z.add_0_r.
  - fold (range_cond step re j). cbn [range_iter] in Hf. destruct (range_cond step re j) eqn:C.
    + pose proof (range_iter_nonneg fuel step (j + step) re) as NN.
      apply np_bind with (R := fun s : X * Z => P (k + 1) (fst s) /\ snd s = j + step).
      * eapply np_bind; [apply (Hf k x j); [lia|exact Pk]|]. intros x' Px'. apply np_ret. cbn [fst snd]. auto.
      * intros [x' j'] (Px' & Ej). cbn [fst snd] in *. subst j'.
        eapply np_weaken; [apply (IH (j + step) (k + 1) x' Px')|].
        -- intros k' x0 j' Hk' P0. apply Hf; auto. lia.
        -- intros a Pa. cbv beta in Pa. now rewrite Z.add_assoc.
    + apply np_ret. cbn [fst]. now rewrite Z.add_0_r.
Qed.

(** with a non-zero step the fuel [|re - rs|] suffices: the loop ends normally after [range_iter] calls of [f] *)
Lemma range_while_ok {X} (f : X -> Z -> kres X) (P : Z -> X -> Prop) step re :
  step <> 0 ->
  forall fuel j k x,
  (if 0 <? step then re - j else j - re) <= Z.of_nat fuel ->
  P k x ->
  (forall k' x j', k <= k' < k + range_iter fuel step j re -> P k' x -> exists x', f x j' = KOk x' /\ P (k' + 1) x') ->
  exists s', kwhile fuel (fun s : X * Z => if 0 <? step then snd s <? re else re <? snd s)
                    (fun s => let '(x, j) := s in let* x' := f x j in KOk (x', j + step)) (x, j) = KOk s'
             /\ P (k + range_iter fuel step j re) (fst s').
Proof.
  intros Hs. induction fuel as [|fuel IH]; intros j k x Hfuel Pk Hf; cbn [kwhile range_iter snd].
  - fold (range_cond step re j). destruct (range_cond step re j) eqn:C.
    + unfold range_cond in C. destruct (0 <? step); lia.
    + exists (x, j). cbn [fst]. rewrite Z.add_0_r. auto.
  - fold (range_cond step re j). cbn [range_iter] in Hf. destruct (range_cond step re j) eqn:C.
    + pose proof (range_iter_nonneg fuel step (j + step) re) as NN.
      destruct (Hf k x j) as (x' & E & Px'); [lia|exact Pk|]. rewrite E. cbn [kbind].
      destruct (IH (j + step) (k + 1) x') as (s' & E' & Ps'); auto.
      * unfold range_cond in C. destruct (0 <? step) eqn:S0; lia.
      * intros k' x0 j' Hk' P0. apply Hf; auto. lia.
      * exists s'. split; auto. now rewrite Z.add_assoc.
    + exists (x, j). cbn [fst]. rewrite Z.add_0_r. auto.
Qed.

(** number of carry entries produced for one list, and for the first [n] lists *)
Definition range_len (tC : ity) (start stop step fstart fstop : Z) : Z :=
  let '(rs, re) := regularize_rangeslice start stop (0 <? step) (negb (start =? kSliceNone))
                                         (negb (stop =? kSliceNone)) (wrap tC (fstop - fstart)) in
  range_iter (range_fuel rs re) step rs re.
Fixpoint range_total (tC : ity) (start stop step : Z) (starts stops : list Z) (n : nat) : Z :=
  match n with
  | O => 0
  | S n' => range_total tC start stop step starts stops n'
            + range_len tC start stop step (at_ starts (Z.of_nat n')) (at_ stops (Z.of_nat n'))
  end.
Lemma range_len_nonneg tC start stop step a b : 0 <= range_len tC start stop step a b.
Proof. unfold range_len. destruct (regularize_rangeslice _ _ _ _ _ _). apply range_iter_nonneg. Qed.
Lemma range_total_nonneg tC start stop step starts stops n : 0 <= range_total tC start stop step starts stops n.
Proof. induction n; cbn [range_total]; [lia|]. pose proof (range_len_nonneg tC start stop step (at_ starts (Z.of_nat n)) (at_ stops (Z.of_nat n))). lia. Qed.
Lemma range_total_mono tC start stop step starts stops n m :
  (n <= m)%nat -> range_total tC start stop step starts stops n <= range_total tC start stop step starts stops m.
Proof.
  induction 1; [lia|]. cbn [range_total].
  pose proof (range_len_nonneg tC start stop step (at_ starts (Z.of_nat m)) (at_ stops (Z.of_nat m))). lia.
Qed.
Lemma range_total_S tC start stop step starts stops i :
  0 <= i ->
  range_total tC start stop step starts stops (Z.to_nat (i + 1))
  = range_total tC start stop step starts stops (Z.to_nat i) + range_len tC start stop step (at_ starts i) (at_ stops i).
Proof. intros H. replace (Z.to_nat (i + 1)) with (S (Z.to_nat i)) by lia. cbn [range_total]. now rewrite Z2Nat.id by lia. Qed.

(* awkward_ListArray_getitem_next_range: the carry buffer must hold what _carrylength counted *)
Theorem ListArray_getitem_next_range_safe tC tT tooffsets tocarry starts stops lenstarts start stop step :
  1 <= zlen tooffsets -> lenstarts + 1 <= zlen tooffsets -> lenstarts <= zlen starts -> lenstarts <= zlen stops ->
  range_total tC start stop step starts stops (Z.to_nat lenstarts) <= zlen tocarry ->
  ListArray_getitem_next_range tC tT tooffsets tocarry starts stops lenstarts start stop step <> KOob.
Proof.
  intros H0 H1 H2 H3 Hcap. unfold ListArray_getitem_next_range. eapply np_noob. np_step.
  apply np_bind_kfor with
    (P := fun i (st : list Z * (list Z * Z)) =>
            zlen (fst st) = zlen tooffsets /\ zlen (fst (snd st)) = zlen tocarry /\
            snd (snd st) = range_total tC start stop step starts stops (Z.to_nat i))
    (Q := fun _ : list Z * list Z => True).
  - cbn [fst snd]. rewrite zlen_set_nth. auto.
  - intros i [off [tc k]] Hi (L1 & L2 & K). cbn [fst snd] in *. np_auto.
    pose proof (range_total_S tC start stop step starts stops i (proj1 Hi)) as TS.
    pose proof (range_total_mono tC start stop step starts stops (Z.to_nat (i + 1)) (Z.to_nat lenstarts)) as TM.
    pose proof (range_total_nonneg tC start stop step starts stops (Z.to_nat i)) as TN.
    unfold range_len in TS.
    destruct (regularize_rangeslice start stop (0 <? step) (negb (start =? kSliceNone)) (negb (stop =? kSliceNone))
                (wrap tC (at_ stops i - at_ starts i))) as [rs re].
    eapply np_bind.
    + apply (range_while_np (fun ck j => kpush ck (wrap tT (at_ starts i + j)))
               (fun k' (ck : list Z * Z) => zlen (fst ck) = zlen tocarry /\ snd ck = k') step re
               (range_fuel rs re) rs k (tc, k)); [cbn [fst snd]; auto|].
      intros k' [tc' kk] j' Hk' (L3 & K3). cbn [fst snd] in *. subst kk. unfold kpush.
      np_auto. cbn [fst snd]. now rewrite zlen_set_nth.
    + intros [[tc' kk] j'] (L3 & K3). cbn [fst snd] in *. np_auto. cbn [fst snd].
      rewrite zlen_set_nth. split; auto. split; auto. lia.
  - intros s' _. now apply np_ret.
Qed.

Example ListArray_getitem_next_range_example :
  ListArray_getitem_next_range (TI 64) (TI 64) [9;9;9] [9;9;9;9] [0; 3] [3; 6] 2 0 kSliceNone 2
  = KOk ([0; 2; 4], [0; 2; 3; 5]).
Proof. vm_compute. reflexivity. Qed.
Example ListArray_getitem_next_range_example_neg :
  ListArray_getitem_next_range (TI 64) (TI 64) [9;9;9] [9;9;9;9;9;9] [0; 3] [3; 6] 2 kSliceNone kSliceNone (-1)
  = KOk ([0; 3; 6], [2; 1; 0; 5; 4; 3]).
Proof. vm_compute. reflexivity. Qed.

(* awkward_ListArray_getitem_next_range_carrylength *)
Theorem ListArray_getitem_next_range_carrylength_safe tC carrylength starts stops lenstarts start stop step :
  1 <= zlen carrylength -> lenstarts <= zlen starts -> lenstarts <= zlen stops ->
  ListArray_getitem_next_range_carrylength tC carrylength starts stops lenstarts start stop step <> KOob.
Proof.
  intros H0 H2 H3. unfold ListArray_getitem_next_range_carrylength. eapply np_noob. np_step.
  apply (np_kfor_c _ (fun cl => zlen cl = zlen carrylength)); [now rewrite zlen_set_nth|].
  intros i cl Hi L. np_auto.
  destruct (regularize_rangeslice start stop (0 <? step) (negb (start =? kSliceNone)) (negb (stop =? kSliceNone))
              (wrap tC (at_ stops i - at_ starts i))) as [rs re].
  eapply np_bind.
  - apply (np_kwhile _ _ _ (fun s : list Z * Z => zlen (fst s) = zlen carrylength)); [cbn [fst]; auto|].
    intros [cl' j] L' _. cbn [fst] in *. np_auto. cbn [fst]. now rewrite zlen_set_nth.
  - intros [cl' j] (L' & _). now apply np_ret.
Qed.

Lemma set_nth_0_twice l a b : set_nth (set_nth l 0 a) 0 b = set_nth l 0 b.
Proof. destruct l; reflexivity. Qed.
Lemma at_set_nth_0 l a : 1 <= zlen l -> at_ (set_nth l 0 a) 0 = a.
Proof. destruct l; [rewrite zlen_nil; lia|reflexivity]. Qed.

(** the carry length is the number of iterations of all range loops: exactly the bound of [_range_safe] *)
Theorem ListArray_getitem_next_range_carrylength_spec tC carrylength starts stops lenstarts start stop step :
  step <> 0 -> 0 <= lenstarts ->
  1 <= zlen carrylength -> lenstarts <= zlen starts -> lenstarts <= zlen stops ->
  ListArray_getitem_next_range_carrylength tC carrylength starts stops lenstarts start stop step
  = KOk (set_nth carrylength 0 (range_total tC start stop step starts stops (Z.to_nat lenstarts))).
Proof.
  intros Hs Hn H0 H2 H3. unfold ListArray_getitem_next_range_carrylength.
  rewrite kupd_ok by lia. cbn [kbind Z.to_nat].
  match goal with |- kfor 0 lenstarts ?b _ = _ =>
    destruct (kfor_inv b (fun i cl => cl = set_nth carrylength 0 (range_total tC start stop step starts stops (Z.to_nat i)))
                0 lenstarts (set_nth carrylength 0 0)) as (s' & E & P); auto end.
  - intros i cl Hi ->. rewrite (kget_at starts), (kget_at stops) by lia. cbn [kbind].
    rewrite (range_total_S tC start stop step starts stops i) by lia. unfold range_len.
    destruct (regularize_rangeslice start stop (0 <? step) (negb (start =? kSliceNone)) (negb (stop =? kSliceNone))
                (wrap tC (at_ stops i - at_ starts i))) as [rs re].
    set (T := range_total tC start stop step starts stops (Z.to_nat i)).
    rewrite (kwhile_ext _ _ _ (fun s : list Z * Z => let '(x, j) := s in
               let* x' := (fun (cl : list Z) (_ : Z) => let* c := kget cl 0 in kupd cl 0 (c + 1)) x j in KOk (x', j + step))).
    2:{ intros [cl j]. destruct (kget cl 0); cbn [kbind]; auto. }
    destruct (range_while_ok (fun (cl : list Z) (_ : Z) => let* c := kget cl 0 in kupd cl 0 (c + 1))
                (fun k cl => cl = set_nth carrylength 0 k) step re Hs (range_fuel rs re) rs T (set_nth carrylength 0 T))
      as (r & Er & Pr); auto.
    + unfold range_fuel. destruct (0 <? step); lia.
    + intros k' x j' _ ->. rewrite (kget_at (set_nth carrylength 0 k')) by (rewrite zlen_set_nth; lia). cbn [kbind].
      rewrite at_set_nth_0 by lia. rewrite kupd_ok by (rewrite zlen_set_nth; lia). cbn [Z.to_nat].
      rewrite set_nth_0_twice. eauto.
    + rewrite Er. cbn [kbind]. eauto.
  - now rewrite E, P.
Qed.

(* awkward_ListArray_getitem_next_range_counts:  total = offsets[n] - offsets[0] (as a telescoping sum) *)
Theorem ListArray_getitem_next_range_counts_safe tC total fromoffsets lenstarts :
  1 <= zlen total -> lenstarts + 1 <= zlen fromoffsets ->
  ListArray_getitem_next_range_counts tC total fromoffsets lenstarts <> KOob.
Proof.
  intros H0 H1. unfold ListArray_getitem_next_range_counts. eapply np_noob. np_step.
  apply (np_kfor_c _ (fun t => zlen t = zlen total)); [now rewrite zlen_set_nth|].
  intros i t Hi L. np_auto. now rewrite zlen_set_nth.
Qed.

Theorem ListArray_getitem_next_range_counts_spec tC total fromoffsets lenstarts :
  0 <= lenstarts -> 1 <= zlen total -> lenstarts + 1 <= zlen fromoffsets ->
  (forall i, 0 <= i <= lenstarts -> fits i64 (at_ fromoffsets i - at_ fromoffsets 0)) ->
  ListArray_getitem_next_range_counts tC total fromoffsets lenstarts
  = KOk (set_nth total 0 (at_ fromoffsets lenstarts - at_ fromoffsets 0)).
Proof.
  intros Hn H0 H1 Hf. unfold ListArray_getitem_next_range_counts.
  rewrite kupd_ok by lia. cbn [kbind Z.to_nat].
  match goal with |- kfor 0 lenstarts ?b _ = _ =>
    destruct (kfor_inv b (fun i t => t = set_nth total 0 (at_ fromoffsets i - at_ fromoffsets 0))
                0 lenstarts (set_nth total 0 0)) as (s' & E & P); auto end.
  - f_equal. lia.
  - intros i t Hi ->. rewrite (kget_at fromoffsets (i + 1)), (kget_at fromoffsets i) by lia. cbn [kbind].
    rewrite (kget_at (set_nth total 0 _)) by (rewrite zlen_set_nth; lia). cbn [kbind].
    rewrite at_set_nth_0 by lia. rewrite kupd_ok by (rewrite zlen_set_nth; lia). cbn [Z.to_nat].
    rewrite set_nth_0_twice. eexists; split; eauto. f_equal.
    replace (at_ fromoffsets i - at_ fromoffsets 0 + at_ fromoffsets (i + 1) - at_ fromoffsets i)
      with (at_ fromoffsets (i + 1) - at_ fromoffsets 0) by lia.
    apply Hf. lia.
  - now rewrite E, P.
Qed.

Example ListArray_getitem_next_range_counts_example :
  ListArray_getitem_next_range_counts (TI 64) [9] [2; 4; 4; 7] 3 = KOk [5].
Proof. vm_compute. reflexivity. Qed.

(* awkward_ListArray_getitem_next_range_spreadadvanced *)
Theorem ListArray_getitem_next_range_spreadadvanced_safe tC toadvanced fromadvanced fromoffsets lenstarts :
  lenstarts + 1 <= zlen fromoffsets -> lenstarts <= zlen fromadvanced ->
  (forall i, 0 <= i < lenstarts ->
     0 <= at_ fromoffsets i /\
     at_ fromoffsets i + wrap tC (at_ fromoffsets (i + 1) - at_ fromoffsets i) <= zlen toadvanced) ->
  ListArray_getitem_next_range_spreadadvanced tC toadvanced fromadvanced fromoffsets lenstarts <> KOob.
Proof.
  intros H1 H2 Hr. unfold ListArray_getitem_next_range_spreadadvanced. eapply np_noob.
  apply (np_kfor_c _ (fun b => zlen b = zlen toadvanced)); auto.
  intros i s Hi Ls. specialize (Hr i Hi). np_auto.
  apply (np_kfor_c _ (fun b => zlen b = zlen toadvanced)); auto.
  intros j s' Hj Ls'. np_auto. now rewrite zlen_set_nth.
Qed.

Example ListArray_getitem_next_range_spreadadvanced_example :
  ListArray_getitem_next_range_spreadadvanced (TI 64) [9;9;9;9;9] [5; 7; 8] [0; 2; 2; 5] 3 = KOk [5; 5; 8; 8; 8].
Proof. vm_compute. reflexivity. Qed.
Example ListArray_getitem_next_range_carrylength_example :
  ListArray_getitem_next_range_carrylength (TI 64) [9] [0; 3] [3; 6] 2 0 kSliceNone 2 = KOk [4].
Proof. vm_compute. reflexivity. Qed.
