(** C15 — proofs about the JSON model (Json.v). *)
From Coq Require Import ZArith List Bool Lia ZifyBool.
From AwkV Require Import Base Layout LayoutInd Valid.
From AwkJson Require Import Json.
Import ListNotations.
Open Scope Z_scope.

(* ================================================================== decimal printer / reader *)

Definition rval (ds : list Z) : Z := fold_right (fun d r => 10 * r + (d - 48)) 0 ds.
Definition dstep (a d : Z) : Z := 10 * a + (d - 48).

Lemma is_digit_iff c : is_digit c = true <-> 48 <= c <= 57.
Proof. unfold is_digit. lia. Qed.

Lemma last_cons_ne {A} (x : A) l d : l <> [] -> last (x :: l) d = last l d.
Proof. destruct l; [congruence | reflexivity]. Qed.

Lemma rdigits_spec f : forall n, 0 <= n < 2 ^ (Z.of_nat f + 1) ->
  rval (rdigits f n) = n /\ Forall (fun d => is_digit d = true) (rdigits f n) /\
  rdigits f n <> [] /\ (0 < n -> 49 <= last (rdigits f n) 0 <= 57).
Proof.
  induction f as [|f IH]; intros n Hn.
  - change (2 ^ (Z.of_nat 0 + 1)) with 2 in Hn.
    assert (n mod 10 = n) by (apply Z.mod_small; lia).
    cbn [rdigits rval fold_right last]. rewrite H.
    split; [lia|split; [|split; [discriminate|lia]]].
    constructor; [apply is_digit_iff; lia | constructor].
  - cbn [rdigits]. destruct (n <? 10) eqn:E.
    + cbn [rval fold_right last]. split; [lia|split; [|split; [discriminate|lia]]].
      constructor; [apply is_digit_iff; lia | constructor].
    + assert (Hq : 0 <= n / 10 < 2 ^ (Z.of_nat f + 1)).
      { split; [apply Z.div_pos; lia|].
        apply Z.div_lt_upper_bound; [lia|].
        replace (Z.of_nat (S f) + 1) with (Z.succ (Z.of_nat f + 1)) in Hn by lia.
        rewrite Z.pow_succ_r in Hn by lia. lia. }
      destruct (IH _ Hq) as (Hv & Hd & Hne & Hl).
      assert (Hm : 0 <= n mod 10 < 10) by (apply Z.mod_pos_bound; lia).
      split; [|split; [|split]].
      * cbn [rval fold_right]. fold (rval (rdigits f (n / 10))). rewrite Hv.
        pose proof (Z.div_mod n 10). lia.
      * constructor; [apply is_digit_iff; lia | exact Hd].
      * discriminate.
      * intros _. assert (0 < n / 10) by (apply Z.div_str_pos; lia).
        rewrite last_cons_ne by exact Hne. apply Hl; lia.
Qed.

Lemma log2_fuel n : 0 <= n -> 0 <= n < 2 ^ (Z.of_nat (Z.to_nat (Z.log2 n)) + 1).
Proof.
  intros Hn. rewrite Z2Nat.id by apply Z.log2_nonneg.
  destruct (Z.eq_dec n 0) as [->|Hz]; [cbn; lia|].
  pose proof (Z.log2_spec n ltac:(lia)). replace (Z.log2 n + 1) with (Z.succ (Z.log2 n)) by lia. lia.
Qed.

Lemma read_digits_app ds : forall rest a c, Forall (fun d => is_digit d = true) ds ->
  read_digits (ds ++ rest) a c = read_digits rest (fold_left dstep ds a) (c + zlen ds).
Proof.
  induction ds as [|d ds IH]; intros rest a c Hd.
  - cbn. f_equal. unfold zlen. cbn. lia.
  - inversion Hd; subst. cbn [app read_digits fold_left]. rewrite H1.
    rewrite IH by assumption. unfold dstep at 2. f_equal. unfold zlen. cbn [length]. lia.
Qed.

Lemma read_digits_stop rest a c : no_digit_head rest -> read_digits rest a c = (a, c, rest).
Proof. destruct rest; cbn; intros H; [reflexivity | rewrite H; reflexivity]. Qed.

Lemma fold_left_rev_rval ds : fold_left dstep (rev ds) 0 = rval ds.
Proof.
  unfold rval. rewrite <- fold_left_rev_right. rewrite rev_involutive. reflexivity.
Qed.

(** the decimal printer and the digit reader are inverse *)
Lemma dec_nat_read n rest : 0 <= n -> no_digit_head rest ->
  read_digits (dec_nat n ++ rest) 0 0 = (n, zlen (dec_nat n), rest).
Proof.
  intros Hn Hr. unfold dec_nat.
  destruct (rdigits_spec _ _ (log2_fuel n Hn)) as (Hv & Hd & _ & _).
  rewrite read_digits_app by (apply Forall_rev; exact Hd).
  rewrite fold_left_rev_rval, Hv. rewrite read_digits_stop by exact Hr. f_equal.
Qed.

Lemma dec_nat_digits n : 0 <= n -> Forall (fun d => is_digit d = true) (dec_nat n).
Proof.
  intros Hn. unfold dec_nat. apply Forall_rev.
  apply (rdigits_spec _ _ (log2_fuel n Hn)).
Qed.

Lemma dec_nat_zero : dec_nat 0 = [48].
Proof. reflexivity. Qed.

Lemma dec_nat_head n : 0 < n -> exists d ds, dec_nat n = d :: ds /\ 49 <= d <= 57.
Proof.
  intros Hn. unfold dec_nat.
  destruct (rdigits_spec _ _ (log2_fuel n ltac:(lia))) as (_ & _ & Hne & Hl).
  specialize (Hl Hn).
  destruct (rdigits (Z.to_nat (Z.log2 n)) n) as [|x xs] eqn:E using rev_ind; [congruence|].
  rewrite rev_app_distr. cbn [rev app]. rewrite last_last in Hl. eauto.
Qed.

Theorem dec_roundtrip_lemma n rest : 0 <= n -> no_digit_head rest ->
  fst (fst (read_digits (dec_nat n ++ rest) 0 0)) = n /\ snd (read_digits (dec_nat n ++ rest) 0 0) = rest.
Proof. intros. rewrite dec_nat_read by assumption. split; reflexivity. Qed.

(* ================================================================== strings: escaping / unescaping *)

Lemma spush_spush a b r : spush a (spush b r) = spush (a ++ b) r.
Proof. destruct r; cbn; [rewrite app_assoc|]; reflexivity. Qed.

Lemma lex_str_quote r : lex_str (34 :: r) = SOk [] r.
Proof. reflexivity. Qed.

Lemma lex_str_raw c r : 32 <= c -> c <> 34 -> c <> 92 -> lex_str (c :: r) = spush [c] (lex_str r).
Proof.
  intros H1 H2 H3. cbn -[Z.eqb Z.ltb].
  rewrite (proj2 (Z.eqb_neq c 34) H2), (proj2 (Z.eqb_neq c 92) H3).
  assert (E : (c <? 32) = false) by lia. rewrite E. reflexivity.
Qed.

Lemma lex_str_ctrl c r : 0 <= c < 32 -> lex_str (esc_byte c ++ r) = spush [c] (lex_str r).
Proof.
  intros H.
  assert (C : c = 0 \/ c = 1 \/ c = 2 \/ c = 3 \/ c = 4 \/ c = 5 \/ c = 6 \/ c = 7 \/ c = 8 \/ c = 9 \/
              c = 10 \/ c = 11 \/ c = 12 \/ c = 13 \/ c = 14 \/ c = 15 \/ c = 16 \/ c = 17 \/ c = 18 \/
              c = 19 \/ c = 20 \/ c = 21 \/ c = 22 \/ c = 23 \/ c = 24 \/ c = 25 \/ c = 26 \/ c = 27 \/
              c = 28 \/ c = 29 \/ c = 30 \/ c = 31) by lia.
  repeat (destruct C as [-> | C]; [reflexivity|]). subst c. reflexivity.
Qed.

Lemma lex_str_esc c r : 0 <= c -> lex_str (esc_byte c ++ r) = spush [c] (lex_str r).
Proof.
  intros H. destruct (Z_lt_dec c 32) as [L|L]; [apply lex_str_ctrl; lia|].
  destruct (Z.eq_dec c 34) as [->|N1]; [reflexivity|].
  destruct (Z.eq_dec c 92) as [->|N2]; [reflexivity|].
  unfold esc_byte.
  rewrite (proj2 (Z.eqb_neq c 34) N1), (proj2 (Z.eqb_neq c 92) N2).
  replace (c =? 8) with false by lia. replace (c =? 12) with false by lia.
  replace (c =? 10) with false by lia. replace (c =? 13) with false by lia.
  replace (c =? 9) with false by lia. replace (c <? 32) with false by lia.
  cbn [app]. apply lex_str_raw; lia.
Qed.

(** unescaping inverts escaping, for arbitrary non-negative byte values *)
Lemma lex_str_render s : forall r, Forall (fun c => 0 <= c) s ->
  lex_str (flat_map esc_byte s ++ 34 :: r) = SOk s r.
Proof.
  induction s as [|c s IH]; intros r Hs.
  - reflexivity.
  - inversion Hs; subst. cbn [flat_map]. rewrite <- app_assoc.
    rewrite lex_str_esc by assumption. rewrite IH by assumption. reflexivity.
Qed.

(* ================================================================== numbers *)

Lemma num_safe_no_digit rest : num_safe rest -> no_digit_head rest.
Proof. destruct rest; cbn; tauto. Qed.

Lemma lex_frac_safe iv rest : num_safe rest -> lex_frac iv rest = inl (false, iv, 0, rest).
Proof.
  destruct rest as [|c r]; [reflexivity|]. cbn [num_safe lex_frac]. intros (_ & H & _).
  rewrite (proj2 (Z.eqb_neq c 46) H). reflexivity.
Qed.

Lemma lex_exp_safe rest : num_safe rest -> lex_exp rest = inl (false, 0, rest).
Proof.
  destruct rest as [|c r]; [reflexivity|]. cbn [num_safe lex_exp]. intros (_ & _ & H1 & H2).
  rewrite (proj2 (Z.eqb_neq c 101) H1), (proj2 (Z.eqb_neq c 69) H2). reflexivity.
Qed.

Lemma lex_ipart_dec n rest : 0 <= n -> no_digit_head rest ->
  lex_ipart (dec_nat n ++ rest) = Some (n, rest).
Proof.
  intros Hn Hr. destruct (Z.eq_dec n 0) as [->|Hz]; [reflexivity|].
  destruct (dec_nat_head n ltac:(lia)) as (d & ds & E & Hd).
  pose proof (dec_nat_read n rest Hn Hr) as R. rewrite E in *.
  cbn [app lex_ipart] in *. replace (d =? 48) with false by lia.
  replace ((49 <=? d) && (d <=? 57)) with true by lia. rewrite R. reflexivity.
Qed.

Lemma dec_nat_cons n : 0 <= n -> exists d ds, dec_nat n = d :: ds /\ 48 <= d <= 57.
Proof.
  intros Hn. pose proof (dec_nat_digits n Hn) as D. unfold dec_nat in *.
  destruct (rdigits_spec _ _ (log2_fuel n Hn)) as (_ & _ & Hne & _).
  destruct (rev (rdigits (Z.to_nat (Z.log2 n)) n)) as [|d ds] eqn:E.
  - apply (f_equal (@rev Z)) in E. rewrite rev_involutive in E. cbn in E. congruence.
  - inversion D; subst. apply is_digit_iff in H1. eauto.
Qed.

Lemma strip_minus_dec_nat n rest : 0 <= n -> strip_minus (dec_nat n ++ rest) = (false, dec_nat n ++ rest).
Proof.
  intros Hn. destruct (dec_nat_cons n Hn) as (d & ds & E & Hd). rewrite E.
  cbn [app strip_minus]. replace (d =? 45) with false by lia. reflexivity.
Qed.

Lemma wrap64_small z : 0 <= z < 9223372036854775808 -> wrap64 z = z.
Proof.
  intros H. unfold wrap64. rewrite Z.mod_small by lia.
  replace (z <? 9223372036854775808) with true by lia. reflexivity.
Qed.

(** an int64 printed in decimal is read back as the same integer event *)
Lemma lex_number_int z rest : -9223372036854775808 <= z < 9223372036854775808 -> num_safe rest ->
  lex_number (dec z ++ rest) = POk [EInt z] rest.
Proof.
  intros Hz Hs. pose proof (num_safe_no_digit _ Hs) as Hd. unfold dec, lex_number.
  destruct (z <? 0) eqn:E.
  - cbn [app strip_minus]. change (45 =? 45) with true. cbn iota.
    rewrite lex_ipart_dec by (assumption || lia).
    rewrite lex_frac_safe, lex_exp_safe by assumption.
    unfold classify. cbn [orb]. replace (- z <=? 9223372036854775808) with true by lia.
    f_equal. f_equal. f_equal. lia.
  - rewrite strip_minus_dec_nat by lia.
    rewrite lex_ipart_dec by (assumption || lia).
    rewrite lex_frac_safe, lex_exp_safe by assumption.
    unfold classify. cbn [orb]. replace (z <? 18446744073709551616) with true by lia.
    rewrite wrap64_small by lia. reflexivity.
Qed.

Lemma dbl_limit_big : 9007199254740992 * 100 < dbl_limit.
Proof. vm_compute. reflexivity. Qed.

Lemma real_of_tenth neg n : 0 <= n <= 9007199254740992 ->
  real_of neg (n * 10 ^ 1 + 0) (0 - 1) = Some (RZ (if neg then - n else n)) \/ (n = 0 /\ real_of neg (n * 10 ^ 1 + 0) (0 - 1) = Some (RZ 0)).
Proof.
  intros Hn. pose proof dbl_limit_big as B. unfold real_of.
  change (10 ^ 1) with 10. change (0 - 1) with (-1). change (- -1) with 1. change (10 ^ 1) with 10.
  destruct (n * 10 + 0 =? 0) eqn:E0; [right; split; [lia|reflexivity]|left].
  change (400 <? -1) with false. change (0 <=? -1) with false. change (-1 <? -1000) with false. cbn iota.
  replace (dbl_limit * 10 <=? n * 10 + 0) with false by lia.
  replace ((n * 10 + 0) mod 10) with 0 by (symmetry; rewrite Z.add_0_r; apply Z_mod_mult).
  change (0 =? 0) with true. cbn iota.
  replace ((n * 10 + 0) / 10) with n by (rewrite Z.add_0_r, Z_div_mult; lia). reflexivity.
Qed.

(** an integer-valued double below 2^53 printed as "digits.0" is read back as the same real event *)
Lemma lex_number_real z rest : -9007199254740992 <= z <= 9007199254740992 -> num_safe rest ->
  lex_number (dec z ++ [46; 48] ++ rest) = POk [EReal (RZ z)] rest.
Proof.
  intros Hz Hs. pose proof (num_safe_no_digit _ Hs) as Hd. unfold dec, lex_number.
  assert (F : forall n, lex_frac n (46 :: 48 :: rest) = inl (true, n * 10 ^ 1 + 0, 1, rest)).
  { intros n. unfold lex_frac. change (46 =? 46) with true. cbn iota.
    change (48 :: rest) with ([48] ++ rest).
    rewrite read_digits_app by (repeat constructor). rewrite read_digits_stop by assumption. reflexivity. }
  destruct (z <? 0) eqn:E.
  - cbn [app strip_minus]. change (45 =? 45) with true. cbn iota.
    rewrite lex_ipart_dec by (cbn; (reflexivity || lia)).
    rewrite F, lex_exp_safe by assumption. unfold classify. cbn [orb].
    destruct (real_of_tenth true (- z) ltac:(lia)) as [R | [Hz0 _]]; [|lia].
    rewrite R. do 4 f_equal. lia.
  - rewrite strip_minus_dec_nat by lia.
    rewrite lex_ipart_dec by (cbn; (reflexivity || lia)).
    rewrite F, lex_exp_safe by assumption. unfold classify. cbn [orb].
    destruct (real_of_tenth false z ltac:(lia)) as [R | [Hz0 R]]; rewrite R; [reflexivity | subst; reflexivity].
Qed.

(* ================================================================== structure of well-formed event sequences *)

(** [wfv e]: [e] is the event sequence of exactly one complete value;
    [wfvs es]: a concatenation of complete values (array items);
    [wfkvs es]: a concatenation of key/value members (object body). *)
Inductive wfv : list ev -> Prop :=
| W_null : wfv [ENull]
| W_bool b : wfv [EBool b]
| W_int z : wfv [EInt z]
| W_real r : wfv [EReal r]
| W_str s : wfv [EStr s]
| W_arr es : wfvs es -> wfv (ESA :: es ++ [EEA])
| W_obj es : wfkvs es -> wfv (ESO :: es ++ [EEO])
with wfvs : list ev -> Prop :=
| WS_nil : wfvs []
| WS_cons e es : wfv e -> wfvs es -> wfvs (e ++ es)
with wfkvs : list ev -> Prop :=
| WK_nil : wfkvs []
| WK_cons k e es : wfv e -> wfkvs es -> wfkvs (EKey k :: e ++ es).

Scheme wfv_mut := Minimality for wfv Sort Prop
  with wfvs_mut := Minimality for wfvs Sort Prop
  with wfkvs_mut := Minimality for wfkvs Sort Prop.
Combined Scheme wf_mutind from wfv_mut, wfvs_mut, wfkvs_mut.

Definition is_start (e : ev) : bool :=
  match e with EEA | EEO | EKey _ => false | _ => true end.

Lemma wfv_head e : wfv e -> exists h t, e = h :: t /\ is_start h = true.
Proof. destruct 1; eauto. Qed.

Lemma wfv_length e : wfv e -> (1 <= length e)%nat.
Proof. intros H. destruct (wfv_head e H) as (h & t & -> & _). cbn. lia. Qed.

(* recogniser => structure *)
Lemma wf_sound f :
  (forall evs r, wf_val f evs = Some r -> exists e, wfv e /\ evs = e ++ r) /\
  (forall evs r, wf_vals f evs = Some r -> exists es, wfvs es /\ evs = es ++ EEA :: r) /\
  (forall evs r, wf_kvs f evs = Some r -> exists es, wfkvs es /\ evs = es ++ EEO :: r).
Proof.
  induction f as [|f (IHv & IHs & IHk)]; [repeat split; intros; discriminate|].
  split; [|split]; intros evs r H.
  - cbn [wf_val] in H. destruct evs as [|e evs]; [discriminate|].
    destruct e; try discriminate;
      try (injection H as <-; eexists [_]; split; [constructor | reflexivity]).
    + destruct (IHs _ _ H) as (es & W & ->). exists (ESA :: es ++ [EEA]). split; [constructor; exact W|].
      cbn. rewrite <- app_assoc. reflexivity.
    + destruct (IHk _ _ H) as (es & W & ->). exists (ESO :: es ++ [EEO]). split; [constructor; exact W|].
      cbn. rewrite <- app_assoc. reflexivity.
  - cbn [wf_vals] in H.
    assert (G : (exists r0, evs = EEA :: r0 /\ r = r0) \/
                (match wf_val f evs with Some r1 => wf_vals f r1 | None => None end = Some r)).
    { destruct evs as [|e evs]; [right; exact H|]. destruct e; try (right; exact H). left. injection H as <-. eauto. }
    destruct G as [(r0 & -> & ->) | G]; [exists []; split; [constructor | reflexivity]|].
    destruct (wf_val f evs) as [r1|] eqn:E1; [|discriminate].
    destruct (IHv _ _ E1) as (e & We & ->). destruct (IHs _ _ G) as (es & Ws & ->).
    exists (e ++ es). split; [constructor; assumption | rewrite <- app_assoc; reflexivity].
  - cbn [wf_kvs] in H. destruct evs as [|e evs]; [discriminate|].
    destruct e; try discriminate.
    + injection H as <-. exists []. split; [constructor | reflexivity].
    + destruct (wf_val f evs) as [r1|] eqn:E1; [|discriminate].
      destruct (IHv _ _ E1) as (e & We & ->). destruct (IHk _ _ H) as (es & Ws & ->).
      exists (EKey s :: e ++ es). split; [constructor; assumption | cbn; rewrite <- app_assoc; reflexivity].
Qed.

(* structure => recogniser, with enough fuel *)
Lemma wf_complete :
  (forall e, wfv e -> forall r f, (length e < f)%nat -> wf_val f (e ++ r) = Some r) /\
  (forall es, wfvs es -> forall r f, (length es + 1 < f)%nat -> wf_vals f (es ++ EEA :: r) = Some r) /\
  (forall es, wfkvs es -> forall r f, (length es + 1 < f)%nat -> wf_kvs f (es ++ EEO :: r) = Some r).
Proof.
  apply wf_mutind.
  - intros r [|f] L; [cbn in L; lia | reflexivity].
  - intros b r [|f] L; [cbn in L; lia | reflexivity].
  - intros z r [|f] L; [cbn in L; lia | reflexivity].
  - intros x r [|f] L; [cbn in L; lia | reflexivity].
  - intros s r [|f] L; [cbn in L; lia | reflexivity].
  - intros es _ IH r [|f] L; [cbn in L; lia|].
    cbn [app wf_val]. rewrite <- app_assoc. cbn [app]. apply IH.
    cbn [length] in L. rewrite app_length in L. cbn in L. lia.
  - intros es _ IH r [|f] L; [cbn in L; lia|].
    cbn [app wf_val]. rewrite <- app_assoc. cbn [app]. apply IH.
    cbn [length] in L. rewrite app_length in L. cbn in L. lia.
  - intros r [|f] L; [cbn in L; lia | reflexivity].
  - intros e es We IHe _ IHs r [|f] L; [cbn in L; lia|].
    rewrite app_length in L. pose proof (wfv_length e We).
    destruct (wfv_head e We) as (h & t & -> & Hh).
    cbn [wf_vals app]. rewrite <- app_assoc.
    assert (E : wf_val f ((h :: t) ++ es ++ EEA :: r) = Some (es ++ EEA :: r)) by (apply IHe; lia).
    cbn [app] in E. destruct h; try discriminate Hh; rewrite E; apply IHs; lia.
  - intros r [|f] L; [cbn in L; lia | reflexivity].
  - intros k e es We IHe _ IHs r [|f] L; [cbn in L; lia|].
    cbn [length] in L. rewrite app_length in L. pose proof (wfv_length e We).
    cbn [wf_kvs app]. rewrite <- app_assoc.
    rewrite IHe by lia. apply IHs; lia.
Qed.

Lemma wf_iff evs : wf evs = true <-> wfv evs.
Proof.
  unfold wf. split.
  - destruct (wf_val (S (length evs)) evs) as [r|] eqn:E; [|discriminate].
    destruct r; [|discriminate]. intros _.
    destruct (proj1 (wf_sound _) _ _ E) as (e & W & ->). rewrite app_nil_r. exact W.
  - intros W. pose proof (proj1 wf_complete evs W [] (S (length evs)) ltac:(lia)) as E.
    rewrite app_nil_r in E. rewrite E. reflexivity.
Qed.

(* ================================================================== render: structure *)

Definition st (p : prev) (l : list ev) : prev := fold_left (fun _ e => after e) l p.

Lemma render_from_app p l1 : forall l2, render_from p (l1 ++ l2) = render_from p l1 ++ render_from (st p l1) l2.
Proof.
  revert p. induction l1 as [|e l1 IH]; intros p l2; [reflexivity|].
  cbn [app render_from st fold_left]. rewrite IH. rewrite <- !app_assoc. reflexivity.
Qed.

Lemma st_snoc p l x : st p (l ++ [x]) = after x.
Proof. unfold st. rewrite fold_left_app. reflexivity. Qed.

Lemma wfv_last e : wfv e -> exists l x, e = l ++ [x] /\ after x = PVal.
Proof.
  destruct 1; try (eexists [], _; split; [reflexivity | reflexivity]).
  - exists (ESA :: es), EEA. split; reflexivity.
  - exists (ESO :: es), EEO. split; reflexivity.
Qed.

Lemma wfv_st e p : wfv e -> st p e = PVal.
Proof. intros W. destruct (wfv_last e W) as (l & x & -> & A). rewrite st_snoc. exact A. Qed.

Lemma st_app p l1 l2 : st p (l1 ++ l2) = st (st p l1) l2.
Proof. unfold st. apply fold_left_app. Qed.

Lemma wfvs_st es : wfvs es -> forall p, es <> [] -> st p es = PVal.
Proof.
  induction 1 as [|e es We Ws IH]; intros p Hne; [congruence|].
  rewrite st_app, (wfv_st e p We). destruct es; [reflexivity | apply IH; discriminate].
Qed.

Lemma wfkvs_st es : wfkvs es -> forall p, es <> [] -> st p es = PVal.
Proof.
  induction 1 as [|k e es We Ws IH]; intros p Hne; [congruence|].
  change (EKey k :: e ++ es) with ([EKey k] ++ e ++ es). rewrite !st_app, (wfv_st e _ We).
  destruct es; [reflexivity | apply IH; discriminate].
Qed.

Lemma render_from_start p h t : render_from p (h :: t) = sep p h ++ render_from PStart (h :: t).
Proof. reflexivity. Qed.

(* a value that follows a value is preceded by a comma *)
Lemma render_after_val e l : wfv e -> render_from PVal (e ++ l) = 44 :: render_from PStart (e ++ l).
Proof.
  intros W. destruct (wfv_head e W) as (h & t & -> & Hh). cbn [app]. rewrite render_from_start.
  destruct h; try discriminate Hh; reflexivity.
Qed.

Lemma render_value_then e l : wfv e ->
  render_from PStart (e ++ l) = render_from PStart e ++ render_from PVal l.
Proof. intros W. rewrite render_from_app, (wfv_st e PStart W). reflexivity. Qed.

(* ================================================================== parse (render e) *)

Lemma printable_app a b : printable (a ++ b) = printable a && printable b.
Proof. unfold printable. apply forallb_app. Qed.

Lemma dec_head z : exists c t, dec z = c :: t /\ (c = 45 \/ 48 <= c <= 57).
Proof.
  unfold dec. destruct (z <? 0) eqn:E; [eauto|].
  destruct (dec_nat_cons z ltac:(lia)) as (d & ds & -> & H). eauto.
Qed.

Lemma parse_value_number f c r : c = 45 \/ 48 <= c <= 57 ->
  parse_value (S f) (c :: r) = lex_number (c :: r).
Proof.
  intros H. cbn [parse_value].
  replace (c =? 110) with false by lia. replace (c =? 116) with false by lia.
  replace (c =? 102) with false by lia. replace (c =? 34) with false by lia.
  replace (c =? 91) with false by lia. replace (c =? 123) with false by lia. reflexivity.
Qed.

Lemma parse_value_dec f z l : parse_value (S f) (dec z ++ l) = lex_number (dec z ++ l).
Proof.
  destruct (dec_head z) as (c & t & E & H). rewrite E. cbn [app]. apply parse_value_number; exact H.
Qed.

Definition value_start (b : Z) : Prop :=
  is_ws b = false /\ b <> 93 /\ b <> 125 /\ b <> 44 /\ b <> 58 /\ b <> 0.

(* first byte of a rendered value *)
Lemma render_head e : wfv e -> printable e = true ->
  exists b t, render_from PStart e = b :: t /\ value_start b.
Proof.
  intros W P. unfold value_start. destruct W; cbn [render_from sep tok app].
  - eexists _, _; split; [reflexivity|cbn; lia].
  - destruct b; eexists _, _; (split; [reflexivity|cbn; lia]).
  - destruct (dec_head z) as (c & t & -> & H). eexists _, _; split; [reflexivity|unfold is_ws; lia].
  - cbn in P. destruct r; try discriminate. cbn [render_real].
    destruct (dec_head z) as (c & t & -> & H). eexists _, _; split; [reflexivity|unfold is_ws; lia].
  - eexists _, _; split; [reflexivity|cbn; lia].
  - eexists _, _; split; [reflexivity|cbn; lia].
  - eexists _, _; split; [reflexivity|cbn; lia].
Qed.

Lemma skip_ws_start b t : is_ws b = false -> skip_ws (b :: t) = b :: t.
Proof. intros H. cbn. rewrite H. reflexivity. Qed.

Lemma num_safe_cons c r : is_digit c = false -> c <> 46 -> c <> 101 -> c <> 69 -> num_safe (c :: r).
Proof. cbn. tauto. Qed.

Lemma render_string_eq s : render_string s = 34 :: flat_map esc_byte s ++ [34].
Proof. reflexivity. Qed.

Lemma forallb_byte_nonneg s : forallb is_byte s = true -> Forall (fun c => 0 <= c) s.
Proof.
  intros H. apply Forall_forall. intros c Hc.
  rewrite forallb_forall in H. specialize (H c Hc). unfold is_byte in H. lia.
Qed.

Lemma wfvs_render_head es : wfvs es -> es <> [] -> printable es = true ->
  exists b t, render_from PStart es = b :: t /\ value_start b.
Proof.
  intros Ws Hne P. destruct Ws as [|e es We Ws]; [congruence|].
  rewrite printable_app in P. apply andb_true_iff in P. destruct P as [Pe _].
  destruct (render_head e We Pe) as (b & t & Eb & Hb).
  rewrite render_value_then by exact We. rewrite Eb. cbn [app]. eauto.
Qed.

Lemma wfkvs_render_head es : wfkvs es -> es <> [] ->
  exists t, render_from PStart es = 34 :: t.
Proof.
  intros Ws Hne. destruct Ws as [|k e es We Ws]; [congruence|].
  cbn [render_from sep tok app]. rewrite render_string_eq. cbn [app]. eauto.
Qed.

Lemma wfkvs_render_after es : wfkvs es -> es <> [] ->
  render_from PVal es = 44 :: render_from PStart es.
Proof. intros Ws Hne. destruct Ws; [congruence | reflexivity]. Qed.

Lemma wfvs_render_after es : wfvs es -> es <> [] ->
  render_from PVal es = 44 :: render_from PStart es.
Proof. intros Ws Hne. destruct Ws; [congruence | apply render_after_val; assumption]. Qed.

Lemma parse_render_mut :
  (forall e, wfv e -> printable e = true -> forall f rest, (length e < f)%nat -> num_safe rest ->
      parse_value f (render_from PStart e ++ rest) = POk e rest) /\
  (forall es, wfvs es -> printable es = true -> es <> [] -> forall f rest, (length es + 1 < f)%nat ->
      parse_elems f (render_from PStart es ++ 93 :: rest) = POk (es ++ [EEA]) rest) /\
  (forall es, wfkvs es -> printable es = true -> es <> [] -> forall f rest, (length es + 1 < f)%nat ->
      parse_members f (render_from PStart es ++ 125 :: rest) = POk (es ++ [EEO]) rest).
Proof.
  apply wf_mutind.
  - (* null *) intros _ [|f] rest L _; [cbn in L; lia | reflexivity].
  - (* bool *) intros b _ [|f] rest L _; [cbn in L; lia | destruct b; reflexivity].
  - (* int *) intros z P [|f] rest L S; [cbn in L; lia|].
    cbn in P. cbn [render_from sep tok app]. rewrite app_nil_r.
    rewrite parse_value_dec. apply lex_number_int; [lia | exact S].
  - (* real *) intros r P [|f] rest L S; [cbn in L; lia|].
    cbn in P. destruct r; try discriminate. cbn [render_from sep tok app render_real]. rewrite app_nil_r.
    rewrite <- app_assoc. rewrite parse_value_dec. apply lex_number_real; [lia | exact S].
  - (* string *) intros s P [|f] rest L _; [cbn in L; lia|].
    cbn in P. rewrite andb_true_r in P.
    cbn [render_from sep tok app]. rewrite app_nil_r, render_string_eq. cbn [app parse_value].
    change (34 =? 110) with false. change (34 =? 116) with false. change (34 =? 102) with false.
    change (34 =? 34) with true. cbn iota. rewrite <- app_assoc. cbn [app].
    rewrite lex_str_render by (apply forallb_byte_nonneg; exact P). reflexivity.
  - (* array *) intros es Ws IH P [|f] rest L _; [cbn in L; lia|].
    change (ESA :: es ++ [EEA]) with ([ESA] ++ es ++ [EEA]) in P. rewrite !printable_app in P.
    cbn [length] in L. rewrite app_length in L. cbn [length] in L.
    change (ESA :: es ++ [EEA]) with ((ESA :: es) ++ [EEA]). rewrite render_from_app.
    cbn [app render_from sep tok]. change (91 :: render_from PStart es) with ([91] ++ render_from PStart es).
    rewrite <- !app_assoc. cbn [app parse_value].
    change (91 =? 110) with false. change (91 =? 116) with false. change (91 =? 102) with false.
    change (91 =? 34) with false. change (91 =? 91) with true. cbn iota.
    destruct es as [|e0 es'] eqn:Ees.
    + cbn. reflexivity.
    + rewrite <- Ees in *. assert (Hne : es <> []) by (rewrite Ees; discriminate).
      assert (Hsep : sep (st PStart (ESA :: es)) EEA = []).
      { change (ESA :: es) with ([ESA] ++ es). rewrite st_app, wfvs_st by assumption. reflexivity. }
      rewrite Hsep. cbn [app].
      assert (Pes : printable es = true).
      { apply andb_true_iff in P. destruct P as [_ P]. apply andb_true_iff in P. tauto. }
      destruct (wfvs_render_head es Ws Hne Pes) as (b & t' & Et' & (Hb1 & Hb2 & _)).
      change (after ESA) with PStart.
      rewrite Et'. cbn [app]. rewrite skip_ws_start by exact Hb1.
      replace (b =? 93) with false by lia.
      change (b :: t' ++ 93 :: rest) with ((b :: t') ++ 93 :: rest). rewrite <- Et'.
      rewrite IH by (assumption || lia). reflexivity.
  - (* object *) intros es Ws IH P [|f] rest L _; [cbn in L; lia|].
    change (ESO :: es ++ [EEO]) with ([ESO] ++ es ++ [EEO]) in P. rewrite !printable_app in P.
    cbn [length] in L. rewrite app_length in L. cbn [length] in L.
    change (ESO :: es ++ [EEO]) with ((ESO :: es) ++ [EEO]). rewrite render_from_app.
    cbn [app render_from sep tok]. change (123 :: render_from PStart es) with ([123] ++ render_from PStart es).
    rewrite <- !app_assoc. cbn [app parse_value].
    change (123 =? 110) with false. change (123 =? 116) with false. change (123 =? 102) with false.
    change (123 =? 34) with false. change (123 =? 91) with false. change (123 =? 123) with true. cbn iota.
    destruct es as [|e0 es'] eqn:Ees.
    + cbn. reflexivity.
    + rewrite <- Ees in *. assert (Hne : es <> []) by (rewrite Ees; discriminate).
      assert (Hsep : sep (st PStart (ESO :: es)) EEO = []).
      { change (ESO :: es) with ([ESO] ++ es). rewrite st_app, wfkvs_st by assumption. reflexivity. }
      rewrite Hsep. cbn [app].
      assert (Pes : printable es = true).
      { apply andb_true_iff in P. destruct P as [_ P]. apply andb_true_iff in P. tauto. }
      destruct (wfkvs_render_head es Ws Hne) as (t' & Et').
      change (after ESO) with PStart.
      rewrite Et'. cbn [app]. rewrite skip_ws_start by reflexivity.
      change (34 =? 125) with false. cbn iota.
      change (34 :: t' ++ 125 :: rest) with ((34 :: t') ++ 125 :: rest). rewrite <- Et'.
      rewrite IH by (assumption || lia). reflexivity.
  - (* no items *) intros _ Hne; congruence.
  - (* item :: items *) intros e es We IHe Ws IHs P _ [|f] rest L; [lia|].
    rewrite printable_app in P. apply andb_true_iff in P. destruct P as [Pe Pes].
    rewrite app_length in L. pose proof (wfv_length e We) as Le.
    rewrite render_value_then by exact We. rewrite <- app_assoc. cbn [parse_elems].
    destruct es as [|x es'] eqn:Ees.
    + (* last item *)
      cbn [render_from app]. rewrite IHe by (assumption || lia || (apply num_safe_cons; cbn; lia)).
      rewrite skip_ws_start by reflexivity. change (93 =? 44) with false. change (93 =? 93) with true.
      cbn iota. rewrite app_nil_r. reflexivity.
    + rewrite <- Ees in *. assert (Hne : es <> []) by (rewrite Ees; discriminate).
      rewrite wfvs_render_after by assumption. cbn [app].
      rewrite IHe by (assumption || lia || (apply num_safe_cons; cbn; lia)).
      rewrite skip_ws_start by reflexivity. change (44 =? 44) with true. cbn iota.
      destruct (wfvs_render_head es Ws Hne Pes) as (b & t' & Et' & (Hb1 & _)).
      rewrite Et'. cbn [app]. rewrite skip_ws_start by exact Hb1.
      change (b :: t' ++ 93 :: rest) with ((b :: t') ++ 93 :: rest). rewrite <- Et'.
      rewrite IHs by (assumption || lia). cbn [pmap]. rewrite <- app_assoc. reflexivity.
  - (* no members *) intros _ Hne; congruence.
  - (* member :: members *) intros k e es We IHe Ws IHs P _ [|f] rest L; [lia|].
    change (EKey k :: e ++ es) with ([EKey k] ++ e ++ es) in P. rewrite !printable_app in P.
    apply andb_true_iff in P. destruct P as [Pk P]. apply andb_true_iff in P. destruct P as [Pe Pes].
    cbn in Pk. rewrite andb_true_r in Pk.
    cbn [length] in L. rewrite app_length in L. pose proof (wfv_length e We) as Le.
    cbn [render_from sep tok app]. rewrite render_string_eq. cbn [app parse_members].
    change (34 =? 34) with true. cbn iota. rewrite <- !app_assoc. cbn [app].
    rewrite lex_str_render by (apply forallb_byte_nonneg; exact Pk).
    destruct (wfv_head e We) as (h & t & Eh & Hh).
    assert (Hk : render_from PKey (e ++ es) = 58 :: render_from PStart (e ++ es)).
    { rewrite Eh. cbn [app]. rewrite render_from_start. reflexivity. }
    change (after (EKey k)) with PKey. rewrite Hk. cbn [app]. rewrite skip_ws_start by reflexivity. change (58 =? 58) with true. cbn iota.
    rewrite render_value_then by exact We.
    destruct (render_head e We Pe) as (b & t0 & Eb & (Hb1 & _)).
    rewrite <- app_assoc. rewrite Eb. cbn [app]. rewrite skip_ws_start by exact Hb1.
    change (b :: t0 ++ render_from PVal es ++ 125 :: rest) with ((b :: t0) ++ render_from PVal es ++ 125 :: rest).
    rewrite <- Eb.
    destruct es as [|x es'] eqn:Ees.
    + cbn [render_from app]. rewrite IHe by (assumption || lia || (apply num_safe_cons; cbn; lia)).
      rewrite skip_ws_start by reflexivity. change (125 =? 44) with false. change (125 =? 125) with true.
      cbn iota. reflexivity.
    + rewrite <- Ees in *. assert (Hne : es <> []) by (rewrite Ees; discriminate).
      rewrite wfkvs_render_after by assumption. cbn [app].
      rewrite IHe by (assumption || lia || (apply num_safe_cons; cbn; lia)).
      rewrite skip_ws_start by reflexivity. change (44 =? 44) with true. cbn iota.
      destruct (wfkvs_render_head es Ws Hne) as (t' & Et').
      rewrite Et'. cbn [app]. rewrite skip_ws_start by reflexivity.
      change (34 :: t' ++ 125 :: rest) with ((34 :: t') ++ 125 :: rest). rewrite <- Et'.
      rewrite IHs by (assumption || lia). cbn [pmap]. reflexivity.
Qed.

(* ================================================================== parse_render, top level *)

Lemma skip_ws_app w l : all_ws w -> skip_ws (w ++ l) = skip_ws l.
Proof. induction 1 as [|c w Hc _ IH]; [reflexivity|]. cbn [app skip_ws]. rewrite Hc. exact IH. Qed.

Lemma skip_ws_all w : all_ws w -> skip_ws w = [].
Proof. intros H. rewrite <- (app_nil_r w). rewrite skip_ws_app by exact H. reflexivity. Qed.

Lemma ws_num_safe w l : all_ws w -> w <> [] -> num_safe (w ++ l).
Proof.
  intros H Hne. destruct H as [|c w Hc _]; [congruence|]. cbn [app]. unfold is_ws in Hc.
  apply num_safe_cons; unfold is_digit; lia.
Qed.

Lemma tok_nonempty e : printable_ev e = true -> (1 <= length (tok e))%nat.
Proof.
  destruct e; cbn [tok printable_ev]; intros P; try (cbn; lia).
  - destruct b; cbn; lia.
  - destruct (dec_head z) as (c & t & -> & _). cbn; lia.
  - destruct r; try discriminate. cbn [render_real]. rewrite app_length. cbn [length]. lia.
Qed.

Lemma render_length evs : forall p, printable evs = true -> (length evs <= length (render_from p evs))%nat.
Proof.
  induction evs as [|e evs IH]; intros p P; [cbn; lia|].
  cbn in P. apply andb_true_iff in P. destruct P as [Pe Ps].
  cbn [render_from length]. rewrite !app_length. pose proof (tok_nonempty e Pe). specialize (IH (after e) Ps). lia.
Qed.

Lemma parse1_render ws evs rest : wfv evs -> printable evs = true -> all_ws ws -> num_safe rest ->
  parse1 (ws ++ render evs ++ rest) = POk evs rest.
Proof.
  intros W P Hw Hs. unfold parse1. rewrite skip_ws_app by exact Hw. unfold render.
  destruct (render_head evs W P) as (b & t & Eb & (Hb & _)).
  rewrite Eb. cbn [app]. rewrite skip_ws_start by exact Hb.
  change (b :: t ++ rest) with ((b :: t) ++ rest). rewrite <- Eb.
  apply (proj1 parse_render_mut); try assumption.
  unfold fuel_for. rewrite !app_length. pose proof (render_length evs PStart P). lia.
Qed.

(** (c) the reader inverts the compact writer on every well-formed, printable event sequence *)
Theorem parse_render_lemma evs : wf evs = true -> printable evs = true ->
  parse (render evs) = Ok (evs, []).
Proof.
  intros W P. apply wf_iff in W. unfold parse.
  pose proof (parse1_render [] evs [] W P (Forall_nil _) I) as E.
  cbn [app] in E. rewrite app_nil_r in E. rewrite E. reflexivity.
Qed.

(* with surrounding whitespace and following text (stop-when-done) *)
Theorem parse_render_ws_lemma ws evs rest : wf evs = true -> printable evs = true -> all_ws ws -> num_safe rest ->
  parse (ws ++ render evs ++ rest) = Ok (evs, rest).
Proof.
  intros W P Hw Hs. apply wf_iff in W. unfold parse. rewrite parse1_render by assumption. reflexivity.
Qed.

(* ================================================================== concatenated documents *)

Lemma do_parse_loop_docs o dws : Forall doc_ok dws -> seps_ok dws ->
  forall fuel acc w0, all_ws w0 -> (length (w0 ++ docs_text dws) < fuel)%nat ->
  do_parse_loop fuel o (w0 ++ docs_text dws) acc =
  JDocs (rev acc ++ map (fun dw => map (handler o) (fst dw)) dws).
Proof.
  induction dws as [|[d w] dws IH]; intros Hok Hsep [|fuel] acc w0 Hw0 L; try (cbn in L; lia).
  - unfold docs_text. cbn [map concat]. rewrite !app_nil_r. cbn [do_parse_loop].
    destruct w0 as [|c w0']; [reflexivity|]. rewrite skip_ws_all by exact Hw0. reflexivity.
  - inversion Hok as [|? ? (Wd & Pd & Hw) Hok']; subst. cbn [fst snd] in *.
    destruct Hsep as [Hs1 Hsep'].
    unfold docs_text in *. cbn [map concat] in *. unfold doc_text at 1. unfold doc_text at 1 in L. cbn [fst snd] in *.
    fold (docs_text dws) in *.
    apply wf_iff in Wd.
    assert (Hsafe : num_safe (w ++ docs_text dws)).
    { destruct dws as [|dw' dws'].
      - unfold docs_text. cbn [map concat]. rewrite app_nil_r.
        destruct Hw as [|c w' Hc _]; [exact I|]. unfold is_ws in Hc. apply num_safe_cons; unfold is_digit; lia.
      - apply ws_num_safe; assumption. }
    pose proof (parse1_render w0 d (w ++ docs_text dws) Wd Pd Hw0 Hsafe) as E.
    rewrite <- !app_assoc in *.
    destruct (render_head d Wd Pd) as (b & t & Eb & (Hb & _)). unfold render in *.
    cbn [do_parse_loop].
    assert (Hne : exists x y, w0 ++ render_from PStart d ++ w ++ docs_text dws = x :: y).
    { rewrite Eb. destruct w0; cbn; eauto. }
    destruct Hne as (x & y & Exy). rewrite Exy. rewrite <- Exy.
    rewrite skip_ws_app by exact Hw0. rewrite Eb. cbn [app]. rewrite skip_ws_start by exact Hb.
    change (b :: t ++ w ++ docs_text dws) with ((b :: t) ++ w ++ docs_text dws). rewrite <- Eb.
    rewrite E.
    rewrite IH; try assumption.
    + cbn [rev map fst]. rewrite <- app_assoc. reflexivity.
    + rewrite !app_length in *. pose proof (render_length d PStart Pd). pose proof (wfv_length d Wd). cbn [length] in L. lia.
Qed.

(** (d) k well-formed documents, separated by whitespace, give exactly k entries *)
Theorem concat_docs_text o w0 dws : all_ws w0 -> Forall doc_ok dws -> seps_ok dws ->
  do_parse_text o (w0 ++ docs_text dws) = JDocs (map (fun dw => map (handler o) (fst dw)) dws).
Proof.
  intros Hw Hok Hsep. unfold do_parse_text.
  rewrite (do_parse_loop_docs o dws Hok Hsep _ [] w0 Hw) by lia. reflexivity.
Qed.

(* ================================================================== (a) tojson_events emits well-formed sequences *)

Lemma bind_ok {A B} (r : res A) (f : A -> res B) y : bind r f = Ok y -> exists x, r = Ok x /\ f x = Ok y.
Proof. destruct r; cbn; [eauto | discriminate]. Qed.

Ltac inv_bind H :=
  let x := fresh "x" in let E := fresh "E" in
  apply bind_ok in H; destruct H as (x & E & H).

Lemma mapM_ok_Forall {A B} (f : A -> res B) (P : B -> Prop) l : forall ys,
  mapM f l = Ok ys -> (forall x y, f x = Ok y -> P y) -> Forall P ys.
Proof.
  induction l as [|a l IH]; intros ys H HP; cbn [mapM] in H.
  - injection H as <-. constructor.
  - inv_bind H. inv_bind H. injection H as <-. constructor; eauto.
Qed.

Lemma concat_wfvs xs : Forall wfv xs -> wfvs (concat xs).
Proof. induction 1; cbn [concat]; constructor; assumption. Qed.

Lemma real_ev_wfv o d : wfv [real_ev o d].
Proof.
  destruct d as [z| |[|]]; cbn [real_ev]; try constructor;
    try (destruct (nan_s o)); try (destruct (inf_s o)); try (destruct (minf_s o)); constructor.
Qed.

Lemma scalar_ev_wfv o dt d : wfv [scalar_ev o dt d].
Proof.
  destruct dt; cbn [scalar_ev]; try apply real_ev_wfv; try constructor;
    destruct d; try apply real_ev_wfv; constructor.
Qed.

Lemma str_of_wfv dt ds e : str_of dt ds = Ok e -> wfv e.
Proof. unfold str_of. intros H. inv_bind H. injection H as <-. constructor. Qed.

Lemma np_block_wfv o chars dt dims : forall ds e, np_block o chars dt dims ds = Ok e -> wfv e.
Proof.
  induction dims as [|n dims IH]; intros ds e H; cbn [np_block] in H.
  - destruct ds as [|d ds]; [discriminate|]. destruct chars.
    + eapply str_of_wfv; exact H.
    + injection H as <-. apply scalar_ev_wfv.
  - assert (G : (exists s, dims = [] /\ chars = true /\ slice ds 0 n = Ok s /\ str_of dt s = Ok e) \/
                (exists xs, mapM (fun k => do sub <- slice ds (k * prodZ dims) ((k + 1) * prodZ dims);
                                            np_block o chars dt dims sub) (iota n) = Ok xs /\
                            e = ESA :: concat xs ++ [EEA])).
    { destruct dims as [|m dims']; [destruct chars|].
      - left. inv_bind H. eauto 6.
      - right. inv_bind H. injection H as <-. eauto.
      - right. inv_bind H. injection H as <-. eauto. }
    destruct G as [(s & _ & _ & _ & G) | (xs & G & ->)]; [eapply str_of_wfv; exact G|].
    constructor. apply concat_wfvs. eapply mapM_ok_Forall; [exact G|].
    intros k y Hy. cbn beta in Hy. inv_bind Hy. eapply IH; exact Hy.
Qed.

Lemma range_events_wfv it chars a b e : (forall i x, it i = Ok x -> wfv x) ->
  range_events it chars a b = Ok e -> wfv e.
Proof.
  intros Hit H. unfold range_events in H. destruct chars as [[dt data]|].
  - destruct (a =? b); [injection H as <-; constructor|]. inv_bind H. eapply str_of_wfv; exact H.
  - inv_bind H. injection H as <-. constructor. apply concat_wfvs.
    eapply mapM_ok_Forall; [exact E|]. intros; eapply Hit; eassumption.
Qed.

Lemma fields_ev_wfkvs f cs : Forall (fun c => forall e, f c = Ok e -> wfv e) cs ->
  forall kl body, fields_ev f cs kl = Ok body -> wfkvs body.
Proof.
  induction 1 as [|c cs Hc _ IH]; intros kl body H; cbn [fields_ev] in H.
  - injection H as <-. constructor.
  - destruct kl as [|k kl]; [discriminate|]. inv_bind H. inv_bind H. injection H as <-.
    constructor; eauto.
Qed.

Lemma pick_nth_prop {A} (f : content -> res A) (P : A -> Prop) cs :
  Forall (fun c => forall y, f c = Ok y -> P y) cs -> forall k y, pick_nth f cs k = Ok y -> P y.
Proof.
  induction 1 as [|c cs Hc _ IH]; intros k y H; cbn [pick_nth] in H; [discriminate|].
  destruct k; eauto.
Qed.

Lemma item_wfv o c : forall q idx out, item o q c idx = Ok out -> wfv out.
Proof.
  induction c as [dt shape data| |w offs c IHc|w ss se c IHc|c size zl IHc|w ix c IHc|w ix c IHc|m vw c IHc|m vw lsb n c IHc|c IHc|w tags ix cs IHcs|cs ks n IHcs|arr rn c IHc] using content_ind'; intros q idx out H; cbn [item] in H.
  - destruct shape as [|n dims]; [discriminate|]. inv_bind H. eapply np_block_wfv; exact H.
  - discriminate.
  - inv_bind H. inv_bind H. eapply range_events_wfv; [|exact H]. intros; eapply IHc; eassumption.
  - inv_bind H. inv_bind H. eapply range_events_wfv; [|exact H]. intros; eapply IHc; eassumption.
  - eapply range_events_wfv; [|exact H]. intros; eapply IHc; eassumption.
  - inv_bind H. eapply IHc; exact H.
  - inv_bind H. destruct (x <? 0); [injection H as <-; constructor | eapply IHc; exact H].
  - inv_bind H. destruct (Bool.eqb _ _); [eapply IHc; exact H | injection H as <-; constructor].
  - inv_bind H. destruct (Bool.eqb _ _); [eapply IHc; exact H | injection H as <-; constructor].
  - eapply IHc; exact H.
  - inv_bind H. inv_bind H. destruct (x <? 0); [discriminate|].
    eapply (pick_nth_prop _ wfv); [|exact H]. eapply Forall_impl; [|exact IHcs]. cbn beta. intros c Hc y Hy. eapply Hc; exact Hy.
  - inv_bind H. injection H as <-. constructor.
    eapply fields_ev_wfkvs; [|exact E]. eapply Forall_impl; [|exact IHcs]. cbn beta. intros c Hc y Hy. eapply Hc; exact Hy.
  - eapply IHc; exact H.
Qed.

(** (a) whatever tojson_events emits is a well-formed event sequence (no validity hypothesis is needed) *)
Theorem events_wellformed_strong o c evs : tojson_events o c = Ok evs -> wf evs = true.
Proof.
  intros H. apply wf_iff. unfold tojson_events in H.
  eapply range_events_wfv; [|exact H]. intros; eapply item_wfv; eassumption.
Qed.

(* ---- the texts of the theorem contain no NUL, so the C-string view is the text itself *)
Definition nz (b : Z) : Prop := b <> 0.

Lemma cstr_id l : Forall nz l -> cstr l = l.
Proof.
  induction 1 as [|b l Hb _ IH]; [reflexivity|]. cbn [cstr].
  rewrite (proj2 (Z.eqb_neq b 0) Hb). rewrite IH. reflexivity.
Qed.

Lemma hexdigit_nz n : 0 <= n -> nz (hexdigit n).
Proof. unfold nz, hexdigit. destruct (n <? 10); lia. Qed.

Lemma esc_byte_nz c : 0 <= c -> Forall nz (esc_byte c).
Proof.
  intros H. unfold esc_byte, nz.
  destruct (c =? 34); [repeat constructor; lia|].
  destruct (c =? 92); [repeat constructor; lia|].
  destruct (c =? 8); [repeat constructor; lia|].
  destruct (c =? 12); [repeat constructor; lia|].
  destruct (c =? 10); [repeat constructor; lia|].
  destruct (c =? 13); [repeat constructor; lia|].
  destruct (c =? 9); [repeat constructor; lia|].
  destruct (c <? 32) eqn:E.
  - repeat constructor; try lia; apply hexdigit_nz; [apply Z.div_pos; lia | apply Z.mod_pos_bound; lia].
  - repeat constructor. lia.
Qed.

Lemma render_string_nz s : forallb is_byte s = true -> Forall nz (render_string s).
Proof.
  intros H. unfold render_string. constructor; [unfold nz; lia|]. apply Forall_app. split.
  - apply forallb_byte_nonneg in H. induction H as [|c s Hc _ IH]; cbn [flat_map]; [constructor|].
    apply Forall_app. split; [apply esc_byte_nz; exact Hc | exact IH].
  - repeat constructor. unfold nz; lia.
Qed.

Lemma digits_nz l : Forall (fun d => is_digit d = true) l -> Forall nz l.
Proof. apply Forall_impl. intros d H. apply is_digit_iff in H. unfold nz. lia. Qed.

Lemma dec_nz z : Forall nz (dec z).
Proof.
  unfold dec. destruct (z <? 0) eqn:E.
  - constructor; [unfold nz; lia|]. apply digits_nz, dec_nat_digits. lia.
  - apply digits_nz, dec_nat_digits. lia.
Qed.

Lemma tok_nz e : printable_ev e = true -> Forall nz (tok e).
Proof.
  destruct e; cbn [tok printable_ev]; intros P; try (repeat constructor; unfold nz; lia).
  - destruct b; repeat constructor; unfold nz; lia.
  - apply dec_nz.
  - destruct r; try discriminate. cbn [render_real]. apply Forall_app. split; [apply dec_nz|].
    repeat constructor; unfold nz; lia.
  - apply render_string_nz; exact P.
  - apply render_string_nz; exact P.
Qed.

Lemma render_nz evs : forall p, printable evs = true -> Forall nz (render_from p evs).
Proof.
  induction evs as [|e evs IH]; intros p P; [constructor|].
  cbn in P. apply andb_true_iff in P. destruct P as [Pe Ps]. cbn [render_from].
  apply Forall_app. split; [|apply Forall_app; split; [apply tok_nz; exact Pe | apply IH; exact Ps]].
  destruct p; cbn [sep]; [constructor | repeat constructor; unfold nz; lia |].
  destruct (is_end e); [constructor | repeat constructor; unfold nz; lia].
Qed.

Lemma ws_nz w : all_ws w -> Forall nz w.
Proof. apply Forall_impl. intros c H. unfold is_ws in H. unfold nz. lia. Qed.

Lemma docs_text_nz dws : Forall doc_ok dws -> Forall nz (docs_text dws).
Proof.
  induction 1 as [|[d w] dws (_ & P & Hw) _ IH]; [constructor|].
  unfold docs_text. cbn [map concat]. unfold doc_text at 1. cbn [fst snd] in *.
  rewrite <- app_assoc. apply Forall_app. split; [apply render_nz; exact P|].
  apply Forall_app. split; [apply ws_nz; exact Hw | exact IH].
Qed.

(** (d) for FromJsonString's view of the text *)
Theorem concat_docs_lemma o w0 dws : all_ws w0 -> Forall doc_ok dws -> seps_ok dws ->
  do_parse o (w0 ++ docs_text dws) = JDocs (map (fun dw => map (handler o) (fst dw)) dws).
Proof.
  intros Hw Hok Hsep. unfold do_parse. rewrite cstr_id.
  - apply concat_docs_text; assumption.
  - apply Forall_app. split; [apply ws_nz; exact Hw | apply docs_text_nz; exact Hok].
Qed.

(* documents whose strings do not collide with the substitution strings and whose keys have no NUL
   come back unchanged *)
Definition handler_neutral (o : jopts) (e : ev) : Prop := handler o e = e.

Corollary concat_docs_neutral o w0 dws : all_ws w0 -> Forall doc_ok dws -> seps_ok dws ->
  Forall (fun dw => Forall (handler_neutral o) (fst dw)) dws ->
  do_parse o (w0 ++ docs_text dws) = JDocs (map fst dws).
Proof.
  intros Hw Hok Hsep Hn. rewrite concat_docs_lemma by assumption. f_equal.
  apply map_ext_in. intros dw Hin. rewrite Forall_forall in Hn. specialize (Hn dw Hin).
  induction Hn as [|e es He _ IH]; [reflexivity|]. cbn [map]. rewrite He, IH. reflexivity.
Qed.

(* ================================================================== list plumbing for (b) *)

Lemma mapM_Forall2 {A B} (f : A -> res B) l : forall ys,
  mapM f l = Ok ys <-> Forall2 (fun x y => f x = Ok y) l ys.
Proof.
  induction l as [|a l IH]; intros ys; cbn [mapM]; split; intros H.
  - injection H as <-. constructor.
  - inversion H. reflexivity.
  - inv_bind H. inv_bind H. injection H as <-. constructor; [assumption | apply IH; assumption].
  - inversion H as [|? y ? ys' Hy Hys]; subst. rewrite Hy. cbn [bind].
    rewrite (proj2 (IH ys') Hys). reflexivity.
Qed.

Lemma Forall2_firstn {A B} (R : A -> B -> Prop) k : forall l l', Forall2 R l l' -> Forall2 R (firstn k l) (firstn k l').
Proof. induction k; intros l l' H; [constructor|]. destruct H; cbn; constructor; auto. Qed.

Lemma Forall2_skipn {A B} (R : A -> B -> Prop) k : forall l l', Forall2 R l l' -> Forall2 R (skipn k l) (skipn k l').
Proof. induction k; intros l l' H; [exact H|]. destruct H; cbn; [constructor | auto]. Qed.

Lemma Forall2_len {A B} (R : A -> B -> Prop) l l' : Forall2 R l l' -> length l = length l'.
Proof. induction 1; cbn; congruence. Qed.

Lemma Forall2_imp {A B} (R S : A -> B -> Prop) l l' : (forall x y, R x y -> S x y) -> Forall2 R l l' -> Forall2 S l l'.
Proof. intros HI. induction 1; constructor; auto. Qed.

Lemma Forall2_map_r {A B C} (R : A -> C -> Prop) (g : B -> C) l l' :
  Forall2 (fun x y => R x (g y)) l l' -> Forall2 R l (map g l').
Proof. induction 1; cbn; constructor; auto. Qed.

Lemma Forall2_comp {A B C} (R : A -> B -> Prop) (S : B -> C -> Prop) l1 l2 : Forall2 R l1 l2 ->
  forall l3, Forall2 S l2 l3 -> Forall2 (fun x z => exists y, R x y /\ S y z) l1 l3.
Proof.
  induction 1; intros l3 H3; inversion H3; subst; constructor; eauto.
Qed.

Lemma Forall2_imp_in {A B} (R S : A -> B -> Prop) l l' :
  (forall x y, In x l -> R x y -> S x y) -> Forall2 R l l' -> Forall2 S l l'.
Proof.
  intros HI H. induction H; constructor.
  - apply HI; [left; reflexivity | assumption].
  - apply IHForall2. intros; apply HI; [right|]; assumption.
Qed.

Lemma forallb_Forall_true {A} (f : A -> bool) l : forallb f l = true -> Forall (fun x => f x = true) l.
Proof. intros H. apply Forall_forall. rewrite forallb_forall in H. exact H. Qed.

Lemma Forall2_map_l_inv {A B C} (R : C -> B -> Prop) (g : A -> C) l : forall l',
  Forall2 R (map g l) l' -> Forall2 (fun x y => R (g x) y) l l'.
Proof. induction l; intros l' H; inversion H; subst; constructor; auto. Qed.

Lemma iota_nat_length s n : length (iota_nat s n) = n.
Proof. revert s. induction n; intros s; cbn; [reflexivity | rewrite IHn; reflexivity]. Qed.

Lemma iota_nat_firstn n : forall s k, (k <= n)%nat -> firstn k (iota_nat s n) = iota_nat s k.
Proof.
  induction n; intros s k Hk.
  - assert (k = 0%nat) by lia. subst. reflexivity.
  - destruct k; [reflexivity|]. cbn. rewrite IHn by lia. reflexivity.
Qed.

Lemma iota_nat_skipn n : forall s k, (k <= n)%nat -> skipn k (iota_nat s n) = iota_nat (s + Z.of_nat k) (n - k).
Proof.
  induction n; intros s k Hk.
  - assert (k = 0%nat) by lia. subst. cbn. reflexivity.
  - destruct k.
    + cbn [skipn]. replace (s + Z.of_nat 0) with s by lia. reflexivity.
    + cbn [skipn iota_nat]. rewrite IHn by lia. replace (s + 1 + Z.of_nat k) with (s + Z.of_nat (S k)) by lia. reflexivity.
Qed.

Lemma range_of_iota n a b : 0 <= a -> a <= b -> b <= n ->
  range a b = take (b - a) (drop a (iota n)).
Proof.
  intros Ha Hab Hbn. unfold range, take, drop, iota.
  rewrite iota_nat_skipn by lia. rewrite iota_nat_firstn by lia. f_equal. lia.
Qed.

Lemma get_app_here {A} (pre l : list A) x : get (pre ++ x :: l) (zlen pre) = Ok x.
Proof.
  unfold get, zlen. replace (Z.of_nat (length pre) <? 0) with false by lia.
  rewrite Nat2Z.id. rewrite nth_error_app2 by lia. rewrite Nat.sub_diag. reflexivity.
Qed.

Lemma get_iota_gen {A} (l : list A) : forall pre,
  Forall2 (fun i x => get (pre ++ l) i = Ok x) (iota_nat (zlen pre) (length l)) l.
Proof.
  induction l as [|x l IH]; intros pre; cbn [length iota_nat]; constructor.
  - apply get_app_here.
  - specialize (IH (pre ++ [x])). rewrite <- app_assoc in IH. cbn [app] in IH.
    unfold zlen in *. rewrite app_length in IH. cbn [length] in IH.
    replace (Z.of_nat (length pre + 1)) with (Z.of_nat (length pre) + 1) in IH by lia. exact IH.
Qed.

Lemma get_iota {A} (l : list A) : Forall2 (fun i x => get l i = Ok x) (iota (zlen l)) l.
Proof.
  pose proof (get_iota_gen l []) as H. cbn [app] in H. unfold iota, zlen in *.
  rewrite Nat2Z.id. exact H.
Qed.

Lemma Forall2_iota_nth {A} (P : Z -> A -> Prop) (l : list A) : forall s,
  Forall2 P (iota_nat s (length l)) l -> forall k v, nth_error l k = Some v -> P (s + Z.of_nat k) v.
Proof.
  induction l as [|x l IH]; intros s H k v Hk; [destruct k; discriminate|].
  cbn [length iota_nat] in H. inversion H; subst. destruct k.
  - injection Hk as <-. replace (s + Z.of_nat 0) with s by lia. assumption.
  - cbn [nth_error] in Hk. replace (s + Z.of_nat (S k)) with (s + 1 + Z.of_nat k) by lia. eapply IH; eassumption.
Qed.

Lemma Forall2_get {A} (P : Z -> A -> Prop) (l : list A) j v :
  Forall2 P (iota (zlen l)) l -> get l j = Ok v -> P j v.
Proof.
  intros H G. unfold get in G. destruct (j <? 0) eqn:E; [discriminate|].
  destruct (nth_error l (Z.to_nat j)) eqn:N; [|discriminate]. injection G as ->.
  unfold iota, zlen in H. rewrite Nat2Z.id in H.
  pose proof (Forall2_iota_nth P l 0 H _ _ N) as Q. rewrite Z2Nat.id in Q by lia. exact Q.
Qed.

Lemma slice_inv {A} (l : list A) a b s : slice l a b = Ok s ->
  0 <= a /\ a <= b /\ b <= zlen l /\ s = take (b - a) (drop a l).
Proof.
  unfold slice. destruct ((0 <=? a) && (a <=? b) && (b <=? zlen l)) eqn:E; [|discriminate].
  intros H. injection H as <-. repeat split; lia.
Qed.

Lemma nth_error_skipn {A} (l : list A) : forall k x, nth_error l k = Some x -> exists t, skipn k l = x :: t.
Proof.
  induction l as [|y l IH]; intros k x H; [destruct k; discriminate|].
  destruct k; [injection H as ->; cbn; eauto | cbn; eapply IH; exact H].
Qed.

Lemma slice_one {A} (l : list A) i x : get l i = Ok x -> slice l i (i + 1) = Ok [x].
Proof.
  intros G. unfold get in G. destruct (i <? 0) eqn:E; [discriminate|].
  destruct (nth_error l (Z.to_nat i)) eqn:N; [|discriminate]. injection G as ->.
  assert (L : (Z.to_nat i < length l)%nat) by (apply nth_error_Some; congruence).
  unfold slice, zlen. replace ((0 <=? i) && (i <=? i + 1) && (i + 1 <=? Z.of_nat (length l))) with true by lia.
  unfold take, drop. destruct (nth_error_skipn _ _ _ N) as (t & ->).
  replace (Z.to_nat (i + 1 - i)) with 1%nat by lia. reflexivity.
Qed.

(* the items of a slice of a list, through a pointwise property indexed by position *)
Lemma Forall2_slice {A} (P : Z -> A -> Prop) (l : list A) a b s :
  Forall2 P (iota (zlen l)) l -> slice l a b = Ok s -> Forall2 P (range a b) s.
Proof.
  intros H S. destruct (slice_inv _ _ _ _ S) as (Ha & Hab & Hb & ->).
  rewrite (range_of_iota (zlen l)) by lia. unfold take, drop.
  apply Forall2_firstn, Forall2_skipn. exact H.
Qed.

(* ================================================================== (b) events fold back into the value *)

(** [ev_val e v]: the complete event sequence [e] denotes the value [v] *)
Inductive ev_val : list ev -> value -> Prop :=
| EV_null : ev_val [ENull] VNone
| EV_bool b : ev_val [EBool b] (VBool b)
| EV_int z : ev_val [EInt z] (VNum (DZ z))
| EV_real r d : datum_of r = Ok d -> ev_val [EReal r] (VNum d)
| EV_str s : ev_val [EStr s] (VStr true s)
| EV_arr es vs : ev_vals es vs -> ev_val (ESA :: es ++ [EEA]) (VList vs)
| EV_obj es kvs : ev_kvs es kvs -> ev_val (ESO :: es ++ [EEO]) (VRec kvs)
with ev_vals : list ev -> list value -> Prop :=
| EVS_nil : ev_vals [] []
| EVS_cons e es v vs : ev_val e v -> ev_vals es vs -> ev_vals (e ++ es) (v :: vs)
with ev_kvs : list ev -> list (name * value) -> Prop :=
| EVK_nil : ev_kvs [] []
| EVK_cons k e es v kvs : ev_val e v -> ev_kvs es kvs -> ev_kvs (EKey k :: e ++ es) ((k, v) :: kvs).

Scheme ev_val_mut := Minimality for ev_val Sort Prop
  with ev_vals_mut := Minimality for ev_vals Sort Prop
  with ev_kvs_mut := Minimality for ev_kvs Sort Prop.
Combined Scheme ev_mutind from ev_val_mut, ev_vals_mut, ev_kvs_mut.

Lemma ev_val_head e v : ev_val e v -> exists h t, e = h :: t /\ is_start h = true.
Proof. destruct 1; eauto. Qed.

Lemma ev_val_length e v : ev_val e v -> (1 <= length e)%nat.
Proof. intros H. destruct (ev_val_head e v H) as (h & t & -> & _). cbn. lia. Qed.

Lemma jval_complete :
  (forall e v, ev_val e v -> forall r f, (length e < f)%nat -> jval f (e ++ r) = Ok (v, r)) /\
  (forall es vs, ev_vals es vs -> forall r f, (length es + 1 < f)%nat -> jvals f (es ++ EEA :: r) = Ok (vs, r)) /\
  (forall es kvs, ev_kvs es kvs -> forall r f, (length es + 1 < f)%nat -> jkvs f (es ++ EEO :: r) = Ok (kvs, r)).
Proof.
  apply ev_mutind.
  - intros r [|f] L; [cbn in L; lia | reflexivity].
  - intros b r [|f] L; [cbn in L; lia | reflexivity].
  - intros z r [|f] L; [cbn in L; lia | reflexivity].
  - intros x d Hd r [|f] L; [cbn in L; lia |]. cbn [app jval]. rewrite Hd. reflexivity.
  - intros s r [|f] L; [cbn in L; lia | reflexivity].
  - intros es vs _ IH r [|f] L; [cbn in L; lia|].
    cbn [app jval]. rewrite <- app_assoc. cbn [app]. rewrite IH; [reflexivity|].
    cbn [length] in L. rewrite app_length in L. cbn in L. lia.
  - intros es kvs _ IH r [|f] L; [cbn in L; lia|].
    cbn [app jval]. rewrite <- app_assoc. cbn [app]. rewrite IH; [reflexivity|].
    cbn [length] in L. rewrite app_length in L. cbn in L. lia.
  - intros r [|f] L; [cbn in L; lia | reflexivity].
  - intros e es v vs He IHe _ IHs r [|f] L; [cbn in L; lia|].
    rewrite app_length in L. pose proof (ev_val_length e v He).
    destruct (ev_val_head e v He) as (h & t & -> & Hh).
    cbn [jvals app]. rewrite <- app_assoc.
    assert (E : jval f ((h :: t) ++ es ++ EEA :: r) = Ok (v, es ++ EEA :: r)) by (apply IHe; lia).
    cbn [app] in E. destruct h; try discriminate Hh; rewrite E; cbn [bind fst snd]; rewrite IHs by lia; reflexivity.
  - intros r [|f] L; [cbn in L; lia | reflexivity].
  - intros k e es v kvs He IHe _ IHs r [|f] L; [cbn in L; lia|].
    cbn [length] in L. rewrite app_length in L. pose proof (ev_val_length e v He).
    cbn [jkvs app]. rewrite <- app_assoc.
    rewrite IHe by lia. cbn [bind fst snd]. rewrite IHs by lia. reflexivity.
Qed.

Lemma json_value_of e v : ev_val e v -> json_value e = Ok (v, []).
Proof.
  intros H. unfold json_value. pose proof (proj1 jval_complete e v H [] (S (length e)) ltac:(lia)) as E.
  rewrite app_nil_r in E. exact E.
Qed.

(* ---- leaves *)
Lemma real_ev_val o d : ev_val [real_ev o d] (jv o (VNum d)).
Proof.
  destruct d as [z| |[|]]; cbn [real_ev jv].
  - constructor. reflexivity.
  - destruct (nan_s o); constructor. reflexivity.
  - destruct (minf_s o); constructor. reflexivity.
  - destruct (inf_s o); constructor. reflexivity.
Qed.

Lemma scalar_ev_val o dt d : (dt = DUInt64 -> datum_i64 d = true) ->
  ev_val [scalar_ev o dt d] (jv o (leaf dt d)).
Proof.
  intros Hu. destruct dt; cbn [scalar_ev leaf]; try apply real_ev_val;
    try (destruct d; [constructor | apply real_ev_val | apply real_ev_val]).
  - (* bool *) destruct d; constructor.
  - (* uint64 *) destruct d as [z| |n]; try apply real_ev_val.
    specialize (Hu eq_refl). cbn in Hu. rewrite wrap64_small by lia. constructor.
Qed.

(* ---- assembling items *)
Definition item_ok (o : jopts) (c : content) (i : Z) (v : value) : Prop :=
  exists e, item o None c i = Ok e /\ ev_val e (jv o v).

Lemma Forall2_build {I} (f : I -> res (list ev)) (g : value -> value) is vs :
  Forall2 (fun i v => exists e, f i = Ok e /\ ev_val e (g v)) is vs ->
  exists xs, mapM f is = Ok xs /\ ev_vals (concat xs) (map g vs).
Proof.
  induction 1 as [|i v is vs (e & He & Hv) _ (xs & Hxs & Hvs)].
  - exists []. split; [reflexivity | constructor].
  - exists (e :: xs). split; [cbn [mapM]; rewrite He, Hxs; reflexivity|].
    cbn [concat map]. constructor; assumption.
Qed.

(* the range a..b of a child prints as the array of the corresponding slice of its values *)
Lemma range_items o c vs a b l : chars_of None c = None ->
  Forall2 (item_ok o c) (iota (zlen vs)) vs -> cut1 vs (a, b) = Ok l ->
  exists e, range_events (item o None c) (chars_of None c) a b = Ok e /\ ev_val e (jv o (VList l)).
Proof.
  intros Hc HF Hcut. rewrite Hc. unfold range_events.
  assert (G : Forall2 (item_ok o c) (range a b) l).
  { unfold cut1 in Hcut. destruct (a =? b) eqn:E.
    - injection Hcut as <-. replace b with a by lia. unfold range. rewrite Z.sub_diag. constructor.
    - eapply Forall2_slice; eassumption. }
  destruct (Forall2_build _ (jv o) _ _ G) as (xs & Hxs & Hvs).
  rewrite Hxs. cbn [bind]. eexists. split; [reflexivity|]. cbn [jv]. constructor. exact Hvs.
Qed.

(* ---- index views of the buffers *)
Lemma frag_chars c : frag15 c = true -> chars_of None c = None.
Proof.
  induction c using content_ind'; cbn [frag15 chars_of]; intros F; try reflexivity; try discriminate; auto.
  - destruct shape as [|n [|m t]]; reflexivity.
  - destruct arr as [k|]; [|auto]. unfold str_chars in F.
    destruct c; cbn [list_content] in F; try discriminate F; reflexivity.
Qed.

Lemma pairs_get_gen o : forall pre,
  Forall2 (fun i ab => get (pre ++ o) i = Ok (fst ab) /\ get (pre ++ o) (i + 1) = Ok (snd ab))
          (iota_nat (zlen pre) (length (pairs o))) (pairs o).
Proof.
  induction o as [|a o IH]; intros pre; [constructor|].
  destruct o as [|b t]; [constructor|].
  cbn [pairs length iota_nat]. constructor.
  - cbn [fst snd]. split; [apply get_app_here|].
    replace (pre ++ a :: b :: t) with ((pre ++ [a]) ++ b :: t) by (rewrite <- app_assoc; reflexivity).
    replace (zlen pre + 1) with (zlen (pre ++ [a])) by (unfold zlen; rewrite app_length; cbn; lia).
    apply get_app_here.
  - specialize (IH (pre ++ [a])). rewrite <- app_assoc in IH. cbn [app] in IH.
    replace (zlen (pre ++ [a])) with (zlen pre + 1) in IH by (unfold zlen; rewrite app_length; cbn; lia).
    exact IH.
Qed.

Lemma pairs_get o : Forall2 (fun i ab => get o i = Ok (fst ab) /\ get o (i + 1) = Ok (snd ab))
                            (iota (zlen (pairs o))) (pairs o).
Proof.
  pose proof (pairs_get_gen o []) as H. cbn [app] in H. unfold iota, zlen in *. rewrite Nat2Z.id. exact H.
Qed.

Lemma zip_get_gen {A B} (s : list A) : forall (e : list B) p1 p2, zlen p1 = zlen p2 ->
  Forall2 (fun i ab => get (p1 ++ s) i = Ok (fst ab) /\ get (p2 ++ e) i = Ok (snd ab))
          (iota_nat (zlen p1) (length (zip s e))) (zip s e).
Proof.
  induction s as [|a s IH]; intros e p1 p2 Hp; [constructor|].
  destruct e as [|b e]; [constructor|].
  cbn [zip length iota_nat]. constructor.
  - cbn [fst snd]. split; [apply get_app_here | rewrite Hp; apply get_app_here].
  - specialize (IH e (p1 ++ [a]) (p2 ++ [b])). rewrite <- !app_assoc in IH. cbn [app] in IH.
    replace (zlen (p1 ++ [a])) with (zlen p1 + 1) in IH by (unfold zlen; rewrite app_length; cbn; lia).
    apply IH. unfold zlen in *. rewrite !app_length. cbn. lia.
Qed.

Lemma zip_get {A B} (s : list A) (e : list B) :
  Forall2 (fun i ab => get s i = Ok (fst ab) /\ get e i = Ok (snd ab)) (iota (zlen (zip s e))) (zip s e).
Proof.
  pose proof (zip_get_gen s e [] [] eq_refl) as H. cbn [app] in H. unfold iota, zlen in *. rewrite Nat2Z.id. exact H.
Qed.

Lemma zip_length_le {A B} (s : list A) : forall (e : list B), (length s <= length e)%nat -> length (zip s e) = length s.
Proof. induction s; intros [|b e] L; cbn in *; try lia. rewrite IHs by lia. reflexivity. Qed.

Lemma pairs_length o : o <> [] -> length (pairs o) = (length o - 1)%nat.
Proof.
  induction o as [|a o IH]; intros H; [congruence|]. destruct o as [|b t]; [reflexivity|].
  change (pairs (a :: b :: t)) with ((a, b) :: pairs (b :: t)). cbn [length]. rewrite IH by discriminate. cbn [length]. lia.
Qed.

Lemma Forall2_zip_self {A B} (R : A -> B -> Prop) l1 l2 : Forall2 R l1 l2 ->
  Forall2 (fun a ab => fst ab = a /\ R a (snd ab)) l1 (zip l1 l2).
Proof. induction 1; cbn [zip]; constructor; auto. Qed.

Lemma Forall2_idx {X Y} (G : Z -> X -> Prop) (F : X -> Y -> Prop) (Q : Z -> Y -> Prop) is xs ys :
  Forall2 G is xs -> Forall2 F xs ys -> (forall i x y, G i x -> F x y -> Q i y) -> Forall2 Q is ys.
Proof.
  intros HG HF HQ. eapply Forall2_imp; [|eapply Forall2_comp; eassumption].
  cbn beta. intros i y (x & Hg & Hf). eauto.
Qed.

Lemma zlen_iota n : 0 <= n -> zlen (iota n) = n.
Proof. intros H. unfold zlen, iota. rewrite iota_nat_length. lia. Qed.

Lemma range_0 n : range 0 n = iota n.
Proof. unfold range, iota. rewrite Z.sub_0_r. reflexivity. Qed.

Lemma skipn_skipn' {A} (l : list A) : forall x y, skipn x (skipn y l) = skipn (y + x) l.
Proof.
  induction l as [|a l IH]; intros x y; [rewrite !skipn_nil; reflexivity|].
  destruct y; [reflexivity|]. cbn [skipn Nat.add]. apply IH.
Qed.

(* chunks of a RegularArray *)
Lemma chunks_nat_spec {A} n (Hn : 0 <= n) count : forall (vs : list A) s,
  Forall2 (fun i l => s <= i < s + Z.of_nat count /\ l = take n (drop ((i - s) * n) vs))
          (iota_nat s count) (chunks_nat vs n count).
Proof.
  induction count as [|k IH]; intros vs s; [constructor|].
  cbn [iota_nat chunks_nat]. constructor.
  - split; [lia|]. rewrite Z.sub_diag. reflexivity.
  - eapply Forall2_imp; [|apply (IH (drop n vs) (s + 1))]. cbn beta. intros i l (Hi & ->). split; [lia|].
    unfold drop. rewrite skipn_skipn'. do 2 f_equal. nia.
Qed.

Lemma all_fix_Forall2 cs : forall vss,
  (fix all (l : list content) : res (list (list value)) :=
     match l with
     | [] => Ok []
     | x :: xs => do v <- to_list x; do vs <- all xs; Ok (v :: vs)
     end) cs = Ok vss -> Forall2 (fun c vs => to_list c = Ok vs) cs vss.
Proof.
  induction cs as [|c cs IH]; intros vss H.
  - injection H as <-. constructor.
  - inv_bind H. inv_bind H. injection H as <-. constructor; auto.
Qed.

Lemma frag_all_Forall (f : content -> bool) cs :
  (fix all (l : list content) : bool := match l with [] => true | x :: xs => f x && all xs end) cs = true ->
  Forall (fun c => f c = true) cs.
Proof.
  induction cs as [|c cs IH]; intros H; [constructor|]. apply andb_true_iff in H. destruct H. constructor; auto.
Qed.

Lemma zip_map_jv o ks vs :
  map (fun kv : name * value => match kv with (k, x) => (k, jv o x) end) (zip ks vs) = zip ks (map (jv o) vs).
Proof. revert vs. induction ks as [|k ks IH]; intros [|v vs]; cbn; try reflexivity. rewrite IH. reflexivity. Qed.

(* one row of a RecordArray *)
Lemma fields_row o i cs : forall vss rowv keys,
  Forall2 (fun c vs => forall v, get vs i = Ok v -> item_ok o c i v) cs vss ->
  mapM (fun col => get col i) vss = Ok rowv -> length keys = length cs ->
  exists body, fields_ev (fun x => item o None x i) cs keys = Ok body /\
               ev_kvs body (zip keys (map (jv o) rowv)).
Proof.
  induction cs as [|c cs IH]; intros vss rowv keys HF HM HL; inversion HF; subst.
  - cbn in HM. injection HM as <-. destruct keys; [|discriminate]. exists []. split; [reflexivity | constructor].
  - cbn [mapM] in HM. inv_bind HM. inv_bind HM. injection HM as <-.
    destruct keys as [|k keys]; [discriminate|]. cbn [length] in HL.
    destruct (H1 _ E) as (e & He & Hv).
    destruct (IH _ _ keys H3 E0 ltac:(lia)) as (body & Hb & Hk).
    exists (EKey k :: e ++ body). split; [cbn [fields_ev]; rewrite He, Hb; reflexivity|].
    cbn [map zip]. constructor; assumption.
Qed.

Lemma take_zlen {A} (l : list A) n : 0 <= n <= zlen l -> zlen (take n l) = n.
Proof. intros H. unfold zlen, take in *. rewrite firstn_length_le by lia. lia. Qed.

Lemma iota_take n m : 0 <= n <= m -> iota n = take n (iota m).
Proof. intros H. unfold iota, take. rewrite iota_nat_firstn by lia. reflexivity. Qed.

Lemma get_In {A} (l : list A) i x : get l i = Ok x -> In x l.
Proof.
  unfold get. destruct (i <? 0); [discriminate|]. destruct (nth_error l (Z.to_nat i)) eqn:E; [|discriminate].
  intros H. injection H as <-. eapply nth_error_In; exact E.
Qed.

Lemma Forall2_diag {A} (R : A -> A -> Prop) l : (forall x, R x x) -> Forall2 R l l.
Proof. intros H. induction l; constructor; auto. Qed.

Lemma Forall2_Forall_l {A B} (P : A -> Prop) (R : A -> B -> Prop) l l' :
  Forall P l -> Forall2 R l l' -> Forall2 (fun x y => P x /\ R x y) l l'.
Proof. intros HP HR. induction HR; inversion HP; subst; constructor; auto. Qed.

Lemma zlen_map {A B} (f : A -> B) l : zlen (map f l) = zlen l.
Proof. unfold zlen. rewrite map_length. reflexivity. Qed.

Lemma tuple_keys_length n : length (tuple_keys n) = n.
Proof. unfold tuple_keys. rewrite map_length. unfold iota. rewrite iota_nat_length. lia. Qed.

Lemma item_ok_lift o c c' (i j : Z) v : item o None c' i = item o None c j -> item_ok o c j v -> item_ok o c' i v.
Proof. intros E (e & He & Hv). exists e. split; [rewrite E; exact He | exact Hv]. Qed.

Lemma item_ok_null o c i : item o None c i = Ok [ENull] -> item_ok o c i VNone.
Proof. intros E. exists [ENull]. split; [exact E | constructor]. Qed.

(* ---- n-d NumpyArray *)
Lemma slice_ok {A} (l : list A) a b : 0 <= a -> a <= b -> b <= zlen l -> slice l a b = Ok (take (b - a) (drop a l)).
Proof. intros. unfold slice. replace ((0 <=? a) && (a <=? b) && (b <=? zlen l)) with true by lia. reflexivity. Qed.

Lemma take_drop_zlen {A} (l : list A) a k : 0 <= a -> 0 <= k -> a + k <= zlen l -> zlen (take k (drop a l)) = k.
Proof.
  intros. unfold zlen, take, drop in *. rewrite firstn_length, skipn_length. lia.
Qed.

(* a slice of a slice is a slice *)
Lemma slice_slice {A} (l : list A) a b s x y : slice l a b = Ok s -> 0 <= x -> x <= y -> y <= b - a ->
  slice s x y = slice l (a + x) (a + y).
Proof.
  intros H Hx Hxy Hy. destruct (slice_inv _ _ _ _ H) as (Ha & Hab & Hb & ->).
  rewrite slice_ok by (rewrite ?take_drop_zlen; lia). rewrite slice_ok by lia. f_equal.
  unfold take, drop. rewrite skipn_firstn_comm, skipn_skipn', firstn_firstn. f_equal; [lia | f_equal; lia].
Qed.

Lemma iota_nat_shift n : forall s a, iota_nat (a + s) n = map (fun k => a + k) (iota_nat s n).
Proof. induction n; intros s a; cbn; [reflexivity|]. f_equal. rewrite <- IHn. f_equal. lia. Qed.

Lemma range_shift a n : 0 <= n -> range a (a + n) = map (fun k => a + k) (iota n).
Proof.
  intros Hn. unfold range, iota. replace (a + n - a) with n by lia.
  rewrite <- iota_nat_shift. f_equal. lia.
Qed.

Lemma mapM_map {A B C} (f : B -> res C) (g : A -> B) l : mapM f (map g l) = mapM (fun x => f (g x)) l.
Proof. induction l; cbn; [reflexivity|]. rewrite IHl. reflexivity. Qed.

Lemma mapM_ext_in {A B} (f g : A -> res B) l : (forall x, In x l -> f x = g x) -> mapM f l = mapM g l.
Proof.
  induction l as [|a l IH]; intros H; cbn; [reflexivity|].
  rewrite (H a (or_introl eq_refl)). rewrite IH by (intros; apply H; right; assumption). reflexivity.
Qed.

Lemma in_iota k n : In k (iota n) -> 0 <= k < n.
Proof.
  unfold iota. assert (G : forall m s, In k (iota_nat s m) -> s <= k < s + Z.of_nat m).
  { induction m; intros s H; cbn in H; [tauto|]. destruct H as [<- | H]; [lia|]. specialize (IHm _ H). lia. }
  intros H. specialize (G _ _ H). lia.
Qed.

Lemma prodZ_nonneg dims : Forall (fun d => 0 <= d) dims -> 0 <= prodZ dims.
Proof. induction 1; cbn [prodZ fold_right]; [lia|]. fold (prodZ l). nia. Qed.

Lemma np_block_cons o dt d ds sub :
  np_block o false dt (d :: ds) sub =
  do xs <- mapM (fun k => do sub' <- slice sub (k * prodZ ds) ((k + 1) * prodZ ds); np_block o false dt ds sub') (iota d);
  Ok (ESA :: concat xs ++ [EEA]).
Proof. cbn [np_block]. destruct ds; reflexivity. Qed.

(* the nesting of to_list and the recursion of tojson_boolean/integer/real over the dimensions agree *)
Lemma nest_spec o dt (Hu : forall d, dt = DUInt64 -> datum_i64 d = true \/ True) dims :
  forall count flat vs,
  Forall (fun d => 0 <= d) dims -> 0 <= count -> zlen flat = count * prodZ dims ->
  (dt = DUInt64 -> Forall (fun d => datum_i64 d = true) flat) ->
  nest dims count (map (leaf dt) flat) = Ok vs ->
  zlen vs = count /\
  Forall2 (fun i v => exists sub e, slice flat (i * prodZ dims) ((i + 1) * prodZ dims) = Ok sub /\
                                    np_block o false dt dims sub = Ok e /\ ev_val e (jv o v)) (iota count) vs.
Proof.
  clear Hu. induction dims as [|d ds IH]; intros count flat vs Hd Hc Hlen Hu64 H.
  - cbn [nest] in H. injection H as <-. cbn [prodZ fold_right] in *. rewrite Z.mul_1_r in Hlen.
    rewrite zlen_map. split; [exact Hlen|]. apply Forall2_map_r. rewrite <- Hlen.
    eapply Forall2_imp; [|apply get_iota]. cbn beta. intros i x Hg.
    exists [x], [scalar_ev o dt x]. rewrite !Z.mul_1_r. split; [apply slice_one; exact Hg|]. split; [reflexivity|].
    apply scalar_ev_val. intros E. specialize (Hu64 E). rewrite Forall_forall in Hu64. apply Hu64. eapply get_In; exact Hg.
  - inversion Hd as [|? ? Hd0 Hds]; subst. pose proof (prodZ_nonneg ds Hds) as HP.
    cbn [nest] in H. inv_bind H. rename x into inner. inv_bind H. rename x into ch. injection H as <-.
    assert (Hlen' : zlen flat = count * d * prodZ ds) by (rewrite Hlen; cbn [prodZ fold_right]; fold (prodZ ds); lia).
    destruct (IH (count * d) flat inner Hds ltac:(nia) Hlen' Hu64 E) as (Hin & HF).
    cbn [prodZ fold_right]. fold (prodZ ds). set (P := prodZ ds) in *.
    unfold chunks in E0. destruct (d <? 0) eqn:Ed; [lia|]. rewrite zlen_map.
    destruct (d =? 0) eqn:E0d.
    + assert (d = 0) by lia. subst d. destruct (count <? 0) eqn:Ec; [lia|]. injection E0 as <-.
      rewrite zlen_map, zlen_iota by lia. split; [reflexivity|].
      apply Forall2_map_r, Forall2_map_r. apply Forall2_diag. intros i.
      exists [], [ESA; EEA]. split; [|split].
      * replace (i * (0 * P)) with 0 by lia. replace ((i + 1) * (0 * P)) with 0 by lia.
        rewrite slice_ok by (unfold zlen; lia). reflexivity.
      * rewrite np_block_cons. reflexivity.
      * cbn [jv map]. apply (EV_arr [] []). constructor.
    + injection E0 as <-. rewrite Hin. rewrite Z.div_mul by lia.
      pose proof (chunks_nat_spec d ltac:(lia) (Z.to_nat count) inner 0) as CS.
      pose proof (Forall2_len _ _ _ CS) as CL. rewrite iota_nat_length in CL.
      split; [unfold zlen; rewrite <- CL; lia|].
      apply Forall2_map_r. unfold iota.
      eapply Forall2_imp; [|exact CS]. cbn beta. intros i l (Hi & ->).
      rewrite Z.sub_0_r.
      assert (Hsl : slice inner (i * d) (i * d + d) = Ok (take d (drop (i * d) inner))).
      { rewrite slice_ok by nia. f_equal. f_equal. lia. }
      pose proof HF as HF'. rewrite <- Hin in HF'.
      pose proof (Forall2_slice _ _ _ _ _ HF' Hsl) as HR.
      rewrite range_shift in HR by lia. apply Forall2_map_l_inv in HR.
      assert (Hsub : slice flat (i * (d * P)) ((i + 1) * (d * P)) = Ok (take ((i + 1) * (d * P) - i * (d * P)) (drop (i * (d * P)) flat))).
      { apply slice_ok; nia. }
      assert (HB : Forall2 (fun k v => exists e, (do sub' <- slice (take ((i + 1) * (d * P) - i * (d * P)) (drop (i * (d * P)) flat)) (k * P) ((k + 1) * P);
                                                    np_block o false dt ds sub') = Ok e /\ ev_val e (jv o v))
                           (iota d) (take d (drop (i * d) inner))).
      { eapply Forall2_imp_in; [|exact HR]. cbn beta. intros k v Hk (sub & e & Hs & Hb & Hv).
        apply in_iota in Hk. exists e. split; [|exact Hv].
        rewrite (slice_slice _ _ _ _ (k * P) ((k + 1) * P) Hsub) by nia.
        replace (i * (d * P) + k * P) with ((i * d + k) * P) by lia.
        replace (i * (d * P) + (k + 1) * P) with ((i * d + k + 1) * P) by lia.
        rewrite Hs. exact Hb. }
      destruct (Forall2_build _ (jv o) _ _ HB) as (xs & Hxs & Hvs).
      eexists _, (ESA :: concat xs ++ [EEA]). split; [exact Hsub|]. split.
      * rewrite np_block_cons. change (prodZ ds) with P. rewrite Hxs. reflexivity.
      * cbn [jv]. constructor. exact Hvs.
Qed.

(* ---- strings *)
Lemma numpy1_to_list dt n data vs : to_list (Numpy dt [n] data) = Ok vs ->
  0 <= n <= zlen data /\ vs = map (leaf dt) (take n data).
Proof.
  cbn [to_list existsb orb]. rewrite orb_false_r. destruct (n <? 0) eqn:En; [discriminate|].
  cbn [prodZ fold_right]. rewrite Z.mul_1_r. destruct (zlen data <? n) eqn:Ed; [discriminate|].
  cbn [nest bind]. intros H. injection H as <-. split; [lia | reflexivity].
Qed.

Lemma list_content_to_list L cc vs : list_content L = Some cc -> to_list L = Ok vs -> exists cs, to_list cc = Ok cs.
Proof.
  intros HL T. destruct L; try discriminate HL; cbn [list_content] in HL; injection HL as ->;
    cbn [to_list] in T; inv_bind T; eauto.
Qed.

Lemma str_chars_inv k c d : str_chars k c = Some d ->
  exists cc k' rn n, list_content c = Some cc /\ cc = Par (Some k') rn (Numpy DUInt8 [n] d) /\
    ((k = AString /\ k' = AChar) \/ (k = ABytestring /\ k' = AByte)).
Proof.
  unfold str_chars. destruct (list_content c) as [cc|]; [|discriminate].
  destruct cc; try discriminate. destruct arr as [k'|]; try discriminate.
  destruct cc; try discriminate. destruct dt; try discriminate.
  destruct shape as [|n [|? ?]]; try discriminate.
  destruct k, k'; try discriminate; intros H; injection H as <-; eauto 10.
Qed.

Lemma take_drop_take {A} (l : list A) a k n : (a + k <= n)%nat ->
  firstn k (skipn a (firstn n l)) = firstn k (skipn a l).
Proof.
  intros H. rewrite !firstn_skipn_comm. rewrite firstn_firstn. f_equal. f_equal. lia.
Qed.

Lemma Forall_firstn {A} (P : A -> Prop) k : forall l, Forall P l -> Forall P (firstn k l).
Proof. induction k; intros l H; [constructor|]. destruct H; cbn; constructor; auto. Qed.
Lemma Forall_skipn {A} (P : A -> Prop) k : forall l, Forall P l -> Forall P (skipn k l).
Proof. induction k; intros l H; [exact H|]. destruct H; cbn; [constructor | auto]. Qed.

Lemma bytes_str ds : Forall (fun d => byte_datum d = true) ds -> forall zs,
  bytes_of (VList (map (leaf DUInt8) ds)) = Ok zs -> str_of DUInt8 ds = Ok [EStr zs].
Proof.
  unfold bytes_of, str_of. induction 1 as [|d ds Hd _ IH]; intros zs H; cbn [map mapM] in *.
  - injection H as <-. reflexivity.
  - destruct d as [z| |]; try discriminate Hd. cbn [leaf] in H. cbn [bind] in H. inv_bind H. injection H as <-.
    specialize (IH _ E). inv_bind IH. injection IH as <-.
    cbn [byte_of bind]. rewrite E0. cbn [bind]. cbn in Hd. unfold is_byte in Hd.
    rewrite Z.mod_small by lia. reflexivity.
Qed.

(* one string: the range (a, b) of the character buffer *)
Lemma string_item (item0 : Z -> res (list ev)) n d a b l zs :
  0 <= n <= zlen d -> Forall (fun x => byte_datum x = true) d ->
  cut1 (map (leaf DUInt8) (take n d)) (a, b) = Ok l -> bytes_of (VList l) = Ok zs ->
  range_events item0 (Some (DUInt8, d)) a b = Ok [EStr zs].
Proof.
  intros Hn Hd Hc Hb. unfold range_events. unfold cut1 in Hc. destruct (a =? b) eqn:E.
  - injection Hc as <-. cbn in Hb. injection Hb as <-. reflexivity.
  - destruct (slice_inv _ _ _ _ Hc) as (Ha & Hab & Hbn & ->).
    rewrite zlen_map, take_zlen in Hbn by lia.
    unfold slice. replace ((0 <=? a) && (a <=? b) && (b <=? zlen d)) with true by lia. cbn [bind].
    unfold take, drop in *. rewrite skipn_map, firstn_map in Hb.
    rewrite take_drop_take in Hb by lia.
    apply bytes_str; [apply Forall_firstn, Forall_skipn; exact Hd | exact Hb].
Qed.

Lemma Forall2_map_l {A B C} (R : C -> B -> Prop) (g : A -> C) l l' :
  Forall2 (fun x y => R (g x) y) l l' -> Forall2 R (map g l) l'.
Proof. induction 1; cbn; constructor; auto. Qed.

(* the three list classes, seen as: item i of the node = the range (a_i, b_i) of its content *)
Lemma list_view o L cc cs vs : list_content L = Some cc -> to_list cc = Ok cs -> to_list L = Ok vs ->
  clen cc = zlen cs ->
  clen L = zlen vs /\
  exists abs ls, vs = map VList ls /\ Forall2 (fun ab l => cut1 cs ab = Ok l) abs ls /\
    Forall2 (fun i (ab : Z * Z) => forall p, item o p L i =
               range_events (item o None cc) (chars_of None cc) (fst ab) (snd ab)) (iota (zlen vs)) abs.
Proof.
  intros HL E T Hlen. destruct L; try discriminate HL; cbn [list_content] in HL; injection HL as ->.
  - (* ListOffset *)
    cbn [to_list] in T. rewrite E in T. cbn [bind] in T.
    destruct (cut cs offsets) as [ls|] eqn:Ec; [|discriminate]. cbn [rmap] in T. injection T as <-.
    unfold cut in Ec. destruct offsets as [|o0 offs']; [discriminate|]. set (offs := o0 :: offs') in *.
    apply mapM_Forall2 in Ec. pose proof (Forall2_len _ _ _ Ec) as Hl.
    assert (Hz : zlen ls = zlen (pairs offs)) by (unfold zlen; lia).
    rewrite zlen_map. split.
    + cbn [clen]. rewrite Hz. unfold zlen. rewrite pairs_length by (subst offs; discriminate). subst offs. cbn [length]. lia.
    + exists (pairs offs), ls. split; [reflexivity|]. split; [exact Ec|]. rewrite Hz.
      eapply Forall2_imp; [|apply pairs_get]. cbn beta. intros i [a b] (G1 & G2) p. cbn [fst snd] in *.
      cbn [item]. rewrite G1, G2. reflexivity.
  - (* ListArray *)
    cbn [to_list] in T. rewrite E in T. cbn [bind] in T.
    destruct (cut2 cs starts stops) as [ls|] eqn:Ec; [|discriminate]. cbn [rmap] in T. injection T as <-.
    unfold cut2 in Ec. destruct (zlen stops <? zlen starts) eqn:Es; [discriminate|].
    apply mapM_Forall2 in Ec. pose proof (Forall2_len _ _ _ Ec) as Hl.
    assert (Hz : zlen ls = zlen (zip starts stops)) by (unfold zlen; lia).
    rewrite zlen_map. split.
    + cbn [clen]. rewrite Hz. unfold zlen in *. rewrite zip_length_le by lia. reflexivity.
    + exists (zip starts stops), ls. split; [reflexivity|]. split; [exact Ec|]. rewrite Hz.
      eapply Forall2_imp; [|apply zip_get]. cbn beta. intros i [a b] (G1 & G2) p. cbn [fst snd] in *.
      cbn [item]. rewrite G1, G2. reflexivity.
  - (* RegularArray *)
    cbn [to_list] in T. rewrite E in T. cbn [bind] in T.
    destruct (chunks cs size zeros_length) as [ls|] eqn:Ec; [|discriminate]. cbn [rmap] in T. injection T as <-.
    unfold chunks in Ec. destruct (size <? 0) eqn:Es; [discriminate|].
    rewrite zlen_map. destruct (size =? 0) eqn:E0.
    + destruct (zeros_length <? 0) eqn:Ez; [discriminate|]. injection Ec as <-.
      rewrite zlen_map, zlen_iota by lia. split; [cbn [clen]; rewrite E0; reflexivity|].
      exists (map (fun i => (i * size, (i + 1) * size)) (iota zeros_length)), (map (fun _ => []) (iota zeros_length)).
      split; [reflexivity|]. split.
      * apply Forall2_map_l, Forall2_map_r. apply Forall2_diag. intros i.
        unfold cut1. replace (i * size =? (i + 1) * size) with true by nia. reflexivity.
      * apply Forall2_map_r. apply Forall2_diag. intros i p. reflexivity.
    + injection Ec as <-. set (count := Z.to_nat (zlen cs / size)).
      pose proof (chunks_nat_spec size ltac:(lia) count cs 0) as CS.
      pose proof (Forall2_len _ _ _ CS) as CL. rewrite iota_nat_length in CL.
      assert (Hq : 0 <= zlen cs / size) by (apply Z.div_pos; unfold zlen; lia).
      assert (Hz : zlen (chunks_nat cs size count) = zlen cs / size) by (unfold zlen at 1; rewrite <- CL; subst count; lia).
      rewrite Hz. split; [cbn [clen]; rewrite E0, Hlen; reflexivity|].
      exists (map (fun i => (i * size, (i + 1) * size)) (iota_nat 0 count)), (chunks_nat cs size count).
      split; [reflexivity|]. split.
      * apply Forall2_map_l.
        eapply Forall2_imp; [|exact CS]. cbn beta. intros i l (Hi & ->).
        unfold cut1. replace (i * size =? (i + 1) * size) with false by nia.
        unfold slice. pose proof (Z.mul_div_le (zlen cs) size ltac:(lia)).
        replace ((0 <=? i * size) && (i * size <=? (i + 1) * size) && ((i + 1) * size <=? zlen cs)) with true by (subst count; nia).
        do 3 f_equal; lia.
      * unfold iota. fold count. apply Forall2_map_r. apply Forall2_diag. intros i p. reflexivity.
Qed.

Lemma Forall2_nth_r {A B} (R : A -> B -> Prop) l l' : Forall2 R l l' ->
  forall k y, nth_error l' k = Some y -> exists x, nth_error l k = Some x /\ R x y.
Proof.
  induction 1 as [|x y0 l l' Hxy _ IH]; intros k y Hk; [destruct k; discriminate|].
  destruct k; [injection Hk as <-; exists x; split; [reflexivity | exact Hxy] | apply IH; exact Hk].
Qed.

Lemma pick_nth_nth {A} (f : content -> res A) cs : forall k c, nth_error cs k = Some c -> pick_nth f cs k = f c.
Proof.
  induction cs as [|x cs IH]; intros k c H; [destruct k; discriminate|].
  destruct k; [injection H as ->; reflexivity | cbn [pick_nth]; apply IH; exact H].
Qed.

Lemma item_spec o c : frag15 c = true -> u64ok c = true -> forall vs, to_list c = Ok vs ->
  clen c = zlen vs /\ Forall2 (item_ok o c) (iota (zlen vs)) vs.
Proof.
  induction c as [dt shape data| |w offs c IHc|w ss se c IHc|c size zl IHc|w ix c IHc|w ix c IHc|m vw c IHc
                  |m vw lsb n c IHc|c IHc|w tags ix cs IHcs|cs ks n IHcs|arr rn c IHc] using content_ind';
    intros F U vs T.
  - (* NumpyArray of any rank *)
    destruct shape as [|n dims]; [discriminate T|].
    cbn [to_list] in T. destruct (existsb (fun d => d <? 0) (n :: dims)) eqn:Ex; [discriminate|].
    destruct (zlen data <? prodZ (n :: dims)) eqn:Ed; [discriminate|]. inv_bind T. injection T as <-. rename x into vs.
    assert (Hsh : Forall (fun d => 0 <= d) (n :: dims)).
    { apply Forall_forall. intros d Hd. destruct (d <? 0) eqn:E0; [|lia].
      assert (existsb (fun d => d <? 0) (n :: dims) = true) by (apply existsb_exists; eauto). congruence. }
    inversion Hsh as [|? ? Hn Hdims]; subst. pose proof (prodZ_nonneg dims Hdims) as HP.
    set (N := prodZ (n :: dims)) in *. assert (HN : N = n * prodZ dims) by reflexivity.
    assert (Hfl : zlen (take N data) = n * prodZ dims) by (rewrite take_zlen; nia).
    assert (Hu : dt = DUInt64 -> Forall (fun d => datum_i64 d = true) (take N data)).
    { intros ->. cbn [u64ok] in U. apply Forall_firstn, forallb_Forall_true. exact U. }
    destruct (nest_spec o dt (fun _ _ => or_intror I) dims n (take N data) vs Hdims Hn Hfl Hu E) as (Hz & HF).
    rewrite Hz. split; [reflexivity|].
    eapply Forall2_imp_in; [|exact HF]. cbn beta. intros i v Hi (sub & e & Hs & Hb & Hv).
    apply in_iota in Hi. exists e. split; [|exact Hv].
    cbn [item]. change (is_charp None) with false.
    destruct (slice_inv _ _ _ _ Hs) as (Ha & Hab & Hbn & ->).
    rewrite slice_ok by nia. cbn [bind]. rewrite <- Hb. f_equal.
    unfold take, drop. symmetry. apply take_drop_take. nia.
  - (* Empty *) injection T as <-. split; [reflexivity | constructor].
  - (* ListOffset *)
    cbn [frag15 u64ok] in F, U. pose proof T as T0. cbn [to_list] in T0. inv_bind T0. rename x into vs'.
    destruct (IHc F U _ E) as (Hlen & HF).
    destruct (list_view o (ListOffset w offs c) c vs' vs eq_refl E T Hlen) as (Hl & abs & ls & -> & Hcut & Hit).
    split; [exact Hl|]. apply Forall2_map_r.
    eapply Forall2_idx; [exact Hit | exact Hcut|]. cbn beta. intros i [a b] l Hi Hc. cbn [fst snd] in *.
    destruct (range_items o c vs' a b l (frag_chars c F) HF Hc) as (e & He & Hv).
    exists e. split; [rewrite Hi; exact He | exact Hv].
  - (* ListArray *)
    cbn [frag15 u64ok] in F, U. pose proof T as T0. cbn [to_list] in T0. inv_bind T0. rename x into vs'.
    destruct (IHc F U _ E) as (Hlen & HF).
    destruct (list_view o (ListA w ss se c) c vs' vs eq_refl E T Hlen) as (Hl & abs & ls & -> & Hcut & Hit).
    split; [exact Hl|]. apply Forall2_map_r.
    eapply Forall2_idx; [exact Hit | exact Hcut|]. cbn beta. intros i [a b] l Hi Hc. cbn [fst snd] in *.
    destruct (range_items o c vs' a b l (frag_chars c F) HF Hc) as (e & He & Hv).
    exists e. split; [rewrite Hi; exact He | exact Hv].
  - (* RegularArray *)
    cbn [frag15 u64ok] in F, U. pose proof T as T0. cbn [to_list] in T0. inv_bind T0. rename x into vs'.
    destruct (IHc F U _ E) as (Hlen & HF).
    destruct (list_view o (Regular c size zl) c vs' vs eq_refl E T Hlen) as (Hl & abs & ls & -> & Hcut & Hit).
    split; [exact Hl|]. apply Forall2_map_r.
    eapply Forall2_idx; [exact Hit | exact Hcut|]. cbn beta. intros i [a b] l Hi Hc. cbn [fst snd] in *.
    destruct (range_items o c vs' a b l (frag_chars c F) HF Hc) as (e & He & Hv).
    exists e. split; [rewrite Hi; exact He | exact Hv].
  - (* IndexedArray *)
    cbn [frag15 u64ok] in F, U. cbn [to_list] in T. inv_bind T. rename x into vs'.
    destruct (IHc F U _ E) as (Hlen & HF).
    apply mapM_Forall2 in T. pose proof (Forall2_len _ _ _ T) as Hl.
    assert (Hz : zlen vs = zlen ix) by (unfold zlen; lia). split; [cbn [clen]; lia|]. rewrite Hz.
    eapply Forall2_idx; [apply get_iota | exact T|]. cbn beta. intros i j v G Hv.
    eapply item_ok_lift; [|eapply (Forall2_get _ _ _ _ HF); exact Hv]. cbn [item]. rewrite G. reflexivity.
  - (* IndexedOptionArray *)
    cbn [frag15 u64ok] in F, U. cbn [to_list] in T. inv_bind T. rename x into vs'.
    destruct (IHc F U _ E) as (Hlen & HF).
    apply mapM_Forall2 in T. pose proof (Forall2_len _ _ _ T) as Hl.
    assert (Hz : zlen vs = zlen ix) by (unfold zlen; lia). split; [cbn [clen]; lia|]. rewrite Hz.
    eapply Forall2_idx; [apply get_iota | exact T|]. cbn beta. intros i j v G Hv.
    unfold pick_opt in Hv. destruct (j <? 0) eqn:Ej.
    + replace (0 <=? j) with false in Hv by lia. injection Hv as <-.
      apply item_ok_null. cbn [item]. rewrite G. cbn [bind]. rewrite Ej. reflexivity.
    + replace (0 <=? j) with true in Hv by lia.
      eapply item_ok_lift; [|eapply (Forall2_get _ _ _ _ HF); exact Hv]. cbn [item]. rewrite G. cbn [bind]. rewrite Ej. reflexivity.
  - (* ByteMaskedArray *)
    cbn [frag15 u64ok] in F, U. cbn [to_list] in T. inv_bind T. rename x into vs'.
    destruct (IHc F U _ E) as (Hlen & HF).
    apply mapM_Forall2 in T. pose proof (Forall2_len _ _ _ T) as Hl.
    assert (Hzip : length (zip (iota (zlen m)) m) = length m).
    { rewrite zip_length_le; unfold iota; rewrite iota_nat_length; unfold zlen; lia. }
    assert (Hz : zlen vs = zlen m) by (unfold zlen; lia). split; [cbn [clen]; lia|]. rewrite Hz.
    eapply Forall2_idx; [exact (Forall2_zip_self _ _ _ (get_iota m)) | exact T|]. cbn beta.
    intros i [i' b] v (Ei & G) Hv. cbn [fst snd] in *. subst i'.
    unfold pick_opt in Hv. destruct (Bool.eqb (negb (b =? 0)) vw) eqn:Eb.
    + eapply item_ok_lift; [|eapply (Forall2_get _ _ _ _ HF); exact Hv]. cbn [item]. rewrite G. cbn [bind]. rewrite Eb. reflexivity.
    + injection Hv as <-. apply item_ok_null. cbn [item]. rewrite G. cbn [bind]. rewrite Eb. reflexivity.
  - (* BitMaskedArray *)
    cbn [frag15 u64ok] in F, U. cbn [to_list] in T. inv_bind T. rename x into vs'.
    destruct (IHc F U _ E) as (Hlen & HF).
    destruct (n <? 0) eqn:En; [discriminate|].
    apply mapM_Forall2 in T. pose proof (Forall2_len _ _ _ T) as Hl.
    assert (Hz : zlen vs = n) by (unfold zlen; rewrite <- Hl; unfold iota; rewrite iota_nat_length; lia).
    split; [cbn [clen]; lia|]. rewrite Hz.
    eapply Forall2_imp; [|exact T]. cbn beta. intros i v Hv. inv_bind Hv. rename x into b.
    unfold pick_opt in Hv. destruct (Bool.eqb b vw) eqn:Eb.
    + eapply item_ok_lift; [|eapply (Forall2_get _ _ _ _ HF); exact Hv]. cbn [item]. rewrite E0. cbn [bind]. rewrite Eb. reflexivity.
    + injection Hv as <-. apply item_ok_null. cbn [item]. rewrite E0. cbn [bind]. rewrite Eb. reflexivity.
  - (* UnmaskedArray *)
    cbn [frag15 u64ok] in F, U. cbn [to_list] in T.
    destruct (IHc F U _ T) as (Hlen & HF). split; [exact Hlen|].
    eapply Forall2_imp; [|exact HF]. cbn beta. intros i v H. eapply item_ok_lift; [|exact H]. reflexivity.
  - (* UnionArray *)
    cbn [frag15 u64ok] in F, U. apply frag_all_Forall in F. apply frag_all_Forall in U.
    cbn [to_list] in T. inv_bind T. rename x into vss. apply all_fix_Forall2 in E.
    destruct (zlen ix <? zlen tags) eqn:El; [discriminate|].
    apply mapM_Forall2 in T. pose proof (Forall2_len _ _ _ T) as Hl.
    assert (Hzip : length (zip tags ix) = length tags) by (apply zip_length_le; unfold zlen in El; lia).
    assert (Hz : zlen vs = zlen (zip tags ix)) by (unfold zlen; lia).
    split; [cbn [clen]; unfold zlen in *; lia|]. rewrite Hz.
    eapply Forall2_idx; [apply zip_get | exact T|]. cbn beta.
    intros i [tg j] v (G1 & G2) Hv. cbn [fst snd] in *. inv_bind Hv. rename x into vs0.
    assert (Htg : (tg <? 0) = false) by (unfold get in E0; destruct (tg <? 0); [discriminate | reflexivity]).
    assert (N : nth_error vss (Z.to_nat tg) = Some vs0).
    { unfold get in E0. rewrite Htg in E0. destruct (nth_error vss (Z.to_nat tg)); [congruence | discriminate]. }
    destruct (Forall2_nth_r _ _ _ E _ _ N) as (c0 & Nc & Tc).
    assert (Hc0 : In c0 cs) by (eapply nth_error_In; exact Nc).
    rewrite Forall_forall in F, U, IHcs.
    destruct (IHcs c0 Hc0 (F c0 Hc0) (U c0 Hc0) _ Tc) as (_ & HF0).
    eapply item_ok_lift; [|eapply (Forall2_get _ _ _ _ HF0); exact Hv].
    cbn [item]. rewrite G1, G2. cbn [bind]. rewrite Htg. exact (pick_nth_nth (fun x => item o None x j) cs _ _ Nc).
  - (* RecordArray *)
    cbn [frag15 u64ok] in F, U. apply frag_all_Forall in F. apply frag_all_Forall in U.
    cbn [to_list] in T. inv_bind T. rename x into vss. apply all_fix_Forall2 in E.
    destruct (n <? 0) eqn:En; [discriminate|].
    apply mapM_Forall2 in T. pose proof (Forall2_len _ _ _ T) as Hl.
    assert (Hz : zlen vs = n) by (unfold zlen; rewrite <- Hl; unfold iota; rewrite iota_nat_length; lia).
    split; [cbn [clen]; lia|]. rewrite Hz.
    eapply Forall2_imp; [|exact T]. cbn beta. intros i v Hrow.
    unfold row in Hrow. inv_bind Hrow. rename x into rowv.
    assert (HC : Forall2 (fun c vs0 => forall v0, get vs0 i = Ok v0 -> item_ok o c i v0) cs vss).
    { assert (A3 : Forall (fun c => frag15 c = true /\ u64ok c = true /\
                      (frag15 c = true -> u64ok c = true -> forall vs0, to_list c = Ok vs0 ->
                         clen c = zlen vs0 /\ Forall2 (item_ok o c) (iota (zlen vs0)) vs0)) cs).
      { rewrite Forall_forall in *. intros c Hc. auto. }
      eapply Forall2_imp; [|eapply Forall2_Forall_l; [exact A3 | exact E]]. cbn beta.
      intros c vs0 ((Fc & Uc & IH) & Tc) v0 Hg. destruct (IH Fc Uc _ Tc) as (_ & HF0).
      eapply (Forall2_get _ _ _ _ HF0); exact Hg. }
    pose proof (Forall2_len _ _ _ E) as Lcs.
    pose proof (Forall2_len _ _ _ (proj1 (mapM_Forall2 _ _ _) E0)) as Lrow.
    destruct ks as [k|].
    + destruct (Nat.eqb (length k) (length rowv)) eqn:Ek; [|discriminate]. apply Nat.eqb_eq in Ek.
      injection Hrow as <-.
      assert (Hkl : length k = length cs) by lia.
      destruct (fields_row o i cs vss rowv k HC E0 Hkl) as (body & Hb & Hk).
      exists (ESO :: body ++ [EEO]). split; [cbn [item]; rewrite Hb; reflexivity|].
      cbn [jv]. rewrite zip_map_jv. constructor. exact Hk.
    + injection Hrow as <-.
      destruct (fields_row o i cs vss rowv (tuple_keys (length cs)) HC E0 (tuple_keys_length _)) as (body & Hb & Hk).
      exists (ESO :: body ++ [EEO]). split; [cbn [item]; rewrite Hb; reflexivity|].
      cbn [jv]. replace (length rowv) with (length cs) by lia. constructor. exact Hk.
  - (* parameters *)
    destruct arr as [k|].
    + (* __array__ = string / bytestring *)
      cbn [frag15] in F. destruct (str_chars k c) as [d|] eqn:Es; [|discriminate F].
      destruct (str_chars_inv _ _ _ Es) as (cc & k' & rn' & n & HL & -> & Hk).
      cbn [to_list] in T. inv_bind T. rename x into vsL.
      destruct (list_content_to_list _ _ _ HL E) as (cs & Ecc).
      assert (Ecs : to_list (Numpy DUInt8 [n] d) = Ok cs).
      { cbn [to_list] in Ecc. inv_bind Ecc. destruct Hk as [(_ & ->) | (_ & ->)]; injection Ecc as <-; exact E0. }
      destruct (numpy1_to_list _ _ _ _ Ecs) as (Hn & ->).
      assert (Hlen : clen (Par (Some k') rn' (Numpy DUInt8 [n] d)) = zlen (map (leaf DUInt8) (take n d))).
      { cbn [clen]. rewrite zlen_map, take_zlen by lia. reflexivity. }
      destruct (list_view o c _ _ vsL HL Ecc E Hlen) as (Hl & abs & ls & -> & Hcut & Hit).
      assert (Hd : Forall (fun x => byte_datum x = true) d) by (apply forallb_Forall_true; exact F).
      assert (Hchars : chars_of None (Par (Some k') rn' (Numpy DUInt8 [n] d)) = Some (DUInt8, d)).
      { destruct Hk as [(_ & ->) | (_ & ->)]; reflexivity. }
      assert (TS : exists bb, Forall2 (fun l v => exists zs, bytes_of (VList l) = Ok zs /\ v = VStr bb zs) ls vs).
      { destruct Hk as [(-> & _) | (-> & _)]; eexists; apply mapM_Forall2 in T;
          (apply Forall2_map_l_inv in T; eapply Forall2_imp; [|exact T]); cbn beta; intros l v Hv;
          (destruct (bytes_of (VList l)) as [zs|]; [|discriminate]); cbn [rmap] in Hv; injection Hv as <-; eauto. }
      destruct TS as (bb & TS). pose proof (Forall2_len _ _ _ TS) as Hls.
      rewrite zlen_map in *. assert (Hz : zlen vs = zlen ls) by (unfold zlen; lia).
      split; [cbn [clen]; lia|]. rewrite Hz.
      eapply Forall2_idx; [exact Hit | eapply Forall2_comp; [exact Hcut | exact TS]|]. cbn beta.
      intros i [a b] v Hi (l & Hc & zs & Hb & ->). cbn [fst snd] in *.
      exists [EStr zs]. split; [|cbn [jv]; constructor].
      cbn [item]. rewrite Hi, Hchars. eapply string_item; eassumption.
    + (* __record__ only *)
      cbn [frag15 u64ok] in F, U. cbn [to_list] in T. inv_bind T. injection T as <-.
      destruct (IHc F U _ E) as (Hlen & HF). split; [exact Hlen|].
      eapply Forall2_imp; [|exact HF]. cbn beta. intros i v H. eapply item_ok_lift; [|exact H]. reflexivity.
Qed.

(** (b) on the fragment [frag15]: the events of to_json fold back into to_list, up to the documented rendering [jv] *)
Theorem tojson_value_frag o c vs : frag15 c = true -> u64ok c = true -> to_list c = Ok vs ->
  exists evs, tojson_events o c = Ok evs /\ json_value evs = Ok (VList (map (jv o) vs), []).
Proof.
  intros F U T. destruct (item_spec o c F U vs T) as (Hlen & HF).
  unfold tojson_events. rewrite (frag_chars c F). unfold range_events. rewrite range_0, Hlen.
  destruct (Forall2_build _ (jv o) _ _ HF) as (xs & Hxs & Hvs).
  rewrite Hxs. cbn [bind]. eexists. split; [reflexivity|].
  apply json_value_of. constructor. exact Hvs.
Qed.

(* ================================================================== examples (non-vacuity) *)
Definition ex_opts := {| nan_s := Some [78; 97; 78]; inf_s := None; minf_s := None |}.

(* an object with an escaped key and a string with a control byte and a byte above 0x7f, then 3.0, null, true *)
Definition ex_events : list ev :=
  [ESA; ESO; EKey [97; 34]; EInt (-12); EKey [98]; EStr [0; 200; 10]; EEO; EReal (RZ 3); ENull; EBool true; EEA].

Example parse_render_ex :
  wf ex_events = true /\ printable ex_events = true /\ parse (render ex_events) = Ok (ex_events, []).
Proof. vm_compute. auto. Qed.

(* a record array [{x: 1.0, y: [1, -20]}, {x: nan, y: [300]}] behind an option node *)
Definition ex_layout : content :=
  IndexedOption I64 [1; -1; 0]
    (Record [Numpy DFloat64 [2] [DZ 1; DNaN];
             ListOffset I64 [0; 2; 3] (Numpy DInt64 [3] [DZ 1; DZ (-20); DZ 300])]
            (Some [[120]; [121]]) 2).

Example events_wellformed_ex :
  exists evs, tojson_events ex_opts ex_layout = Ok evs /\ wf evs = true /\ evs <> [].
Proof. eexists. split; [vm_compute; reflexivity | split; [vm_compute; reflexivity | discriminate]]. Qed.

Example tojson_value_ex :
  frag15 ex_layout = true /\ u64ok ex_layout = true /\
  to_list ex_layout = Ok [VRec [([120], VNum DNaN); ([121], VList [VNum (DZ 300)])]; VNone;
                          VRec [([120], VNum (DZ 1)); ([121], VList [VNum (DZ 1); VNum (DZ (-20))])]].
Proof. vm_compute. auto. Qed.

(* the uint64 cast: the value is NOT preserved above 2^63-1 (known finding c15-uint64-wraps) *)
Example tojson_value_refuted_uint64 :
  let c := Numpy DUInt64 [1] [DZ 18446744073709551615] in
  to_list c = Ok [VNum (DZ 18446744073709551615)] /\
  (do e <- tojson_events ex_opts c; json_value e) = Ok (VList [VNum (DZ (-1))], []).
Proof. vm_compute. auto. Qed.

(* three documents, two separators *)
Example concat_docs_ex :
  let dws := [([ESA; EInt 1; EEA], [32]); ([EInt 2], [10; 32]); ([ESO; EEO], [])] in
  Forall doc_ok dws /\ seps_ok dws /\
  do_parse ex_opts ([32] ++ docs_text dws) = JDocs [[ESA; EInt 1; EEA]; [EInt 2]; [ESO; EEO]].
Proof.
  cbn zeta. split; [|split].
  - repeat constructor.
  - cbn. repeat split; discriminate.
  - vm_compute. reflexivity.
Qed.

(* ================================================================== (e) truncation: extension stability of the reader *)

Lemma skip_ws_ext q s : skip_ws q <> [] -> skip_ws (q ++ s) = skip_ws q ++ s.
Proof.
  induction q as [|c q IH]; intros H; [cbn in H; congruence|].
  cbn [app skip_ws] in *. destruct (is_ws c); [apply IH; exact H | reflexivity].
Qed.

Lemma lit_ext xs e : forall q e' r s, lit xs e q = POk e' r -> lit xs e (q ++ s) = POk e' (r ++ s).
Proof.
  induction xs as [|x xs IH]; intros q e' r s H; cbn [lit] in *.
  - injection H as <- <-. reflexivity.
  - destruct q as [|c q]; [discriminate|]. cbn [app]. destruct (c =? x); [apply IH; exact H | discriminate].
Qed.

Lemma read_digits_ext q : forall a c v n r s, read_digits q a c = (v, n, r) -> r <> [] ->
  read_digits (q ++ s) a c = (v, n, r ++ s).
Proof.
  induction q as [|d q IH]; intros a c v n r s H Hr; cbn [read_digits app] in *.
  - injection H as <- <- <-. congruence.
  - destruct (is_digit d); [apply IH; assumption|]. injection H as <- <- <-. reflexivity.
Qed.

Ltac lex_step IH s :=
  match goal with
  | H : SFail _ = SOk _ _ |- _ => discriminate H
  | H : SOk _ _ = SOk _ _ |- _ => injection H as <- <-; reflexivity
  | H : context [if ?b then _ else _] |- _ => destruct b eqn:?
  | H : context [match ?l with [] => _ | _ :: _ => _ end] |- _ => is_var l; destruct l; cbn [app]
  | H : context [match hex4 ?a ?b ?c ?d with _ => _ end] |- _ => destruct (hex4 a b c d) eqn:?
  | H : spush ?pre (lex_str ?q) = SOk _ _ |- _ =>
      let E := fresh "E" in let s0 := fresh "s0" in let r0 := fresh "r0" in let X := fresh "X" in
      destruct (lex_str q) as [s0 r0|] eqn:E; cbn [spush] in H; [|discriminate H];
      injection H as <- <-;
      assert (X : lex_str (q ++ s) = SOk s0 (r0 ++ s)) by (apply IH; [cbn [length] in *; lia | exact E]);
      cbn [app] in X; rewrite X; reflexivity
  end.

Lemma lex_str_ext n : forall q b r s, (length q <= n)%nat -> lex_str q = SOk b r ->
  lex_str (q ++ s) = SOk b (r ++ s).
Proof.
  induction n as [|n IH]; intros q b r s L H.
  - destruct q; [discriminate H | cbn in L; lia].
  - destruct q as [|c q]; [discriminate H|].
    cbn [app lex_str] in H |- *. cbn [length] in L.
    repeat (lex_step IH s).
Qed.

Lemma lex_frac_nil iv : lex_frac iv [] = inl (false, iv, 0, []).
Proof. reflexivity. Qed.
Lemma lex_exp_nil : lex_exp [] = inl (false, 0, []).
Proof. reflexivity. Qed.

Lemma classify_rest neg isd m fc ex b4 e r : classify neg isd m fc ex b4 = POk e r -> r = b4.
Proof.
  unfold classify. intros H.
  repeat match type of H with
         | context [if ?b then _ else _] => destruct b
         | context [match real_of ?n ?mm ?ee with _ => _ end] => destruct (real_of n mm ee)
         end; try discriminate; injection H as <- <-; reflexivity.
Qed.

Lemma classify_ext neg isd m fc ex b4 e r s : classify neg isd m fc ex b4 = POk e r ->
  classify neg isd m fc ex (b4 ++ s) = POk e (r ++ s).
Proof.
  unfold classify. intros H.
  repeat match type of H with
         | context [if ?b then _ else _] => destruct b
         | context [match real_of ?n ?mm ?ee with _ => _ end] => destruct (real_of n mm ee)
         end; try discriminate; injection H as <- <-; reflexivity.
Qed.

Lemma lex_exp_ext b3 isd ex b4 s : lex_exp b3 = inl (isd, ex, b4) -> b4 <> [] ->
  lex_exp (b3 ++ s) = inl (isd, ex, b4 ++ s).
Proof.
  intros H Hne. destruct b3 as [|x r3]; [cbn in H; injection H as <- <- <-; congruence|].
  cbn [lex_exp app] in *. destruct ((x =? 101) || (x =? 69)); [|injection H as <- <- <-; reflexivity].
  destruct r3 as [|s0 r]; [cbn in H; discriminate|]. cbn [app].
  destruct (s0 =? 43).
  - destruct (read_digits r 0 0) as [[xv xc] r5] eqn:R. destruct (xc =? 0) eqn:Ex; [discriminate|].
    injection H as <- <- <-. rewrite (read_digits_ext _ _ _ _ _ _ s R Hne). rewrite Ex. reflexivity.
  - destruct (s0 =? 45).
    + destruct (read_digits r 0 0) as [[xv xc] r5] eqn:R. destruct (xc =? 0) eqn:Ex; [discriminate|].
      injection H as <- <- <-. rewrite (read_digits_ext _ _ _ _ _ _ s R Hne). rewrite Ex. reflexivity.
    + destruct (read_digits (s0 :: r) 0 0) as [[xv xc] r5] eqn:R. destruct (xc =? 0) eqn:Ex; [discriminate|].
      injection H as <- <- <-.
      pose proof (read_digits_ext _ _ _ _ _ _ s R Hne) as R'. cbn [app] in R'. rewrite R'. rewrite Ex. reflexivity.
Qed.

Lemma lex_frac_ext iv b2 isd m fc b3 s : lex_frac iv b2 = inl (isd, m, fc, b3) -> b3 <> [] ->
  lex_frac iv (b2 ++ s) = inl (isd, m, fc, b3 ++ s).
Proof.
  intros H Hne. destruct b2 as [|d r2]; [cbn in H; injection H as <- <- <- <-; congruence|].
  cbn [lex_frac app] in *. destruct (d =? 46); [|injection H as <- <- <- <-; reflexivity].
  destruct (read_digits r2 0 0) as [[fv fc0] r3] eqn:R. destruct (fc0 =? 0) eqn:Ef; [discriminate|].
  injection H as <- <- <- <-. rewrite (read_digits_ext _ _ _ _ _ _ s R Hne). rewrite Ef. reflexivity.
Qed.

Lemma lex_ipart_ext b1 iv b2 s : lex_ipart b1 = Some (iv, b2) -> b2 <> [] ->
  lex_ipart (b1 ++ s) = Some (iv, b2 ++ s).
Proof.
  intros H Hne. destruct b1 as [|c r1]; [discriminate|]. cbn [lex_ipart app] in *.
  destruct (c =? 48); [injection H as <- <-; reflexivity|].
  destruct ((49 <=? c) && (c <=? 57)); [|discriminate].
  destruct (read_digits (c :: r1) 0 0) as [[v n] r] eqn:R. injection H as <- <-.
  pose proof (read_digits_ext _ _ _ _ _ _ s R Hne) as R'. cbn [app] in R'. rewrite R'. reflexivity.
Qed.

(** a number token that ended before the end of the input is unchanged by appending more input *)
Lemma lex_number_ext q e r s : lex_number q = POk e r -> r <> [] -> lex_number (q ++ s) = POk e (r ++ s).
Proof.
  unfold lex_number. intros H Hne.
  assert (SM : strip_minus (q ++ s) = (fst (strip_minus q), snd (strip_minus q) ++ s) \/ snd (strip_minus q) = []).
  { destruct q as [|c q1]; [right; reflexivity|]. left. cbn [strip_minus app]. destruct (c =? 45); reflexivity. }
  destruct (strip_minus q) as [neg b1] eqn:Es. cbn [fst snd] in SM.
  destruct (lex_ipart b1) as [[iv b2]|] eqn:Ei; [|discriminate].
  destruct (lex_frac iv b2) as [[[[isd1 m] fc] b3]|stop] eqn:Ef; [|discriminate].
  destruct (lex_exp b3) as [[[isd2 ex] b4]|stop] eqn:Ee; [|discriminate].
  pose proof (classify_rest _ _ _ _ _ _ _ _ H) as ->.
  assert (N3 : b3 <> []) by (intros ->; rewrite lex_exp_nil in Ee; injection Ee as <- <- <-; congruence).
  assert (N2 : b2 <> []) by (intros ->; rewrite lex_frac_nil in Ef; injection Ef as <- <- <- <-; congruence).
  destruct SM as [SM | ->]; [|discriminate].
  rewrite SM. rewrite (lex_ipart_ext _ _ _ s Ei N2). rewrite (lex_frac_ext _ _ _ _ _ _ s Ef N3).
  rewrite (lex_exp_ext _ _ _ _ s Ee Hne). apply classify_ext. exact H.
Qed.

Definition is_container (q : list Z) : Prop :=
  match q with c :: _ => c = 91 \/ c = 123 | [] => False end.

Lemma parse_value_nil f e r : parse_value f [] = POk e r -> False.
Proof. destruct f; discriminate. Qed.

Lemma parse_elems_nil f e r : parse_elems f [] = POk e r -> False.
Proof. destruct f as [|f]; [discriminate|]. cbn [parse_elems]. destruct f; discriminate. Qed.

Lemma parse_members_nil f e r : parse_members f [] = POk e r -> False.
Proof. destruct f; discriminate. Qed.

Lemma pmap_ok g x e r : pmap g x = POk e r -> exists e0, x = POk e0 r /\ e = g e0.
Proof. destruct x; cbn; intros H; try discriminate. injection H as <- <-. eauto. Qed.

Lemma skip_ws_cons_ext q c t s : skip_ws q = c :: t -> skip_ws (q ++ s) = c :: t ++ s.
Proof. intros H. rewrite skip_ws_ext by (rewrite H; discriminate). rewrite H. reflexivity. Qed.

(** a successful parse is unchanged by more fuel and by more input, provided the value did not end
    exactly at the end of the input as a bare number/literal *)
Lemma parse_ext f :
  (forall q e r, parse_value f q = POk e r -> (r <> [] \/ is_container q) ->
     forall f' s, (f <= f')%nat -> parse_value f' (q ++ s) = POk e (r ++ s)) /\
  (forall q e r, parse_elems f q = POk e r ->
     forall f' s, (f <= f')%nat -> parse_elems f' (q ++ s) = POk e (r ++ s)) /\
  (forall q e r, parse_members f q = POk e r ->
     forall f' s, (f <= f')%nat -> parse_members f' (q ++ s) = POk e (r ++ s)).
Proof.
  induction f as [|f (IHv & IHe & IHm)]; [repeat split; intros; discriminate|].
  split; [|split].
  - (* value *)
    intros q e r H Hc [|f'] s Lf; [lia|]. destruct q as [|c q1]; [discriminate H|].
    cbn [parse_value app] in H |- *.
    destruct (c =? 110); [apply lit_ext; exact H|].
    destruct (c =? 116); [apply lit_ext; exact H|].
    destruct (c =? 102); [apply lit_ext; exact H|].
    destruct (c =? 34).
    { destruct (lex_str q1) as [s0 r'|] eqn:El; [|discriminate]. injection H as <- <-.
      rewrite (lex_str_ext (length q1) q1 s0 r' s (le_n _) El). reflexivity. }
    destruct (c =? 91) eqn:E91.
    { destruct (skip_ws q1) as [|d r2] eqn:Es; [discriminate|].
      rewrite (skip_ws_cons_ext _ _ _ s Es). destruct (d =? 93); [injection H as <- <-; reflexivity|].
      apply pmap_ok in H. destruct H as (e0 & Hp & ->).
      change (d :: r2 ++ s) with ((d :: r2) ++ s). rewrite (IHe _ _ _ Hp f' s ltac:(lia)). reflexivity. }
    destruct (c =? 123) eqn:E123.
    { destruct (skip_ws q1) as [|d r2] eqn:Es; [discriminate|].
      rewrite (skip_ws_cons_ext _ _ _ s Es). destruct (d =? 125); [injection H as <- <-; reflexivity|].
      apply pmap_ok in H. destruct H as (e0 & Hp & ->).
      change (d :: r2 ++ s) with ((d :: r2) ++ s). rewrite (IHm _ _ _ Hp f' s ltac:(lia)). reflexivity. }
    change (c :: q1 ++ s) with ((c :: q1) ++ s). apply lex_number_ext; [exact H|].
    destruct Hc as [Hc | Hc]; [exact Hc | cbn in Hc; lia].
  - (* elements *)
    intros q e r H [|f'] s Lf; [lia|]. cbn [parse_elems] in H |- *.
    destruct (parse_value f q) as [e0 r0| |] eqn:Ev; try discriminate.
    destruct (skip_ws r0) as [|c r2] eqn:Es; [discriminate|].
    assert (N0 : r0 <> []) by (intros ->; discriminate Es).
    rewrite (IHv _ _ _ Ev (or_introl N0) f' s ltac:(lia)).
    rewrite (skip_ws_cons_ext _ _ _ s Es).
    destruct (c =? 44).
    { apply pmap_ok in H. destruct H as (e1 & Hp & ->).
      destruct (skip_ws r2) as [|d r3] eqn:Es2; [exfalso; eapply parse_elems_nil; exact Hp|].
      rewrite (skip_ws_cons_ext _ _ _ s Es2). change (d :: r3 ++ s) with ((d :: r3) ++ s).
      rewrite (IHe _ _ _ Hp f' s ltac:(lia)). reflexivity. }
    destruct (c =? 93); [injection H as <- <-; reflexivity | discriminate].
  - (* members *)
    intros q e r H [|f'] s Lf; [lia|]. cbn [parse_members] in H |- *.
    destruct q as [|c q1]; [discriminate|]. cbn [app].
    destruct (c =? 34); [|discriminate].
    destruct (lex_str q1) as [k r'|] eqn:El; [|discriminate].
    rewrite (lex_str_ext (length q1) q1 k r' s (le_n _) El).
    destruct (skip_ws r') as [|d r2] eqn:Es; [discriminate|].
    rewrite (skip_ws_cons_ext _ _ _ s Es).
    destruct (d =? 58); [|discriminate].
    destruct (parse_value f (skip_ws r2)) as [e0 r3| |] eqn:Ev; try discriminate.
    destruct (skip_ws r2) as [|d2 r2'] eqn:Es2; [exfalso; eapply parse_value_nil; exact Ev|].
    rewrite (skip_ws_cons_ext _ _ _ s Es2).
    destruct (skip_ws r3) as [|x r5] eqn:Es3; [discriminate|].
    assert (N3 : r3 <> []) by (intros ->; discriminate Es3).
    change (d2 :: r2' ++ s) with ((d2 :: r2') ++ s).
    rewrite (IHv _ _ _ Ev (or_introl N3) f' s ltac:(lia)).
    rewrite (skip_ws_cons_ext _ _ _ s Es3).
    destruct (x =? 44).
    { apply pmap_ok in H. destruct H as (e1 & Hp & ->).
      destruct (skip_ws r5) as [|d3 r6] eqn:Es4; [exfalso; eapply parse_members_nil; exact Hp|].
      rewrite (skip_ws_cons_ext _ _ _ s Es4). change (d3 :: r6 ++ s) with ((d3 :: r6) ++ s).
      rewrite (IHm _ _ _ Hp f' s ltac:(lia)). reflexivity. }
    destruct (x =? 125); [injection H as <- <-; reflexivity | discriminate].
Qed.

(** (e) no strict prefix of the rendering of an array or object parses *)
Theorem truncation_lemma evs p s : wf evs = true -> printable evs = true ->
  (exists t, evs = ESA :: t \/ evs = ESO :: t) ->
  render evs = p ++ s -> s <> [] -> forall res, parse p <> Ok res.
Proof.
  intros W P (t & Ht) Hr Hs res Hp. apply wf_iff in W.
  pose proof (parse1_render [] evs [] W P (Forall_nil _) I) as Full.
  cbn [app] in Full. rewrite app_nil_r in Full.
  unfold parse in Hp. destruct (parse1 p) as [e r| |] eqn:Ep; try discriminate. clear Hp.
  unfold parse1 in *.
  assert (Hhead : exists b t', render evs = b :: t' /\ (b = 91 \/ b = 123)).
  { destruct Ht as [-> | ->]; cbn [render render_from sep tok app]; eauto. }
  destruct Hhead as (b & t' & Eb & Hb).
  destruct p as [|c p'].
  - cbn in Ep. discriminate.
  - rewrite Hr in Eb. cbn [app] in Eb. injection Eb as -> _.
    assert (Hws : is_ws b = false) by (unfold is_ws; lia).
    rewrite skip_ws_start in Ep by exact Hws.
    pose proof (proj1 (parse_ext _) _ _ _ Ep (or_intror (Hb : is_container (b :: p'))) (fuel_for (render evs)) s) as X.
    rewrite <- Hr in X. rewrite Hr in Full at 2. cbn [app] in Full.
    rewrite skip_ws_start in Full by exact Hws. change (b :: p' ++ s) with ((b :: p') ++ s) in Full.
    rewrite <- Hr in Full. rewrite X in Full.
    + injection Full as _ Hnil. destruct r; destruct s; try discriminate; congruence.
    + unfold fuel_for. rewrite Hr, app_length. lia.
Qed.

(* every strict prefix of the rendering of [ex_events] is rejected (instance of the theorem, by computation) *)
Example truncation_ex :
  forallb (fun k => match parse (firstn k (render ex_events)) with Ok _ => false | Err _ => true end)
          (seq 0 (length (render ex_events))) = true.
Proof. vm_compute. reflexivity. Qed.

(* ================================================================== to_json then from_json, at the event level *)
(** the text produced for an array is read back as exactly one document carrying the same events
    (after Handler's substitutions), whenever its leaves are printable *)
Theorem roundtrip_events_lemma o c evs : tojson_events o c = Ok evs -> printable evs = true ->
  do_parse o (render evs) = JDocs [map (handler o) evs] /\
  unwrap [map (handler o) evs] = One (map (handler o) evs).
Proof.
  intros H P. split; [|reflexivity].
  pose proof (concat_docs_lemma o [] [(evs, [])]) as X. unfold docs_text, doc_text in X.
  cbn [map concat fst snd app] in X. rewrite !app_nil_r in X. apply X.
  - constructor.
  - constructor; [|constructor]. split; [eapply events_wellformed_strong; exact H|]. split; [exact P | constructor].
  - cbn. auto.
Qed.

(* strings, a union and a named tuple are inside the fragment of tojson_value_partial *)
Definition ex_layout2 : content :=
  Union I64 [0; 1; 0] [0; 0; 1]
    [Par (Some AString) None (ListOffset I64 [0; 2; 5] (Par (Some AChar) None (Numpy DUInt8 [5] [DZ 97; DZ 34; DZ 0; DZ 200; DZ 10])));
     Par None (Some [112]) (Record [Numpy DBool [1] [DZ 1]; Numpy DFloat32 [1] [DInf true]] None 1)].

Example tojson_value_ex2 :
  frag15 ex_layout2 = true /\ u64ok ex_layout2 = true /\
  to_list ex_layout2 = Ok [VStr true [97; 34]; VTup [VBool true; VNum (DInf true)]; VStr true [0; 200; 10]] /\
  (do e <- tojson_events ex_opts ex_layout2; json_value e) =
    Ok (VList [VStr true [97; 34]; VRec [([48], VBool true); ([49], VNum (DInf true))]; VStr true [0; 200; 10]], []).
Proof. vm_compute. auto. Qed.

(* ================================================================== (b) in full: every valid layout is in the fragment *)
Definition under (p : option akind) (c : content) : content :=
  match p with None => c | Some k => Par (Some k) None c end.

Lemma all_fix_intro (f : content -> bool) cs : Forall (fun c => f c = true) cs ->
  (fix all (l : list content) : bool := match l with [] => true | x :: xs => f x && all xs end) cs = true.
Proof. induction 1 as [|c cs Hc _ IH]; [reflexivity|]. rewrite Hc, IH. reflexivity. Qed.

Lemma valid_frag c : forall p, Valid p c -> bytes_ok c = true -> frag15 (under p c) = true.
Proof.
  assert (STR : forall p c0, ParamOk p c0 -> bytes_ok c0 = true -> p <> None -> frag15 (under p c0) = true).
  { intros p c0 HP HB Hp. destruct p as [k|]; [|congruence]. cbn [under frag15].
    destruct k; cbn [ParamOk] in HP; try contradiction;
      destruct HP as (c' & rn & n & d & HL & ->); unfold str_chars; rewrite HL;
      destruct c0; cbn [list_content] in HL; try discriminate HL; injection HL as ->; cbn [bytes_ok] in HB; exact HB. }
  induction c as [dt shape data| |w offs c IHc|w ss se c IHc|c size zl IHc|w ix c IHc|w ix c IHc|m vw c IHc
                  |m vw lsb n c IHc|c IHc|w tags ix cs IHcs|cs ks n IHcs|arr rn c IHc] using content_ind';
    intros p V HB;
    try (destruct p as [k|]; [apply STR; [inversion V; subst; assumption | exact HB | discriminate]|]); cbn [under].
  - reflexivity.
  - reflexivity.
  - inversion V; subst. cbn [frag15 bytes_ok] in *. apply (IHc None); auto.
  - inversion V; subst. cbn [frag15 bytes_ok] in *. apply (IHc None); auto.
  - inversion V; subst. cbn [frag15 bytes_ok] in *. apply (IHc None); auto.
  - inversion V; subst. cbn [frag15 bytes_ok] in *. apply (IHc None); auto.
  - inversion V; subst. cbn [frag15 bytes_ok] in *. apply (IHc None); auto.
  - inversion V; subst. cbn [frag15 bytes_ok] in *. apply (IHc None); auto.
  - inversion V; subst. cbn [frag15 bytes_ok] in *. apply (IHc None); auto.
  - inversion V; subst. cbn [frag15 bytes_ok] in *. apply (IHc None); auto.
  - inversion V; subst. cbn [frag15 bytes_ok] in *. apply frag_all_Forall in HB. apply all_fix_intro.
    rewrite Forall_forall in *. intros c Hc. apply (IHcs c Hc None); auto.
  - inversion V; subst. cbn [frag15 bytes_ok] in *. apply frag_all_Forall in HB. apply all_fix_intro.
    rewrite Forall_forall in *. intros c Hc. apply (IHcs c Hc None); auto.
  - (* Par *) inversion V; subst. cbn [bytes_ok] in HB. specialize (IHc arr H3 HB).
    destruct arr as [k|]; cbn [under] in IHc; cbn [frag15] in *; exact IHc.
Qed.

(** (b), full statement: for every valid layout (uint8 items being bytes, uint64 items below 2^63) the
    events of to_json fold back into to_list up to the documented rendering *)
Theorem tojson_value_full o c vs : Valid None c -> bytes_ok c = true -> u64ok c = true -> to_list c = Ok vs ->
  exists evs, tojson_events o c = Ok evs /\ json_value evs = Ok (VList (map (jv o) vs), []).
Proof.
  intros V B U T. apply tojson_value_frag; [exact (valid_frag c None V B) | exact U | exact T].
Qed.

(* the hypotheses of tojson_value are satisfiable together: a valid union of strings and named tuples, and a
   3 x 2 NumpyArray inside a ListArray *)
From AwkV Require Proofs_C11.
Definition ex_layout3 : content :=
  ListA I32 [1; 0] [3; 1] (Numpy DInt16 [3; 2] [DZ 1; DZ 2; DZ 3; DZ 4; DZ 5; DZ 6]).

Example tojson_value_hyps_ex :
  Valid None ex_layout2 /\ bytes_ok ex_layout2 = true /\ u64ok ex_layout2 = true /\
  Valid None ex_layout3 /\ bytes_ok ex_layout3 = true /\ u64ok ex_layout3 = true /\
  to_list ex_layout3 = Ok [VList [VList [VNum (DZ 3); VNum (DZ 4)]; VList [VNum (DZ 5); VNum (DZ 6)]];
                           VList [VList [VNum (DZ 1); VNum (DZ 2)]]] /\
  (do e <- tojson_events ex_opts ex_layout3; Ok (render e)) =
    Ok [91; 91; 91; 51; 44; 52; 93; 44; 91; 53; 44; 54; 93; 93; 44; 91; 91; 49; 44; 50; 93; 93; 93].
Proof.
  repeat split; try (apply Proofs_C11.validity_exact_gen); vm_compute; reflexivity.
Qed.
