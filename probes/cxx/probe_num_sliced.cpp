#include <iostream>
#include "awkward/Index.h"
#include "awkward/array/NumpyArray.h"
#include "awkward/array/ListOffsetArray.h"
#include "awkward/array/ListArray.h"
#include "awkward/Slice.h"
#include "awkward/Reducer.h"
using namespace awkward;
Index64 mk(std::vector<int64_t> v){ Index64 out((int64_t)v.size()); for(size_t i=0;i<v.size();i++) out.setitem_at_nowrap((int64_t)i,v[i]); return out;}
int main(){
  Index64 data = mk({1,2,3,4,5,6});
  ContentPtr leaf = std::make_shared<NumpyArray>(data);
  ContentPtr inner = std::make_shared<ListOffsetArray64>(Identities::none(), util::Parameters(), mk({0,1,3,6}), leaf);
  ContentPtr outer = std::make_shared<ListOffsetArray64>(Identities::none(), util::Parameters(), mk({0,2,3}), inner);
  std::cout << outer->tojson(false,-1,nullptr,nullptr,nullptr,"real","imag") << std::endl;
  ContentPtr sl = outer->getitem_range(1,2);
  std::cout << sl->tojson(false,-1,nullptr,nullptr,nullptr,"real","imag") << std::endl;
  std::cout << "num axis2: " << sl->num(2,0)->tojson(false,-1,nullptr,nullptr,nullptr,"real","imag") << std::endl;
  std::cout << "num axis2 (full): " << outer->num(2,0)->tojson(false,-1,nullptr,nullptr,nullptr,"real","imag") << std::endl;
  ReducerSum r;
  std::cout << "sum axis-1: " << sl->reduce(r,-1,false,false)->tojson(false,-1,nullptr,nullptr,nullptr,"real","imag") << std::endl;
  std::cout << "sum axis1: " << outer->reduce(r,1,false,false)->tojson(false,-1,nullptr,nullptr,nullptr,"real","imag") << std::endl;
  std::cout << sl->validityerror("layout") << std::endl;
  return 0;
}
