(** C12 (memory safety half), part 3: reading a layout ([to_list]) never hangs, on ANY layout; the type-level
    functions; and the purity-style fact that is meaningful in the model: results do not depend on the buffers of
    the input beyond its type and its value (collected layout-independence theorems). *)
From Coq Require Import ZArith List Bool Lia ZifyBool.
From AwkV Require Import Base Layout LayoutInd Valid Types AtAxis Carry Ops_Struct Ops_Flatten Ops_Option
                         Ops_Reduce Ops_Sort Ops_Getitem Ops_Fields
                         Typing Proofs_Typing Proofs_C11 Proofs_Lists Proofs_ToList Proofs_Carry
                         Proofs_AtAxis Proofs_AtAxisOps Proofs_C12 Proofs_Safety.
Import ListNotations.
Open Scope Z_scope.

(* ---------------------------------------------------------------- to_list: never "out of fuel", on ANY layout *)
(* [to_list] is structurally recursive and has no fuel: whatever the layout (valid or not), it ends in a value, in
   [Err EValue] or in [Err EOob] (the checked access that refuses to read outside a buffer) -- it never hangs.
   (On valid layouts with usable character buffers it ends in a value: valid_to_list_total_partial.) *)
Definition nf {A} (r : res A) : Prop := match r with Err EFuel => False | _ => True end.
Lemma nf_iff {A} (r : res A) : nf r <-> r <> Err EFuel.
Proof.
  unfold nf. destruct r as [a|[]]; split; try (intros _; discriminate); try (intros; exact I).
  - intros []. - intros H. apply H. reflexivity.
Qed.
Lemma nf_bind {A B} (r : res A) (f : A -> res B) : nf r -> (forall a, r = Ok a -> nf (f a)) -> nf (bind r f).
Proof. intros Hr Hf. destruct r as [a|e]; cbn [bind]; [apply Hf; reflexivity|exact Hr]. Qed.
Lemma nf_rmap {A B} (g : A -> B) (r : res A) : nf r -> nf (rmap g r).
Proof. destruct r as [a|e]; cbn [rmap]; auto. Qed.
Lemma nf_mapM {A B} (f : A -> res B) l : (forall x, In x l -> nf (f x)) -> nf (mapM f l).
Proof.
  induction l as [|x xs IH]; intros H; cbn [mapM]; [exact I|].
  apply nf_bind; [apply H; left; reflexivity|]. intros y _.
  apply nf_bind; [apply IH; intros z Hz; apply H; right; exact Hz|]. intros ys _. exact I.
Qed.
Lemma nf_get {A} (l : list A) i : nf (get l i).
Proof. unfold get. destruct (i <? 0); [exact I|]. destruct (nth_error l (Z.to_nat i)); exact I. Qed.
Lemma nf_slice {A} (l : list A) a b : nf (slice l a b).
Proof. unfold slice. destruct (_ && _); exact I. Qed.
Lemma nf_cut1 {A} (vs : list A) ab : nf (cut1 vs ab).
Proof. unfold cut1. destruct ab as [a b]. destruct (a =? b); [exact I|apply nf_slice]. Qed.
Lemma nf_chunks {A} (vs : list A) size zl : nf (chunks vs size zl).
Proof. unfold chunks. destruct (size <? 0); [exact I|]. destruct (size =? 0); [destruct (zl <? 0); exact I|exact I]. Qed.
Lemma nf_nest : forall dims count vs, nf (nest dims count vs).
Proof.
  induction dims as [|d ds IH]; intros count vs; cbn [nest]; [exact I|].
  apply nf_bind; [apply IH|]. intros inner _. apply nf_bind; [apply nf_chunks|]. intros; exact I.
Qed.
Lemma nf_pick vs b i : nf (pick_opt vs b i).
Proof. unfold pick_opt. destruct b; [apply nf_get|exact I]. Qed.
Lemma nf_bytes v : nf (bytes_of v).
Proof. destruct v; try exact I. cbn [bytes_of]. apply nf_mapM. intros x _. destruct x as [[]| | | | | |]; exact I. Qed.

Theorem to_list_never_hangs : forall c, to_list c <> Err EFuel.
Proof.
  intros c. apply nf_iff.
  induction c as [dt shape data| |w o c IHc|w s e c IHc|c size zl IHc|w ix c IHc|w ix c IHc|m vw c IHc
                 |m vw lsb n c IHc|c IHc|w t ix cs IHcs|cs ks n IHcs|arr rn c IHc] using content_ind'.
  - rewrite to_list_Numpy. destruct shape as [|n dims]; [exact I|].
    destruct (existsb _ _); [exact I|]. destruct (_ <? _); [exact I|]. apply nf_nest.
  - exact I.
  - rewrite to_list_ListOffset. apply nf_bind; [exact IHc|]. intros vs _. apply nf_rmap. unfold cut.
    destruct o; [exact I|]. apply nf_mapM. intros; apply nf_cut1.
  - rewrite to_list_ListA. apply nf_bind; [exact IHc|]. intros vs _. apply nf_rmap. unfold cut2.
    destruct (_ <? _); [exact I|]. apply nf_mapM. intros; apply nf_cut1.
  - rewrite to_list_Regular. apply nf_bind; [exact IHc|]. intros vs _. apply nf_rmap, nf_chunks.
  - rewrite to_list_Indexed. apply nf_bind; [exact IHc|]. intros vs _. apply nf_mapM. intros; apply nf_get.
  - rewrite to_list_IndexedOption. apply nf_bind; [exact IHc|]. intros vs _. apply nf_mapM. intros; apply nf_pick.
  - rewrite to_list_ByteMasked. apply nf_bind; [exact IHc|]. intros vs _. apply nf_mapM. intros [i b] _. apply nf_pick.
  - rewrite to_list_BitMasked. apply nf_bind; [exact IHc|]. intros vs _. destruct (n <? 0); [exact I|].
    apply nf_mapM. intros i _. apply nf_bind; [|intros; apply nf_pick]. unfold bit_at. apply nf_bind; [apply nf_get|]. intros; exact I.
  - rewrite to_list_Unmasked. exact IHc.
  - rewrite to_list_Union, all_lists_mapM. apply nf_bind.
    + apply nf_mapM. rewrite Forall_forall in IHcs. exact IHcs.
    + intros vss _. destruct (_ <? _); [exact I|]. apply nf_mapM. intros [tg i] _.
      apply nf_bind; [apply nf_get|]. intros; apply nf_get.
  - rewrite to_list_Record, all_lists_mapM. apply nf_bind.
    + apply nf_mapM. rewrite Forall_forall in IHcs. exact IHcs.
    + intros vss _. destruct (n <? 0); [exact I|]. apply nf_mapM. intros i _. unfold row.
      apply nf_bind; [apply nf_mapM; intros; apply nf_get|]. intros vs _.
      destruct ks; [destruct (Nat.eqb _ _); exact I|exact I].
  - rewrite to_list_Par. apply nf_bind; [exact IHc|]. intros vs _.
    destruct arr as [[]|]; try exact I; apply nf_mapM; intros; apply nf_rmap, nf_bytes.
Qed.

(* an invalid layout on which the checked read refuses (instead of reading beyond the 2-element buffer) *)
Example to_list_refuses_out_of_bounds_ex :
  let c := ListOffset I64 [0; 9] (Numpy DInt64 [2] [DZ 1; DZ 2]) in
  valid_b c = false /\ to_list c = Err EOob.
Proof. vm_compute. repeat split. Qed.

(* ---------------------------------------------------------------- type-level functions *)
From AwkV Require Import Proofs_FlattenB Proofs_Field.

(* [type_of], [minmax], [reducible], [sortable] ... are total functions.  The ones that can fail: axis resolution and
   the axis check fail only with [Err EValue], on every type; field projection on the type of a valid layout too *)
Theorem type_level_functions_clean :
  (forall t d axis, clean (resolve_axis t d axis)) /\
  (forall unk_ok fchk str_ok t d axis, clean (check_ax unk_ok fchk str_ok t d axis)) /\
  (forall k c vs, Valid None c -> to_list c = Ok vs -> clean (proj_ty k (type_of c))).
Proof.
  split; [exact clean_resolve|]. split.
  - intros. apply clean_err. intros e. apply check_ax_err.
  - intros k c vs HV Hl. pose proof (field_refines_all k c vs HV Hl) as H. unfold frefines in H. fold (type_of c) in H.
    destruct (field_content k c) as [c'|e].
    + destruct H as (t' & ws & Ht & _). rewrite Ht. exact I.
    + destruct H as (_ & Ht). rewrite Ht. exact I.
Qed.

(* ---------------------------------------------------------------- results depend on (type, value) only *)
From AwkV Require Import Proofs_C02 Proofs_Reduce Proofs_Reduce2 Proofs_SortRef Proofs_SortRef2 Proofs_Fillna
                         Proofs_FlattenA Proofs_Flatten
                         Proofs_Getitem Proofs_Getitem2 Proofs_Getitem3 Proofs_Getitem4 Proofs_Getitem5 Proofs_Getitem6
                         Proofs_Getitem7.

(* Two valid layouts with the same type and the same value -- whatever their buffers, encodings, offsets origins,
   unreachable elements -- give the same observable result under every modelled operation: no result can depend on
   (alias) anything of its input but what [to_list] shows.  Fragments are those of the refinement theorems. *)
Theorem results_depend_only_on_type_and_value : forall a b vs,
  Valid None a -> Valid None b -> to_list a = Ok vs -> to_list b = Ok vs -> type_of a = type_of b ->
  (forall ix, Forall (fun i => 0 <= i < zlen vs) ix -> obs (carry a ix) = obs (carry b ix)) /\
  (forall k, obs (field_content k a) = obs (field_content k b)) /\
  (forall r axis mask keepdims, fin a = true -> fin b = true ->
     obs (reduce_model r axis mask keepdims a) = obs (reduce_model r axis mask keepdims b)) /\
  (forall asc argsort axis, sfrag a = true -> sfrag b = true -> innermost axis (type_of a) = true ->
     obs (sort_model asc argsort axis a) = obs (sort_model asc argsort axis b)) /\
  (forall va vb v0s, ffrag a = true -> ffrag b = true -> to_list va = Ok v0s -> to_list vb = Ok v0s ->
     obs (fillna_model va a) = obs (fillna_model vb b)) /\
  (forall items, forallb item_ok items = true -> gfrag a = true -> gfrag b = true ->
     slice_ok items a = true -> fuel_ok items a = true ->
     obs (getitem_model items a) = obs (getitem_model items b)) /\
  (frag a = true -> frag b = true ->
     (forall axis, obs (num_model axis a) = obs (num_model axis b)) /\
     (forall axis, obs (localindex_model axis a) = obs (localindex_model axis b)) /\
     (forall target axis, obs (rpad_model target axis a) = obs (rpad_model target axis b)) /\
     (forall target axis, obs (rpadclip_model target axis a) = obs (rpadclip_model target axis b)) /\
     (forall n repl axis, obs (comb_model n repl axis a) = obs (comb_model n repl axis b)) /\
     (forall axis, noempty a = true -> noempty b = true -> obs (flatten_model axis a) = obs (flatten_model axis b))).
Proof.
  intros a b vs Ha Hb La Lb T. repeat split.
  - intros ix Hix. eapply layout_independent_carry_partial; eassumption.
  - intros k. eapply layout_independent_field_partial; eassumption.
  - intros. eapply Proofs_Reduce2.layout_independent_reduce_partial; eassumption.
  - intros. eapply layout_independent_sort_partial; eassumption.
  - intros. eapply layout_independent_fillna_partial; eassumption.
  - intros. eapply layout_independent_getitem_partial; eassumption.
  - eapply layout_independent_num_partial; eassumption.
  - eapply layout_independent_localindex_partial; eassumption.
  - eapply layout_independent_rpad_partial; eassumption.
  - eapply layout_independent_rpadclip_partial; eassumption.
  - eapply layout_independent_combinations_partial; eassumption.
  - intros. eapply Proofs_Flatten.layout_independent_flatten_partial; eassumption.
Qed.

(* the same list of optional records, once as ListOffset over IndexedOption, once as ListArray (with a gap and an
   unreachable element) over ByteMasked with reordered content *)
Example results_depend_only_on_type_and_value_ex :
  let a := ListOffset I64 [0; 2; 3]
             (IndexedOption I64 [1; -1; 0] (Record [Numpy DInt64 [2] [DZ 5; DZ 4]; Numpy DBool [2] [DZ 1; DZ 0]] (Some [[120]; [121]]) 2)) in
  let b := ListA I32 [3; 0] [5; 1]
             (ByteMasked [1; 1; 1; 1; 0] true
                (Record [Numpy DInt64 [6] [DZ 5; DZ 9; DZ 9; DZ 4; DZ 8; DZ 7]; Numpy DBool [5] [DZ 1; DZ 1; DZ 1; DZ 0; DZ 1]]
                        (Some [[120]; [121]]) 5)) in
  valid_b a = true /\ valid_b b = true /\ type_of a = type_of b /\ to_list a = to_list b /\
  to_list a = Ok [VList [VRec [([120], VNum (DZ 4)); ([121], VBool false)]; VNone]; VList [VRec [([120], VNum (DZ 5)); ([121], VBool true)]]] /\
  obs (reduce_model RSum (-1) false false a) = obs (reduce_model RSum (-1) false false b) /\
  obs (field_content [120] a) = obs (field_content [120] b) /\
  obs (flatten_model 1 a) = obs (flatten_model 1 b).
Proof. vm_compute. repeat split. Qed.
