(** C11 (closure), part 2: record-field projection ([field_content]), [setfield_model], [fillna_model]
    produce valid layouts from valid layouts. *)
From Coq Require Import ZArith List Bool Lia ZifyBool.
From AwkV Require Import Base Layout LayoutInd Valid Types AtAxis Carry Ops_Struct Ops_Option Ops_Getitem Ops_Fields
                         Typing Proofs_Typing Proofs_C11 Proofs_Lists Proofs_ToList Proofs_Carry Proofs_CarryValid
                         Proofs_AtAxis Proofs_AtAxisOps Proofs_Closure.
Import ListNotations.
Open Scope Z_scope.

(* ---------------------------------------------------------------- option nodes as (index, content) *)
Definition optnode (c : content) : bool :=
  match strip c with
  | IndexedOption _ _ _ | ByteMasked _ _ _ | BitMasked _ _ _ _ _ | Unmasked _ => true
  | _ => false
  end.

Lemma option_index_valid c ix c0 :
  Valid None c -> option_index c = Ok (ix, c0) ->
  Valid None c0 /\ optionlike c0 = false /\ clen c <= zlen ix /\
  Forall (fun i => i = -1 \/ 0 <= i < clen c0) ix.
Proof.
  intros HV H. inversion HV; subst; cbn [option_index] in H; try discriminate.
  - (* IndexedOption *)
    inversion H; subst. repeat split; auto; [cbn [clen]; rewrite zlen_map; lia|].
    apply Forall_map. match goal with Hf : Forall _ _ |- _ => eapply Forall_impl; [|exact Hf] end.
    cbv beta. intros i Hi. destruct (i <? 0) eqn:E; lia.
  - (* ByteMasked *)
    inversion H; subst. repeat split; auto.
    + cbn [clen]. rewrite zlen_map, zlen_zip, zlen_iota by apply zlen_nonneg. lia.
    + apply Forall_map. apply Forall_forall. intros [i b] Hib. apply zip_In in Hib as [Hi _]. apply iota_In' in Hi.
      destruct (Bool.eqb _ vw); lia.
  - (* BitMasked *)
    apply bind_Ok in H as (ix0 & Hix0 & H). inversion H; subst. repeat split; auto.
    + cbn [clen]. rewrite (mapM_zlen _ _ _ Hix0), zlen_iota by assumption. lia.
    + apply Forall_forall. intros i Hi. destruct (mapM_In_inv _ _ _ _ Hix0 Hi) as (j & Hj & Hji). apply iota_In' in Hj.
      apply bind_Ok in Hji as (b & _ & Hji). inversion Hji. destruct (Bool.eqb b vw); lia.
  - (* Unmasked *)
    inversion H; subst. repeat split; auto.
    + cbn [clen]. rewrite zlen_iota_max. lia.
    + apply Forall_forall. intros i Hi. apply iota_In' in Hi. lia.
Qed.

(* ---------------------------------------------------------------- field_content *)
(* The model keeps the option node and puts the projected field below it (the C++ then calls simplify_optiontype);
   the result is invalid when the projected field is itself option-type / indexed.  [fc_frag] excludes that:
   [u] = "directly below an option-type or indexed node". *)
Fixpoint fc_frag (k : name) (u : bool) (c : content) : bool :=
  match c with
  | Record cs keys _ =>
      match field_pos keys (zlen cs) k with
      | Ok i => match get cs i with Ok f => negb (u && optionlike f) | Err _ => true end
      | Err _ => true
      end
  | ListOffset _ _ c' | ListA _ _ _ c' | Regular c' _ _ => fc_frag k false c'
  | Indexed _ _ c' | IndexedOption _ _ c' | ByteMasked _ _ c' | BitMasked _ _ _ _ c' | Unmasked c' => fc_frag k true c'
  | Par None _ c' => fc_frag k u c'
  | _ => true
  end.

Lemma pairs_ok_eq lc lc' l : lc = lc' -> Forall (pair_ok lc) l -> Forall (pair_ok lc') l.
Proof. intros ->. auto. Qed.

Lemma field_content_valid_all k c : forall u vs c',
  Valid None c -> to_list c = Ok vs -> fc_frag k u c = true -> field_content k c = Ok c' ->
  Valid None c' /\ clen c' = clen c /\ (u = true -> optionlike c = false -> optionlike c' = false).
Proof.
  induction c as [dt shape data| |w o c IHc|w s e c IHc|c size zl IHc|w ix c IHc|w ix c IHc|m vw c IHc
                 |m vw lsb n c IHc|c IHc|w t ix cs IHcs|cs ks n IHcs|arr rn c IHc] using content_ind';
    intros u vs c' HV Hl Hf H; cbn [field_content] in H; try discriminate; cbn [fc_frag] in Hf; inversion HV; subst.
  - (* ListOffset *)
    apply rmap_Ok in H as (c'' & Hc'' & ->). rewrite to_list_ListOffset in Hl. apply bind_Ok in Hl as (vs0 & Hl0 & _).
    match goal with Hs : is_strk None = false -> Valid None c |- _ => specialize (Hs eq_refl) as HVc end.
    destruct (IHc _ _ _ HVc Hl0 Hf Hc'') as (X1 & X2 & _).
    split; [|split; [reflexivity|reflexivity]].
    constructor; [exact I|assumption|rewrite X2; assumption|intros _; exact X1].
  - (* ListA *)
    apply rmap_Ok in H as (c'' & Hc'' & ->). rewrite to_list_ListA in Hl. apply bind_Ok in Hl as (vs0 & Hl0 & _).
    match goal with Hs : is_strk None = false -> Valid None c |- _ => specialize (Hs eq_refl) as HVc end.
    destruct (IHc _ _ _ HVc Hl0 Hf Hc'') as (X1 & X2 & _).
    split; [|split; [reflexivity|reflexivity]].
    constructor; [exact I|assumption|rewrite X2; assumption|intros _; exact X1].
  - (* Regular *)
    apply rmap_Ok in H as (c'' & Hc'' & ->). rewrite to_list_Regular in Hl. apply bind_Ok in Hl as (vs0 & Hl0 & _).
    match goal with Hs : is_strk None = false -> Valid None c |- _ => specialize (Hs eq_refl) as HVc end.
    destruct (IHc _ _ _ HVc Hl0 Hf Hc'') as (X1 & X2 & _).
    split; [|split; [cbn [clen]; rewrite X2; reflexivity|reflexivity]].
    constructor; [exact I|assumption|assumption|intros _; exact X1].
  - (* Indexed *)
    apply rmap_Ok in H as (c'' & Hc'' & ->). rewrite to_list_Indexed in Hl. apply bind_Ok in Hl as (vs0 & Hl0 & _).
    match goal with HVc : Valid None c |- _ => destruct (IHc _ _ _ HVc Hl0 Hf Hc'') as (X1 & X2 & X3) end.
    split; [|split; [reflexivity|discriminate]].
    constructor; [exact I|rewrite X2; assumption|auto|exact X1].
  - (* IndexedOption *)
    apply rmap_Ok in H as (c'' & Hc'' & ->). rewrite to_list_IndexedOption in Hl. apply bind_Ok in Hl as (vs0 & Hl0 & _).
    match goal with HVc : Valid None c |- _ => destruct (IHc _ _ _ HVc Hl0 Hf Hc'') as (X1 & X2 & X3) end.
    split; [|split; [reflexivity|discriminate]].
    constructor; [exact I|rewrite X2; assumption|auto|exact X1].
  - (* ByteMasked *)
    apply rmap_Ok in H as (c'' & Hc'' & ->). rewrite to_list_ByteMasked in Hl. apply bind_Ok in Hl as (vs0 & Hl0 & _).
    match goal with HVc : Valid None c |- _ => destruct (IHc _ _ _ HVc Hl0 Hf Hc'') as (X1 & X2 & X3) end.
    split; [|split; [reflexivity|discriminate]].
    constructor; [exact I|rewrite X2; assumption|auto|exact X1].
  - (* BitMasked *)
    apply rmap_Ok in H as (c'' & Hc'' & ->). rewrite to_list_BitMasked in Hl. apply bind_Ok in Hl as (vs0 & Hl0 & _).
    match goal with HVc : Valid None c |- _ => destruct (IHc _ _ _ HVc Hl0 Hf Hc'') as (X1 & X2 & X3) end.
    split; [|split; [reflexivity|discriminate]].
    constructor; [exact I|assumption|assumption|rewrite X2; assumption|auto|exact X1].
  - (* Unmasked *)
    apply rmap_Ok in H as (c'' & Hc'' & ->). rewrite to_list_Unmasked in Hl.
    match goal with HVc : Valid None c |- _ => destruct (IHc _ _ _ HVc Hl Hf Hc'') as (X1 & X2 & X3) end.
    split; [|split; [cbn [clen]; exact X2|discriminate]].
    constructor; [exact I|auto|exact X1].
  - (* Record *)
    apply bind_Ok in H as (i & Hi & H). apply bind_Ok in H as (f & Hfi & H). rewrite Hi, Hfi in Hf.
    rewrite to_list_Record in Hl. apply bind_Ok in Hl as (vss & Hvss & _). rewrite all_lists_mapM in Hvss.
    pose proof (get_In _ _ _ Hfi) as Hin.
    destruct (mapM_Ok_In _ _ _ _ Hvss Hin) as (col & Hcol & _).
    match goal with HVs : Forall (Valid None) cs, Hn : Forall (fun x => n <= clen x) cs |- _ =>
      rewrite Forall_forall in HVs, Hn; pose proof (HVs f Hin) as HVf; pose proof (Hn f Hin) as Hnf end.
    split; [eapply (crange_valid f col 0 n); eauto; lia|].
    destruct (crange_spec f col 0 n HVf Hcol) as (c3 & Hc3 & _ & Hn3); try lia. rewrite H in Hc3. inversion Hc3; subst c3.
    split; [cbn [clen]; lia|]. intros -> _. unfold crange in H. destruct (carry_class _ _ _ H) as [Ho _]. rewrite Ho.
    destruct (optionlike f); [discriminate|reflexivity].
  - (* Par *)
    destruct arr; [discriminate|]. rewrite to_list_Par in Hl. apply bind_Ok in Hl as (vs0 & Hl0 & _).
    match goal with HVc : Valid None c |- _ => destruct (IHc _ _ _ HVc Hl0 Hf H) as (X1 & X2 & X3) end.
    split; [exact X1|]. split; [exact X2|]. rewrite optionlike_Par. exact X3.
Qed.

Theorem field_content_preserves_valid_partial : forall k c vs c',
  Valid None c -> to_list c = Ok vs -> fc_frag k false c = true -> field_content k c = Ok c' -> Valid None c'.
Proof. intros k c vs c' HV Hl Hf H. exact (proj1 (field_content_valid_all k c false vs c' HV Hl Hf H)). Qed.

(* the same with the boolean side condition on character buffers in place of "has a value" *)
Corollary field_content_preserves_valid_chars : forall k c c',
  Valid None c -> chars_ok c = true -> fc_frag k false c = true -> field_content k c = Ok c' -> Valid None c'.
Proof.
  intros k c c' HV Hc Hf H. destruct (valid_to_list_total_partial c None HV Hc) as [vs Hl].
  eapply field_content_preserves_valid_partial; eassumption.
Qed.

Example field_content_preserves_valid_refuted :
  let c := IndexedOption I64 [0] (Record [ByteMasked [1] true (Numpy DInt64 [1] [DZ 1])] None 1) in
  let r := IndexedOption I64 [0] (ByteMasked [1] true (Numpy DInt64 [1] [DZ 1])) in
  valid_b c = true /\ field_content [48] c = Ok r /\ valid_b r = false /\ fc_frag [48] false c = false.
Proof. vm_compute. repeat split. Qed.

Example field_content_preserves_valid_ex :
  let c := ListOffset I64 [0; 2; 3]
             (IndexedOption I64 [2; -1; 0]
                (Record [Numpy DInt64 [4] [DZ 1; DZ 2; DZ 3; DZ 4];
                         ListOffset I64 [0; 1; 1; 3] (ByteMasked [1; 0; 1] true (Numpy DFloat64 [3] [DZ 7; DNaN; DZ 9]))]
                        (Some [[120]; [121]]) 3)) in
  valid_b c = true /\ chars_ok c = true /\ fc_frag [121] false c = true /\
  (do r <- field_content [121] c; Ok (valid_b r, to_list r)) =
  Ok (true, Ok [VList [VList [VNone; VNum (DZ 9)]; VNone]; VList [VList [VNum (DZ 7)]]]).
Proof. vm_compute. repeat split. Qed.

(* ---------------------------------------------------------------- setfield *)
Theorem setfield_preserves_valid : forall k c what c',
  Valid None c -> Valid None what -> setfield_model k c what = Ok c' -> Valid None c'.
Proof.
  intros k c what c' HV HW H. destruct c; try discriminate. cbn [setfield_model] in H.
  destruct (clen what =? len) eqn:E; [|discriminate]. cbn [negb] in H. inversion H; subst. inversion HV; subst.
  constructor; [exact I|assumption| | |].
  - apply Forall_app. split; [assumption|]. constructor; [lia|constructor].
  - intros ks Hks. inversion Hks; subst. rewrite !app_length. cbn [length]. f_equal.
    destruct keys as [ks0|]; [auto|]. rewrite map_length. apply zlen_eq_length. rewrite zlen_iota; [reflexivity|apply zlen_nonneg].
  - apply Forall_app. split; [assumption|]. constructor; [exact HW|constructor].
Qed.

Example setfield_preserves_valid_ex :
  let c := Record [ListOffset I64 [0; 2; 3] (Numpy DInt64 [3] [DZ 1; DZ 2; DZ 3])] None 2 in
  let w := IndexedOption I64 [-1; 0] (Record [Numpy DBool [1] [DZ 1]] (Some [[97]]) 1) in
  valid_b c = true /\ valid_b w = true /\ (do r <- setfield_model [98] c w; Ok (valid_b r)) = Ok true.
Proof. vm_compute. repeat split. Qed.

(* ---------------------------------------------------------------- fill_none *)
(* The model turns an option node into Union [content; value] without the C++'s simplify_uniontype: the result is
   invalid when the content (or the value) is itself a union, and when the option node is directly inside a union.
   [fn_frag] excludes these; the value must be a valid non-union layout. *)
Fixpoint fn_frag (c : content) : bool :=
  match c with
  | Numpy _ _ _ | Empty => true
  | ListOffset _ _ c' | ListA _ _ _ c' | Regular c' _ _ | Indexed _ _ c' | Par _ _ c' => fn_frag c'
  | IndexedOption _ _ c' | ByteMasked _ _ c' | BitMasked _ _ _ _ c' | Unmasked c' => negb (unionlike c')
  | Union _ _ _ cs =>
      (fix all (l : list content) : bool :=
         match l with [] => true | x :: xs => negb (optnode x) && fn_frag x && all xs end) cs
  | Record cs _ _ =>
      (fix all (l : list content) : bool := match l with [] => true | x :: xs => fn_frag x && all xs end) cs
  end.
Lemma fn_frag_union cs :
  (fix all (l : list content) : bool :=
     match l with [] => true | x :: xs => negb (optnode x) && fn_frag x && all xs end) cs = true ->
  Forall (fun x => optnode x = false /\ fn_frag x = true) cs.
Proof.
  induction cs as [|x xs IH]; [constructor|]. intros H. apply andb_true_iff in H as [H1 H2]. apply andb_true_iff in H1 as [H0 H1].
  constructor; [split; [destruct (optnode x); [discriminate|reflexivity]|exact H1]|auto].
Qed.
Lemma fn_frag_record cs :
  (fix all (l : list content) : bool := match l with [] => true | x :: xs => fn_frag x && all xs end) cs = true ->
  Forall (fun x => fn_frag x = true) cs.
Proof. induction cs as [|x xs IH]; [constructor|]. intros H. apply andb_true_iff in H as [H1 H2]. constructor; auto. Qed.

Lemma fillna_all_mapM p value cs :
  (fix all (l : list content) : res (list content) :=
     match l with
     | [] => Ok []
     | x :: xs => do y <- fillna_p p value x; do ys <- all xs; Ok (y :: ys)
     end) cs = mapM (fillna_p p value) cs.
Proof. induction cs as [|x xs IH]; [reflexivity|]. cbn [mapM]. rewrite <- IH. reflexivity. Qed.

Lemma zip_map_diag {A B C} (f : A -> B) (g : A -> C) l : zip (map f l) (map g l) = map (fun x => (f x, g x)) l.
Proof. induction l as [|x l IH]; [reflexivity|]. cbn [map zip]. rewrite IH. reflexivity. Qed.

(* what the descent needs from a rebuilt sub-layout *)
Definition fnfits (c c' : content) : Prop :=
  Valid None c' /\ clen c <= clen c' /\ (optionlike c = false -> optionlike c' = false) /\
  (unionlike c = false -> optnode c = false -> unionlike c' = false).

Lemma fillna_option value c c' :
  Valid None value -> unionlike value = false -> clen value = 1 ->
  Valid None c -> optnode c = true -> (forall a r x, c <> Par a r x) ->
  (forall cc, (exists ix, option_index c = Ok (ix, cc)) -> unionlike cc = false) ->
  (do oi <- option_index c;
   let (ix, cc) := oi in
   Ok (Union I64 (map (fun i => if i <? 0 then 1 else 0) ix) (map (fun i => if i <? 0 then 0 else i) ix) [cc; value])) = Ok c' ->
  Valid None c' /\ clen c <= clen c'.
Proof.
  intros HVv Huv Hnv HV _ _ Hu H. apply bind_Ok in H as ([ix cc] & Hoi & H). inversion H; subst.
  destruct (option_index_valid _ _ _ HV Hoi) as (HVc & Ho & Hn & Hix).
  split; [|cbn [clen]; rewrite zlen_map; exact Hn].
  constructor; [exact I| |rewrite !zlen_map; lia| |constructor; [exact HVc|constructor; [exact HVv|constructor]]].
  - constructor; [apply Hu; eexists; exact Hoi|constructor; [exact Huv|constructor]].
  - rewrite zip_map_diag. apply Forall_map. eapply Forall_impl; [|exact Hix]. cbv beta. cbn [fst snd map].
    intros i Hi. destruct (i <? 0) eqn:E.
    + split; [lia|]. split; [lia|]. exists (clen value). split; [reflexivity|lia].
    + split; [lia|]. split; [lia|]. exists (clen cc). split; [reflexivity|lia].
Qed.

Lemma fillna_valid_all value : Valid None value -> unionlike value = false -> clen value = 1 ->
  forall c p c', Valid p c -> fn_frag c = true -> fillna_p p value c = Ok c' ->
  Valid p c' /\ clen c <= clen c' /\ (optionlike c = false -> optionlike c' = false) /\
  (unionlike c = false -> optnode c = false -> unionlike c' = false) /\
  ((forall a r x, c <> Par a r x) -> forall a r x, c' <> Par a r x).
Proof.
  intros HVv Huv Hnv.
  induction c as [dt shape data| |w o c IHc|w s e c IHc|c size zl IHc|w ix c IHc|w ix c IHc|m vw c IHc
                 |m vw lsb n c IHc|c IHc|w t ix cs IHcs|cs ks n IHcs|arr rn c IHc] using content_ind';
    intros p c' HV Hf H; cbn [fillna_p] in H; cbn [fn_frag] in Hf; pose proof HV as HV0; inversion HV; subst.
  - inversion H; subst. repeat split; auto; lia.
  - inversion H; subst. repeat split; auto; lia.
  - (* ListOffset *)
    destruct (is_strk p) eqn:Es; [inversion H; subst; repeat split; auto; lia|].
    match goal with Hp : ParamOk p _ |- _ => pose proof (ParamOk_nostr _ _ Hp Es); subst p end.
    apply rmap_Ok in H as (c'' & Hc'' & ->).
    match goal with Hs : _ -> Valid None c |- _ => specialize (Hs eq_refl) as HVc end.
    destruct (IHc None _ HVc Hf Hc'') as (X1 & X2 & _).
    split; [|split; [cbn [clen]; lia|repeat split; try reflexivity; discriminate]].
    constructor; [exact I|assumption| |intros _; exact X1].
    match goal with Hq : Forall (pair_ok (clen c)) _ |- _ => eapply Forall_impl; [|exact Hq] end. intros ab. apply pair_ok_mono, X2.
  - (* ListA *)
    destruct (is_strk p) eqn:Es; [inversion H; subst; repeat split; auto; lia|].
    match goal with Hp : ParamOk p _ |- _ => pose proof (ParamOk_nostr _ _ Hp Es); subst p end.
    apply rmap_Ok in H as (c'' & Hc'' & ->).
    match goal with Hs : _ -> Valid None c |- _ => specialize (Hs eq_refl) as HVc end.
    destruct (IHc None _ HVc Hf Hc'') as (X1 & X2 & _).
    split; [|split; [cbn [clen]; lia|repeat split; try reflexivity; discriminate]].
    constructor; [exact I|assumption| |intros _; exact X1].
    match goal with Hq : Forall (pair_ok (clen c)) _ |- _ => eapply Forall_impl; [|exact Hq] end. intros ab. apply pair_ok_mono, X2.
  - (* Regular *)
    destruct (is_strk p) eqn:Es; [inversion H; subst; repeat split; auto; lia|].
    match goal with Hp : ParamOk p _ |- _ => pose proof (ParamOk_nostr _ _ Hp Es); subst p end.
    apply rmap_Ok in H as (c'' & Hc'' & ->).
    match goal with Hs : _ -> Valid None c |- _ => specialize (Hs eq_refl) as HVc end.
    destruct (IHc None _ HVc Hf Hc'') as (X1 & X2 & _).
    split; [constructor; [exact I|assumption|assumption|intros _; exact X1]|].
    split; [|repeat split; try reflexivity; discriminate].
    cbn [clen]. destruct (size =? 0) eqn:Ez; [lia|]. apply Z.div_le_mono; lia.
  - (* Indexed *)
    match goal with Hp : ParamOk p _ |- _ => pose proof (ParamOk_nonlist _ _ Hp eq_refl); subst p end.
    apply rmap_Ok in H as (c'' & Hc'' & ->).
    match goal with HVc : Valid None c |- _ => destruct (IHc None _ HVc Hf Hc'') as (X1 & X2 & X3 & _) end.
    split; [|split; [cbn [clen]; lia|repeat split; try reflexivity; discriminate]].
    constructor; [exact I| |auto|exact X1].
    match goal with Hq : Forall _ ix |- _ => eapply Forall_impl; [|exact Hq] end. cbv beta. intros i Hi. lia.
  - (* IndexedOption *)
    match goal with Hp : ParamOk p _ |- _ => pose proof (ParamOk_nonlist _ _ Hp eq_refl); subst p end.
    destruct (fillna_option value _ c' HVv Huv Hnv HV0 eq_refl) as (X1 & X2); [discriminate| |exact H|].
    { intros cc (ix0 & Hix0). cbn [option_index] in Hix0. inversion Hix0; subst. destruct (unionlike cc); [discriminate|reflexivity]. }
    apply bind_Ok in H as ([ix1 cc1] & _ & H). inversion H; subst.
    split; [exact X1|]. split; [exact X2|]. repeat split; try reflexivity; discriminate.
  - (* ByteMasked *)
    match goal with Hp : ParamOk p _ |- _ => pose proof (ParamOk_nonlist _ _ Hp eq_refl); subst p end.
    destruct (fillna_option value _ c' HVv Huv Hnv HV0 eq_refl) as (X1 & X2); [discriminate| |exact H|].
    { intros cc (ix0 & Hix0). cbn [option_index] in Hix0. inversion Hix0; subst. destruct (unionlike cc); [discriminate|reflexivity]. }
    apply bind_Ok in H as ([ix1 cc1] & _ & H). inversion H; subst.
    split; [exact X1|]. split; [exact X2|]. repeat split; try reflexivity; discriminate.
  - (* BitMasked *)
    match goal with Hp : ParamOk p _ |- _ => pose proof (ParamOk_nonlist _ _ Hp eq_refl); subst p end.
    destruct (fillna_option value _ c' HVv Huv Hnv HV0 eq_refl) as (X1 & X2); [discriminate| |exact H|].
    { intros cc (ix0 & Hix0). cbn [option_index] in Hix0. apply bind_Ok in Hix0 as (? & _ & Hix0). inversion Hix0; subst.
      destruct (unionlike cc); [discriminate|reflexivity]. }
    apply bind_Ok in H as ([ix1 cc1] & _ & H). inversion H; subst.
    split; [exact X1|]. split; [exact X2|]. repeat split; try reflexivity; discriminate.
  - (* Unmasked *)
    match goal with Hp : ParamOk p _ |- _ => pose proof (ParamOk_nonlist _ _ Hp eq_refl); subst p end.
    destruct (fillna_option value _ c' HVv Huv Hnv HV0 eq_refl) as (X1 & X2); [discriminate| |exact H|].
    { intros cc (ix0 & Hix0). cbn [option_index] in Hix0. inversion Hix0; subst. destruct (unionlike cc); [discriminate|reflexivity]. }
    apply bind_Ok in H as ([ix1 cc1] & _ & H). inversion H; subst.
    split; [exact X1|]. split; [exact X2|]. repeat split; try reflexivity; discriminate.
  - (* Union *)
    match goal with Hp : ParamOk p _ |- _ => pose proof (ParamOk_nonlist _ _ Hp eq_refl); subst p end.
    rewrite fillna_all_mapM in H. apply rmap_Ok in H as (cs' & Hcs' & ->). apply fn_frag_union in Hf.
    match goal with HVs : Forall (Valid None) cs |- _ => rename HVs into HVs0 end.
    assert (HF : Forall2 (fun x y => fnfits x y /\ optnode x = false) cs cs').
    { eapply mapM_Forall2_P; [exact Hcs'|]. intros x y Hx Hy. rewrite Forall_forall in IHcs, HVs0, Hf.
      destruct (Hf x Hx) as [Hox Hfx]. destruct (IHcs x Hx None y (HVs0 x Hx) Hfx Hy) as (X1 & X2 & X3 & X4 & _).
      split; [repeat split; assumption|exact Hox]. }
    split; [|split; [cbn [clen]; lia|repeat split; try reflexivity; discriminate]].
    constructor; [exact I| |assumption| |].
    + match goal with Hu : Forall (fun x => unionlike x = false) cs |- _ => rewrite Forall_forall in Hu; rename Hu into Hu0 end.
      eapply Forall2_Forall_r; [exact HF|]. cbv beta. intros x y Hx ((_ & _ & _ & X4) & Hox). apply X4; [apply Hu0, Hx|exact Hox].
    + match goal with Hz : Forall _ (zip t ix) |- _ => eapply Forall_impl; [|exact Hz] end.
      cbv beta. intros ti (Ht & Hi & lc & Hlc & Hlt). split; [exact Ht|]. split; [exact Hi|].
      destruct (get_clen_map _ _ _ Hlc) as (x & Hx & ->).
      destruct (Forall2_get _ _ _ HF _ _ Hx) as (y & Hy & ((_ & Y2 & _) & _)).
      exists (clen y). split; [rewrite get_map, Hy; reflexivity|lia].
    + eapply Forall2_Forall_r; [exact HF|]. cbv beta. intros x y _ ((X1 & _) & _). exact X1.
  - (* Record *)
    match goal with Hp : ParamOk p _ |- _ => pose proof (ParamOk_nonlist _ _ Hp eq_refl); subst p end.
    rewrite fillna_all_mapM in H. apply rmap_Ok in H as (cs' & Hcs' & ->). apply fn_frag_record in Hf.
    match goal with HVs : Forall (Valid None) cs |- _ => rename HVs into HVs0 end.
    assert (HF : Forall2 fnfits cs cs').
    { eapply mapM_Forall2_P; [exact Hcs'|]. intros x y Hx Hy. rewrite Forall_forall in IHcs, HVs0, Hf.
      destruct (IHcs x Hx None y (HVs0 x Hx) (Hf x Hx) Hy) as (X1 & X2 & X3 & X4 & _). repeat split; assumption. }
    split; [|split; [cbn [clen]; lia|repeat split; try reflexivity; discriminate]].
    constructor; [exact I|assumption| | |].
    + match goal with Hn : Forall (fun x => n <= clen x) cs |- _ => rewrite Forall_forall in Hn; rename Hn into Hn0 end.
      eapply Forall2_Forall_r; [exact HF|]. cbv beta. intros x y Hx (_ & X2 & _). specialize (Hn0 x Hx). lia.
    + intros k Hk. rewrite (Forall2_length _ _ _ HF). auto.
    + eapply Forall2_Forall_r; [exact HF|]. cbv beta. intros x y _ (X1 & _). exact X1.
  - (* Par *)
    apply rmap_Ok in H as (c'' & Hc'' & ->).
    match goal with HVc : Valid arr c |- _ => destruct (IHc arr _ HVc Hf Hc'') as (X1 & X2 & X3 & X4 & X5) end.
    split; [constructor; [apply X5; assumption|exact X1]|]. split; [cbn [clen]; exact X2|].
    split; [rewrite !optionlike_Par; exact X3|]. split; [|intros Hn; exfalso; eapply Hn; reflexivity].
    unfold unionlike, optnode. cbn [strip]. exact X4.
Qed.

Theorem fillna_preserves_valid_partial : forall value c c',
  Valid None c -> Valid None value -> unionlike value = false -> fn_frag c = true ->
  fillna_model value c = Ok c' -> Valid None c'.
Proof.
  intros value c c' HV HVv Hu Hf H. unfold fillna_model in H. destruct (clen value =? 1) eqn:E; [|discriminate].
  apply (fillna_valid_all value HVv Hu ltac:(lia) c None c' HV Hf H).
Qed.

Example fillna_preserves_valid_refuted_in_union :
  let c := Union I64 [0] [0] [IndexedOption I64 [-1] Empty] in
  let r := Union I64 [0] [0] [Union I64 [1] [0] [Empty; Numpy DInt64 [1] [DZ 0]]] in
  valid_b c = true /\ fillna_model (Numpy DInt64 [1] [DZ 0]) c = Ok r /\ valid_b r = false /\ fn_frag c = false.
Proof. vm_compute. repeat split. Qed.
Example fillna_preserves_valid_refuted_over_union :
  let c := IndexedOption I64 [-1] (Union I64 [] [] []) in
  let r := Union I64 [1] [0] [Union I64 [] [] []; Numpy DInt64 [1] [DZ 0]] in
  valid_b c = true /\ fillna_model (Numpy DInt64 [1] [DZ 0]) c = Ok r /\ valid_b r = false /\ fn_frag c = false.
Proof. vm_compute. repeat split. Qed.
Example fillna_preserves_valid_refuted_value :
  let v := Union I64 [0] [0] [Numpy DInt64 [1] [DZ 0]] in
  let c := IndexedOption I64 [-1] Empty in
  valid_b c = true /\ valid_b v = true /\ fn_frag c = true /\
  (do r <- fillna_model v c; Ok (valid_b r)) = Ok false.
Proof. vm_compute. repeat split. Qed.

Example fillna_preserves_valid_ex :
  let c := Union I64 [0; 1; 0] [0; 0; 1]
             [ListOffset I64 [0; 2; 3]
                (ByteMasked [1; 0; 1] true
                   (Record [Regular (Numpy DInt64 [6] [DZ 1; DZ 2; DZ 3; DZ 4; DZ 5; DZ 6]) 2 3;
                            BitMasked [5] true true 3 (Numpy DFloat64 [3] [DZ 7; DNaN; DZ 9])] (Some [[120]; [121]]) 3));
              Par (Some AString) None (ListOffset I64 [0; 2] (Par (Some AChar) None (Numpy DUInt8 [2] [DZ 97; DZ 98])))] in
  let v := Numpy DInt64 [1] [DZ 0] in
  valid_b c = true /\ fn_frag c = true /\ (do r <- fillna_model v c; Ok (valid_b r)) = Ok true.
Proof. vm_compute. repeat split. Qed.
