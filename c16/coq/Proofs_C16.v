(** C16 proofs, part 1: the naming layer (label / relabel) and the absence of out-of-range reads. *)
From Coq Require Import ZArith List Bool Lia ZifyBool.
From AwkV Require Import Base Layout LayoutInd Valid Types Proofs_Lists Proofs_C11 Proofs_Typing Proofs_ToList.
From AwkBuffers Require Import Buffers.
Import ListNotations.
Open Scope Z_scope.

(* ---------------------------------------------------------------- induction principle for trees of buffers *)
Section FInd.
  Variable P : ftree -> Prop.
  Hypothesis HNumpy : forall dt inner data, P (TNumpy dt inner data).
  Hypothesis HEmpty : P TEmpty.
  Hypothesis HListOffset : forall w o t, P t -> P (TListOffset w o t).
  Hypothesis HList : forall w s e t, P t -> P (TList w s e t).
  Hypothesis HRegular : forall t size, P t -> P (TRegular t size).
  Hypothesis HIndexed : forall w ix t, P t -> P (TIndexed w ix t).
  Hypothesis HIndexedOption : forall w ix t, P t -> P (TIndexedOption w ix t).
  Hypothesis HByteMasked : forall m vw t, P t -> P (TByteMasked m vw t).
  Hypothesis HBitMasked : forall m vw lsb t, P t -> P (TBitMasked m vw lsb t).
  Hypothesis HUnmasked : forall t, P t -> P (TUnmasked t).
  Hypothesis HUnion : forall w tg ix ts, Forall P ts -> P (TUnion w tg ix ts).
  Hypothesis HRecord : forall ts ks, Forall P ts -> P (TRecord ts ks).
  Hypothesis HPar : forall a r t, P t -> P (TPar a r t).
  Fixpoint ftree_ind' (t : ftree) : P t :=
    match t with
    | TNumpy dt inner data => HNumpy dt inner data
    | TEmpty => HEmpty
    | TListOffset w o t' => HListOffset w o t' (ftree_ind' t')
    | TList w s e t' => HList w s e t' (ftree_ind' t')
    | TRegular t' size => HRegular t' size (ftree_ind' t')
    | TIndexed w ix t' => HIndexed w ix t' (ftree_ind' t')
    | TIndexedOption w ix t' => HIndexedOption w ix t' (ftree_ind' t')
    | TByteMasked m vw t' => HByteMasked m vw t' (ftree_ind' t')
    | TBitMasked m vw lsb t' => HBitMasked m vw lsb t' (ftree_ind' t')
    | TUnmasked t' => HUnmasked t' (ftree_ind' t')
    | TUnion w tg ix ts =>
        HUnion w tg ix ts ((fix go (l : list ftree) : Forall P l :=
                              match l with [] => Forall_nil P | x :: xs => Forall_cons x (ftree_ind' x) (go xs) end) ts)
    | TRecord ts ks =>
        HRecord ts ks ((fix go (l : list ftree) : Forall P l :=
                          match l with [] => Forall_nil P | x :: xs => Forall_cons x (ftree_ind' x) (go xs) end) ts)
    | TPar a r t' => HPar a r t' (ftree_ind' t')
    end.
End FInd.

(* ---------------------------------------------------------------- the list part of label / relabel, named *)
Fixpoint label_all (l : list ftree) (j : Z) : list form * container * Z :=
  match l with
  | [] => ([], [], j)
  | x :: xs =>
      let '(f, ct1, j1) := label x j in
      let '(fs, ct2, j2) := label_all xs j1 in
      (f :: fs, ct1 ++ ct2, j2)
  end.
Fixpoint relabel_all (l : list form) (ct : container) : res (list ftree) :=
  match l with
  | [] => Ok []
  | x :: xs => do t <- relabel x ct; do ts <- relabel_all xs ct; Ok (t :: ts)
  end.

Lemma label_Union w tg ix ts k :
  label (TUnion w tg ix ts) k =
  let '(fs, ct, k') := label_all ts (k + 1) in
  (FUnion w fs k, ((k, ATags), BIdx tg) :: ((k, AIndex), BIdx ix) :: ct, k').
Proof.
  cbn [label].
  assert (E : forall l j, (fix all (l : list ftree) (j : Z) : list form * container * Z :=
             match l with
             | [] => ([], [], j)
             | x :: xs => let '(f, ct1, j1) := label x j in let '(fs, ct2, j2) := all xs j1 in (f :: fs, ct1 ++ ct2, j2)
             end) l j = label_all l j).
  { induction l as [|x xs IH]; intros j; [reflexivity|]. cbn [label_all]. destruct (label x j) as [[f ct1] j1]. rewrite IH. reflexivity. }
  rewrite E. reflexivity.
Qed.
Lemma label_Record ts ks k :
  label (TRecord ts ks) k = let '(fs, ct, k') := label_all ts (k + 1) in (FRecord fs ks k, ct, k').
Proof.
  cbn [label].
  assert (E : forall l j, (fix all (l : list ftree) (j : Z) : list form * container * Z :=
             match l with
             | [] => ([], [], j)
             | x :: xs => let '(f, ct1, j1) := label x j in let '(fs, ct2, j2) := all xs j1 in (f :: fs, ct1 ++ ct2, j2)
             end) l j = label_all l j).
  { induction l as [|x xs IH]; intros j; [reflexivity|]. cbn [label_all]. destruct (label x j) as [[f ct1] j1]. rewrite IH. reflexivity. }
  rewrite E. reflexivity.
Qed.
Lemma relabel_all_eq fs ct :
  (fix all (l : list form) : res (list ftree) :=
     match l with [] => Ok [] | x :: xs => do t <- relabel x ct; do ts <- all xs; Ok (t :: ts) end) fs = relabel_all fs ct.
Proof. induction fs as [|x xs IH]; [reflexivity|]. cbn [relabel_all]. rewrite IH. reflexivity. Qed.
Lemma relabel_Union w fs fk ct :
  relabel (FUnion w fs fk) ct =
  do tg <- lookup_idx (fk, ATags) ct; do ix <- lookup_idx (fk, AIndex) ct; do ts <- relabel_all fs ct; Ok (TUnion w tg ix ts).
Proof. cbn [relabel]. rewrite relabel_all_eq. reflexivity. Qed.
Lemma relabel_Record fs ks fk ct :
  relabel (FRecord fs ks fk) ct = do ts <- relabel_all fs ct; Ok (TRecord ts ks).
Proof. cbn [relabel]. rewrite relabel_all_eq. reflexivity. Qed.

(* ---------------------------------------------------------------- keys are drawn in pre-order from [k, k') *)
Definition ids_in (ct : container) (lo hi : Z) : Prop := Forall (fun e : key * buf => lo <= fst (fst e) < hi) ct.

Lemma ids_in_weaken ct lo hi lo' hi' : ids_in ct lo hi -> lo' <= lo -> hi <= hi' -> ids_in ct lo' hi'.
Proof. intros H ? ?. eapply Forall_impl; [|exact H]. cbn. intros; lia. Qed.
Lemma ids_in_app ct1 ct2 lo hi : ids_in ct1 lo hi -> ids_in ct2 lo hi -> ids_in (ct1 ++ ct2) lo hi.
Proof. intros. apply Forall_app. split; assumption. Qed.

Definition range_ok (t : ftree) : Prop :=
  forall k, let '(f, ct, k') := label t k in k <= k' /\ ids_in ct k k'.

Lemma label_all_range ts : Forall range_ok ts ->
  forall j, let '(fs, ct, j') := label_all ts j in j <= j' /\ ids_in ct j j'.
Proof.
  induction 1 as [|x xs Hx _ IH]; intros j; cbn [label_all].
  - split; [lia|constructor].
  - specialize (Hx j). destruct (label x j) as [[f ct1] j1]. destruct Hx as [H1 H2].
    specialize (IH j1). destruct (label_all xs j1) as [[fs ct2] j2]. destruct IH as [H3 H4].
    split; [lia|]. apply ids_in_app; eapply ids_in_weaken; eauto; lia.
Qed.

Lemma label_range t : range_ok t.
Proof.
  induction t using ftree_ind'; intros k.
  1-2: cbn [label]; split; [lia|]; repeat constructor; cbn; lia.
  all: try (cbn [label]; specialize (IHt (k + 1)); destruct (label t (k + 1)) as [[f ct] k']; destruct IHt as [H1 H2];
            split; [lia|]; repeat (constructor; [cbn; lia|]); eapply ids_in_weaken; eauto; lia).
  - rewrite label_Union. pose proof (label_all_range ts H (k + 1)) as HH. destruct (label_all ts (k + 1)) as [[fs ct] k'].
    destruct HH as [H1 H2]. split; [lia|]. repeat (constructor; [cbn; lia|]). eapply ids_in_weaken; eauto; lia.
  - rewrite label_Record. pose proof (label_all_range ts H (k + 1)) as HH. destruct (label_all ts (k + 1)) as [[fs ct] k'].
    destruct HH as [H1 H2]. split; [lia|]. eapply ids_in_weaken; eauto; lia.
  - cbn [label]. specialize (IHt k). destruct (label t k) as [[f ct] k']. exact IHt.
Qed.

(* ---------------------------------------------------------------- every key is emitted once *)
Definition keys (ct : container) : list key := map fst ct.
Lemma ids_in_notin ct lo hi fk a : ids_in ct lo hi -> ~ (lo <= fk < hi) -> ~ In (fk, a) (keys ct).
Proof.
  intros H Hn Hin. unfold keys in Hin. apply in_map_iff in Hin as (e & He & Hine).
  unfold ids_in in H. rewrite Forall_forall in H. specialize (H e Hine). rewrite He in H. cbn in H. lia.
Qed.
Lemma NoDup_app_disj {A} (l m : list A) : NoDup l -> NoDup m -> (forall x, In x l -> ~ In x m) -> NoDup (l ++ m).
Proof.
  induction 1 as [|x l Hx Hl IH]; intros Hm Hd; [exact Hm|]. cbn. constructor.
  - intros Hin. apply in_app_iff in Hin as [Hin|Hin]; [contradiction|]. exact (Hd x (or_introl eq_refl) Hin).
  - apply IH; [exact Hm|]. intros y Hy. apply Hd. right. exact Hy.
Qed.
Lemma keys_app a b : keys (a ++ b) = keys a ++ keys b.
Proof. unfold keys. apply map_app. Qed.

Definition nodup_ok (t : ftree) : Prop := forall k, NoDup (keys (snd (fst (label t k)))).

Lemma label_all_nodup ts : Forall nodup_ok ts -> forall j, NoDup (keys (snd (fst (label_all ts j)))).
Proof.
  induction 1 as [|x xs Hx _ IH]; intros j; cbn [label_all]; [constructor|].
  specialize (Hx j). pose proof (label_range x j) as HR. destruct (label x j) as [[f ct1] j1]. destruct HR as [R1 R2].
  specialize (IH j1). pose proof (label_all_range xs (proj2 (Forall_forall _ _) (fun y _ => label_range y)) j1) as HR2.
  destruct (label_all xs j1) as [[fs ct2] j2]. destruct HR2 as [R3 R4]. cbn [fst snd] in *.
  rewrite keys_app. apply NoDup_app_disj; [exact Hx|exact IH|].
  intros [fk a] Hin1 Hin2. unfold keys in Hin1. apply in_map_iff in Hin1 as (e & He & Hine).
  unfold ids_in in R2. rewrite Forall_forall in R2. specialize (R2 e Hine). rewrite He in R2. cbn in R2.
  exact (ids_in_notin _ _ _ fk a R4 ltac:(lia) Hin2).
Qed.

Lemma nodup_own k a ct k' : ids_in ct (k + 1) k' -> NoDup (keys ct) -> NoDup ((k, a) :: keys ct).
Proof. intros R HN. constructor; [|exact HN]. exact (ids_in_notin _ _ _ k a R ltac:(lia)). Qed.
Lemma nodup_own2 k a b ct k' : a <> b -> ids_in ct (k + 1) k' -> NoDup (keys ct) -> NoDup ((k, a) :: (k, b) :: keys ct).
Proof.
  intros Hab R HN. constructor; [|apply (nodup_own k b ct k'); assumption].
  cbn. intros [Hc|Hc]; [injection Hc as Hc; congruence|]. exact (ids_in_notin _ _ _ k a R ltac:(lia) Hc).
Qed.

Lemma label_nodup t : nodup_ok t.
Proof.
  induction t using ftree_ind'; intros k.
  - cbn. constructor; [intros []|constructor].
  - cbn. constructor; [intros []|constructor].
  - cbn [label]. specialize (IHt (k + 1)). pose proof (label_range t (k + 1)) as HR.
    destruct (label t (k + 1)) as [[f ct] k']. destruct HR as [R1 R2]. cbn [fst snd] in *.
    exact (nodup_own k _ ct k' R2 IHt).
  - cbn [label]. specialize (IHt (k + 1)). pose proof (label_range t (k + 1)) as HR.
    destruct (label t (k + 1)) as [[f ct] k']. destruct HR as [R1 R2]. cbn [fst snd] in *.
    apply (nodup_own2 k AStarts AStops ct k'); [discriminate|assumption|assumption].
  - cbn [label]. specialize (IHt (k + 1)). destruct (label t (k + 1)) as [[f ct] k']. exact IHt.
  - cbn [label]. specialize (IHt (k + 1)). pose proof (label_range t (k + 1)) as HR.
    destruct (label t (k + 1)) as [[f ct] k']. destruct HR as [R1 R2]. cbn [fst snd] in *.
    exact (nodup_own k _ ct k' R2 IHt).
  - cbn [label]. specialize (IHt (k + 1)). pose proof (label_range t (k + 1)) as HR.
    destruct (label t (k + 1)) as [[f ct] k']. destruct HR as [R1 R2]. cbn [fst snd] in *.
    exact (nodup_own k _ ct k' R2 IHt).
  - cbn [label]. specialize (IHt (k + 1)). pose proof (label_range t (k + 1)) as HR.
    destruct (label t (k + 1)) as [[f ct] k']. destruct HR as [R1 R2]. cbn [fst snd] in *.
    exact (nodup_own k _ ct k' R2 IHt).
  - cbn [label]. specialize (IHt (k + 1)). pose proof (label_range t (k + 1)) as HR.
    destruct (label t (k + 1)) as [[f ct] k']. destruct HR as [R1 R2]. cbn [fst snd] in *.
    exact (nodup_own k _ ct k' R2 IHt).
  - cbn [label]. specialize (IHt (k + 1)). destruct (label t (k + 1)) as [[f ct] k']. exact IHt.
  - rewrite label_Union. pose proof (label_all_nodup ts H (k + 1)) as HN.
    pose proof (label_all_range ts (proj2 (Forall_forall _ _) (fun y _ => label_range y)) (k + 1)) as HR.
    destruct (label_all ts (k + 1)) as [[fs ct] k']. destruct HR as [R1 R2]. cbn [fst snd] in *.
    apply (nodup_own2 k ATags AIndex ct k'); [discriminate|assumption|assumption].
  - rewrite label_Record. pose proof (label_all_nodup ts H (k + 1)) as HN.
    destruct (label_all ts (k + 1)) as [[fs ct] k']. exact HN.
  - cbn [label]. specialize (IHt k). destruct (label t k) as [[f ct] k']. exact IHt.
Qed.

(* ---------------------------------------------------------------- look-ups *)
Lemma attr_eqb_refl a : attr_eqb a a = true.
Proof. destruct a; reflexivity. Qed.
Lemma key_eqb_eq a b : key_eqb a b = true <-> a = b.
Proof.
  destruct a as [x a], b as [y b]. unfold key_eqb. cbn. split.
  - intros H. apply andb_true_iff in H as [H1 H2]. apply Z.eqb_eq in H1. subst. destruct a, b; try discriminate; reflexivity.
  - intros H. injection H as -> ->. rewrite Z.eqb_refl, attr_eqb_refl. reflexivity.
Qed.
Lemma lookup_in ct : NoDup (keys ct) -> forall k b, In (k, b) ct -> lookup k ct = Ok b.
Proof.
  induction ct as [|[k' b'] ct IH]; intros Hnd k b Hin; [destruct Hin|].
  cbn [lookup]. inversion Hnd as [|? ? Hn Hnd']; subst. destruct Hin as [Hin|Hin].
  - injection Hin as -> ->. rewrite (proj2 (key_eqb_eq k k) eq_refl). reflexivity.
  - destruct (key_eqb k k') eqn:E.
    + apply key_eqb_eq in E. subst. exfalso. apply Hn. unfold keys. apply in_map_iff. exists (k', b). split; [reflexivity|exact Hin].
    + apply IH; assumption.
Qed.
Lemma dtype_eqb_refl d : Buffers.dtype_eqb d d = true.
Proof. destruct d; reflexivity. Qed.

(* main lemma: a container that holds every emitted entry gives the tree back *)
Definition holds (C ct : container) : Prop := forall k b, In (k, b) ct -> lookup k C = Ok b.
Definition relabel_ok (t : ftree) : Prop :=
  forall k C, holds C (snd (fst (label t k))) -> relabel (fst (fst (label t k))) C = Ok t.

Lemma relabel_all_ok ts : Forall relabel_ok ts ->
  forall j C, holds C (snd (fst (label_all ts j))) -> relabel_all (fst (fst (label_all ts j))) C = Ok ts.
Proof.
  induction 1 as [|x xs Hx _ IH]; intros j C HC; cbn [label_all]; [reflexivity|].
  cbn [label_all] in HC. specialize (Hx j C). destruct (label x j) as [[f ct1] j1].
  specialize (IH j1 C). destruct (label_all xs j1) as [[fs ct2] j2]. cbn [fst snd] in *.
  cbn [relabel_all]. rewrite Hx, IH; [reflexivity| |]; intros k b Hin; apply HC; apply in_app_iff; auto.
Qed.

Lemma relabel_label_gen t : relabel_ok t.
Proof.
  induction t using ftree_ind'; intros k C HC.
  - cbn in *. unfold lookup_data. rewrite (HC _ _ (or_introl eq_refl)). cbn. rewrite dtype_eqb_refl. reflexivity.
  - reflexivity.
  - cbn [label] in *. specialize (IHt (k + 1) C). destruct (label t (k + 1)) as [[f ct] k']. cbn [fst snd] in *.
    cbn [relabel]. unfold lookup_idx. rewrite (HC _ _ (or_introl eq_refl)). cbn.
    rewrite IHt; [reflexivity|]. intros k0 b Hin. apply HC. right. exact Hin.
  - cbn [label] in *. specialize (IHt (k + 1) C). destruct (label t (k + 1)) as [[f ct] k']. cbn [fst snd] in *.
    cbn [relabel]. unfold lookup_idx. rewrite (HC _ _ (or_introl eq_refl)). cbn.
    rewrite (HC _ _ (or_intror (or_introl eq_refl))). cbn.
    rewrite IHt; [reflexivity|]. intros k0 b Hin. apply HC. right. right. exact Hin.
  - cbn [label] in *. specialize (IHt (k + 1) C). destruct (label t (k + 1)) as [[f ct] k']. cbn [fst snd] in *.
    cbn [relabel]. rewrite IHt; [reflexivity|exact HC].
  - cbn [label] in *. specialize (IHt (k + 1) C). destruct (label t (k + 1)) as [[f ct] k']. cbn [fst snd] in *.
    cbn [relabel]. unfold lookup_idx. rewrite (HC _ _ (or_introl eq_refl)). cbn.
    rewrite IHt; [reflexivity|]. intros k0 b Hin. apply HC. right. exact Hin.
  - cbn [label] in *. specialize (IHt (k + 1) C). destruct (label t (k + 1)) as [[f ct] k']. cbn [fst snd] in *.
    cbn [relabel]. unfold lookup_idx. rewrite (HC _ _ (or_introl eq_refl)). cbn.
    rewrite IHt; [reflexivity|]. intros k0 b Hin. apply HC. right. exact Hin.
  - cbn [label] in *. specialize (IHt (k + 1) C). destruct (label t (k + 1)) as [[f ct] k']. cbn [fst snd] in *.
    cbn [relabel]. unfold lookup_idx. rewrite (HC _ _ (or_introl eq_refl)). cbn.
    rewrite IHt; [reflexivity|]. intros k0 b Hin. apply HC. right. exact Hin.
  - cbn [label] in *. specialize (IHt (k + 1) C). destruct (label t (k + 1)) as [[f ct] k']. cbn [fst snd] in *.
    cbn [relabel]. unfold lookup_idx. rewrite (HC _ _ (or_introl eq_refl)). cbn.
    rewrite IHt; [reflexivity|]. intros k0 b Hin. apply HC. right. exact Hin.
  - cbn [label] in *. specialize (IHt (k + 1) C). destruct (label t (k + 1)) as [[f ct] k']. cbn [fst snd] in *.
    cbn [relabel]. rewrite IHt; [reflexivity|exact HC].
  - rewrite label_Union in *. pose proof (relabel_all_ok ts H (k + 1) C) as HA.
    destruct (label_all ts (k + 1)) as [[fs ct] k']. cbn [fst snd] in *.
    rewrite relabel_Union. unfold lookup_idx. rewrite (HC _ _ (or_introl eq_refl)). cbn.
    rewrite (HC _ _ (or_intror (or_introl eq_refl))). cbn.
    rewrite HA; [reflexivity|]. intros k0 b Hin. apply HC. right. right. exact Hin.
  - rewrite label_Record in *. pose proof (relabel_all_ok ts H (k + 1) C) as HA.
    destruct (label_all ts (k + 1)) as [[fs ct] k']. cbn [fst snd] in *.
    rewrite relabel_Record. rewrite HA; [reflexivity|exact HC].
  - cbn [label] in *. specialize (IHt k C). destruct (label t k) as [[f ct] k']. cbn [fst snd] in *.
    cbn [relabel]. rewrite IHt; [reflexivity|exact HC].
Qed.

(** relabel inverts label: the container look-ups of from_buffers find exactly the buffers to_buffers emitted
    under the pre-order keys, for every tree and every starting id. *)
Theorem relabel_label t k : let '(f, ct, _) := label t k in relabel f ct = Ok t.
Proof.
  pose proof (relabel_label_gen t k) as H. pose proof (label_nodup t k) as HN.
  destruct (label t k) as [[f ct] k']. cbn [fst snd] in *. apply H.
  intros k0 b Hin. apply lookup_in; assumption.
Qed.

Corollary from_buffers_is_of_ftree fixed c :
  from_buffers_gen fixed (to_buffers c) = of_ftree fixed (to_ftree c None) (clen c).
Proof.
  unfold to_buffers, from_buffers_gen. pose proof (relabel_label (to_ftree c None) 0) as H.
  destruct (label (to_ftree c None) 0) as [[f ct] k']. rewrite H. reflexivity.
Qed.

(* ================================================================================================================ *)
(** part 2: from_buffers never reads outside what to_buffers emitted *)

(* the list parts of of_ftree, named *)
Fixpoint of_all_rec (fixed : bool) (l : list ftree) (len : Z) : res (list content) :=
  match l with
  | [] => Ok []
  | x :: xs => do c <- of_ftree fixed x len; do cs <- of_all_rec fixed xs len; Ok (c :: cs)
  end.
Fixpoint of_all_un (fixed : bool) (tg ix : list Z) (l : list ftree) (i : Z) : res (list content) :=
  match l with
  | [] => Ok []
  | x :: xs =>
      do c <- of_ftree fixed x (match mine tg ix i with [] => 0 | l' => max_or0 l' + 1 end);
      do cs <- of_all_un fixed tg ix xs (i + 1);
      Ok (c :: cs)
  end.

Lemma of_ftree_Record fixed ts ks len :
  of_ftree fixed (TRecord ts ks) len =
  do cs <- of_all_rec fixed ts len;
  match cs with
  | [] => if len <? 0 then Err EValue else Ok (Record [] ks len)
  | c0 :: rest =>
      if min_list (clen c0) (map clen rest) <? len then Err EValue
      else if len <? 0 then Err EValue
      else Ok (Record cs ks len)
  end.
Proof.
  cbn [of_ftree].
  assert (E : forall l, (fix all (l : list ftree) : res (list content) :=
                           match l with
                           | [] => Ok []
                           | x :: xs => do c <- of_ftree fixed x len; do cs <- all xs; Ok (c :: cs)
                           end) l = of_all_rec fixed l len).
  { induction l as [|x xs IH]; [reflexivity|]. cbn [of_all_rec]. rewrite IH. reflexivity. }
  rewrite E. reflexivity.
Qed.
Lemma of_ftree_Union fixed w tg ix ts len :
  of_ftree fixed (TUnion w tg ix ts) len =
  if zlen tg <? len then Err EValue else
  if zlen ix <? len then Err EValue else
  let k := if fixed then zlen tg else len in
  do cs <- of_all_un fixed (take k tg) (take k ix) ts 0;
  if zlen ix <? zlen tg then Err EValue else Ok (Union w tg ix cs).
Proof.
  cbn [of_ftree].
  assert (E : forall tg' ix' l i, (fix all (l : list ftree) (i : Z) : res (list content) :=
                           match l with
                           | [] => Ok []
                           | x :: xs =>
                               do c <- of_ftree fixed x (match mine tg' ix' i with [] => 0 | l' => max_or0 l' + 1 end);
                               do cs <- all xs (i + 1); Ok (c :: cs)
                           end) l i = of_all_un fixed tg' ix' l i).
  { induction l as [|x xs IH]; intros i; [reflexivity|]. cbn [of_all_un]. rewrite IH. reflexivity. }
  rewrite E. reflexivity.
Qed.

Fixpoint offs_ok (t : ftree) : bool :=
  match t with
  | TNumpy _ _ _ | TEmpty => true
  | TListOffset _ o t' => negb (zlen o =? 0) && offs_ok t'
  | TList _ _ _ t' | TRegular t' _ | TIndexed _ _ t' | TIndexedOption _ _ t' | TByteMasked _ _ t'
  | TBitMasked _ _ _ t' | TUnmasked t' | TPar _ _ t' => offs_ok t'
  | TUnion _ _ _ ts | TRecord ts _ =>
      (fix all (l : list ftree) : bool := match l with [] => true | x :: xs => offs_ok x && all xs end) ts
  end.
Lemma offs_ok_all ts :
  (fix all (l : list ftree) : bool := match l with [] => true | x :: xs => offs_ok x && all xs end) ts = forallb offs_ok ts.
Proof. induction ts as [|x xs IH]; [reflexivity|]. cbn [forallb]. rewrite IH. reflexivity. Qed.

Lemma bind_not_oob {A B} (r : res A) (f : A -> res B) :
  r <> Err EOob -> (forall a, r = Ok a -> f a <> Err EOob) -> bind r f <> Err EOob.
Proof. destruct r as [a|e]; cbn; intros H1 H2; [apply H2; reflexivity|]. intros E. apply H1. injection E as ->. reflexivity. Qed.

Ltac noob := repeat match goal with
                    | |- (if ?b then _ else _) <> _ => destruct b
                    | |- Err EValue <> Err EOob => discriminate
                    | |- Ok _ <> Err _ => discriminate
                    end.

Definition noob_at (t : ftree) : Prop := offs_ok t = true -> forall fixed len, of_ftree fixed t len <> Err EOob.

Lemma of_all_rec_noob fixed ts len : Forall noob_at ts -> forallb offs_ok ts = true -> of_all_rec fixed ts len <> Err EOob.
Proof.
  induction 1 as [|x xs Hx _ IH]; cbn [forallb of_all_rec]; intros E; [discriminate|].
  apply andb_true_iff in E as [E1 E2]. apply bind_not_oob; [apply Hx; exact E1|]. intros c _.
  apply bind_not_oob; [apply IH; exact E2|]. intros; discriminate.
Qed.
Lemma of_all_un_noob fixed tg ix ts : Forall noob_at ts -> forallb offs_ok ts = true -> forall i, of_all_un fixed tg ix ts i <> Err EOob.
Proof.
  induction 1 as [|x xs Hx _ IH]; cbn [forallb of_all_un]; intros E i; [discriminate|].
  apply andb_true_iff in E as [E1 E2]. apply bind_not_oob; [apply Hx; exact E1|]. intros c _.
  apply bind_not_oob; [apply IH; exact E2|]. intros; discriminate.
Qed.

Lemma of_ftree_noob t : noob_at t.
Proof.
  induction t using ftree_ind'; intros Hok fixed len; cbn [offs_ok] in Hok.
  - cbn [of_ftree]. noob.
  - cbn [of_ftree]. noob.
  - apply andb_true_iff in Hok as [H1 H2]. cbn [of_ftree]. noob.
    apply bind_not_oob.
    + unfold last_z. intros E. apply get_err in E as [_ E]. apply E. pose proof (zlen_nonneg o). lia.
    + intros last _. apply bind_not_oob; [apply IHt; exact H2|]. intros; discriminate.
  - cbn [of_ftree]. noob. apply bind_not_oob; [apply IHt; exact Hok|]. intros; noob.
  - cbn [of_ftree]. apply bind_not_oob; [apply IHt; exact Hok|]. intros; noob.
  - cbn [of_ftree]. noob. apply bind_not_oob; [apply IHt; exact Hok|]. intros; discriminate.
  - cbn [of_ftree]. noob. apply bind_not_oob; [apply IHt; exact Hok|]. intros; discriminate.
  - cbn [of_ftree]. noob. apply bind_not_oob; [apply IHt; exact Hok|]. intros; noob.
  - cbn [of_ftree]. apply bind_not_oob; [apply IHt; exact Hok|]. intros; noob.
  - cbn [of_ftree]. apply bind_not_oob; [apply IHt; exact Hok|]. intros; discriminate.
  - rewrite offs_ok_all in Hok. rewrite of_ftree_Union. noob. cbv zeta.
    apply bind_not_oob; [apply of_all_un_noob; assumption|]. intros; noob.
  - rewrite offs_ok_all in Hok. rewrite of_ftree_Record.
    apply bind_not_oob; [apply of_all_rec_noob; assumption|]. intros cs _. destruct cs; noob.
  - cbn [of_ftree]. apply bind_not_oob; [apply IHt; exact Hok|]. intros; discriminate.
Qed.

(* the buffers of a valid layout: every offsets buffer has at least one entry, also after a range slice *)
Definition trim_nonneg (t : option Z) : Prop := match t with None => True | Some k => 0 <= k end.

Fixpoint to_ftree_all (cs : list content) (t : option Z) : list ftree :=
  match cs with [] => [] | x :: xs => to_ftree x t :: to_ftree_all xs t end.
Lemma to_ftree_Union w tg ix cs t :
  to_ftree (Union w tg ix cs) t = TUnion w (trim t tg) (trim t ix) (to_ftree_all cs None).
Proof.
  cbn [to_ftree]. f_equal. induction cs as [|x xs IH]; [reflexivity|]. cbn [to_ftree_all]. rewrite IH. reflexivity.
Qed.
Definition rec_trim (ks : option (list name)) (n : Z) (t : option Z) : option Z :=
  match ks with
  | None => match t with Some k => if k =? n then None else Some k | None => None end
  | Some _ => Some (match t with None => n | Some k => k end)
  end.
Lemma to_ftree_Record cs ks n t :
  to_ftree (Record cs ks n) t = TRecord (to_ftree_all cs (rec_trim ks n t)) ks.
Proof.
  cbn [to_ftree]. f_equal. fold (rec_trim ks n t). generalize (rec_trim ks n t). intros t'.
  induction cs as [|x xs IH]; [reflexivity|]. cbn [to_ftree_all]. rewrite IH. reflexivity.
Qed.

Lemma take_nonempty {A} (l : list A) k : l <> [] -> 0 <= k -> zlen (take (k + 1) l) =? 0 = false.
Proof.
  intros Hl Hk. destruct l as [|x l]; [congruence|]. unfold take. replace (Z.to_nat (k + 1)) with (S (Z.to_nat k)) by lia.
  cbn [firstn]. rewrite zlen_cons. pose proof (zlen_nonneg (firstn (Z.to_nat k) l)). lia.
Qed.

(* inversion of Valid, one lemma per node class *)
Lemma Valid_Numpy_inv p dt shape data : Valid p (Numpy dt shape data) ->
  ParamOk p (Numpy dt shape data) /\ shape <> [] /\ Forall (fun d => 0 <= d) shape /\ prodZ shape <= zlen data.
Proof. inversion 1; subst; auto. Qed.
Lemma Valid_ListOffset_inv p w o c : Valid p (ListOffset w o c) ->
  ParamOk p (ListOffset w o c) /\ 1 <= zlen o /\ Forall (pair_ok (clen c)) (pairs o) /\ (is_strk p = false -> Valid None c).
Proof. inversion 1; subst; auto. Qed.
Lemma Valid_ListA_inv p w s e c : Valid p (ListA w s e c) ->
  ParamOk p (ListA w s e c) /\ zlen s <= zlen e /\ Forall (pair_ok (clen c)) (zip s e) /\ (is_strk p = false -> Valid None c).
Proof. inversion 1; subst; auto. Qed.
Lemma Valid_Regular_inv p c size zl : Valid p (Regular c size zl) ->
  ParamOk p (Regular c size zl) /\ 0 <= size /\ 0 <= zl /\ (is_strk p = false -> Valid None c).
Proof. inversion 1; subst; auto. Qed.
Lemma Valid_Indexed_inv p w ix c : Valid p (Indexed w ix c) ->
  Forall (fun i => 0 <= i < clen c) ix /\ optionlike c = false /\ Valid None c.
Proof. inversion 1; subst; auto. Qed.
Lemma Valid_IndexedOption_inv p w ix c : Valid p (IndexedOption w ix c) ->
  Forall (fun i => i < clen c) ix /\ optionlike c = false /\ Valid None c.
Proof. inversion 1; subst; auto. Qed.
Lemma Valid_ByteMasked_inv p m vw c : Valid p (ByteMasked m vw c) ->
  zlen m <= clen c /\ optionlike c = false /\ Valid None c.
Proof. inversion 1; subst; auto. Qed.
Lemma Valid_BitMasked_inv p m vw lsb n c : Valid p (BitMasked m vw lsb n c) ->
  0 <= n /\ n <= zlen m * 8 /\ n <= clen c /\ optionlike c = false /\ Valid None c.
Proof. inversion 1; subst; auto 6. Qed.
Lemma Valid_Unmasked_inv p c : Valid p (Unmasked c) -> optionlike c = false /\ Valid None c.
Proof. inversion 1; subst; auto. Qed.
Lemma Valid_Union_inv p w tg ix cs : Valid p (Union w tg ix cs) ->
  zlen tg <= zlen ix /\ Forall (Valid None) cs.
Proof. inversion 1; subst; auto. Qed.
Lemma Valid_Record_inv p cs ks n : Valid p (Record cs ks n) ->
  0 <= n /\ Forall (fun x => n <= clen x) cs /\ Forall (Valid None) cs.
Proof. inversion 1; subst; auto. Qed.
Lemma Valid_Par_inv p a r c : Valid p (Par a r c) -> Valid a c.
Proof. inversion 1; subst; auto. Qed.

Definition offs_at (c : content) : Prop :=
  forall p t, Valid p c -> trim_nonneg t -> offs_ok (to_ftree c t) = true.

Lemma offs_str p c c' : ParamOk p c -> is_strk p = true -> list_content c = Some c' -> forall t, offs_ok (to_ftree c' t) = true.
Proof.
  intros HP Hs Hl t. destruct (ParamOk_str p c HP Hs) as (c'' & k & rn & n & d & H1 & H2 & _).
  rewrite Hl in H1. injection H1 as <-. subst c'. reflexivity.
Qed.

Lemma to_ftree_offs c : offs_at c.
Proof.
  induction c using content_ind'; intros p tr HV Ht.
  - reflexivity.
  - reflexivity.
  - apply Valid_ListOffset_inv in HV as (HP & Hlen & Hpairs & Hc). cbn [to_ftree offs_ok].
    apply andb_true_iff. split.
    + destruct tr as [k|]; cbn [trim1].
      * rewrite take_nonempty; [reflexivity| |exact Ht]. intros ->. cbn in Hlen. lia.
      * destruct (zlen o =? 0) eqn:E; [lia|reflexivity].
    + destruct (is_strk p) eqn:Es; [exact (offs_str p _ c HP Es eq_refl None)|exact (IHc None None (Hc eq_refl) I)].
  - apply Valid_ListA_inv in HV as (HP & Hlen & Hpairs & Hc). cbn [to_ftree offs_ok].
    destruct (is_strk p) eqn:Es; [exact (offs_str p _ c HP Es eq_refl None)|exact (IHc None None (Hc eq_refl) I)].
  - apply Valid_Regular_inv in HV as (HP & Hs & Hz & Hc). cbn [to_ftree offs_ok].
    destruct (is_strk p) eqn:Es; [exact (offs_str p _ c HP Es eq_refl _)|].
    apply (IHc None _ (Hc eq_refl)). destruct tr as [k|]; cbn; [|exact I]. cbn in Ht. nia.
  - apply Valid_Indexed_inv in HV as (_ & _ & Hc). cbn [to_ftree offs_ok]. exact (IHc None None Hc I).
  - apply Valid_IndexedOption_inv in HV as (_ & _ & Hc). cbn [to_ftree offs_ok]. exact (IHc None None Hc I).
  - apply Valid_ByteMasked_inv in HV as (_ & _ & Hc). cbn [to_ftree offs_ok]. exact (IHc None tr Hc Ht).
  - apply Valid_BitMasked_inv in HV as (_ & _ & _ & _ & Hc). destruct tr as [k|]; cbn [to_ftree offs_ok].
    + exact (IHc None (Some k) Hc Ht).
    + exact (IHc None None Hc I).
  - apply Valid_Unmasked_inv in HV as (_ & Hc). cbn [to_ftree offs_ok]. exact (IHc None tr Hc Ht).
  - apply Valid_Union_inv in HV as (_ & Hcs). rewrite to_ftree_Union. cbn [offs_ok]. rewrite offs_ok_all.
    clear - H Hcs. induction H as [|x xs Hx _ IH]; [reflexivity|]. inversion Hcs; subst. cbn [to_ftree_all forallb].
    rewrite (Hx None None); [|assumption|exact I]. cbn. apply IH. assumption.
  - apply Valid_Record_inv in HV as (Hn & _ & Hcs). rewrite to_ftree_Record. cbn [offs_ok]. rewrite offs_ok_all.
    assert (Ht' : trim_nonneg (rec_trim ks n tr)).
    { unfold rec_trim. destruct ks; [destruct tr; cbn in *; lia|]. destruct tr as [k|]; [|exact I]. destruct (k =? n); [exact I|exact Ht]. }
    clear - H Hcs Ht'. generalize dependent (rec_trim ks n tr). intros t' Ht'.
    induction H as [|x xs Hx _ IH]; [reflexivity|]. inversion Hcs; subst. cbn [to_ftree_all forallb].
    rewrite (Hx None t'); [|assumption|exact Ht']. cbn. apply IH. assumption.
  - apply Valid_Par_inv in HV. cbn [to_ftree offs_ok]. exact (IHc arr tr HV Ht).
Qed.

(** Every buffer read of from_buffers (container look-ups by key, offsets[-1]) lies within what to_buffers emitted:
    the round trip of a valid layout never fails with an out-of-range read (it may still be refused, see below). *)
Theorem lengths_recomputed_sufficient_thm c : Valid None c -> forall fixed, from_buffers_gen fixed (to_buffers c) <> Err EOob.
Proof.
  intros HV fixed. rewrite from_buffers_is_of_ftree. apply of_ftree_noob. exact (to_ftree_offs c None None HV I).
Qed.
