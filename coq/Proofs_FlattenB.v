(** flatten, part B (infrastructure): induction on types, axis resolution of [axis] against [axis - 1]
    (the model descends with the axis of the flattened level, the specification with the axis of the
    level above it), the refinement relation for nodes above the flattened level and its step lemmas. *)
From Coq Require Import ZArith List Bool Lia ZifyBool.
From AwkV Require Import Base Layout LayoutInd Valid Types Carry AtAxis Ops_Struct Ops_Flatten Typing Proofs_Typing
                         Proofs_Lists Proofs_ToList Proofs_Carry Proofs_CarryValid Proofs_AtAxis Proofs_AtAxisOps
                         Proofs_Fillna Proofs_FlattenA.
Import ListNotations.
Open Scope Z_scope.

(* ---------------------------------------------------------------- induction on types *)
Section TyInd.
  Variable P : ty -> Prop.
  Hypothesis HNum : forall dt, P (TNum dt).
  Hypothesis HUnk : P TUnk.
  Hypothesis HList : forall sz str t, P t -> P (TList sz str t).
  Hypothesis HOpt : forall t, P t -> P (TOpt t).
  Hypothesis HRec : forall ks ts, Forall P ts -> P (TRec ks ts).
  Hypothesis HUnion : forall ts, Forall P ts -> P (TUnion ts).
  Fixpoint ty_ind' (t : ty) : P t :=
    match t with
    | TNum dt => HNum dt
    | TUnk => HUnk
    | TList sz str t' => HList sz str t' (ty_ind' t')
    | TOpt t' => HOpt t' (ty_ind' t')
    | TRec ks ts =>
        HRec ks ts ((fix go (l : list ty) : Forall P l :=
                       match l with [] => Forall_nil P | x :: xs => Forall_cons x (ty_ind' x) (go xs) end) ts)
    | TUnion ts =>
        HUnion ts ((fix go (l : list ty) : Forall P l :=
                      match l with [] => Forall_nil P | x :: xs => Forall_cons x (ty_ind' x) (go xs) end) ts)
    end.
End TyInd.

(* ---------------------------------------------------------------- depth ranges *)
Definition mm (ts : list ty) : Z * Z :=
  match ts with
  | [] => (0, 0)
  | t0 :: _ =>
      let ms := map minmax ts in
      (zmin_list (fst (minmax t0)) (map fst ms), zmax_list (snd (minmax t0)) (map snd ms))
  end.
Lemma minmax_TRec ks ts : minmax (TRec ks ts) = mm ts.
Proof. destruct ts; reflexivity. Qed.
Lemma minmax_TUnion ts : minmax (TUnion ts) = mm ts.
Proof. destruct ts; reflexivity. Qed.
Lemma minmax_TList sz t : minmax (TList sz None t) = (fst (minmax t) + 1, snd (minmax t) + 1).
Proof. cbn [minmax]. destruct (minmax t). reflexivity. Qed.

Lemma zmin_list_le d0 l z : In z l -> zmin_list d0 l <= z.
Proof.
  induction l as [|x l IH]; intros H; [contradiction|]. cbn [zmin_list fold_right]. destruct H as [->|H].
  - lia.
  - specialize (IH H). unfold zmin_list in IH. lia.
Qed.
Lemma zmin_list_attained d0 l : zmin_list d0 l = d0 \/ In (zmin_list d0 l) l.
Proof.
  induction l as [|x l IH]; [left; reflexivity|]. cbn [zmin_list fold_right]. fold (zmin_list d0 l).
  destruct (Z.min_spec x (zmin_list d0 l)) as [[_ ->]|[_ ->]].
  - right. left. reflexivity.
  - destruct IH as [IH|IH]; [left; exact IH|right; right; exact IH].
Qed.
Lemma mm_le ts x : In x ts -> fst (mm ts) <= fst (minmax x).
Proof.
  intros H. destruct ts as [|t0 ts']; [contradiction|]. unfold mm. cbn [fst]. apply zmin_list_le.
  rewrite map_map. apply in_map_iff. exists x. split; [reflexivity|exact H].
Qed.
Lemma mm_attained ts : ts <> [] -> exists x, In x ts /\ fst (minmax x) = fst (mm ts).
Proof.
  intros H. destruct ts as [|t0 ts']; [congruence|]. unfold mm. cbn [fst].
  destruct (zmin_list_attained (fst (minmax t0)) (map fst (map minmax (t0 :: ts')))) as [E|E].
  - exists t0. split; [left; reflexivity|]. symmetry. exact E.
  - rewrite map_map in E. apply in_map_iff in E as (x & Hx & Hin). exists x. split; [exact Hin|].
    rewrite map_map. exact Hx.
Qed.

Lemma resolve_mm t1 t2 d a : minmax t1 = minmax t2 -> resolve_axis t1 d a = resolve_axis t2 d a.
Proof. intros H. unfold resolve_axis. rewrite H. reflexivity. Qed.

(* ---------------------------------------------------------------- the type-level check *)
Section Check.
  Variables (unk_ok : bool) (fchk : ty -> bool) (str_ok : bool).
  Notation CA := (check_ax unk_ok fchk str_ok).
  Notation CALL := (check_all unk_ok fchk str_ok).

  Lemma check_all_err d ax ts e :
    Forall (fun x => forall d a e, CA x d a = Err e -> e = EValue) ts -> CALL d ax ts = Err e -> e = EValue.
  Proof.
    induction 1 as [|x xs Hx _ IH]; [discriminate|]. rewrite check_all_cons.
    destruct (CA x d ax) as [[]|e'] eqn:E; cbn [bind]; [exact IH|]. intros H. inversion H; subst. eapply Hx, E.
  Qed.
  Lemma check_ax_err t : forall d a e, CA t d a = Err e -> e = EValue.
  Proof.
    induction t as [dt| |sz str t IH|t IH|ks ts IH|ts IH] using ty_ind'; intros d a e; rewrite check_ax_eq;
      (destruct (resolve_axis _ d a) as [ax|e'] eqn:Er; [|intros H; inversion H; subst; eapply resolve_err, Er]);
      cbn [bind check_body].
    - congruence.
    - destruct unk_ok; congruence.
    - destruct (ax =? d + 1); [destruct (_ && _); congruence|apply IH].
    - apply IH.
    - apply check_all_err, IH.
    - apply check_all_err, IH.
  Qed.
  Lemma check_all_has_err d ax ts x :
    In x ts -> CA x d ax = Err EValue -> CALL d ax ts = Err EValue.
  Proof.
    induction ts as [|y ys IH]; intros Hin Hx; [contradiction|]. rewrite check_all_cons.
    destruct (CA y d ax) as [[]|e] eqn:E; cbn [bind].
    - destruct Hin as [->|Hin]; [congruence|]. apply IH; assumption.
    - apply check_ax_err in E. subst. reflexivity.
  Qed.

  (* an axis that is (relative to the shallowest branch) above the array is refused *)
  Lemma chk_below t : forall d a, 0 <= d -> a < 0 -> fst (minmax t) + a < 0 -> CA t d a = Err EValue.
  Proof.
    induction t as [dt| |sz str t IH|t IH|ks ts IH|ts IH] using ty_ind'; intros d a Hd Ha Hm; rewrite check_ax_eq;
      unfold resolve_axis; (destruct (0 <=? a) eqn:E0; [lia|]).
    - cbn [minmax fst] in *. rewrite Z.eqb_refl. destruct (1 + a <? 0) eqn:E; [reflexivity|lia].
    - cbn [minmax fst] in *. rewrite Z.eqb_refl. destruct (1 + a <? 0) eqn:E; [reflexivity|lia].
    - destruct str as [b|].
      + cbn [minmax fst] in *. rewrite Z.eqb_refl. destruct (1 + a <? 0) eqn:E; [reflexivity|lia].
      + rewrite minmax_TList in *. cbn [fst] in Hm.
        destruct (fst (minmax t) + 1 =? snd (minmax t) + 1) eqn:Em.
        * destruct (snd (minmax t) + 1 + a <? 0) eqn:E; [reflexivity|lia].
        * destruct (fst (minmax t) + 1 + a =? 0) eqn:E; [reflexivity|]. cbn [bind check_body].
          destruct (a =? d + 1) eqn:E1; [lia|]. apply IH; lia.
    - change (minmax (TOpt t)) with (minmax t) in *. destruct (minmax t) as [mn mx] eqn:Emm. cbn [fst] in Hm.
      destruct (mn =? mx) eqn:Em.
      + destruct (mx + a <? 0) eqn:E; [reflexivity|lia].
      + destruct (mn + a =? 0) eqn:E; [reflexivity|]. cbn [bind check_body]. apply IH; [lia|lia|]. cbn [fst]. exact Hm.
    - rewrite minmax_TRec in *. destruct (mm ts) as [mn mx] eqn:Emm. cbn [fst] in Hm.
      destruct (mn =? mx) eqn:Em.
      + destruct (mx + a <? 0) eqn:E; [reflexivity|lia].
      + destruct (mn + a =? 0) eqn:E; [reflexivity|]. cbn [bind check_body].
        assert (Hne : ts <> []) by (intros ->; cbn in Emm; inversion Emm; subst; lia).
        destruct (mm_attained ts Hne) as (x & Hin & Hx). rewrite Emm in Hx. cbn [fst] in Hx.
        rewrite Forall_forall in IH. eapply check_all_has_err; [exact Hin|]. apply IH; [exact Hin|lia|lia|lia].
    - rewrite minmax_TUnion in *. destruct (mm ts) as [mn mx] eqn:Emm. cbn [fst] in Hm.
      destruct (mn =? mx) eqn:Em.
      + destruct (mx + a <? 0) eqn:E; [reflexivity|lia].
      + destruct (mn + a =? 0) eqn:E; [reflexivity|]. cbn [bind check_body].
        assert (Hne : ts <> []) by (intros ->; cbn in Emm; inversion Emm; subst; lia).
        destruct (mm_attained ts Hne) as (x & Hin & Hx). rewrite Emm in Hx. cbn [fst] in Hx.
        rewrite Forall_forall in IH. eapply check_all_has_err; [exact Hin|]. apply IH; [exact Hin|lia|lia|lia].
  Qed.

  Lemma CA_opt t d a : 0 <= d -> CA (TOpt t) d a = CA t d a.
  Proof.
    intros Hd. rewrite check_ax_eq. rewrite (resolve_mm (TOpt t) t) by reflexivity.
    destruct (resolve_axis t d a) as [ax|e] eqn:Er; cbn [bind check_body].
    - apply check_ax_resolved; assumption.
    - rewrite check_ax_eq, Er. reflexivity.
  Qed.
  Lemma CA_resolves t d a : CA t d a = Ok tt -> exists ax, resolve_axis t d a = Ok ax.
  Proof. rewrite check_ax_eq. destruct (resolve_axis t d a); [eauto|discriminate]. Qed.
End Check.

Lemma SV_opt f t d a x v :
  0 <= d -> resolve_axis t d a = Ok x -> spec_v f (TOpt t) d a v = optF (spec_v f t d a) v.
Proof.
  intros Hd Hr. rewrite spec_v_eq. rewrite (resolve_mm (TOpt t) t) by reflexivity. rewrite Hr. cbn [bind spec_body optF].
  destruct v; try (apply spec_v_resolved; assumption). reflexivity.
Qed.

(* ---------------------------------------------------------------- resolving [axis] and [axis - 1] *)
Lemma resolve_cases t d a : 0 <= d -> (0 <= a -> d + 1 <= a) ->
  ((resolve_axis t d a = Err EValue \/ resolve_axis t d a = Ok d) /\ a < 0 /\ fst (minmax t) + (a - 1) < 0)
  \/ resolve_axis t d a = Ok (d + 1)
  \/ (exists ax, resolve_axis t d a = Ok ax /\ ax <> d /\ ax <> d + 1 /\ (0 <= ax -> d + 2 <= ax) /\ (ax < 0 -> ax = a) /\
                 resolve_axis t d (a - 1) = Ok (ax - 1))
  \/ (a < 0 /\ fst (minmax t) <> snd (minmax t) /\ fst (minmax t) + a = 1 /\
      resolve_axis t d a = Ok a /\ resolve_axis t d (a - 1) = Err EValue).
Proof.
  intros Hd Ha. unfold resolve_axis. destruct (0 <=? a) eqn:E0.
  - destruct (Z.eq_dec a (d + 1)) as [->|Hn]; [right; left; reflexivity|].
    right. right. left. exists a. destruct (0 <=? a - 1) eqn:E1; [|lia]. repeat split; try lia; try reflexivity.
  - destruct (0 <=? a - 1) eqn:E1; [lia|]. destruct (minmax t) as [mn mx]. cbn [fst snd].
    destruct (mn =? mx) eqn:Em.
    + destruct (mx + a <? 0) eqn:E2.
      * left. split; [left; reflexivity|]. lia.
      * destruct (Z.eq_dec (mx + a) 0) as [Hz|Hz].
        { left. split; [right; f_equal; lia|]. lia. }
        destruct (Z.eq_dec (mx + a) 1) as [Hz1|Hz1].
        { right. left. f_equal. lia. }
        right. right. left. exists (d + mx + a). destruct (mx + (a - 1) <? 0) eqn:E3; [lia|].
        repeat split; try lia; try (f_equal; lia).
    + destruct (mn + a =? 0) eqn:E2.
      * left. split; [left; reflexivity|]. lia.
      * destruct (mn + (a - 1) =? 0) eqn:E3.
        { right. right. right. repeat split; try lia; try reflexivity. }
        right. right. left. exists a. repeat split; try lia; try reflexivity.
Qed.

Lemma resolve_list_child sz t d a :
  0 <= d -> a < 0 -> resolve_axis (TList sz None t) d a = Ok a -> resolve_axis t (d + 1) a <> Ok (d + 2).
Proof.
  intros Hd Ha. unfold resolve_axis. rewrite minmax_TList. destruct (0 <=? a) eqn:E0; [lia|].
  destruct (minmax t) as [mn mx]. cbn [fst snd].
  destruct (mn + 1 =? mx + 1) eqn:Em.
  - destruct (mx + 1 + a <? 0) eqn:E1; [discriminate|]. intros H. inversion H. lia.
  - destruct (mn =? mx) eqn:Em'; [lia|]. intros _. destruct (mn + a =? 0) eqn:E1; [discriminate|]. intros H. inversion H. lia.
Qed.
Lemma resolve_list_child_L sz t d a :
  a < 0 -> fst (minmax (TList sz None t)) <> snd (minmax (TList sz None t)) -> fst (minmax (TList sz None t)) + a = 1 ->
  resolve_axis t (d + 1) a = Err EValue.
Proof.
  rewrite minmax_TList. cbn [fst snd]. intros Ha Hm H1. unfold resolve_axis. destruct (0 <=? a) eqn:E0; [lia|].
  destruct (minmax t) as [mn mx]. cbn [fst snd] in *. destruct (mn =? mx) eqn:Em; [lia|].
  destruct (mn + a =? 0) eqn:E; [reflexivity|lia].
Qed.

(* ---------------------------------------------------------------- nodes above the flattened level *)
Definition flat_chk := check_ax true is_plain_list true.
Definition flat_sv := spec_v flat_f.

Definition refB (m : res (list Z * content)) (chk : res unit) (sv : res (list value)) : Prop :=
  match m with
  | Ok (inner, fc) => inner = [] /\ chk = Ok tt /\ exists ws, sv = Ok ws /\ to_list fc = Ok ws
  | Err EValue => chk = Err EValue
  | Err _ => False
  end.

Lemma refB_bind (step : list Z * content -> res (list Z * content)) (K : content -> content) m chk sv0 sv :
  refB m chk sv0 -> (forall fc, step ([], fc) = Ok ([], K fc)) ->
  (forall fc ws0, chk = Ok tt -> to_list fc = Ok ws0 -> sv0 = Ok ws0 -> exists ws, sv = Ok ws /\ to_list (K fc) = Ok ws) ->
  refB (do r <- m; step r) chk sv.
Proof.
  intros H Hstep HK. destruct m as [[inner fc]|[]]; cbn [refB bind] in *; try contradiction; try exact H.
  destruct H as (-> & Hc & ws0 & Hs & Hl). rewrite Hstep. cbn [refB]. split; [reflexivity|]. split; [exact Hc|].
  eapply HK; eassumption.
Qed.

Lemma refB_err chk sv : chk = Err EValue -> refB (Err EValue) chk sv.
Proof. intros H. exact H. Qed.

(* entering a node: the axis is resolved; the cases where the model and the specification stop for
   different reasons are dealt with here *)
Lemma refB_enter p c d a vs :
  0 <= d -> (0 <= a -> d + 1 <= a) -> resolve_axis (type_of_p p c) d a <> Ok (d + 1) ->
  (forall ax, resolve_axis (type_of_p p c) d a = Ok ax -> ax <> d -> ax <> d + 1 -> (0 <= ax -> d + 2 <= ax) ->
              (ax < 0 -> ax = a) -> resolve_axis (type_of_p p c) d (a - 1) = Ok (ax - 1) ->
              refB (flat_body p c d ax) (check_body true is_plain_list true (type_of_p p c) d (ax - 1))
                   (mapM (spec_body flat_f (type_of_p p c) d (ax - 1)) vs)) ->
  (a < 0 -> fst (minmax (type_of_p p c)) <> snd (minmax (type_of_p p c)) -> fst (minmax (type_of_p p c)) + a = 1 ->
   flat_body p c d a = Err EValue) ->
  refB (flat_p p c d a) (flat_chk (type_of_p p c) d (a - 1)) (mapM (flat_sv (type_of_p p c) d (a - 1)) vs).
Proof.
  intros Hd Ha HnA H1 H2. set (t := type_of_p p c) in *. rewrite flat_p_eq. fold t.
  destruct (resolve_cases t d a Hd Ha) as [(Hr & Hneg & Hm)|[Hr|[(ax & Hr & Hnd & Hnd1 & Hge & Hax & Hr')|(Hneg & Hmix & Hm & Hr & Hr')]]].
  - assert (Hc : flat_chk t d (a - 1) = Err EValue) by (apply chk_below; lia).
    destruct Hr as [-> | ->]; cbn [bind]; [exact Hc|]. rewrite Z.eqb_refl. exact Hc.
  - contradiction.
  - rewrite Hr. cbn [bind]. destruct (ax =? d) eqn:E; [lia|].
    unfold flat_chk. rewrite check_ax_eq, Hr'. cbn [bind].
    rewrite (mapM_ext_in (flat_sv t d (a - 1)) (spec_body flat_f t d (ax - 1))).
    + apply H1; assumption.
    + intros v _. unfold flat_sv. rewrite spec_v_eq, Hr'. reflexivity.
  - rewrite Hr. cbn [bind]. destruct (a =? d) eqn:E; [lia|]. rewrite (H2 Hneg Hmix Hm).
    unfold flat_chk. rewrite check_ax_eq, Hr'. reflexivity.
Qed.

(* a wrapper whose type has the same depth range as its content's *)
Lemma flat_p_wrap p c c' d a (step : list Z * content -> res (list Z * content)) :
  0 <= d -> minmax (type_of_p p c) = minmax (type_of_p None c') ->
  (forall ax, flat_body p c d ax = do r <- flat_p None c' d ax; step r) ->
  flat_p p c d a = do r <- flat_p None c' d a; step r.
Proof.
  intros Hd Hmm Hb. rewrite flat_p_eq. rewrite (resolve_mm _ _ d a Hmm).
  destruct (resolve_axis (type_of_p None c') d a) as [ax|e] eqn:Er; cbn [bind].
  - destruct (ax =? d) eqn:E.
    + rewrite (flat_p_eq None c'), Er. cbn [bind]. rewrite E. reflexivity.
    + rewrite Hb. rewrite (flat_p_resolved None c' d a ax Hd Er). reflexivity.
  - rewrite (flat_p_eq None c'), Er. reflexivity.
Qed.
Lemma flat_p_par_none rn c d a : 0 <= d -> flat_p None (Par None rn c) d a = flat_p None c d a.
Proof.
  intros Hd. rewrite flat_p_eq. cbn [type_of_p].
  destruct (resolve_axis (type_of_p None c) d a) as [ax|e] eqn:Er; cbn [bind].
  - destruct (ax =? d) eqn:E.
    + rewrite (flat_p_eq None c), Er. cbn [bind]. rewrite E. reflexivity.
    + cbn [flat_body]. apply flat_p_resolved; assumption.
  - rewrite (flat_p_eq None c), Er. reflexivity.
Qed.

(* ---------------------------------------------------------------- no EmptyArray *)
Fixpoint noempty (c : content) : bool :=
  match c with
  | Numpy _ _ _ => true
  | Empty => false
  | ListOffset _ _ c' | ListA _ _ _ c' | Regular c' _ _ | Indexed _ _ c' | IndexedOption _ _ c'
  | ByteMasked _ _ c' | BitMasked _ _ _ _ c' | Unmasked c' | Par _ _ c' => noempty c'
  | Union _ _ _ cs | Record cs _ _ =>
      (fix all (l : list content) : bool := match l with [] => true | x :: xs => noempty x && all xs end) cs
  end.
Lemma noempty_all cs :
  (fix all (l : list content) : bool := match l with [] => true | x :: xs => noempty x && all xs end) cs = true <->
  Forall (fun x => noempty x = true) cs.
Proof.
  induction cs as [|x xs IH]; [split; constructor|]. rewrite andb_true_iff, IH. split.
  - intros [? ?]. constructor; assumption.
  - intros H. inversion H; auto.
Qed.
Lemma np_noempty dt : forall dims n data, noempty (np_regular dt n dims data) = true.
Proof. induction dims as [|d ds IH]; intros n data; cbn [np_regular noempty]; auto. Qed.
Lemma noempty_expand c : noempty c = true -> noempty (expand c) = true.
Proof.
  induction c as [dt shape data| |w o c IHc|w s e c IHc|c size zl IHc|w ix c IHc|w ix c IHc|m vw c IHc
                 |m vw lsb n c IHc|c IHc|w t ix cs IHcs|cs ks n IHcs|arr rn c IHc] using content_ind';
    cbn [noempty expand]; auto.
  - intros _. destruct shape as [|n dims]; [reflexivity|]. apply np_noempty.
  - intros H. apply noempty_all in H. apply noempty_all. apply Forall_map. rewrite Forall_forall in *. auto.
  - intros H. apply noempty_all in H. apply noempty_all. apply Forall_map. rewrite Forall_forall in *. auto.
Qed.
Lemma frag1_noempty_okA c : frag1 c = true -> noempty c = true -> okA c = true.
Proof.
  induction c using content_ind'; cbn [frag1 noempty okA]; auto; try discriminate.
Qed.
