(** Kernels2.v -- MODEL ONLY (no proofs): Gallina models of further CPU kernels of /repo/src/cpu-kernels, in the
    style of Kernels.v (same monad, same checked accessors, same conventions: one model per kernel, following
    the C loop of the kernel of the same name; arguments in the order of kernel-specification.yml).

    Kernels that report an error message that Kernels.v's (frozen) [msg] does not have live in the monad [xres],
    which is [kres] over the larger message type [msg2]; everything else stays in [kres]. *)
From Coq Require Import ZArith List Bool.
From AwkV Require Import Base.
From AwkKernels Require Import Kernels.
Import ListNotations.
Open Scope Z_scope.

(** * Error monad with the additional messages *)
Inductive msg2 :=
| MOld (m : msg)
| MMaxIndexGtLen        (* "max(index) > len(content)" *)
| MMaxStopGtLen         (* "max(stop) > len(content)" *)
| MMinIndexLt0          (* "min(index) < 0" *)
| MJaggedStopsLtStarts  (* "jagged slice's stops[i] < starts[i]" *)
| MJaggedBeyond         (* "jagged slice's offsets extend beyond its content" *)
| MJaggedInnerDiffers   (* "jagged slice inner length differs from array inner length" *)
| MJaggedCannotFit      (* "cannot fit jagged slice into nested list" *)
| MOffsetsMonotone      (* "offsets must be monotonically increasing" *)
| MNotRegular           (* "cannot convert to RegularArray because subarray lengths are not regular" *)
| MFixmeCombinations    (* "FIXME: awkward_combinations" *)
| MFailedSort.          (* "failed to sort an array" *)

Inductive xres (A : Type) := XOk (a : A) | XErr (m : msg2) | XOob.
Arguments XOk {A} a.
Arguments XErr {A} m.
Arguments XOob {A}.

Definition xbind {A B} (r : xres A) (f : A -> xres B) : xres B :=
  match r with XOk a => f a | XErr m => XErr m | XOob => XOob end.
Notation "'let+' x ':=' r 'in' k" := (xbind r (fun x => k))
  (at level 200, x pattern, r at level 100, k at level 200).
Definition xmap {A B} (f : A -> B) (r : xres A) : xres B :=
  match r with XOk a => XOk (f a) | XErr m => XErr m | XOob => XOob end.
Definition lift {A} (r : kres A) : xres A :=
  match r with KOk a => XOk a | KErr m => XErr (MOld m) | KOob => XOob end.
Definition xcheck (b : bool) (m : msg2) : xres unit := if b then XErr m else XOk tt.
Definition xget (l : list Z) (i : Z) : xres Z := lift (kget l i).
Definition xupd (l : list Z) (i v : Z) : xres (list Z) := lift (kupd l i v).

Fixpoint xfor_nat {S} (n : nat) (i : Z) (body : Z -> S -> xres S) (s : S) : xres S :=
  match n with
  | O => XOk s
  | S n' => let+ s' := body i s in xfor_nat n' (i + 1) body s'
  end.
Definition xfor {S} (lo hi : Z) (body : Z -> S -> xres S) (s : S) : xres S :=
  xfor_nat (Z.to_nat (hi - lo)) lo body s.

Fixpoint xwhile {S} (fuel : nat) (cond : S -> bool) (body : S -> xres S) (s : S) : xres S :=
  match fuel with
  | O => if cond s then XErr (MOld MFuel) else XOk s
  | S f => if cond s then let+ s' := body s in xwhile f cond body s' else XOk s
  end.

(** the C test [(m != 0) == validwhen] *)
Definition mvalid (m : Z) (validwhen : bool) : bool := Bool.eqb (negb (m =? 0)) validwhen.
Definition b2z (b : bool) : Z := if b then 1 else 0.

(* ------------------------------------------------------------------------------------------------ *)
(** * ByteMaskedArray *)

(* awkward_ByteMaskedArray_getitem_carry<T> *)
Definition ByteMaskedArray_getitem_carry (tomask frommask : list Z) (lenmask : Z) (fromcarry : list Z) (lencarry : Z)
  : kres (list Z) :=
  kfill 0 lencarry (fun i =>
    let* c := kget fromcarry i in
    let* _ := kcheck (lenmask <=? c) MIndexOutOfRange in
    kget frommask c) tomask.

(* awkward_ByteMaskedArray_mask<M>:  tomask[i] = ((frommask[i] != 0) != validwhen) *)
Definition ByteMaskedArray_mask (tomask frommask : list Z) (length : Z) (validwhen : bool) : kres (list Z) :=
  kfill 0 length (fun i => let* m := kget frommask i in KOk (b2z (negb (mvalid m validwhen)))) tomask.

(* awkward_ByteMaskedArray_numnull *)
Definition ByteMaskedArray_numnull (numnull mask : list Z) (length : Z) (validwhen : bool) : kres (list Z) :=
  let* n0 := kupd numnull 0 0 in
  kfor 0 length (fun i n =>
    let* m := kget mask i in
    if negb (mvalid m validwhen) then let* c := kget n 0 in kupd n 0 (c + 1) else KOk n) n0.

(* awkward_ByteMaskedArray_overlay_mask<M> *)
Definition ByteMaskedArray_overlay_mask (tomask theirmask mymask : list Z) (length : Z) (validwhen : bool)
  : kres (list Z) :=
  kfill 0 length (fun i =>
    let* t := kget theirmask i in
    let* m := kget mymask i in
    KOk (b2z (negb (t =? 0) || negb (mvalid m validwhen)))) tomask.

(* awkward_ByteMaskedArray_reduce_next_64 *)
Definition ByteMaskedArray_reduce_next (nextcarry nextparents outindex mask parents : list Z) (length : Z)
    (validwhen : bool) : kres (list Z * list Z * list Z) :=
  let* r := kfor 0 length (fun i st =>
    let '(nc, np, oi, k) := st in
    let* m := kget mask i in
    if mvalid m validwhen then
      let* nc' := kupd nc k i in
      let* p := kget parents i in
      let* np' := kupd np k p in
      let* oi' := kupd oi i k in
      KOk (nc', np', oi', k + 1)
    else
      let* oi' := kupd oi i (-1) in KOk (nc, np, oi', k)) (nextcarry, nextparents, outindex, 0) in
  let '(nc, np, oi, _) := r in KOk (nc, np, oi).

(* awkward_ByteMaskedArray_reduce_next_nonlocal_nextshifts_64 / ..._fromshifts_64 ([shifts = None]: the former) *)
Definition nextshifts_generic (valid : Z -> bool) (nextshifts flags : list Z) (length : Z) (shifts : option (list Z))
  : kres (list Z) :=
  let* r := kfor 0 length (fun i st =>
    let '(out, k, nullsum) := st in
    let* m := kget flags i in
    if valid m then
      let* sh := (match shifts with Some s => kget s i | None => KOk 0 end) in
      let* out' := kupd out k (sh + nullsum) in KOk (out', k + 1, nullsum)
    else KOk (out, k, nullsum + 1)) (nextshifts, 0, 0) in
  KOk (fst (fst r)).

Definition ByteMaskedArray_reduce_next_nonlocal_nextshifts (nextshifts mask : list Z) (length : Z) (valid_when : bool)
  : kres (list Z) := nextshifts_generic (fun m => mvalid m valid_when) nextshifts mask length None.
Definition ByteMaskedArray_reduce_next_nonlocal_nextshifts_fromshifts (nextshifts mask : list Z) (length : Z)
    (valid_when : bool) (shifts : list Z) : kres (list Z) :=
  nextshifts_generic (fun m => mvalid m valid_when) nextshifts mask length (Some shifts).

(* awkward_IndexedArray_reduce_next_nonlocal_nextshifts_64 / ..._fromshifts_64: valid = (index[i] >= 0) *)
Definition IndexedArray_reduce_next_nonlocal_nextshifts (nextshifts index : list Z) (length : Z) : kres (list Z) :=
  nextshifts_generic (fun x => 0 <=? x) nextshifts index length None.
Definition IndexedArray_reduce_next_nonlocal_nextshifts_fromshifts (nextshifts index : list Z) (length : Z)
    (shifts : list Z) : kres (list Z) :=
  nextshifts_generic (fun x => 0 <=? x) nextshifts index length (Some shifts).

(* awkward_Content_getitem_next_missing_jagged_getmaskstartstop *)
Definition Content_getitem_next_missing_jagged_getmaskstartstop (index_in offsets_in mask_out starts_out stops_out : list Z)
    (length : Z) : kres (list Z * list Z * list Z) :=
  let* r := kfor 0 length (fun i st =>
    let '(mo, so, po, k) := st in
    let* o := kget offsets_in k in
    let* so' := kupd so i o in
    let* x := kget index_in i in
    if x <? 0 then
      let* mo' := kupd mo i (-1) in
      let* po' := kupd po i o in KOk (mo', so', po', k)
    else
      let* mo' := kupd mo i i in
      let* o2 := kget offsets_in (k + 1) in
      let* po' := kupd po i o2 in KOk (mo', so', po', k + 1)) (mask_out, starts_out, stops_out, 0) in
  let '(mo, so, po, _) := r in KOk (mo, so, po).

(* awkward_MaskedArray_getitem_next_jagged_project<T> *)
Definition MaskedArray_getitem_next_jagged_project (index starts_in stops_in starts_out stops_out : list Z) (length : Z)
  : kres (list Z * list Z) :=
  let* r := kfor 0 length (fun i st =>
    let '(so, po, k) := st in
    let* x := kget index i in
    if 0 <=? x then
      let* a := kget starts_in i in
      let* so' := kupd so k a in
      let* b := kget stops_in i in
      let* po' := kupd po k b in KOk (so', po', k + 1)
    else KOk st) (starts_out, stops_out, 0) in
  KOk (fst r).

(* ------------------------------------------------------------------------------------------------ *)
(** * Index / IndexedArray *)

(* awkward_Index_iscontiguous<T>: early return on the first mismatch *)
Definition Index_iscontiguous (tT : ity) (result fromindex : list Z) (length : Z) : kres (list Z) :=
  let* r0 := kupd result 0 1 in
  let* r := kfor 0 length (fun i st =>
    let '(res, expecting, done) := st in
    if done : bool then KOk st else
    let* x := kget fromindex i in
    if negb (x =? expecting) then let* res' := kupd res 0 0 in KOk (res', expecting, true)
    else KOk (res, wrap tT (expecting + 1), false)) (r0, 0, false) in
  KOk (fst (fst r)).

(* awkward_Index_to_Index64<T> *)
Definition Index_to_Index64 (toptr fromptr : list Z) (length : Z) : kres (list Z) :=
  kfill 0 length (fun i => kget fromptr i) toptr.

(* awkward_IndexedArray_fill_count<TO> *)
Definition IndexedArray_fill_count (tTO : ity) (toindex : list Z) (toindexoffset length base : Z) : kres (list Z) :=
  kfill toindexoffset length (fun i => KOk (wrap tTO (i + base))) toindex.

(* awkward_IndexedArray_getitem_adjust_outindex<T> *)
Definition IndexedArray_getitem_adjust_outindex (tomask toindex tononzero fromindex : list Z) (fromindexlength : Z)
    (nonzero : list Z) (nonzerolength : Z) : kres (list Z * list Z * list Z) :=
  let* r := kfor 0 fromindexlength (fun i st =>
    let '(tm, ti, tn, j, k) := st in
    let* fromval := kget fromindex i in
    let* tm' := kupd tm i (b2z (fromval <? 0)) in
    if fromval <? 0 then
      let* ti' := kupd ti k (-1) in KOk (tm', ti', tn, j, k + 1)
    else if j <? nonzerolength then
      let* nz := kget nonzero j in
      if fromval =? nz then
        let* tn' := kupd tn j (fromval + (k - j)) in
        let* ti' := kupd ti k j in KOk (tm', ti', tn', j + 1, k + 1)
      else KOk (tm', ti, tn, j, k)
    else KOk (tm', ti, tn, j, k)) (tomask, toindex, tononzero, 0, 0) in
  let '(tm, ti, tn, _, _) := r in KOk (tm, ti, tn).

(* awkward_IndexedArray_getitem_carry<C, T> *)
Definition IndexedArray_getitem_carry (tC : ity) (toindex fromindex fromcarry : list Z) (lenindex lencarry : Z)
  : kres (list Z) :=
  kfill 0 lencarry (fun i =>
    let* c := kget fromcarry i in
    let* _ := kcheck (lenindex <=? c) MIndexOutOfRange in
    let* x := kget fromindex c in KOk (wrap tC x)) toindex.

(* awkward_IndexedArray_mask<C, M> *)
Definition IndexedArray_mask (tomask fromindex : list Z) (length : Z) : kres (list Z) :=
  kfill 0 length (fun i => let* x := kget fromindex i in KOk (b2z (x <? 0))) tomask.

(* awkward_IndexedArray_index_of_nulls<C> *)
Definition IndexedArray_index_of_nulls (toindex fromindex : list Z) (lenindex : Z) (parents starts : list Z)
  : kres (list Z) :=
  let* r := kfor 0 lenindex (fun i st =>
    let* x := kget fromindex i in
    if x <? 0 then
      let* parent := kget parents i in
      let* start := kget starts parent in
      kpush st (i - start)
    else KOk st) (toindex, 0) in
  KOk (fst r).

(* awkward_IndexedArray_overlay_mask<C, M, TO> *)
Definition IndexedArray_overlay_mask (tTO : ity) (toindex mask fromindex : list Z) (length : Z) : kres (list Z) :=
  kfill 0 length (fun i =>
    let* m := kget mask i in
    if negb (m =? 0) then KOk (wrap tTO (-1)) else let* x := kget fromindex i in KOk (wrap tTO x)) toindex.

(* awkward_IndexedArray_reduce_next_64<T> *)
Definition IndexedArray_reduce_next (nextcarry nextparents outindex index parents : list Z) (length : Z)
  : kres (list Z * list Z * list Z) :=
  let* r := kfor 0 length (fun i st =>
    let '(nc, np, oi, k) := st in
    let* x := kget index i in
    if 0 <=? x then
      let* nc' := kupd nc k x in
      let* p := kget parents i in
      let* np' := kupd np k p in
      let* oi' := kupd oi i k in
      KOk (nc', np', oi', k + 1)
    else
      let* oi' := kupd oi i (-1) in KOk (nc, np, oi', k)) (nextcarry, nextparents, outindex, 0) in
  let '(nc, np, oi, _) := r in KOk (nc, np, oi).

(* awkward_IndexedArray_reduce_next_fix_offsets_64 *)
Definition IndexedArray_reduce_next_fix_offsets (outoffsets starts : list Z) (startslength outindexlength : Z)
  : kres (list Z) :=
  let* out := kfill 0 startslength (fun i => kget starts i) outoffsets in
  kupd out startslength outindexlength.

(* awkward_IndexedArray_simplify<OUT, IN, TO> *)
Definition IndexedArray_simplify (toindex outerindex : list Z) (outerlength : Z) (innerindex : list Z) (innerlength : Z)
  : kres (list Z) :=
  kfill 0 outerlength (fun i =>
    let* j := kget outerindex i in
    if j <? 0 then KOk (-1)
    else
      let* _ := kcheck (innerlength <=? j) MIndexOutOfRange in
      kget innerindex j) toindex.

(* awkward_IndexedArray_ranges_next_64<T> *)
Definition IndexedArray_ranges_next (index fromstarts fromstops : list Z) (length : Z) (tostarts tostops tolength : list Z)
  : kres (list Z * list Z * list Z) :=
  let* r := kfor 0 length (fun i st =>
    let '(ts, tp, k) := st in
    let* b := kget fromstops i in
    let* a := kget fromstarts i in
    let* ts' := kupd ts i k in
    let* k' := kfor 0 (b - a) (fun j k => let* x := kget index (a + j) in KOk (if x <? 0 then k else k + 1)) k in
    let* tp' := kupd tp i k' in
    KOk (ts', tp', k')) (tostarts, tostops, 0) in
  let '(ts, tp, k) := r in
  let* tl := kupd tolength 0 k in
  KOk (ts, tp, tl).

(* awkward_IndexedArray_ranges_carry_next_64<T> *)
Definition IndexedArray_ranges_carry_next (index fromstarts fromstops : list Z) (length : Z) (tocarry : list Z)
  : kres (list Z) :=
  let* r := kfor 0 length (fun i st =>
    let* b := kget fromstops i in
    let* a := kget fromstarts i in
    kfor 0 (b - a) (fun j st => let* x := kget index (a + j) in if x <? 0 then KOk st else kpush st x) st)
    (tocarry, 0) in
  KOk (fst r).

(* awkward_IndexedOptionArray_rpad_and_clip_mask_axis1<T> *)
Definition IndexedOptionArray_rpad_and_clip_mask_axis1 (toindex frommask : list Z) (length : Z) : kres (list Z) :=
  let* r := kfor 0 length (fun i st =>
    let '(out, count) := st in
    let* m := kget frommask i in
    if negb (m =? 0) then let* out' := kupd out i (-1) in KOk (out', count)
    else let* out' := kupd out i count in KOk (out', count + 1)) (toindex, 0) in
  KOk (fst r).

(* awkward_index_carry<C, T> *)
Definition index_carry (toindex fromindex carry : list Z) (lenfromindex length : Z) : kres (list Z) :=
  kfill 0 length (fun i =>
    let* j := kget carry i in
    let* _ := kcheck ((j <? 0) || (lenfromindex <=? j)) MIndexOutOfRange in
    kget fromindex j) toindex.

(* awkward_index_carry_nocheck<C, T> *)
Definition index_carry_nocheck (toindex fromindex carry : list Z) (length : Z) : kres (list Z) :=
  kfill 0 length (fun i => let* j := kget carry i in kget fromindex j) toindex.

(* awkward_Index_nones_as_index<T>: in place *)
Definition Index_nones_as_index (toindex : list Z) (length : Z) : kres (list Z) :=
  let* last := kfor 0 length (fun i last => let* x := kget toindex i in KOk (if last <? x then x else last)) (-1) in
  let* r := kfor 0 length (fun i st =>
    let '(buf, last) := st in
    let* x := kget buf i in
    if x =? -1 then let* buf' := kupd buf i (last + 1) in KOk (buf', last + 1) else KOk st) (toindex, last) in
  KOk (fst r).

(* awkward_carry_SliceMissing64_outindex *)
Definition carry_SliceMissing64_outindex (toindex fromindex : list Z) (length : Z) : kres (list Z) :=
  let* r := kfor 0 length (fun i st =>
    let '(out, j) := st in
    let* x := kget fromindex i in
    if x <? 0 then let* out' := kupd out i (-1) in KOk (out', j)
    else let* out' := kupd out i j in KOk (out', j + 1)) (toindex, 0) in
  KOk (fst r).

(* awkward_missing_repeat<T> *)
Definition missing_repeat (outindex index : list Z) (indexlength repetitions regularsize : Z) : kres (list Z) :=
  kfor 0 repetitions (fun i out =>
    kfor 0 indexlength (fun j out =>
      let* base := kget index j in
      kupd out (i * indexlength + j) (base + (if 0 <=? base then i * regularsize else 0))) out) outindex.

(* awkward_slicemissing_check_same: early return on the first difference *)
Definition slicemissing_check_same (same bytemask missingindex : list Z) (length : Z) : kres (list Z) :=
  let* s0 := kupd same 0 1 in
  let* r := kfor 0 length (fun i st =>
    let '(s, done) := st in
    if done : bool then KOk st else
    let* m := kget bytemask i in
    let* x := kget missingindex i in
    if negb (Bool.eqb (negb (m =? 0)) (x <? 0)) then let* s' := kupd s 0 0 in KOk (s', true)
    else KOk st) (s0, false) in
  KOk (fst r).

(* awkward_one_mask / awkward_zero_mask *)
Definition const_mask (v : Z) (tomask : list Z) (length : Z) : kres (list Z) :=
  kfill 0 length (fun _ => KOk v) tomask.

(* ------------------------------------------------------------------------------------------------ *)
(** * jagged slicing *)

(* awkward_ListArray_getitem_jagged_apply<C, T> *)
Definition ListArray_getitem_jagged_apply (tooffsets tocarry slicestarts slicestops : list Z) (sliceouterlen : Z)
    (sliceindex : list Z) (sliceinnerlen : Z) (fromstarts fromstops : list Z) (contentlen : Z)
  : xres (list Z * list Z) :=
  let+ r := xfor 0 sliceouterlen (fun i st =>
    let '(to, ck) := st in
    let+ slicestart := xget slicestarts i in
    let+ slicestop := xget slicestops i in
    let+ to1 := xupd to i (snd ck) in
    let+ ck' :=
      (if negb (slicestart =? slicestop) then
         let+ _ := xcheck (slicestop <? slicestart) MJaggedStopsLtStarts in
         let+ _ := xcheck (sliceinnerlen <? slicestop) MJaggedBeyond in
         let+ start := xget fromstarts i in
         let+ stop := xget fromstops i in
         let+ _ := xcheck (stop <? start) (MOld MStopsLtStarts) in
         let+ _ := xcheck (negb (start =? stop) && (contentlen <? stop)) (MOld MStopsGtLen) in
         let count := stop - start in
         xfor slicestart slicestop (fun j ck =>
           let+ ix := xget sliceindex j in
           let ix' := if ix <? 0 then ix + count else ix in
           let+ _ := xcheck (negb ((0 <=? ix') && (ix' <? count))) (MOld MIndexOutOfRange) in
           lift (kpush ck (start + ix'))) ck
       else XOk ck) in
    let+ to2 := xupd to1 (i + 1) (snd ck') in
    XOk (to2, ck')) (tooffsets, (tocarry, 0)) in
  XOk (fst r, fst (snd r)).

(* awkward_ListArray_getitem_jagged_carrylen<T> *)
Definition ListArray_getitem_jagged_carrylen (carrylen slicestarts slicestops : list Z) (sliceouterlen : Z)
  : kres (list Z) :=
  let* c0 := kupd carrylen 0 0 in
  kfor 0 sliceouterlen (fun i c =>
    let* e := kget slicestops i in
    let* s := kget slicestarts i in
    let* cur := kget c 0 in
    kupd c 0 (cur + (e - s))) c0.

(* awkward_ListArray_getitem_jagged_descend<C, T> *)
Definition ListArray_getitem_jagged_descend (tC : ity) (tooffsets slicestarts slicestops : list Z) (sliceouterlen : Z)
    (fromstarts fromstops : list Z) : xres (list Z) :=
  let+ to0 := (if sliceouterlen =? 0 then xupd tooffsets 0 0
               else let+ s0 := xget slicestarts 0 in xupd tooffsets 0 s0) in
  xfor 0 sliceouterlen (fun i to =>
    let+ se := xget slicestops i in
    let+ ss := xget slicestarts i in
    let+ fe := xget fromstops i in
    let+ fs := xget fromstarts i in
    let count := wrap tC (fe - fs) in
    let+ _ := xcheck (negb (se - ss =? count)) MJaggedInnerDiffers in
    let+ prev := xget to i in
    xupd to (i + 1) (prev + count)) to0.

(* awkward_ListArray_getitem_jagged_expand<C, T> *)
Definition ListArray_getitem_jagged_expand (multistarts multistops singleoffsets tocarry fromstarts fromstops : list Z)
    (jaggedsize length : Z) : xres (list Z * list Z * list Z) :=
  xfor 0 length (fun i st =>
    let+ start := xget fromstarts i in
    let+ stop := xget fromstops i in
    let+ _ := xcheck (stop <? start) (MOld MStopsLtStarts) in
    let+ _ := xcheck (negb (stop - start =? jaggedsize)) MJaggedCannotFit in
    lift (kfor 0 jaggedsize (fun j st =>
      let '(ms, mp, tc) := st in
      let* a := kget singleoffsets j in
      let* ms' := kupd ms (i * jaggedsize + j) a in
      let* b := kget singleoffsets (j + 1) in
      let* mp' := kupd mp (i * jaggedsize + j) b in
      let* tc' := kupd tc (i * jaggedsize + j) (start + j) in
      KOk (ms', mp', tc')) st)) (multistarts, multistops, tocarry).

(* awkward_ListArray_getitem_jagged_numvalid<T> *)
Definition ListArray_getitem_jagged_numvalid (numvalid slicestarts slicestops : list Z) (length : Z) (missing : list Z)
    (missinglength : Z) : xres (list Z) :=
  let+ n0 := xupd numvalid 0 0 in
  xfor 0 length (fun i n =>
    let+ slicestart := xget slicestarts i in
    let+ slicestop := xget slicestops i in
    if negb (slicestart =? slicestop) then
      let+ _ := xcheck (slicestop <? slicestart) MJaggedStopsLtStarts in
      let+ _ := xcheck (missinglength <? slicestop) MJaggedBeyond in
      lift (kfor slicestart slicestop (fun j n =>
        let* cur := kget n 0 in
        let* m := kget missing j in
        kupd n 0 (cur + (if 0 <=? m then 1 else 0))) n)
    else XOk n) n0.

(* awkward_ListArray_getitem_jagged_shrink<T> *)
Definition ListArray_getitem_jagged_shrink (tocarry tosmalloffsets tolargeoffsets slicestarts slicestops : list Z)
    (length : Z) (missing : list Z) : kres (list Z * list Z * list Z) :=
  let* first := (if length =? 0 then KOk 0 else kget slicestarts 0) in
  let* so0 := kupd tosmalloffsets 0 first in
  let* lo0 := kupd tolargeoffsets 0 first in
  let* r := kfor 0 length (fun i st =>
    let '(ck, so, lo) := st in
    let* slicestart := kget slicestarts i in
    let* slicestop := kget slicestops i in
    let* r1 :=
      (if negb (slicestart =? slicestop) then
         let* r := kfor slicestart slicestop (fun j s =>
           let '(ck, smallcount) := s in
           let* m := kget missing j in
           if 0 <=? m then let* ck' := kpush ck j in KOk (ck', smallcount + 1) else KOk s) (ck, 0) in
         let* prev := kget so i in
         let* so' := kupd so (i + 1) (prev + snd r) in
         KOk (fst r, so')
       else
         let* prev := kget so i in
         let* so' := kupd so (i + 1) prev in
         KOk (ck, so')) in
    let* prevl := kget lo i in
    let* lo' := kupd lo (i + 1) (prevl + (slicestop - slicestart)) in
    KOk (fst r1, snd r1, lo')) ((tocarry, 0), so0, lo0) in
  let '(ck, so, lo) := r in KOk (fst ck, so, lo).

(* awkward_ListOffsetArray_getitem_adjust_offsets<T> *)
Definition ListOffsetArray_getitem_adjust_offsets (tooffsets tononzero fromoffsets : list Z) (length : Z)
    (nonzero : list Z) (nonzerolength : Z) : kres (list Z * list Z) :=
  let* o0 := kget fromoffsets 0 in
  let* to0 := kupd tooffsets 0 o0 in
  let* r := kfor 0 length (fun i st =>
    let '(to, tn, j) := st in
    let* slicestart := kget fromoffsets i in
    let* slicestop := kget fromoffsets (i + 1) in
    let* r := kwhile (Z.to_nat nonzerolength)
        (fun s : list Z * Z * Z => let '(_, j, _) := s in
           (j <? nonzerolength) && match kget nonzero j with KOk x => x <? slicestop | _ => true end)
        (fun s => let '(tn, j, count) := s in
           let* nz := kget nonzero j in
           let* tn' := kupd tn j (nz - slicestart) in
           KOk (tn', j + 1, count + 1))
        (tn, j, 0) in
    let '(tn', j', count) := r in
    let* prev := kget to i in
    let* to' := kupd to (i + 1) (prev + count) in
    KOk (to', tn', j')) (to0, tononzero, 0) in
  let '(to, tn, _) := r in KOk (to, tn).

(* awkward_ListOffsetArray_getitem_adjust_offsets_index<T> *)
Definition ListOffsetArray_getitem_adjust_offsets_index (tooffsets tononzero fromoffsets : list Z) (length : Z)
    (index : list Z) (indexlength : Z) (nonzero : list Z) (nonzerolength : Z) (originalmask : list Z) (masklength : Z)
  : kres (list Z * list Z) :=
  let* o0 := kget fromoffsets 0 in
  let* to0 := kupd tooffsets 0 o0 in
  let* r := kfor 0 length (fun i st =>
    let '(to, tn, k) := st in
    let* slicestart := kget fromoffsets i in
    let* slicestop := kget fromoffsets (i + 1) in
    let* numnull := kfor slicestart slicestop (fun j n =>
      let* m := kget originalmask j in KOk (n + (if negb (m =? 0) then 1 else 0))) 0 in
    let* r := kwhile (Z.to_nat indexlength)
        (fun s : list Z * Z * Z * Z => let '(_, k, nullcount, _) := s in
           (k <? indexlength) &&
           match kget index k with
           | KOk ix =>
               ((ix <? 0) && (nullcount <? numnull)) ||
               ((0 <=? ix) && (ix <? nonzerolength) &&
                match kget nonzero ix with KOk nz => nz <? slicestop | _ => true end)
           | _ => true
           end)
        (fun s => let '(tn, k, nullcount, count) := s in
           let* ix := kget index k in
           if ix <? 0 then KOk (tn, k + 1, nullcount + 1, count + 1)
           else
             let* nz := kget nonzero ix in
             let* tn' := kupd tn ix (nz - slicestart) in
             KOk (tn', k + 1, nullcount, count + 1))
        (tn, k, 0, 0) in
    let '(tn', k', _, count) := r in
    let* prev := kget to i in
    let* to' := kupd to (i + 1) (prev + count) in
    KOk (to', tn', k')) (to0, tononzero, 0) in
  let '(to, tn, _) := r in KOk (to, tn).

(* awkward_ListOffsetArray_reduce_global_startstop_64 *)
Definition ListOffsetArray_reduce_global_startstop (globalstart globalstop offsets : list Z) (length : Z)
  : kres (list Z * list Z) :=
  let* a := kget offsets 0 in
  let* gs := kupd globalstart 0 a in
  let* b := kget offsets length in
  let* gp := kupd globalstop 0 b in
  KOk (gs, gp).

(* awkward_ListOffsetArray_toRegularArray<C> *)
Definition ListOffsetArray_toRegularArray (size fromoffsets : list Z) (offsetslength : Z) : xres (list Z) :=
  let+ s0 := xupd size 0 (-1) in
  let+ s := xfor 0 (offsetslength - 1) (fun i s =>
    let+ a := xget fromoffsets (i + 1) in
    let+ b := xget fromoffsets i in
    let count := a - b in
    let+ _ := xcheck (count <? 0) MOffsetsMonotone in
    let+ cur := xget s 0 in
    if cur =? -1 then xupd s 0 count
    else let+ _ := xcheck (negb (cur =? count)) MNotRegular in XOk s) s0 in
  let+ cur := xget s 0 in
  if cur =? -1 then xupd s 0 0 else XOk s.

(* awkward_RegularArray_getitem_jagged_expand<T> *)
Definition RegularArray_getitem_jagged_expand (multistarts multistops singleoffsets : list Z)
    (regularsize regularlength : Z) : kres (list Z * list Z) :=
  kfor 0 regularlength (fun i st =>
    kfor 0 regularsize (fun j st =>
      let '(ms, mp) := st in
      let* a := kget singleoffsets j in
      let* ms' := kupd ms (i * regularsize + j) a in
      let* b := kget singleoffsets (j + 1) in
      let* mp' := kupd mp (i * regularsize + j) b in
      KOk (ms', mp')) st) (multistarts, multistops).

(* awkward_SliceVarNewAxis_to_SliceJagged64 *)
Definition SliceVarNewAxis_to_SliceJagged64 (tocarry fromoffsets : list Z) (length : Z) : kres (list Z) :=
  kfor 0 length (fun i out =>
    let* start := kget fromoffsets i in
    let* stop := kget fromoffsets (i + 1) in
    kfor start stop (fun j out => kupd out j i) out) tocarry.

(* awkward_carry_SliceJagged64_offsets *)
Definition carry_SliceJagged64_offsets (tooffsets fromoffsets fromcarry : list Z) (carrylen : Z) : kres (list Z) :=
  let* to0 := kupd tooffsets 0 0 in
  kfor 0 carrylen (fun i to =>
    let* c := kget fromcarry i in
    let* a := kget fromoffsets (c + 1) in
    let* b := kget fromoffsets c in
    let* prev := kget to i in
    kupd to (i + 1) (prev + (a - b))) to0.

(* awkward_carry_SliceJagged64_nextcarry *)
Definition carry_SliceJagged64_nextcarry (tocarry fromoffsets fromcarry : list Z) (carrylen : Z) : kres (list Z) :=
  let* r := kfor 0 carrylen (fun i st =>
    let* c := kget fromcarry i in
    let* start := kget fromoffsets c in
    let* stop := kget fromoffsets (c + 1) in
    kfor start stop (fun j st => kpush st j) st) (tocarry, 0) in
  KOk (fst r).

(* awkward_combinations<T>: not implemented in the library *)
Definition combinations (toindex : list Z) (n : Z) (replacement : bool) (singlelen : Z) : xres (list Z) :=
  XErr MFixmeCombinations.

(* ------------------------------------------------------------------------------------------------ *)
(** * NumpyArray *)

(* awkward_NumpyArray_contiguous_copy_from_many<T> *)
Definition NumpyArray_contiguous_copy_from_many (toptr : list Z) (fromptrs : list (list Z)) (fromlens : list Z)
    (len stride : Z) (pos : list Z) : kres (list Z) :=
  let* r := kfor 0 len (fun i st =>
    let '(out, k, j) := st in
    let* row := krow fromptrs k in
    let* p := kget pos j in
    let* out' := kfor 0 stride (fun b out => let* x := kget row (p + b) in kupd out (i * stride + b) x) out in
    let* fl := kget fromlens k in
    if fl <=? j + 1 then KOk (out', k + 1, 0) else KOk (out', k, j + 1)) (toptr, 0, 0) in
  KOk (fst (fst r)).

(* awkward_NumpyArray_contiguous_init<T> *)
Definition NumpyArray_contiguous_init (toptr : list Z) (skip stride : Z) : kres (list Z) :=
  kfill 0 skip (fun i => KOk (i * stride)) toptr.

(* awkward_NumpyArray_contiguous_next<T> *)
Definition NumpyArray_contiguous_next (topos frompos : list Z) (length skip stride : Z) : kres (list Z) :=
  kfor 0 length (fun i out =>
    kfor 0 skip (fun j out => let* p := kget frompos i in kupd out (i * skip + j) (p + j * stride)) out) topos.

(* awkward_NumpyArray_fill_frombool<TO> *)
Definition NumpyArray_fill_frombool (tTO : ity) (toptr : list Z) (tooffset : Z) (fromptr : list Z) (length : Z)
  : kres (list Z) :=
  kfill tooffset length (fun i => let* x := kget fromptr i in KOk (wrap tTO (b2z (negb (x =? 0))))) toptr.

(* awkward_NumpyArray_fill_tobool<FROM> *)
Definition NumpyArray_fill_tobool (toptr : list Z) (tooffset : Z) (fromptr : list Z) (length : Z) : kres (list Z) :=
  kfill tooffset length (fun i => let* x := kget fromptr i in KOk (b2z (negb (x =? 0)))) toptr.

(* awkward_NumpyArray_fill_scaled<FROM, TO> (integer-valued scale) *)
Definition NumpyArray_fill_scaled (tTO : ity) (toptr : list Z) (tooffset : Z) (fromptr : list Z) (length scale : Z)
  : kres (list Z) :=
  kfill tooffset length (fun i => let* x := kget fromptr i in KOk (wrap tTO (x * scale))) toptr.

(* awkward_NumpyArray_getitem_boolean_nonzero<T>:  for (i = 0; i < length; i += stride) *)
Definition NumpyArray_getitem_boolean_nonzero (toptr fromptr : list Z) (length stride : Z) : kres (list Z) :=
  let* r := kwhile (Z.to_nat length)
    (fun s : list Z * Z * Z => snd s <? length)
    (fun s => let '(ck, i) := s in
       let* x := kget fromptr i in
       let* ck' := (if negb (x =? 0) then kpush ck i else KOk ck) in
       KOk (ck', i + stride))
    ((toptr, 0), 0) in
  KOk (fst (fst r)).

(* awkward_NumpyArray_getitem_boolean_numtrue *)
Definition NumpyArray_getitem_boolean_numtrue (numtrue fromptr : list Z) (length stride : Z) : kres (list Z) :=
  let* n0 := kupd numtrue 0 0 in
  let* r := kwhile (Z.to_nat length)
    (fun s : list Z * Z => snd s <? length)
    (fun s => let '(n, i) := s in
       let* cur := kget n 0 in
       let* x := kget fromptr i in
       let* n' := kupd n 0 (cur + b2z (negb (x =? 0))) in
       KOk (n', i + stride))
    (n0, 0) in
  KOk (fst r).

(* awkward_NumpyArray_getitem_next_array<T> *)
Definition NumpyArray_getitem_next_array (nextcarryptr nextadvancedptr carryptr flatheadptr : list Z)
    (lencarry lenflathead skip : Z) : kres (list Z * list Z) :=
  kfor 0 lencarry (fun i st =>
    kfor 0 lenflathead (fun j st =>
      let '(nc, na) := st in
      let* c := kget carryptr i in
      let* f := kget flatheadptr j in
      let* nc' := kupd nc (i * lenflathead + j) (skip * c + f) in
      let* na' := kupd na (i * lenflathead + j) j in
      KOk (nc', na')) st) (nextcarryptr, nextadvancedptr).

(* awkward_NumpyArray_getitem_next_array_advanced<T> *)
Definition NumpyArray_getitem_next_array_advanced (nextcarryptr carryptr advancedptr flatheadptr : list Z)
    (lencarry skip : Z) : kres (list Z) :=
  kfill 0 lencarry (fun i =>
    let* c := kget carryptr i in
    let* a := kget advancedptr i in
    let* f := kget flatheadptr a in
    KOk (skip * c + f)) nextcarryptr.

(* awkward_NumpyArray_getitem_next_at<T> *)
Definition NumpyArray_getitem_next_at (nextcarryptr carryptr : list Z) (lencarry skip at_ : Z) : kres (list Z) :=
  kfill 0 lencarry (fun i => let* c := kget carryptr i in KOk (skip * c + at_)) nextcarryptr.

(* awkward_NumpyArray_getitem_next_range<T> *)
Definition NumpyArray_getitem_next_range (nextcarryptr carryptr : list Z) (lencarry lenhead skip start step : Z)
  : kres (list Z) :=
  kfor 0 lencarry (fun i out =>
    kfor 0 lenhead (fun j out =>
      let* c := kget carryptr i in
      kupd out (i * lenhead + j) (skip * c + start + j * step)) out) nextcarryptr.

(* awkward_NumpyArray_getitem_next_range_advanced<T> *)
Definition NumpyArray_getitem_next_range_advanced (nextcarryptr nextadvancedptr carryptr advancedptr : list Z)
    (lencarry lenhead skip start step : Z) : kres (list Z * list Z) :=
  kfor 0 lencarry (fun i st =>
    kfor 0 lenhead (fun j st =>
      let '(nc, na) := st in
      let* c := kget carryptr i in
      let* nc' := kupd nc (i * lenhead + j) (skip * c + start + j * step) in
      let* a := kget advancedptr i in
      let* na' := kupd na (i * lenhead + j) a in
      KOk (nc', na')) st) (nextcarryptr, nextadvancedptr).

(* awkward_NumpyArray_reduce_adjust_starts_64 / ..._shifts_64 ([shifts = None]: the former): in place *)
Definition NumpyArray_reduce_adjust_starts_generic (toptr : list Z) (outlength : Z) (parents starts : list Z)
    (shifts : option (list Z)) : kres (list Z) :=
  kfor 0 outlength (fun k out =>
    let* i := kget out k in
    if 0 <=? i then
      let* parent := kget parents i in
      let* start := kget starts parent in
      let* sh := (match shifts with Some s => kget s i | None => KOk 0 end) in
      kupd out k (i + (sh - start))
    else KOk out) toptr.
Definition NumpyArray_reduce_adjust_starts (toptr : list Z) (outlength : Z) (parents starts : list Z) :=
  NumpyArray_reduce_adjust_starts_generic toptr outlength parents starts None.
Definition NumpyArray_reduce_adjust_starts_shifts (toptr : list Z) (outlength : Z) (parents starts shifts : list Z) :=
  NumpyArray_reduce_adjust_starts_generic toptr outlength parents starts (Some shifts).

(* awkward_NumpyArray_reduce_mask_ByteMaskedArray_64 *)
Definition NumpyArray_reduce_mask_ByteMaskedArray (toptr parents : list Z) (lenparents outlength : Z) : kres (list Z) :=
  let* out0 := kfill 0 outlength (fun _ => KOk 1) toptr in
  kfor 0 lenparents (fun i out => let* p := kget parents i in kupd out p 0) out0.

(* awkward_reduce_prod_int32_bool_64 / int64:  toptr[parents[i]] *= (fromptr[i] != 0) *)
Definition reduce_prod_int_bool (tO : ity) :=
  reduce_generic tO 1 (fun _ cur x => cur * b2z (negb (x =? 0))).

(* awkward_slicearray_ravel<T>: recursion on ndim; the pointer arguments of the recursive call are offsets here *)
Fixpoint slicearray_ravel_rec (d : nat) (out fromptr shape strides : list Z) (toff foff soff ndim : Z)
  : kres (list Z) :=
  match d with
  | O => KErr MFuel
  | S d' =>
    let* s0 := kget shape soff in
    if ndim =? 1 then
      kfor 0 s0 (fun i out =>
        let* st := kget strides soff in
        let* x := kget fromptr (foff + i * st) in
        kupd out (toff + i) x) out
    else
      (* blocksize = shape[1] * ... * shape[ndim-1] (fix b22ac49 of /repo: it was shape[1] alone) *)
      let* bs := kfor 1 ndim (fun k acc => let* sk := kget shape (soff + k) in KOk (acc * sk)) 1 in
      kfor 0 s0 (fun i out =>
        let* st := kget strides soff in
        slicearray_ravel_rec d' out fromptr shape strides (toff + i * bs) (foff + i * st) (soff + 1) (ndim - 1)) out
  end.
Definition slicearray_ravel (toptr fromptr : list Z) (ndim : Z) (shape strides : list Z) : kres (list Z) :=
  slicearray_ravel_rec (S (Z.to_nat ndim)) toptr fromptr shape strides 0 0 0 ndim.

(* ------------------------------------------------------------------------------------------------ *)
(** * UnionArray *)

(* awkward_UnionArray_fillindex_count<TO> *)
Definition UnionArray_fillindex_count (tTO : ity) (toindex : list Z) (toindexoffset length : Z) : kres (list Z) :=
  kfill toindexoffset length (fun i => KOk (wrap tTO i)) toindex.

(* awkward_UnionArray_filltags_const<TO> *)
Definition UnionArray_filltags_const (tTO : ity) (totags : list Z) (totagsoffset length base : Z) : kres (list Z) :=
  kfill totagsoffset length (fun _ => KOk (wrap tTO base)) totags.

(* awkward_UnionArray_flatten_length<FROMTAGS, FROMINDEX, T> *)
Definition UnionArray_flatten_length (total_length fromtags fromindex : list Z) (length : Z)
    (offsetsraws : list (list Z)) : kres (list Z) :=
  let* t0 := kupd total_length 0 0 in
  kfor 0 length (fun i t =>
    let* tag := kget fromtags i in
    let* idx := kget fromindex i in
    let* row := krow offsetsraws tag in
    let* start := kget row idx in
    let* stop := kget row (idx + 1) in
    let* cur := kget t 0 in
    kupd t 0 (cur + (stop - start))) t0.

(* awkward_UnionArray_flatten_combine<...> *)
Definition UnionArray_flatten_combine (totags toindex tooffsets fromtags fromindex : list Z) (length : Z)
    (offsetsraws : list (list Z)) : kres (list Z * list Z * list Z) :=
  let* to0 := kupd tooffsets 0 0 in
  let* r := kfor 0 length (fun i st =>
    let '(tgs, ti, to, k) := st in
    let* tag := kget fromtags i in
    let* idx := kget fromindex i in
    let* row := krow offsetsraws tag in
    let* start := kget row idx in
    let* stop := kget row (idx + 1) in
    let* prev := kget to i in
    let* to' := kupd to (i + 1) (prev + (stop - start)) in
    let* r := kfor start stop (fun j s =>
      let '(tgs, ti, k) := s in
      let* tgs' := kupd tgs k tag in
      let* ti' := kupd ti k j in
      KOk (tgs', ti', k + 1)) (tgs, ti, k) in
    let '(tgs', ti', k') := r in
    KOk (tgs', ti', to', k')) (totags, toindex, to0, 0) in
  let '(tgs, ti, to, _) := r in KOk (tgs, ti, to).

(* awkward_UnionArray_nestedfill_tags_index<T, I, C>: the counter k has the index type I *)
Definition UnionArray_nestedfill_tags_index (tI : ity) (totags toindex tmpstarts : list Z) (tag : Z)
    (fromcounts : list Z) (length : Z) : kres (list Z * list Z * list Z) :=
  let* r := kfor 0 length (fun i st =>
    let '(tgs, ti, ts, k) := st in
    let* start := kget ts i in
    let* c := kget fromcounts i in
    let stop := start + c in
    let* r := kfor start stop (fun j s =>
      let '(tgs, ti, k) := s in
      let* tgs' := kupd tgs j tag in
      let* ti' := kupd ti j k in
      KOk (tgs', ti', wrap tI (k + 1))) (tgs, ti, k) in
    let '(tgs', ti', k') := r in
    let* ts' := kupd ts i stop in
    KOk (tgs', ti', ts', k')) (totags, toindex, tmpstarts, 0) in
  let '(tgs, ti, ts, _) := r in KOk (tgs, ti, ts).

(* awkward_UnionArray_project<T, C, I> *)
Definition UnionArray_project (lenout tocarry fromtags fromindex : list Z) (length which : Z)
  : kres (list Z * list Z) :=
  let* l0 := kupd lenout 0 0 in
  kfor 0 length (fun i st =>
    let '(lo, tc) := st in
    let* tag := kget fromtags i in
    if tag =? which then
      let* n := kget lo 0 in
      let* x := kget fromindex i in
      let* tc' := kupd tc n x in
      let* lo' := kupd lo 0 (n + 1) in
      KOk (lo', tc')
    else KOk st) (l0, tocarry).

(* awkward_UnionArray_regular_index<C, I> *)
Definition UnionArray_regular_index (tI : ity) (toindex current : list Z) (size : Z) (fromtags : list Z) (length : Z)
  : kres (list Z * list Z) :=
  let* cur0 := kfor 0 size (fun k cur => kupd cur k 0) current in
  kfor 0 length (fun i st =>
    let '(ti, cur) := st in
    let* tag := kget fromtags i in
    let* c := kget cur tag in
    let* ti' := kupd ti i c in
    let* cur' := kupd cur tag (wrap tI (c + 1)) in
    KOk (ti', cur')) (toindex, cur0).

(* awkward_UnionArray_regular_index_getsize<C> *)
Definition UnionArray_regular_index_getsize (size fromtags : list Z) (length : Z) : kres (list Z) :=
  let* s0 := kupd size 0 0 in
  let* s := kfor 0 length (fun i s =>
    let* tag := kget fromtags i in
    let* cur := kget s 0 in
    if cur <? tag then kupd s 0 tag else KOk s) s0 in
  let* cur := kget s 0 in
  kupd s 0 (cur + 1).

(* awkward_UnionArray_simplify<...> *)
Definition UnionArray_simplify (tTT : ity) (totags toindex outertags outerindex innertags innerindex : list Z)
    (towhich innerwhich outerwhich length base : Z) : kres (list Z * list Z) :=
  kfor 0 length (fun i st =>
    let '(tgs, ti) := st in
    let* ot := kget outertags i in
    if ot =? outerwhich then
      let* j := kget outerindex i in
      let* it := kget innertags j in
      if it =? innerwhich then
        let* tgs' := kupd tgs i (wrap tTT towhich) in
        let* x := kget innerindex j in
        let* ti' := kupd ti i (x + base) in
        KOk (tgs', ti')
      else KOk st
    else KOk st) (totags, toindex).

(* awkward_UnionArray_simplify_one<...> *)
Definition UnionArray_simplify_one (tTT : ity) (totags toindex fromtags fromindex : list Z)
    (towhich fromwhich length base : Z) : kres (list Z * list Z) :=
  kfor 0 length (fun i st =>
    let '(tgs, ti) := st in
    let* t := kget fromtags i in
    if t =? fromwhich then
      let* tgs' := kupd tgs i (wrap tTT towhich) in
      let* x := kget fromindex i in
      let* ti' := kupd ti i (x + base) in
      KOk (tgs', ti')
    else KOk st) (totags, toindex).

(* ------------------------------------------------------------------------------------------------ *)
(** * sorting.  [std::stable_sort] is modelled by the stable insertion sort [isort]; for the [std::sort] (unstable)
    variants the model realises the same order and the runner compares "up to the order realised" (equal keys may
    come in any order in the compiled result). *)

(* insert x before the first element of the sorted list that is not strictly before x *)
Fixpoint sinsert {A} (lt : A -> A -> bool) (x : A) (l : list A) : list A :=
  match l with
  | [] => [x]
  | y :: t => if lt y x then y :: sinsert lt x t else x :: y :: t
  end.
Definition isort {A} (lt : A -> A -> bool) (l : list A) : list A := fold_right (sinsert lt) [] l.

Definition kmapM {A B} (f : A -> kres B) (l : list A) : kres (list B) :=
  fold_right (fun x acc => let* y := f x in let* ys := acc in KOk (y :: ys)) (KOk []) l.

(* the segment [a, b) of the index vector [result] (a std::vector of the kernel, not an argument: leaving it is
   reported as KOob as well), sorted by key [fromptr[ix]]; no key is read when there is nothing to compare *)
Definition sort_segment (lt : Z -> Z -> bool) (fromptr result : list Z) (a b : Z) : kres (list Z) :=
  if negb ((0 <=? a) && (a <=? b) && (b <=? zlen result)) then KOob else
  let seg := firstn (Z.to_nat (b - a)) (skipn (Z.to_nat a) result) in
  let* keyed := (if b - a <? 2 then KOk (map (fun ix => (0, ix)) seg)
                 else kmapM (fun ix => let* k := kget fromptr ix in KOk (k, ix)) seg) in
  KOk (map snd (isort (fun p q : Z * Z => lt (fst p) (fst q)) keyed)).

Definition sort_lt (ascending : bool) : Z -> Z -> bool := if ascending then Z.ltb else (fun l r => r <? l).

(* the index vector after sorting every segment offsets[i] .. offsets[i+1]; [localise]: std::transform j -> j - offsets[i] *)
Definition sorted_index (localise : bool) (fromptr : list Z) (length : Z) (offsets : list Z) (offsetslength : Z)
    (ascending : bool) : kres (list Z) :=
  kfor 0 (offsetslength - 1) (fun i result =>
    let* a := kget offsets i in
    let* b := kget offsets (i + 1) in
    let* sorted := sort_segment (sort_lt ascending) fromptr result a b in
    KOk (firstn (Z.to_nat a) result ++ map (fun j => if localise then j - a else j) sorted ++ skipn (Z.to_nat b) result))
    (iota length).

(* awkward_argsort<T> *)
Definition argsort (toptr fromptr : list Z) (length : Z) (offsets : list Z) (offsetslength : Z) (ascending stable : bool)
  : kres (list Z) :=
  let* result := sorted_index true fromptr length offsets offsetslength ascending in
  kfill 0 length (fun i => kget result i) toptr.

(* awkward_sort<T> *)
Definition sort (toptr fromptr : list Z) (length : Z) (offsets : list Z) (offsetslength parentslength : Z)
    (ascending stable : bool) : kres (list Z) :=
  let* index := sorted_index false fromptr length offsets offsetslength ascending in
  kfill 0 parentslength (fun i => let* ix := kget index i in kget fromptr ix) toptr.

(* awkward_ListOffsetArray_local_preparenext_64: argsort of fromindex (std::sort) *)
Definition ListOffsetArray_local_preparenext (tocarry fromindex : list Z) (length : Z) : kres (list Z) :=
  let* result := sort_segment Z.ltb fromindex (iota length) 0 (Z.max 0 length) in
  kfill 0 length (fun i => kget result i) tocarry.

(* byte strings: memcmp over the common prefix, then the shorter one first *)
Fixpoint bytes_lt (a b : list Z) : bool :=
  match a, b with
  | [], [] => false
  | [], _ :: _ => true
  | _ :: _, [] => false
  | x :: a', y :: b' => if x <? y then true else if y <? x then false else bytes_lt a' b'
  end.
Definition strings_lt (ascending : bool) : list Z -> list Z -> bool :=
  if ascending then bytes_lt else (fun l r => bytes_lt r l).
Definition kread_range (data : list Z) (a b : Z) : kres (list Z) := kmapM (fun j => kget data j) (range a b).

(* awkward_ListOffsetArray_argsort_strings: one sort per run of equal parents.  The strings of a group of at least
   two are read whole before sorting (the C comparator reads only the common prefix of each compared pair) *)
Definition argsort_strings_flush (tocarry stringdata stringstarts stringstops : list Z) (is_ascending is_local : bool)
    (index : list Z) (firstindex : Z) : kres (list Z) :=
  let* keyed := (if zlen index <? 2 then KOk (map (fun ix => ([], ix)) index)
                 else kmapM (fun ix =>
                        let* e := kget stringstops ix in
                        let* s := kget stringstarts ix in
                        let* str := kread_range stringdata s e in KOk (str, ix)) index) in
  let sorted := map snd (isort (fun p q : list Z * Z => strings_lt is_ascending (fst p) (fst q)) keyed) in
  kmap fst (kfor 0 (zlen sorted) (fun j st =>
    let '(out, l) := st in
    match l with
    | [] => KOob
    | ix :: l' => let* out' := kupd out (firstindex + j) (if is_local then ix - firstindex else ix) in KOk (out', l')
    end) (tocarry, sorted)).

Definition ListOffsetArray_argsort_strings (tocarry fromparents : list Z) (length : Z)
    (stringdata stringstarts stringstops : list Z) (is_stable is_ascending is_local : bool) : kres (list Z) :=
  let* r := kfor 0 (length + 1) (fun i st =>
    let '(out, index, firstindex, lastparent) := st in
    let* flush := (if i =? length then KOk true else let* p := kget fromparents i in KOk (negb (p =? lastparent))) in
    let* st1 := (if flush : bool then
                   let* out' := argsort_strings_flush out stringdata stringstarts stringstops is_ascending is_local
                                                      (rev index) firstindex in
                   KOk (out', [])
                 else KOk (out, index)) in
    let '(out1, index1) := st1 in
    if i =? length then KOk (out1, index1, firstindex, lastparent)
    else
      let* p := kget fromparents i in
      KOk (out1, i :: index1, (match index1 with [] => i | _ => firstindex end), p))
    (tocarry, [], 0, -1) in
  let '(out, _, _, _) := r in KOk out.

(* awkward_NumpyArray_sort_asstrings_uint8 *)
Definition NumpyArray_sort_asstrings_uint8 (toptr fromptr offsets : list Z) (offsetslength : Z) (outoffsets : list Z)
    (ascending stable : bool) : kres (list Z * list Z) :=
  let* words := kmapM (fun k =>
    let* start := kget offsets k in
    let* stop := kget offsets (k + 1) in
    kread_range fromptr start stop) (iota (offsetslength - 1)) in
  let sorted := isort (strings_lt ascending) words in
  let* tp := fold_left (fun acc w =>
    let* st := acc in
    fold_left (fun acc c => let* st := acc in kpush st c) w (KOk st)) sorted (KOk (toptr, 0)) in
  let* oo0 := kupd outoffsets 0 0 in
  let* oo := fold_left (fun acc w =>
    let* st := acc in
    let '(oo, o) := st in
    let* prev := kget oo (o - 1) in
    let* oo' := kupd oo o (prev + zlen w) in KOk (oo', o + 1)) sorted (KOk (oo0, 1)) in
  KOk (fst tp, fst oo).

(* awkward_NumpyArray_unique_strings_uint8: in-place compaction of toptr; outoffsets is not written *)
Definition NumpyArray_unique_strings (toptr offsets : list Z) (offsetslength : Z) (tolength : list Z)
  : kres (list Z * list Z) :=
  let* r := kfor 0 (offsetslength - 1) (fun i st =>
    let '(buf, slen, index, counter, start) := st in
    let* b := kget offsets (i + 1) in
    let* a := kget offsets i in
    let* differ :=
      (if negb (b - a =? slen) then KOk true
       else kmap fst (kfor a b (fun j s =>
              let '(differ, k) := s in
              let* x := kget buf (start + k) in
              let* y := kget buf j in
              KOk (if negb (x =? y) then true else differ, k + 1)) (false, 0))) in
    let* st1 :=
      (if differ : bool then
         let* r := kfor a b (fun j s =>
           let '(buf, index, _) := s in
           let* y := kget buf j in
           let* buf' := kupd buf index y in
           KOk (buf', index + 1, a)) (buf, index, start) in
         let '(buf', index', start') := r in
         KOk (buf', index', counter + 1, start')
       else KOk (buf, index, counter, start)) in
    let '(buf1, index1, counter1, start1) := st1 in
    KOk (buf1, b - a, index1, counter1, start1)) (toptr, 0, 0, 0, 0) in
  let '(buf, _, _, counter, _) := r in
  let* tl := kupd tolength 0 (counter + 1) in
  KOk (buf, tl).

(* ------------------------------------------------------------------------------------------------ *)
(** * quick sort (kernel-internal, deterministic): awkward_quick_sort / awkward_quick_argsort share the algorithm.
    [buf] is the permuted buffer (tmpptr, resp. toptr = positions), [keyof e] the key of a buffer element
    (the element itself, resp. fromptr[o + e]), [o] the offset of the segment, [beg]/[en] the explicit stack. *)
Definition xtest {A} (r : xres A) (f : A -> bool) : bool := match r with XOk a => f a | _ => true end.
Definition qs_key (keyof : Z -> xres Z) (buf : list Z) (p : Z) : xres Z := let+ e := xget buf p in keyof e.

Definition qs_partition (pred : Z -> Z -> bool) (keyof : Z -> xres Z) (o pkey : Z) (fuel : nat)
    (buf : list Z) (low high : Z) : xres (list Z * Z * Z) :=
  xwhile fuel (fun s : list Z * Z * Z => let '(_, low, high) := s in low <? high)
    (fun s => let '(buf, low, high) := s in
       (* while (pred(pivot, arr[high]) && low < high) high--; *)
       let+ high1 := xwhile fuel (fun h => xtest (qs_key keyof buf (o + h)) (fun x => pred pkey x && (low <? h)))
                       (fun h => let+ _ := qs_key keyof buf (o + h) in XOk (h - 1)) high in
       let+ s1 := (if low <? high1 then
                     let+ e := xget buf (o + high1) in
                     let+ buf' := xupd buf (o + low) e in XOk (buf', low + 1)
                   else XOk (buf, low)) in
       let '(buf1, low1) := s1 in
       (* while (pred(arr[low], pivot) && low < high) low++; *)
       let+ low2 := xwhile fuel (fun l => xtest (qs_key keyof buf1 (o + l)) (fun x => pred x pkey && (l <? high1)))
                      (fun l => let+ _ := qs_key keyof buf1 (o + l) in XOk (l + 1)) low1 in
       let+ s2 := (if low2 <? high1 then
                     let+ e := xget buf1 (o + low2) in
                     let+ buf' := xupd buf1 (o + high1) e in XOk (buf', high1 - 1)
                   else XOk (buf1, high1)) in
       XOk (fst s2, low2, snd s2))
    (buf, low, high).

(* returns the buffers and whether the stack limit was hit (C: return -1) *)
Definition qs_run (pred : Z -> Z -> bool) (keyof : Z -> xres Z) (o n maxlevels : Z) (buf beg en : list Z)
  : xres (list Z * list Z * list Z * bool) :=
  let fuel := S (Z.to_nat n) in
  let+ beg0 := xupd beg 0 0 in
  let+ en0 := xupd en 0 n in
  let+ r := xwhile (S (S (Nat.mul 2 (Z.to_nat n))))
    (fun s : list Z * list Z * list Z * Z * bool => let '(_, _, _, i, failed) := s in (0 <=? i) && negb failed)
    (fun s => let '(buf, beg, en, i, _) := s in
       let+ low := xget beg i in
       let+ high := xget en i in
       if 1 <? high - low then
         let mid := low + (high - low) / 2 in
         let+ pel := xget buf (o + mid) in
         let+ pkey := keyof pel in
         let+ e := xget buf (o + low) in
         let+ buf1 := xupd buf (o + mid) e in
         if i =? maxlevels - 1 then XOk (buf1, beg, en, i, true) else
         let+ r := qs_partition pred keyof o pkey fuel buf1 low (high - 1) in
         let '(buf2, low2, _) := r in
         let+ buf3 := xupd buf2 (o + low2) pel in
         let+ bi := xget beg i in
         let+ ei := xget en i in
         let+ low3 := xwhile fuel (fun l => (bi <? l) && xtest (xget buf3 (o + l - 1)) (fun x => x =? pel))
                        (fun l => let+ _ := xget buf3 (o + l - 1) in XOk (l - 1)) low2 in
         let+ mid3 := xwhile fuel (fun m => (m <? ei) && xtest (xget buf3 (o + m)) (fun x => x =? pel))
                        (fun m => let+ _ := xget buf3 (o + m) in XOk (m + 1)) (low2 + 1) in
         if ei - mid3 <? low3 - bi then
           let+ beg' := xupd beg (i + 1) mid3 in
           let+ en' := xupd en (i + 1) ei in
           let+ en'' := xupd en' i low3 in
           XOk (buf3, beg', en'', i + 1, false)
         else
           let+ beg' := xupd beg (i + 1) bi in
           let+ en' := xupd en (i + 1) low3 in
           let+ beg'' := xupd beg' i mid3 in
           XOk (buf3, beg'', en', i + 1, false)
       else XOk (buf, beg, en, i - 1, false))
    (buf, beg0, en0, 0, false) in
  let '(buf', beg', en', _, failed) := r in XOk (buf', beg', en', failed).

Definition qs_pred (ascending : bool) : Z -> Z -> bool := if ascending then Z.leb else (fun l r => r <=? l).

(* awkward_quick_sort<T> *)
Definition quick_sort (tmpptr tmpbeg tmpend fromstarts fromstops : list Z) (ascending : bool) (length maxlevels : Z)
  : xres (list Z * list Z * list Z) :=
  xfor 0 length (fun i st =>
    let '(buf, beg, en) := st in
    let+ a := xget fromstarts i in
    let+ b := xget fromstops i in
    let+ r := qs_run (qs_pred ascending) (fun x => XOk x) a (b - a) maxlevels buf beg en in
    let '(buf', beg', en', failed) := r in
    let+ _ := xcheck failed MFailedSort in
    XOk (buf', beg', en')) (tmpptr, tmpbeg, tmpend).

(* awkward_quick_argsort<T> *)
Definition quick_argsort (toptr fromptr : list Z) (length : Z) (tmpbeg tmpend offsets : list Z) (offsetslength : Z)
    (ascending stable : bool) (maxlevels : Z) : xres (list Z * list Z * list Z) :=
  let+ top0 := lift (kfor 0 (offsetslength - 1) (fun i out =>
    let* b := kget offsets (i + 1) in
    let* a := kget offsets i in
    kfor 0 (b - a) (fun j out => kupd out (a + j) j) out) toptr) in
  xfor 0 (offsetslength - 1) (fun i st =>
    let '(buf, beg, en) := st in
    let+ a := xget offsets i in
    let+ b := xget offsets (i + 1) in
    let+ r := qs_run (qs_pred ascending) (fun x => xget fromptr (a + x)) a (b - a) maxlevels buf beg en in
    let '(buf', beg', en', failed) := r in
    let+ _ := xcheck failed MFailedSort in
    XOk (buf', beg', en')) (top0, tmpbeg, tmpend).

(* ------------------------------------------------------------------------------------------------ *)
(** * Identities *)

(* awkward_Identities32_to_Identities64 *)
Definition Identities32_to_Identities64 (toptr fromptr : list Z) (length width : Z) : kres (list Z) :=
  kfill 0 (length * width) (fun i => kget fromptr i) toptr.

(* awkward_Identities_extend<ID> *)
Definition Identities_extend (tID : ity) (toptr fromptr : list Z) (fromlength tolength : Z) : kres (list Z) :=
  let* out := kfor 0 fromlength (fun i out => let* x := kget fromptr i in kupd out i x) toptr in
  kfor (Z.max 0 fromlength) tolength (fun i out => kupd out i (wrap tID (-1))) out.

(* awkward_Identities_from_IndexedArray<ID, T>; [done]: the early  *uniquecontents = false; return success() *)
Definition Identities_from_IndexedArray (tID : ity) (uniquecontents toptr fromptr fromindex : list Z)
    (tolength fromlength fromwidth : Z) : xres (list Z * list Z) :=
  let+ tp0 := lift (kfor 0 (tolength * fromwidth) (fun k tp => kupd tp k (wrap tID (-1))) toptr) in
  let+ r := xfor 0 fromlength (fun i st =>
    let '(uc, tp, done) := st in
    if done : bool then XOk st else
    let+ j := xget fromindex i in
    let+ _ := xcheck (tolength <=? j) MMaxIndexGtLen in
    if 0 <=? j then
      let+ x := xget tp (j * fromwidth) in
      if negb (x =? -1) then let+ uc' := xupd uc 0 0 in XOk (uc', tp, true)
      else
        let+ tp' := lift (kfor 0 fromwidth (fun k tp =>
          let* v := kget fromptr (i * fromwidth + k) in kupd tp (j * fromwidth + k) v) tp) in
        XOk (uc, tp', false)
    else XOk st) (uniquecontents, tp0, false) in
  let '(uc, tp, done) := r in
  if done : bool then XOk (uc, tp) else let+ uc' := xupd uc 0 1 in XOk (uc', tp).

(* awkward_Identities_from_ListArray<ID, T> *)
Definition Identities_from_ListArray (tID : ity) (uniquecontents toptr fromptr fromstarts fromstops : list Z)
    (tolength fromlength fromwidth : Z) : xres (list Z * list Z) :=
  let w1 := fromwidth + 1 in
  let+ tp0 := lift (kfor 0 (tolength * w1) (fun k tp => kupd tp k (wrap tID (-1))) toptr) in
  let+ r := xfor 0 fromlength (fun i st =>
    let '(uc, tp, done) := st in
    if done : bool then XOk st else
    let+ start := xget fromstarts i in
    let+ stop := xget fromstops i in
    let+ _ := xcheck (negb (start =? stop) && (tolength <? stop)) MMaxStopGtLen in
    xfor start stop (fun j st =>
      let '(uc, tp, done) := st in
      if done : bool then XOk st else
      let+ x := xget tp (j * w1 + fromwidth) in
      if negb (x =? -1) then let+ uc' := xupd uc 0 0 in XOk (uc', tp, true)
      else
        let+ tp' := lift (kfor 0 fromwidth (fun k tp =>
          let* v := kget fromptr (i * fromwidth + k) in kupd tp (j * w1 + k) v) tp) in
        let+ tp'' := xupd tp' (j * w1 + fromwidth) (wrap tID (j - start)) in
        XOk (uc, tp'', false)) st) (uniquecontents, tp0, false) in
  let '(uc, tp, done) := r in
  if done : bool then XOk (uc, tp) else let+ uc' := xupd uc 0 1 in XOk (uc', tp).

(* awkward_Identities_from_ListOffsetArray<ID, T> *)
Definition Identities_from_ListOffsetArray (tID : ity) (toptr fromptr fromoffsets : list Z)
    (tolength fromlength fromwidth : Z) : xres (list Z) :=
  let w1 := fromwidth + 1 in
  let+ globalstart := xget fromoffsets 0 in
  let+ globalstop := xget fromoffsets fromlength in
  let+ tp0 := lift (kfor 0 (globalstart * w1) (fun k tp => kupd tp k (wrap tID (-1))) toptr) in
  let+ tp1 := lift (kfor (globalstop * w1) (tolength * w1) (fun k tp => kupd tp k (wrap tID (-1))) tp0) in
  xfor 0 fromlength (fun i tp =>
    let+ start := xget fromoffsets i in
    let+ stop := xget fromoffsets (i + 1) in
    let+ _ := xcheck (negb (start =? stop) && (tolength <? stop)) MMaxStopGtLen in
    lift (kfor start stop (fun j tp =>
      let* tp' := kfor 0 fromwidth (fun k tp =>
        let* v := kget fromptr (i * fromwidth + k) in kupd tp (j * w1 + k) v) tp in
      kupd tp' (j * w1 + fromwidth) (wrap tID (j - start))) tp)) tp1.

(* awkward_Identities_from_RegularArray<ID> *)
Definition Identities_from_RegularArray (tID : ity) (toptr fromptr : list Z) (size tolength fromlength fromwidth : Z)
  : kres (list Z) :=
  let w1 := fromwidth + 1 in
  let* tp := kfor 0 fromlength (fun i tp =>
    kfor 0 size (fun j tp =>
      let* tp' := kfor 0 fromwidth (fun k tp =>
        let* v := kget fromptr (i * fromwidth + k) in kupd tp ((i * size + j) * w1 + k) v) tp in
      kupd tp' ((i * size + j) * w1 + fromwidth) (wrap tID j)) tp) toptr in
  kfor ((fromlength + 1) * size * w1) (tolength * w1) (fun k tp => kupd tp k (wrap tID (-1))) tp.

(* awkward_Identities_from_UnionArray<ID, T, I> *)
Definition Identities_from_UnionArray (tID : ity) (uniquecontents toptr fromptr fromtags fromindex : list Z)
    (tolength fromlength fromwidth which : Z) : xres (list Z * list Z) :=
  let+ tp0 := lift (kfor 0 (tolength * fromwidth) (fun k tp => kupd tp k (wrap tID (-1))) toptr) in
  let+ r := xfor 0 fromlength (fun i st =>
    let '(uc, tp, done) := st in
    if done : bool then XOk st else
    let+ tag := xget fromtags i in
    if tag =? which then
      let+ j := xget fromindex i in
      let+ _ := xcheck (tolength <=? j) MMaxIndexGtLen in
      let+ _ := xcheck (j <? 0) MMinIndexLt0 in
      let+ x := xget tp (j * fromwidth) in
      if negb (x =? -1) then let+ uc' := xupd uc 0 0 in XOk (uc', tp, true)
      else
        let+ tp' := lift (kfor 0 fromwidth (fun k tp =>
          let* v := kget fromptr (i * fromwidth + k) in kupd tp (j * fromwidth + k) v) tp) in
        XOk (uc, tp', false)
    else XOk st) (uniquecontents, tp0, false) in
  let '(uc, tp, done) := r in
  if done : bool then XOk (uc, tp) else let+ uc' := xupd uc 0 1 in XOk (uc', tp).

(* awkward_Identities_getitem_carry<ID, T> *)
Definition Identities_getitem_carry (newidentitiesptr identitiesptr carryptr : list Z) (lencarry width length : Z)
  : kres (list Z) :=
  kfor 0 lencarry (fun i out =>
    let* c := kget carryptr i in
    let* _ := kcheck (length <=? c) MIndexOutOfRange in
    kfor 0 width (fun j out =>
      let* v := kget identitiesptr (width * c + j) in kupd out (width * i + j) v) out) newidentitiesptr.

(* ------------------------------------------------------------------------------------------------ *)
(** * Uniform entry point for the runner *)
Inductive kname2 :=
| K2_ByteMaskedArray_getitem_carry | K2_ByteMaskedArray_mask | K2_ByteMaskedArray_numnull
| K2_ByteMaskedArray_overlay_mask | K2_ByteMaskedArray_reduce_next | K2_ByteMaskedArray_nextshifts
| K2_ByteMaskedArray_nextshifts_fromshifts | K2_IndexedArray_nextshifts | K2_IndexedArray_nextshifts_fromshifts
| K2_Content_getmaskstartstop | K2_MaskedArray_jagged_project | K2_Index_iscontiguous | K2_Index_to_Index64
| K2_IndexedArray_fill_count | K2_IndexedArray_getitem_adjust_outindex | K2_IndexedArray_getitem_carry
| K2_IndexedArray_mask | K2_IndexedArray_index_of_nulls | K2_IndexedArray_overlay_mask | K2_IndexedArray_reduce_next
| K2_IndexedArray_reduce_next_fix_offsets | K2_IndexedArray_simplify | K2_IndexedArray_ranges_next
| K2_IndexedArray_ranges_carry_next | K2_IndexedOptionArray_rpad_and_clip_mask_axis1 | K2_index_carry
| K2_index_carry_nocheck | K2_Index_nones_as_index | K2_carry_SliceMissing64_outindex | K2_missing_repeat
| K2_slicemissing_check_same | K2_one_mask | K2_zero_mask
| K2_jagged_apply | K2_jagged_carrylen | K2_jagged_descend | K2_jagged_expand | K2_jagged_numvalid | K2_jagged_shrink
| K2_adjust_offsets | K2_adjust_offsets_index | K2_reduce_global_startstop | K2_toRegularArray
| K2_RegularArray_jagged_expand | K2_SliceVarNewAxis | K2_SliceJagged64_offsets | K2_SliceJagged64_nextcarry
| K2_combinations
| K2_contiguous_copy_from_many | K2_contiguous_init | K2_contiguous_next | K2_fill_frombool | K2_fill_tobool
| K2_fill_scaled | K2_boolean_nonzero | K2_boolean_numtrue | K2_Numpy_next_array | K2_Numpy_next_array_advanced
| K2_Numpy_next_at | K2_Numpy_next_range | K2_Numpy_next_range_advanced | K2_reduce_adjust_starts
| K2_reduce_adjust_starts_shifts | K2_reduce_mask_ByteMaskedArray | K2_reduce_prod_int_bool | K2_slicearray_ravel
| K2_fillindex_count | K2_filltags_const | K2_flatten_length | K2_flatten_combine | K2_nestedfill_tags_index
| K2_project | K2_regular_index | K2_regular_index_getsize | K2_simplify | K2_simplify_one
| K2_argsort | K2_sort | K2_local_preparenext | K2_argsort_strings | K2_sort_asstrings | K2_unique_strings
| K2_quick_sort | K2_quick_argsort
| K2_Identities32_to_64 | K2_Identities_extend | K2_Identities_from_IndexedArray | K2_Identities_from_ListArray
| K2_Identities_from_ListOffsetArray | K2_Identities_from_RegularArray | K2_Identities_from_UnionArray
| K2_Identities_getitem_carry.

Definition o3 (r : kres (list Z * list Z * list Z)) : kres (list val) :=
  kmap (fun p => let '(a, b, c) := p in [VL a; VL b; VL c]) r.
Definition bad {A} : xres A := XErr (MOld MBadArgs).
(* [l1 r] etc.: results in [kres]; [x1 r] etc.: results in [xres] *)
Definition l0 (r : kres (list val)) : xres (list val) := lift r.
Definition x1 (r : xres (list Z)) : xres (list val) := xmap (fun a => [VL a]) r.
Definition x2 (r : xres (list Z * list Z)) : xres (list val) := xmap (fun p => [VL (fst p); VL (snd p)]) r.
Definition x3 (r : xres (list Z * list Z * list Z)) : xres (list val) :=
  xmap (fun p => let '(a, b, c) := p in [VL a; VL b; VL c]) r.

(** outputs = the [out] arguments and the non-const [in] arguments, in the order of the signature *)
Definition run2 (k : kname2) (ts : list ity) (a : list val) : xres (list val) :=
  match k with
  | K2_ByteMaskedArray_getitem_carry =>
      match a with [VL x; VL m; VI lm; VL c; VI lc] => l0 (o1 (ByteMaskedArray_getitem_carry x m lm c lc)) | _ => bad end
  | K2_ByteMaskedArray_mask =>
      match a with [VL x; VL m; VI n; VI vw] => l0 (o1 (ByteMaskedArray_mask x m n (vb vw))) | _ => bad end
  | K2_ByteMaskedArray_numnull =>
      match a with [VL x; VL m; VI n; VI vw] => l0 (o1 (ByteMaskedArray_numnull x m n (vb vw))) | _ => bad end
  | K2_ByteMaskedArray_overlay_mask =>
      match a with [VL x; VL t; VL m; VI n; VI vw] => l0 (o1 (ByteMaskedArray_overlay_mask x t m n (vb vw))) | _ => bad end
  | K2_ByteMaskedArray_reduce_next =>
      match a with [VL nc; VL np; VL oi; VL m; VL p; VI n; VI vw] =>
        l0 (o3 (ByteMaskedArray_reduce_next nc np oi m p n (vb vw))) | _ => bad end
  | K2_ByteMaskedArray_nextshifts =>
      match a with [VL x; VL m; VI n; VI vw] => l0 (o1 (ByteMaskedArray_reduce_next_nonlocal_nextshifts x m n (vb vw)))
      | _ => bad end
  | K2_ByteMaskedArray_nextshifts_fromshifts =>
      match a with [VL x; VL m; VI n; VI vw; VL sh] =>
        l0 (o1 (ByteMaskedArray_reduce_next_nonlocal_nextshifts_fromshifts x m n (vb vw) sh)) | _ => bad end
  | K2_IndexedArray_nextshifts =>
      match a with [VL x; VL ix; VI n] => l0 (o1 (IndexedArray_reduce_next_nonlocal_nextshifts x ix n)) | _ => bad end
  | K2_IndexedArray_nextshifts_fromshifts =>
      match a with [VL x; VL ix; VI n; VL sh] => l0 (o1 (IndexedArray_reduce_next_nonlocal_nextshifts_fromshifts x ix n sh))
      | _ => bad end
  | K2_Content_getmaskstartstop =>
      match a with [VL ix; VL off; VL mo; VL so; VL po; VI n] =>
        l0 (kmap (fun r => let '(a1, a2, a3) := r in [VL ix; VL off; VL a1; VL a2; VL a3])
                 (Content_getitem_next_missing_jagged_getmaskstartstop ix off mo so po n)) | _ => bad end
  | K2_MaskedArray_jagged_project =>
      match a with [VL ix; VL si; VL pi; VL so; VL po; VI n] =>
        l0 (kmap (fun r => [VL ix; VL si; VL pi; VL (fst r); VL (snd r)])
                 (MaskedArray_getitem_next_jagged_project ix si pi so po n)) | _ => bad end
  | K2_Index_iscontiguous =>
      match a with [VL r; VL ix; VI n] => l0 (o1 (Index_iscontiguous (ty ts 1) r ix n)) | _ => bad end
  | K2_Index_to_Index64 =>
      match a with [VL x; VL f; VI n] => l0 (o1 (Index_to_Index64 x f n)) | _ => bad end
  | K2_IndexedArray_fill_count =>
      match a with [VL x; VI off; VI n; VI base] => l0 (o1 (IndexedArray_fill_count (ty ts 0) x off n base)) | _ => bad end
  | K2_IndexedArray_getitem_adjust_outindex =>
      match a with [VL tm; VL ti; VL tn; VL ix; VI n; VL nz; VI nzl] =>
        l0 (o3 (IndexedArray_getitem_adjust_outindex tm ti tn ix n nz nzl)) | _ => bad end
  | K2_IndexedArray_getitem_carry =>
      match a with [VL x; VL ix; VL c; VI li; VI lc] => l0 (o1 (IndexedArray_getitem_carry (ty ts 0) x ix c li lc)) | _ => bad end
  | K2_IndexedArray_mask =>
      match a with [VL x; VL ix; VI n] => l0 (o1 (IndexedArray_mask x ix n)) | _ => bad end
  | K2_IndexedArray_index_of_nulls =>
      match a with [VL x; VL ix; VI n; VL p; VL st] => l0 (o1 (IndexedArray_index_of_nulls x ix n p st)) | _ => bad end
  | K2_IndexedArray_overlay_mask =>
      match a with [VL x; VL m; VL ix; VI n] => l0 (o1 (IndexedArray_overlay_mask (ty ts 0) x m ix n)) | _ => bad end
  | K2_IndexedArray_reduce_next =>
      match a with [VL nc; VL np; VL oi; VL ix; VL p; VI n] =>
        l0 (kmap (fun r => let '(a1, a2, a3) := r in [VL a1; VL a2; VL a3; VL p]) (IndexedArray_reduce_next nc np oi ix p n))
      | _ => bad end
  | K2_IndexedArray_reduce_next_fix_offsets =>
      match a with [VL x; VL st; VI sl; VI ol] => l0 (o1 (IndexedArray_reduce_next_fix_offsets x st sl ol)) | _ => bad end
  | K2_IndexedArray_simplify =>
      match a with [VL x; VL o; VI ol; VL i; VI il] => l0 (o1 (IndexedArray_simplify x o ol i il)) | _ => bad end
  | K2_IndexedArray_ranges_next =>
      match a with [VL ix; VL fs; VL fp; VI n; VL ts_; VL tp; VL tl] => l0 (o3 (IndexedArray_ranges_next ix fs fp n ts_ tp tl))
      | _ => bad end
  | K2_IndexedArray_ranges_carry_next =>
      match a with [VL ix; VL fs; VL fp; VI n; VL tc] => l0 (o1 (IndexedArray_ranges_carry_next ix fs fp n tc)) | _ => bad end
  | K2_IndexedOptionArray_rpad_and_clip_mask_axis1 =>
      match a with [VL x; VL m; VI n] => l0 (o1 (IndexedOptionArray_rpad_and_clip_mask_axis1 x m n)) | _ => bad end
  | K2_index_carry =>
      match a with [VL x; VL f; VL c; VI lf; VI n] => l0 (o1 (index_carry x f c lf n)) | _ => bad end
  | K2_index_carry_nocheck =>
      match a with [VL x; VL f; VL c; VI n] => l0 (o1 (index_carry_nocheck x f c n)) | _ => bad end
  | K2_Index_nones_as_index =>
      match a with [VL x; VI n] => l0 (o1 (Index_nones_as_index x n)) | _ => bad end
  | K2_carry_SliceMissing64_outindex =>
      match a with [VL x; VL f; VI n] => l0 (o1 (carry_SliceMissing64_outindex x f n)) | _ => bad end
  | K2_missing_repeat =>
      match a with [VL x; VL ix; VI il; VI rep; VI rs] => l0 (o1 (missing_repeat x ix il rep rs)) | _ => bad end
  | K2_slicemissing_check_same =>
      match a with [VL s; VL m; VL ix; VI n] => l0 (o1 (slicemissing_check_same s m ix n)) | _ => bad end
  | K2_one_mask => match a with [VL x; VI n] => l0 (o1 (const_mask 1 x n)) | _ => bad end
  | K2_zero_mask => match a with [VL x; VI n] => l0 (o1 (const_mask 0 x n)) | _ => bad end
  | K2_jagged_apply =>
      match a with [VL to; VL tc; VL ss; VL sp; VI sol; VL si; VI sil; VL fs; VL fp; VI cl] =>
        x2 (ListArray_getitem_jagged_apply to tc ss sp sol si sil fs fp cl) | _ => bad end
  | K2_jagged_carrylen =>
      match a with [VL x; VL ss; VL sp; VI n] => l0 (o1 (ListArray_getitem_jagged_carrylen x ss sp n)) | _ => bad end
  | K2_jagged_descend =>
      match a with [VL to; VL ss; VL sp; VI n; VL fs; VL fp] =>
        x1 (ListArray_getitem_jagged_descend (ty ts 4) to ss sp n fs fp) | _ => bad end
  | K2_jagged_expand =>
      match a with [VL ms; VL mp; VL so; VL tc; VL fs; VL fp; VI js; VI n] =>
        x3 (ListArray_getitem_jagged_expand ms mp so tc fs fp js n) | _ => bad end
  | K2_jagged_numvalid =>
      match a with [VL nv; VL ss; VL sp; VI n; VL ms; VI ml] => x1 (ListArray_getitem_jagged_numvalid nv ss sp n ms ml)
      | _ => bad end
  | K2_jagged_shrink =>
      match a with [VL tc; VL so; VL lo; VL ss; VL sp; VI n; VL ms] =>
        l0 (o3 (ListArray_getitem_jagged_shrink tc so lo ss sp n ms)) | _ => bad end
  | K2_adjust_offsets =>
      match a with [VL to; VL tn; VL fo; VI n; VL nz; VI nzl] =>
        l0 (o2 (ListOffsetArray_getitem_adjust_offsets to tn fo n nz nzl)) | _ => bad end
  | K2_adjust_offsets_index =>
      match a with [VL to; VL tn; VL fo; VI n; VL ix; VI il; VL nz; VI nzl; VL om; VI ml] =>
        l0 (o2 (ListOffsetArray_getitem_adjust_offsets_index to tn fo n ix il nz nzl om ml)) | _ => bad end
  | K2_reduce_global_startstop =>
      match a with [VL gs; VL gp; VL off; VI n] => l0 (o2 (ListOffsetArray_reduce_global_startstop gs gp off n)) | _ => bad end
  | K2_toRegularArray =>
      match a with [VL s; VL fo; VI ol] => x1 (ListOffsetArray_toRegularArray s fo ol) | _ => bad end
  | K2_RegularArray_jagged_expand =>
      match a with [VL ms; VL mp; VL so; VI rs; VI rl] => l0 (o2 (RegularArray_getitem_jagged_expand ms mp so rs rl)) | _ => bad end
  | K2_SliceVarNewAxis =>
      match a with [VL x; VL fo; VI n] => l0 (o1 (SliceVarNewAxis_to_SliceJagged64 x fo n)) | _ => bad end
  | K2_SliceJagged64_offsets =>
      match a with [VL x; VL fo; VL c; VI n] => l0 (o1 (carry_SliceJagged64_offsets x fo c n)) | _ => bad end
  | K2_SliceJagged64_nextcarry =>
      match a with [VL x; VL fo; VL c; VI n] => l0 (o1 (carry_SliceJagged64_nextcarry x fo c n)) | _ => bad end
  | K2_combinations =>
      match a with [VL x; VI n; VI r; VI sl] => x1 (combinations x n (vb r) sl) | _ => bad end
  | K2_contiguous_copy_from_many =>
      match a with [VL x; VLL fp; VL fl; VI n; VI st; VL pos] =>
        l0 (kmap (fun r => [VL r; VL fl]) (NumpyArray_contiguous_copy_from_many x fp fl n st pos)) | _ => bad end
  | K2_contiguous_init =>
      match a with [VL x; VI skip; VI st] => l0 (o1 (NumpyArray_contiguous_init x skip st)) | _ => bad end
  | K2_contiguous_next =>
      match a with [VL x; VL f; VI n; VI skip; VI st] => l0 (o1 (NumpyArray_contiguous_next x f n skip st)) | _ => bad end
  | K2_fill_frombool =>
      match a with [VL x; VI off; VL f; VI n] => l0 (o1 (NumpyArray_fill_frombool (ty ts 0) x off f n)) | _ => bad end
  | K2_fill_tobool =>
      match a with [VL x; VI off; VL f; VI n] => l0 (o1 (NumpyArray_fill_tobool x off f n)) | _ => bad end
  | K2_fill_scaled =>
      match a with [VL x; VI off; VL f; VI n; VI sc] => l0 (o1 (NumpyArray_fill_scaled (ty ts 0) x off f n sc)) | _ => bad end
  | K2_boolean_nonzero =>
      match a with [VL x; VL f; VI n; VI st] => l0 (o1 (NumpyArray_getitem_boolean_nonzero x f n st)) | _ => bad end
  | K2_boolean_numtrue =>
      match a with [VL x; VL f; VI n; VI st] => l0 (o1 (NumpyArray_getitem_boolean_numtrue x f n st)) | _ => bad end
  | K2_Numpy_next_array =>
      match a with [VL nc; VL na; VL c; VL f; VI lc; VI lf; VI skip] =>
        l0 (o2 (NumpyArray_getitem_next_array nc na c f lc lf skip)) | _ => bad end
  | K2_Numpy_next_array_advanced =>
      match a with [VL nc; VL c; VL ad; VL f; VI lc; VI skip] =>
        l0 (o1 (NumpyArray_getitem_next_array_advanced nc c ad f lc skip)) | _ => bad end
  | K2_Numpy_next_at =>
      match a with [VL nc; VL c; VI lc; VI skip; VI at_] => l0 (o1 (NumpyArray_getitem_next_at nc c lc skip at_)) | _ => bad end
  | K2_Numpy_next_range =>
      match a with [VL nc; VL c; VI lc; VI lh; VI skip; VI start; VI step] =>
        l0 (o1 (NumpyArray_getitem_next_range nc c lc lh skip start step)) | _ => bad end
  | K2_Numpy_next_range_advanced =>
      match a with [VL nc; VL na; VL c; VL ad; VI lc; VI lh; VI skip; VI start; VI step] =>
        l0 (o2 (NumpyArray_getitem_next_range_advanced nc na c ad lc lh skip start step)) | _ => bad end
  | K2_reduce_adjust_starts =>
      match a with [VL x; VI ol; VL p; VL st] => l0 (o1 (NumpyArray_reduce_adjust_starts x ol p st)) | _ => bad end
  | K2_reduce_adjust_starts_shifts =>
      match a with [VL x; VI ol; VL p; VL st; VL sh] => l0 (o1 (NumpyArray_reduce_adjust_starts_shifts x ol p st sh)) | _ => bad end
  | K2_reduce_mask_ByteMaskedArray =>
      match a with [VL x; VL p; VI lp; VI ol] => l0 (o1 (NumpyArray_reduce_mask_ByteMaskedArray x p lp ol)) | _ => bad end
  | K2_reduce_prod_int_bool =>
      match a with [VL x; VL f; VL p; VI lp; VI ol] => l0 (o1 (reduce_prod_int_bool (ty ts 0) x f p lp ol)) | _ => bad end
  | K2_slicearray_ravel =>
      match a with [VL x; VL f; VI nd; VL sh; VL st] => l0 (o1 (slicearray_ravel x f nd sh st)) | _ => bad end
  | K2_fillindex_count =>
      match a with [VL x; VI off; VI n] => l0 (o1 (UnionArray_fillindex_count (ty ts 0) x off n)) | _ => bad end
  | K2_filltags_const =>
      match a with [VL x; VI off; VI n; VI base] => l0 (o1 (UnionArray_filltags_const (ty ts 0) x off n base)) | _ => bad end
  | K2_flatten_length =>
      match a with [VL tl; VL tg; VL ix; VI n; VLL offs] =>
        l0 (kmap (fun r => [VL r; VLL offs]) (UnionArray_flatten_length tl tg ix n offs)) | _ => bad end
  | K2_flatten_combine =>
      match a with [VL tgs; VL ti; VL to; VL tg; VL ix; VI n; VLL offs] =>
        l0 (kmap (fun r => let '(a1, a2, a3) := r in [VL a1; VL a2; VL a3; VLL offs])
                 (UnionArray_flatten_combine tgs ti to tg ix n offs)) | _ => bad end
  | K2_nestedfill_tags_index =>
      match a with [VL tgs; VL ti; VL tms; VI tag; VL fc; VI n] =>
        l0 (o3 (UnionArray_nestedfill_tags_index (ty ts 1) tgs ti tms tag fc n)) | _ => bad end
  | K2_project =>
      match a with [VL lo; VL tc; VL tg; VL ix; VI n; VI w] => l0 (o2 (UnionArray_project lo tc tg ix n w)) | _ => bad end
  | K2_regular_index =>
      match a with [VL ti; VL cur; VI size; VL tg; VI n] => l0 (o2 (UnionArray_regular_index (ty ts 0) ti cur size tg n))
      | _ => bad end
  | K2_regular_index_getsize =>
      match a with [VL s; VL tg; VI n] => l0 (o1 (UnionArray_regular_index_getsize s tg n)) | _ => bad end
  | K2_simplify =>
      match a with [VL tgs; VL ti; VL ot; VL oi; VL it; VL ii; VI tw; VI iw; VI ow; VI n; VI base] =>
        l0 (o2 (UnionArray_simplify (ty ts 0) tgs ti ot oi it ii tw iw ow n base)) | _ => bad end
  | K2_simplify_one =>
      match a with [VL tgs; VL ti; VL ft; VL fi; VI tw; VI fw; VI n; VI base] =>
        l0 (o2 (UnionArray_simplify_one (ty ts 0) tgs ti ft fi tw fw n base)) | _ => bad end
  | K2_argsort =>
      match a with [VL x; VL f; VI n; VL off; VI ol; VI asc; VI stb] => l0 (o1 (argsort x f n off ol (vb asc) (vb stb))) | _ => bad end
  | K2_sort =>
      match a with [VL x; VL f; VI n; VL off; VI ol; VI pl; VI asc; VI stb] => l0 (o1 (sort x f n off ol pl (vb asc) (vb stb)))
      | _ => bad end
  | K2_local_preparenext =>
      match a with [VL x; VL f; VI n] => l0 (o1 (ListOffsetArray_local_preparenext x f n)) | _ => bad end
  | K2_argsort_strings =>
      match a with [VL x; VL p; VI n; VL sd; VL ss; VL sp; VI stb; VI asc; VI loc] =>
        l0 (o1 (ListOffsetArray_argsort_strings x p n sd ss sp (vb stb) (vb asc) (vb loc))) | _ => bad end
  | K2_sort_asstrings =>
      match a with [VL x; VL f; VL off; VI ol; VL oo; VI asc; VI stb] =>
        l0 (o2 (NumpyArray_sort_asstrings_uint8 x f off ol oo (vb asc) (vb stb))) | _ => bad end
  | K2_unique_strings =>
      match a with [VL x; VL off; VI ol; VL oo; VL tl] =>
        l0 (kmap (fun r => [VL (fst r); VL oo; VL (snd r)]) (NumpyArray_unique_strings x off ol tl)) | _ => bad end
  | K2_quick_sort =>
      match a with [VL x; VL tb; VL te; VL fs; VL fp; VI asc; VI n; VI ml] => x3 (quick_sort x tb te fs fp (vb asc) n ml) | _ => bad end
  | K2_quick_argsort =>
      match a with [VL x; VL f; VI n; VL tb; VL te; VL off; VI ol; VI asc; VI stb; VI ml] =>
        x3 (quick_argsort x f n tb te off ol (vb asc) (vb stb) ml) | _ => bad end
  | K2_Identities32_to_64 =>
      match a with [VL x; VL f; VI n; VI w] => l0 (o1 (Identities32_to_Identities64 x f n w)) | _ => bad end
  | K2_Identities_extend =>
      match a with [VL x; VL f; VI fl; VI tl] => l0 (o1 (Identities_extend (ty ts 0) x f fl tl)) | _ => bad end
  | K2_Identities_from_IndexedArray =>
      match a with [VL uc; VL x; VL f; VL ix; VI tl; VI fl; VI fw] =>
        x2 (Identities_from_IndexedArray (ty ts 1) uc x f ix tl fl fw) | _ => bad end
  | K2_Identities_from_ListArray =>
      match a with [VL uc; VL x; VL f; VL fs; VL fp; VI tl; VI fl; VI fw] =>
        x2 (Identities_from_ListArray (ty ts 1) uc x f fs fp tl fl fw) | _ => bad end
  | K2_Identities_from_ListOffsetArray =>
      match a with [VL x; VL f; VL fo; VI tl; VI fl; VI fw] =>
        x1 (Identities_from_ListOffsetArray (ty ts 0) x f fo tl fl fw) | _ => bad end
  | K2_Identities_from_RegularArray =>
      match a with [VL x; VL f; VI size; VI tl; VI fl; VI fw] =>
        l0 (o1 (Identities_from_RegularArray (ty ts 0) x f size tl fl fw)) | _ => bad end
  | K2_Identities_from_UnionArray =>
      match a with [VL uc; VL x; VL f; VL tg; VL ix; VI tl; VI fl; VI fw; VI w] =>
        x2 (Identities_from_UnionArray (ty ts 1) uc x f tg ix tl fl fw w) | _ => bad end
  | K2_Identities_getitem_carry =>
      match a with [VL x; VL f; VL c; VI lc; VI w; VI n] => l0 (o1 (Identities_getitem_carry x f c lc w n)) | _ => bad end
  end.
