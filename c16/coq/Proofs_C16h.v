(** C16 proofs, part 9: (1) the Form survives from_buffers(to_buffers c) — node classes, index widths, record keys
    and EVERY parameter (also the ones type_of does not show: __record__ names, parameters on non-list nodes) — for
    every layout and both variants; (2) on tight layouts (every node reaches exactly the whole of its content: what
    ak.packed produces before pickling) the round trip is the identity, buffers included. *)
From Coq Require Import ZArith List Bool Lia ZifyBool.
From AwkV Require Import Base Layout LayoutInd Valid Types Proofs_Lists Proofs_C11 Proofs_Typing Proofs_ToList Proofs_Carry.
From AwkBuffers Require Import Buffers Proofs_C16 Proofs_C16b Proofs_C16c Proofs_C16f Proofs_C16g.
Import ListNotations.
Open Scope Z_scope.

(* ================================================================================================================ *)
(** (1) the skeleton of a layout: everything but the buffers and lengths.  ByteMaskedArray and BitMaskedArray share
    one constructor: to_buffers writes a range-sliced BitMaskedArray as a ByteMaskedArray (valid_when is kept). *)
Inductive skel :=
| KNumpy (dt : dtype) (inner : list Z)
| KEmpty
| KListOffset (w : width) (k : skel)
| KListA (w : width) (k : skel)
| KRegular (size : Z) (k : skel)
| KIndexed (w : width) (k : skel)
| KIndexedOption (w : width) (k : skel)
| KMasked (valid_when : bool) (k : skel)
| KUnmasked (k : skel)
| KUnion (w : width) (ks : list skel)
| KRecord (keys : option (list name)) (ks : list skel)
| KPar (arr : option akind) (rn : option name) (k : skel).

Fixpoint skel_of (c : content) : skel :=
  match c with
  | Numpy dt shape _ => KNumpy dt (tl shape)
  | Empty => KEmpty
  | ListOffset w _ c' => KListOffset w (skel_of c')
  | ListA w _ _ c' => KListA w (skel_of c')
  | Regular c' size _ => KRegular size (skel_of c')
  | Indexed w _ c' => KIndexed w (skel_of c')
  | IndexedOption w _ c' => KIndexedOption w (skel_of c')
  | ByteMasked _ vw c' => KMasked vw (skel_of c')
  | BitMasked _ vw _ _ c' => KMasked vw (skel_of c')
  | Unmasked c' => KUnmasked (skel_of c')
  | Union w _ _ cs => KUnion w (map skel_of cs)
  | Record cs ks _ => KRecord ks (map skel_of cs)
  | Par a r c' => KPar a r (skel_of c')
  end.

Definition sk_at (c : content) : Prop :=
  forall t fixed len c', of_ftree fixed (to_ftree c t) len = Ok c' -> skel_of c' = skel_of c.

Lemma of_all_rec_sk fixed cs t len cs' : Forall sk_at cs ->
  of_all_rec fixed (to_ftree_all cs t) len = Ok cs' -> map skel_of cs' = map skel_of cs.
Proof.
  intros HF. revert cs'. induction HF as [|x xs Hx _ IH]; intros cs' H; cbn [to_ftree_all of_all_rec] in H.
  - injection H as <-. reflexivity.
  - apply bind_Ok in H as (c & Hc & H). apply bind_Ok in H as (cs0 & Hcs & H). injection H as <-.
    cbn [map]. rewrite (Hx t fixed len c Hc), (IH cs0 Hcs). reflexivity.
Qed.
Lemma of_all_un_sk fixed tg ix cs cs' : Forall sk_at cs -> forall i,
  of_all_un fixed tg ix (to_ftree_all cs None) i = Ok cs' -> map skel_of cs' = map skel_of cs.
Proof.
  intros HF. revert cs'. induction HF as [|x xs Hx _ IH]; intros cs' i H; cbn [to_ftree_all of_all_un] in H.
  - injection H as <-. reflexivity.
  - apply bind_Ok in H as (c & Hc & H). apply bind_Ok in H as (cs0 & Hcs & H). injection H as <-.
    cbn [map]. rewrite (Hx None fixed _ c Hc), (IH cs0 (i + 1) Hcs). reflexivity.
Qed.

Lemma of_to_skel c : sk_at c.
Proof.
  induction c using content_ind'; intros tr fixed len c' Q.
  - cbn [to_ftree of_ftree] in Q. ifs Q; injection Q as <-; reflexivity.
  - cbn [to_ftree of_ftree] in Q. ifs Q. injection Q as <-. reflexivity.
  - cbn [to_ftree of_ftree] in Q. ifs Q. apply bind_Ok in Q as (l & _ & Q). apply bind_Ok in Q as (c0 & Hc & Q). injection Q as <-.
    cbn [skel_of]. rewrite (IHc None fixed l c0 Hc). reflexivity.
  - cbn [to_ftree of_ftree] in Q. ifs Q. apply bind_Ok in Q as (c0 & Hc & Q). ifs Q. injection Q as <-.
    cbn [skel_of]. rewrite (IHc None fixed _ c0 Hc). reflexivity.
  - cbn [to_ftree of_ftree] in Q. apply bind_Ok in Q as (c0 & Hc & Q). ifs Q. injection Q as <-.
    cbn [skel_of]. rewrite (IHc _ fixed _ c0 Hc). reflexivity.
  - cbn [to_ftree of_ftree] in Q. ifs Q. apply bind_Ok in Q as (c0 & Hc & Q). injection Q as <-.
    cbn [skel_of]. rewrite (IHc None fixed _ c0 Hc). reflexivity.
  - cbn [to_ftree of_ftree] in Q. ifs Q. apply bind_Ok in Q as (c0 & Hc & Q). injection Q as <-.
    cbn [skel_of]. rewrite (IHc None fixed _ c0 Hc). reflexivity.
  - cbn [to_ftree of_ftree] in Q. ifs Q. apply bind_Ok in Q as (c0 & Hc & Q). ifs Q. injection Q as <-.
    cbn [skel_of]. rewrite (IHc tr fixed _ c0 Hc). reflexivity.
  - destruct tr as [k|]; cbn [to_ftree of_ftree] in Q.
    + ifs Q. apply bind_Ok in Q as (c0 & Hc & Q). ifs Q. injection Q as <-.
      cbn [skel_of]. rewrite (IHc (Some k) fixed _ c0 Hc). reflexivity.
    + apply bind_Ok in Q as (c0 & Hc & Q). ifs Q. injection Q as <-.
      cbn [skel_of]. rewrite (IHc None fixed _ c0 Hc). reflexivity.
  - cbn [to_ftree of_ftree] in Q. apply bind_Ok in Q as (c0 & Hc & Q). injection Q as <-.
    cbn [skel_of]. rewrite (IHc tr fixed _ c0 Hc). reflexivity.
  - rewrite to_ftree_Union, of_ftree_Union in Q. ifs Q. cbv zeta in Q. apply bind_Ok in Q as (cs' & Hcs & Q). ifs Q. injection Q as <-.
    cbn [skel_of]. f_equal. exact (of_all_un_sk fixed _ _ cs cs' H 0 Hcs).
  - rewrite to_ftree_Record, of_ftree_Record in Q. apply bind_Ok in Q as (cs' & Hcs & Q).
    pose proof (of_all_rec_sk fixed cs _ len cs' H Hcs) as E.
    destruct cs' as [|c0 rest]; ifs Q; injection Q as <-; cbn [skel_of]; rewrite <- E; reflexivity.
  - cbn [to_ftree of_ftree] in Q. apply bind_Ok in Q as (c0 & Hc & Q). injection Q as <-.
    cbn [skel_of]. rewrite (IHc tr fixed _ c0 Hc). reflexivity.
Qed.

(** the Form (node classes, widths, sizes, keys, parameters) of from_buffers(to_buffers c) is the Form of c: any
    layout, valid or not, both variants *)
Theorem from_buffers_skeleton_thm fixed c c' : from_buffers_gen fixed (to_buffers c) = Ok c' -> skel_of c' = skel_of c.
Proof. rewrite from_buffers_is_of_ftree. apply of_to_skel. Qed.

(* the parameters alone, in pre-order *)
Fixpoint params_of (k : skel) : list (option akind * option name) :=
  match k with
  | KNumpy _ _ | KEmpty => []
  | KListOffset _ k' | KListA _ k' | KRegular _ k' | KIndexed _ k' | KIndexedOption _ k' | KMasked _ k' | KUnmasked k' => params_of k'
  | KUnion _ ks | KRecord _ ks =>
      (fix all (l : list skel) : list (option akind * option name) := match l with [] => [] | x :: xs => params_of x ++ all xs end) ks
  | KPar a r k' => (a, r) :: params_of k'
  end.
Corollary from_buffers_parameters_thm fixed c c' :
  from_buffers_gen fixed (to_buffers c) = Ok c' -> params_of (skel_of c') = params_of (skel_of c).
Proof. intros H. rewrite (from_buffers_skeleton_thm fixed c c' H). reflexivity. Qed.

Example from_buffers_skeleton_ex :
  (* a record name on a RecordArray below an option, a name parameter on an IndexedArray: invisible in type_of *)
  let c := ListOffset I64 [0; 2; 3]
             (Par None (Some [80; 116]) (Record [Par None (Some [67; 97; 116]) (Indexed I32 [1; 0; 1; 1] (Numpy DFloat64 [2] [DZ 1; DZ 2]));
                                                  BitMasked [5] true true 4 N5] (Some [[120]; [121]]) 4)) in
  validb None c = true /\
  exists c', from_buffers (to_buffers c) = Ok c' /\ c' <> c /\ skel_of c' = skel_of c /\
             params_of (skel_of c') = [(None, Some [80; 116]); (None, Some [67; 97; 116])] /\ to_list c' = to_list c.
Proof.
  cbv zeta. split; [vm_compute; reflexivity|]. eexists. split; [vm_compute; reflexivity|]. split; [discriminate|].
  split; [vm_compute; reflexivity|]. split; vm_compute; reflexivity.
Qed.

(* ================================================================================================================ *)
(** (2) tight layouts *)
Definition need_ix (ix : list Z) : Z := match ix with [] => 0 | _ => max_or0 ix + 1 end.
Definition need_ixo (ix : list Z) : Z := match ix with [] => 0 | _ => Z.max 0 (max_or0 ix + 1) end.
Definition need_un (tg ix : list Z) (i : Z) : Z := match mine tg ix i with [] => 0 | l' => max_or0 l' + 1 end.

(* [sl]: the node sits where to_buffers range-slices (see fragG); a BitMaskedArray there is written as a
   ByteMaskedArray, so it cannot come back identical *)
Fixpoint tightS (sl : bool) (c : content) {struct c} : bool :=
  match c with
  | Numpy _ shape data =>
      match shape with [] => false | n :: dims => forallb (fun d => 0 <=? d) dims && (zlen data =? prodZ shape) && (0 <=? n) end
  | Empty => true
  | ListOffset _ o c' => tightS false c' && (1 <=? zlen o) && (last o 0 =? clen c')
  | ListA _ s e c' => tightS false c' && (zlen s =? zlen e) && (max_or0 (live_stops s e) =? clen c')
  | Regular c' size zl =>
      (0 <=? size) && tightS sl c' && (clen c' =? clen c * size) && (zl =? clen c)   (* zeros_length is canonical *)
  | Indexed _ ix c' => tightS false c' && (need_ix ix =? clen c')
  | IndexedOption _ ix c' => tightS false c' && (need_ixo ix =? clen c')
  | ByteMasked m _ c' => tightS sl c' && (zlen m =? clen c')
  | BitMasked m _ _ n c' => negb sl && tightS false c' && (n =? clen c') && (n <=? zlen m * 8)
  | Unmasked c' | Par _ _ c' => tightS sl c'
  | Union _ tg ix cs =>
      (zlen tg =? zlen ix) &&
      (fix all (l : list content) (i : Z) : bool :=
         match l with [] => true | x :: xs => tightS false x && (need_un tg ix i =? clen x) && all xs (i + 1) end) cs 0
  | Record cs ks n =>
      (0 <=? n) &&
      (fix all (l : list content) : bool :=
         match l with [] => true | x :: xs => tightS (sl || keyed ks) x && (clen x =? n) && all xs end) cs
  end.

Fixpoint tight_un (tg ix : list Z) (l : list content) (i : Z) : bool :=
  match l with [] => true | x :: xs => tightS false x && (need_un tg ix i =? clen x) && tight_un tg ix xs (i + 1) end.
Lemma tightS_Union sl w tg ix cs : tightS sl (Union w tg ix cs) = (zlen tg =? zlen ix) && tight_un tg ix cs 0.
Proof.
  cbn [tightS]. f_equal. generalize 0. induction cs as [|x xs IH]; intros i; [reflexivity|]. cbn [tight_un]. rewrite <- IH. reflexivity.
Qed.
Lemma tightS_Record sl cs ks n :
  tightS sl (Record cs ks n) = (0 <=? n) && forallb (fun x => tightS (sl || keyed ks) x && (clen x =? n)) cs.
Proof. cbn [tightS]. f_equal. Qed.

Definition tight_at (c : content) : Prop :=
  forall sl t fixed, tightS sl c = true -> (t = None \/ (sl = true /\ t = Some (clen c))) ->
  of_ftree fixed (to_ftree c t) (clen c) = Ok c.

Lemma trim_id {A} t (l : list A) n : (t = None \/ t = Some n) -> zlen l <= n -> trim t l = l.
Proof. intros [->| ->] H; [reflexivity|]. cbn [trim]. apply take_all. exact H. Qed.

Lemma tight_all c : tight_at c.
Proof.
  induction c as [dt shape data| |w o c IHc|w s e c IHc|c size zl IHc|w ix c IHc|w ix c IHc|m vw c IHc|m vw lsb n c IHc|c IHc|w tg ix cs H|cs ks n H|a r c IHc] using content_ind'; intros sl t fixed Ht Htr.
  - (* Numpy *)
    cbn [tightS] in Ht. destruct shape as [|n dims]; [discriminate Ht|].
    apply andb_true_iff in Ht as [Ht Hn]. apply andb_true_iff in Ht as [Hd Hz].
    assert (Hd0 : Forall (fun d => 0 <= d) dims).
    { apply Forall_forall. intros d Hin. rewrite forallb_forall in Hd. specialize (Hd d Hin). lia. }
    pose proof (prodZ_nonneg dims Hd0) as Hp0. rewrite prodZ_cons in Hz.
    assert (Er : match t with None => n | Some k => k end = n) by (destruct Htr as [->|[_ ->]]; reflexivity).
    cbn [to_ftree of_ftree tl clen]. rewrite Er. rewrite (take_all data) by lia.
    destruct (prodZ dims =? 0) eqn:Ez.
    + assert (data = []) by (apply zlen_0_nil; nia). subst data. reflexivity.
    + rewrite (Forall_nonneg_existsb dims Hd0). replace (zlen data) with (n * prodZ dims) by lia.
      rewrite Z.div_mul, Z.mod_mul by lia. replace (n <? n) with false by lia. cbn [negb Z.eqb]. reflexivity.
  - reflexivity.
  - (* ListOffset *)
    cbn [tightS] in Ht. apply andb_true_iff in Ht as [Ht Hl]. apply andb_true_iff in Ht as [Hc Ho].
    assert (Hne : o <> []) by (intros ->; cbn in Ho; lia).
    assert (Eo : trim1 t o = o).
    { destruct Htr as [->|[_ ->]]; [reflexivity|]. cbn [trim1 clen]. apply take_all. lia. }
    cbn [to_ftree of_ftree clen]. rewrite Eo. replace (zlen o - 1 <? zlen o - 1) with false by lia.
    rewrite (last_z_last o 0 Hne). cbn [bind]. replace (last o 0) with (clen c) by lia.
    rewrite (IHc false None fixed Hc (or_introl eq_refl)). reflexivity.
  - (* ListA *)
    cbn [tightS] in Ht. apply andb_true_iff in Ht as [Ht Hl]. apply andb_true_iff in Ht as [Hc Hse].
    assert (Es : trim t s = s) by (apply (trim_id t s (zlen s)); [destruct Htr as [->|[_ ->]]; auto|lia]).
    assert (Ee : trim t e = e) by (apply (trim_id t e (zlen s)); [destruct Htr as [->|[_ ->]]; auto|lia]).
    cbn [to_ftree of_ftree clen]. rewrite Es, Ee. replace (zlen s <? zlen s) with false by lia.
    replace (zlen e <? zlen s) with false by lia.
    replace (if fixed then zlen s else zlen s) with (zlen s) by (destruct fixed; reflexivity).
    rewrite (take_all s) by lia. rewrite (take_all e) by lia. replace (max_or0 (live_stops s e)) with (clen c) by lia.
    rewrite (IHc false None fixed Hc (or_introl eq_refl)). reflexivity.
  - (* Regular *)
    cbn [tightS] in Ht. apply andb_true_iff in Ht as [Ht Hzl]. apply andb_true_iff in Ht as [Ht Hcl]. apply andb_true_iff in Ht as [Hs Hc].
    set (L := clen (Regular c size zl)) in *.
    assert (Etc : tmul t size = None \/ (sl = true /\ tmul t size = Some (clen c))).
    { destruct Htr as [->|[Hsl ->]]; [left; reflexivity|right]. split; [exact Hsl|]. cbn [tmul]. f_equal. lia. }
    cbn [to_ftree of_ftree]. replace (L * size) with (clen c) by lia.
    rewrite (IHc sl _ fixed Hc Etc). cbn [bind]. replace (size <? 0) with false by lia. f_equal. f_equal. lia.
  - (* Indexed *)
    cbn [tightS] in Ht. apply andb_true_iff in Ht as [Hc Hn].
    assert (Ei : trim t ix = ix) by (apply (trim_id t ix (zlen ix)); [destruct Htr as [->|[_ ->]]; auto|lia]).
    cbn [to_ftree of_ftree clen]. rewrite Ei. replace (zlen ix <? zlen ix) with false by lia.
    fold (need_ix ix). replace (need_ix ix) with (clen c) by lia.
    rewrite (IHc false None fixed Hc (or_introl eq_refl)). reflexivity.
  - (* IndexedOption *)
    cbn [tightS] in Ht. apply andb_true_iff in Ht as [Hc Hn].
    assert (Ei : trim t ix = ix) by (apply (trim_id t ix (zlen ix)); [destruct Htr as [->|[_ ->]]; auto|lia]).
    cbn [to_ftree of_ftree clen]. rewrite Ei. replace (zlen ix <? zlen ix) with false by lia.
    fold (need_ixo ix). replace (need_ixo ix) with (clen c) by lia.
    rewrite (IHc false None fixed Hc (or_introl eq_refl)). reflexivity.
  - (* ByteMasked *)
    cbn [tightS] in Ht. apply andb_true_iff in Ht as [Hc Hm].
    assert (Em : trim t m = m) by (apply (trim_id t m (zlen m)); [destruct Htr as [->|[_ ->]]; auto|lia]).
    assert (Etc : t = None \/ (sl = true /\ t = Some (clen c))).
    { destruct Htr as [->|[Hsl ->]]; [left; reflexivity|right]. split; [exact Hsl|]. cbn [clen]. f_equal. lia. }
    cbn [to_ftree of_ftree clen]. rewrite Em. replace (zlen m <? zlen m) with false by lia.
    replace (if fixed then zlen m else zlen m) with (clen c) by (destruct fixed; lia).
    rewrite (IHc sl t fixed Hc Etc). cbn [bind]. replace (clen c <? zlen m) with false by lia. reflexivity.
  - (* BitMasked *)
    cbn [tightS] in Ht. apply andb_true_iff in Ht as [Ht Hnm]. apply andb_true_iff in Ht as [Ht Hn]. apply andb_true_iff in Ht as [Hsl Hc].
    destruct Htr as [->|[Hsl' _]]; [|rewrite Hsl' in Hsl; discriminate Hsl].
    cbn [to_ftree of_ftree clen]. replace n with (clen c) at 1 by lia.
    rewrite (IHc false None fixed Hc (or_introl eq_refl)). cbn [bind].
    replace (zlen m * 8 <? n) with false by lia. replace (clen c <? n) with false by lia. reflexivity.
  - (* Unmasked *)
    cbn [tightS] in Ht. cbn [to_ftree of_ftree clen]. cbn [clen] in Htr. rewrite (IHc sl t fixed Ht Htr). reflexivity.
  - (* Union *)
    rewrite tightS_Union in Ht. apply andb_true_iff in Ht as [Hl Hcs].
    assert (Etg : trim t tg = tg) by (apply (trim_id t tg (zlen tg)); [destruct Htr as [->|[_ ->]]; auto|lia]).
    assert (Eix : trim t ix = ix) by (apply (trim_id t ix (zlen tg)); [destruct Htr as [->|[_ ->]]; auto|lia]).
    rewrite to_ftree_Union, of_ftree_Union, Etg, Eix. cbn [clen].
    replace (zlen tg <? zlen tg) with false by lia. replace (zlen ix <? zlen tg) with false by lia. cbv zeta.
    replace (if fixed then zlen tg else zlen tg) with (zlen tg) by (destruct fixed; reflexivity).
    rewrite (take_all tg) by lia. rewrite (take_all ix) by lia.
    assert (E : forall i, tight_un tg ix cs i = true -> of_all_un fixed tg ix (to_ftree_all cs None) i = Ok cs).
    { clear - H. induction H as [|x xs Hx _ IH]; intros i Hu; [reflexivity|]. cbn [tight_un] in Hu.
      apply andb_true_iff in Hu as [Hu Hxs]. apply andb_true_iff in Hu as [Hxt Hxn].
      cbn [to_ftree_all of_all_un]. fold (need_un tg ix i). replace (need_un tg ix i) with (clen x) by lia.
      rewrite (Hx false None fixed Hxt (or_introl eq_refl)). cbn [bind]. rewrite (IH _ Hxs). reflexivity. }
    rewrite (E 0 Hcs). reflexivity.
  - (* Record *)
    rewrite tightS_Record in Ht. apply andb_true_iff in Ht as [Hn Hcs].
    rewrite to_ftree_Record, of_ftree_Record. cbn [clen].
    set (t' := rec_trim ks n t).
    assert (Ht' : forall x, clen x = n -> t' = None \/ (sl || keyed ks = true /\ t' = Some (clen x))).
    { intros x Hx. unfold t', rec_trim. destruct ks as [k0|].
      - right. split; [cbn [keyed]; apply orb_true_r|]. destruct Htr as [->|[_ ->]]; cbn [clen]; f_equal; lia.
      - left. destruct Htr as [->|[_ ->]]; [reflexivity|]. cbn [clen]. rewrite Z.eqb_refl. reflexivity. }
    assert (E : of_all_rec fixed (to_ftree_all cs t') n = Ok cs /\ Forall (fun x => clen x = n) cs).
    { clear - H Hcs Ht'. induction H as [|x xs Hx _ IH]; [split; [reflexivity|constructor]|]. cbn [forallb] in Hcs.
      apply andb_true_iff in Hcs as [Hu Hxs]. apply andb_true_iff in Hu as [Hxt Hxn].
      destruct (IH Hxs) as [E1 E2]. cbn [to_ftree_all of_all_rec]. assert (Hxc : clen x = n) by lia.
      pose proof (Hx _ t' fixed Hxt (Ht' x Hxc)) as Hof. rewrite Hxc in Hof. rewrite Hof. cbn [bind]. rewrite E1.
      split; [reflexivity|constructor; assumption]. }
    destruct E as [E HF]. rewrite E. cbn [bind].
    destruct cs as [|c0 rest]; [replace (n <? 0) with false by lia; reflexivity|].
    inversion HF as [|? ? Hc0 Hrest]; subst.
    assert (Hmin : clen c0 <= min_list (clen c0) (map clen rest)).
    { apply min_list_ge; [lia|]. apply Forall_forall. intros z Hz. apply in_map_iff in Hz as (y & <- & Hy).
      rewrite Forall_forall in Hrest. rewrite (Hrest y Hy). lia. }
    replace (min_list (clen c0) (map clen rest) <? clen c0) with false by lia. replace (clen c0 <? 0) with false by lia. reflexivity.
  - (* Par *)
    cbn [tightS] in Ht. cbn [to_ftree of_ftree clen]. cbn [clen] in Htr. rewrite (IHc sl t fixed Ht Htr). reflexivity.
Qed.

(** on tight layouts from_buffers(to_buffers c) IS c: same node classes, widths, parameters, keys, lengths and
    buffers — for the pinned code and for the repair alike; no validity hypothesis is needed *)
Theorem buffers_roundtrip_identity_thm fixed c : tightS false c = true -> from_buffers_gen fixed (to_buffers c) = Ok c.
Proof. intros Ht. rewrite from_buffers_is_of_ftree. exact (tight_all c false None fixed Ht (or_introl eq_refl)). Qed.

Example buffers_roundtrip_identity_ex :
  (* strings, an option-type record, lists of lists, a union of records and numbers, a bit mask, zero-size items, parameters *)
  let str := Par (Some AString) None (ListOffset I64 [0; 2; 2; 3] (Par (Some AChar) None (Numpy DUInt8 [3] [DZ 104; DZ 105; DZ 33]))) in
  let rec := Par None (Some [80]) (Record [Numpy DInt64 [3] [DZ 1; DZ 2; DZ 3]; str] (Some [[120]; [121]]) 3) in
  let c := Record [ByteMasked [1; 0; 1] true rec;
                   ListOffset I32 [0; 1; 1; 2] (ListA I64 [0; 1] [1; 3] (Numpy DFloat64 [3] [DZ 1; DNaN; DZ 3]));
                   Union I32 [0; 1; 0] [1; 0; 0] [Record [Numpy DBool [2] [DZ 1; DZ 0]] None 2; Numpy DInt8 [1; 2] [DZ 7; DZ 8]];
                   BitMasked [5] true true 3 (Regular (Numpy DInt16 [6] [DZ 1; DZ 2; DZ 3; DZ 4; DZ 5; DZ 6]) 2 3);
                   IndexedOption I64 [1; -1; 0] (Numpy DInt64 [2; 0] [])]
                  None 3 in
  validb None c = true /\ tightS false c = true /\ from_buffers (to_buffers c) = Ok c /\ from_buffers_gen true (to_buffers c) = Ok c /\
  exists vs, to_list c = Ok vs.
Proof.
  cbv zeta. split; [vm_compute; reflexivity|]. split; [vm_compute; reflexivity|]. split; [vm_compute; reflexivity|].
  split; [vm_compute; reflexivity|]. eexists. vm_compute. reflexivity.
Qed.
