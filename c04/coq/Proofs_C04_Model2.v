(** C04 — model = specification, part 2: which branch of [apply] two fragment inputs take; the option step. *)
From AwkV Require Import LayoutInd Proofs_Lists Proofs_ToList Proofs_Typing Proofs_Carry Proofs_AtAxisOps Proofs_C05.
From AwkBroadcast Require Import Broadcast Proofs_C04 Proofs_C04_Model1.
From Coq Require Import Lia ZifyBool.

(* ------------------------------------------------------------------ dispatch on two fragment inputs *)
Definition agrees (m s : res (list value)) : Prop :=
  match s with Ok out => m = Ok out | Err e => e = EValue /\ m = Err EValue end.
Definition obs (r : res content) : res (list value) := do c <- r; to_list c.
(* the same on the model's result itself: when the specification gives values, the model returns a layout with these
   values; when the specification refuses, the model's own computation fails with a value error (it never returns an
   ill-formed layout) *)
Definition agrees_c (m : res content) (s : res (list value)) : Prop :=
  match s with
  | Ok ys => exists out, m = Ok out /\ to_list out = Ok ys
  | Err e => e = EValue /\ m = Err EValue
  end.
Lemma agrees_c_obs m s : agrees_c m s -> agrees (obs m) s.
Proof.
  destruct s as [ys|e]; cbn [agrees_c agrees].
  - intros (out & -> & Ho). exact Ho.
  - intros [-> ->]. split; reflexivity.
Qed.

Lemma to_nparr_jag c vs : jag c = true -> to_list c = Ok vs ->
  exists r, to_nparr (MC c) = Ok r /\ (is_numpy_node c = false -> r = None).
Proof.
  intros Hj Hl. destruct (is_numpy_node c) eqn:Hn.
  - destruct c; try discriminate. destruct shape as [|n [|d ds]]; try discriminate.
    destruct (to_list_numpy1 _ _ _ _ Hl) as (_ & Hd & _). cbn [jag] in Hj.
    rewrite (to_nparr_jag_numpy dt n data Hj Hd). eexists. split; [reflexivity|discriminate].
  - rewrite (to_nparr_jag_other c Hj Hn). exists None. auto.
Qed.

Lemma getfunction_none op c1 c2 vs1 vs2 :
  jag c1 = true -> jag c2 = true -> to_list c1 = Ok vs1 -> to_list c2 = Ok vs2 ->
  is_numpy_node c1 && is_numpy_node c2 = false ->
  getfunction op None [MC c1; MC c2] = Ok None.
Proof.
  intros H1 H2 L1 L2 Hn. unfold getfunction. cbn [mapM].
  destruct (to_nparr_jag c1 vs1 H1 L1) as (r1 & E1 & N1). destruct (to_nparr_jag c2 vs2 H2 L2) as (r2 & E2 & N2).
  rewrite E1, E2. cbn [bind].
  destruct (is_numpy_node c1) eqn:A1.
  - cbn [andb] in Hn. rewrite (N2 Hn). cbn [all_somes]. now destruct r1.
  - rewrite (N1 eq_refl). reflexivity.
Qed.

Lemma dispatch_nonleaf op rec c1 c2 vs1 vs2 :
  jag c1 = true -> jag c2 = true -> to_list c1 = Ok vs1 -> to_list c2 = Ok vs2 -> zlen vs1 = zlen vs2 ->
  is_numpy_node c1 && is_numpy_node c2 = false ->
  dispatch op None rec [MC c1; MC c2] =
  if is_option_node c1 || is_option_node c2 then opt_branch rec [MC c1; MC c2] else list_branch rec [MC c1; MC c2].
Proof.
  intros H1 H2 L1 L2 Hz Hn. unfold dispatch. cbn [contents_of flat_map app].
  pose proof (jag_rcond c1 c2 H1 H2) as Hr. cbv zeta in Hr. cbv zeta. rewrite Hr.
  unfold checklength, all_eq. cbn [map forallb].
  rewrite <- (to_list_len _ _ L1), <- (to_list_len _ _ L2), Hz, Z.eqb_refl. cbn [andb negb].
  rewrite (getfunction_none op c1 c2 vs1 vs2 H1 H2 L1 L2 Hn). cbn [bind].
  destruct (jag_nodes c1 H1) as (A1 & A2 & A3 & A4 & A5 & A6 & _ & T1).
  destruct (jag_nodes c2 H2) as (B1 & B2 & B3 & B4 & B5 & B6 & _ & T2).
  cbn [existsb]. rewrite A1, A2, A3, A4, B1, B2, B3, B4. cbn [orb].
  rewrite orb_false_r. destruct (is_option_node c1 || is_option_node c2) eqn:Eo; [reflexivity|].
  apply orb_false_elim in Eo as [O1 O2].
  assert (Hl : is_list_node c1 || (is_list_node c2 || false) = true).
  { rewrite orb_false_r. destruct T1 as [T|[T|T]]; destruct T2 as [T'|[T'|T']]; try congruence.
    - rewrite T, T' in Hn. discriminate.
    - rewrite T'. now rewrite orb_true_r.
    - now rewrite T.
    - now rewrite T. }
  now rewrite Hl.
Qed.

(* ------------------------------------------------------------------ the option step *)
Definition step_ok op (rec : list minput -> res content) (fuel : nat) (bound : nat) : Prop :=
  forall n1 n2 ws1 ws2,
    jag n1 = true -> jag n2 = true -> to_list n1 = Ok ws1 -> to_list n2 = Ok ws2 -> zlen ws1 = zlen ws2 ->
    (csize n1 + csize n2 < bound)%nat ->
    agrees_c (rec [MC n1; MC n2]) (mapM (spec_v op false fuel) (rows2 (type_of n1) (type_of n2) ws1 ws2)) /\
    (forall out, rec [MC n1; MC n2] = Ok out -> jag out = true /\ is_option_node out = is_option_node n1 || is_option_node n2).

Lemma sub_or_l a : forall b, length a = length b ->
  Forall2 (fun (x : bool) (m : bool) => x = true -> m = true) a (or_masks a b).
Proof. induction a as [|x a IH]; intros [|y b] H; try discriminate; constructor; [now intros ->|apply IH; cbn in H; lia]. Qed.
Lemma sub_or_r a : forall b, length a = length b ->
  Forall2 (fun (x : bool) (m : bool) => x = true -> m = true) b (or_masks a b).
Proof. induction a as [|x a IH]; intros [|y b] H; try discriminate; constructor; [intros ->; apply orb_true_r|apply IH; cbn in H; lia]. Qed.
Lemma Forall2_map_l {A B C} (f : A -> B) (R : B -> C -> Prop) l m : Forall2 R (map f l) m -> Forall2 (fun x y => R (f x) y) l m.
Proof. revert m. induction l as [|x l IH]; intros m H; inversion H; subst; constructor; auto. Qed.

Lemma rows2_none t1 t2 vs1 : forall vs2,
  length vs1 = length vs2 ->
  (is_optT t1 = false -> Forall (fun v => is_none v = false) vs1) ->
  (is_optT t2 = false -> Forall (fun v => is_none v = false) vs2) ->
  map none_in (rows2 t1 t2 vs1 vs2) = or_masks (map is_none vs1) (map is_none vs2).
Proof.
  unfold rows2. induction vs1 as [|x vs1 IH]; intros [|y vs2] H N1 N2; try discriminate; [reflexivity|].
  cbn [zip map or_masks]. f_equal.
  - unfold none_in. cbn [existsb fst snd]. rewrite orb_false_r.
    assert (is_optT t1 && is_none x = is_none x).
    { destruct (is_optT t1); [reflexivity|]. specialize (N1 eq_refl). inversion N1; subst. now rewrite H2. }
    assert (is_optT t2 && is_none y = is_none y).
    { destruct (is_optT t2); [reflexivity|]. specialize (N2 eq_refl). inversion N2; subst. now rewrite H3. }
    congruence.
  - apply IH; [cbn in H; lia| |]; intros E; [specialize (N1 E)|specialize (N2 E)]; now inversion N1 || now inversion N2.
Qed.

Lemma rows2_kept_strip t1 t2 vs1 vs2 mask :
  map (map strip_opt) (kept (rows2 t1 t2 vs1 vs2) mask) =
  rows2 (strip_opt_t t1) (strip_opt_t t2) (kept vs1 mask) (kept vs2 mask).
Proof.
  unfold rows2. rewrite kept_map, kept_zip, map_map. apply map_ext. intros [x y]. cbn [fst snd map].
  unfold strip_opt. cbn [fst snd]. destruct t1, t2; reflexivity.
Qed.

Lemma spec_opt_row op fuel t1 t2 x y :
  jagT t1 = true -> jagT t2 = true -> is_optT t1 || is_optT t2 = true ->
  spec_v op false (S fuel) [(t1, x); (t2, y)] =
  if none_in [(t1, x); (t2, y)] then Ok VNone else spec_v op false fuel (map strip_opt [(t1, x); (t2, y)]).
Proof.
  intros H1 H2 Ho. rewrite spec_v_S. cbv zeta. rewrite rpad_nocond by (cbn [map fst]; now apply jagT_rpad).
  cbn [map fst existsb]. rewrite (jagT_notbad t1 H1), (jagT_notbad t2 H2). cbn [orb]. rewrite orb_false_r, Ho. reflexivity.
Qed.

Lemma opt_case op rec fuel c1 c2 vs1 vs2 :
  jag c1 = true -> jag c2 = true -> to_list c1 = Ok vs1 -> to_list c2 = Ok vs2 -> zlen vs1 = zlen vs2 ->
  is_option_node c1 || is_option_node c2 = true ->
  step_ok op rec fuel (csize c1 + csize c2) ->
  agrees_c (dispatch op None rec [MC c1; MC c2])
         (mapM (spec_v op false (S fuel)) (rows2 (type_of c1) (type_of c2) vs1 vs2)) /\
  (forall out, dispatch op None rec [MC c1; MC c2] = Ok out -> jag out = true /\ is_option_node out = true).
Proof.
  intros H1 H2 L1 L2 Hz Ho IH.
  assert (Hn : is_numpy_node c1 && is_numpy_node c2 = false).
  { destruct c1; try reflexivity. destruct c2; try reflexivity. discriminate. }
  rewrite (dispatch_nonleaf op rec c1 c2 vs1 vs2 H1 H2 L1 L2 Hz Hn), Ho.
  set (m1 := map is_none vs1). set (m2 := map is_none vs2). set (mask := or_masks m1 m2).
  assert (Hlm : length m1 = length m2) by (unfold m1, m2; rewrite !map_length; apply zlen_eq_length; exact Hz).
  (* the mask the model computes *)
  assert (Hmask : exists m0 ms, mapM bytemask_of (filter is_option_node [c1; c2]) = Ok (m0 :: ms) /\ fold_left or_masks ms m0 = mask).
  { destruct (is_option_node c1) eqn:O1; destruct (is_option_node c2) eqn:O2; try discriminate; cbn [filter]; rewrite ?O1, ?O2.
    - destruct c1; try discriminate. destruct c2; try discriminate. cbn [mapM].
      rewrite (bytemask_jag _ _ _ _ H1 L1), (bytemask_jag _ _ _ _ H2 L2). cbn [bind]. eexists _, _. split; reflexivity.
    - destruct c1; try discriminate. cbn [mapM]. rewrite (bytemask_jag _ _ _ _ H1 L1). cbn [bind]. eexists _, _. split; [reflexivity|].
      cbn [fold_left]. unfold mask. symmetry. apply or_masks_false_r; [exact Hlm|].
      pose proof (jag_nonopt_values c2 vs2 H2 O2 L2) as Hv. unfold m2. clear -Hv. induction Hv; cbn; [reflexivity|]. now rewrite H, IHHv.
    - destruct c2; try discriminate. cbn [mapM]. rewrite (bytemask_jag _ _ _ _ H2 L2). cbn [bind]. eexists _, _. split; [reflexivity|].
      cbn [fold_left]. unfold mask. symmetry. apply or_masks_false_l; [exact Hlm|].
      pose proof (jag_nonopt_values c1 vs1 H1 O1 L1) as Hv. unfold m1. clear -Hv. induction Hv; cbn; [reflexivity|]. now rewrite H, IHHv. }
  destruct Hmask as (m0 & ms & Hmasks & Hfold).
  (* the two projected inputs *)
  destruct (opt_next c1 vs1 mask H1 L1) as (n1 & P1 & J1 & NO1 & T1 & Ty1 & S1 & S1').
  { apply (Forall2_map_l is_none (fun (x m : bool) => x = true -> m = true) vs1 mask). apply (sub_or_l m1 m2 Hlm). }
  destruct (opt_next c2 vs2 mask H2 L2) as (n2 & P2 & J2 & NO2 & T2 & Ty2 & S2 & S2').
  { apply (Forall2_map_l is_none (fun (x m : bool) => x = true -> m = true) vs2 mask). apply (sub_or_r m1 m2 Hlm). }
  assert (Hlmask1 : length mask = length vs1) by (unfold mask; rewrite or_masks_length by exact Hlm; unfold m1; now rewrite map_length).
  assert (Hlmask2 : length mask = length vs2) by (rewrite Hlmask1; apply zlen_eq_length; exact Hz).
  assert (Hzk : zlen (kept vs1 mask) = zlen (kept vs2 mask)) by (rewrite !zlen_kept by assumption; reflexivity).
  assert (Hsz : (csize n1 + csize n2 < csize c1 + csize c2)%nat).
  { clear - S1 S2 S1' S2' Ho. destruct (is_option_node c1) eqn:O1; [specialize (S1' eq_refl); lia|]. cbn [orb] in Ho. specialize (S2' Ho). lia. }
  destruct (IH n1 n2 _ _ J1 J2 T1 T2 Hzk Hsz) as [IHa IHj].
  (* the model's expression *)
  assert (Hopt : opt_branch rec [MC c1; MC c2] =
                 do out <- rec [MC n1; MC n2]; Ok (IndexedOption I64 (count_index 0 mask) out)).
  { unfold opt_branch. cbn [contents_of flat_map app]. rewrite Hmasks. cbn [bind]. cbv zeta. rewrite Hfold.
    unfold map_c. cbn [mapM]. change (if is_option_node c1 then _ else _) with (opt_proj mask c1).
    change (if is_option_node c2 then _ else _) with (opt_proj mask c2). rewrite P1, P2. reflexivity. }
  rewrite Hopt.
  (* the specification's rows *)
  destruct (type_of_jag c1 H1) as (JT1 & OT1 & _). destruct (type_of_jag c2 H2) as (JT2 & OT2 & _).
  set (t1 := type_of c1) in *. set (t2 := type_of c2) in *. set (rows := rows2 t1 t2 vs1 vs2).
  assert (Hisn : map none_in rows = mask).
  { unfold rows, mask, m1, m2. apply (rows2_none t1 t2 vs1 vs2).
    - apply zlen_eq_length; exact Hz.
    - intros E. apply (jag_nonopt_values c1 vs1 H1); [congruence|exact L1].
    - intros E. apply (jag_nonopt_values c2 vs2 H2); [congruence|exact L2]. }
  pose proof (mapM_scatter (spec_v op false (S fuel)) (fun r => spec_v op false fuel (map strip_opt r)) none_in rows) as Hsc.
  rewrite Hisn in Hsc.
  assert (Hrows' : mapM (fun r => spec_v op false fuel (map strip_opt r)) (kept rows mask) =
                   mapM (spec_v op false fuel) (rows2 (type_of n1) (type_of n2) (kept vs1 mask) (kept vs2 mask))).
  { rewrite <- (mapM_map (spec_v op false fuel) (map strip_opt)). unfold rows. rewrite rows2_kept_strip. now rewrite Ty1, Ty2. }
  rewrite Hrows' in Hsc.
  assert (Hg : forall r, In r rows -> spec_v op false (S fuel) r = if none_in r then Ok VNone else spec_v op false fuel (map strip_opt r)).
  { intros r Hr. unfold rows, rows2 in Hr. apply in_map_iff in Hr as ([x y] & <- & _). cbn [fst snd].
    apply spec_opt_row; [exact JT1|exact JT2|]. rewrite OT1, OT2. exact Ho. }
  specialize (Hsc Hg).
  split.
  - destruct (mapM (spec_v op false fuel) (rows2 (type_of n1) (type_of n2) (kept vs1 mask) (kept vs2 mask))) as [ys|e] eqn:Einner.
    + rewrite Hsc. cbn [agrees_c] in IHa |- *. destruct IHa as (out & Hrec & Hout). rewrite Hrec. cbn [bind].
      eexists. split; [reflexivity|]. rewrite to_list_IndexedOption, Hout. cbn [bind].
      assert (Hny : nfalse mask = zlen ys).
      { rewrite (mapM_zlen _ _ _ Einner). unfold rows2. rewrite zlen_map, zlen_zip, !zlen_kept by assumption. symmetry. apply Z.min_id. }
      exact (count_index_scatter ys mask [] Hny).
    + rewrite Hsc. cbn [agrees_c] in IHa |- *. destruct IHa as [-> IHa]. split; [reflexivity|]. rewrite IHa. reflexivity.
  - intros out Hd. apply bind_Ok in Hd as (o & Hrec & Hd). inversion Hd; subst out.
    destruct (IHj o Hrec) as [Jo Oo]. rewrite NO1, NO2 in Oo. cbn [jag is_option_node]. now rewrite Jo, Oo.
Qed.

