(** C11 (closure): the per-operation closure theorems of Proofs_Closure .. Proofs_Closure4 in one statement.
    Operations covered: num, local_index, pad_none (rpad, rpad_and_clip), combinations, record-field projection
    (field_content), setfield, fill_none, flatten, sort / argsort, reducers, carry and range slicing.
    and slicing (getitem_model, all item kinds).
    Fragment hypotheses (all boolean, none for num / local_index / setfield / sort):
      ax_frag Qpad c axis       the list at the axis is not a string, its content not option-type and of length >= 0
      ax_frag Qcomb c axis      the content of the list at the axis is not option-type
      fc_frag k false c         the projected field is not option-type when the record sits directly below an option node
      fn_frag c                 no option node directly inside a union, no union directly below an option node
      red_frag mask keepdims c axis   mask_identity without keepdims: no option/indexed node directly above the reduced list
      nostr c, gi_frag c        (getitem) no string nodes; option-type / indexed nodes not nested in one another
      to_list c = Ok vs         (field_content, flatten, carry, crange) the input has a value; implied by chars_ok c = true *)
From Coq Require Import ZArith List Bool Lia ZifyBool.
From AwkV Require Import Base Layout LayoutInd Valid Types AtAxis Carry Ops_Struct Ops_Flatten Ops_Option Ops_Getitem
                         Ops_Fields Ops_Sort Ops_Reduce Proofs_ToList Proofs_CarryValid
                         Proofs_Closure Proofs_Closure2 Proofs_Closure3 Proofs_Closure4 Proofs_Closure6.
Import ListNotations.
Open Scope Z_scope.

Theorem closure_all_partial : forall c, Valid None c ->
  (forall axis c', num_model axis c = Ok c' -> Valid None c') /\
  (forall axis c', localindex_model axis c = Ok c' -> Valid None c') /\
  (forall target axis c', ax_frag Qpad c axis = true -> rpad_model target axis c = Ok c' -> Valid None c') /\
  (forall target axis c', ax_frag Qpad c axis = true -> rpadclip_model target axis c = Ok c' -> Valid None c') /\
  (forall n repl axis c', ax_frag Qcomb c axis = true -> comb_model n repl axis c = Ok c' -> Valid None c') /\
  (forall k vs c', to_list c = Ok vs -> fc_frag k false c = true -> field_content k c = Ok c' -> Valid None c') /\
  (forall k what c', Valid None what -> setfield_model k c what = Ok c' -> Valid None c') /\
  (forall value c', Valid None value -> unionlike value = false -> fn_frag c = true ->
                    fillna_model value c = Ok c' -> Valid None c') /\
  (forall axis vs c', to_list c = Ok vs -> flatten_model axis c = Ok c' -> Valid None c') /\
  (forall asc argsort axis c', sort_model asc argsort axis c = Ok c' -> Valid None c') /\
  (forall r axis mask keepdims c', red_frag mask keepdims c axis = true ->
                                   reduce_model r axis mask keepdims c = Ok c' -> Valid None c') /\
  (forall vs ix c', to_list c = Ok vs -> Forall (fun i => 0 <= i < clen c) ix -> carry c ix = Ok c' -> Valid None c') /\
  (forall vs a b c', to_list c = Ok vs -> 0 <= a -> a <= b -> b <= clen c -> crange c a b = Ok c' -> Valid None c') /\
  (forall items c', nostr c = true -> gi_frag c = true -> getitem_model items c = Ok c' -> Valid None c').
Proof.
  intros c HV. repeat split.
  - intros axis c'. apply num_preserves_valid, HV.
  - intros axis c'. apply localindex_preserves_valid, HV.
  - intros target axis c'. apply rpad_preserves_valid_partial, HV.
  - intros target axis c'. apply rpadclip_preserves_valid_partial, HV.
  - intros n repl axis c'. apply comb_preserves_valid_partial, HV.
  - intros k vs c'. apply field_content_preserves_valid_partial, HV.
  - intros k what c'. apply setfield_preserves_valid, HV.
  - intros value c' HVv Hu Hf. apply fillna_preserves_valid_partial; assumption.
  - intros axis vs c'. apply flatten_preserves_valid, HV.
  - intros asc argsort axis c'. apply sort_preserves_valid, HV.
  - intros r axis mask keepdims c'. apply reduce_preserves_valid_partial, HV.
  - intros vs ix c'. apply carry_valid, HV.
  - intros vs a b c'. apply crange_valid, HV.
  - intros items c'. apply getitem_preserves_valid_partial, HV.
Qed.

(* one layout (nested lists + option + record) inside every fragment at once, with non-error valid results *)
Example closure_all_ex :
  let c := ListOffset I64 [0; 2; 3]
             (ByteMasked [1; 0; 1] true
                (Record [Regular (Numpy DInt64 [6] [DZ 1; DZ 2; DZ 3; DZ 4; DZ 5; DZ 6]) 2 3;
                         ListOffset I64 [0; 1; 1; 3] (Numpy DInt32 [3] [DZ 7; DZ 8; DZ 9])] (Some [[120]; [121]]) 3)) in
  let ok := fun r : res content => match r with Ok c' => valid_b c' | Err _ => false end in
  valid_b c = true /\ chars_ok c = true /\
  ax_frag Qpad c 2 = true /\ ax_frag Qcomb c 2 = true /\ fc_frag [121] false c = true /\ fn_frag c = true /\
  red_frag true false c 2 = true /\ nostr c = true /\ gi_frag c = true /\
  forallb ok [num_model 2 c; localindex_model 2 c; rpad_model 3 2 c; rpadclip_model 1 2 c; comb_model 2 false 2 c;
              field_content [121] c; fillna_model (Numpy DInt64 [1] [DZ 0]) c; flatten_model 1 c;
              reduce_model RSum 2 true false c; carry c [1; 1; 0]; crange c 1 2;
              getitem_model [IRange None None (Some (-1)); IAt 0; IField [121]] c] = true.
Proof. vm_compute. repeat split. Qed.
