(** C14 — snapshots are immutable (physical half): along ANY session, a buffer that still has the allocation identity
    it had when a snapshot was taken has not been written below the length captured then. *)
From Coq Require Import ZArith List Bool Lia.
From AwkV Require Import Base Layout.
From AwkBuilder Require Import Builder GbLemmas Invariant Phys PhysStep.
Import ListNotations.
Open Scope Z_scope.

(* ------------------------------------------------------------------ numbering the fresh allocations *)
Definition ren_gb (n : nat) (g : gb) : gb * nat :=
  if Nat.eqb (gid g) 0
  then ({| gid := n; gdata := gdata g; glen := glen g; gres := gres g |}, S n)
  else (g, n).

Section RenList.
  Context {A : Type}.
  Variable f : nat -> A -> A * nat.
  Fixpoint ren_list (n : nat) (l : list A) : list A * nat :=
    match l with
    | [] => ([], n)
    | x :: t => let (x', n1) := f n x in let (t', n2) := ren_list n1 t in (x' :: t', n2)
    end.
End RenList.

Fixpoint renum (n : nat) (b : builder) : builder * nat :=
  match b with
  | BUnknown _ => (b, n)
  | BBool g => let (g', n1) := ren_gb n g in (BBool g', n1)
  | BInt g => let (g', n1) := ren_gb n g in (BInt g', n1)
  | BFloat g => let (g', n1) := ren_gb n g in (BFloat g', n1)
  | BString e a c => let (a', n1) := ren_gb n a in let (c', n2) := ren_gb n1 c in (BString e a' c', n2)
  | BOption i c => let (i', n1) := ren_gb n i in let (c', n2) := renum n1 c in (BOption i' c', n2)
  | BList a c bg => let (a', n1) := ren_gb n a in let (c', n2) := renum n1 c in (BList a' c' bg, n2)
  | BRecord cs ks rn np len bg ni ntt => let (cs', n1) := ren_list renum n cs in (BRecord cs' ks rn np len bg ni ntt, n1)
  | BTuple cs len bg ni => let (cs', n1) := ren_list renum n cs in (BTuple cs' len bg ni, n1)
  | BUnion t i cs cur =>
      let (t', n1) := ren_gb n t in let (i', n2) := ren_gb n1 i in
      let (cs', n3) := ren_list renum n2 cs in (BUnion t' i' cs' cur, n3)
  end.

Lemma ren_list_app {A} (f : nat -> A -> A * nat) l1 : forall n l2,
  ren_list f n (l1 ++ l2) =
  let (l1', n1) := ren_list f n l1 in let (l2', n2) := ren_list f n1 l2 in (l1' ++ l2', n2).
Proof.
  induction l1 as [|x t IH]; intros n l2; cbn [app ren_list].
  - destruct (ren_list f n l2). reflexivity.
  - destruct (f n x) as [x' n1]. rewrite IH. destruct (ren_list f n1 t) as [t' n2].
    destruct (ren_list f n2 l2). reflexivity.
Qed.

Lemma ren_flat cs :
  Forall (fun x => forall n, bufs (fst (renum n x)) = fst (ren_list ren_gb n (bufs x)) /\
                             snd (renum n x) = snd (ren_list ren_gb n (bufs x))) cs ->
  forall n, flat_map bufs (fst (ren_list renum n cs)) = fst (ren_list ren_gb n (flat_map bufs cs)) /\
            snd (ren_list renum n cs) = snd (ren_list ren_gb n (flat_map bufs cs)).
Proof.
  induction 1 as [|x t Hx _ IH]; intro n; cbn [ren_list flat_map]; [split; reflexivity|].
  destruct (Hx n) as [E1 E2]. rewrite ren_list_app.
  destruct (renum n x) as [x' n1]. destruct (ren_list ren_gb n (bufs x)) as [lx nx]. cbn [fst snd] in E1, E2. subst lx nx.
  destruct (IH n1) as [F1 F2].
  destruct (ren_list renum n1 t) as [t' n2]. destruct (ren_list ren_gb n1 (flat_map bufs t)) as [lt nt].
  cbn [fst snd] in F1, F2. subst lt nt. cbn [fst snd flat_map]. split; reflexivity.
Qed.

(* renumbering the tree = renumbering its buffer list in order *)
Lemma renum_bufs b : forall n, bufs (fst (renum n b)) = fst (ren_list ren_gb n (bufs b)) /\
                               snd (renum n b) = snd (ren_list ren_gb n (bufs b)).
Proof.
  induction b as [k0|g|g|g|e a b|idx b IHb|offs b begun IHb|cs ks rn np len bg ni ntt H|cs len bg ni H|tags idx cs cur H]
    using builder_ind'; intro n; cbn [renum bufs ren_list].
  - split; reflexivity.
  - destruct (ren_gb n g); split; reflexivity.
  - destruct (ren_gb n g); split; reflexivity.
  - destruct (ren_gb n g); split; reflexivity.
  - destruct (ren_gb n a) as [a' n1]. destruct (ren_gb n1 b) as [b' n2]. split; reflexivity.
  - destruct (ren_gb n idx) as [i' n1]. destruct (IHb n1) as [E1 E2].
    destruct (renum n1 b) as [c' n2]. destruct (ren_list ren_gb n1 (bufs b)) as [l' n3]. cbn [fst snd bufs] in *. subst. split; reflexivity.
  - destruct (ren_gb n offs) as [a' n1]. destruct (IHb n1) as [E1 E2].
    destruct (renum n1 b) as [c' n2]. destruct (ren_list ren_gb n1 (bufs b)) as [l' n3]. cbn [fst snd bufs] in *. subst. split; reflexivity.
  - assert (forall n, flat_map bufs (fst (ren_list renum n cs)) = fst (ren_list ren_gb n (flat_map bufs cs)) /\
                      snd (ren_list renum n cs) = snd (ren_list ren_gb n (flat_map bufs cs))) as G.
    { exact (ren_flat cs H). }
    destruct (G n) as [E1 E2]. destruct (ren_list renum n cs) as [cs' n1]. cbn [fst snd bufs] in *. auto.
  - assert (forall n, flat_map bufs (fst (ren_list renum n cs)) = fst (ren_list ren_gb n (flat_map bufs cs)) /\
                      snd (ren_list renum n cs) = snd (ren_list ren_gb n (flat_map bufs cs))) as G.
    { exact (ren_flat cs H). }
    destruct (G n) as [E1 E2]. destruct (ren_list renum n cs) as [cs' n1]. cbn [fst snd bufs] in *. auto.
  - assert (forall n, flat_map bufs (fst (ren_list renum n cs)) = fst (ren_list ren_gb n (flat_map bufs cs)) /\
                      snd (ren_list renum n cs) = snd (ren_list ren_gb n (flat_map bufs cs))) as G.
    { exact (ren_flat cs H). }
    destruct (ren_gb n tags) as [t' n1]. destruct (ren_gb n1 idx) as [i' n2].
    destruct (G n2) as [E1 E2]. destruct (ren_list renum n2 cs) as [cs' n3].
    destruct (ren_list ren_gb n2 (flat_map bufs cs)) as [l' n4]. cbn [fst snd bufs] in *. subst. split; reflexivity.
Qed.

(* ------------------------------------------------------------------ what numbering does to a buffer list *)
Definition samebuf (g g' : gb) : Prop := gdata g' = gdata g /\ glen g' = glen g.

Lemma count_zero_lt n l : (forall g, In g l -> (gid g < n)%nat) -> count n l = O.
Proof.
  induction l as [|a t IH]; intro H; [reflexivity|]. rewrite count_cons.
  pose proof (H a (or_introl eq_refl)).
  replace (Nat.eqb (gid a) n) with false by (symmetry; apply Nat.eqb_neq; lia).
  apply IH. intros; apply H; now right.
Qed.

Lemma ren_list_spec l : forall n, (1 <= n)%nat ->
  let l' := fst (ren_list ren_gb n l) in let n' := snd (ren_list ren_gb n l) in
  (n <= n')%nat /\
  (forall g', In g' l' -> exists g, In g l /\ samebuf g g' /\
        ((gid g <> O /\ gid g' = gid g) \/ (gid g = O /\ (n <= gid g' < n')%nat))) /\
  (forall i, (0 < i < n)%nat -> count i l' = count i l) /\
  ((forall g, In g l -> (gid g < n)%nat) -> forall i, (n <= i)%nat -> (count i l' <= 1)%nat) /\
  ((forall g, In g l -> (gid g < n)%nat) -> forall i, (n' <= i)%nat -> count i l' = O).
Proof.
  induction l as [|g t IH]; intros n Hn; cbv zeta; cbn [ren_list].
  - cbn [fst snd]. repeat split; auto; intros; try contradiction; reflexivity.
  - destruct (ren_gb n g) as [x' n1] eqn:Er. unfold ren_gb in Er.
    destruct (Nat.eqb (gid g) 0) eqn:E0; inversion Er; subst x' n1; clear Er.
    + apply Nat.eqb_eq in E0. specialize (IH (S n) ltac:(lia)). cbv zeta in IH.
      destruct (ren_list ren_gb (S n) t) as [t' n2]. cbn [fst snd] in *.
      destruct IH as (I1 & I2 & I3 & I4 & I5). split; [lia|split; [|split; [|split]]].
      * intros g' [<-|H].
        -- exists g. split; [now left|split; [split; reflexivity|right; cbn; split; [exact E0|lia]]].
        -- destruct (I2 g' H) as (g0 & H0 & S0 & D0). exists g0. split; [now right|split; [exact S0|]].
           destruct D0 as [D0|[D1 D2]]; [left; exact D0|right; split; [exact D1|lia]].
      * intros i Hi. rewrite !count_cons. cbn [gid]. rewrite E0.
        replace (Nat.eqb n i) with false by (symmetry; apply Nat.eqb_neq; lia).
        replace (Nat.eqb 0 i) with false by (symmetry; apply Nat.eqb_neq; lia).
        rewrite I3 by lia. reflexivity.
      * intros Hl i Hi. rewrite count_cons. cbn [gid].
        assert (forall g0, In g0 t -> (gid g0 < S n)%nat) as Ht by (intros g0 H0; specialize (Hl g0 (or_intror H0)); lia).
        destruct (Nat.eqb n i) eqn:En.
        -- apply Nat.eqb_eq in En. subst i.
           assert (count n t' = O) as C0.
           { assert (count n t' = count n t) as Cn.
             { destruct (Nat.eq_dec n 0); [lia|]. apply I3. lia. }
             rewrite Cn. apply count_zero_lt. intros a Ha. apply Hl. now right. }
           lia.
        -- apply Nat.eqb_neq in En. specialize (I4 Ht i ltac:(lia)). lia.
      * intros Hl i Hi. rewrite count_cons. cbn [gid].
        assert (forall g0, In g0 t -> (gid g0 < S n)%nat) as Ht by (intros g0 H0; specialize (Hl g0 (or_intror H0)); lia).
        replace (Nat.eqb n i) with false by (symmetry; apply Nat.eqb_neq; lia). rewrite (I5 Ht i Hi). reflexivity.
    + apply Nat.eqb_neq in E0. specialize (IH n Hn). cbv zeta in IH.
      destruct (ren_list ren_gb n t) as [t' n2]. cbn [fst snd] in *.
      destruct IH as (I1 & I2 & I3 & I4 & I5). split; [lia|split; [|split; [|split]]].
      * intros g' [<-|H].
        -- exists g. split; [now left|split; [split; reflexivity|left; auto]].
        -- destruct (I2 g' H) as (g0 & H0 & S0 & D0). exists g0. split; [now right|auto].
      * intros i Hi. rewrite !count_cons, I3 by lia. reflexivity.
      * intros Hl i Hi. rewrite count_cons. pose proof (Hl g (or_introl eq_refl)).
        replace (Nat.eqb (gid g) i) with false by (symmetry; apply Nat.eqb_neq; lia).
        apply I4; auto. intros; apply Hl; now right.
      * intros Hl i Hi. rewrite count_cons. pose proof (Hl g (or_introl eq_refl)).
        replace (Nat.eqb (gid g) i) with false by (symmetry; apply Nat.eqb_neq; lia).
        apply I5; auto. intros; apply Hl; now right.
Qed.

(* ------------------------------------------------------------------ sessions with allocation identities *)
Definition pstate := (builder * nat)%type.

Definition pstep (o : opts) (st : pstate) (c : scmd) : pstate :=
  let b1 := match c with
            | SC c => fst (ab_step o (fst st) c)
            | SSnapshot => fst st
            | SClear => match clear o (fst st) with Ok b' => b' | Err _ => fst st end
            end in
  renum (snd st) b1.

Definition prun (o : opts) (st : pstate) (cs : list scmd) : pstate := fold_left (pstep o) cs st.
Definition pinit : pstate := (ab_init, 1%nat).

Definition Inv (st : pstate) : Prop :=
  (1 <= snd st)%nat /\
  (forall g, In g (bufs (fst st)) -> (0 < gid g < snd st)%nat) /\
  (forall i, (count i (bufs (fst st)) <= 1)%nat).

Lemma command_sub o b c :
  Sub (bufs (match c with
             | SC c => fst (ab_step o b c)
             | SSnapshot => b
             | SClear => match clear o b with Ok b' => b' | Err _ => b end
             end)) (bufs b).
Proof.
  destruct c as [c| |].
  - unfold ab_step. pose proof (step_sub o b c) as S. destruct (step o b c); cbn [SubR fst] in *; tauto.
  - apply Sub_refl.
  - destruct (clear o b) as [b'|] eqn:E; [|apply Sub_refl].
    rewrite <- (app_nil_r (bufs b')). apply Sub_fresh_app; [eapply clear_fresh; eauto|apply Sub_nil].
Qed.

Lemma count_pos_in i l : (0 < count i l)%nat -> exists g, In g l /\ gid g = i.
Proof.
  induction l as [|a t IH]; [cbn; lia|]. rewrite count_cons. destruct (Nat.eqb (gid a) i) eqn:E.
  - intros _. exists a. split; [now left|now apply Nat.eqb_eq].
  - intro H. destruct (IH H) as (g & Hg & Eg). exists g. split; [now right|exact Eg].
Qed.

Lemma in_count_pos g l : In g l -> (0 < count (gid g) l)%nat.
Proof.
  induction l as [|a t IH]; [contradiction|]. rewrite count_cons. intros [->|H].
  - rewrite Nat.eqb_refl. lia.
  - specialize (IH H). lia.
Qed.

Lemma unique_by_id l g1 g2 :
  In g1 l -> In g2 l -> gid g1 = gid g2 -> (count (gid g1) l <= 1)%nat -> g1 = g2.
Proof.
  induction l as [|a t IH]; [contradiction|]. rewrite count_cons. intros H1 H2 E C.
  destruct H1 as [->|H1]; destruct H2 as [->|H2]; auto.
  - rewrite Nat.eqb_refl in C. pose proof (in_count_pos g2 t H2). rewrite <- E in H. lia.
  - rewrite E, Nat.eqb_refl in C. pose proof (in_count_pos g1 t H1). rewrite E in H. lia.
  - apply IH; auto. destruct (Nat.eqb (gid a) (gid g1)); lia.
Qed.

Lemma pstep_inv o st c : Inv st -> Inv (pstep o st c) /\ (snd st <= snd (pstep o st c))%nat.
Proof.
  intros (I1 & I2 & I3). destruct st as [b n]. cbn [fst snd] in *. unfold pstep. cbn [fst snd].
  set (b1 := match c with SC c0 => _ | SSnapshot => _ | SClear => _ end).
  pose proof (command_sub o b c) as [S1 S2]. fold b1 in S1, S2.
  destruct (renum_bufs b1 n) as [E1 E2].
  pose proof (ren_list_spec (bufs b1) n I1) as (R1 & R2 & R3 & R4 & R5). cbv zeta in *.
  rewrite <- E1, <- E2 in *.
  assert (forall g, In g (bufs b1) -> (gid g < n)%nat) as Hlt.
  { intros g Hg. destruct (Nat.eq_dec (gid g) 0) as [->|Nz]; [lia|].
    destruct (S2 g Hg Nz) as (g0 & H0 & (X & _)). specialize (I2 g0 H0). lia. }
  split; [|exact R1]. unfold Inv. split; [lia|split].
  - intros g' Hg'. destruct (R2 g' Hg') as (g & Hg & _ & [[Nz ->]|[_ Hr]]); [|lia].
    specialize (Hlt g Hg). lia.
  - intro i. destruct (Nat.eq_dec i 0) as [->|Nz].
    + destruct (count 0 (bufs (fst (renum n b1)))) eqn:C0; [lia|].
      destruct (count_pos_in 0 (bufs (fst (renum n b1)))) as (g' & Hg' & Eg'); [lia|].
      destruct (R2 g' Hg') as (g & Hg & _ & [[Nz E]|[_ Hr]]); lia.
    + destruct (Nat.lt_ge_cases i n) as [Hi|Hi].
      * rewrite R3 by lia. specialize (S1 i Nz). specialize (I3 i). lia.
      * apply R4; auto.
Qed.

Lemma prun_inv o cs : forall st, Inv st -> Inv (prun o st cs) /\ (snd st <= snd (prun o st cs))%nat.
Proof.
  induction cs as [|c t IH]; intros st I; cbn [prun fold_left]; [split; [exact I|lia]|].
  destruct (pstep_inv o st c I) as [I' L']. destruct (IH _ I') as [I'' L'']. split; [exact I''|]. unfold prun in *. lia.
Qed.

Lemma pinit_inv : Inv pinit.
Proof. unfold Inv, pinit. cbn. repeat split; intros; try contradiction; lia. Qed.

(* every old allocation still held extends what it was at snapshot time *)
Lemma pstep_old o (bk : builder) (nk : nat) st c :
  Inv st -> (nk <= snd st)%nat ->
  (forall g', In g' (bufs (fst st)) -> (gid g' < nk)%nat -> exists g, In g (bufs bk) /\ ext g g') ->
  (forall g', In g' (bufs (fst (pstep o st c))) -> (gid g' < nk)%nat -> exists g, In g (bufs bk) /\ ext g g').
Proof.
  intros (I1 & I2 & I3) Hk P g2 H2 L2. destruct st as [b n]. cbn [fst snd] in *. unfold pstep in H2. cbn [fst snd] in H2.
  set (b1 := match c with SC c0 => _ | SSnapshot => _ | SClear => _ end) in H2.
  pose proof (command_sub o b c) as [S1 S2]. fold b1 in S1, S2.
  destruct (renum_bufs b1 n) as [E1 E2].
  pose proof (ren_list_spec (bufs b1) n I1) as (R1 & R2 & R3 & R4 & R5). cbv zeta in *. rewrite <- E1, <- E2 in *.
  destruct (R2 g2 H2) as (g1 & H1 & (D1 & D2) & [[Nz E]|[_ Hr]]); [|lia].
  destruct (S2 g1 H1 Nz) as (g0 & H0 & X0).
  assert (gid g0 < nk)%nat as L0 by (destruct X0 as (X & _); lia).
  destruct (P g0 H0 L0) as (g & Hg & X). exists g. split; [exact Hg|].
  eapply ext_trans; [exact X|]. eapply ext_trans; [exact X0|].
  unfold ext. rewrite D1, D2, E. repeat split; lia.
Qed.

Lemma prun_old o (bk : builder) (nk : nat) cs : forall st,
  Inv st -> (nk <= snd st)%nat ->
  (forall g', In g' (bufs (fst st)) -> (gid g' < nk)%nat -> exists g, In g (bufs bk) /\ ext g g') ->
  (forall g', In g' (bufs (fst (prun o st cs))) -> (gid g' < nk)%nat -> exists g, In g (bufs bk) /\ ext g g').
Proof.
  induction cs as [|c t IH]; intros st I Hk P; cbn [prun fold_left]; [exact P|].
  destruct (pstep_inv o st c I) as [I' L']. apply IH; auto; [lia|]. now apply pstep_old.
Qed.

(* ================================================================== (b) snapshots are immutable *)
Theorem snapshot_immutable o cs1 cs2 :
  let st1 := prun o pinit cs1 in            (* the moment the snapshot is taken: it shares every buffer of st1 *)
  let st2 := prun o st1 cs2 in              (* after any continuation (well- or ill-nested, with clear) *)
  forall g g', In g (bufs (fst st1)) -> In g' (bufs (fst st2)) -> gid g' = gid g ->
    glen g <= glen g' /\ take (glen g) (gdata g') = gb_list g.
Proof.
  intros st1 st2 g g' Hg Hg' E.
  destruct (prun_inv o cs1 pinit pinit_inv) as [I1 _]. fold st1 in I1.
  pose proof I1 as (J1 & J2 & J3).
  assert (gid g' < snd st1)%nat as L by (rewrite E; apply J2; exact Hg).
  destruct (prun_old o (fst st1) (snd st1) cs2 st1 I1 (le_n _)
              (fun x Hx _ => ex_intro _ x (conj Hx (ext_refl x))) g' Hg' L) as (g0 & H0 & (X1 & X2 & X3)).
  assert (g0 = g) as ->.
  { apply (unique_by_id (bufs (fst st1))); auto; try congruence. }
  split; [exact X2|exact X3].
Qed.

(* non-vacuity: the Int64Builder buffer allocated by the first command keeps its identity through the snapshot, a
   later append, the wrapping into an OptionBuilder and another append; a fifth integer re-allocates it *)
Example snapshot_immutable_example :
  let o := {| initial := 4; grow := fun r => 2 * r; junk := 9 |} in
  let st1 := prun o pinit [SC (CInt 1); SSnapshot] in
  let st2 := prun o st1 [SC (CInt 2); SC CNull; SC (CInt 3)] in
  let st3 := prun o st2 [SC (CInt 4); SC (CInt 5)] in
  (exists g g', In g (bufs (fst st1)) /\ In g' (bufs (fst st2)) /\ gid g' = gid g /\ gid g <> O /\
                glen g = 1 /\ glen g' = 3 /\ gdata g = [1; 9; 9; 9] /\ gdata g' = [1; 2; 3; 9]) /\
  (forall g g', In g (bufs (fst st1)) -> In g' (bufs (fst st3)) -> gid g' <> gid g).
Proof.
  cbv zeta. split.
  - exists {| gid := 1; gdata := [1; 9; 9; 9]; glen := 1; gres := 4 |},
           {| gid := 1; gdata := [1; 2; 3; 9]; glen := 3; gres := 4 |}.
    vm_compute. repeat split; auto; congruence.
  - vm_compute. intros g g' [<-|[]] [<-|[<-|[]]]; cbn; congruence.
Qed.
