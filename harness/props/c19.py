"""C19: AwkwardForth — deterministic, documented, step-independent semantics.

Correspondence: every session line runs through forthdrv (ForthMachine32/64 of /repo through the public API) and
through forthrun (the extracted Rocq model /verif/c19/coq/Forth.v); the observable final states are compared
exactly.  Property-level checks on the implementation alone (made whether or not the model agrees): one call + resume
vs single-stepped vs mixed step/resume segmentations vs a restart, the same session twice, small vs default
output-growth settings, the source with `pause` taken out run in one call vs the paused and resumed execution,
original vs decompiled() source.  Programs come from a grammar-based generator (c19gen.ProgGen) and from the
structural-position generator StructGen below (stop words pause / halt / exit on the first / middle / last instruction
of every kind of body, nested)."""
import os
import re
import subprocess

import common as C
from props import c19gen as G

THEOREMS = []          # filled from Props_C19.v below (kept in sync by build())
COQ_DIR = os.path.join(C.VERIF, 'c19', 'coq')
COQ_LOGICAL = '-R . AwkForth'
NEEDS_SAN = True
DRIVERS = ('forthdrv',)          # built (also with sanitizers in the thorough tier) by check.py before the run
BUILD19 = os.path.join(C.BUILD, 'c19')
CORPUS = os.path.join(C.VERIF, 'corpus', 'C19')

RULE = ('(1) grammar-based random AwkwardForth programs (declarations, user words incl. recursion, if/else, do/loop/+loop, '
        'begin/until/while/repeat/again, variables, typed reads incl. varint/zigzag/nbit, output writes) x random input '
        'bytes x {32,64} x stack/recursion/output settings; plus fault-provoking programs, compile-error mutants and '
        'known-UB seeds.  (2) structural programs: nests (depth 1-3) of {do..loop, do..+loop with the step pushed last / '
        'pushed first / negative step in the middle / start above stop, begin..until, begin..while..repeat (predicate and '
        'body), begin..again, if..then, if..else..then (both branches), word definition, recursive word} inside the main '
        'program; every body has slots before its first instruction, in the middle and after its last instruction, and '
        'pause / halt / exit is put on chosen slots: every single structure x {first,last} x {pause,halt,exit}, every '
        'ordered pair of structures with the stop word last in the innermost body and the inner structure last in the '
        'outer body, every ordered pair with stop words on random slots, random triples; this includes the last '
        'instruction of a word called last in a loop body and the last instruction of the whole program.  Sessions per '
        'program: A run + resume until done, B begin + single steps, C begin + mixed steps/resumes, Z = A again, G = A '
        'with default output growth, and for programs with pause: E run to the first pause then mixed steps/resumes, F '
        'alternating step/resume then stepping, R abandon a paused execution and run() again, N the source without the '
        'pause tokens in one run() call.  A session is non-trivial when the model executed it to a final state with a '
        'non-empty stack/output or an error code; distinct by session text.  '
        'CLASSIFICATION.  A VIOLATION carries a concrete failing input (no suffix) when (a) the implementation disagrees '
        'with itself: the observable result (stack, variables, input positions, outputs, error, ready, done) of A differs '
        'from that of B/C/E/F/R/Z/G/N (or decompiled source) on a program that the model executes to a final state in '
        'every session (no undefined behaviour, no unsupported word, not out of fuel); a session that exhausts its '
        'step/resume budget gives no verdict, except where the other session proves the budget was sufficient; the replay '
        'holds both session lines and both results; or (b) implementation and model end in different states on a session '
        'whose every token is in the documented vocabulary (control, stack, arithmetic, comparison, bitwise and/or/xor/'
        'invert, variables, typed fixed-width / varint / zigzag reads, output writes; int32 literals; NOT lshift/rshift, '
        'N-bit reads, comments, strings), the model is closed on it (a final state: not unsupported, not out of fuel, not '
        'Fault) and either the error codes differ (neither being recursion_depth_exceeded, whose per-construct accounting '
        'is not documented) or both finished with error none / user_halt and stack, variables, input positions or '
        'outputs differ (return codes of the individual calls are not used; sessions are excluded when a float32/float64 '
        'output holds |v| >= 2^24 / 2^53 or a bool output a value other than 0/1; integer narrowing on output is taken to '
        'be two\'s-complement truncation as in NumPy astype): the Rocq model is the transcription of the documented '
        'semantics and Props_C19 proves it deterministic and step-independent, so such a session is an input on which '
        '"equal those of the documented semantics" fails.  Every other model/implementation difference (undocumented '
        'corner, compile-error classification, state after a fault, return codes only) keeps the suffix '
        'no-failing-input-found and names the broken correspondence.')
ASSUMPTIONS = [
    'vocabulary not modelled (sessions skipped, counted as unsupported): strings (s" .") and print words (. cr .s), '
    'float reads (f-> d->), N-bit reads with N > 31',
    'C++ undefined behaviour is modelled as the distinct outcome Fault (repeat count * item size overflowing int64, '
    'i/j/k below the do-stack and exit unwinding below the frame stack = exit inside do-loops, call() at the recursion '
    'limit, recursion limit < 1); shift counts are reduced modulo the cell width and signed overflow wraps, as the '
    'x86-64 build does',
    'integer-valued floats only (float outputs receive integers); bool outputs are compared as raw bytes',
    'timing counters and stdout of print words are not observed',
    'the pause-free comparison (N) assumes that a program which compiles uses `pause` only as an instruction (it is a '
    'reserved word, so it cannot be a name) or inside a comment',
    'budgets: at most 3000 resume() and 6000 step() calls per session; a session that runs out of budget is not compared',
    'sessions whose model evaluation runs out of fuel (non-terminating programs) are not sent to the implementation',
]
TRUSTED_BASE = [
    'Rocq kernel: coqc 8.16.1 (vm_compute used; native_compute not used)',
    'no axioms: every property theorem is closed under the global context (parsed from Print Assumptions on this run)',
    'extraction: ExtrOcamlBasic only, no Extract Constant, Z/positive/nat kept inductive; OCaml 4.13.1; hand-written '
    'reader/printer c19/ocaml/forthrun.ml and ocaml/sx.ml',
    'C++ driver impl/drv/forthdrv.cpp (session syntax, state dump through the public ForthMachine API)',
    'harness: generators harness/props/c19gen.py and StructGen in harness/props/c19.py, comparison and classification '
    '(incl. the documented-vocabulary list PINNED_WORDS) in harness/props/c19.py',
    'RapidJSON substitute impl/rapidjson_shim (libawkward is compiled against it)',
    'model vs code: c19/coq/Forth.v is a hand-written model of ForthMachine.cpp / ForthInputBuffer.cpp / '
    'ForthOutputBuffer.cpp, tied to the code by differential testing only',
]


def _theorems():
    p = os.path.join(COQ_DIR, 'Props_C19.v')
    if not os.path.exists(p):
        return []
    return re.findall(r'^Theorem\s+(\w+)', open(p).read(), re.M)


THEOREMS = _theorems()


# ---------------------------------------------------------------- build
def build():
    os.makedirs(BUILD19, exist_ok=True)
    r = C.sh('cd %s && coq_makefile -f _CoqProject -o Makefile.coq >/dev/null && timeout 3000 make -f Makefile.coq -j8 2>&1 | tail -30'
             % COQ_DIR)
    if r.returncode != 0 or 'Error' in r.stdout:
        raise C.BuildError('Rocq build of c19/coq failed:\n' + r.stdout[-3000:])
    r = C.sh('timeout 1200 make -s -C %s/c19/ocaml VERIF=%s' % (C.VERIF, C.VERIF))
    if r.returncode != 0:
        raise C.BuildError('forthrun build failed:\n' + r.stdout[-3000:])
    regenerate_tables()


def regenerate_tables():
    """mini-translator (DESIGN 3.6): the opcode numbering, read-format constants, builtin-word table and reserved
    words are re-read from ForthMachine.cpp on every run and compared INSIDE Rocq with the model's tables."""
    src = open(os.path.join(C.REPO, 'src', 'libawkward', 'forth', 'ForthMachine.cpp')).read()
    defs = dict(re.findall(r'#define\s+((?:CODE|READ|BOUND)_\w+)\s+\(?(0x8 \* \d+|\d+)\)?\s*$', src, re.M))
    if len(defs) < 80:
        raise C.BuildError('table extraction from ForthMachine.cpp failed (%d #defines found)' % len(defs))
    lines = ['From Coq Require Import ZArith List String.', 'From AwkForth Require Import Forth.', 'Open Scope Z_scope.']
    for name, val in sorted(defs.items()):
        if name == 'READ_MASK':
            continue
        v = eval(val.replace('0x8', '8'))
        lines.append('Example table_%s : Forth.%s = %d. Proof. reflexivity. Qed.' % (name, name, v))
    m = re.search(r'generic_builtin_words_\(\{(.*?)\}\);', src, re.S)
    words = re.findall(r'\{"((?:[^"\\]|\\.)*)",\s*(CODE_\w+)\}', m.group(1))
    if len(words) < 35:
        raise C.BuildError('builtin word table extraction failed')
    for i, (w, code) in enumerate(words):
        if code in ('CODE_PRINT', 'CODE_PRINT_CR', 'CODE_PRINT_STACK'):
            lines.append('Example word_%d : in_strings (bytes "%s") unsupported_words = true. Proof. reflexivity. Qed.' % (i, w))
        else:
            lines.append('Example word_%d : lookup_string (bytes "%s") builtin_words = Some Forth.%s. Proof. reflexivity. Qed.' % (i, w, code))
    lines.append('Example word_count : List.length builtin_words = %d%%nat. Proof. reflexivity. Qed.'
                 % sum(1 for w, c in words if c not in ('CODE_PRINT', 'CODE_PRINT_CR', 'CODE_PRINT_STACK')))
    m = re.search(r'reserved_words_\(\{(.*?)\}\);', src, re.S)
    body = re.sub(r'//[^\n]*', '', m.group(1))
    rw = re.findall(r'"((?:[^"\\]|\\.)*)"', body)
    for i, w in enumerate(rw):
        if w in ('\\n',):
            continue
        w2 = w.replace('\\\\', '\\').replace('\\"', '""')
        lines.append('Example reserved_%d : match is_reserved (bytes "%s") with COk true => True | _ => False end. Proof. exact I. Qed.' % (i, w2))
    m = re.search(r'input_parser_words_\(\{(.*?)\}\);', src, re.S)
    pw = re.findall(r'"([^"]*)"', re.sub(r'//[^\n]*', '', m.group(1)))
    lines.append('Example parser_words : List.length input_parser_words = %d%%nat. Proof. reflexivity. Qed.' % len(pw))
    for i, w in enumerate(pw):
        lines.append('Example parser_%d : in_strings (bytes "%s") input_parser_words = true. Proof. reflexivity. Qed.' % (i, w))
    fn = os.path.join(BUILD19, 'Tables_C19.v')
    open(fn, 'w').write('\n'.join(lines) + '\n')
    r = C.sh('cd %s && timeout 600 coqc -R %s AwkForth Tables_C19.v' % (BUILD19, COQ_DIR))
    if r.returncode != 0:
        m = re.search(r'line (\d+)', r.stdout)
        entry = lines[int(m.group(1)) - 1] if m else '?'
        raise C.BuildError('a table of ForthMachine.cpp no longer matches the model: %s\n%s' % (entry, r.stdout[-800:]))


# ---------------------------------------------------------------- session lines
def sx_line(cid, machine, src, inputs, settings, segs):
    sb = ' '.join(str(b) for b in src)
    ins = ' '.join('(%s (%s))' % (n, ' '.join(str(x) for x in bs)) for n, bs in inputs)
    return '(%s %s (src%s) (inputs%s) (settings %d %d %d %d) (segs%s))' % (
        cid, machine, ' ' + sb if sb else '', ' ' + ins if ins else '', settings[0], settings[1], settings[2], settings[3],
        ' ' + ' '.join(segs) if segs else '')


LINE = re.compile(r'^\((\S+) (forth32|forth64) \(src([^)]*)\) (\(inputs.*\)) \(settings (\S+) (\S+) (\S+) (\S+)\) \(segs(.*)\)\)$')


def parse_line(line):
    m = LINE.match(line.strip())
    if not m:
        return None
    src = bytes(int(x) for x in m.group(3).split())
    return dict(id=m.group(1), machine=m.group(2), src=src, inputs=m.group(4),
                settings=tuple(int(m.group(i)) for i in (5, 6, 7, 8)), segs=m.group(9).strip())


STEPCAP = 6000


PAUSE_TOKEN = re.compile(r'(?<!\S)pause(?!\S)')


def without_pause(src_text):
    """the same source with every `pause` token taken out (whitespace and all other tokens untouched)"""
    return PAUSE_TOKEN.sub('', src_text)


def _mix(rng, n):
    """n guarded atoms: (stepall k) = at most k single steps, (finish 1) = one resume; both do nothing once the machine
    is done / halted / in error, so that a mixed session never calls step()/resume() on a finished machine"""
    out = []
    for _ in range(n):
        out.append('(stepall %d)' % rng.choice([0, 1, 1, 2, 3, 5, 9]) if rng.random() < 0.65 else '(finish 1)')
    return out


def segmentations(rng, paused):
    """name -> list of segment atoms; A is the reference (one call, then resume through pauses).
    B single-steps through everything; C starts with begin and mixes steps and resumes; for programs that contain
    `pause` also: E = run to the first pause, then mixed steps / resumes, the rest by resuming; F = alternate single steps
    and resumes, the rest by stepping; R = abandon a paused execution and start again with run()."""
    out = {'A': ['run', '(finish 3000)'], 'B': ['begin', '(stepall %d)' % STEPCAP]}
    out['C'] = ['begin'] + _mix(rng, rng.randint(1, 3)) + ['(finish 3000)']
    if paused:
        out['E'] = ['run'] + _mix(rng, rng.randint(2, 6)) + ['(finish 3000)']
        alt = []
        for _ in range(rng.randint(2, 6)):
            alt += ['(stepall %d)' % rng.choice([1, 1, 2, 4]), '(finish 1)']
        out['F'] = ['begin'] + alt + ['(stepall %d)' % STEPCAP]
        out['R'] = (['run', '(finish %d)' % rng.randint(0, 2)] if rng.random() < 0.6 else
                    ['begin', '(stepall %d)' % rng.randint(1, 7)]) + ['run', '(finish 3000)']
    return out


FINISH_BY_RESUME = ('A', 'C', 'E', 'R', 'G', 'Z')       # sessions that end with (finish 3000)


def make_case(pid, machine, src_text, inputs, settings, rng, tags):
    src = src_text.encode('latin-1')
    paused = bool(PAUSE_TOKEN.search(src_text))
    segs = segmentations(rng, paused)
    lines = {}
    for k, sg in segs.items():
        lines[k] = sx_line('%s.%s' % (pid, k), machine, src, inputs, settings, sg)
    # growth settings: same program, default-size output buffers (implementation-only check of growth independence)
    lines['G'] = sx_line('%s.G' % pid, machine, src, inputs, (settings[0], settings[1], 1024, 15), segs['A'])
    # determinism: the reference session a second time, on a fresh machine
    lines['Z'] = sx_line('%s.Z' % pid, machine, src, inputs, settings, segs['A'])
    if paused:
        # the property itself: pausing and resuming must not change the result -> the same source without `pause`, one call
        lines['N'] = sx_line('%s.N' % pid, machine, without_pause(src_text).encode('latin-1'), inputs, settings, ['run'])
    return C.Case(pid, machine, [src_text], [], dict(lines=lines, tags=tags, src=src_text, inputs=inputs, settings=settings))


# documented-semantics probes: expectations computed from the documentation, NOT from the model (which follows the
# code, casts included).  (machine, source, input bytes of x, expected final stack, signature if the code deviates)
B8 = [1, 2, 3, 4, 5, 6, 7, 8]
SPEC = [
    ('forth64', '7 -2 /mod -7 2 /mod 7 2 / -7 2 mod', [], [-1, -4, 1, -4, 3, 1], None),
    ('forth32', '2147483647 1+ 65536 65536 * -2147483648 1-', [], [-2147483648, 0, 2147483647], None),
    ('forth64', '2147483647 1+ 65536 65536 *', [], [2147483648, 4294967296], None),
    ('forth64', 'input x x i-> stack x !i-> stack', B8, [0x04030201, 0x05060708], None),
    ('forth64', 'input x x h-> stack x B-> stack x !H-> stack', [255, 255, 200, 1, 2], [-1, 200, 258], None),
    ('forth64', 'input x x varint-> stack x zigzag-> stack', [172, 2, 3], [300, -2], None),
    ('forth64', 'input x x q-> stack', B8, [0x0807060504030201], None),
    ('forth64', 'input x x !q-> stack', B8, [0x0102030405060708], None),
    ('forth64', 'input x x Q-> stack', B8, [0x0807060504030201], None),
    ('forth64', 'input x x n-> stack', B8, [0x0807060504030201], None),
    ('forth64', 'input x x I-> stack', [255, 255, 255, 255], [4294967295], None),
    ('forth64', 'input x 2 x #I-> stack', [255, 255, 255, 255, 0, 0, 0, 128], [4294967295, 2147483648], None),
    ('forth64', '1 62 lshift dup 1+ mod', [], [2 ** 62], None),
    ('forth32', '1 30 lshift dup 1+ mod', [], [2 ** 30], None),
    ('forth64', '1 40 lshift dup 2 + swap do i loop', [], [2 ** 40, 2 ** 40 + 1], None),
    ('forth64', '4294967296 -4294967297', [], [4294967296, -4294967297], 'forth-literal-cast-int32'),
    ('forth64', '1 40 lshift negate abs -5 abs', [], [2 ** 40, 5], None),
]


def spec_cases():
    out = []
    for i, (machine, src, bs, stack, sig) in enumerate(SPEC):
        pid = 's%d' % i
        ln = sx_line(pid + '.A', machine, src.encode('latin-1'), [('x', bs)], (1024, 1024, 1024, 15), ['run', '(finish 50)'])
        out.append(C.Case(pid, machine, [src], [], dict(lines={'A': ln}, tags=dict(cls='spec'), src=src, expect_stack=stack,
                                                         sig=sig)))
    return out


# ---------------------------------------------------------------- structural-position generator
# Programs are nests of control structures; every body of every structure carries SLOTS (before its first instruction,
# in the middle, after its last instruction).  A stop word (pause / halt / exit) is put on chosen slots, the other
# slots disappear.  Bodies have observable effects (typed output writes, variables, cells left on the stack), loops
# are short and always terminate (when the stop words are taken out).
SKINDS = ['loop', 'ploop', 'ploop_early', 'ploop_neg', 'until', 'while_pred', 'while_body', 'again', 'if', 'else_a',
          'else_b', 'word', 'rec']
SDTYPES = ['int64', 'int64', 'int32', 'int16', 'uint8', 'uint32', 'float64', 'int8']


class StructGen:
    def __init__(self, rng, tight=False):
        self.r = rng
        self.tight = tight           # tight: no filler after the inner structure (it is the last instruction of the outer body)
        self.counters = 0
        self.defs = []
        self.nwords = 0
        self.slots = []
        self.reads = False

    # ------------------------------------------------------------ pieces
    def slot(self, kind, pos, depth, ctx):
        sid = len(self.slots)
        self.slots.append(dict(id=sid, kind=kind, pos=pos, depth=depth, dyn=ctx['dyn'], word=ctx['word']))
        return '@@%d' % sid

    def counter(self):
        self.counters += 1
        return 'c%d' % (self.counters - 1)

    def expr(self, ctx):
        r = self.r
        c = list(ctx['idx'])
        if ctx['do'] >= 1:
            c += ['i', 'i']
        if ctx['do'] >= 2:
            c.append('j')
        if c and r.random() < 0.75:
            return r.choice(c).split()
        return [str(r.randint(-3, 9))]

    def stmt(self, ctx):
        r = self.r
        k = r.random()
        e = self.expr(ctx)
        if k < 0.35:
            return e + ['o0', '<-', 'stack']
        if k < 0.48:
            return ['1', 'v0', '+!']
        if k < 0.60:
            return ['v0', '@', 'o1', '+<-', 'stack']
        if k < 0.68:
            return e + ['v1', '!']
        if k < 0.76:
            return e + ['v0', '@', '+', 'o2', '<-', 'stack']
        if k < 0.82:
            self.reads = True
            return ['x0', r.choice(['B->', 'b->', '!h->', 'varint->', 'i->']), r.choice(['o0', 'o1', 'stack o2 <- stack'])]
        if k < 0.86:
            o = r.choice(['o0', 'o2'])        # `dup` on an empty output is the rewind_beyond error: write first
            return e + [o, '<-', 'stack', r.choice(['1', '2']), o, 'dup'] if r.random() < 0.5 else ['o0', 'len', 'v1', '+!']
        if not ctx['neutral']:
            return e                    # leaves a cell on the stack
        return e + ['drop']

    def fill(self, ctx, lo=0, hi=2):
        out = []
        for _ in range(self.r.randint(lo, hi)):
            out += ' '.join(self.stmt(ctx)).split()
        return out

    def cond(self, ctx, want):
        r = self.r
        if r.random() < 0.5:
            truth = want if r.random() < 0.8 else not want
            return [r.choice(['-1', '1', '7', 'true'])] if truth else [r.choice(['0', 'false'])]
        return self.expr(ctx) + [str(r.randint(0, 2)), r.choice(['>', '<', '=', '<>', '>=', '<='])]

    def seq(self, kind, depth, ctx, inner, tail=()):
        """the body of a structure: [first] filler [mid] INNER filler TAIL [last]"""
        out = [self.slot(kind, 'first', depth, ctx)]
        out += self.fill(ctx)
        out.append(self.slot(kind, 'mid', depth, ctx))
        out += inner
        if not (self.tight and self.r.random() < 0.75):
            out += self.fill(ctx)
        out += list(tail)
        out.append(self.slot(kind, 'last', depth, ctx))
        return out

    # ------------------------------------------------------------ nests
    def nest(self, kinds, depth, ctx):
        r = self.r
        if not kinds:
            return self.fill(ctx, 0 if r.random() < 0.4 else 1, 2)
        k, rest = kinds[0], kinds[1:]
        d1 = depth + 1
        if k in ('loop', 'ploop', 'ploop_early', 'ploop_neg'):
            lo = r.randint(-1, 2)
            hi = lo + (r.randint(1, 4) if r.random() < 0.95 else 0)
            c2 = dict(ctx, do=ctx['do'] + 1, dyn=True)
            head = [str(hi), str(lo), 'do']
            if k == 'loop':
                return head + self.seq(k, d1, c2, self.nest(rest, d1, c2)) + ['loop']
            if k == 'ploop':
                return head + self.seq(k, d1, c2, self.nest(rest, d1, c2), tail=[str(r.randint(1, 3))]) + ['+loop']
            if k == 'ploop_early':
                # the step is pushed first and lies under the (stack-neutral) body
                c3 = dict(c2, neutral=True)
                return head + [str(r.randint(1, 3))] + self.seq(k, d1, c3, self.nest(rest, d1, c3)) + ['+loop']
            if r.random() < 0.25:
                # start above stop with a negative step: ForthMachine ends a loop when i >= stop, the body never runs
                return [str(lo), str(hi), 'do'] + self.seq(k, d1, c2, self.nest(rest, d1, c2), tail=['-1']) + ['+loop']
            # a negative step in the middle: i = lo, lo+2, lo+1, lo+3, lo+5, ...
            step = ['i', str(lo + 2), '=', 'if', '-1', 'else', '2', 'then']
            return head + self.seq(k, d1, c2, self.nest(rest, d1, c2), tail=step) + ['+loop']
        if k in ('until', 'while_pred', 'while_body', 'again'):
            c = self.counter()
            n = str(r.randint(1, 3))
            c2 = dict(ctx, idx=ctx['idx'] + [c + ' @'])
            head = [n, c, '!', 'begin']
            if k == 'until':
                return head + self.seq(k, d1, c2, self.nest(rest, d1, c2), tail=['-1', c, '+!', c, '@', '0', '<=']) + ['until']
            if k == 'while_pred':
                return head + self.seq(k, d1, c2, self.nest(rest, d1, c2), tail=[c, '@', '0', '>']) + ['while'] + \
                    self.fill(c2, 0, 1) + ['-1', c, '+!', 'repeat']
            if k == 'while_body':
                return head + [c, '@', '0', '>', 'while'] + self.seq(k, d1, c2, self.nest(rest, d1, c2), tail=['-1', c, '+!']) + ['repeat']
            # begin ... again ends through exit (leaves the word / the program) or halt; exit under a do-loop is the
            # known undefined behaviour (forth-ub-exit-in-do), so halt is used there
            stopw = 'halt' if ctx['dyn'] else r.choice(['exit', 'exit', 'halt'])
            return head + self.seq(k, d1, c2, self.nest(rest, d1, c2),
                                   tail=['-1', c, '+!', c, '@', '0', '<=', 'if', stopw, 'then']) + ['again']
        if k == 'if':
            return self.cond(ctx, True) + ['if'] + self.seq(k, d1, ctx, self.nest(rest, d1, ctx)) + ['then']
        if k == 'else_a':
            return self.cond(ctx, True) + ['if'] + self.seq(k, d1, ctx, self.nest(rest, d1, ctx)) + ['else'] + \
                self.fill(ctx, 0, 1) + ['then']
        if k == 'else_b':
            return self.cond(ctx, False) + ['if'] + self.fill(ctx, 0, 1) + ['else'] + \
                self.seq(k, d1, ctx, self.nest(rest, d1, ctx)) + ['then']
        if k == 'word':
            c2 = dict(ctx, do=0, word=True)
            body = self.seq(k, d1, c2, self.nest(rest, d1, c2))        # inner words are defined first
            name = 'w%d' % self.nwords
            self.nwords += 1
            self.defs.append([':', name] + body + [';'])
            return [name]
        if k == 'rec':
            # bounded recursion on a countdown that stays on top of the stack (stack-neutral body)
            c2 = dict(ctx, do=0, word=True, neutral=True, idx=ctx['idx'] + ['dup'])
            inner = self.nest(rest, d1, c2)
            name = 'r%d' % self.nwords
            self.nwords += 1
            body = self.seq(k, d1, c2, inner, tail=['1-', r.choice([name, 'recurse'])])
            self.defs.append([':', name, 'dup', '0', '>', 'if'] + body + ['then', self.slot('rec_end', 'last', depth, c2), ';'])
            return [str(r.randint(1, 3)), name, 'drop']
        raise ValueError(k)

    def program(self, kinds):
        ctx = dict(do=0, dyn=False, neutral=False, word=False, idx=[])
        main = self.seq('main', 0, ctx, self.nest(list(kinds), 0, ctx))
        decl = ['variable', 'v0', 'variable', 'v1']
        for i in range(self.counters):
            decl += ['variable', 'c%d' % i]
        if self.reads:
            decl += ['input', 'x0']
        for i in range(3):
            decl += ['output', 'o%d' % i, self.r.choice(SDTYPES)]
        toks = decl
        for d in self.defs:
            toks = toks + d
        return toks + main

    # ------------------------------------------------------------ stop words on slots
    def innermost(self, pos):
        deepest = max(s['depth'] for s in self.slots)
        cand = [s for s in self.slots if s['depth'] == deepest and s['pos'] == pos and s['kind'] != 'rec_end']
        return cand[-1] if cand else self.slots[-1]

    def stopword(self, slot, prefer=None):
        r = self.r
        w = prefer or r.choice(['pause'] * 7 + ['halt', 'exit', 'exit'])
        if w == 'exit' and slot['dyn'] and r.random() < 0.95:
            w = 'pause'                # exit under a do-loop: known undefined behaviour, kept rare
        return w

    def assign(self, mode, word=None):
        """mode: 'first' / 'last' of the innermost body, or 'random' -> dict slot id -> stop word"""
        r = self.r
        out = {}
        if mode in ('first', 'last', 'mid'):
            s = self.innermost(mode)
            out[s['id']] = self.stopword(s, word)
            if r.random() < 0.3:       # nested combination: also the last instruction of an enclosing body
                outer = [t for t in self.slots if t['depth'] < s['depth'] and t['pos'] == 'last']
                if outer:
                    out.setdefault(r.choice(outer)['id'], 'pause')
        else:
            for s in r.sample(self.slots, min(len(self.slots), r.randint(1, 3))):
                out[s['id']] = 'pause'
            if r.random() < 0.3:
                s = r.choice(self.slots)
                out[s['id']] = self.stopword(s, r.choice(['halt', 'exit']))
        return out

    @staticmethod
    def place(toks, assignment):
        out = []
        for t in toks:
            if t.startswith('@@'):
                if int(t[2:]) in assignment:
                    out.append(assignment[int(t[2:])])
            else:
                out.append(t)
        return out


def struct_programs(rng, tier):
    """(kinds, mode, stop word or None, tight) for every single structure x {first, last} x {pause, halt, exit}, every
    ordered pair of structures (stop word last in the innermost body, tight; and stop words on random slots), and random
    triples"""
    plan = []
    for k in SKINDS:
        for mode in ('first', 'last'):
            for w in ('pause', 'halt', 'exit'):
                plan.append(([k], mode, w, rng.random() < 0.5))
    for a in SKINDS:
        for b in SKINDS:
            plan.append(([a, b], 'last', None, True))
            plan.append(([a, b], rng.choice(['first', 'random', 'random', 'mid']), None, rng.random() < 0.3))
    for _ in range(120 if tier == 'quick' else 3000):
        ks = [rng.choice(SKINDS) for _ in range(rng.choice([2, 3, 3]))]
        plan.append((ks, rng.choice(['last', 'last', 'first', 'random', 'random']), None, rng.random() < 0.5))
    return plan


def struct_cases(rng, tier):
    out = []
    for n, (kinds, mode, word, tight) in enumerate(struct_programs(rng, tier)):
        g = StructGen(rng, tight=tight)
        toks = g.program(kinds)
        asg = g.assign(mode, word)
        toks = StructGen.place(toks, asg)
        src = G.render(rng, toks) if rng.random() < 0.3 else ' '.join(toks)
        inputs = [('x0', [rng.randrange(256) for _ in range(rng.choice([8, 64, 64, 200]))])] if g.reads else []
        settings = G.gen_settings(rng, tight=True) if rng.random() < 0.06 else \
            (rng.choice([64, 1024]), rng.choice([16, 1024]), rng.choice([1, 2, 7, 1024]), rng.choice([11, 13, 15, 20, 35]))
        tags = dict(cls='struct', nest='/'.join(kinds), where=mode, stop='+'.join(sorted(set(asg.values()))))
        out.append(make_case('t%d' % n, rng.choice(['forth64', 'forth32']), src, inputs, settings, rng, tags))
    return out


def cases(rng, tier):
    n = 330 if tier == 'quick' else 9000
    out = spec_cases()
    for i in range(n):
        pid = 'p%d' % i
        machine = rng.choice(['forth64', 'forth32'])
        k = rng.random()
        tags = {}
        if k < 0.70:
            g = G.ProgGen(rng, allow_exit=rng.random() < 0.12, allow_halt=rng.random() < 0.1,
                          allow_pause=rng.random() < 0.6, big=(tier != 'quick' and rng.random() < 0.05))
            if rng.random() < 0.45:
                g.feat['nodo'] = True
                toks = program_without_do(g)
            else:
                toks = g.program()
            tags = dict(cls='valid', **{f: 1 for f, v in g.feat.items() if v})
            settings = G.gen_settings(rng, tight=rng.random() < 0.15)
        elif k < 0.82:
            name, g, toks = G.fault_program(rng)
            tags = dict(cls='fault', fault=name, **{f: 1 for f, v in g.feat.items() if v})
            settings = G.gen_settings(rng, tight=rng.random() < 0.4)
        elif k < 0.95:
            name, g, toks = G.invalid_program(rng)
            tags = dict(cls='invalid', mutation=name)
            settings = G.gen_settings(rng)
        else:
            if rng.random() < 0.35:
                sig, f = rng.choice(G.UB)
                toks = f(rng)
                tags = dict(cls='ub', ub=sig)
            else:
                toks = rng.choice(G.FIXED_UB)(rng)       # undefined / wrong before the fixes, ordinary programs now
                tags = dict(cls='ub', ub='fixed-since')
            g = G.ProgGen(rng)
            g.nins = 1
            settings = G.gen_settings(rng)
        src = G.render(rng, toks) if tags.get('cls') != 'ub' else ' '.join(toks)
        inputs = G.gen_inputs(rng, max(g.nins, 1 if tags.get('cls') in ('fault', 'ub') else 0))
        out.append(make_case(pid, machine, src, inputs, settings, rng, tags))
    out += struct_cases(rng, tier)
    return out


def program_without_do(g):
    """a program whose control flow avoids do-loops (so that stepping is expected to agree on the pinned tree)"""
    orig = g.control

    def control(out, depth, dodepth, in_word, in_do):
        st = g.r.getstate()
        for _ in range(8):
            mark = len(out)
            sd = g.sd
            orig(out, depth, dodepth, in_word, in_do)
            if 'do' not in out[mark:]:
                return
            del out[mark:]
            g.sd = sd
        out.append('1'); g.sd += 1
    g.control = control
    toks = g.program()
    g.feat['do'] = 'do' in toks
    return toks


def replay_cases(path):
    groups = {}
    order = []
    for ln in open(path):
        ln = ln.strip()
        if not ln:
            continue
        if ln.startswith('#'):
            m = re.match(r'^# expected \(stack([^)]*)\)', ln)
            if m and order:
                groups[order[-1]].meta['expect_stack'] = [int(x) for x in m.group(1).split()]
            m = re.match(r'^# signature: (\S+)', ln)
            if m and order and m.group(1) != 'None':
                groups[order[-1]].meta['sig'] = m.group(1)
            continue
        p = parse_line(ln)
        if not p:
            continue
        pid, _, seg = p['id'].partition('.')
        if pid not in groups:
            groups[pid] = C.Case(pid, p['machine'], [p['src'].decode('latin-1')], [],
                                 dict(lines={}, tags=dict(cls='replay'), src=p['src'].decode('latin-1')))
            order.append(pid)
        groups[pid].meta['lines'][seg or 'A'] = ln
    return [groups[p] for p in order]


def corpus_cases():
    out = []
    if os.path.isdir(CORPUS):
        for fn in sorted(os.listdir(CORPUS)):
            if fn.endswith('.case'):
                for c in replay_cases(os.path.join(CORPUS, fn)):
                    c.id = 'k%s_%s' % (fn[:-5].replace('.', '_'), c.id)
                    c.meta['lines'] = {k: re.sub(r'^\(\S+', '(%s.%s' % (c.id, k), v) for k, v in c.meta['lines'].items()}
                    c.meta['tags'] = dict(cls='corpus')
                    out.append(c)
    return out


# ---------------------------------------------------------------- running
def _run_model_chunk(args):
    lines, fixed, fuel = args
    exe = os.path.join(BUILD19, 'forthrun')
    cmd = 'ulimit -s unlimited 2>/dev/null; exec %s %s --fuel %d' % (exe, '--fixed' if fixed else '', fuel)
    p = subprocess.run(cmd, shell=True, input='\n'.join(lines) + '\n', stdout=subprocess.PIPE, stderr=subprocess.PIPE,
                       text=True, timeout=3000)
    if p.returncode != 0:
        raise RuntimeError('forthrun failed rc=%s: %s' % (p.returncode, p.stderr[-2000:]))
    out = {}
    for ol in p.stdout.splitlines():
        m = C.LINE_ID.match(ol)
        if m:
            out[m.group(1)] = ol[len(m.group(1)) + 2:-1]
    return out


def run_model(lines, fixed=False, fuel=400000, workers=8):
    """the extracted model on session lines -> dict id -> result text"""
    if not lines:
        return {}
    n = max(1, min(workers, len(lines) // 50 + 1))
    chunks = [lines[i::n] for i in range(n)]
    from concurrent.futures import ThreadPoolExecutor
    out = {}
    with ThreadPoolExecutor(max_workers=n) as ex:
        for r in ex.map(_run_model_chunk, [(c, fixed, fuel) for c in chunks]):
            out.update(r)
    return out


def run_driver_parallel(lines, san=False, per_case_timeout=10.0, workers=8):
    from concurrent.futures import ThreadPoolExecutor
    n = max(1, min(workers, len(lines) // 200 + 1))
    chunks = [lines[i::n] for i in range(n)]
    res, errs = {}, {}
    with ThreadPoolExecutor(max_workers=n) as ex:
        for r, e in ex.map(lambda ch: C.run_driver(ch, drv='forthdrv', san=san, per_case_timeout=per_case_timeout), chunks):
            res.update(r)
            errs.update(e)
    return res, errs


FLOAT = re.compile(r'f:(-?0x[0-9a-f.]+p[+-]?\d+)')
DECOMP = re.compile(r' \(decomp[^)]*\)')


def canon_impl(res):
    """driver result -> comparable text: drop the decompiled source, print integer-valued hex floats as integers"""
    res = DECOMP.sub('', res)

    def fl(m):
        v = float.fromhex(m.group(1))
        return str(int(v)) if v == int(v) else m.group(0)
    return FLOAT.sub(fl, res)


def decomp_of(res):
    m = re.search(r' \(decomp([^)]*)\)', res)
    return bytes(int(x) for x in m.group(1).split()) if m else None


def observable(res):
    """final state without the per-call return codes (they depend on the segmentation by construction)"""
    return re.sub(r' \(rets[^)]*\)', '', res)


def features(src):
    toks = src.split()
    return dict(do='do' in toks, exit='exit' in toks)


def with_src(line, src_text):
    """the session line with another program; the pause-free companion (.N) gets the program without `pause`"""
    if C.LINE_ID.match(line).group(1).endswith('.N'):
        src_text = without_pause(src_text)
    return re.sub(r'\(src[^)]*\)', '(src %s)' % ' '.join(str(b) for b in src_text.encode('latin-1')), line, 1)


def minimise(lines, src_text, still_fails, budget=60):
    """token-level delta debugging of the program text; lines: the session lines of the finding (same program).
    still_fails(list of lines) -> bool re-runs implementation and model."""
    toks = src_text.replace('\n', ' \n ').split(' ')
    toks = [t for t in ' '.join(toks).replace('\t', ' ').replace('\r', ' ').replace('\x0b', ' ').replace('\x0c', ' ').split(' ') if t]
    n = 2
    while len(toks) >= 2 and budget > 0:
        chunk = max(1, len(toks) // n)
        reduced = False
        for i in range(0, len(toks), chunk):
            cand = toks[:i] + toks[i + chunk:]
            if not cand:
                continue
            budget -= 1
            text = ' '.join(cand)
            if still_fails([with_src(l, text) for l in lines]):
                toks, n, reduced = cand, max(n - 1, 2), True
                break
            if budget <= 0:
                break
        if not reduced:
            if chunk == 1:
                break
            n = min(len(toks), n * 2)
    return ' '.join(toks)


# ---------------------------------------------------------------- which model/implementation differences are concrete
# Words whose meaning the AwkwardForth documentation (and standard Forth, which it refers to) fixes.  Left out on
# purpose: lshift / rshift (counts outside 0..width-1 are not specified; the model follows x86), N-bit reads, comments
# (their nesting rule is a property of this parser), string / print words, float reads.
PINNED_WORDS = set("""
    : ; recurse variable input output halt pause if then else do loop +loop i j k begin again until while repeat exit
    dup drop swap over rot nip tuck + - * / mod /mod negate 1+ 1- abs min max = <> > >= < <= 0= invert and or xor
    true false ! +! @ len pos end seek skip <- +<- stack rewind
    bool int8 int16 int32 int64 uint8 uint16 uint32 uint64 float32 float64""".split())
PINNED_READ = re.compile(r'^#?!?(\?|b|h|i|q|n|B|H|I|Q|N|varint|zigzag)->$')
DEC_LIT = re.compile(r'^-?\d{1,10}$')
HEX_LIT = re.compile(r'^0x[0-9a-fA-F]{1,8}$')
NAME = re.compile(r'^[A-Za-z_][A-Za-z_0-9]*$')
OUTS = re.compile(r'\((\w+) (\w+) \(([^)]*)\)\)')


def err_of(res):
    m = re.search(r'\(err (\d+)\)', res)
    return int(m.group(1)) if m else None


def pinned_vocabulary(src_text):
    """every token is a documented word, an int32 literal or a name the program declares"""
    toks = src_text.split()
    names = set()
    for a, b in zip(toks, toks[1:]):
        if a in ('variable', 'input', 'output', ':'):
            if not NAME.match(b) or b in PINNED_WORDS:
                return False
            names.add(b)
    for t in toks:
        if t in PINNED_WORDS or t in names or PINNED_READ.match(t):
            continue
        if DEC_LIT.match(t) and -2 ** 31 <= int(t) < 2 ** 31:
            continue
        if HEX_LIT.match(t) and int(t, 16) < 2 ** 31:
            continue
        return False
    return True


def pinned_difference(line, mres, ci):
    """True when `model != implementation` on this session is a concrete input on which the property's clause "equal
    those of the documented semantics" fails (see RULE): documented vocabulary only, the model ended in a final state
    (closed: not unsupported / out of fuel / Fault), and either the error codes differ (neither is the recursion limit,
    whose accounting per construct is not documented) or the program ran without a fault (error none / user halt) and
    stack, variables, input positions or outputs differ.  Values the documentation does not fix exclude the session:
    integers that a float32 / float64 output cannot hold exactly, bool outputs fed other values than 0 / 1."""
    p = parse_line(line)
    if not p or not mres.startswith('ok ') or not ci.startswith('ok '):
        return False
    try:
        text = p['src'].decode('ascii')
    except UnicodeDecodeError:
        return False
    if not pinned_vocabulary(text):
        return False
    em, ei = err_of(mres), err_of(ci)
    if em is None or ei is None or 4 in (em, ei):
        return False
    for name, dt, vals in OUTS.findall(mres):
        try:
            vs = [int(v) for v in vals.split()]
        except ValueError:
            return False
        # the model shows the value after rounding: |r| < 2^24 (2^53) guarantees that the integer written was exact
        if dt == 'float32' and any(abs(v) >= 2 ** 24 for v in vs):
            return False
        if dt == 'float64' and any(abs(v) >= 2 ** 53 for v in vs):
            return False
        if dt == 'bool' and any(v not in (0, 1) for v in vs):
            return False
    if em != ei:
        return True
    if em not in (0, 3):
        return False                 # the state left behind by a fault is not documented in detail
    return observable(mres) != observable(ci)


def closed(mres):
    return bool(mres) and not mres.startswith(('unsupported', 'fuel', 'fault', 'bad'))


UNFINISHED = '(err 0) (ready 1) (done 0)'
RESUME_CAP = 3000
META_LABEL = {
    'B': ('single-stepping changes the result', 'prop:step-independence'),
    'C': ('mixing step() and resume() changes the result', 'prop:step-independence'),
    'E': ('mixing step() and resume() changes the result', 'prop:step-independence'),
    'F': ('mixing step() and resume() changes the result', 'prop:step-independence'),
    'R': ('abandoning a paused execution and starting again with run() changes the result', 'prop:step-independence'),
    'N': ('pausing and resuming changes the result (compared with the same source without pause, run in one call)',
          'prop:pause-independence'),
    'G': ('output-buffer growth settings change the result', 'prop:growth-independence'),
    'Z': ('the same session executed twice gives two results (not a function of source and input)', 'prop:deterministic'),
    'D': ('decompiled() source behaves differently from the original', 'prop:decompiled-equivalent'),
}


def nrets(res):
    m = re.search(r'\(rets([^)]*)\)', res)
    return len(m.group(1).split()) if m else 0


def meta_verdict(a, k, b):
    """implementation alone: reference session A (one call + resume through the pauses; canonical result text a)
    against session k of the same program (result text b).  -> 'same' | 'viol' | 'cap' (a budget ran out: no verdict)
    | 'skip' (not comparable)"""
    if not a.startswith('ok'):
        # compile-time fault: every other session of the same source must report it too
        if k == 'N':
            return 'skip'
        return 'same' if observable(a) == observable(b) else 'viol'
    if k == 'N' and not b.startswith('ok'):
        return 'skip'
    oa, ob = observable(a), observable(b)
    if oa == ob:
        return 'same'
    if UNFINISHED in oa:
        # A made RESUME_CAP resume() calls and is not done; every resume() executes at least one instruction, so
        # single-stepping needs more than RESUME_CAP steps as well: if B finished in fewer, the executions differ
        if k == 'B' and UNFINISHED not in ob and nrets(b) < RESUME_CAP:
            return 'viol'
        return 'cap'
    if UNFINISHED in ob:
        # A finished with fewer than RESUME_CAP resumes, so fewer than RESUME_CAP pauses are executed in total: a
        # session that ends with (finish RESUME_CAP) must be finished too; one that ends by stepping may need more steps
        return 'viol' if k in FINISH_BY_RESUME else 'cap'
    return 'viol'


def _impl_model(lines):
    m = run_model(lines, workers=1)
    i, _ = C.run_driver(lines, drv='forthdrv', per_case_timeout=5.0)
    out = []
    for l in lines:
        sid = C.LINE_ID.match(l).group(1)
        out.append((sid, m.get(sid, ''), i.get(sid, '')))
    return out


def fails_modeldiff(lines, need_pinned=False, model_err=None):
    for l, (sid, mr, ir) in zip(lines, _impl_model(lines)):
        if not closed(mr) or ir.startswith('bad'):
            continue
        if need_pinned:
            # while minimising, the model must keep ending with the same error code (no drift into another fault)
            if not ir.startswith(('crash', 'timeout')) and pinned_difference(l, mr, canon_impl(ir)) and \
                    (model_err is None or err_of(mr) == model_err):
                return True
        elif ir.startswith(('crash', 'timeout')) or canon_impl(ir) != mr:
            return True
    return False


def fails_metadiff(lines):
    """two sessions of one program (the first is the reference): the implementation disagrees with itself, and the
    program is still one the model executes to a final state in both sessions (no undefined behaviour)"""
    if len(lines) < 2:
        return False
    (_, ma, ia), (sk, mk, ik) = _impl_model(lines[:2])
    if not closed(ma) or not closed(mk) or ia.startswith(('crash', 'timeout', 'bad')) or ik.startswith(('crash', 'timeout', 'bad')):
        return False
    return meta_verdict(canon_impl(ia), sk.rpartition('.')[2], canon_impl(ik)) == 'viol'


def annotate(lines):
    """comment lines showing what the implementation and the model answer on the session lines"""
    out = []
    for sid, mr, ir in _impl_model(lines):
        out.append('# impl  %s: %s' % (sid, canon_impl(ir)[:1200]))
        out.append('# model %s: %s' % (sid, mr[:1200]))
    return out


UB_SIG = {2: 'forth-ub-count-overflow', 3: 'forth-ub-negative-rewind', 4: 'forth-ub-div-trap',
          5: 'forth-ub-exit-in-do', 6: 'forth-ub-exit-in-do', 7: 'forth-ub-call-at-depth-limit',
          8: 'forth-ub-recursion-max-0', 9: 'forth-ub-nbit-over-31', 1: 'forth-ub-internal'}


def signature(c, impl, verdict):
    return c.meta.get('sig') if hasattr(c, 'meta') else None


def run(cases, tier, rng):
    replaying = any(c.meta.get('tags', {}).get('cls') == 'replay' for c in cases)
    cases = ([] if replaying else corpus_cases()) + list(cases)
    san = tier == 'thorough'
    lines, owner = [], {}
    for c in cases:
        for k, ln in c.meta['lines'].items():
            lines.append(ln)
            owner['%s.%s' % (c.id, k)] = (c, k)
    C.log('%d sessions of %d programs' % (len(lines), len(cases)))
    model = run_model(lines, fixed=True)      # fixed = the single-step path of the current code
    C.log('model evaluated')
    # do not send (suspected) non-terminating sessions to the implementation
    sendable = [ln for ln in lines if not model.get(C.LINE_ID.match(ln).group(1), 'fuel').startswith('fuel')]
    # sessions whose model outcome is Fault (undefined behaviour of the C++) may corrupt the driver process: they run
    # in a process of their own, so that a later, unrelated session is never blamed for their damage
    ub_lines = [ln for ln in sendable if model[C.LINE_ID.match(ln).group(1)].startswith('fault')]
    ok_lines = [ln for ln in sendable if not model[C.LINE_ID.match(ln).group(1)].startswith('fault')]
    impl, errs = run_driver_parallel(ok_lines, per_case_timeout=10.0)
    if ub_lines:
        impl_ub, errs_ub = C.run_driver(ub_lines, drv='forthdrv', per_case_timeout=10.0)
        impl.update(impl_ub)
        errs.update(errs_ub)
    C.log('implementation evaluated (%d sessions)' % len(sendable))
    impl_san = {}
    if san:
        safe = [ln for ln in sendable if not model[C.LINE_ID.match(ln).group(1)].startswith('fault')]
        impl_san, errs_san = run_driver_parallel(safe, san=True, per_case_timeout=30.0)
        C.log('sanitizer build evaluated (%d sessions)' % len(safe))

    findings, verd, dist, samples = [], {}, {}, []
    distinct = set()
    corr = {'corr:forth-session': True, 'corr:forth-compile-errors': True, 'prop:step-independence': True,
            'prop:pause-independence': True, 'prop:deterministic': True, 'prop:growth-independence': True, 'prop:decompiled-equivalent': True,
            'prop:no-crash': True, 'prop:documented-semantics': True}

    def add(kind, what, clines, sig=None, no_input=False, ob=None, pred=None):
        clines = list(clines) + ['# signature: %s' % sig]
        findings.append(dict(kind=kind, what=what, case_lines=clines, signature=sig, no_input=no_input, pred=pred,
                             size=sum(len(x) for x in clines)))
        known = sig is not None and any(k.get('property') == 'C19' and k.get('signature') == sig and k.get('status') != 'fixed'
                                        for k in C.load_known())
        if not known:
            for o in (ob if isinstance(ob, (list, tuple)) else [ob]):
                if o:
                    corr[o] = False

    def count(v):
        verd[v] = verd.get(v, 0) + 1

    second = []          # decompiled-source sessions
    for c in cases:
        for t, v in c.meta.get('tags', {}).items():
            dist.setdefault(t, {})
            dist[t][str(v)] = dist[t].get(str(v), 0) + 1
        full = {}            # segmentation -> canonical implementation result, sessions the model executes to a final state
        all_closed = True
        for k, ln in c.meta['lines'].items():
            sid = '%s.%s' % (c.id, k)
            mres = model.get(sid)
            if mres is None:
                add('bad', 'forthrun gave no answer for ' + sid, [ln], no_input=True, ob='corr:forth-session')
                count('bad')
                all_closed = False
                continue
            if mres.startswith('unsupported'):
                count('unsupported')
                all_closed = False
                continue
            if mres.startswith('fuel'):
                count('model-out-of-fuel')
                all_closed = False
                continue
            ires = impl.get(sid, 'crash missing')
            if ires.startswith('bad'):
                add('bad', 'forthdrv rejected the session: ' + ires[:200], [ln], no_input=True, ob='corr:forth-session')
                count('bad')
                all_closed = False
                continue
            if mres.startswith('fault'):
                kind = int(mres.split()[1])
                sig = UB_SIG.get(kind, 'forth-ub-%d' % kind)
                if kind == 1 and {'exit', 'do'} <= set(c.meta.get('src', '').split()):
                    # exit inside a do-loop leaves a stale do-stack entry (known: forth-ub-exit-in-do); a later
                    # instruction then runs on that malformed state, which the model reports as Fault 1
                    sig = 'forth-ub-exit-in-do'
                add('viol', 'undefined behaviour in ForthMachine (%s; model outcome Fault %d): implementation answered: %s'
                    % (sig, kind, ires[:160]), [ln, '# impl: ' + ires[:600]] + (['# stderr: ' + errs[sid].replace('\n', '\n# ')] if sid in errs else []),
                    sig=sig, ob='prop:no-crash')
                count('ub')
                count('ub-kind-%d' % kind)
                all_closed = False
                continue
            if ires.startswith('crash') or ires.startswith('timeout'):
                add('crash', 'forth session: implementation crashed/hung (%s) where the model terminates normally' % ires,
                    [ln, '# model: ' + mres[:600]] + (['# stderr: ' + errs[sid].replace('\n', '\n# ')] if sid in errs else []),
                    ob='prop:no-crash', pred=fails_modeldiff)
                count('crash')
                all_closed = False
                continue
            ci = canon_impl(ires)
            full[k] = ci
            if k == 'A' and 'expect_stack' in c.meta:
                want = '(stack%s)' % ''.join(' %d' % v for v in c.meta['expect_stack'])
                got = re.search(r'\(stack[^)]*\)', ci)
                if got and got.group(0) == want:
                    count('spec-agree')
                else:
                    add('viol', 'documented semantics: %s "%s" must leave %s, the implementation leaves %s (%s)'
                        % (c.op, c.meta['src'], want, got.group(0) if got else ci[:80], c.meta.get('sig')),
                        [ln, '# expected ' + want, '# impl: ' + ci[:600]], sig=c.meta.get('sig'), ob='prop:documented-semantics')
                    count('spec-viol')
            if ci == mres:
                count('agree')
                if san and sid in impl_san and canon_impl(impl_san[sid]) != ci:
                    add('crash', 'sanitizer build differs / reports: ' + impl_san[sid][:200],
                        [ln, '# std: ' + ci[:600], '# san: ' + impl_san[sid][:600], '# stderr: ' + errs_san.get(sid, '').replace('\n', '\n# ')],
                        sig=None if 'AddressSanitizer' in errs_san.get(sid, '') or not errs_san.get(sid, '') else 'forth-ubsan',
                        ob='prop:no-crash')
                    count('san-diff')
                nontriv = ('(stack)' not in mres or re.search(r'\(o\d \w+ \([^)]', mres) or '(err 0)' not in mres) and mres.startswith('ok')
                if nontriv:
                    distinct.add(ln.split(' ', 1)[1])
                    if len(samples) < 6 and k == 'A' and len(ln) < 700:
                        samples.append(ln)
                if k == 'A' and ires.startswith('ok') and c.meta.get('tags', {}).get('cls') not in ('corpus', 'replay'):
                    d = decomp_of(ires)
                    p = parse_line(ln)
                    if d is not None and p:
                        dl = re.sub(r'^\(\S+', '(%s.D' % c.id, ln)
                        dl = re.sub(r'\(src[^)]*\)', '(src %s)' % ' '.join(str(b) for b in d), dl, 1)
                        second.append((c, dl, ci))
            else:
                which = 'corr:forth-compile-errors' if (mres.startswith('err compile') or ires.startswith('err compile')) else 'corr:forth-session'
                if pinned_difference(ln, mres, ci):
                    # a concrete failing input: the model is the transcription of the documented semantics (see RULE)
                    add('docdiff', 'result differs from the documented semantics: documented vocabulary only, the model '
                        '(transcription of the documentation, closed on this session) and the implementation end in different states',
                        [ln, '# impl : ' + ci[:1500], '# model: ' + mres[:1500]], ob=[which, 'prop:documented-semantics'],
                        pred=lambda ls, e=err_of(mres): fails_modeldiff(ls, need_pinned=True, model_err=e))
                    count('documented-semantics-diff')
                else:
                    add('modeldiff', 'correspondence %s broken: model and implementation disagree' % which,
                        [ln, '# impl : ' + ci[:1500], '# model: ' + mres[:1500]], no_input=True, ob=which, pred=fails_modeldiff)
                count('modeldiff')
        # ---- property-level, on the implementation alone (whether or not the model agrees): the reference session A
        # against every other segmentation / growth setting / the pause-free source.  Only programs that the model executes
        # to a final state in every session (undefined behaviour may legitimately depend on the segmentation).
        if all_closed and 'A' in full:
            for k in sorted(full):
                if k == 'A':
                    continue
                v = meta_verdict(full['A'], k, full[k])
                if v == 'same':
                    count('meta-agree-' + k)
                elif v == 'cap':
                    count('run-cap-reached' if UNFINISHED in full['A'] else 'step-cap-reached')
                elif v == 'skip':
                    count('meta-not-comparable-' + k)
                else:
                    label, ob = META_LABEL.get(k, ('segmentation %s changes the result' % k, 'prop:step-independence'))
                    la, lk = c.meta['lines']['A'], c.meta['lines'][k]
                    add('viol', '%s: reference (run, then resume until done) gives %s ; session %s gives %s'
                        % (label, observable(full['A'])[:300], k, observable(full[k])[:300]),
                        [la, lk, '# impl  %s.A: %s' % (c.id, full['A'][:1200]), '# impl  %s.%s: %s' % (c.id, k, full[k][:1200])],
                        ob=ob, pred=fails_metadiff)
                    count({'B': 'step-dependent', 'G': 'growth-dependent', 'N': 'pause-dependent'}.get(k, 'segmentation-dependent'))
    # ---- decompiled source behaves identically (implementation alone)
    if second:
        res2, errs2 = run_driver_parallel([s[1] for s in second], per_case_timeout=10.0)
        for c, ln, ref in second:
            sid = '%s.D' % c.id
            r = res2.get(sid, 'crash missing')
            if canon_impl(r) != ref:
                add('viol', '%s: %s vs %s' % (META_LABEL['D'][0], canon_impl(r)[:200], ref[:200]),
                    [c.meta['lines']['A'], ln, '# impl  %s.A: %s' % (c.id, ref[:1200]), '# impl  %s: %s' % (sid, canon_impl(r)[:1200])],
                    ob='prop:decompiled-equivalent')
                count('decompile-diff')
            else:
                count('decompile-agree')
    # minimise what is not a known kind of defect (token-level delta debugging, bounded); concrete inputs first
    nmin = 0
    for f in sorted(findings, key=lambda f: (f.get('no_input', False), f['size'])):
        pred = f.get('pred')
        if f['signature'] is not None or f['kind'] == 'bad' or nmin >= 4 or pred is None:
            continue
        sess = [l for l in f['case_lines'] if l.startswith('(') and parse_line(l)]
        if not sess:
            continue
        src_text = parse_line(sess[0])['src'].decode('latin-1')
        if not pred(sess):
            continue
        nmin += 1
        small = minimise(sess, src_text, pred)
        new = [with_src(l, small) for l in sess]
        f['case_lines'] = new + ['# minimised from: ' + ' '.join(src_text.split())[:600]] + annotate(new) + \
            [l for l in f['case_lines'] if l.startswith('# signature')]
        f['size'] = sum(len(x) for x in new)
    # keep the smallest representative per (kind, signature / obligation)
    best = {}
    for f in findings:
        f.pop('pred', None)
        key = (f['kind'], str(f['signature']), f['what'].split(':')[0][:40])
        if key not in best or f['size'] < best[key]['size']:
            best[key] = f
    fl = sorted(best.values(), key=lambda f: (f.get('no_input', False), f['size']))
    return dict(findings=fl, corr_obligations=corr, evaluations=len(lines) + len(second), distinct_nontrivial=len(distinct),
                samples=samples, distribution=dist, verdicts=verd,
                extra=dict(programs=len(cases), sessions=len(lines), sent_to_implementation=len(sendable),
                           sanitizer_sessions=len(impl_san)))
