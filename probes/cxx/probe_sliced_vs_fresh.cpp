#include <iostream>
#include "awkward/Index.h"
#include "awkward/array/NumpyArray.h"
#include "awkward/array/ListOffsetArray.h"
#include "awkward/array/ListArray.h"
#include "awkward/array/RegularArray.h"
#include "awkward/array/IndexedArray.h"
#include "awkward/Reducer.h"
using namespace awkward;
Index64 mk(std::vector<int64_t> v){ Index64 out((int64_t)v.size()); for(size_t i=0;i<v.size();i++) out.setitem_at_nowrap((int64_t)i,v[i]); return out;}
std::string js(const ContentPtr& c){ return c->tojson(false,-1,nullptr,nullptr,nullptr,"real","imag"); }
#define TRY(label, expr) try { std::cout << label << ": " << (expr) << std::endl; } catch (std::exception& e) { std::cout << label << ": EXC " << std::string(e.what()).substr(0,80) << std::endl; }
int main(){
  // value: [[[3,1],[2]],[[6,4,5],[],[9,7]],[[8]]]
  ContentPtr leaf = std::make_shared<NumpyArray>(mk({3,1,2,6,4,5,9,7,8}));
  ContentPtr inner = std::make_shared<ListOffsetArray64>(Identities::none(), util::Parameters(), mk({0,2,3,6,6,8,9}), leaf);
  ContentPtr outer = std::make_shared<ListOffsetArray64>(Identities::none(), util::Parameters(), mk({0,2,5,6}), inner);
  ContentPtr sl = outer->getitem_range(1,3);
  // fresh equivalent of sl: [[[6,4,5],[],[9,7]],[[8]]]
  ContentPtr leaf2 = std::make_shared<NumpyArray>(mk({6,4,5,9,7,8}));
  ContentPtr inner2 = std::make_shared<ListOffsetArray64>(Identities::none(), util::Parameters(), mk({0,3,3,5,6}), leaf2);
  ContentPtr fr = std::make_shared<ListOffsetArray64>(Identities::none(), util::Parameters(), mk({0,3,4}), inner2);
  std::cout << js(sl) << "\n" << js(fr) << std::endl;
  ReducerSum rs; ReducerArgmax ram; ReducerCount rc;
  for (int ax = -3; ax <= 2; ax++) {
    std::cout << "--- axis " << ax << std::endl;
    TRY("num s", js(sl->num(ax,0))); TRY("num f", js(fr->num(ax,0)));
    TRY("sort s", js(sl->sort(ax,true,true))); TRY("sort f", js(fr->sort(ax,true,true)));
    TRY("argsort s", js(sl->argsort(ax,true,true))); TRY("argsort f", js(fr->argsort(ax,true,true)));
    TRY("sum s", js(sl->reduce(rs,ax,false,false))); TRY("sum f", js(fr->reduce(rs,ax,false,false)));
    TRY("argmax s", js(sl->reduce(ram,ax,false,false))); TRY("argmax f", js(fr->reduce(ram,ax,false,false)));
    TRY("lidx s", js(sl->localindex(ax,0))); TRY("lidx f", js(fr->localindex(ax,0)));
    TRY("rpad s", js(sl->rpad(3,ax,0))); TRY("rpad f", js(fr->rpad(3,ax,0)));
    TRY("rpadc s", js(sl->rpad_and_clip(2,ax,0))); TRY("rpadc f", js(fr->rpad_and_clip(2,ax,0)));
    TRY("comb s", js(sl->combinations(2,false,nullptr,util::Parameters(),ax,0))); TRY("comb f", js(fr->combinations(2,false,nullptr,util::Parameters(),ax,0)));
    if (ax != 0 && ax != -3) { TRY("flat s", js(sl->offsets_and_flattened(ax,0).second)); TRY("flat f", js(fr->offsets_and_flattened(ax,0).second)); }
  }
  return 0;
}
