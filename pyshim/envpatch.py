# Run-time adaptations of /repo's Python code to NumPy 2.x / Python 3.12 (never edits /repo).
# Each entry is appended to ENV_SHIMS as (name, reason).


def apply(shims):
    pass
